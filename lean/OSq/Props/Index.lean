import Lean
/-
  OSq.Props.Index — the `property_theorem` command used by the per-property files `OSq/Props/Cxx.lean`.

  `property_theorem C01 OSq.ABA.aba_crisp` adds the theorem `OSq.Props.C01.aba_crisp` whose statement is
  *exactly* the statement of `OSq.ABA.aba_crisp` and whose proof is that constant.  The per-property files thus
  list, apart from all helper lemmas, precisely the theorems a property's check audits; the harness additionally
  pins a structural hash of every statement in `lean/registry.json`, so a theorem cannot be weakened quietly.
-/
open Lean Elab Command

elab "property_theorem " pid:ident thm:ident : command => do
  let n ← liftCoreM <| realizeGlobalConstNoOverloadWithInfo thm
  let ci ← getConstInfo n
  let short := n.components.getLast!
  let newName := (`OSq.Props ++ pid.getId) ++ short
  let lvls := ci.levelParams
  let val := mkConst n (lvls.map mkLevelParam)
  let decl := match ci with
    | .thmInfo _ => Declaration.thmDecl { name := newName, levelParams := lvls, type := ci.type, value := val }
    | _ => Declaration.defnDecl { name := newName, levelParams := lvls, type := ci.type, value := val,
                                  hints := .abbrev, safety := .safe }      -- a definition the theorems are about
  liftCoreM <| addDecl decl
