import OSq.Sem.Grammar
/-
  OSq.ReadDriver — runs the specification reader of `OSq/Sem/Grammar.lean` on texts (one hex-encoded text per line;
  `3 x<hex>` for cQASM 3, `1 x<hex>` for cQASM 1), so that the correspondence check can compare it with libqasm / the
  implementation's own writer output.  Run with `lake env lean --run OSq/ReadDriver.lean` (imports Batteries, so it is
  not linked into the compiled model driver).
-/
open OSq

def hexVal' (c : Char) : Option Nat :=
  if '0' ≤ c ∧ c ≤ '9' then some (c.toNat - '0'.toNat)
  else if 'a' ≤ c ∧ c ≤ 'f' then some (c.toNat - 'a'.toNat + 10) else none

def unhex (t : String) : Option String :=
  match t.toList with
  | 'x' :: rest =>
    let rec go : List Char → List UInt8 → Option (List UInt8)
      | [], acc => some acc.reverse
      | [_], _ => none
      | a :: b :: r, acc => do
          let x ← hexVal' a; let y ← hexVal' b
          go r ((x * 16 + y).toUInt8 :: acc)
    (go rest []).bind fun bs => String.fromUTF8? ⟨bs.toArray⟩
  | _ => none

def hexd (n : Nat) : Char := if n < 10 then Char.ofNat (48 + n) else Char.ofNat (87 + n)
def hex (s : String) : String :=
  "x" ++ String.ofList (s.toUTF8.toList.flatMap fun b => [hexd (b.toNat / 16), hexd (b.toNat % 16)])

def ints (l : List Int) : String := s!"{l.length}" ++ String.join (l.map fun i => s!" {i}")
def strs (l : List String) : String := s!"{l.length}" ++ String.join (l.map fun s => " " ++ hex s)

def show3 : Line3 → String
  | .decl q n => s!"decl {if q then 1 else 0} {n}"
  | .gate name ps qs => "gate " ++ hex name ++ " " ++ strs ps ++ " " ++ ints qs
  | .measure b name q => s!"measure {b} " ++ hex name ++ s!" {q}"
  | .reset name q => "reset " ++ hex name ++ s!" {q}"
  | .comment t => "comment " ++ hex t
  | .version => "version"
  | .blank => "blank"

def show1 : Line1 → String
  | .qubits n => s!"qubits {n}"
  | .instr name qs ps => "instr " ++ hex name ++ " " ++ ints qs ++ " " ++ strs ps
  | .comment t => "comment " ++ hex t
  | .version => "version"
  | .blank => "blank"

def handle (line : String) : String :=
  match (line.splitOn " ").filter (· ≠ "") with
  | ["3", t] => match unhex t with
      | none => "bad-request"
      | some s => match readProgram3 s with
        | none => "reject"
        | some (nq, nb, ls) => s!"ok {nq} {nb} {ls.length}" ++ String.join (ls.map fun l => " | " ++ show3 l)
  | ["1", t] => match unhex t with
      | none => "bad-request"
      | some s => match readProgram1 s with
        | none => "reject"
        | some (nq, ls) => s!"ok {nq} {ls.length}" ++ String.join (ls.map fun l => " | " ++ show1 l)
  | _ => "bad-request"

partial def loop (hin hout : IO.FS.Stream) : IO Unit := do
  let line ← hin.getLine
  if line.isEmpty then return ()
  let l := String.ofList (line.toList.reverse.dropWhile (fun c => c == '\n' || c == '\r')).reverse
  hout.putStrLn (handle l)
  loop hin hout

def main : IO Unit := do
  loop (← IO.getStdin) (← IO.getStdout)
