import OSq.Model.Matrix
/-
  OSq.Model.CircuitEq — statement and circuit equality (`Statement.__eq__`, `IR.__eq__`, `Circuit.__eq__` in
  ir.py / circuit.py).  Register managers are compared by size only (variable names of parsed programs are not modelled).
-/
namespace OSq
variable {α : Type} [Scalar α]

/-- `np.allclose(self.axis, other.axis, atol=ATOL)` on the three components -/
def axisClose (atol : α) (a b : Vec3 α) : Bool :=
  closeTo (1e-5 : α) atol a.1 b.1 && closeTo (1e-5 : α) atol a.2.1 b.2.1 && closeTo (1e-5 : α) atol a.2.2 b.2.2

/-- **specification of `Statement.__eq__`** (`ir.py`): `Gate.__eq__` is `gateEq` (generator and arguments are not
    compared); `Measure.__eq__` compares the qubit and the axis (`np.allclose`), *not* the bit; `Reset.__eq__` compares
    the qubit; `Comment` is a dataclass (string equality); statements of different kinds are unequal. -/
def stmtEq (atol : α) : Stmt α → Stmt α → Except Err Bool
  | .gate g1 _, .gate g2 _ => gateEq atol g1 g2
  | .measure q1 _ ax1 _, .measure q2 _ ax2 _ => .ok (q1 == q2 && axisClose atol ax1 ax2)
  | .reset q1 _, .reset q2 _ => .ok (q1 == q2)
  | .comment s1, .comment s2 => .ok (s1 == s2)
  | _, _ => .ok false

/-- Python's `list.__eq__` on two lists of the same length: element-wise, stopping at the first `False`
    (an exception raised by an element comparison propagates) -/
def stmtsEq (atol : α) : List (Stmt α) → List (Stmt α) → Except Err Bool
  | [], [] => .ok true
  | s1 :: r1, s2 :: r2 =>
    match stmtEq atol s1 s2 with
    | .ok true => stmtsEq atol r1 r2
    | .ok false => .ok false
    | .error e => .error e
  | _, _ => .ok false

/-- **specification of `Circuit.__eq__`** (`circuit.py`: `register_manager == … and ir == …`; `IR.__eq__` is
    `statements == statements`, and `list.__eq__` compares the lengths before any element): same register sizes,
    same number of statements, and pairwise equal statements. -/
def circuitEq (atol : α) (c1 c2 : Circuit α) : Except Err Bool :=
  if c1.nQubits = c2.nQubits ∧ c1.nBits = c2.nBits then
    if c1.stmts.length = c2.stmts.length then stmtsEq atol c1.stmts c2.stmts else .ok false
  else .ok false

end OSq
