import OSq.Model.IR
/-
  OSq.Model.Matrix — gate and circuit matrices (utils/matrix_expander.py,
  circuit_matrix_calculator.py), equivalence up to global phase (common.py), re-indexing
  (reindexer/qubit_reindexer.py), replacement checking (decomposer/general_decomposer.py) and
  gate comparison (ir.compare_gates).
-/
namespace OSq
variable {α : Type} [Scalar α]

namespace Mat
def ofFn (n : Nat) (f : Nat → Nat → Cx α) : Mat α :=
  ⟨n, Array.ofFn (n := n * n) fun k => f (k.val / n) (k.val % n)⟩
def get (m : Mat α) (i j : Nat) : Cx α := m.d.getD (i * m.n + j) Cx.zero
def identity (n : Nat) : Mat α := ofFn n fun i j => if i = j then Cx.one else Cx.zero
def dotRow (a b : Mat α) (i j : Nat) : Cx α :=
  (List.range a.n).foldl (fun acc k => acc + a.get i k * b.get k j) Cx.zero
/-- `a @ b` -/
def mul (a b : Mat α) : Mat α := ofFn a.n fun i j => dotRow a b i j
def smul (z : Cx α) (a : Mat α) : Mat α := ofFn a.n fun i j => z * a.get i j
end Mat

/-- `matrix_expander.can1`: `e^{iφ} (cos(θ/2) I − i sin(θ/2) (nx X + ny Y + nz Z))`. -/
def can1 (axis : Vec3 α) (angle phase : α) : Mat α :=
  let c := Trig.cos (angle / two)
  let s := Trig.sin (angle / two)
  let (nx, ny, nz) := axis
  let ph : Cx α := Cx.expI phase
  -- cos·I − i·s·(n·σ):  [[c − i s nz, −i s nx − s ny], [−i s nx + s ny, c + i s nz]]
  let m00 : Cx α := ⟨c, -(s * nz)⟩
  let m01 : Cx α := ⟨-(s * ny), -(s * nx)⟩
  let m10 : Cx α := ⟨s * ny, -(s * nx)⟩
  let m11 : Cx α := ⟨c, s * nz⟩
  Mat.ofFn 2 fun i j =>
    ph * (match i, j with
      | 0, 0 => m00 | 0, _ => m01 | _, 0 => m10 | _, _ => m11)

/-- `get_reduced_ket` (bits extraction); `ops` already in the order the code iterates them. -/
def reducedKet (ket : Nat) (ops : List Nat) : Nat :=
  (ops.zipIdx).foldl (fun acc (q, i) => acc ||| (((ket &&& (1 <<< q)) >>> q) <<< i)) 0

/-- `expand_ket` (bits deposit). -/
def expandKet (base reduced : Nat) (ops : List Nat) : Nat :=
  (ops.zipIdx).foldl
    (fun acc (q, i) =>
      let cleared := if acc.testBit q then acc - (1 <<< q) else acc
      cleared ||| (((reduced &&& (1 <<< i)) >>> i) <<< q)) base

/-- `MatrixExpander`: the `2^n × 2^n` matrix of a gate on a register of `n` qubits. -/
def expand (n : Nat) : Gate α → Except Err (Mat α)
  | .bsr q axis angle phase =>
      if q ≥ (n : Int) then .error .index
      else if q < 0 then .error .value            -- negative shift count
      else
        let qn := q.toNat
        let u := can1 axis angle phase
        let lo := 2 ^ qn
        .ok (Mat.ofFn (2 ^ n) fun r c =>
          if r % lo = c % lo ∧ r / (2 * lo) = c / (2 * lo) then u.get ((r / lo) % 2) ((c / lo) % 2)
          else Cx.zero)
  | .ctrl cq g =>
      if cq ≥ (n : Int) then .error .index
      else match expand n g with
        | .error e => .error e
        | .ok m =>
          if cq < 0 then .error .value
          else
            let cn := cq.toNat
            .ok (Mat.ofFn (2 ^ n) fun r c =>
              if c.testBit cn then m.get r c else (if r = c then Cx.one else Cx.zero))
  | .matrix m ops =>
      let rev := ops.reverse
      if rev.any (fun q => q ≥ (n : Int)) then .error .index
      else if rev.any (fun q => q < 0) then .error .value
      else if m.n != 2 ^ ops.length then .error .value
      else
        let rs := rev.map Int.toNat
        .ok (Mat.ofFn (2 ^ n) fun r c =>
          let sc := reducedKet c rs
          let sr := reducedKet r rs
          if expandKet c sr rs = r then m.get sr sc else Cx.zero)

/-- `get_circuit_matrix`: product of the gates in program order (later gates on the left);
    measurements, resets and comments are skipped. -/
def circuitMatrix (n : Nat) (stmts : List (Stmt α)) : Except Err (Mat α) :=
  stmts.foldlM (init := Mat.identity (2 ^ n)) fun acc s =>
    match s with
    | .gate g _ => do let b ← expand n g; pure (Mat.mul b acc)
    | _ => pure acc

/-- index of the first largest `|entry|`, as `np.argmax(np.abs(m))` -/
def argmaxAbs (m : Mat α) : Nat :=
  ((List.range (m.n * m.n)).foldl
    (fun (best : Nat × α) k =>
      let v := Cx.abs (m.d.getD k Cx.zero)
      if best.2 < v then (k, v) else best) (0, Cx.abs (m.d.getD 0 Cx.zero))).1

/-- `are_matrices_equivalent_up_to_global_phase` (the measured phase is normalised to modulus one) -/
def equivPhase (atol : α) (a b : Mat α) : Bool :=
  let k := argmaxAbs a
  let ea := a.d.getD k Cx.zero
  let eb := b.d.getD k Cx.zero
  if Cx.abs ea < atol ∨ Cx.abs eb < atol then false
  else
    let ph0 := Cx.div ea eb
    let ph := Cx.div ph0 (Cx.ofReal (Cx.abs ph0))
    (List.range (a.n * a.n)).all fun i =>
      let x := a.d.getD i Cx.zero
      let y := ph * b.d.getD i Cx.zero
      decide (Cx.abs (x - y) ≤ atol + (1e-5 : α) * Cx.abs y)

/-- position of `q` in `idx` (`list.index`) -/
def indexOf? (idx : List Int) (q : Int) : Option Nat :=
  let i := idx.findIdx (· == q)
  if i < idx.length then some i else none

/-- `_QubitReindexer` on gates: `q ↦ qubit_indices.index(q)`; missing ⇒ `ValueError`. -/
def reindexGate (idx : List Int) : Gate α → Except Err (Gate α)
  | .bsr q ax an ph => match indexOf? idx q with
      | some i => .ok (.bsr i ax an ph)
      | none => .error .value
  | .matrix m ops => do
      let ops' ← ops.mapM fun q => match indexOf? idx q with
        | some i => .ok (i : Int)
        | none => .error .value
      pure (.matrix m ops')
  | .ctrl c g => match indexOf? idx c with
      | some i => do let g' ← reindexGate idx g; pure (.ctrl i g')
      | none => .error .value

/-- matrix of a gate list on the sub-register spanned by `idx` -/
def localMatrix (idx : List Int) (gs : List (Gate α)) : Except Err (Mat α) := do
  let gs' ← gs.mapM (reindexGate idx)
  circuitMatrix idx.length (gs'.map fun g => Stmt.gate g none)

def dedup : List Int → List Int
  | [] => []
  | x :: xs => x :: (dedup xs).filter (· != x)

/-- `check_gate_replacement`; `none` = accepted. -/
def checkGateReplacement (atol : α) (g : Gate α) (gs : List (Gate α)) : Option Err :=
  let idx := g.operands
  let repl := (gs.map Gate.operands).flatten
  if !(repl.all fun q => idx.contains q) then some .value
  else match localMatrix idx [g], localMatrix idx gs with
    | .ok a, .ok b => if equivPhase atol a b then none else some .value
    | .error e, _ => some e
    | _, .error e => some e

/-- `compare_gates` with the union enumerated in first-occurrence order. -/
def compareGates (atol : α) (g1 g2 : Gate α) : Except Err Bool := do
  let idx := dedup (g1.operands ++ g2.operands)
  let a ← localMatrix idx [g1]
  let b ← localMatrix idx [g2]
  pure (equivPhase atol a b)

/-- `compare_gates` with an explicitly given enumeration of the union (for order-independence). -/
def compareGatesWith (atol : α) (idx : List Int) (g1 g2 : Gate α) : Except Err Bool := do
  let a ← localMatrix idx [g1]
  let b ← localMatrix idx [g2]
  pure (equivPhase atol a b)

/-- `np.allclose(a, b, atol=ATOL)` on two 2×2 operators -/
def close2 (atol : α) (a b : Mat α) : Bool :=
  (List.range 4).all fun i =>
    let x := a.d.getD i Cx.zero
    let y := b.d.getD i Cx.zero
    decide (Cx.abs (x - y) ≤ atol + (1e-5 : α) * Cx.abs y)

/-- `np.allclose(m, m[0,0] * eye(2), atol=ATOL)`: the operator is a multiple of the identity -/
def isScalar2 (atol : α) (a : Mat α) : Bool :=
  close2 atol a (Mat.ofFn 2 fun i j => if i = j then a.get 0 0 else a.get 0 0 * Cx.zero)

/-- `BlochSphereRotation.__eq__`: `np.allclose` of the two operators (phase included); on different qubits
    two rotations are the same operation only if they are the same multiple of the identity. -/
def bsrEq (atol : α) (q1 : Int) (ax1 : Vec3 α) (an1 ph1 : α) (q2 : Int) (ax2 : Vec3 α) (an2 ph2 : α) : Bool :=
  let a := can1 ax1 an1 ph1
  let b := can1 ax2 an2 ph2
  if q1 != q2 && !(isScalar2 atol a) then false
  else close2 atol a b

/-- `Gate.__eq__` dispatch: two plain rotations use `bsrEq`, everything else `compare_gates`. -/
def gateEq (atol : α) : Gate α → Gate α → Except Err Bool
  | .bsr q1 a1 n1 p1, .bsr q2 a2 n2 p2 => .ok (bsrEq atol q1 a1 n1 p1 q2 a2 n2 p2)
  | g1, g2 => compareGates atol g1 g2

end OSq
