import OSq.Model.Scalar
/-
  OSq.Model.IR — the intermediate representation and its constructors
  (opensquirrel/ir.py, opensquirrel/common.py).
-/
namespace OSq

/-- The error classes the implementation raises (messages are not modelled). -/
inductive Err
  | value | index | type | key | os | exporter | unsupported
deriving Repr, DecidableEq, Inhabited

def Err.name : Err → String
  | .value => "ValueError" | .index => "IndexError" | .type => "TypeError" | .key => "KeyError"
  | .os => "OSError" | .exporter => "ExporterError" | .unsupported => "UnsupportedGateError"

/-- An argument of a named statement (the "generator + arguments" view of it). -/
inductive Arg (α : Type)
  | qubit (i : Int)
  | bit (i : Int)
  | int (v : Int)
  | float (v : α)
deriving Inhabited

/-- `generator.__name__` and `arguments`. -/
structure Named (α : Type) where
  name : String
  args : List (Arg α)
deriving Inhabited

abbrev Vec3 (α : Type) := α × α × α

/-- Row-major square complex matrix. -/
structure Mat (α : Type) where
  n : Nat
  d : Array (Cx α)
deriving Inhabited

inductive Gate (α : Type)
  | bsr (q : Int) (axis : Vec3 α) (angle phase : α)
  | matrix (m : Mat α) (ops : List Int)
  | ctrl (c : Int) (g : Gate α)
deriving Inhabited

inductive Stmt (α : Type)
  | gate (g : Gate α) (nm : Option (Named α))         -- `nm = none` ⇔ anonymous
  | measure (q b : Int) (axis : Vec3 α) (nm : Option (Named α))
  | reset (q : Int) (nm : Option (Named α))
  | comment (s : String)
deriving Inhabited

structure Circuit (α : Type) where
  nQubits : Nat
  nBits : Nat
  stmts : List (Stmt α)
deriving Inhabited

variable {α : Type}

/-- `Gate.get_qubit_operands()` -/
def Gate.operands : Gate α → List Int
  | .bsr q _ _ _ => [q]
  | .matrix _ ops => ops
  | .ctrl c g => c :: g.operands

def Stmt.isGate : Stmt α → Bool
  | .gate _ _ => true
  | _ => false

/-- qubits a statement touches (semantic view) -/
def Stmt.qubits : Stmt α → List Int
  | .gate g _ => g.operands
  | .measure q _ _ _ => [q]
  | .reset q _ => [q]
  | .comment _ => []

def Stmt.named : Stmt α → Option (Named α)
  | .gate _ nm => nm
  | .measure _ _ _ nm => nm
  | .reset _ nm => nm
  | .comment _ => none

def Named.qubitArgs (nm : Named α) : List Int :=
  nm.args.filterMap fun | .qubit i => some i | _ => none

section numeric
variable [Scalar α]

/-- `common.normalize_angle` -/
def normalizeAngle (atol x : α) : α :=
  let twoPi : α := two * π
  let t := x - twoPi * (Trig.floor (x / twoPi) + one)
  if t < -π + atol then t + twoPi
  else if π < t then t - twoPi
  else t

def Vec3.maxAbs (v : Vec3 α) : α := maxS (maxS (absS v.1) (absS v.2.1)) (absS v.2.2)
def Vec3.norm (v : Vec3 α) : α := Trig.sqrt (v.1 * v.1 + v.2.1 * v.2.1 + v.2.2 * v.2.2)
def Vec3.scale (k : α) (v : Vec3 α) : Vec3 α := (k * v.1, k * v.2.1, k * v.2.2)
def Vec3.divBy (v : Vec3 α) (k : α) : Vec3 α := (v.1 / k, v.2.1 / k, v.2.2 / k)
def Vec3.neg (v : Vec3 α) : Vec3 α := (-v.1, -v.2.1, -v.2.2)
def Vec3.add (u v : Vec3 α) : Vec3 α := (u.1 + v.1, u.2.1 + v.2.1, u.2.2 + v.2.2)
def Vec3.dot (u v : Vec3 α) : α := u.1 * v.1 + u.2.1 * v.2.1 + u.2.2 * v.2.2
def Vec3.cross (u v : Vec3 α) : Vec3 α :=
  (u.2.1 * v.2.2 - u.2.2 * v.2.1, u.2.2 * v.1 - u.1 * v.2.2, u.1 * v.2.1 - u.2.1 * v.1)
def Vec3.get (v : Vec3 α) : Nat → α
  | 0 => v.1
  | 1 => v.2.1
  | _ => v.2.2

/-- `Axis._normalize_axis`: refuse zero / non-finite vectors, rescale tiny and huge ones, normalise. -/
def mkAxis (v : Vec3 α) : Except Err (Vec3 α) :=
  let l := v.maxAbs
  if Scalar.decEqB l zero || !(Trig.finite l) || !(Trig.finite v.1) || !(Trig.finite v.2.1)
      || !(Trig.finite v.2.2) then .error .value
  else
    let w := if (1e-100 : α) < l ∧ l < (1e100 : α) then v else v.divBy l
    .ok (w.divBy w.norm)

/-- `BlochSphereRotation.__init__` -/
def mkBSR (atol : α) (q : Int) (axis : Vec3 α) (angle phase : α) : Except Err (Gate α) := do
  let a ← mkAxis axis
  pure (.bsr q a (normalizeAngle atol angle) (normalizeAngle atol phase))

/-- `BlochSphereRotation.is_identity` / `ControlledGate.is_identity`;
    for matrix gates `np.allclose(matrix, eye)`. -/
def Gate.isIdentity (atol : α) : Gate α → Bool
  | .bsr _ _ angle phase => decide (absS angle < atol) && decide (absS phase < atol)
  | .matrix m _ =>
      (List.range (m.n * m.n)).all fun k =>
        let e := m.d.getD k Cx.zero
        let t : Cx α := if k / m.n = k % m.n then Cx.one else Cx.zero
        decide (Cx.abs (e - t) ≤ (1e-8 : α) + (1e-5 : α) * Cx.abs t)
  | .ctrl _ g => g.isIdentity atol

end numeric

/-- `Gate._check_repeated_qubit_operands` -/
def hasDup : List Int → Bool
  | [] => false
  | x :: xs => xs.contains x || hasDup xs

/-- `MatrixGate.__init__` -/
def mkMatrix (m : Mat α) (ops : List Int) : Except Err (Gate α) :=
  if ops.length < 2 then .error .value
  else if hasDup ops then .error .value
  else if m.n != 2 ^ ops.length || m.d.size != m.n * m.n then .error .value
  else .ok (.matrix m ops)

/-- `ControlledGate.__init__` -/
def mkCtrl (c : Int) (g : Gate α) : Except Err (Gate α) :=
  if hasDup (c :: g.operands) then .error .value else .ok (.ctrl c g)

/-- `Comment.__post_init__` -/
def containsSub (s sub : String) : Bool := (s.splitOn sub).length > 1
def mkComment (s : String) : Except Err (Stmt α) :=
  if containsSub s "*/" then .error .value else .ok (.comment s)

/-! Well-formedness (decidable, structural part). -/
def inRange (n : Nat) (i : Int) : Bool := decide (0 ≤ i) && decide (i < n)

def Gate.shapeOk : Gate α → Bool
  | .bsr _ _ _ _ => true
  | .matrix m ops => ops.length ≥ 2 && m.n == 2 ^ ops.length && m.d.size == m.n * m.n
  | .ctrl _ g => g.shapeOk

def Stmt.wf (nq nb : Nat) : Stmt α → Bool
  | .gate g _ => g.operands.all (inRange nq) && !hasDup g.operands && g.shapeOk
  | .measure q b _ _ => inRange nq q && inRange nb b
  | .reset q _ => inRange nq q
  | .comment s => !containsSub s "*/"

def Circuit.wf (c : Circuit α) : Bool := c.stmts.all (Stmt.wf c.nQubits c.nBits)

end OSq
