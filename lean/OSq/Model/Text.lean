import OSq.Model.IR
import OSq.Generated.Tables
/-
  OSq.Model.Text — Python's `format(x, '.8')` computed from the IEEE-754 bits by exact integer
  arithmetic, the cQASM 3 writer (writer/writer.py) and the cQASM 1 exporter
  (exporter/cqasmv1_exporter.py).  The writers are parametric in the float formatter so that
  their structural theorems hold for every scalar type.
-/
namespace OSq

/-! ### `format(x, '.P')` (no type character): like `repr`-style 'g' with at least one digit after
    the point in fixed notation; exponent notation when `decpt > P - 1` or `decpt < -3`. -/

/-- digits of `n` in base 10 -/
def natDigits (n : Nat) : String := toString n

def pow10 (k : Nat) : Nat := 10 ^ k

/-- Round the positive rational `num/den` to `P` significant digits, half-even.
    Returns `(digits, decpt)` with `digits` a `P`-digit number (≥ 10^(P-1)) and value
    `0.d1d2…dP × 10^decpt`. -/
def roundSig (P num den : Nat) : Nat × Int :=
  -- find e10 with 10^e10 ≤ num/den < 10^(e10+1)
  let rec findUp (fuel : Nat) (e : Nat) : Nat :=       -- largest e with 10^e * den ≤ num
    match fuel with
    | 0 => e
    | fuel + 1 => if pow10 (e + 1) * den ≤ num then findUp fuel (e + 1) else e
  let rec findDown (fuel : Nat) (e : Nat) : Nat :=     -- smallest e with num * 10^e ≥ den
    match fuel with
    | 0 => e
    | fuel + 1 => if num * pow10 e < den then findDown fuel (e + 1) else e
  let e10 : Int :=
    if den ≤ num then (findUp 400 0 : Int) else -((findDown 400 0 : Nat) : Int)
  -- scaled = num/den * 10^(P-1-e10), rounded half-even to an integer
  let sh : Int := (P : Int) - 1 - e10
  let (n2, d2) := if sh ≥ 0 then (num * pow10 sh.toNat, den) else (num, den * pow10 (-sh).toNat)
  let q := n2 / d2
  let r := n2 % d2
  let q' := if 2 * r > d2 then q + 1 else if 2 * r < d2 then q else (if q % 2 = 0 then q else q + 1)
  if q' ≥ pow10 P then (q' / 10, e10 + 2) else (q', e10 + 1)

def stripTrailingZeros (s : String) : String :=
  String.ofList (s.toList.reverse.dropWhile (· == '0')).reverse

/-- pad an exponent to at least two digits -/
def expDigits (e : Nat) : String := if e < 10 then "0" ++ toString e else toString e

/-- format the finite non-negative value `num/den` (> 0) with precision `P` -/
def fmtPos (P num den : Nat) : String :=
  let (digs, decpt) := roundSig P num den
  let ds0 := (stripTrailingZeros (natDigits digs)).toList   -- significant digits without trailing zeros
  let ds := if ds0.isEmpty then ['0'] else ds0
  if decpt > (P : Int) - 1 ∨ decpt < -3 then
    -- exponent notation d.ddde±XX (repr-style: no '.0' when a single digit)
    let first := ds.take 1
    let rest := ds.drop 1
    let e := decpt - 1
    let mant := if rest.isEmpty then first else first ++ ['.'] ++ rest
    String.ofList mant ++ "e" ++ (if e < 0 then "-" else "+") ++ expDigits e.natAbs
  else if decpt ≤ 0 then
    "0." ++ String.ofList (List.replicate (-decpt).toNat '0' ++ ds)
  else
    let dp := decpt.toNat
    if ds.length ≤ dp then String.ofList (ds ++ List.replicate (dp - ds.length) '0') ++ ".0"
    else String.ofList (ds.take dp ++ ['.'] ++ ds.drop dp)

/-- `format(x, '.P')` from the IEEE-754 double bit pattern -/
def fmtBits (P : Nat) (bits : UInt64) : String :=
  let sign := (bits >>> 63) != 0
  let ex := ((bits >>> 52) &&& 0x7ff).toNat
  let fr := (bits &&& 0xfffffffffffff).toNat
  let s := if sign then "-" else ""
  if ex == 0x7ff then (if fr == 0 then s ++ "inf" else "nan")
  else if ex == 0 && fr == 0 then s ++ "0.0"
  else
    let (m, e) : Nat × Int := if ex == 0 then (fr, -1074) else (fr + 2 ^ 52, (ex : Int) - 1075)
    let (num, den) := if e ≥ 0 then (m * 2 ^ e.toNat, 1) else (m, 2 ^ (-e).toNat)
    s ++ fmtPos P num den

/-- the repaired `visit_float`: keep a decimal point in exponent notation -/
def fixExponent (text : String) : String :=
  match text.splitOn "e" with
  | [mant, ex] => if mant.contains '.' then text else mant ++ ".0e" ++ ex
  | _ => text

def fmtFloat (P : Nat) (x : Float) : String := fixExponent (fmtBits P x.toBits)

/-! ### Writers -/
variable {α : Type}

def showQubit (i : Int) : String := s!"q[{i}]"
def showBit (i : Int) : String := s!"b[{i}]"

def showArg (fmt : α → String) : Arg α → String
  | .qubit i => showQubit i
  | .bit i => showBit i
  | .int v => toString v
  | .float v => fmt v

def isQubitArg : Arg α → Bool
  | .qubit _ => true
  | _ => false

/-- one statement of the cQASM 3 writer.  Anonymous gates are written as their (opaque, single-line)
    `repr`; the model emits the placeholder `anon`. -/
def writeStmt (fmt : α → String) (anon : Gate α → String) : Stmt α → String
  | .comment s => "\n/* " ++ s ++ " */\n\n"
  | .measure _ _ _ none => "<abstract_measure>\n"
  | .measure _ _ _ (some nm) =>
      let b := (nm.args.getD 1 (.int 0))
      let q := (nm.args.getD 0 (.int 0))
      showArg fmt b ++ " = " ++ nm.name ++ " " ++ showArg fmt q ++ "\n"
  | .reset _ none => "<abstract_reset>\n"
  | .reset _ (some nm) => nm.name ++ " " ++ showArg fmt (nm.args.getD 0 (.int 0)) ++ "\n"
  | .gate g none => anon g ++ "\n"
  | .gate _ (some nm) =>
      let params := (nm.args.filter (!isQubitArg ·)).map (showArg fmt)
      let qs := (nm.args.filter isQubitArg).map (showArg fmt)
      let name := if params.isEmpty then nm.name else nm.name ++ "(" ++ ", ".intercalate params ++ ")"
      name ++ " " ++ ", ".intercalate qs ++ "\n"

def rstripNl (s : String) : String :=
  String.ofList (s.toList.reverse.dropWhile (fun c => c == '\n' || c == ' ' || c == '\t' || c == '\r')).reverse

/-- `writer.circuit_to_string` -/
def writeCircuit (fmt : α → String) (anon : Gate α → String) (c : Circuit α) : String :=
  let header := "version 3.0\n\nqubit[" ++ toString c.nQubits ++ "] q\n" ++
    (if c.nBits > 0 then "bit[" ++ toString c.nBits ++ "] b\n\n" else "\n")
  rstripNl (header ++ String.join (c.stmts.map (writeStmt fmt anon))) ++ "\n"

/-- one statement of the cQASM 1 exporter; anonymous gate ⇒ `UnsupportedGateError`;
    abstract measure/reset (no arguments) ⇒ `TypeError` (subscripting `None`). -/
def exportV1Stmt (fmt : α → String) : Stmt α → Except Err String
  | .comment s => .ok ("\n/* " ++ s ++ " */\n\n")
  | .measure _ _ _ none => .error .type
  | .measure _ _ _ (some nm) => .ok ("measure_z " ++ showArg fmt (nm.args.getD 0 (.int 0)) ++ "\n")
  | .reset _ none => .error .type
  | .reset _ (some nm) => .ok ("prep_z " ++ showArg fmt (nm.args.getD 0 (.int 0)) ++ "\n")
  | .gate _ none => .error .unsupported
  | .gate _ (some nm) =>
      let params := (nm.args.filter (!isQubitArg ·)).map (showArg fmt)
      let qs := (nm.args.filter isQubitArg).map (showArg fmt)
      .ok (nm.name.toLower ++ " " ++ ", ".intercalate qs ++
        (if params.isEmpty then "" else ", " ++ ", ".intercalate params) ++ "\n")

/-- `cqasmv1_exporter.export` -/
def exportV1 (fmt : α → String) (c : Circuit α) : Except Err String := do
  let header := "version 1.0\n\n" ++ (if c.nQubits > 0 then "qubits " ++ toString c.nQubits else "") ++ "\n\n"
  let lines ← c.stmts.mapM (exportV1Stmt fmt)
  pure (rstripNl (header ++ String.join lines) ++ "\n")

end OSq
