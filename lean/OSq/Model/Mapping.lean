import OSq.Model.IR
/-
  OSq.Model.Mapping — `Mapping` validity, `Mapper` size check, the in-place qubit remapper
  (mapper/mapping.py, general_mapper.py, qubit_remapper.py) as a value model and as a small
  object-identity (heap) model, and the interaction graph (mapper/utils.py).
-/
namespace OSq
variable {α : Type}

/-- `Mapping.__init__`: `dict(enumerate(l))`, valid iff `keys == set(values)`. -/
def mappingValid (l : List Int) : Bool :=
  let keys := (List.range l.length).map Int.ofNat
  keys.all (fun k => l.contains k) && l.all (fun v => keys.contains v)

def mkMapping (l : List Int) : Except Err (List Int) :=
  if mappingValid l then .ok l else .error .value

/-- `Mapper.__init__`: mapping size must equal the register size. -/
def mkMapper (n : Nat) (m : List Int) : Except Err (List Int) :=
  if m.length == n then .ok m else .error .value

def mapIdx (m : List Int) (q : Int) : Int :=
  if 0 ≤ q then m.getD q.toNat q else q

def Gate.mapQubits (m : List Int) : Gate α → Gate α
  | .bsr q ax an ph => .bsr (mapIdx m q) ax an ph
  | .matrix mt ops => .matrix mt (ops.map (mapIdx m))
  | .ctrl c g => .ctrl (mapIdx m c) (g.mapQubits m)

def Arg.mapQubits (m : List Int) : Arg α → Arg α
  | .qubit i => .qubit (mapIdx m i)
  | a => a

def Named.mapQubits (m : List Int) (nm : Named α) : Named α :=
  { nm with args := nm.args.map (Arg.mapQubits m) }

def Stmt.mapQubits (m : List Int) : Stmt α → Stmt α
  | .gate g nm => .gate (g.mapQubits m) (nm.map (Named.mapQubits m))
  | .measure q b ax nm => .measure (mapIdx m q) b ax (nm.map (Named.mapQubits m))
  | .reset q nm => .reset (mapIdx m q) (nm.map (Named.mapQubits m))
  | .comment s => .comment s

/-- every qubit index a statement refers to, in either view (`_QubitCollector`) -/
def Stmt.allQubits (s : Stmt α) : List Int :=
  s.qubits ++ (match s.named with | some nm => nm.qubitArgs | none => [])

/-- `remap_ir`: refuse mappings larger than the register or not covering a used qubit, *before*
    touching anything; otherwise relabel every qubit occurrence. -/
def remap (m : List Int) (c : Circuit α) : Circuit α × Option Err :=
  if m.length > c.nQubits then (c, some .value)
  else if !(c.stmts.all fun s => s.allQubits.all fun q => decide (0 ≤ q) && decide (q < m.length)) then
    (c, some .value)
  else ({ c with stmts := c.stmts.map (Stmt.mapQubits m) }, none)

/-! ### Object-identity model of the remapper

  An IR is a list of statement-object ids; each statement object owns qubit *cells* (ids), in both
  views.  The remapper visits the IR entry by entry and relabels every cell not yet visited. -/

structure Heap where
  ir : List Nat                      -- statement object ids, in program order (may repeat)
  cellsOf : Nat → List Nat           -- the qubit cells reachable from a statement object
  val : Nat → Int                    -- the index stored in a cell

/-- visit the cells in order; relabel the unvisited ones -/
def Heap.visitCells (m : List Int) : List Nat → (Nat → Int) × List Nat → (Nat → Int) × List Nat
  | [], st => st
  | c :: cs, (val, seen) =>
    if seen.contains c then Heap.visitCells m cs (val, seen)
    else Heap.visitCells m cs ((fun x => if x = c then mapIdx m (val c) else val x), c :: seen)

def Heap.remap (m : List Int) (h : Heap) : Heap :=
  let cells := h.ir.flatMap h.cellsOf
  { h with val := (Heap.visitCells m cells (h.val, [])).1 }

/-! ### Interaction graph (`make_interaction_graph`) -/

def insertEdge (e : Int × Int) (es : List (Int × Int)) : List (Int × Int) :=
  let e' := if e.1 ≤ e.2 then e else (e.2, e.1)
  if es.contains e' then es else es ++ [e']

/-- edges as ordered pairs `(min, max)`, first-occurrence order; ≥ 3 operands ⇒ `ValueError` -/
def interactionGraph (stmts : List (Stmt α)) : Except Err (List (Int × Int)) :=
  stmts.foldlM (init := []) fun es s =>
    match s with
    | .gate g _ =>
      match g.operands with
      | [_] => pure es
      | [a, b] => pure (insertEdge (a, b) es)
      | [] => pure es        -- cannot occur
      | _ => throw .value
    | _ => pure es

end OSq
