import OSq.Model.Passes
import OSq.Model.Mapping
/-
  OSq.Model.Pipeline — sequences of passes (the public methods of `Circuit` applied one after the
  other: `decompose`, `replace`, `merge_single_qubit_gates`, `map`).  A pass that raises leaves the
  state it reached and stops the sequence.
-/
namespace OSq
variable {α : Type} [Scalar α]

inductive Pass (α : Type)
  | decompose (d : Decomposer)
  | replace (name : String) (f : Nat → List (Arg α) → Except Err (List (GStmt α)))
  | merge
  | map (m : List Int)

/-- one `Circuit` method call -/
def Pass.run (atol : α) : Pass α → Circuit α → Circuit α × Option Err
  | .decompose d, c =>
      let r := OSq.decomposeBuiltin atol d c.stmts
      ({ c with stmts := r.1 }, r.2)
  | .replace name f, c =>
      let r := OSq.replace atol name f c.stmts
      ({ c with stmts := r.1 }, r.2)
  | .merge, c => OSq.merge atol c
  | .map m, c =>
      match mkMapping m >>= mkMapper c.nQubits with
      | .error e => (c, some e)
      | .ok m' => remap m' c

/-- a sequence of calls; the first exception ends it -/
def runPasses (atol : α) : List (Pass α) → Circuit α → Circuit α × Option Err
  | [], c => (c, none)
  | p :: ps, c =>
    match p.run atol c with
    | (c', none) => runPasses atol ps c'
    | (c', some e) => (c', some e)

end OSq
