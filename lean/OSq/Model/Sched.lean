import OSq.Model.Matrix
import OSq.Generated.Tables
import OSq.Model.Passes
/-
  OSq.Model.Sched — the quantify-scheduler exporter (exporter/quantify_scheduler_exporter.py),
  as the abstract list of operations it adds to the schedule, plus the acquisition bookkeeping.
-/
namespace OSq
variable {α : Type} [Scalar α]

inductive SOp (α : Type)
  | rxy (q : Int) (theta phi : α)
  | rz (q : Int) (theta : α)
  | cnot (c t : Int)
  | cz (c t : Int)
  | measure (q : Int) (acqChannel acqIndex : Nat)
  | reset (q : Int)
deriving Inhabited

/-- `math.degrees` -/
def degrees (x : α) : α := x * (sc 180 / π)
/-- `round(x, 5)` -/
def round5 (x : α) : α := roundTo (1e5 : α) x

structure SchedState (α : Type) where
  ops : List (SOp α)                       -- reversed
  acq : List Nat                           -- acq_index_record, per qubit
  bitmap : List (Option (Nat × Nat))       -- bit_string_mapping, per bit: (acq_index, qubit)

def listSet {β : Type} : List β → Nat → β → List β
  | [], _, _ => []
  | _ :: xs, 0, y => y :: xs
  | x :: xs, n + 1, y => x :: listSet xs n y

def schedStmt (atol : α) (st : SchedState α) : Stmt α → Except Err (SchedState α)
  | .comment _ => .ok st
  | .gate (.bsr q axis angle _) _ =>
      if absS axis.2.2 < atol then
        let theta := round5 (degrees angle)
        let phi := round5 (degrees (Trig.atan2 axis.2.1 axis.1))
        .ok { st with ops := .rxy q theta phi :: st.ops }
      else if absS axis.1 < atol ∧ absS axis.2.1 < atol then
        let a := if zero < axis.2.2 then angle else -angle
        .ok { st with ops := .rz q (round5 (degrees a)) :: st.ops }
      else .error .exporter
  | .gate (.matrix _ _) _ => .error .exporter
  | .gate (.ctrl c (.bsr tq tax tan tph)) _ =>
      let isGate (name : String) : Bool :=
        match named atol name [.qubit tq] with
        | .ok (.bsr q ax an ph, _) => bsrEq atol tq tax tan tph q ax an ph
        | _ => false
      if isGate "X" then .ok { st with ops := .cnot c tq :: st.ops }
      else if isGate "Z" then .ok { st with ops := .cz c tq :: st.ops }
      else .error .exporter
  | .gate (.ctrl _ _) _ => .error .exporter
  | .measure q b _ _ =>
      if q < 0 ∨ b < 0 then .error .index      -- (negative indices wrap around in Python; not modelled)
      else match st.acq[q.toNat]?, st.bitmap[b.toNat]? with
        | some k, some _ =>
          .ok { ops := .measure q q.toNat k :: st.ops
                acq := listSet st.acq q.toNat (k + 1)
                bitmap := listSet st.bitmap b.toNat (some (k, q.toNat)) }
        | _, _ => .error .index
  | .reset q _ => .ok { st with ops := .reset q :: st.ops }

/-- `quantify_scheduler_exporter.export` -/
def exportSched (atol : α) (c : Circuit α) : Except Err (List (SOp α) × List (Option (Nat × Nat))) := do
  let init : SchedState α := ⟨[], List.replicate c.nQubits 0, List.replicate c.nBits none⟩
  let st ← c.stmts.foldlM (schedStmt atol) init
  pure (st.ops.reverse, st.bitmap)

end OSq
