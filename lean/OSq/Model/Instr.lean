import OSq.Model.IR
/-
  OSq.Model.Instr — the expression language in which the translator renders
  `default_gates.py`, `default_measures.py`, `default_resets.py`, and its evaluator
  (`named_gate` / `named_measure` / `named_reset` wrappers included).
-/
namespace OSq

inductive Kind | qubit | bit | int | float
deriving Repr, DecidableEq, Inhabited

/-- scalar expressions occurring in gate definitions -/
inductive SExpr
  | pi
  | nat (n : Nat)
  | sci (mantissa : Nat) (negExp : Bool) (exp : Nat)
  | var (name : String)              -- a local variable
  | fparam (name : String)           -- `<name>.value` of a `Float` parameter
  | neg (e : SExpr)
  | mul (a b : SExpr)
  | div (a b : SExpr)
  | normalize (e : SExpr)            -- `normalize_angle(e)`
  | pow2 (iparam : String)           -- `2 ** Int(<name>).value`
deriving Repr, Inhabited

inductive GExpr
  | bsr (q : String) (ax ay az : Int) (angle phase : SExpr)
  | identity (q : String)                              -- `BlochSphereRotation.identity(q)`
  | ctrl (c : String) (body : GExpr)                   -- `ControlledGate(c, body)`
  | call (name : String) (args : List String)          -- `X(target)`
  | letS (name : String) (val : SExpr) (body : GExpr)  -- `name = val; …`
deriving Repr, Inhabited

structure GateDef where
  name : String
  params : List (String × Kind)
  body : GExpr
deriving Repr, Inhabited

structure MeasureDef where
  name : String
  params : List (String × Kind)
  qparam : String
  bparam : String
  axis : Int × Int × Int
deriving Repr, Inhabited

structure ResetDef where
  name : String
  params : List (String × Kind)
  qparam : String
deriving Repr, Inhabited

variable {α : Type} [Scalar α]

abbrev Env (α : Type) := List (String × Arg α)

def Env.find? (env : Env α) (n : String) : Option (Arg α) :=
  (List.find? (fun p => p.1 == n) env).map (·.2)

def intToScalar (i : Int) : α := if i < 0 then -(sc i.natAbs) else sc i.natAbs

def pow2Int (k : Int) : α :=
  if k ≥ 0 then sc (2 ^ k.toNat) else one / sc (2 ^ (-k).toNat)

def SExpr.eval (atol : α) (env : Env α) (loc : List (String × α)) : SExpr → Except Err α
  | .pi => .ok π
  | .nat n => .ok (sc n)
  | .sci m s e => .ok (OfScientific.ofScientific m s e)
  | .var n => match List.find? (fun p => p.1 == n) loc with
      | some p => .ok p.2
      | none => .error .key
  | .fparam n => match env.find? n with
      | some (.float v) => .ok v
      | _ => .error .type
  | .neg e => do let v ← e.eval atol env loc; pure (-v)
  | .mul a b => do let x ← a.eval atol env loc; let y ← b.eval atol env loc; pure (x * y)
  | .div a b => do let x ← a.eval atol env loc; let y ← b.eval atol env loc; pure (x / y)
  | .normalize e => do let v ← e.eval atol env loc; pure (normalizeAngle atol v)
  | .pow2 n => match env.find? n with
      | some (.int k) => .ok (pow2Int k)
      | _ => .error .type

def envQubit (env : Env α) (n : String) : Except Err Int :=
  match env.find? n with
  | some (.qubit i) => .ok i
  | _ => .error .type

/-- bind positional arguments to the parameters; the wrappers convert by annotation:
    qubit-like → `Qubit`, int-like → `Int`; a `Float`/`Bit` parameter must already be one. -/
def bindArgs : List (String × Kind) → List (Arg α) → Except Err (Env α)
  | [], _ => .ok []           -- surplus positional arguments are rejected by the caller
  | _ :: _, [] => .error .index
  | (n, k) :: ps, a :: as => do
      let a' : Arg α ← match k, a with
        | .qubit, .qubit i => pure (.qubit i)
        | .qubit, .int i => pure (.qubit i)        -- a bare Python int
        | .int, .int i => pure (.int i)
        | .float, .float v => pure (.float v)
        | .bit, .bit i => pure (.bit i)
        | _, _ => throw .type
      let rest ← bindArgs ps as
      pure ((n, a') :: rest)

mutual
/-- evaluate the body of a gate definition -/
def GExpr.eval (atol : α) (table : List GateDef) (fuel : Nat) (env : Env α) (loc : List (String × α)) :
    GExpr → Except Err (Gate α)
  | .bsr q ax ay az angle phase => do
      let qi ← envQubit env q
      let an ← angle.eval atol env loc
      let ph ← phase.eval atol env loc
      mkBSR atol qi (intToScalar ax, intToScalar ay, intToScalar az) an ph
  | .identity q => do
      let qi ← envQubit env q
      mkBSR atol qi (one, zero, zero) zero zero
  | .ctrl c body => do
      let ci ← envQubit env c
      let g ← body.eval atol table fuel env loc
      mkCtrl ci g
  | .call name args => do
      let as ← args.mapM fun a => match env.find? a with
        | some v => pure v
        | none => throw Err.key
      match fuel with
      | 0 => throw .value
      | fuel + 1 => evalNamed atol table fuel name as
  | .letS n v body => do
      let x ← v.eval atol env loc
      body.eval atol table fuel env ((n, x) :: loc)

/-- call a gate of the table by name with positional arguments -/
def evalNamed (atol : α) (table : List GateDef) (fuel : Nat) (name : String) (args : List (Arg α)) :
    Except Err (Gate α) :=
  match table.find? (·.name == name) with
  | none => .error .value
  | some d =>
      if args.length > d.params.length then .error .type
      else do
        let env ← bindArgs d.params args
        d.body.eval atol table fuel env []
end

/-- `named_gate` wrapper: the gate and its `arguments` tuple -/
def callGate (atol : α) (table : List GateDef) (name : String) (args : List (Arg α)) :
    Except Err (Gate α × Named α) :=
  match table.find? (·.name == name) with
  | none => .error .value
  | some d =>
      if args.length > d.params.length then .error .type
      else do
        let env ← bindArgs d.params args
        let g ← d.body.eval atol table 8 env []
        pure (g, ⟨name, env.map (·.2)⟩)

def callMeasure (table : List MeasureDef) (name : String) (args : List (Arg α)) : Except Err (Stmt α) :=
  match table.find? (·.name == name) with
  | none => .error .value
  | some d =>
      if args.length > d.params.length then .error .type
      else do
        let env ← bindArgs d.params args
        let q ← envQubit env d.qparam
        let b ← match env.find? d.bparam with
          | some (.bit i) => pure i
          | _ => throw Err.type
        let ax ← mkAxis (intToScalar d.axis.1, intToScalar d.axis.2.1, intToScalar d.axis.2.2)
        pure (.measure q b ax (some ⟨name, env.map (·.2)⟩))

def callReset (table : List ResetDef) (name : String) (args : List (Arg α)) : Except Err (Stmt α) :=
  match table.find? (·.name == name) with
  | none => .error .value
  | some d =>
      if args.length > d.params.length then .error .type
      else do
        let env ← bindArgs d.params args
        let q ← envQubit env d.qparam
        pure (.reset q (some ⟨name, env.map (·.2)⟩))

end OSq
