import OSq.Model.Matrix
import OSq.Generated.Tables
/-
  OSq.Model.Passes — rotation composition and the merge pass (merger/general_merger.py), the
  built-in decomposers (decomposer/aba_decomposer.py, mckay_decomposer.py, cnot_decomposer.py,
  utils/identity_filter.py) and the decompose / replace drivers (decomposer/general_decomposer.py).

  Passes mutate the IR in place and may raise half-way, so every pass returns the state it leaves
  behind *and* the error: `List (Stmt α) × Option Err`.
-/
namespace OSq
variable {α : Type} [Scalar α]

/-- A gate statement: semantic gate plus optional name/arguments. -/
abbrev GStmt (α : Type) := Gate α × Option (Named α)

def GStmt.toStmt (g : GStmt α) : Stmt α := .gate g.1 g.2

/-- call a default gate through the generated table, as the decomposers do (`Rx(q, Float(θ))`) -/
def named (atol : α) (name : String) (args : List (Arg α)) : Except Err (GStmt α) := do
  let (g, nm) ← callGate atol Gen.gateTable name args
  pure (g, some nm)

def filterOutIdentities (atol : α) (gs : List (GStmt α)) : List (GStmt α) :=
  gs.filter fun g => !(g.1.isIdentity atol)

/-! ### Composition of two rotations (`compose_bloch_sphere_rotations a b`, i.e. `U_a · U_b`) -/

structure Rot (α : Type) where
  q : Int
  axis : Vec3 α
  angle : α
  phase : α
  nm : Option (Named α)

def Rot.isIdentity (atol : α) (r : Rot α) : Bool :=
  decide (absS r.angle < atol) && decide (absS r.phase < atol)

def Rot.toGStmt (r : Rot α) : GStmt α := (.bsr r.q r.axis r.angle r.phase, r.nm)

def identityRot (q : Int) : Rot α := ⟨q, (one, zero, zero), zero, zero, none⟩

def composeRot (atol : α) (a b : Rot α) : Except Err (Rot α) :=
  if a.q != b.q then .error .value
  else
    let sa := Trig.sin (a.angle / two); let ca := Trig.cos (a.angle / two)
    let sb := Trig.sin (b.angle / two); let cb := Trig.cos (b.angle / two)
    let arg := clamp1 (ca * cb - sa * sb * Vec3.dot a.axis b.axis)
    let combined := two * Trig.acos arg
    let s := Trig.sin (combined / two)
    if absS s < atol then .ok (identityRot a.q)
    else
      let k := one / s
      let cr := Vec3.cross a.axis b.axis
      let comp (i : Nat) : α :=
        roundTo (1e7 : α) (k * ((sa * cb) * a.axis.get i + (ca * sb) * b.axis.get i + (sa * sb) * cr.get i))
      let phase := roundTo (1e7 : α) (a.phase + b.phase)
      let nm := if a.isIdentity atol then b.nm else if b.isIdentity atol then a.nm else none
      match mkAxis (comp 0, comp 1, comp 2) with
      | .error e => .error e
      | .ok ax => .ok ⟨a.q, ax, normalizeAngle atol combined, normalizeAngle atol phase, nm⟩

/-! ### A-B-A decomposition -/

/-- the six decomposers, as (index_a, index_b) into `[Rx, Ry, Rz]` -/
inductive ABAKind | XYX | XZX | YXY | YZY | ZXZ | ZYZ
deriving Repr, DecidableEq, Inhabited

def ABAKind.ia : ABAKind → Nat
  | .XYX | .XZX => 0 | .YXY | .YZY => 1 | .ZXZ | .ZYZ => 2
def ABAKind.ib : ABAKind → Nat
  | .YXY | .ZXZ => 0 | .XYX | .ZYZ => 1 | .XZX | .YZY => 2
/-- `({0,1,2} - {ia, ib}).pop()` -/
def ABAKind.ic (k : ABAKind) : Nat := 3 - k.ia - k.ib
/-- `index_a - index_b in (-1, 2)` -/
def ABAKind.sinMNeg (k : ABAKind) : Bool :=
  ((k.ia : Int) - (k.ib : Int) == -1) || ((k.ia : Int) - (k.ib : Int) == 2)
def rotName : Nat → String
  | 0 => "Rx" | 1 => "Ry" | _ => "Rz"

/-- `math.acos` raises `ValueError` outside `[-1, 1]` -/
def acosChecked (x : α) : Except Err α :=
  if x < -one ∨ one < x then .error .value else .ok (Trig.acos x)

/-- `ABADecomposer.get_decomposition_angles` -/
def abaAngles (atol : α) (k : ABAKind) (alpha : α) (axis : Vec3 α) : Except Err (α × α × α) := do
  let a := axis.get k.ia
  let b := axis.get k.ib
  let c := axis.get k.ic
  if !(decide (-π + atol ≤ alpha) && decide (alpha ≤ π + atol)) then throw .value
  let (p, theta2, m) ←
    if absS (alpha - π) < atol then
      if absS a < atol then do
        let ac ← acosChecked b
        pure ((zero : α), (π : α), Trig.copysign (two * ac) c)
      else do
        let p : α := π
        let ac ← acosChecked a
        let theta2 := two * ac
        if absS (Trig.sin (theta2 / two)) < atol then pure (p, theta2, p)
        else
          let arg := clamp1 (b / Trig.sin (theta2 / two))
          pure (p, theta2, Trig.copysign (two * Trig.acos arg) c)
    else do
      let p := two * Trig.atan2 (a * Trig.sin (alpha / two)) (Trig.cos (alpha / two))
      let t := a * Trig.tan (alpha / two)
      let arg := clamp1 (Trig.cos (alpha / two) * Trig.sqrt (one + t * t))
      let theta2 := Trig.copysign (two * Trig.acos arg) alpha
      if absS (Trig.sin (theta2 / two)) < atol then pure (p, (zero : α), p)
      else
        let arg2 := clamp1 (b * Trig.sin (alpha / two) / Trig.sin (theta2 / two))
        pure (p, theta2, Trig.copysign (two * Trig.acos arg2) c)
  let m := if k.sinMNeg then m * (-one) else m
  let theta1 := (p + m) / two
  let theta3 := p - theta1
  pure (theta1, theta2, theta3)

/-- `ABADecomposer.decompose` -/
def abaDecompose (atol : α) (k : ABAKind) (g : GStmt α) : Except Err (List (GStmt α)) :=
  match g.1 with
  | .bsr q axis angle _ => do
      let (t1, t2, t3) ← abaAngles atol k angle axis
      let a1 ← named atol (rotName k.ia) [.qubit q, .float t1]
      let b ← named atol (rotName k.ib) [.qubit q, .float t2]
      let a2 ← named atol (rotName k.ia) [.qubit q, .float t3]
      pure (filterOutIdentities atol [a1, b, a2])
  | _ => pure [g]

/-! ### McKay decomposition -/

def GStmt.name? (g : GStmt α) : Option String := g.2.map (·.name)

def replaceAt {β : Type} : List β → Nat → β → List β
  | [], _, _ => []
  | _ :: xs, 0, y => y :: xs
  | x :: xs, n + 1, y => x :: replaceAt xs n y

def mckayDecompose (atol : α) (g : GStmt α) : Except Err (List (GStmt α)) :=
  match g.1 with
  | .bsr q axis angle _ =>
    if g.name? == some "Rz" || g.name? == some "X90" then pure [g]
    else if absS angle < atol then pure []
    else if Scalar.decEqB axis.1 zero && Scalar.decEqB axis.2.1 zero then do
      let r ← named atol "Rz" [.qubit q, .float (angle * axis.2.2)]
      pure [r]
    else do
      let zxz ← abaDecompose atol .ZXZ g
      let x90 ← named atol "X90" [.qubit q]
      let rxIdx := zxz.findIdx fun s => s.name? == some "Rx"
      let rxAngle : Option α := match zxz[rxIdx]? with
        | some (.bsr _ _ an _, _) => some an
        | _ => none
      match rxAngle with
      | some an =>
        if absS (an - π / two) < atol then return replaceAt zxz rxIdx x90
      | none => pure ()
      let sh := Trig.sin (angle / two)
      let ch := Trig.cos (angle / two)
      let zaMod := Trig.sqrt (ch * ch + (axis.2.2 * sh) * (axis.2.2 * sh))
      let zbMod := absS sh * Trig.sqrt (axis.1 * axis.1 + axis.2.1 * axis.2.1)
      let theta := π - two * Trig.atan2 zbMod zaMod
      let alpha := Trig.atan2 (-sh * axis.2.2) ch
      let beta := Trig.atan2 (-sh * axis.1) (-sh * axis.2.1)
      let lam := normalizeAngle atol (beta - alpha)
      let phi := normalizeAngle atol (-beta - alpha - π)
      let theta := normalizeAngle atol theta
      if absS theta < atol && Scalar.decEqB lam phi then pure [x90, x90]
      else do
        let mut out : List (GStmt α) := []
        if atol < absS lam then
          out := out ++ [← named atol "Rz" [.qubit q, .float lam]]
        out := out ++ [x90]
        if atol < absS theta then
          out := out ++ [← named atol "Rz" [.qubit q, .float theta]]
        out := out ++ [x90]
        if atol < absS phi then
          out := out ++ [← named atol "Rz" [.qubit q, .float phi]]
        pure out
  | _ => pure [g]

/-! ### CNOT decomposition -/

def gstmtToRot (g : GStmt α) : Option (Rot α) :=
  match g.1 with
  | .bsr q ax an ph => some ⟨q, ax, an, ph, g.2⟩
  | _ => none

/-- product of the 2×2 operators of a list of rotations, applied in list order -/
def prod2 (gs : List (GStmt α)) : Mat α :=
  gs.foldl (fun acc g => match g.1 with
    | .bsr _ ax an ph => Mat.mul (can1 ax an ph) acc
    | _ => acc) (Mat.identity 2)

def argmaxAbs2 (m : Mat α) : Nat := argmaxAbs m

def cnotDecompose (atol : α) (g : GStmt α) : Except Err (List (GStmt α)) :=
  match g.1 with
  | .ctrl c (.bsr tq tax tan tph) => do
      let x ← named atol "X" [.qubit tq]
      let some xr := gstmtToRot x | throw .value
      let tr : Rot α := ⟨tq, tax, tan, tph, none⟩
      let xu ← composeRot atol xr tr
      let (t0x, t1x, t2x) ← abaAngles atol .ZYZ xu.angle xu.axis
      let cnot ← named atol "CNOT" [.qubit c, .qubit tq]
      if absS (pymod (t0x - t2x) (two * π)) < atol then do
        let a := [← named atol "Ry" [.qubit tq, .float (-t1x / two)], ← named atol "Rz" [.qubit tq, .float (-t2x)]]
        let b := [← named atol "Rz" [.qubit tq, .float t2x], ← named atol "Ry" [.qubit tq, .float (t1x / two)]]
        let ab := prod2 (b ++ a)
        let axb := prod2 (b ++ [x] ++ a)
        let tm := can1 tax tan tph
        let l := argmaxAbs axb
        let ph := Cx.arg (Cx.div (tm.d.getD l Cx.zero) (axb.d.getD l Cx.zero) * ab.get 0 0)
        let rzc ← named atol "Rz" [.qubit c, .float ph]
        pure (filterOutIdentities atol (b ++ [cnot] ++ a ++ [rzc]))
      else do
        let (t0, t1, t2) ← abaAngles atol .ZYZ tan tax
        let a := [← named atol "Ry" [.qubit tq, .float (t1 / two)], ← named atol "Rz" [.qubit tq, .float t2]]
        let b := [← named atol "Rz" [.qubit tq, .float (-(t0 + t2) / two)], ← named atol "Ry" [.qubit tq, .float (-t1 / two)]]
        let cc := [← named atol "Rz" [.qubit tq, .float ((t0 - t2) / two)]]
        let rzc ← named atol "Rz" [.qubit c, .float tph]
        pure (filterOutIdentities atol (cc ++ [cnot] ++ b ++ [cnot] ++ a ++ [rzc]))
  | _ => pure [g]

/-! ### Drivers -/

inductive Decomposer | aba (k : ABAKind) | mckay | cnot
deriving Repr, DecidableEq, Inhabited

def Decomposer.run (atol : α) : Decomposer → GStmt α → Except Err (List (GStmt α))
  | .aba k => abaDecompose atol k
  | .mckay => mckayDecompose atol
  | .cnot => cnotDecompose atol

/-- `general_decomposer.decompose` for a decomposer given as a function of (call index, gate).
    Walks the statement list as the `while` loop does: `out` is the already processed prefix
    (reversed), `rest` what is still to be visited; on an exception the IR is `out ++ rest`. -/
def decomposeLoop (atol : α) (d : Nat → GStmt α → Except Err (List (GStmt α))) :
    Nat → List (Stmt α) → List (Stmt α) → List (Stmt α) × Option Err
  | _, out, [] => (out.reverse, none)
  | i, out, s :: rest =>
    match s with
    | .gate g nm =>
      match d i (g, nm) with
      | .error e => (out.reverse ++ s :: rest, some e)
      | .ok repl =>
        match checkGateReplacement atol g (repl.map (·.1)) with
        | some e => (out.reverse ++ s :: rest, some e)
        | none => decomposeLoop atol d (i + 1) ((repl.map GStmt.toStmt).reverse ++ out) rest
    | _ => decomposeLoop atol d i (s :: out) rest

def decompose (atol : α) (d : Nat → GStmt α → Except Err (List (GStmt α))) (stmts : List (Stmt α)) :
    List (Stmt α) × Option Err :=
  decomposeLoop atol d 0 [] stmts

def decomposeBuiltin (atol : α) (d : Decomposer) (stmts : List (Stmt α)) : List (Stmt α) × Option Err :=
  decompose atol (fun _ g => d.run atol g) stmts

/-- `general_decomposer.replace`: `f` is consulted only for non-anonymous gates whose generator is
    `name`; it receives the call index among those and the arguments. -/
def replace (atol : α) (name : String) (f : Nat → List (Arg α) → Except Err (List (GStmt α)))
    (stmts : List (Stmt α)) : List (Stmt α) × Option Err :=
  -- number the matching gates in program order (replacements are never revisited)
  let rec go (j : Nat) (out : List (Stmt α)) : List (Stmt α) → List (Stmt α) × Option Err
    | [] => (out.reverse, none)
    | s :: rest =>
      match s with
      | .gate g (some nm) =>
        if nm.name == name then
          match f j nm.args with
          | .error e => (out.reverse ++ s :: rest, some e)
          | .ok repl =>
            match checkGateReplacement atol g (repl.map (·.1)) with
            | some e => (out.reverse ++ s :: rest, some e)
            | none => go (j + 1) ((repl.map GStmt.toStmt).reverse ++ out) rest
        else
          match checkGateReplacement atol g [g] with
          | some e => (out.reverse ++ s :: rest, some e)
          | none => go j (s :: out) rest
      | .gate g none =>
          match checkGateReplacement atol g [g] with
          | some e => (out.reverse ++ s :: rest, some e)
          | none => go j (s :: out) rest
      | _ => go j (s :: out) rest
  go 0 [] stmts

/-! ### Merge pass -/

/-- `try_name_anonymous_bloch` -/
def tryName (atol : α) (r : Rot α) : Rot α :=
  let close (a b : α) : Bool := closeTo zero atol a b        -- `np.allclose(…, rtol=0, atol=ATOL)`
  let rec go : List String → Rot α
    | [] => r
    | n :: ns =>
      match named atol n [.qubit r.q] with
      | .ok (.bsr _ ax an ph, nm) =>
        if close ax.1 r.axis.1 && close ax.2.1 r.axis.2.1 && close ax.2.2 r.axis.2.2
            && close an r.angle && close ph r.phase
        then ⟨r.q, ax, an, ph, nm⟩ else go ns
      | _ => go ns
  go Gen.bsrNoParams

def defaultI (atol : α) (q : Nat) : Rot α :=
  match named atol "I" [.qubit q] with
  | .ok (.bsr _ ax an ph, nm) => ⟨q, ax, an, ph, nm⟩
  | _ => identityRot q

def accGet? (accs : Array (Rot α)) (q : Int) : Option (Rot α) :=
  if 0 ≤ q then accs[q.toNat]? else none

/-- flush the accumulators of `ops` (in order) before a barrier statement -/
def flushOps (atol : α) (accs : Array (Rot α)) (out : List (Stmt α)) :
    List Int → Except (List (Stmt α)) (Array (Rot α) × List (Stmt α))
  | [] => .ok (accs, out)
  | q :: qs =>
    match accGet? accs q with
    | none => .error out              -- KeyError; `out` holds what was inserted so far
    | some r =>
      if r.isIdentity atol then flushOps atol accs out qs
      else flushOps atol (accs.set! q.toNat (defaultI atol q.toNat)) (r.toGStmt.toStmt :: out) qs

def mergeLoop (atol : α) : Array (Rot α) → List (Stmt α) → List (Stmt α) →
    (List (Stmt α) × Option Err) ⊕ (Array (Rot α) × List (Stmt α))
  | accs, out, [] => .inr (accs, out)
  | accs, out, s :: rest =>
    match s with
    | .comment _ => mergeLoop atol accs (s :: out) rest
    | .gate (.bsr q ax an ph) nm =>
      match accGet? accs q with
      | none => .inl (out.reverse ++ s :: rest, some .key)
      | some acc =>
        match composeRot atol ⟨q, ax, an, ph, nm⟩ acc with
        | .error e => .inl (out.reverse ++ s :: rest, some e)
        | .ok r => mergeLoop atol (accs.set! q.toNat r) out rest
    | _ =>
      match flushOps atol accs out s.qubits with
      | .error out' => .inl (out'.reverse ++ s :: rest, some .key)
      | .ok (accs', out') => mergeLoop atol accs' (s :: out') rest

/-- `merge_single_qubit_gates` -/
def merge (atol : α) (c : Circuit α) : Circuit α × Option Err :=
  let accs : Array (Rot α) := Array.ofFn (n := c.nQubits) fun i => defaultI atol i.val
  match mergeLoop atol accs [] c.stmts with
  | .inl (st, e) => ({ c with stmts := st }, e)
  | .inr (accs, out) =>
    let tail := accs.toList.filterMap fun r =>
      if r.isIdentity atol then none
      else
        let r' := if r.nm.isNone then tryName atol r else r
        some r'.toGStmt.toStmt
    ({ c with stmts := out.reverse ++ tail }, none)

end OSq
