/-
  OSq.Model.Scalar — the generic scalar interface.

  Every numeric kernel of OpenSquirrel is modelled once, polymorphic in the scalar type `α`:
  at `α := Float` the definitions are executable and are what the correspondence check runs
  against the Python implementation; at `α := ℝ` (instance in `OSq.Sem.RealScalar`) the same
  definitions are the subject of the theorems.  Arithmetic comes from the standard classes,
  passed as separate instance arguments; only the transcendental/rounding operations live in
  `Trig`.  Core Lean only — no Mathlib import in any `OSq.Model` file.
-/

/-- Operations beyond field arithmetic and comparison that the numeric kernels use. -/
class Trig (α : Type) where
  pi : α
  sin : α → α
  cos : α → α
  tan : α → α
  acos : α → α
  sqrt : α → α
  atan2 : α → α → α
  floor : α → α
  abs : α → α
  /-- `math.copysign x y`: magnitude of `x`, sign (bit) of `y`. -/
  copysign : α → α → α
  /-- finite and not NaN -/
  finite : α → Bool

instance : NatCast Float := ⟨Float.ofNat⟩

def Float.signBit (x : Float) : Bool := (x.toBits >>> 63) != 0

instance : Trig Float where
  pi := 3.141592653589793
  sin := Float.sin
  cos := Float.cos
  tan := Float.tan
  acos := Float.acos
  sqrt := Float.sqrt
  atan2 := Float.atan2
  floor := Float.floor
  abs := Float.abs
  copysign x y := if y.signBit then -(x.abs) else x.abs
  finite x := x.isFinite

namespace OSq

/-- The bundle of instance arguments every generic definition takes. -/
class Scalar (α : Type) extends Add α, Sub α, Mul α, Div α, Neg α, LT α, LE α, NatCast α, Trig α,
    OfScientific α, Inhabited α where
  decLt : DecidableLT α
  decLe : DecidableLE α
  decEqB : α → α → Bool      -- `==` on floats (IEEE), `decide (x = y)` on reals

attribute [instance] Scalar.decLt Scalar.decLe

instance : Scalar Float where
  decLt := inferInstance
  decLe := inferInstance
  decEqB x y := x == y
  default := 0.0

section
variable {α : Type} [Scalar α]

@[inline] def sc (n : Nat) : α := (n : α)
def zero : α := sc 0
def one : α := sc 1
def two : α := sc 2
def half : α := one / two
@[inline] def π : α := Trig.pi
def maxS (x y : α) : α := if x < y then y else x       -- Python `max(x, y)` for non-NaN
def minS (x y : α) : α := if y < x then y else x
def clamp1 (x : α) : α := maxS (minS x one) (-one)        -- `max(min(x, 1.0), -1.0)`
def absS (x : α) : α := Trig.abs x
/-- round half to even, as `numpy.rint` -/
def rint (x : α) : α :=
  let r : α := Trig.floor x
  let d := x - r
  if d < half then r
  else if half < d then r + one
  else -- tie: pick the even neighbour
    let h := Trig.floor (r / two)
    if Scalar.decEqB (h * two) r then r else r + one
/-- `numpy.round(x, 7)` and Python `round(x, 5)` are modelled as scale, rint, unscale. -/
def roundTo (scale : α) (x : α) : α := rint (x * scale) / scale
/-- Python `x % y` for `y > 0` (result in `[0, y)`). -/
def pymod (x y : α) : α := x - y * Trig.floor (x / y)
/-- `np.allclose(a, b)` on scalars with explicit tolerances: `|a - b| <= atol + rtol * |b|`. -/
def closeTo (rtol atol a b : α) : Bool := decide (absS (a - b) ≤ atol + rtol * absS b)
end

/-- Complex numbers over the scalar. -/
structure Cx (α : Type) where
  re : α
  im : α
deriving Inhabited

namespace Cx
variable {α : Type} [Scalar α]
def zero : Cx α := ⟨OSq.zero, OSq.zero⟩
def one : Cx α := ⟨OSq.one, OSq.zero⟩
def ofReal (x : α) : Cx α := ⟨x, OSq.zero⟩
def add (a b : Cx α) : Cx α := ⟨a.re + b.re, a.im + b.im⟩
def sub (a b : Cx α) : Cx α := ⟨a.re - b.re, a.im - b.im⟩
def mul (a b : Cx α) : Cx α := ⟨a.re * b.re - a.im * b.im, a.re * b.im + a.im * b.re⟩
def smul (x : α) (a : Cx α) : Cx α := ⟨x * a.re, x * a.im⟩
def normSq (a : Cx α) : α := a.re * a.re + a.im * a.im
def abs (a : Cx α) : α := Trig.sqrt (normSq a)
def div (a b : Cx α) : Cx α :=
  let d := normSq b
  ⟨(a.re * b.re + a.im * b.im) / d, (a.im * b.re - a.re * b.im) / d⟩
/-- `cmath.rect(1, φ)` -/
def expI (φ : α) : Cx α := ⟨Trig.cos φ, Trig.sin φ⟩
/-- `cmath.phase` -/
def arg (a : Cx α) : α := Trig.atan2 a.im a.re
instance : Add (Cx α) := ⟨add⟩
instance : Sub (Cx α) := ⟨sub⟩
instance : Mul (Cx α) := ⟨mul⟩
end Cx

end OSq
