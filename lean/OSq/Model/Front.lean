import OSq.Model.Instr
import OSq.Generated.Tables
/-
  OSq.Model.Front — the two front ends: the circuit builder (circuit_builder.py,
  instruction_library.py) and the expansion of libqasm's semantic AST into the IR
  (parser/libqasm/parser.py, register_manager.py).
-/
namespace OSq
variable {α : Type} [Scalar α]

/-! ### Instruction libraries -/

structure GateLib where
  table : List GateDef
  gateSet : List String
  aliases : List (String × String)
  measures : List MeasureDef
  measureSet : List String
  resets : List ResetDef
  resetSet : List String

def defaultLib : GateLib :=
  ⟨Gen.gateTable, Gen.gateSet, Gen.aliases, Gen.measureTable, Gen.measureSet, Gen.resetTable, Gen.resetSet⟩

/-- `GateLibrary.get_gate_f`: gate set first, then aliases; unknown ⇒ `ValueError` -/
def GateLib.gateName (lib : GateLib) (n : String) : Except Err String :=
  if lib.gateSet.contains n then .ok n
  else match lib.aliases.find? (·.1 == n) with
    | some (_, t) => .ok t
    | none => .error .value

/-! ### Builder -/

/-- a Python value passed to a builder method -/
inductive PyArg (α : Type)
  | int (i : Int)          -- a bare Python int
  | qubit (i : Int)        -- `Qubit(i)`
  | bit (i : Int)          -- `Bit(i)`
  | float (v : α)          -- `Float(v)`
  | intObj (i : Int)       -- `Int(i)`
  | other                  -- str, None, … : no `__int__`, no IR class
deriving Inhabited

structure Builder (α : Type) where
  nQubits : Nat
  nBits : Nat
  stmts : List (Stmt α)          -- in program order

/-- type test of `_check_generator_f_args` followed by the conversion the wrapper performs -/
def checkArg (nq nb : Nat) (k : Kind) (a : PyArg α) : Except Err (Arg α) :=
  match k, a with
  | .qubit, .int i | .qubit, .qubit i | .qubit, .intObj i =>
      if i < 0 ∨ i ≥ (nq : Int) then .error .index else .ok (.qubit i)
  | .float, .float v => .ok (.float v)
  | .int, .int i | .int, .intObj i => .ok (.int i)
  | .bit, .bit i => if i < 0 ∨ i ≥ (nb : Int) then .error .index else .ok (.bit i)
  | _, _ => .error .type

def checkArgs (nq nb : Nat) : List (String × Kind) → List (PyArg α) → Except Err (List (Arg α))
  | [], _ => .ok []
  | _ :: _, [] => .error .index                   -- `args[i]` past the end
  | (_, k) :: ps, a :: as => do
      let x ← checkArg nq nb k a
      let xs ← checkArgs nq nb ps as
      pure (x :: xs)

/-- `CircuitBuilder._add_instruction`; on any error the builder is unchanged. -/
def Builder.call (atol : α) (lib : GateLib) (b : Builder α) (name : String) (args : List (PyArg α)) :
    Except Err (Builder α) := do
  if lib.measureSet.contains name then
    let some d := lib.measures.find? (·.name == name) | throw .value
    let as ← checkArgs b.nQubits b.nBits d.params args
    if args.length > d.params.length then throw .type
    let s ← callMeasure lib.measures name as
    pure { b with stmts := b.stmts ++ [s] }
  else if lib.resetSet.contains name then
    let some d := lib.resets.find? (·.name == name) | throw .value
    let as ← checkArgs b.nQubits b.nBits d.params args
    if args.length > d.params.length then throw .type
    let s ← callReset lib.resets name as
    pure { b with stmts := b.stmts ++ [s] }
  else
    let n ← lib.gateName name
    let some d := lib.table.find? (·.name == n) | throw .value
    let as ← checkArgs b.nQubits b.nBits d.params args
    if args.length > d.params.length then throw .type
    let (g, nm) ← callGate atol lib.table n as
    pure { b with stmts := b.stmts ++ [.gate g (some nm)] }

def Builder.comment (b : Builder α) (s : String) : Except Err (Builder α) := do
  let c ← mkComment (α := α) s
  pure { b with stmts := b.stmts ++ [c] }

def Builder.toCircuit (b : Builder α) : Circuit α := ⟨b.nQubits, b.nBits, b.stmts⟩

/-! ### Registers and parser -/

structure VarDecl where
  name : String
  isQubit : Bool       -- qubit / qubit array; otherwise bit / bit array
  size : Nat
deriving Repr, Inhabited

/-- `Register.from_ast`: consecutive ranges in declaration order; `(name, first, size)` -/
def layout (vars : List VarDecl) (qubit : Bool) : List (String × Nat × Nat) × Nat :=
  (vars.filter (·.isQubit == qubit)).foldl
    (fun (acc : List (String × Nat × Nat) × Nat) v => (acc.1 ++ [(v.name, acc.2, v.size)], acc.2 + v.size))
    ([], 0)

/-- later declarations of the same name overwrite (dict semantics) -/
def rangeOf (lay : List (String × Nat × Nat)) (name : String) : Option (Nat × Nat) :=
  (lay.reverse.find? (·.1 == name)).map (·.2)

inductive Operand (α : Type)
  | varRef (name : String) (isQubit : Bool) (size : Nat)
  | indexRef (name : String) (isQubit : Bool) (indices : List Int)
  | constInt (v : Int)
  | constFloat (v : α)
deriving Inhabited

structure AstStmt (α : Type) where
  name : String
  operands : List (Operand α)
deriving Inhabited

structure Ast (α : Type) where
  vars : List VarDecl
  stmts : List (AstStmt α)
deriving Inhabited

def Operand.isQ : Operand α → Bool
  | .varRef _ q _ => q
  | .indexRef _ q _ => q
  | _ => false
def Operand.isB : Operand α → Bool
  | .varRef _ q _ => !q
  | .indexRef _ q _ => !q
  | _ => false
def Operand.sizeOf : Operand α → Nat
  | .varRef _ _ s => s
  | .indexRef _ _ is => is.length
  | _ => 1

/-- `_get_qubits` / `_get_bits`: flat register indices of a (qu)bit operand -/
def operandIndices (lay : List (String × Nat × Nat)) : Operand α → Except Err (List Int)
  | .varRef n _ _ => match rangeOf lay n with
      | some (first, size) => .ok ((List.range size).map fun i => ((first + i : Nat) : Int))
      | none => .error .key
  | .indexRef n _ is => match rangeOf lay n with
      | some (first, _) => .ok (is.map fun i => (first : Int) + i)
      | none => .error .key
  | _ => .error .type

/-- Python `zip(*lists)`: tuples up to the shortest list -/
def zipAll {β : Type} (ls : List (List β)) : List (List β) :=
  match ls with
  | [] => []
  | _ =>
    let n := (ls.map List.length).foldl min (ls.head!.length)
    (List.range n).map fun i => ls.filterMap fun l => l[i]?

def containsStr (s sub : String) : Bool := (s.splitOn sub).length > 1

/-- the loop body of `Parser.circuit_from_string` for one AST statement -/
def parseStmt (atol : α) (lib : GateLib) (qlay blay : List (String × Nat × Nat)) (nq : Nat)
    (s : AstStmt α) : Except Err (List (Stmt α)) :=
  if containsStr s.name "measure" then do
    if !(lib.measureSet.contains s.name) then throw .value
    let lists ← s.operands.reverse.mapM fun o =>
      if o.isQ then (operandIndices qlay o).map (·.map (Arg.qubit (α := α)))
      else if o.isB then (operandIndices blay o).map (·.map (Arg.bit (α := α)))
      else throw Err.type
    (zipAll lists).mapM fun as => callMeasure lib.measures s.name as
  else if containsStr s.name "reset" then do
    if !(lib.resetSet.contains s.name) then throw .value
    let qs ← if s.operands.isEmpty then pure ((List.range nq).map fun (i : Nat) => (i : Int))
      else do
        let ls ← s.operands.mapM fun o => if o.isQ then operandIndices qlay o else throw Err.type
        pure ls.flatten
    qs.mapM fun q => callReset lib.resets s.name [Arg.qubit q]
  else do
    let n ← lib.gateName s.name
    let nOps := (s.operands.filter Operand.isQ).foldl (fun acc o => acc + o.sizeOf) 0
    let lists ← s.operands.mapM fun o =>
      if o.isQ then (operandIndices qlay o).map (·.map (Arg.qubit (α := α)))
      else match o with
        | .constInt v => pure (List.replicate nOps (Arg.int v))
        | .constFloat v => pure (List.replicate nOps (Arg.float v))
        | _ => throw Err.type
    (zipAll lists).mapM fun as => do
      let (g, nm) ← callGate atol lib.table n as
      pure (Stmt.gate g (some nm))

/-- `Parser.circuit_from_string`, from libqasm's semantic AST on -/
def parseAst (atol : α) (lib : GateLib) (ast : Ast α) : Except Err (Circuit α) := do
  let (qlay, nq) := layout ast.vars true
  let (blay, nb) := layout ast.vars false
  let stmts ← ast.stmts.mapM (parseStmt atol lib qlay blay nq)
  pure ⟨nq, nb, stmts.flatten⟩

end OSq
