import OSq.Proofs.Naturality
import OSq.Proofs.MergeStruct
import OSq.Proofs.Construct
/-
  OSq.Proofs.NaturalityMerge — property C19 for the merge pass (`OSq/Model/Passes.lean`: `flushOps`, `mergeLoop`,
  `merge`, `tryName`, `defaultI`; Python `merger/general_merger.py`): the pass commutes with an order-preserving
  embedding of a small register into a large one — "the same circuit on a large register gives the same result as
  compressed onto a small register".  Everything up to `merge_rename` is core Lean and holds for every scalar type
  `α`; the last section instantiates the one numeric hypothesis at `ℝ` (needs `OSq.Proofs.Construct`).
  Uses the renaming vocabulary and lemmas of `OSq.Proofs.Naturality` (`Stmt.rename`, `Rot.rename`, `Inj`,
  `composeRot_rename`, `named_q`) and the step lemmas of `OSq.Proofs.MergeStruct`.

  * `filterMap_eq_range`, `filterMap_range_sparse`   list lemmas: filtering a table whose only non-`none` positions
                               are `f 0 < f 1 < … < f (n-1)` equals filtering the compressed table.
  * `RegEmb f n n'`            `f` injective, strictly increasing on `0..n-1`, with values in `0..n'-1`
                               (`regEmb_shift`: `q ↦ q + k`).
  * `defaultI_rename`          `defaultI atol (f q) = (defaultI atol q).rename f`;  `tryName_rename`, `mergeTailStep_rename`.
  * `AccRel`                   simulation relation between the two accumulator tables: slot `f q` holds the renamed
                               accumulator of `q`, every other slot its initial `I`;  `AccRel.get`, `AccRel.set`,
                               `initAccs_rel`.
  * `flushOps_rename`          flushing the accumulators of in-range operands commutes with the embedding
                               (result, emitted statements, `KeyError` case) and preserves `AccRel`.
  * `mergeLoop_rename`         the main loop commutes with the embedding (both outcomes: early exit with the same
                               error and the renamed IR; normal end with renamed output and related tables).
  * `mergeTail_rename`         the final flush (register order!) commutes: this is where monotonicity is used.
  * `merge_rename`             `merge atol ⟨n', nb, stmts.map (rename f)⟩
                                  = (⟨n', nb, (merge atol ⟨n, nb, stmts⟩).1.stmts.map (rename f)⟩, (merge …).2)`
                               for `RegEmb f n n'`, operands in `0..n-1`, and `I(q)` testing as identity.
  * `defaultI_at_real`, `defaultI_isIdentity_at_real`, `merge_rename_real`   at `ℝ`, `0 < atol < π`, the last hypothesis
                               holds, so `merge_rename` is unconditional there; closed example on a register of
                               100 000 qubits.
  The hypothesis "`f` strictly increasing" cannot be dropped: the final loop iterates the accumulators in register
  order, so an order-reversing renaming permutes the appended rotations (`ToyM.merge_rename_needs_mono`, a closed
  counterexample with `q ↦ 1 - q` over a toy scalar, all other hypotheses holding).
-/

namespace OSq
variable {α : Type} [Scalar α]

/-! ### Pure list lemmas for the final flush -/

theorem filterMap_eq_range {β γ : Type} (g : β → Option γ) (L : List β) :
    L.filterMap g = (List.range L.length).filterMap (fun i => L[i]?.bind g) := by
  induction L with
  | nil => rfl
  | cons x xs ih =>
    rw [List.length_cons, List.range_succ_eq_map, List.filterMap_cons, List.filterMap_cons,
      List.filterMap_map]
    simp only [List.getElem?_cons_zero, Option.bind_some]
    have : (List.range xs.length).filterMap ((fun i => (x :: xs)[i]?.bind g) ∘ Nat.succ)
        = (List.range xs.length).filterMap (fun i => xs[i]?.bind g) := by
      congr 1
    rw [this, ← ih]

theorem filterMap_all_none {β γ : Type} (g : β → Option γ) (L : List β) (h : ∀ x ∈ L, g x = none) :
    L.filterMap g = [] := by
  rw [List.filterMap_eq_nil_iff]; exact h

/-- filtering a sparse table: only the positions `f 0 < f 1 < … < f (n-1)` can carry a value -/
theorem filterMap_range_sparse {γ : Type} (h' h : Nat → Option γ) (f : Nat → Nat) (n : Nat) :
    ∀ m, (∀ i j, i < j → j < n → f i < f j) → (∀ q, q < n → f q < m) →
      (∀ q, q < n → h' (f q) = h q) → (∀ p, p < m → (∀ q, q < n → f q ≠ p) → h' p = none) →
      (List.range m).filterMap h' = (List.range n).filterMap h := by
  induction n with
  | zero =>
    intro m _ _ _ hnone
    simp only [List.range_zero, List.filterMap_nil]
    apply filterMap_all_none
    intro p hp
    exact hnone p (List.mem_range.mp hp) (fun q hq => absurd hq (Nat.not_lt_zero q))
  | succ n ih =>
    intro m hmono hlt himg hnone
    have hfn : f n < m := hlt n (Nat.lt_succ_self n)
    obtain ⟨t, ht⟩ : ∃ t, m = f n + 1 + t := ⟨m - f n - 1, by omega⟩
    subst ht
    rw [List.range_add, List.range_succ, List.filterMap_append, List.filterMap_append,
      List.range_succ, List.filterMap_append]
    have h1 := ih (f n) (fun i j hij hj => hmono i j hij (Nat.lt_succ_of_lt hj))
      (fun q hq => hmono q n hq (Nat.lt_succ_self n))
      (fun q hq => himg q (Nat.lt_succ_of_lt hq))
      (fun p hp hne => hnone p (by omega) (fun q hq => by
        rcases Nat.lt_succ_iff_lt_or_eq.mp hq with hq | rfl
        · exact hne q hq
        · omega))
    rw [h1]
    have h2 : List.filterMap h' [f n] = List.filterMap h [n] := by
      simp only [List.filterMap_cons, List.filterMap_nil, himg n (Nat.lt_succ_self n)]
    rw [h2]
    have h3 : List.filterMap h' ((List.range t).map (fun x => f n + 1 + x)) = [] := by
      apply filterMap_all_none
      intro p hp
      obtain ⟨i, hi, rfl⟩ := List.mem_map.mp hp
      have hi := List.mem_range.mp hi
      apply hnone _ (by omega)
      intro q hq
      have : f q ≤ f n := by
        rcases Nat.lt_succ_iff_lt_or_eq.mp hq with hq | rfl
        · exact Nat.le_of_lt (hmono q n hq (Nat.lt_succ_self n))
        · exact Nat.le_refl _
      omega
    rw [h3, List.append_nil]


/-! ### Register embeddings -/

/-- `f` embeds the register `0..n-1` into `0..n'-1` preserving the order (and is injective everywhere, so
    that the renaming lemmas of `OSq.Proofs.Naturality` apply to it) -/
structure RegEmb (f : Int → Int) (n n' : Nat) : Prop where
  inj : Inj f
  mono : ∀ a b : Int, 0 ≤ a → a < b → b < n → f a < f b
  range : ∀ a : Int, 0 ≤ a → a < n → 0 ≤ f a ∧ f a < n'

namespace RegEmb
variable {f : Int → Int} {n n' : Nat} (E : RegEmb f n n')
include E

theorem cast (q : Nat) (hq : q < n) : (((f q).toNat : Nat) : Int) = f q :=
  Int.toNat_of_nonneg (E.range q (by omega) (by omega)).1

theorem lt (q : Nat) (hq : q < n) : (f q).toNat < n' := by
  have := E.range q (by omega) (by omega); omega

theorem natMono (i j : Nat) (hij : i < j) (hj : j < n) : (f i).toNat < (f j).toNat := by
  have h1 := E.mono i j (by omega) (by omega) (by omega)
  have h2 := E.range i (by omega) (by omega)
  have h3 := E.range j (by omega) (by omega)
  omega

theorem natInj (i j : Nat) (hi : i < n) (hj : j < n) (h : (f i).toNat = (f j).toNat) : i = j := by
  have h2 := E.range i (by omega) (by omega)
  have h3 := E.range j (by omega) (by omega)
  have : f i = f j := by omega
  have := E.inj _ _ this
  omega

end RegEmb

/-! ### The accumulators -/

theorem defaultI_rename {f : Int → Int} (hf : Inj f) (atol : α) (q : Nat) (h0 : 0 ≤ f q) :
    defaultI atol (f q).toNat = (defaultI atol q).rename f := by
  have hc : (((f q).toNat : Nat) : Int) = f q := Int.toNat_of_nonneg h0
  unfold defaultI
  rw [hc, named_q hf atol "I" q]
  cases h : named atol "I" [Arg.qubit (q : Int)] with
  | error e =>
    simp only [Except.map]
    exact identityRot_rename f _
  | ok p =>
    obtain ⟨g, nm⟩ := p
    cases g with
    | bsr q0 ax an ph => simp [Except.map, GStmt.rename, Gate.rename, Rot.rename]
    | matrix m ops =>
      simp only [Except.map, GStmt.rename, Gate.rename]
      exact identityRot_rename f _
    | ctrl c g =>
      simp only [Except.map, GStmt.rename, Gate.rename]
      exact identityRot_rename f _

/-- simulation relation between the accumulator tables of the compressed run (`accs`, register `n`) and of
    the run on the large register (`accs'`, register `n'`): slot `f q` holds the renamed accumulator of `q`,
    every slot outside the image of `f` still holds its initial identity -/
def AccRel (f : Int → Int) (atol : α) (n n' : Nat) (accs accs' : Array (Rot α)) : Prop :=
  accs.size = n ∧ accs'.size = n' ∧
  (∀ q : Nat, q < n → ∀ r, accs[q]? = some r → accs'[(f q).toNat]? = some (r.rename f)) ∧
  (∀ p : Nat, p < n' → (∀ q : Nat, q < n → (f q).toNat ≠ p) → accs'[p]? = some (defaultI atol p))

section sim
variable {f : Int → Int} {n n' : Nat} (E : RegEmb f n n') {atol : α}
include E

theorem AccRel.get {accs accs' : Array (Rot α)} (R : AccRel f atol n n' accs accs') (q : Int)
    (hq : inRange n q = true) :
    ∃ r, accGet? accs q = some r ∧ accGet? accs' (f q) = some (r.rename f) := by
  simp only [inRange, Bool.and_eq_true, decide_eq_true_eq] at hq
  obtain ⟨hsz, hsz', h3, -⟩ := R
  have hlt : q.toNat < n := by omega
  have hqc : ((q.toNat : Nat) : Int) = q := Int.toNat_of_nonneg hq.1
  have hget : accs[q.toNat]? = some accs[q.toNat] := by
    rw [Array.getElem?_eq_getElem]
  refine ⟨accs[q.toNat]'(by omega), ?_, ?_⟩
  · simp only [accGet?, hq.1, if_true, hget]
  · have h0 := (E.range q hq.1 hq.2).1
    have := h3 q.toNat hlt _ hget
    rw [hqc] at this
    simp only [accGet?, h0, if_true, this]

theorem AccRel.set {accs accs' : Array (Rot α)} (R : AccRel f atol n n' accs accs') (q : Int)
    (hq : inRange n q = true) (r : Rot α) :
    AccRel f atol n n' (accs.set! q.toNat r) (accs'.set! (f q).toNat (r.rename f)) := by
  simp only [inRange, Bool.and_eq_true, decide_eq_true_eq] at hq
  obtain ⟨hsz, hsz', h3, h4⟩ := R
  have hlt : q.toNat < n := by omega
  have hqc : ((q.toNat : Nat) : Int) = q := Int.toNat_of_nonneg hq.1
  have hlt' : (f q).toNat < n' := by have := E.lt q.toNat hlt; rwa [hqc] at this
  refine ⟨by simpa using hsz, by simpa using hsz', ?_, ?_⟩
  · intro q0 hq0 r0 hr0
    simp only [Array.set!_eq_setIfInBounds, Array.getElem?_setIfInBounds] at hr0 ⊢
    by_cases he : q.toNat = q0
    · rw [if_pos he, if_pos (by omega)] at hr0
      injection hr0 with hr0
      subst hr0
      have : (f q).toNat = (f q0).toNat := by rw [← he, hqc]
      rw [if_pos this, if_pos (by omega)]
    · rw [if_neg he] at hr0
      have : (f q).toNat ≠ (f q0).toNat := by
        intro h
        apply he
        have := E.natInj q.toNat q0 hlt hq0 (by rw [hqc]; exact h)
        exact this
      rw [if_neg this]
      exact h3 q0 hq0 r0 hr0
  · intro p hp hne
    simp only [Array.set!_eq_setIfInBounds, Array.getElem?_setIfInBounds]
    have : (f q).toNat ≠ p := by
      have := hne q.toNat hlt
      rwa [hqc] at this
    rw [if_neg this]
    exact h4 p hp hne

theorem flushOps_rename (qs : List Int) (hqs : ∀ q ∈ qs, inRange n q = true) :
    ∀ (accs accs' : Array (Rot α)) (out : List (Stmt α)), AccRel f atol n n' accs accs' →
      (∀ o, flushOps atol accs out qs = .error o →
        flushOps atol accs' (out.map (Stmt.rename f)) (qs.map f) = .error (o.map (Stmt.rename f))) ∧
      (∀ a o, flushOps atol accs out qs = .ok (a, o) →
        ∃ a', flushOps atol accs' (out.map (Stmt.rename f)) (qs.map f) = .ok (a', o.map (Stmt.rename f)) ∧
          AccRel f atol n n' a a') := by
  induction qs with
  | nil =>
    intro accs accs' out R
    simp only [List.map_nil, flushOps_nil]
    refine ⟨fun o h => (by cases h), fun a o h => ?_⟩
    injection h with h; injection h with h1 h2
    subst h1; subst h2
    exact ⟨accs', rfl, R⟩
  | cons q qs ih =>
    intro accs accs' out R
    have hq := hqs q List.mem_cons_self
    have ih := ih (fun x hx => hqs x (List.mem_cons_of_mem _ hx))
    obtain ⟨r, hr, hr'⟩ := R.get E q hq
    rw [List.map_cons]
    cases hid : r.isIdentity atol with
    | true =>
      rw [flushOps_cons_id atol accs out q qs r hr hid,
        flushOps_cons_id atol accs' _ (f q) _ (r.rename f) hr' (by rw [Rot.isIdentity_rename]; exact hid)]
      exact ih accs accs' out R
    | false =>
      rw [flushOps_cons_emit atol accs out q qs r hr hid,
        flushOps_cons_emit atol accs' _ (f q) _ (r.rename f) hr' (by rw [Rot.isIdentity_rename]; exact hid)]
      simp only [inRange, Bool.and_eq_true, decide_eq_true_eq] at hq
      have hqc : ((q.toNat : Nat) : Int) = q := Int.toNat_of_nonneg hq.1
      have hd : defaultI atol (f q).toNat = (defaultI atol q.toNat).rename f := by
        have := defaultI_rename E.inj atol q.toNat (by rw [hqc]; exact (E.range q hq.1 hq.2).1)
        rwa [hqc] at this
      rw [hd]
      have R' := R.set E q (by simp [inRange, hq.1, hq.2]) (defaultI atol q.toNat)
      exact ih _ _ (r.toGStmt.toStmt :: out) R'

omit E [Scalar α] in
theorem Stmt.isBSR_rename (f : Int → Int) (s : Stmt α) : (s.rename f).isBSR = s.isBSR := by
  cases s with
  | gate g nm => cases g <;> rfl
  | measure q b ax nm => rfl
  | reset q nm => rfl
  | comment c => rfl

/-- **the loop of the merge pass commutes with the register embedding** (simulation) -/
theorem mergeLoop_rename (rest : List (Stmt α)) (hops : OperandsInRange n rest) :
    ∀ (accs accs' : Array (Rot α)) (out : List (Stmt α)), AccRel f atol n n' accs accs' →
      (∀ st e, mergeLoop atol accs out rest = .inl (st, e) →
        mergeLoop atol accs' (out.map (Stmt.rename f)) (rest.map (Stmt.rename f))
          = .inl (st.map (Stmt.rename f), e)) ∧
      (∀ a o, mergeLoop atol accs out rest = .inr (a, o) →
        ∃ a', mergeLoop atol accs' (out.map (Stmt.rename f)) (rest.map (Stmt.rename f))
            = .inr (a', o.map (Stmt.rename f)) ∧ AccRel f atol n n' a a') := by
  induction rest with
  | nil =>
    intro accs accs' out R
    simp only [List.map_nil, mergeLoop_nil]
    refine ⟨fun st e h => (by cases h), fun a o h => ?_⟩
    injection h with h; injection h with h1 h2
    subst h1; subst h2
    exact ⟨accs', rfl, R⟩
  | cons s rest ih =>
    intro accs accs' out R
    have ih := ih (fun x hx => hops x (List.mem_cons_of_mem _ hx))
    have hs := hops s List.mem_cons_self
    rw [List.map_cons]
    cases hb : s.isBSR with
    | true =>
      cases s with
      | gate g nm =>
        cases g with
        | bsr q ax an ph =>
          have hq : inRange n q = true := hs q (by simp [Stmt.qubits, Gate.operands])
          obtain ⟨acc, hacc, hacc'⟩ := R.get E q hq
          have hcr := composeRot_rename E.inj atol ⟨q, ax, an, ph, nm⟩ acc
          have hren : (Stmt.gate (Gate.bsr q ax an ph) nm).rename f
              = .gate (.bsr (f q) ax an ph) (nm.map (Named.rename f)) := rfl
          rw [hren]
          cases hc : composeRot atol ⟨q, ax, an, ph, nm⟩ acc with
          | error e =>
            rw [hc] at hcr
            rw [mergeLoop_bsr_err atol accs out rest q ax an ph nm acc e hacc hc,
              mergeLoop_bsr_err atol accs' _ _ (f q) ax an ph _ (acc.rename f) e hacc' hcr]
            refine ⟨fun st e' h => ?_, fun a o h => (by cases h)⟩
            injection h with h; injection h with h1 h2
            subst h1; subst h2
            simp [List.map_append, List.map_reverse, Stmt.rename, Gate.rename]
          | ok r =>
            rw [hc] at hcr
            rw [mergeLoop_bsr_ok atol accs out rest q ax an ph nm acc r hacc hc,
              mergeLoop_bsr_ok atol accs' _ _ (f q) ax an ph _ (acc.rename f) (r.rename f) hacc' hcr]
            exact ih _ _ out (R.set E q hq r)
        | matrix m ops => simp [Stmt.isBSR] at hb
        | ctrl c g => simp [Stmt.isBSR] at hb
      | measure q b ax nm => simp [Stmt.isBSR] at hb
      | reset q nm => simp [Stmt.isBSR] at hb
      | comment c => simp [Stmt.isBSR] at hb
    | false =>
      have hb' : (s.rename f).isBSR = false := by rw [Stmt.isBSR_rename]; exact hb
      obtain ⟨hfe, hfo⟩ := flushOps_rename E s.qubits hs accs accs' out R
      rw [← Stmt.qubits_rename] at hfe hfo
      cases hfl : flushOps atol accs out s.qubits with
      | error o =>
        rw [mergeLoop_nonBSR_err atol accs out rest s hb o hfl,
          mergeLoop_nonBSR_err atol accs' _ _ (s.rename f) hb' _ (hfe o hfl)]
        refine ⟨fun st e' h => ?_, fun a o h => (by cases h)⟩
        injection h with h; injection h with h1 h2
        subst h1; subst h2
        simp [List.map_append, List.map_reverse]
      | ok p =>
        obtain ⟨a, o⟩ := p
        obtain ⟨a', ha', R'⟩ := hfo a o hfl
        rw [mergeLoop_nonBSR_ok atol accs out rest s hb a o hfl,
          mergeLoop_nonBSR_ok atol accs' _ _ (s.rename f) hb' a' _ ha']
        exact ih a a' (s :: o) R'

/-! ### The final flush -/

omit E in
theorem tryName_go_rename (hf : Inj f) (atol : α) (r : Rot α) (close : α → α → Bool) (names : List String) :
    tryName.go atol (r.rename f) close names = (tryName.go atol r close names).rename f := by
  induction names with
  | nil => simp only [tryName.go]
  | cons nme ns ih =>
    rw [tryName.go, tryName.go]
    have hq : (r.rename f).q = f r.q := rfl
    rw [hq, named_q hf atol nme r.q]
    cases h : named atol nme [Arg.qubit r.q] with
    | error e => simpa [Except.map] using ih
    | ok p =>
      obtain ⟨g, nm⟩ := p
      cases g with
      | bsr q0 ax an ph =>
        simp only [Except.map, GStmt.rename, Gate.rename]
        have hax : (r.rename f).axis = r.axis := rfl
        have han : (r.rename f).angle = r.angle := rfl
        have hph : (r.rename f).phase = r.phase := rfl
        rw [hax, han, hph]
        split
        · rfl
        · exact ih
      | matrix m ops => simpa [Except.map, GStmt.rename, Gate.rename] using ih
      | ctrl c g => simpa [Except.map, GStmt.rename, Gate.rename] using ih

omit E in
theorem tryName_rename (hf : Inj f) (atol : α) (r : Rot α) :
    tryName atol (r.rename f) = (tryName atol r).rename f := by
  unfold tryName
  exact tryName_go_rename hf atol r _ _

/-- what the final loop over `accumulators_per_qubit.values()` does with one accumulator -/
def mergeTailStep (atol : α) (r : Rot α) : Option (Stmt α) :=
  if r.isIdentity atol then none
  else
    let r' := if r.nm.isNone then tryName atol r else r
    some r'.toGStmt.toStmt

omit E in
theorem mergeTail_eq_step (atol : α) (accs : Array (Rot α)) :
    mergeTail atol accs = accs.toList.filterMap (mergeTailStep atol) := rfl

omit E in
theorem mergeTailStep_rename (hf : Inj f) (atol : α) (r : Rot α) :
    mergeTailStep atol (r.rename f) = (mergeTailStep atol r).map (Stmt.rename f) := by
  unfold mergeTailStep
  rw [Rot.isIdentity_rename]
  by_cases hid : r.isIdentity atol = true
  · rw [if_pos hid, if_pos hid]; rfl
  · rw [if_neg hid, if_neg hid]
    have hnm : (r.rename f).nm.isNone = r.nm.isNone := by
      simp [Rot.rename]
    simp only [hnm, Option.map_some]
    by_cases hn : r.nm.isNone = true
    · rw [if_pos hn, if_pos hn, tryName_rename hf]; rfl
    · rw [if_neg hn, if_neg hn]; rfl

/-- **the final flush commutes with an order-preserving register embedding**: the accumulators at the image
    positions appear in the same order, all other slots are identities and are skipped -/
theorem mergeTail_rename (hI : ∀ p : Nat, (defaultI atol p).isIdentity atol = true)
    {accs accs' : Array (Rot α)} (R : AccRel f atol n n' accs accs') :
    mergeTail atol accs' = (mergeTail atol accs).map (Stmt.rename f) := by
  obtain ⟨hsz, hsz', h3, h4⟩ := R
  rw [mergeTail_eq_step, mergeTail_eq_step, List.map_filterMap, filterMap_eq_range (mergeTailStep atol) accs'.toList,
    filterMap_eq_range _ accs.toList, Array.length_toList, Array.length_toList, hsz, hsz']
  apply filterMap_range_sparse _ _ (fun q => (f q).toNat) n n'
  · intro i j hij hj; exact E.natMono i j hij hj
  · intro q hq; exact E.lt q hq
  · intro q hq
    have hget : accs[q]? = some accs[q] := Array.getElem?_eq_getElem (by omega)
    simp only [Array.getElem?_toList, hget, h3 q hq _ hget, Option.bind_some]
    exact mergeTailStep_rename E.inj atol _
  · intro p hp hne
    simp only [Array.getElem?_toList, h4 p hp hne, Option.bind_some]
    unfold mergeTailStep
    rw [if_pos (hI p)]

/-! ### The pass -/

omit E in
theorem initAccs_rel (E : RegEmb f n n') (atol : α) :
    AccRel f atol n n' (Array.ofFn (n := n) fun i => defaultI atol i.val)
      (Array.ofFn (n := n') fun i => defaultI atol i.val) := by
  refine ⟨Array.size_ofFn, Array.size_ofFn, ?_, ?_⟩
  · intro q hq r hr
    rw [Array.getElem?_ofFn, dif_pos hq] at hr
    injection hr with hr
    subst hr
    rw [Array.getElem?_ofFn, dif_pos (E.lt q hq)]
    simp only
    rw [defaultI_rename E.inj atol q (E.range q (by omega) (by omega)).1]
  · intro p hp _
    rw [Array.getElem?_ofFn, dif_pos hp]

/-- **`merge_single_qubit_gates` commutes with an order-preserving embedding of the register (C19).**
    Running the pass on the large register `n'` with every qubit index `q` replaced by `f q` gives the renamed
    result of the run on the compressed register `n` — same statements (renamed), same error.
    Hypotheses: `f` is injective, strictly increasing on `0..n-1` with values in `0..n'-1` (`RegEmb`); the
    circuit touches qubits of `0..n-1` only; the initial accumulator `I(q)` tests as identity (true at `ℝ` and at
    `Float` for the library's `ATOL`; it is what makes the untouched slots of the large register silent). -/
theorem merge_rename (atol : α)
    (hI : ∀ p : Nat, (defaultI atol p).isIdentity atol = true) (nb : Nat) (stmts : List (Stmt α))
    (hops : OperandsInRange n stmts) :
    merge atol ⟨n', nb, stmts.map (Stmt.rename f)⟩ =
      (⟨n', nb, (merge atol ⟨n, nb, stmts⟩).1.stmts.map (Stmt.rename f)⟩, (merge atol ⟨n, nb, stmts⟩).2) := by
  rw [merge_eq, merge_eq]
  obtain ⟨hl, hr⟩ := mergeLoop_rename E stmts hops _ _ [] (initAccs_rel E atol)
  simp only [List.map_nil] at hl hr
  cases h : mergeLoop atol (Array.ofFn (n := n) fun i => defaultI atol i.val) [] stmts with
  | inl p =>
    obtain ⟨st, e⟩ := p
    simp only
    rw [hl st e h]
  | inr p =>
    obtain ⟨a, o⟩ := p
    obtain ⟨a', ha', R'⟩ := hr a o h
    simp only
    rw [ha']
    simp only [mergeTail_rename E hI R', List.map_append, List.map_reverse]

end sim

/-! ### Instances of `RegEmb` -/

theorem regEmb_shift (k : Nat) (n n' : Nat) (h : n + k ≤ n') : RegEmb (fun q => q + (k : Int)) n n' where
  inj := inj_shift k
  mono := fun a b _ hab _ => by omega
  range := fun a h0 hn => by omega

/-! ### At `ℝ` the initial accumulator is an exact identity -/

theorem defaultI_at_real (atol : ℝ) (h0 : 0 < atol) (h1 : atol < Real.pi) (p : Nat) :
    defaultI atol p = ⟨p, (1, 0, 0), 0, 0, some ⟨"I", [.qubit p]⟩⟩ := by
  have hn : normalizeAngle atol (0 : ℝ) = 0 :=
    normalizeAngle_id_of_window atol 0 h0.le h1 (by linarith) (by linarith [Real.pi_pos])
  have hax : mkAxis ((1, 0, 0) : Vec3 ℝ) = .ok (1, 0, 0) := mkAxis_of_unit _ (by norm_num)
  have : named atol "I" [Arg.qubit (p : Int)]
      = .ok (.bsr p (1, 0, 0) 0 0, some ⟨"I", [.qubit p]⟩) := by
    simp [named, callGate, Gen.gateTable, bindArgs, GExpr.eval, envQubit, Env.find?, mkBSR, hax, hn,
      bind, Except.bind, pure, Except.pure]
  unfold defaultI
  rw [this]

theorem defaultI_isIdentity_at_real (atol : ℝ) (h0 : 0 < atol) (h1 : atol < Real.pi) (p : Nat) :
    (defaultI atol p).isIdentity atol = true := by
  rw [defaultI_at_real atol h0 h1 p]
  simp [Rot.isIdentity, h0]

/-- `merge_rename` at `ℝ`: no hypothesis on the accumulators is left -/
theorem merge_rename_real {f : Int → Int} {n n' : Nat} (E : RegEmb f n n') (atol : ℝ) (h0 : 0 < atol)
    (h1 : atol < Real.pi) (nb : Nat) (stmts : List (Stmt ℝ)) (hops : OperandsInRange n stmts) :
    merge atol ⟨n', nb, stmts.map (Stmt.rename f)⟩ =
      (⟨n', nb, (merge atol ⟨n, nb, stmts⟩).1.stmts.map (Stmt.rename f)⟩, (merge atol ⟨n, nb, stmts⟩).2) :=
  merge_rename E atol (defaultI_isIdentity_at_real atol h0 h1) nb stmts hops

/-- non-vacuity: two rotations, a controlled gate, a comment and a measurement on 2 qubits -/
noncomputable def exMergeStmts (ax : Vec3 ℝ) (θ : ℝ) : List (Stmt ℝ) :=
  [.gate (.bsr 0 ax θ 0) none, .gate (.bsr 0 (0, 0, 1) 1 0) none,
   .gate (.ctrl 0 (.bsr 1 (1, 0, 0) Real.pi (Real.pi / 2))) (some ⟨"CNOT", [.qubit 0, .qubit 1]⟩),
   .comment "c", .measure 1 0 (0, 0, 1) none]

theorem exMergeStmts_inRange (ax : Vec3 ℝ) (θ : ℝ) : OperandsInRange 2 (exMergeStmts ax θ) := by
  intro s hs q hq
  simp only [exMergeStmts, List.mem_cons, List.not_mem_nil, or_false] at hs
  rcases hs with rfl | rfl | rfl | rfl | rfl <;>
    simp [Stmt.qubits, Gate.operands] at hq <;> (try rcases hq with rfl | rfl) <;> decide

/-- … moved to the qubits 99990 and 99991 of a register of 100 000 qubits: the merged circuit is the renamed
    merged 2-qubit circuit -/
example (ax : Vec3 ℝ) (θ : ℝ) :
    merge (1e-7 : ℝ) ⟨100000, 1, (exMergeStmts ax θ).map (Stmt.rename (fun q => q + ((99990 : Nat) : Int)))⟩ =
      (⟨100000, 1, (merge (1e-7 : ℝ) ⟨2, 1, exMergeStmts ax θ⟩).1.stmts.map
          (Stmt.rename (fun q => q + ((99990 : Nat) : Int)))⟩,
       (merge (1e-7 : ℝ) ⟨2, 1, exMergeStmts ax θ⟩).2) :=
  merge_rename_real (regEmb_shift 99990 2 100000 (by omega)) (1e-7) (by norm_num)
    (lt_of_lt_of_le (by norm_num) Real.two_le_pi) 1 _ (exMergeStmts_inRange ax θ)

example (ax : Vec3 ℝ) (θ : ℝ) :
    ((exMergeStmts ax θ).map (Stmt.rename (fun q => q + ((99990 : Nat) : Int))))[2]? =
      some (.gate (.ctrl 99990 (.bsr 99991 (1, 0, 0) Real.pi (Real.pi / 2)))
        (some ⟨"CNOT", [.qubit 99990, .qubit 99991]⟩)) := by
  simp [exMergeStmts, Stmt.rename, Gate.rename, Named.rename, Arg.rename]

/-! ### Monotonicity is necessary (closed counterexample over a toy scalar) -/

-- a toy scalar: integers, constant transcendental functions (only used for the counterexample)
namespace ToyM
local instance : Trig Int where
  pi := 3
  sin _ := 1
  cos _ := 1
  tan _ := 0
  acos _ := 1
  sqrt x := x
  atan2 _ _ := 0
  floor x := x
  abs x := x.natAbs
  copysign x _ := x
  finite _ := true
local instance : OfScientific Int := ⟨fun m _ _ => m⟩
local instance : Scalar Int where
  decLt := inferInstance
  decLe := inferInstance
  decEqB x y := x == y
  default := 0

def swap01 (q : Int) : Int := 1 - q

def exS : List (Stmt Int) := [.gate (.bsr 0 (1, 0, 0) 0 0) none, .gate (.bsr 1 (1, 0, 0) 0 0) none]


theorem defaultI_toy (p : Nat) : defaultI (1 : Int) p = ⟨p, (1, 0, 0), 0, 0, some ⟨"I", [.qubit p]⟩⟩ := by
  have hax : mkAxis ((1, 0, 0) : Vec3 Int) = .ok (1, 0, 0) := rfl
  have hn : normalizeAngle (1 : Int) (0 : Int) = 0 := rfl
  have : named (1 : Int) "I" [Arg.qubit (p : Int)]
      = .ok (.bsr p (1, 0, 0) 0 0, some ⟨"I", [.qubit p]⟩) := by
    simp [named, callGate, Gen.gateTable, bindArgs, GExpr.eval, envQubit, Env.find?, mkBSR,
      bind, Except.bind, pure, Except.pure]
    rfl
  unfold defaultI
  rw [this]

theorem comp_toy (q : Int) (nm : Option (Named Int)) :
    composeRot (1 : Int) ⟨q, (1, 0, 0), 0, 0, none⟩ ⟨q, (1, 0, 0), 0, 0, nm⟩ = .ok ⟨q, (1, 0, 0), 2, 0, nm⟩ := by
  simp only [composeRot, bne_self_eq_false, Bool.false_eq_true, if_false]
  rfl

theorem accs0 : (Array.ofFn (n := 2) fun i => defaultI (1 : Int) i.val)
    = #[⟨0, (1, 0, 0), 0, 0, some ⟨"I", [.qubit 0]⟩⟩, ⟨1, (1, 0, 0), 0, 0, some ⟨"I", [.qubit 1]⟩⟩] := by
  apply Array.ext
  · simp
  · intro i h1 h2
    simp at h1
    have : i = 0 ∨ i = 1 := by omega
    rcases this with rfl | rfl <;> simp [defaultI_toy]

theorem toy_large_run : ((merge (1 : Int) ⟨2, 0, exS.map (Stmt.rename swap01)⟩).1.stmts.map Stmt.qubits) = [[0], [1]] := by
  rw [merge_eq]
  simp only [accs0, exS, List.map_cons, List.map_nil, Stmt.rename, Gate.rename, swap01, Option.map_none,
    (by decide : (1 : Int) - 0 = 1), (by decide : (1 : Int) - 1 = 0)]
  rw [mergeLoop_bsr_ok (1 : Int) _ [] _ 1 (1, 0, 0) 0 0 none ⟨1, (1, 0, 0), 0, 0, some ⟨"I", [.qubit 1]⟩⟩
    ⟨1, (1, 0, 0), 2, 0, some ⟨"I", [.qubit 1]⟩⟩ (by rfl) (comp_toy 1 _)]
  rw [mergeLoop_bsr_ok (1 : Int) _ [] _ 0 (1, 0, 0) 0 0 none ⟨0, (1, 0, 0), 0, 0, some ⟨"I", [.qubit 0]⟩⟩
    ⟨0, (1, 0, 0), 2, 0, some ⟨"I", [.qubit 0]⟩⟩ (by rfl) (comp_toy 0 _)]
  rw [mergeLoop_nil]
  rfl


theorem toy_small_run : (((merge (1 : Int) ⟨2, 0, exS⟩).1.stmts.map (Stmt.rename swap01)).map Stmt.qubits) = [[1], [0]] := by
  rw [merge_eq]
  simp only [accs0, exS]
  rw [mergeLoop_bsr_ok (1 : Int) _ [] _ 0 (1, 0, 0) 0 0 none ⟨0, (1, 0, 0), 0, 0, some ⟨"I", [.qubit 0]⟩⟩
    ⟨0, (1, 0, 0), 2, 0, some ⟨"I", [.qubit 0]⟩⟩ (by rfl) (comp_toy 0 _)]
  rw [mergeLoop_bsr_ok (1 : Int) _ [] _ 1 (1, 0, 0) 0 0 none ⟨1, (1, 0, 0), 0, 0, some ⟨"I", [.qubit 1]⟩⟩
    ⟨1, (1, 0, 0), 2, 0, some ⟨"I", [.qubit 1]⟩⟩ (by rfl) (comp_toy 1 _)]
  rw [mergeLoop_nil]
  rfl

/-- **monotonicity cannot be dropped in `merge_rename`**: for the order-reversing injective renaming
    `q ↦ 1 - q` of a 2-qubit register (all other hypotheses hold) the pass on the renamed circuit does not
    return the renamed result — the two appended rotations come in the other order. -/
theorem merge_rename_needs_mono :
    Inj swap01 ∧ (∀ a : Int, 0 ≤ a → a < 2 → 0 ≤ swap01 a ∧ swap01 a < 2) ∧
    (∀ p : Nat, (defaultI (1 : Int) p).isIdentity 1 = true) ∧ OperandsInRange 2 exS ∧
    merge (1 : Int) ⟨2, 0, exS.map (Stmt.rename swap01)⟩ ≠
      (⟨2, 0, (merge (1 : Int) ⟨2, 0, exS⟩).1.stmts.map (Stmt.rename swap01)⟩, (merge (1 : Int) ⟨2, 0, exS⟩).2) := by
  refine ⟨fun a b h => by unfold swap01 at h; omega, fun a h0 h1 => by unfold swap01; omega, ?_, ?_, ?_⟩
  · intro p; rw [defaultI_toy]; rfl
  · simp [OperandsInRange, exS, Stmt.qubits, Gate.operands, inRange]
  · intro h
    have := congrArg (fun p => p.1.stmts.map Stmt.qubits) h
    simp only [toy_large_run, toy_small_run] at this
    exact absurd this (by decide)

end ToyM

end OSq

#print axioms OSq.filterMap_range_sparse
#print axioms OSq.flushOps_rename
#print axioms OSq.mergeLoop_rename
#print axioms OSq.mergeTail_rename
#print axioms OSq.merge_rename
#print axioms OSq.merge_rename_real
#print axioms OSq.ToyM.merge_rename_needs_mono
