import OSq.Generated.Tables
import OSq.Model.Front
import OSq.Sem.RealScalar
import OSq.Sem.Rot
import OSq.Proofs.Construct
import Mathlib.Analysis.SpecialFunctions.Trigonometric.Basic
import Mathlib.Tactic.Ring
import Mathlib.Tactic.Linarith
import Mathlib.Tactic.FinCases
import Mathlib.Tactic.NormNum

/-
  OSq.Proofs.GateTable — property C07: "every default instruction denotes its cQASM standard operation,
  for every parameter value", at `α := ℝ`, about the **generated** tables `OSq.Gen.gateTable`,
  `Gen.measureTable`, `Gen.resetTable`, `Gen.aliases`, `Gen.gateSet` (OSq/Generated/Tables.lean, re-generated
  from /repo/opensquirrel/default_*.py on every run) evaluated by `callGate` / `callMeasure` / `callReset`
  (OSq/Model/Instr.lean).  The tables are referred to, never copied: if `default_gates.py` changes so that a
  gate no longer denotes its standard operation, this file stops compiling.

  All names below live in `namespace OSq.GateTable`.

  Specification (namespace `OSq.GateTable.Std`, explicit `!![…]` matrices)
  * `Std.I_ H X Y Z X90 mX90 Y90 mY90 S Sdag T Tdag`   the cQASM standard single-qubit matrices
  * `Std.Rx θ`, `Std.Ry θ`, `Std.Rz θ`                 `exp(-iθσ/2)` written out
  * `Std.P θ = diag(1, e^{iθ})`, `Std.Pk k = diag(1, e^{2πi/2^k})`
  * `Std.I_eq … Std.mY90_eq`, `Std.Rx_eq/Ry_eq/Rz_eq`   the same in Pauli form (`H = (σx+σz)/√2`,
    `X90 = (1 − iσx)/√2`, `Rx θ = cos(θ/2) − i sin(θ/2) σx`, …)

  Operators (`Sem.rot`)
  * `rot_x`, `rot_y`, `rot_z`        `rot` about a coordinate axis = `e^{iφ} • Std.R? θ`
  * `rot_z_diag`                     `rot z θ φ = e^{i(φ-θ/2)} • diag(1, e^{iθ})`;  `rot_z_half`: phase `θ/2` ⇒ exact
  * `rot_I rot_H rot_X rot_Y rot_Z rot_X90 rot_mX90 rot_Y90 rot_mY90`   **exact** equality with the standard matrix
  * `rot_S rot_Sdag rot_T rot_Tdag`  equality up to the explicit unit phase `e^{∓iπ/4}`, `e^{∓iπ/8}`
  * `rot_Rx rot_Ry rot_Rz`           `rot axis (normalizeAngle atol θ) 0 = ± Std.R? θ`, every `θ`, every `atol`
  * `rot_CR`                         `rot z θ' (θ'/2) = diag(1, e^{iθ})` exactly, `θ' = normalizeAngle atol θ`, every `θ`, `atol`
  * `rot_CRk`                        same with `θ = 2π/2^k`: `diag(1, e^{2πi/2^k})`, every `k : ℤ`
  * `pow2Int_real`                   the model's `2 ** k` at ℝ is `(2:ℝ)^k` (negative `k` included)

  The table evaluated (for every qubit index; `Named` = called name + converted arguments)
  * `call_I … call_Tdag` (13)        `0 < atol ≤ π/2` ⇒ `callGate atol Gen.gateTable "G" [.qubit q] = .ok (.bsr q a θ φ, ⟨"G", [.qubit q]⟩)`
                                     with explicit `a θ φ` (e.g. `H`: `(1/√2, 0, 1/√2) π (π/2)`)
  * `call_Rx call_Ry call_Rz`        `0 ≤ atol < π` ⇒ `.bsr q axis (normalizeAngle atol θ) 0`, every `θ`
  * `call_CNOT call_CZ`              `c ≠ t` ⇒ `.ctrl c (.bsr t axis π (π/2))`
  * `call_CR`, `call_CRk`            `c ≠ t`, `0 ≤ atol < π` ⇒ `.ctrl c (.bsr t (0,0,1) θ' (θ'/2))`
  * `call_CNOT_same call_CZ_same call_CR_same call_CRk_same`   control = target ⇒ `.error .value`
  * `call_measure call_measure_z call_reset`
  * `call_X_int call_CNOT_int`       bare ints are converted to `Qubit` (and recorded converted)

  Summaries
  * `default_gates_denote`           `0 < atol ≤ π/2` ⇒ the 13 parameter-free gates denote their standard matrices
                                     (`I H X Y Z X90 mX90 Y90 mY90` exactly, `S Sdag T Tdag` up to a unit phase)
  * `rotation_gates_denote`          `Rx/Ry/Rz(θ)` denote `exp(-iθσ/2)` up to sign, for all `θ`
  * `controlled_gates_denote`        `CNOT CZ CR(θ) CRk(k)` = control + target operator exactly `σx σz diag(1,e^{iθ}) diag(1,e^{2πi/2^k})`
  * `CR_periodic`, `CR_periodic_gate`  `CR(θ+2π)` has the same target operator as — indeed is the same gate as — `CR(θ)`
  * `normalizeAngle_add_two_pi`      `normalizeAngle atol (x+2π) = normalizeAngle atol x`
  * `…_gen`                          the three summaries at the generated tolerance `Gen.atol = 1e-7`

  Gate set / aliases
  * `gateSet_eq`, `gateSet_length`, `gateSet_nodup`   the 20 names
  * `gateTable_names`                `Gen.gateTable.map (·.name) = Gen.gateSet`
  * `gateSet_has_entry`              every name of the set is found in the table under that name
  * `aliases_resolve`                every alias resolves through `defaultLib.gateName` to its target, a member of the set
-/

namespace OSq.GateTable
open OSq OSq.Sem Complex

/-! ### Specification: the cQASM standard single-qubit matrices -/
namespace Std

noncomputable def I_ : Matrix (Fin 2) (Fin 2) ℂ := !![1, 0; 0, 1]
noncomputable def H : Matrix (Fin 2) (Fin 2) ℂ :=
  !![1 / (Real.sqrt 2 : ℂ), 1 / (Real.sqrt 2 : ℂ); 1 / (Real.sqrt 2 : ℂ), -(1 / (Real.sqrt 2 : ℂ))]
def X : Matrix (Fin 2) (Fin 2) ℂ := !![0, 1; 1, 0]
def Y : Matrix (Fin 2) (Fin 2) ℂ := !![0, -I; I, 0]
def Z : Matrix (Fin 2) (Fin 2) ℂ := !![1, 0; 0, -1]
noncomputable def X90 : Matrix (Fin 2) (Fin 2) ℂ :=
  (1 / (Real.sqrt 2 : ℂ)) • !![1, -I; -I, 1]
noncomputable def mX90 : Matrix (Fin 2) (Fin 2) ℂ :=
  (1 / (Real.sqrt 2 : ℂ)) • !![1, I; I, 1]
noncomputable def Y90 : Matrix (Fin 2) (Fin 2) ℂ :=
  (1 / (Real.sqrt 2 : ℂ)) • !![1, -1; 1, 1]
noncomputable def mY90 : Matrix (Fin 2) (Fin 2) ℂ :=
  (1 / (Real.sqrt 2 : ℂ)) • !![1, 1; -1, 1]
def S : Matrix (Fin 2) (Fin 2) ℂ := !![1, 0; 0, I]
def Sdag : Matrix (Fin 2) (Fin 2) ℂ := !![1, 0; 0, -I]
noncomputable def T : Matrix (Fin 2) (Fin 2) ℂ := !![1, 0; 0, Complex.exp (I * (Real.pi / 4 : ℝ))]
noncomputable def Tdag : Matrix (Fin 2) (Fin 2) ℂ := !![1, 0; 0, Complex.exp (I * (-(Real.pi / 4) : ℝ))]
/-- `diag(1, e^{iθ})`, the target operator of `CR(θ)` -/
noncomputable def P (θ : ℝ) : Matrix (Fin 2) (Fin 2) ℂ := !![1, 0; 0, Complex.exp (I * θ)]
noncomputable def Rx (θ : ℝ) : Matrix (Fin 2) (Fin 2) ℂ :=
  !![(Real.cos (θ / 2) : ℂ), -(I * Real.sin (θ / 2)); -(I * Real.sin (θ / 2)), (Real.cos (θ / 2) : ℂ)]
noncomputable def Ry (θ : ℝ) : Matrix (Fin 2) (Fin 2) ℂ :=
  !![(Real.cos (θ / 2) : ℂ), -(Real.sin (θ / 2) : ℂ); (Real.sin (θ / 2) : ℂ), (Real.cos (θ / 2) : ℂ)]
noncomputable def Rz (θ : ℝ) : Matrix (Fin 2) (Fin 2) ℂ :=
  !![Complex.exp (-(I * (θ / 2 : ℝ))), 0; 0, Complex.exp (I * (θ / 2 : ℝ))]

end Std

/-! ### rot for the coordinate axes -/

theorem exp_I_mul (x : ℝ) : Complex.exp (I * x) = Real.cos x + I * Real.sin x := by
  rw [mul_comm, Complex.exp_mul_I]; push_cast; ring

theorem rot_x (θ φ : ℝ) : rot (1, 0, 0) θ φ = Complex.exp (I * φ) • Std.Rx θ := by
  rw [rot_eq, Std.Rx]; congr 1
  ext i j; fin_cases i <;> fin_cases j <;> simp

theorem rot_y (θ φ : ℝ) : rot (0, 1, 0) θ φ = Complex.exp (I * φ) • Std.Ry θ := by
  rw [rot_eq, Std.Ry]; congr 1
  ext i j; fin_cases i <;> fin_cases j <;> simp

theorem cexp_I_mul (z : ℂ) : Complex.exp (I * z) = Complex.cos z + I * Complex.sin z := by
  rw [mul_comm, Complex.exp_mul_I]; ring

theorem cexp_neg_I_mul (z : ℂ) : Complex.exp (-(I * z)) = Complex.cos z - I * Complex.sin z := by
  rw [show -(I * z) = (-z) * I by ring, Complex.exp_mul_I, Complex.cos_neg, Complex.sin_neg]; ring

theorem rot_z (θ φ : ℝ) : rot (0, 0, 1) θ φ = Complex.exp (I * φ) • Std.Rz θ := by
  rw [rot_eq, Std.Rz]; congr 1
  ext i j; fin_cases i <;> fin_cases j <;> simp [cexp_I_mul, cexp_neg_I_mul]

/-- `e^{iφ} R_z(θ) = e^{i(φ - θ/2)} diag(1, e^{iθ})` -/
theorem rot_z_diag (θ φ : ℝ) :
    rot (0, 0, 1) θ φ = Complex.exp (I * (φ - θ / 2 : ℝ)) • Std.P θ := by
  rw [rot_z, Std.Rz, Std.P]
  ext i j; fin_cases i <;> fin_cases j <;> simp [← Complex.exp_add]
  all_goals congr 1; ring 


/-! ### constants -/

theorem exp_I_pi_div_two : Complex.exp (I * ((Real.pi / 2 : ℝ) : ℂ)) = I := by
  rw [mul_comm]; push_cast; exact Complex.exp_pi_div_two_mul_I

theorem sqrt_two_half : Real.sqrt 2 / 2 = 1 / Real.sqrt 2 := by
  have h : Real.sqrt 2 * Real.sqrt 2 = 2 := Real.mul_self_sqrt (by norm_num)
  have h' : Real.sqrt 2 ≠ 0 := by positivity
  field_simp; linarith

theorem cos_pi4 : Real.cos (Real.pi / 2 / 2) = 1 / Real.sqrt 2 := by
  rw [show Real.pi / 2 / 2 = Real.pi / 4 by ring, Real.cos_pi_div_four, sqrt_two_half]
theorem sin_pi4 : Real.sin (Real.pi / 2 / 2) = 1 / Real.sqrt 2 := by
  rw [show Real.pi / 2 / 2 = Real.pi / 4 by ring, Real.sin_pi_div_four, sqrt_two_half]
theorem cos_mpi4 : Real.cos (-Real.pi / 2 / 2) = 1 / Real.sqrt 2 := by
  rw [show -Real.pi / 2 / 2 = -(Real.pi / 4) by ring, Real.cos_neg, Real.cos_pi_div_four, sqrt_two_half]
theorem sin_mpi4 : Real.sin (-Real.pi / 2 / 2) = -(1 / Real.sqrt 2) := by
  rw [show -Real.pi / 2 / 2 = -(Real.pi / 4) by ring, Real.sin_neg, Real.sin_pi_div_four, sqrt_two_half]

/-! ### the operators of the constant gates -/

theorem rot_I : rot (1, 0, 0) 0 0 = Std.I_ := by
  rw [rot_zero, Std.I_]; ext i j; fin_cases i <;> fin_cases j <;> simp

theorem rot_X : rot (1, 0, 0) Real.pi (Real.pi / 2) = Std.X := by
  rw [rot_x, exp_I_pi_div_two, Std.Rx, Std.X, Real.cos_pi_div_two, Real.sin_pi_div_two]
  ext i j; fin_cases i <;> fin_cases j <;> simp

theorem rot_Y : rot (0, 1, 0) Real.pi (Real.pi / 2) = Std.Y := by
  rw [rot_y, exp_I_pi_div_two, Std.Ry, Std.Y, Real.cos_pi_div_two, Real.sin_pi_div_two]
  ext i j; fin_cases i <;> fin_cases j <;> simp

theorem rot_Z : rot (0, 0, 1) Real.pi (Real.pi / 2) = Std.Z := by
  rw [rot_z_diag, Std.P, Std.Z]
  ext i j; fin_cases i <;> fin_cases j <;> simp
  rw [mul_comm, Complex.exp_pi_mul_I]

theorem rot_X90 : rot (1, 0, 0) (Real.pi / 2) 0 = Std.X90 := by
  rw [rot_x, Std.Rx, Std.X90, cos_pi4, sin_pi4]
  ext i j; fin_cases i <;> fin_cases j <;> simp <;> ring

theorem rot_mX90 : rot (1, 0, 0) (-Real.pi / 2) 0 = Std.mX90 := by
  rw [rot_x, Std.Rx, Std.mX90, cos_mpi4, sin_mpi4]
  ext i j; fin_cases i <;> fin_cases j <;> simp <;> ring

theorem rot_Y90 : rot (0, 1, 0) (Real.pi / 2) 0 = Std.Y90 := by
  rw [rot_y, Std.Ry, Std.Y90, cos_pi4, sin_pi4]
  ext i j; fin_cases i <;> fin_cases j <;> simp

theorem rot_mY90 : rot (0, 1, 0) (-Real.pi / 2) 0 = Std.mY90 := by
  rw [rot_y, Std.Ry, Std.mY90, cos_mpi4, sin_mpi4]
  ext i j; fin_cases i <;> fin_cases j <;> simp


theorem P_pi_div_two : Std.P (Real.pi / 2) = Std.S := by
  rw [Std.P, exp_I_pi_div_two, Std.S]
theorem P_neg_pi_div_two : Std.P (-Real.pi / 2) = Std.Sdag := by
  rw [Std.P, Std.Sdag, show ((-Real.pi / 2 : ℝ) : ℂ) = -((Real.pi / 2 : ℝ) : ℂ) by push_cast; ring,
    mul_neg, Complex.exp_neg, exp_I_pi_div_two, Complex.inv_I]
theorem P_pi_div_four : Std.P (Real.pi / 4) = Std.T := rfl
theorem P_neg_pi_div_four : Std.P (-Real.pi / 4) = Std.Tdag := by
  rw [Std.P, Std.Tdag, neg_div]

theorem rot_S : rot (0, 0, 1) (Real.pi / 2) 0 = Complex.exp (I * (-(Real.pi / 4) : ℝ)) • Std.S := by
  rw [rot_z_diag, P_pi_div_two]; congr 2; push_cast; ring
theorem rot_Sdag : rot (0, 0, 1) (-Real.pi / 2) 0 = Complex.exp (I * (Real.pi / 4 : ℝ)) • Std.Sdag := by
  rw [rot_z_diag, P_neg_pi_div_two]; congr 2; push_cast; ring
theorem rot_T : rot (0, 0, 1) (Real.pi / 4) 0 = Complex.exp (I * (-(Real.pi / 8) : ℝ)) • Std.T := by
  rw [rot_z_diag, P_pi_div_four]; congr 2; push_cast; ring
theorem rot_Tdag : rot (0, 0, 1) (-Real.pi / 4) 0 = Complex.exp (I * (Real.pi / 8 : ℝ)) • Std.Tdag := by
  rw [rot_z_diag, P_neg_pi_div_four]; congr 2; push_cast; ring

theorem rot_H : rot (1 / Real.sqrt 2, 0, 1 / Real.sqrt 2) Real.pi (Real.pi / 2) = Std.H := by
  rw [rot_eq, exp_I_pi_div_two, Std.H, Real.cos_pi_div_two, Real.sin_pi_div_two]
  ext i j; fin_cases i <;> fin_cases j <;> simp <;> rw [← mul_assoc, Complex.I_mul_I] <;> ring

/-- a unit complex number `e^{ix}` -/
theorem norm_exp_I_mul (x : ℝ) : ‖Complex.exp (I * x)‖ = 1 := by
  rw [mul_comm]; exact Complex.norm_exp_ofReal_mul_I x

/-! ### evaluation of the constructors on the table's constants -/

theorem mkBSR_unit (atol : ℝ) (q : Int) (a : Vec3 ℝ) (θ φ : ℝ)
    (ha : a.1 ^ 2 + a.2.1 ^ 2 + a.2.2 ^ 2 = 1) :
    mkBSR atol q a θ φ = .ok (.bsr q a (normalizeAngle atol θ) (normalizeAngle atol φ)) := by
  unfold mkBSR; rw [mkAxis_of_unit a ha]; rfl

theorem mkAxis_101 : mkAxis ((1, 0, 1) : Vec3 ℝ) = .ok (1 / Real.sqrt 2, 0, 1 / Real.sqrt 2) := by
  rw [mkAxis_eq, if_neg (by simp)]
  have : Vec3.norm ((1, 0, 1) : Vec3 ℝ) = Real.sqrt 2 := by
    rw [norm_real]; norm_num
  simp [Vec3.divBy, this]

theorem mkBSR_101 (atol : ℝ) (q : Int) (θ φ : ℝ) :
    mkBSR atol q (1, 0, 1) θ φ
      = .ok (.bsr q (1 / Real.sqrt 2, 0, 1 / Real.sqrt 2) (normalizeAngle atol θ) (normalizeAngle atol φ)) := by
  unfold mkBSR; rw [mkAxis_101]; rfl

/-- the constant angles of the table (`0, ±π/4, ±π/2, π`) are fixed by `normalize_angle`
    as soon as `0 < atol ≤ π/2` -/
theorem nA_const (atol : ℝ) (h0 : 0 < atol) (h1 : atol ≤ Real.pi / 2) (x : ℝ)
    (hx : -(Real.pi / 2) ≤ x ∧ x ≤ Real.pi) : normalizeAngle atol x = x :=
  normalizeAngle_id_of_range atol x h0 (by linarith [Real.pi_pos]) ⟨by linarith [hx.1], hx.2⟩

theorem nA_zero (atol : ℝ) (h0 : 0 < atol) (h1 : atol < Real.pi) : normalizeAngle atol 0 = 0 :=
  normalizeAngle_id_of_range atol 0 h0 h1 ⟨by linarith, by linarith [Real.pi_pos]⟩


/-! ### the gate table, evaluated -/

macro "gate_unfold" : tactic => `(tactic| conv_lhs =>
  simp [callGate, evalNamed, Gen.gateTable, List.find?, bindArgs, GExpr.eval, SExpr.eval, envQubit,
    Env.find?, intToScalar, bind, Except.bind, pure, Except.pure])

section
variable (atol : ℝ) (h0 : 0 < atol) (h1 : atol ≤ Real.pi / 2) (q : Int)
include h0 h1

theorem call_I : callGate atol Gen.gateTable "I" [.qubit q]
    = .ok (.bsr q (1, 0, 0) 0 0, ⟨"I", [.qubit q]⟩) := by
  have hpi := Real.pi_pos
  have e1 := nA_const atol h0 h1 0 (by constructor <;> linarith)
  gate_unfold
  rw [mkBSR_unit _ _ _ _ _ (by norm_num)]; simp only [e1]

theorem call_H : callGate atol Gen.gateTable "H" [.qubit q]
    = .ok (.bsr q (1 / Real.sqrt 2, 0, 1 / Real.sqrt 2) Real.pi (Real.pi / 2), ⟨"H", [.qubit q]⟩) := by
  have hpi := Real.pi_pos
  have e1 := nA_const atol h0 h1 Real.pi (by constructor <;> linarith)
  have e2 := nA_const atol h0 h1 (Real.pi / 2) (by constructor <;> linarith)
  gate_unfold
  rw [mkBSR_101]; simp only [e1, e2]

theorem call_X : callGate atol Gen.gateTable "X" [.qubit q]
    = .ok (.bsr q (1, 0, 0) Real.pi (Real.pi / 2), ⟨"X", [.qubit q]⟩) := by
  have hpi := Real.pi_pos
  have e1 := nA_const atol h0 h1 Real.pi (by constructor <;> linarith)
  have e2 := nA_const atol h0 h1 (Real.pi / 2) (by constructor <;> linarith)
  gate_unfold
  rw [mkBSR_unit _ _ _ _ _ (by norm_num)]; simp only [e1, e2]

theorem call_X90 : callGate atol Gen.gateTable "X90" [.qubit q]
    = .ok (.bsr q (1, 0, 0) (Real.pi / 2) 0, ⟨"X90", [.qubit q]⟩) := by
  have hpi := Real.pi_pos
  have e1 := nA_const atol h0 h1 (Real.pi / 2) (by constructor <;> linarith)
  have e2 := nA_const atol h0 h1 0 (by constructor <;> linarith)
  gate_unfold
  rw [mkBSR_unit _ _ _ _ _ (by norm_num)]; simp only [e1, e2]

theorem call_mX90 : callGate atol Gen.gateTable "mX90" [.qubit q]
    = .ok (.bsr q (1, 0, 0) (-Real.pi / 2) 0, ⟨"mX90", [.qubit q]⟩) := by
  have hpi := Real.pi_pos
  have e1 := nA_const atol h0 h1 (-Real.pi / 2) (by constructor <;> linarith)
  have e2 := nA_const atol h0 h1 0 (by constructor <;> linarith)
  gate_unfold
  rw [mkBSR_unit _ _ _ _ _ (by norm_num)]; simp only [e1, e2]

theorem call_Y : callGate atol Gen.gateTable "Y" [.qubit q]
    = .ok (.bsr q (0, 1, 0) Real.pi (Real.pi / 2), ⟨"Y", [.qubit q]⟩) := by
  have hpi := Real.pi_pos
  have e1 := nA_const atol h0 h1 Real.pi (by constructor <;> linarith)
  have e2 := nA_const atol h0 h1 (Real.pi / 2) (by constructor <;> linarith)
  gate_unfold
  rw [mkBSR_unit _ _ _ _ _ (by norm_num)]; simp only [e1, e2]

theorem call_Y90 : callGate atol Gen.gateTable "Y90" [.qubit q]
    = .ok (.bsr q (0, 1, 0) (Real.pi / 2) 0, ⟨"Y90", [.qubit q]⟩) := by
  have hpi := Real.pi_pos
  have e1 := nA_const atol h0 h1 (Real.pi / 2) (by constructor <;> linarith)
  have e2 := nA_const atol h0 h1 0 (by constructor <;> linarith)
  gate_unfold
  rw [mkBSR_unit _ _ _ _ _ (by norm_num)]; simp only [e1, e2]

theorem call_mY90 : callGate atol Gen.gateTable "mY90" [.qubit q]
    = .ok (.bsr q (0, 1, 0) (-Real.pi / 2) 0, ⟨"mY90", [.qubit q]⟩) := by
  have hpi := Real.pi_pos
  have e1 := nA_const atol h0 h1 (-Real.pi / 2) (by constructor <;> linarith)
  have e2 := nA_const atol h0 h1 0 (by constructor <;> linarith)
  gate_unfold
  rw [mkBSR_unit _ _ _ _ _ (by norm_num)]; simp only [e1, e2]

theorem call_Z : callGate atol Gen.gateTable "Z" [.qubit q]
    = .ok (.bsr q (0, 0, 1) Real.pi (Real.pi / 2), ⟨"Z", [.qubit q]⟩) := by
  have hpi := Real.pi_pos
  have e1 := nA_const atol h0 h1 Real.pi (by constructor <;> linarith)
  have e2 := nA_const atol h0 h1 (Real.pi / 2) (by constructor <;> linarith)
  gate_unfold
  rw [mkBSR_unit _ _ _ _ _ (by norm_num)]; simp only [e1, e2]

theorem call_S : callGate atol Gen.gateTable "S" [.qubit q]
    = .ok (.bsr q (0, 0, 1) (Real.pi / 2) 0, ⟨"S", [.qubit q]⟩) := by
  have hpi := Real.pi_pos
  have e1 := nA_const atol h0 h1 (Real.pi / 2) (by constructor <;> linarith)
  have e2 := nA_const atol h0 h1 0 (by constructor <;> linarith)
  gate_unfold
  rw [mkBSR_unit _ _ _ _ _ (by norm_num)]; simp only [e1, e2]

theorem call_Sdag : callGate atol Gen.gateTable "Sdag" [.qubit q]
    = .ok (.bsr q (0, 0, 1) (-Real.pi / 2) 0, ⟨"Sdag", [.qubit q]⟩) := by
  have hpi := Real.pi_pos
  have e1 := nA_const atol h0 h1 (-Real.pi / 2) (by constructor <;> linarith)
  have e2 := nA_const atol h0 h1 0 (by constructor <;> linarith)
  gate_unfold
  rw [mkBSR_unit _ _ _ _ _ (by norm_num)]; simp only [e1, e2]

theorem call_T : callGate atol Gen.gateTable "T" [.qubit q]
    = .ok (.bsr q (0, 0, 1) (Real.pi / 4) 0, ⟨"T", [.qubit q]⟩) := by
  have hpi := Real.pi_pos
  have e1 := nA_const atol h0 h1 (Real.pi / 4) (by constructor <;> linarith)
  have e2 := nA_const atol h0 h1 0 (by constructor <;> linarith)
  gate_unfold
  rw [mkBSR_unit _ _ _ _ _ (by norm_num)]; simp only [e1, e2]

theorem call_Tdag : callGate atol Gen.gateTable "Tdag" [.qubit q]
    = .ok (.bsr q (0, 0, 1) (-Real.pi / 4) 0, ⟨"Tdag", [.qubit q]⟩) := by
  have hpi := Real.pi_pos
  have e1 := nA_const atol h0 h1 (-Real.pi / 4) (by constructor <;> linarith)
  have e2 := nA_const atol h0 h1 0 (by constructor <;> linarith)
  gate_unfold
  rw [mkBSR_unit _ _ _ _ _ (by norm_num)]; simp only [e1, e2]

end


/-! ### `Rx`, `Ry`, `Rz` -/

theorem Std.Rx_eq (θ : ℝ) : Std.Rx θ
    = (Real.cos (θ / 2) : ℂ) • (1 : Matrix (Fin 2) (Fin 2) ℂ) - (I * (Real.sin (θ / 2) : ℂ)) • σx := by
  rw [Std.Rx, σx]; ext i j; fin_cases i <;> fin_cases j <;> simp
theorem Std.Ry_eq (θ : ℝ) : Std.Ry θ
    = (Real.cos (θ / 2) : ℂ) • (1 : Matrix (Fin 2) (Fin 2) ℂ) - (I * (Real.sin (θ / 2) : ℂ)) • σy := by
  rw [Std.Ry, σy]; ext i j; fin_cases i <;> fin_cases j <;> simp
  all_goals (rw [mul_right_comm, Complex.I_mul_I]; ring)
theorem Std.Rz_eq (θ : ℝ) : Std.Rz θ
    = (Real.cos (θ / 2) : ℂ) • (1 : Matrix (Fin 2) (Fin 2) ℂ) - (I * (Real.sin (θ / 2) : ℂ)) • σz := by
  rw [Std.Rz, σz]; ext i j; fin_cases i <;> fin_cases j <;> simp [cexp_I_mul, cexp_neg_I_mul]

section
variable (atol : ℝ) (h0 : 0 ≤ atol) (h1 : atol < Real.pi) (q : Int) (θ : ℝ)

theorem nA_zero' (h0 : 0 ≤ atol) (h1 : atol < Real.pi) : normalizeAngle atol 0 = 0 :=
  normalizeAngle_id_of_window atol 0 h0 h1 (by linarith) (by linarith [Real.pi_pos])

include h0 h1 in
theorem call_Rx : callGate atol Gen.gateTable "Rx" [.qubit q, .float θ]
    = .ok (.bsr q (1, 0, 0) (normalizeAngle atol θ) 0, ⟨"Rx", [.qubit q, .float θ]⟩) := by
  have e := nA_zero' atol h0 h1
  gate_unfold
  rw [mkBSR_unit _ _ _ _ _ (by norm_num)]; simp only [e]

include h0 h1 in
theorem call_Ry : callGate atol Gen.gateTable "Ry" [.qubit q, .float θ]
    = .ok (.bsr q (0, 1, 0) (normalizeAngle atol θ) 0, ⟨"Ry", [.qubit q, .float θ]⟩) := by
  have e := nA_zero' atol h0 h1
  gate_unfold
  rw [mkBSR_unit _ _ _ _ _ (by norm_num)]; simp only [e]

include h0 h1 in
theorem call_Rz : callGate atol Gen.gateTable "Rz" [.qubit q, .float θ]
    = .ok (.bsr q (0, 0, 1) (normalizeAngle atol θ) 0, ⟨"Rz", [.qubit q, .float θ]⟩) := by
  have e := nA_zero' atol h0 h1
  gate_unfold
  rw [mkBSR_unit _ _ _ _ _ (by norm_num)]; simp only [e]

/-- the operator of the normalised angle is the requested one up to the sign `(-1)^k` -/
theorem rot_nA (a : Vec3 ℝ) : ∃ k : ℤ, normalizeAngle atol θ = θ + 2 * Real.pi * k ∧
    rot a (normalizeAngle atol θ) 0 = ((-1 : ℂ) ^ k) • rot a θ 0 := by
  obtain ⟨k, hk⟩ := normalizeAngle_congr atol θ
  exact ⟨k, hk, by rw [hk, rot_add_int_mul_two_pi]⟩

theorem rot_nA_sign (a : Vec3 ℝ) :
    rot a (normalizeAngle atol θ) 0 = rot a θ 0 ∨ rot a (normalizeAngle atol θ) 0 = - rot a θ 0 := by
  obtain ⟨k, -, hk⟩ := rot_nA atol θ a
  rw [hk]
  rcases Int.even_or_odd k with he | ho
  · left; rw [he.neg_one_zpow, one_smul]
  · right; rw [ho.neg_one_zpow, neg_smul, one_smul]

theorem rot_Rx : rot (1, 0, 0) (normalizeAngle atol θ) 0 = Std.Rx θ
    ∨ rot (1, 0, 0) (normalizeAngle atol θ) 0 = - Std.Rx θ := by
  have := rot_nA_sign atol θ (1, 0, 0)
  rwa [rot_x θ 0, Complex.ofReal_zero, mul_zero, Complex.exp_zero, one_smul] at this
theorem rot_Ry : rot (0, 1, 0) (normalizeAngle atol θ) 0 = Std.Ry θ
    ∨ rot (0, 1, 0) (normalizeAngle atol θ) 0 = - Std.Ry θ := by
  have := rot_nA_sign atol θ (0, 1, 0)
  rwa [rot_y θ 0, Complex.ofReal_zero, mul_zero, Complex.exp_zero, one_smul] at this
theorem rot_Rz : rot (0, 0, 1) (normalizeAngle atol θ) 0 = Std.Rz θ
    ∨ rot (0, 0, 1) (normalizeAngle atol θ) 0 = - Std.Rz θ := by
  have := rot_nA_sign atol θ (0, 0, 1)
  rwa [rot_z θ 0, Complex.ofReal_zero, mul_zero, Complex.exp_zero, one_smul] at this

end

/-! ### controlled gates -/

theorem mkCtrl_bsr (c t : Int) (a : Vec3 ℝ) (θ φ : ℝ) :
    mkCtrl c (.bsr t a θ φ) = if c = t then .error .value else .ok (.ctrl c (.bsr t a θ φ)) := by
  simp [mkCtrl, hasDup, Gate.operands]


section
variable (atol : ℝ) (h0 : 0 < atol) (h1 : atol ≤ Real.pi / 2) (c t : Int)
include h0 h1

theorem call_CNOT (hct : c ≠ t) : callGate atol Gen.gateTable "CNOT" [.qubit c, .qubit t]
    = .ok (.ctrl c (.bsr t (1, 0, 0) Real.pi (Real.pi / 2)), ⟨"CNOT", [.qubit c, .qubit t]⟩) := by
  have hpi := Real.pi_pos
  have e1 := nA_const atol h0 h1 Real.pi (by constructor <;> linarith)
  have e2 := nA_const atol h0 h1 (Real.pi / 2) (by constructor <;> linarith)
  gate_unfold
  rw [mkBSR_unit _ _ _ _ _ (by norm_num)]; simp only [e1, e2, mkCtrl_bsr, if_neg hct]

theorem call_CZ (hct : c ≠ t) : callGate atol Gen.gateTable "CZ" [.qubit c, .qubit t]
    = .ok (.ctrl c (.bsr t (0, 0, 1) Real.pi (Real.pi / 2)), ⟨"CZ", [.qubit c, .qubit t]⟩) := by
  have hpi := Real.pi_pos
  have e1 := nA_const atol h0 h1 Real.pi (by constructor <;> linarith)
  have e2 := nA_const atol h0 h1 (Real.pi / 2) (by constructor <;> linarith)
  gate_unfold
  rw [mkBSR_unit _ _ _ _ _ (by norm_num)]; simp only [e1, e2, mkCtrl_bsr, if_neg hct]

omit h0 h1 in
/-- control = target is refused with `ValueError` (for every tolerance) -/
theorem call_CNOT_same : callGate atol Gen.gateTable "CNOT" [.qubit c, .qubit c] = .error .value := by
  gate_unfold
  rw [mkBSR_unit _ _ _ _ _ (by norm_num)]; simp only [mkCtrl_bsr, if_true]

omit h0 h1 in
theorem call_CZ_same : callGate atol Gen.gateTable "CZ" [.qubit c, .qubit c] = .error .value := by
  gate_unfold
  rw [mkBSR_unit _ _ _ _ _ (by norm_num)]; simp only [mkCtrl_bsr, if_true]

end

/-! ### `CR(θ)` and `CRk(k)` -/

/-- `diag(1, e^{iθ})` is `2π`-periodic in `θ` -/
theorem Std.P_add_int_mul_two_pi (θ : ℝ) (k : ℤ) : Std.P (θ + 2 * Real.pi * k) = Std.P θ := by
  rw [Std.P, Std.P]
  rw [show I * ((θ + 2 * Real.pi * k : ℝ) : ℂ) = I * θ + k * (2 * Real.pi * I) by push_cast; ring,
    Complex.exp_add, Complex.exp_int_mul_two_pi_mul_I, mul_one]

theorem Std.P_add_two_pi (θ : ℝ) : Std.P (θ + 2 * Real.pi) = Std.P θ := by
  have := Std.P_add_int_mul_two_pi θ 1
  simpa using this

/-- with phase = half of the (normalised) angle the `z`-rotation is exactly `diag(1, e^{iθ})` -/
theorem rot_z_half (x : ℝ) : rot (0, 0, 1) x (x / 2) = Std.P x := by
  rw [rot_z_diag, sub_self, Complex.ofReal_zero, mul_zero, Complex.exp_zero, one_smul]

/-- the target operator of `CR(θ)`: exactly `diag(1, e^{iθ})`, for every `θ` and every tolerance -/
theorem rot_CR (atol θ : ℝ) :
    rot (0, 0, 1) (normalizeAngle atol θ) (normalizeAngle atol θ / 2) = Std.P θ := by
  obtain ⟨k, hk⟩ := normalizeAngle_congr atol θ
  rw [rot_z_half, hk, Std.P_add_int_mul_two_pi]

theorem nA_half (atol x : ℝ) (h0 : 0 ≤ atol) (h1 : atol < Real.pi) :
    normalizeAngle atol (normalizeAngle atol x / 2) = normalizeAngle atol x / 2 := by
  obtain ⟨hr1, hr2⟩ := normalizeAngle_range atol x h0 h1
  exact normalizeAngle_id_of_window atol _ h0 h1 (by linarith) (by linarith [Real.pi_pos])

theorem normalizeAngle_add_two_pi (atol x : ℝ) (h0 : 0 ≤ atol) (h1 : atol < Real.pi) :
    normalizeAngle atol (x + 2 * Real.pi) = normalizeAngle atol x := by
  obtain ⟨k, hk, a1, a2⟩ := normalizeAngle_spec atol (x + 2 * Real.pi) h0 h1
  obtain ⟨m, hm, b1, b2⟩ := normalizeAngle_spec atol x h0 h1
  have : normalizeAngle atol (x + 2 * Real.pi)
      = normalizeAngle atol x + 2 * Real.pi * ((k + 1 - m : ℤ) : ℝ) := by
    rw [hk, hm]; push_cast; ring
  exact eq_of_congr_of_window this a1 (by linarith) b1 (by linarith)

section
variable (atol : ℝ) (h0 : 0 ≤ atol) (h1 : atol < Real.pi) (c t : Int)
include h0 h1

theorem call_CR (θ : ℝ) (hct : c ≠ t) : callGate atol Gen.gateTable "CR" [.qubit c, .qubit t, .float θ]
    = .ok (.ctrl c (.bsr t (0, 0, 1) (normalizeAngle atol θ) (normalizeAngle atol θ / 2)),
        ⟨"CR", [.qubit c, .qubit t, .float θ]⟩) := by
  have e1 := normalizeAngle_idem atol θ h0 h1
  have e2 := nA_half atol θ h0 h1
  gate_unfold
  rw [mkBSR_unit _ _ _ _ _ (by norm_num)]; simp only [e1, e2, mkCtrl_bsr, if_neg hct]

omit h0 h1 in
theorem call_CR_same (θ : ℝ) :
    callGate atol Gen.gateTable "CR" [.qubit c, .qubit c, .float θ] = .error .value := by
  gate_unfold
  rw [mkBSR_unit _ _ _ _ _ (by norm_num)]; simp only [mkCtrl_bsr, if_true]

end


/-- `2 ** k` at `ℝ` (the model's `pow2Int`) is the integer power `2^k` -/
theorem pow2Int_real (k : ℤ) : (pow2Int k : ℝ) = (2 : ℝ) ^ k := by
  unfold pow2Int
  split_ifs with hk
  · rw [sc_real]; push_cast
    conv_rhs => rw [← Int.toNat_of_nonneg hk]
    rw [zpow_natCast]
  · have hk' : 0 ≤ -k := by omega
    rw [sc_real, one_real]; push_cast
    conv_rhs => rw [show k = -((-k).toNat : ℤ) by rw [Int.toNat_of_nonneg hk', neg_neg]]
    rw [zpow_neg, zpow_natCast, one_div]

/-- the angle of `CRk(k)` -/
noncomputable def crkAngle (k : ℤ) : ℝ := 2 * Real.pi / (2 : ℝ) ^ k

/-- `diag(1, e^{2πi/2^k})` -/
noncomputable def Std.Pk (k : ℤ) : Matrix (Fin 2) (Fin 2) ℂ :=
  !![1, 0; 0, Complex.exp (2 * Real.pi * I / (2 : ℂ) ^ k)]

theorem Std.P_crkAngle (k : ℤ) : Std.P (crkAngle k) = Std.Pk k := by
  have : I * ((2 * Real.pi / (2 : ℝ) ^ k : ℝ) : ℂ) = 2 * Real.pi * I / (2 : ℂ) ^ k := by
    push_cast; ring
  rw [Std.P, Std.Pk, crkAngle, this]

/-- the target operator of `CRk(k)`: exactly `diag(1, e^{2πi/2^k})` -/
theorem rot_CRk (atol : ℝ) (k : ℤ) :
    rot (0, 0, 1) (normalizeAngle atol (crkAngle k)) (normalizeAngle atol (crkAngle k) / 2) = Std.Pk k := by
  rw [rot_CR, Std.P_crkAngle]

section
variable (atol : ℝ) (h0 : 0 ≤ atol) (h1 : atol < Real.pi) (c t : Int)
include h0 h1

theorem call_CRk (k : ℤ) (hct : c ≠ t) : callGate atol Gen.gateTable "CRk" [.qubit c, .qubit t, .int k]
    = .ok (.ctrl c (.bsr t (0, 0, 1) (normalizeAngle atol (crkAngle k))
          (normalizeAngle atol (crkAngle k) / 2)),
        ⟨"CRk", [.qubit c, .qubit t, .int k]⟩) := by
  have e1 := normalizeAngle_idem atol (crkAngle k) h0 h1
  have e2 := nA_half atol (crkAngle k) h0 h1
  gate_unfold
  rw [mkBSR_unit _ _ _ _ _ (by norm_num), pow2Int_real, ← crkAngle]
  simp only [e1, e2, mkCtrl_bsr, if_neg hct]

omit h0 h1 in
theorem call_CRk_same (k : ℤ) :
    callGate atol Gen.gateTable "CRk" [.qubit c, .qubit c, .int k] = .error .value := by
  gate_unfold
  rw [mkBSR_unit _ _ _ _ _ (by norm_num)]; simp only [mkCtrl_bsr, if_true]

end

/-! ### measure / reset -/

theorem call_measure (q b : Int) : callMeasure (α := ℝ) Gen.measureTable "measure" [.qubit q, .bit b]
    = .ok (.measure q b (0, 0, 1) (some ⟨"measure", [.qubit q, .bit b]⟩)) := by
  conv_lhs => simp [callMeasure, Gen.measureTable, List.find?, bindArgs, envQubit, Env.find?,
    intToScalar, bind, Except.bind, pure, Except.pure]
  rw [mkAxis_of_unit _ (by norm_num)]

theorem call_measure_z (q b : Int) : callMeasure (α := ℝ) Gen.measureTable "measure_z" [.qubit q, .bit b]
    = .ok (.measure q b (0, 0, 1) (some ⟨"measure_z", [.qubit q, .bit b]⟩)) := by
  conv_lhs => simp [callMeasure, Gen.measureTable, List.find?, bindArgs, envQubit, Env.find?,
    intToScalar, bind, Except.bind, pure, Except.pure]
  rw [mkAxis_of_unit _ (by norm_num)]

theorem call_reset (q : Int) : callReset (α := ℝ) Gen.resetTable "reset" [.qubit q]
    = .ok (.reset q (some ⟨"reset", [.qubit q]⟩)) := by
  simp [callReset, Gen.resetTable, List.find?, bindArgs, envQubit, Env.find?,
    bind, Except.bind, pure, Except.pure]

/-! ### gate set and aliases -/

theorem gateSet_eq : Gen.gateSet = ["I", "H", "X", "X90", "mX90", "Y", "Y90", "mY90", "Z", "S", "Sdag",
    "T", "Tdag", "Rx", "Ry", "Rz", "CNOT", "CZ", "CR", "CRk"] := rfl

theorem gateSet_length : Gen.gateSet.length = 20 := rfl

theorem gateTable_names : Gen.gateTable.map (·.name) = Gen.gateSet := rfl

theorem gateSet_nodup : Gen.gateSet.Nodup := by decide

theorem aliases_resolve : ∀ p ∈ Gen.aliases,
    defaultLib.gateName p.1 = .ok p.2 ∧ p.2 ∈ Gen.gateSet := by
  decide


/-- every name of the gate set has an entry in the table, found under that name -/
theorem gateSet_has_entry : ∀ n ∈ Gen.gateSet,
    (Gen.gateTable.find? (·.name == n)).map (·.name) = some n := by
  decide

theorem bsrNoParams_eq : Gen.bsrNoParams
    = ["I", "H", "X", "X90", "mX90", "Y", "Y90", "mY90", "Z", "S", "Sdag", "T", "Tdag"] := rfl

/-! ### the spec matrices in Pauli form -/

theorem Std.I_eq : Std.I_ = 1 := by
  rw [Std.I_]; ext i j; fin_cases i <;> fin_cases j <;> simp
theorem Std.X_eq : Std.X = σx := rfl
theorem Std.Y_eq : Std.Y = σy := rfl
theorem Std.Z_eq : Std.Z = σz := rfl
theorem Std.H_eq : Std.H = (1 / (Real.sqrt 2 : ℂ)) • (σx + σz) := by
  rw [Std.H, σx, σz]; ext i j; fin_cases i <;> fin_cases j <;> simp
theorem Std.X90_eq : Std.X90 = (1 / (Real.sqrt 2 : ℂ)) • (1 - I • σx) := by
  rw [Std.X90, σx]; ext i j; fin_cases i <;> fin_cases j <;> simp
theorem Std.mX90_eq : Std.mX90 = (1 / (Real.sqrt 2 : ℂ)) • (1 + I • σx) := by
  rw [Std.mX90, σx]; ext i j; fin_cases i <;> fin_cases j <;> simp
theorem Std.Y90_eq : Std.Y90 = (1 / (Real.sqrt 2 : ℂ)) • (1 - I • σy) := by
  rw [Std.Y90, σy]; ext i j; fin_cases i <;> fin_cases j <;> simp
theorem Std.mY90_eq : Std.mY90 = (1 / (Real.sqrt 2 : ℂ)) • (1 + I • σy) := by
  rw [Std.mY90, σy]; ext i j; fin_cases i <;> fin_cases j <;> simp
theorem Std.P_zero : Std.P 0 = 1 := by
  rw [Std.P]; ext i j; fin_cases i <;> fin_cases j <;> simp
theorem Std.P_pi : Std.P Real.pi = Std.Z := by
  rw [Std.P, Std.Z, mul_comm, Complex.exp_pi_mul_I]

/-! ### summary -/

/-- calling `name` on qubit `q` yields a rotation whose operator is `M` up to a global phase -/
def DenotesUpToPhase (atol : ℝ) (name : String) (M : Matrix (Fin 2) (Fin 2) ℂ) : Prop :=
  ∀ q : Int, ∃ (a : Vec3 ℝ) (θ φ : ℝ) (z : ℂ), ‖z‖ = 1 ∧
    callGate atol Gen.gateTable name [.qubit q] = .ok (.bsr q a θ φ, ⟨name, [.qubit q]⟩) ∧
    rot a θ φ = z • M

/-- … and exactly `M` (global phase included) -/
def DenotesExactly (atol : ℝ) (name : String) (M : Matrix (Fin 2) (Fin 2) ℂ) : Prop :=
  ∀ q : Int, ∃ (a : Vec3 ℝ) (θ φ : ℝ),
    callGate atol Gen.gateTable name [.qubit q] = .ok (.bsr q a θ φ, ⟨name, [.qubit q]⟩) ∧
    rot a θ φ = M

theorem DenotesExactly.upToPhase {atol : ℝ} {name : String} {M : Matrix (Fin 2) (Fin 2) ℂ}
    (h : DenotesExactly atol name M) : DenotesUpToPhase atol name M := fun q => by
  obtain ⟨a, θ, φ, h1, h2⟩ := h q
  exact ⟨a, θ, φ, 1, by simp, h1, by rw [h2, one_smul]⟩

/-- **C07, parameter-free gates.**  For `0 < atol ≤ π/2` every parameter-free default gate denotes its
    cQASM standard matrix: `I H X Y Z X90 mX90 Y90 mY90` exactly, `S Sdag T Tdag` up to a global phase. -/
theorem default_gates_denote (atol : ℝ) (h0 : 0 < atol) (h1 : atol ≤ Real.pi / 2) :
    DenotesExactly atol "I" Std.I_ ∧ DenotesExactly atol "H" Std.H ∧
    DenotesExactly atol "X" Std.X ∧ DenotesExactly atol "Y" Std.Y ∧ DenotesExactly atol "Z" Std.Z ∧
    DenotesExactly atol "X90" Std.X90 ∧ DenotesExactly atol "mX90" Std.mX90 ∧
    DenotesExactly atol "Y90" Std.Y90 ∧ DenotesExactly atol "mY90" Std.mY90 ∧
    DenotesUpToPhase atol "S" Std.S ∧ DenotesUpToPhase atol "Sdag" Std.Sdag ∧
    DenotesUpToPhase atol "T" Std.T ∧ DenotesUpToPhase atol "Tdag" Std.Tdag :=
  ⟨fun q => ⟨_, _, _, call_I atol h0 h1 q, rot_I⟩,
   fun q => ⟨_, _, _, call_H atol h0 h1 q, rot_H⟩,
   fun q => ⟨_, _, _, call_X atol h0 h1 q, rot_X⟩,
   fun q => ⟨_, _, _, call_Y atol h0 h1 q, rot_Y⟩,
   fun q => ⟨_, _, _, call_Z atol h0 h1 q, rot_Z⟩,
   fun q => ⟨_, _, _, call_X90 atol h0 h1 q, rot_X90⟩,
   fun q => ⟨_, _, _, call_mX90 atol h0 h1 q, rot_mX90⟩,
   fun q => ⟨_, _, _, call_Y90 atol h0 h1 q, rot_Y90⟩,
   fun q => ⟨_, _, _, call_mY90 atol h0 h1 q, rot_mY90⟩,
   fun q => ⟨_, _, _, _, norm_exp_I_mul _, call_S atol h0 h1 q, rot_S⟩,
   fun q => ⟨_, _, _, _, norm_exp_I_mul _, call_Sdag atol h0 h1 q, rot_Sdag⟩,
   fun q => ⟨_, _, _, _, norm_exp_I_mul _, call_T atol h0 h1 q, rot_T⟩,
   fun q => ⟨_, _, _, _, norm_exp_I_mul _, call_Tdag atol h0 h1 q, rot_Tdag⟩⟩

/-- **C07, rotations.**  `Rx/Ry/Rz(θ)` denote `exp(-iθσ/2) = cos(θ/2) − i sin(θ/2) σ` up to the global sign,
    for every `θ`. -/
theorem rotation_gates_denote (atol : ℝ) (h0 : 0 ≤ atol) (h1 : atol < Real.pi) (q : Int) (θ : ℝ) :
    (∃ θ', callGate atol Gen.gateTable "Rx" [.qubit q, .float θ]
        = .ok (.bsr q (1, 0, 0) θ' 0, ⟨"Rx", [.qubit q, .float θ]⟩) ∧
      (rot (1, 0, 0) θ' 0 = Std.Rx θ ∨ rot (1, 0, 0) θ' 0 = - Std.Rx θ)) ∧
    (∃ θ', callGate atol Gen.gateTable "Ry" [.qubit q, .float θ]
        = .ok (.bsr q (0, 1, 0) θ' 0, ⟨"Ry", [.qubit q, .float θ]⟩) ∧
      (rot (0, 1, 0) θ' 0 = Std.Ry θ ∨ rot (0, 1, 0) θ' 0 = - Std.Ry θ)) ∧
    (∃ θ', callGate atol Gen.gateTable "Rz" [.qubit q, .float θ]
        = .ok (.bsr q (0, 0, 1) θ' 0, ⟨"Rz", [.qubit q, .float θ]⟩) ∧
      (rot (0, 0, 1) θ' 0 = Std.Rz θ ∨ rot (0, 0, 1) θ' 0 = - Std.Rz θ)) :=
  ⟨⟨_, call_Rx atol h0 h1 q θ, rot_Rx atol θ⟩, ⟨_, call_Ry atol h0 h1 q θ, rot_Ry atol θ⟩,
   ⟨_, call_Rz atol h0 h1 q θ, rot_Rz atol θ⟩⟩

/-- **C07, controlled gates.**  `CNOT`, `CZ`, `CR(θ)`, `CRk(k)` are `ControlledGate(control, target gate)`
    with target operator **exactly** `σx`, `σz`, `diag(1, e^{iθ})`, `diag(1, e^{2πi/2^k})`. -/
theorem controlled_gates_denote (atol : ℝ) (h0 : 0 < atol) (h1 : atol ≤ Real.pi / 2) (c t : Int)
    (hct : c ≠ t) (θ : ℝ) (k : ℤ) :
    (∃ a θ' φ', callGate atol Gen.gateTable "CNOT" [.qubit c, .qubit t]
        = .ok (.ctrl c (.bsr t a θ' φ'), ⟨"CNOT", [.qubit c, .qubit t]⟩) ∧ rot a θ' φ' = σx) ∧
    (∃ a θ' φ', callGate atol Gen.gateTable "CZ" [.qubit c, .qubit t]
        = .ok (.ctrl c (.bsr t a θ' φ'), ⟨"CZ", [.qubit c, .qubit t]⟩) ∧ rot a θ' φ' = σz) ∧
    (∃ a θ' φ', callGate atol Gen.gateTable "CR" [.qubit c, .qubit t, .float θ]
        = .ok (.ctrl c (.bsr t a θ' φ'), ⟨"CR", [.qubit c, .qubit t, .float θ]⟩) ∧
        rot a θ' φ' = !![1, 0; 0, Complex.exp (I * θ)]) ∧
    (∃ a θ' φ', callGate atol Gen.gateTable "CRk" [.qubit c, .qubit t, .int k]
        = .ok (.ctrl c (.bsr t a θ' φ'), ⟨"CRk", [.qubit c, .qubit t, .int k]⟩) ∧
        rot a θ' φ' = !![1, 0; 0, Complex.exp (2 * Real.pi * I / (2 : ℂ) ^ k)]) := by
  have h1' : atol < Real.pi := by linarith [Real.pi_pos]
  exact ⟨⟨_, _, _, call_CNOT atol h0 h1 c t hct, rot_X⟩, ⟨_, _, _, call_CZ atol h0 h1 c t hct, rot_Z⟩,
    ⟨_, _, _, call_CR atol h0.le h1' c t θ hct, rot_CR atol θ⟩,
    ⟨_, _, _, call_CRk atol h0.le h1' c t k hct, rot_CRk atol k⟩⟩

/-- `CR` is `2π`-periodic: same target operator … -/
theorem CR_periodic (atol θ : ℝ) :
    rot (0, 0, 1) (normalizeAngle atol (θ + 2 * Real.pi)) (normalizeAngle atol (θ + 2 * Real.pi) / 2)
      = rot (0, 0, 1) (normalizeAngle atol θ) (normalizeAngle atol θ / 2) := by
  rw [rot_CR, rot_CR, Std.P_add_two_pi]

/-- … and in fact the very same gate object (only the recorded argument differs). -/
theorem CR_periodic_gate (atol : ℝ) (h0 : 0 ≤ atol) (h1 : atol < Real.pi) (c t : Int) (θ : ℝ) :
    (callGate atol Gen.gateTable "CR" [.qubit c, .qubit t, .float (θ + 2 * Real.pi)]).map (·.1)
      = (callGate atol Gen.gateTable "CR" [.qubit c, .qubit t, .float θ]).map (·.1) := by
  by_cases hct : c = t
  · subst hct; rw [call_CR_same, call_CR_same]
  · rw [call_CR atol h0 h1 c t _ hct, call_CR atol h0 h1 c t _ hct, normalizeAngle_add_two_pi atol θ h0 h1]
    rfl

/-! ### wrapper facts: conversion of bare Python ints -/

/-- a bare `int` operand is converted to `Qubit` by the wrapper: same gate, and the recorded
    arguments are the *converted* ones -/
theorem call_X_int (atol : ℝ) (q : Int) :
    callGate atol Gen.gateTable "X" [.int q] = callGate atol Gen.gateTable "X" [.qubit q] := by
  gate_unfold
  conv_rhs => simp [callGate, evalNamed, Gen.gateTable, List.find?, bindArgs, GExpr.eval, SExpr.eval,
    envQubit, Env.find?, intToScalar, bind, Except.bind, pure, Except.pure]

theorem call_CNOT_int (atol : ℝ) (c t : Int) :
    callGate atol Gen.gateTable "CNOT" [.int c, .int t]
      = callGate atol Gen.gateTable "CNOT" [.qubit c, .qubit t] := by
  gate_unfold
  conv_rhs => simp [callGate, evalNamed, Gen.gateTable, List.find?, bindArgs, GExpr.eval, SExpr.eval,
    envQubit, Env.find?, intToScalar, bind, Except.bind, pure, Except.pure]

/-! ### instantiation at the generated tolerance, non-vacuity -/

theorem atol_gen : (Gen.atol : ℝ) = 1e-7 := by simp [Gen.atol]
theorem atol_gen_pos : (0 : ℝ) < Gen.atol := by rw [atol_gen]; norm_num
theorem atol_gen_le : (Gen.atol : ℝ) ≤ Real.pi / 2 := by
  rw [atol_gen]; linarith [Real.two_le_pi, show (1e-7 : ℝ) ≤ 1 by norm_num]
theorem atol_gen_lt : (Gen.atol : ℝ) < Real.pi := by
  linarith [atol_gen_le, Real.pi_pos]

theorem default_gates_denote_gen :
    DenotesExactly (Gen.atol : ℝ) "I" Std.I_ ∧ DenotesExactly (Gen.atol : ℝ) "H" Std.H ∧
    DenotesExactly (Gen.atol : ℝ) "X" Std.X ∧ DenotesExactly (Gen.atol : ℝ) "Y" Std.Y ∧ DenotesExactly (Gen.atol : ℝ) "Z" Std.Z ∧
    DenotesExactly (Gen.atol : ℝ) "X90" Std.X90 ∧ DenotesExactly (Gen.atol : ℝ) "mX90" Std.mX90 ∧
    DenotesExactly (Gen.atol : ℝ) "Y90" Std.Y90 ∧ DenotesExactly (Gen.atol : ℝ) "mY90" Std.mY90 ∧
    DenotesUpToPhase (Gen.atol : ℝ) "S" Std.S ∧ DenotesUpToPhase (Gen.atol : ℝ) "Sdag" Std.Sdag ∧
    DenotesUpToPhase (Gen.atol : ℝ) "T" Std.T ∧ DenotesUpToPhase (Gen.atol : ℝ) "Tdag" Std.Tdag :=
  default_gates_denote Gen.atol atol_gen_pos atol_gen_le
theorem rotation_gates_denote_gen (q : Int) (θ : ℝ) :
    (∃ θ', callGate (Gen.atol : ℝ) Gen.gateTable "Rx" [.qubit q, .float θ]
        = .ok (.bsr q (1, 0, 0) θ' 0, ⟨"Rx", [.qubit q, .float θ]⟩) ∧
      (rot (1, 0, 0) θ' 0 = Std.Rx θ ∨ rot (1, 0, 0) θ' 0 = - Std.Rx θ)) ∧
    (∃ θ', callGate (Gen.atol : ℝ) Gen.gateTable "Ry" [.qubit q, .float θ]
        = .ok (.bsr q (0, 1, 0) θ' 0, ⟨"Ry", [.qubit q, .float θ]⟩) ∧
      (rot (0, 1, 0) θ' 0 = Std.Ry θ ∨ rot (0, 1, 0) θ' 0 = - Std.Ry θ)) ∧
    (∃ θ', callGate (Gen.atol : ℝ) Gen.gateTable "Rz" [.qubit q, .float θ]
        = .ok (.bsr q (0, 0, 1) θ' 0, ⟨"Rz", [.qubit q, .float θ]⟩) ∧
      (rot (0, 0, 1) θ' 0 = Std.Rz θ ∨ rot (0, 0, 1) θ' 0 = - Std.Rz θ)) :=
  rotation_gates_denote Gen.atol atol_gen_pos.le atol_gen_lt q θ
theorem controlled_gates_denote_gen (c t : Int) (hct : c ≠ t) (θ : ℝ) (k : ℤ) :
    (∃ a θ' φ', callGate (Gen.atol : ℝ) Gen.gateTable "CNOT" [.qubit c, .qubit t]
        = .ok (.ctrl c (.bsr t a θ' φ'), ⟨"CNOT", [.qubit c, .qubit t]⟩) ∧ rot a θ' φ' = σx) ∧
    (∃ a θ' φ', callGate (Gen.atol : ℝ) Gen.gateTable "CZ" [.qubit c, .qubit t]
        = .ok (.ctrl c (.bsr t a θ' φ'), ⟨"CZ", [.qubit c, .qubit t]⟩) ∧ rot a θ' φ' = σz) ∧
    (∃ a θ' φ', callGate (Gen.atol : ℝ) Gen.gateTable "CR" [.qubit c, .qubit t, .float θ]
        = .ok (.ctrl c (.bsr t a θ' φ'), ⟨"CR", [.qubit c, .qubit t, .float θ]⟩) ∧
        rot a θ' φ' = !![1, 0; 0, Complex.exp (I * θ)]) ∧
    (∃ a θ' φ', callGate (Gen.atol : ℝ) Gen.gateTable "CRk" [.qubit c, .qubit t, .int k]
        = .ok (.ctrl c (.bsr t a θ' φ'), ⟨"CRk", [.qubit c, .qubit t, .int k]⟩) ∧
        rot a θ' φ' = !![1, 0; 0, Complex.exp (2 * Real.pi * I / (2 : ℂ) ^ k)]) :=
  controlled_gates_denote Gen.atol atol_gen_pos atol_gen_le c t hct θ k

example : callGate (Gen.atol : ℝ) Gen.gateTable "H" [.qubit 3]
    = .ok (.bsr 3 (1 / Real.sqrt 2, 0, 1 / Real.sqrt 2) Real.pi (Real.pi / 2), ⟨"H", [.qubit 3]⟩) :=
  call_H _ atol_gen_pos atol_gen_le 3
example : callGate (Gen.atol : ℝ) Gen.gateTable "CNOT" [.qubit 0, .qubit 1]
    = .ok (.ctrl 0 (.bsr 1 (1, 0, 0) Real.pi (Real.pi / 2)), ⟨"CNOT", [.qubit 0, .qubit 1]⟩) :=
  call_CNOT _ atol_gen_pos atol_gen_le 0 1 (by decide)
/-- `CR(5π)` has target operator `diag(1, e^{5πi}) = Z`, the same as `CR(π)` -/
example : rot (0, 0, 1) (normalizeAngle (Gen.atol : ℝ) (5 * Real.pi))
    (normalizeAngle (Gen.atol : ℝ) (5 * Real.pi) / 2) = Std.Z := by
  rw [rot_CR, show 5 * Real.pi = Real.pi + 2 * Real.pi * (2 : ℤ) by push_cast; ring,
    Std.P_add_int_mul_two_pi, Std.P_pi]
/-- `CRk(1)` is `CZ`, `CRk(2)` is controlled-`S`, `CRk(-1)` (angle `4π`) is the identity -/
example : Std.Pk 1 = Std.Z := by
  rw [← Std.P_crkAngle, crkAngle, show 2 * Real.pi / (2 : ℝ) ^ (1 : ℤ) = Real.pi by simp, Std.P_pi]
example : Std.Pk 2 = Std.S := by
  rw [← Std.P_crkAngle, crkAngle, show 2 * Real.pi / (2 : ℝ) ^ (2 : ℤ) = Real.pi / 2 by
    norm_num; ring, P_pi_div_two]
example : Std.Pk (-1) = 1 := by
  rw [← Std.P_crkAngle, crkAngle, show 2 * Real.pi / (2 : ℝ) ^ (-1 : ℤ) = 0 + 2 * Real.pi * (2 : ℤ) by
    norm_num; ring, Std.P_add_int_mul_two_pi, Std.P_zero]

end OSq.GateTable

#print axioms OSq.GateTable.default_gates_denote
#print axioms OSq.GateTable.rotation_gates_denote
#print axioms OSq.GateTable.controlled_gates_denote
#print axioms OSq.GateTable.CR_periodic
#print axioms OSq.GateTable.CR_periodic_gate
#print axioms OSq.GateTable.call_CNOT_same
#print axioms OSq.GateTable.call_CRk
#print axioms OSq.GateTable.rot_CRk
#print axioms OSq.GateTable.call_measure
#print axioms OSq.GateTable.call_measure_z
#print axioms OSq.GateTable.call_reset
#print axioms OSq.GateTable.aliases_resolve
#print axioms OSq.GateTable.gateSet_has_entry
#print axioms OSq.GateTable.gateTable_names
#print axioms OSq.GateTable.default_gates_denote_gen
#print axioms OSq.GateTable.rotation_gates_denote_gen
#print axioms OSq.GateTable.controlled_gates_denote_gen
