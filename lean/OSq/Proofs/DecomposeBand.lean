import OSq.Proofs.EqBands2
import OSq.Proofs.Construct
import Mathlib.Analysis.CStarAlgebra.Spectrum
import Mathlib.Analysis.CStarAlgebra.Matrix
import Mathlib.Algebra.Order.Chebyshev
import Mathlib.Tactic.NoncommRing

/-
  OSq.Proofs.DecomposeBand — part 1 of the **tolerance-level semantics of the decompose / replace passes** (C06, C01,
  C05): unitarity of what the model can build, the ℓ² operator norm on register operators, and the operator-norm form
  of one accepted `check_gate_replacement`.  `α := ℝ`, all inputs, no crisp hypothesis.  Part 2
  (`OSq.Proofs.DecomposeBand2`) telescopes this over a whole run of `decompose` / `replace`.

  Norm: `open scoped Matrix.Norms.L2Operator` — `‖A‖` is the operator norm of `A` on `EuclideanSpace ℂ (Fin (2^n))`
  (Mathlib's C⋆-algebra structure on `Matrix n n ℂ`): submultiplicative, `‖U‖ = 1` for unitaries.

  1. Unitarity
  * `Gate.Unitary g`            rotation axes are unit vectors, matrix nodes are unitary `2^k × 2^k` matrices (recursively
                                through controls)
  * `gateOp_unitary`            `GateWF n g` (distinct operands inside the register) and `g.Unitary` ⇒
                                `gateOp n g ∈ Matrix.unitaryGroup`;  `gateOp_unitary_of_wf` from `Stmt.wf`
  * `mkBSR_unitary`, `mkCtrl_unitary`, `mkMatrix_unitary`   the constructors produce `Gate.Unitary` gates — for
                                `MatrixGate` only if the matrix is unitary: neither the model nor `ir.py` checks it
  * `circOp_gateStmts_unitary`  products of unitary gates are unitary
  * helpers (namespace `DBand`): `lift_unitary`, `gateOp_matrix_eq_lift` (a matrix gate is the `lift` of its matrix
    along the reversed operand list), `gateOp_ctrl_eq` (`C = M·P₁ + P₀`), `mul_measOp_apply`, `measOp_mul_apply`
  2. Norms
  * `DBand.opNorm_unitary_le`   `‖U‖ ≤ 1`
  * `DBand.measOp_norm_le`, `DBand.resetOp_norm_le`   the outcome projector and the reset Kraus operator are
                                contractions (`Pᴴ = P = P²`;  `Rᴴ R = P`: `DBand.resetOp_conjTranspose_mul_self`)
  * `Stmt.OpOK n s`, `stmtOp_norm_le`, `circOp_norm_le`   every statement / circuit operator is a contraction
  * `DBand.opNorm_le_of_entries`  `N × N`, all entries `≤ ε` ⇒ `‖A‖ ≤ N·ε`
  * `DBand.liftHom`, `DBand.lift_norm_le`   the embedding `lift` (operator on `k` listed qubits ⊗ identity) is a
                                ⋆-homomorphism `Op k →⋆ₙₐ[ℂ] Op n`, hence contractive: `‖lift A‖ ≤ ‖A‖` — the
                                dimension-free step (no factor `2^n`)
  * `kappa k atol`              `= 2^k · (atol + 1e-5)`;  `kappa_nonneg`, `kappa_mono`
  * `kappaL k atol`             `= 2^k · (atol + 1e-5·(1 + atol)/(1 − 1e-5))`;  `kappaL_nonneg`, `kappaL_mono`, `kappa_le_kappaL`
  * `checkGateReplacement_band_op`   accepted, gate well formed, replacement unitary ⇒ a unit `z` with
                                `‖gateOp n g − z • circOp n (gateStmts gs) []‖ ≤ kappa (#operands of g) atol`
  * `checkGateReplacement_band_op_left`   accepted, gate well formed and unitary, NOTHING about the replacement ⇒ the same
                                with `kappaL`
-/

open Matrix
open scoped Matrix.Norms.L2Operator

namespace OSq

/-- unitarity predicate -/
def Gate.Unitary : Gate ℝ → Prop
  | .bsr _ ax _ _ => ax.1 ^ 2 + ax.2.1 ^ 2 + ax.2.2 ^ 2 = 1
  | .matrix m ops => m.toMatrixOn (2 ^ ops.length) ∈ Matrix.unitaryGroup (Fin (2 ^ ops.length)) ℂ
  | .ctrl _ g => g.Unitary


namespace DBand
section liftU
variable {n k : Nat} (idx : List Nat) (hk : idx.length = k) (hnd : idx.Nodup) (hlt : ∀ q ∈ idx, q < n)

include hnd hlt in
theorem lift_unitary (A : Op k) (hA : A ∈ Matrix.unitaryGroup (Fin (2 ^ k)) ℂ) :
    (lift idx hk A : Op n) ∈ Matrix.unitaryGroup (Fin (2 ^ n)) ℂ := by
  rw [Matrix.mem_unitaryGroup_iff'] at hA ⊢
  rw [Matrix.star_eq_conjTranspose, EqBands.lift_conjTranspose, ← lift_mul idx hk hnd hlt,
    ← Matrix.star_eq_conjTranspose, hA, lift_one]
end liftU

theorem gateOp1_bsr_unitary (ax : Vec3 ℝ) (an ph : ℝ) (h : ax.1 ^ 2 + ax.2.1 ^ 2 + ax.2.2 ^ 2 = 1) :
    gateOp 1 (.bsr 0 ax an ph) ∈ Matrix.unitaryGroup (Fin (2 ^ 1)) ℂ := by
  have e : gateOp 1 (.bsr 0 ax an ph) = (Sem.rot ax an ph : Matrix (Fin (2 ^ 1)) (Fin (2 ^ 1)) ℂ) := by
    ext r c
    exact gateOp1_bsr_apply ax an ph r c
  rw [e]
  exact Sem.rot_unitary ax an ph h

/-- a matrix gate is the lift of its matrix along the reversed operand list -/
theorem gateOp_matrix_eq_lift (n : Nat) (m : Mat ℝ) (ops : List Int) :
    gateOp n (.matrix m ops) =
      lift (ops.map Int.toNat).reverse (by simp) (m.toMatrixOn (2 ^ ops.length)) := by
  ext r c
  rw [gateOp_apply, lift_apply]
  simp only [denote, embedM, subIdx_eq_reducedKet]
  have hag : agreeOff n (ops.map Int.toNat).reverse r.val c.val ↔ agreeOff n (ops.map Int.toNat) r.val c.val := by
    unfold agreeOff
    simp only [List.mem_reverse]
  by_cases h : agreeOff n (ops.map Int.toNat) r.val c.val
  · rw [if_pos h, if_pos (hag.mpr h)]
    rfl
  · rw [if_neg h, if_neg (fun h' => h (hag.mp h'))]
    exact Cx.toC_zero

theorem mul_measOp_apply (n q : Nat) (b : Bool) (M : Op n) (r c : Fin (2 ^ n)) :
    (M * measOp n q b) r c = if c.val.testBit q = b then M r c else 0 := by
  rw [Matrix.mul_apply, Finset.sum_eq_single c]
  · simp [measOp]
  · intro x _ hx; simp [measOp, hx]
  · intro h; exact absurd (Finset.mem_univ c) h

theorem measOp_mul_apply (n q : Nat) (b : Bool) (M : Op n) (r c : Fin (2 ^ n)) :
    (measOp n q b * M) r c = if r.val.testBit q = b then M r c else 0 := by
  rw [Matrix.mul_apply, Finset.sum_eq_single r]
  · simp [measOp]
  · intro x _ hx; simp [measOp, Ne.symm hx]
  · intro h; exact absurd (Finset.mem_univ r) h

theorem measOp_conjTranspose (n q : Nat) (b : Bool) : (measOp n q b)ᴴ = measOp n q b := by
  ext r c
  simp only [Matrix.conjTranspose_apply, measOp]
  by_cases h : r = c
  · subst h; split <;> simp
  · rw [if_neg (fun h' => h h'.1.symm), if_neg (fun h' => h h'.1)]; simp

/-- the controlled gate is `M·P₁ + P₀` -/
theorem gateOp_ctrl_eq (n : Nat) (cq : Int) (g : Gate ℝ) :
    gateOp n (.ctrl cq g) = gateOp n g * measOp n cq.toNat true + measOp n cq.toNat false := by
  ext r c
  rw [Matrix.add_apply, mul_measOp_apply, gateOp_apply]
  simp only [denote, ctrlOf, measOp]
  by_cases hb : c.val.testBit cq.toNat = true
  · rw [if_pos hb, if_pos hb, gateOp_apply]
    have : ¬ (r = c ∧ r.val.testBit cq.toNat = false) := by
      rintro ⟨rfl, h⟩; rw [hb] at h; cases h
    rw [if_neg this, add_zero]
  · rw [if_neg hb, if_neg hb]
    have hb' : c.val.testBit cq.toNat = false := by simpa using hb
    unfold delta
    by_cases hrc : r = c
    · subst hrc; simp [hb']
    · have : r.val ≠ c.val := fun e => hrc (Fin.ext e)
      simp [hrc, this]

theorem gateOp_unitary_aux (n : Nat) (g : Gate ℝ) (hwf : GateWF n g) (hU : g.Unitary) :
    gateOp n g ∈ Matrix.unitaryGroup (Fin (2 ^ n)) ℂ := by
  induction g with
  | bsr q ax an ph =>
    have hq : 0 ≤ q ∧ q < (n : Int) := hwf.2 q (by simp [Gate.operands])
    rw [gateOp_bsr_lift1 n q hq]
    exact lift_unitary [q.toNat] rfl (by simp) (by intro x hx; simp at hx; subst hx; omega) _
      (gateOp1_bsr_unitary ax an ph hU)
  | matrix m ops =>
    rw [gateOp_matrix_eq_lift]
    have hnd := nodup_map_toNat (n := n) ops hwf.1 hwf.2
    have hlt := map_toNat_lt (n := n) ops hwf.2
    exact lift_unitary _ _ (List.nodup_reverse.mpr hnd) (fun q hq => hlt q (List.mem_reverse.mp hq)) _ hU
  | ctrl cq g ih =>
    have hnd : (cq :: g.operands).Nodup := hwf.1
    have hreg : ∀ q ∈ cq :: g.operands, 0 ≤ q ∧ q < (n : Int) := hwf.2
    have hcq := hreg cq List.mem_cons_self
    have hg : GateWF n g := ⟨(List.nodup_cons.mp hnd).2, fun q hq => hreg q (List.mem_cons_of_mem _ hq)⟩
    have hM := ih hg hU
    have hnot : ((cq.toNat : Nat) : Int) ∉ g.operands := by
      rw [Int.toNat_of_nonneg hcq.1]; exact (List.nodup_cons.mp hnd).1
    have hlt : cq.toNat < n := by omega
    set M := gateOp n g with hMdef
    set P1 := measOp n cq.toNat true with hP1
    set P0 := measOp n cq.toNat false with hP0
    have hzero : ∀ r c : Fin (2 ^ n), r.val.testBit cq.toNat ≠ c.val.testBit cq.toNat → M r c = 0 := by
      intro r c hrc
      rw [hMdef, gateOp_apply, denote_not_touching g hg.2 hlt hnot hrc]
      exact Cx.toC_zero
    have hcomm : M * P1 = P1 * M := by
      ext r c
      rw [mul_measOp_apply, measOp_mul_apply]
      by_cases h1 : c.val.testBit cq.toNat = true <;> by_cases h2 : r.val.testBit cq.toNat = true
      · simp [h1, h2]
      · rw [if_pos h1, if_neg h2]; exact hzero r c (by simp [h1, h2])
      · rw [if_neg h1, if_pos h2]; exact (hzero r c (by simp [h1, h2])).symm
      · simp [h1, h2]
    have h11 : P1 * P1 = P1 := measOp_mul_self n _ true
    have h00 : P0 * P0 = P0 := measOp_mul_self n _ false
    have h10 : P1 * P0 = 0 := measOp_mul_ne n _ true
    have h01 : P0 * P1 = 0 := measOp_mul_ne n _ false
    have hsum : P0 + P1 = 1 := measOp_add n _
    have hMM : Mᴴ * M = 1 := by
      have := Matrix.mem_unitaryGroup_iff'.mp hM
      rwa [Matrix.star_eq_conjTranspose] at this
    rw [Matrix.mem_unitaryGroup_iff', Matrix.star_eq_conjTranspose, gateOp_ctrl_eq, ← hMdef, ← hP1, ← hP0,
      hcomm, Matrix.conjTranspose_add, Matrix.conjTranspose_mul, measOp_conjTranspose, measOp_conjTranspose]
    calc (Mᴴ * P1 + P0) * (P1 * M + P0)
        = Mᴴ * (P1 * P1) * M + Mᴴ * (P1 * P0) + (P0 * P1) * M + P0 * P0 := by noncomm_ring
      _ = Mᴴ * (M * P1) + P0 := by rw [h11, h10, h01, h00, hcomm]; simp [Matrix.mul_assoc]
      _ = P1 + P0 := by rw [← Matrix.mul_assoc, hMM, Matrix.one_mul]
      _ = 1 := by rw [add_comm, hsum]


section liftN
variable {n k : Nat} (idx : List Nat) (hk : idx.length = k) (hnd : idx.Nodup) (hlt : ∀ q ∈ idx, q < n)

theorem lift_sub (a b : Op k) : (lift idx hk (a - b) : Op n) = lift idx hk a - lift idx hk b := by
  ext r c
  simp only [lift_apply, Matrix.sub_apply]
  split <;> simp

/-- `lift` as a non-unital star-algebra homomorphism -/
noncomputable def liftHom : Op k →⋆ₙₐ[ℂ] Op n where
  toFun := lift idx hk
  map_smul' := fun z m => by simpa using lift_smul idx hk z m
  map_zero' := lift_zero idx hk
  map_add' := lift_add idx hk
  map_mul' := lift_mul idx hk hnd hlt
  map_star' := fun a => by
    rw [Matrix.star_eq_conjTranspose, Matrix.star_eq_conjTranspose, EqBands.lift_conjTranspose]

include hnd hlt in
theorem lift_norm_le (A : Op k) : ‖(lift idx hk A : Op n)‖ ≤ ‖A‖ :=
  NonUnitalStarAlgHom.norm_apply_le (liftHom idx hk hnd hlt) A


end liftN

theorem opNorm_unitary_le {N : Nat} [NeZero N] {U : Matrix (Fin N) (Fin N) ℂ} (hU : U ∈ Matrix.unitaryGroup (Fin N) ℂ) :
    ‖U‖ ≤ 1 := le_of_eq (CStarRing.norm_of_mem_unitary hU)




theorem opNorm_le_of_entries {N : Nat} (A : Matrix (Fin N) (Fin N) ℂ) (ε : ℝ) (hε : 0 ≤ ε)
    (h : ∀ i j, ‖A i j‖ ≤ ε) : ‖A‖ ≤ N * ε := by
  rw [Matrix.cstar_norm_def]
  apply ContinuousLinearMap.opNorm_le_bound _ (by positivity)
  intro x
  have hS : (∑ j, ‖x j‖) ^ 2 ≤ N * ∑ j, ‖x j‖ ^ 2 := by
    have := sq_sum_le_card_mul_sum_sq (s := (Finset.univ : Finset (Fin N))) (f := fun j => ‖x j‖)
    simpa using this
  have hrow : ∀ i, ‖(Matrix.toEuclideanCLM (n := Fin N) (𝕜 := ℂ) A x) i‖ ≤ ε * ∑ j, ‖x j‖ := by
    intro i
    have : (Matrix.toEuclideanCLM (n := Fin N) (𝕜 := ℂ) A x) i = ∑ j, A i j * x j := by
      simp [Matrix.mulVec, dotProduct]
    rw [this, Finset.mul_sum]
    refine le_trans (norm_sum_le _ _) (Finset.sum_le_sum ?_)
    intro j _
    rw [norm_mul]
    exact mul_le_mul_of_nonneg_right (h i j) (norm_nonneg _)
  have hx : ‖x‖ ^ 2 = ∑ j, ‖x j‖ ^ 2 := by
    rw [EuclideanSpace.norm_eq, Real.sq_sqrt (Finset.sum_nonneg fun _ _ => sq_nonneg _)]
  have hAx : ‖Matrix.toEuclideanCLM (n := Fin N) (𝕜 := ℂ) A x‖ ^ 2 ≤ (N * ε * ‖x‖) ^ 2 := by
    rw [EuclideanSpace.norm_eq, Real.sq_sqrt (Finset.sum_nonneg fun _ _ => sq_nonneg _)]
    have h1 : ∀ i, ‖(Matrix.toEuclideanCLM (n := Fin N) (𝕜 := ℂ) A x) i‖ ^ 2 ≤ (ε * ∑ j, ‖x j‖) ^ 2 :=
      fun i => pow_le_pow_left₀ (norm_nonneg _) (hrow i) 2
    refine le_trans (Finset.sum_le_sum fun i _ => h1 i) ?_
    rw [Finset.sum_const, Finset.card_univ, Fintype.card_fin, nsmul_eq_mul, mul_pow, mul_pow, mul_pow, hx]
    have : ε ^ 2 * (∑ j, ‖x j‖) ^ 2 ≤ ε ^ 2 * (N * ∑ j, ‖x j‖ ^ 2) :=
      mul_le_mul_of_nonneg_left hS (sq_nonneg _)
    nlinarith [this, Nat.cast_nonneg (α := ℝ) N]
  exact abs_le_of_sq_le_sq' hAx (by positivity) |>.2



/-- a hermitian idempotent has norm at most one -/
theorem opNorm_proj_le {N : Nat} (P : Matrix (Fin N) (Fin N) ℂ) (hH : Pᴴ = P) (hI : P * P = P) : ‖P‖ ≤ 1 := by
  have h := Matrix.l2_opNorm_conjTranspose_mul_self P
  rw [hH, hI] at h
  by_contra hc
  have hpos : 0 < ‖P‖ := by linarith [not_le.mp hc]
  have : ‖P‖ = 1 := by
    have h2 : ‖P‖ * 1 = ‖P‖ * ‖P‖ := by rw [mul_one]; exact h
    exact (mul_left_cancel₀ hpos.ne' h2).symm
  exact hc this.le

theorem measOp_norm_le (n q : Nat) (b : Bool) : ‖measOp n q b‖ ≤ 1 :=
  opNorm_proj_le _ (measOp_conjTranspose n q b) (measOp_mul_self n q b)

theorem exists_cleared {n q c : Nat} (hc : c < 2 ^ n) :
    ∃ r, r < 2 ^ n ∧ agreeOff n [q] r c ∧ r.testBit q = false := by
  by_cases hb : c.testBit q = false
  · exact ⟨c, hc, agreeOff_refl _ _ _, hb⟩
  · have hqn : q < n := by
      by_contra hge
      exact hb (testBit_ge hc (Nat.le_of_not_lt hge))
    refine ⟨expandKet c 0 [q], expandKet_lt c 0 [q] hc (by simpa using hqn),
      agreeOff_symm (agreeOff_expandKet n [q] c 0), ?_⟩
    have := expandKet_getElem c 0 [q] (by simp) 0 (by simp)
    simpa using this

/-- `Rᴴ R` is the projector on the pre-measurement outcome -/
theorem resetOp_conjTranspose_mul_self (n q : Nat) (b : Bool) :
    (resetOp n q b)ᴴ * resetOp n q b = measOp n q b := by
  ext c c'
  rw [Matrix.mul_apply]
  simp only [Matrix.conjTranspose_apply, resetOp, measOp]
  by_cases hcb : c.val.testBit q = b
  · by_cases hcb' : c'.val.testBit q = b
    · by_cases hcc : c = c'
      · subst hcc
        rw [if_pos ⟨rfl, hcb⟩]
        obtain ⟨r0, hr0, hag, hbit⟩ := exists_cleared (q := q) c.isLt
        rw [Finset.sum_eq_single (⟨r0, hr0⟩ : Fin (2 ^ n))]
        · simp [hag, hcb, hbit]
        · intro x _ hx
          have : ¬ (agreeOff n [q] x.val c.val ∧ c.val.testBit q = b ∧ x.val.testBit q = false) := by
            rintro ⟨h1, -, h3⟩
            apply hx
            apply Fin.ext
            exact eq_of_agreeOff_single x.isLt hr0 (agreeOff_trans h1 (agreeOff_symm hag)) (by rw [h3, hbit])
          simp [this]
        · intro h; exact absurd (Finset.mem_univ _) h
      · rw [if_neg (fun h => hcc h.1)]
        apply Finset.sum_eq_zero
        intro x _
        by_cases h1 : agreeOff n [q] x.val c.val ∧ c.val.testBit q = b ∧ x.val.testBit q = false
        · by_cases h2 : agreeOff n [q] x.val c'.val ∧ c'.val.testBit q = b ∧ x.val.testBit q = false
          · exfalso
            apply hcc
            apply Fin.ext
            exact eq_of_agreeOff_single c.isLt c'.isLt (agreeOff_trans (agreeOff_symm h1.1) h2.1)
              (by rw [hcb, hcb'])
          · simp [h2]
        · simp [h1]
    · have hne : ¬ (c = c' ∧ c.val.testBit q = b) := by
        rintro ⟨rfl, -⟩; exact hcb' hcb
      rw [if_neg hne]
      apply Finset.sum_eq_zero
      intro x _
      simp [hcb']
  · rw [if_neg (fun h => hcb h.2)]
    apply Finset.sum_eq_zero
    intro x _
    simp [hcb]

theorem resetOp_norm_le (n q : Nat) (b : Bool) : ‖resetOp n q b‖ ≤ 1 := by
  have h := Matrix.l2_opNorm_conjTranspose_mul_self (resetOp n q b)
  rw [resetOp_conjTranspose_mul_self] at h
  have h1 := measOp_norm_le n q b
  have h0 := norm_nonneg (resetOp n q b)
  nlinarith


end DBand

/-! ## 1. Unitarity of what the model can build -/

/-- **`gateOp_unitary`**: a gate with distinct in-register operands (`GateWF`), unit rotation axes and unitary matrix
    nodes (`Gate.Unitary`) denotes a unitary operator on the register. -/
theorem gateOp_unitary (n : Nat) (g : Gate ℝ) (hwf : GateWF n g) (hU : g.Unitary) :
    gateOp n g ∈ Matrix.unitaryGroup (Fin (2 ^ n)) ℂ :=
  DBand.gateOp_unitary_aux n g hwf hU

/-- the same from the decidable well-formedness predicate of the IR -/
theorem gateOp_unitary_of_wf {n nb : Nat} {g : Gate ℝ} {nm : Option (Named ℝ)}
    (h : Stmt.wf n nb (.gate g nm) = true) (hU : g.Unitary) :
    gateOp n g ∈ Matrix.unitaryGroup (Fin (2 ^ n)) ℂ :=
  gateOp_unitary n g (gateWF_of_wf h) hU

/-- `BlochSphereRotation.__init__` normalises the axis: every rotation it builds is `Gate.Unitary` -/
theorem mkBSR_unitary (atol : ℝ) (q : Int) (axis : Vec3 ℝ) (angle phase : ℝ) (g : Gate ℝ)
    (h : mkBSR atol q axis angle phase = .ok g) : g.Unitary := by
  unfold mkBSR at h
  cases ha : mkAxis axis with
  | error e => rw [ha] at h; simp [bind, Except.bind] at h
  | ok a =>
    rw [ha] at h
    simp only [bind, Except.bind, pure, Except.pure, Except.ok.injEq] at h
    subst h
    exact ((mkAxis_real axis).2 a ha).2

/-- `ControlledGate.__init__` keeps the predicate -/
theorem mkCtrl_unitary (c : Int) (g g' : Gate ℝ) (h : mkCtrl c g = .ok g') (hU : g.Unitary) : g'.Unitary := by
  unfold mkCtrl at h
  split at h
  · cases h
  · cases h; exact hU

/-- `MatrixGate.__init__` does **not** check unitarity: the predicate is the hypothesis on the matrix -/
theorem mkMatrix_unitary (m : Mat ℝ) (ops : List Int) (g : Gate ℝ) (h : mkMatrix m ops = .ok g)
    (hU : m.toMatrixOn (2 ^ ops.length) ∈ Matrix.unitaryGroup (Fin (2 ^ ops.length)) ℂ) : g.Unitary := by
  unfold mkMatrix at h
  split_ifs at h
  cases h; exact hU

/-- products of unitaries: the operator of a list of unitary gates -/
theorem circOp_gateStmts_unitary (n : Nat) (gs : List (Gate ℝ))
    (h : ∀ g ∈ gs, gateOp n g ∈ Matrix.unitaryGroup (Fin (2 ^ n)) ℂ) (o : List Bool) :
    circOp n (gateStmts gs) o ∈ Matrix.unitaryGroup (Fin (2 ^ n)) ℂ := by
  induction gs with
  | nil => simp only [gateStmts, List.map_nil, circOp_nil]; exact one_mem _
  | cons g rest ih =>
    simp only [gateStmts, List.map_cons, circOp_gate]
    exact mul_mem (ih (fun g' hg' => h g' (List.mem_cons_of_mem _ hg'))) (h g List.mem_cons_self)

/-! ## 2. Operator norm: statements, circuits, one accepted replacement -/

/-- every gate statement denotes a unitary (vacuous for measure / reset / comment) -/
def Stmt.OpOK (n : Nat) (s : Stmt ℝ) : Prop :=
  ∀ g nm, s = .gate g nm → gateOp n g ∈ Matrix.unitaryGroup (Fin (2 ^ n)) ℂ

theorem Stmt.opOK_of_wf {n nb : Nat} {s : Stmt ℝ} (hwf : Stmt.wf n nb s = true)
    (hU : ∀ g nm, s = .gate g nm → g.Unitary) : s.OpOK n := by
  rintro g nm rfl
  exact gateOp_unitary_of_wf hwf (hU g nm rfl)

/-- **every statement operator is a contraction** (unitaries, the projectors `measOp`, the partial isometries
    `resetOp`, the identity) in the ℓ² operator norm -/
theorem stmtOp_norm_le (n : Nat) (s : Stmt ℝ) (h : s.OpOK n) (b : Bool) : ‖stmtOp n s b‖ ≤ 1 := by
  cases s with
  | gate g nm => exact DBand.opNorm_unitary_le (h g nm rfl)
  | measure q bb ax nm => exact DBand.measOp_norm_le n _ b
  | reset q nm => exact DBand.resetOp_norm_le n _ b
  | comment c => exact DBand.opNorm_unitary_le (one_mem _)

/-- … hence every circuit operator, for every outcome assignment -/
theorem circOp_norm_le (n : Nat) (l : List (Stmt ℝ)) (h : ∀ s ∈ l, s.OpOK n) (o : List Bool) :
    ‖circOp n l o‖ ≤ 1 := by
  induction l generalizing o with
  | nil => rw [circOp_nil]; exact DBand.opNorm_unitary_le (one_mem _)
  | cons s rest ih =>
    rw [circOp_cons']
    refine le_trans (norm_mul_le _ _) ?_
    have h1 := ih (fun x hx => h x (List.mem_cons_of_mem _ hx)) (o.drop (nOutcomes [s]))
    have h2 := stmtOp_norm_le n s (h s List.mem_cons_self) (o.headD false)
    calc ‖circOp n rest (o.drop (nOutcomes [s]))‖ * ‖stmtOp n s (o.headD false)‖ ≤ 1 * 1 :=
          mul_le_mul h1 h2 (norm_nonneg _) zero_le_one
      _ = 1 := one_mul 1

/-- the single-replacement constant for a gate on `k` qubits: `κ(k, atol) = 2^k · (atol + 1e-5)`
    (`1e-5` is numpy's default `rtol`, which `np.allclose(…, atol=ATOL)` keeps; before the measured phase was
    normalised the constant was `2^k · (atol + unitSlack (2^k) atol) ≈ 2^k·((1 + 2^{k/2})·atol + 2e-5)`) -/
noncomputable def kappa (k : Nat) (atol : ℝ) : ℝ := 2 ^ k * (atol + 1e-5)

theorem kappa_nonneg (k : Nat) {atol : ℝ} (h : 0 ≤ atol) : 0 ≤ kappa k atol := by
  unfold kappa
  have := rtol_real_nonneg
  positivity

theorem kappa_mono {k K : Nat} (h : k ≤ K) {atol : ℝ} (ha : 0 ≤ atol) : kappa k atol ≤ kappa K atol := by
  unfold kappa
  have h2 : (2 : ℝ) ^ k ≤ 2 ^ K := pow_le_pow_right₀ (by norm_num) h
  have h4 := rtol_real_nonneg
  exact mul_le_mul_of_nonneg_right h2 (by linarith)

/-- the single-replacement constant when NOTHING is assumed about the replacement (only the replaced gate is unitary):
    `κ_L(k, atol) = 2^k · (atol + leftSlack atol)`, `leftSlack atol = 1e-5·(1 + atol)/(1 − 1e-5)` -/
noncomputable def kappaL (k : Nat) (atol : ℝ) : ℝ := 2 ^ k * (atol + EqBands.leftSlack atol)

theorem kappaL_nonneg (k : Nat) {atol : ℝ} (h : 0 ≤ atol) : 0 ≤ kappaL k atol := by
  unfold kappaL
  have := EqBands.leftSlack_nonneg h
  positivity

theorem kappaL_mono {k K : Nat} (h : k ≤ K) {atol : ℝ} (ha : 0 ≤ atol) : kappaL k atol ≤ kappaL K atol := by
  unfold kappaL
  have h2 : (2 : ℝ) ^ k ≤ 2 ^ K := pow_le_pow_right₀ (by norm_num) h
  have h4 := EqBands.leftSlack_nonneg ha
  exact mul_le_mul_of_nonneg_right h2 (by linarith)

/-- `κ ≤ κ_L` -/
theorem kappa_le_kappaL (k : Nat) {atol : ℝ} (ha : 0 ≤ atol) : kappa k atol ≤ kappaL k atol := by
  unfold kappa kappaL EqBands.leftSlack
  have h2 : (0 : ℝ) ≤ 2 ^ k := by positivity
  apply mul_le_mul_of_nonneg_left _ h2
  rw [rtol_real]
  have : (1 : ℝ) ≤ (1 + atol) / (1 - 1 / 100000) := by
    rw [le_div_iff₀ (by norm_num)]; linarith
  nlinarith

/-- the local difference `A − z•B` tensored with the identity: operator norm `≤ 2^k·τ` if all entries are `≤ τ` -/
theorem DBand.lift_diff_norm_le {n : Nat} (g : Gate ℝ) (hwf : GateWF n g) (A B : Mat ℝ) (z : ℂ) (τ : ℝ) (hτ : 0 ≤ τ)
    (H : ∀ i j, i < 2 ^ g.operands.length → j < 2 ^ g.operands.length →
      ‖(A.get i j).toC - z * (B.get i j).toC‖ ≤ τ) :
    ‖(lift (g.operands.map Int.toNat) (List.length_map _) (A.toMatrixOn (2 ^ g.operands.length)) : Op n)
        - z • lift (g.operands.map Int.toNat) (List.length_map _) (B.toMatrixOn (2 ^ g.operands.length))‖
      ≤ 2 ^ g.operands.length * τ := by
  have hndN := nodup_map_toNat (n := n) g.operands hwf.1 hwf.2
  have hltN := map_toNat_lt (n := n) g.operands hwf.2
  rw [← lift_smul, ← DBand.lift_sub]
  refine le_trans (DBand.lift_norm_le _ _ hndN hltN _) ?_
  have := DBand.opNorm_le_of_entries
    (A.toMatrixOn (2 ^ g.operands.length) - z • B.toMatrixOn (2 ^ g.operands.length)) _ hτ
    (fun i j => by
      simp only [Matrix.sub_apply, Matrix.smul_apply, smul_eq_mul, Mat.toMatrixOn_apply]
      exact H i.val j.val i.isLt j.isLt)
  push_cast at this
  exact this

/-- **One accepted replacement, operator norm, dimension-free.**  If `check_gate_replacement` accepts `gs` for the
    well-formed gate `g` and the replacement is unitary, then for some unit `z`
    `‖gateOp n g − z • circOp n (gateStmts gs) []‖ ≤ 2^k · (atol + 1e-5)` with `k` the number of operands
    of `g` — whatever the size `n` of the register: the difference is `lift (A − z•B)` (the local difference tensored
    with the identity on the other qubits), `lift` is a ⋆-homomorphism of C⋆-algebras, hence contractive, and a
    `2^k × 2^k` matrix with entries `≤ τ` has operator norm `≤ 2^k·τ`. -/
theorem checkGateReplacement_band_op (atol : ℝ) (hatol : 0 < atol) (n : Nat) (g : Gate ℝ)
    (gs : List (Gate ℝ)) (hwf : GateWF n g)
    (hU2 : circOp n (gateStmts gs) [] ∈ Matrix.unitaryGroup (Fin (2 ^ n)) ℂ)
    (h : checkGateReplacement atol g gs = none) :
    ∃ z : ℂ, ‖z‖ = 1 ∧ ‖gateOp n g - z • circOp n (gateStmts gs) []‖ ≤ kappa g.operands.length atol := by
  obtain ⟨-, A, B, hA, hB, heq⟩ := checkGateReplacement_none_local atol g gs h
  have hgA := gateOp_eq_lift_local hwf hA
  have hgB := localMatrix_lift (n := n) g.operands hwf.1 hwf.2 hB []
  have hndN := nodup_map_toNat (n := n) g.operands hwf.1 hwf.2
  have hltN := map_toNat_lt (n := n) g.operands hwf.2
  rw [← hgB] at hU2
  obtain ⟨z, hz, H⟩ := equivPhase_sound_unitary atol hatol (2 ^ g.operands.length) A B
    (localMatrix_dim hA).1 (localMatrix_dim hB).1 (EqBands.unitary_of_lift _ _ hndN hltN _ hU2) heq
  refine ⟨z, hz, ?_⟩
  rw [hgA, ← hgB]
  exact DBand.lift_diff_norm_le g hwf A B z _ (by have := rtol_real_nonneg; linarith) H

/-- **One accepted replacement, NO hypothesis on the replacement** (only the replaced gate is unitary): the check alone
    guarantees `‖gateOp n g − z • circOp n (gateStmts gs) []‖ ≤ κ_L(k, atol) = 2^k·(atol + 1e-5·(1 + atol)/(1 − 1e-5))`
    for a unit `z`.  (False before the measured phase was normalised: `MatrixGate(2·U)` was accepted for `U`.) -/
theorem checkGateReplacement_band_op_left (atol : ℝ) (hatol : 0 < atol) (n : Nat) (g : Gate ℝ)
    (gs : List (Gate ℝ)) (hwf : GateWF n g)
    (hU1 : gateOp n g ∈ Matrix.unitaryGroup (Fin (2 ^ n)) ℂ)
    (h : checkGateReplacement atol g gs = none) :
    ∃ z : ℂ, ‖z‖ = 1 ∧ ‖gateOp n g - z • circOp n (gateStmts gs) []‖ ≤ kappaL g.operands.length atol := by
  obtain ⟨-, A, B, hA, hB, heq⟩ := checkGateReplacement_none_local atol g gs h
  have hgA := gateOp_eq_lift_local hwf hA
  have hgB := localMatrix_lift (n := n) g.operands hwf.1 hwf.2 hB []
  have hndN := nodup_map_toNat (n := n) g.operands hwf.1 hwf.2
  have hltN := map_toNat_lt (n := n) g.operands hwf.2
  have hU1' := hU1
  rw [hgA] at hU1'
  obtain ⟨z, hz, H⟩ := equivPhase_sound_unitary_left atol hatol (2 ^ g.operands.length) A B
    (localMatrix_dim hA).1 (localMatrix_dim hB).1 (EqBands.unitary_of_lift _ _ hndN hltN _ hU1') heq
  refine ⟨z, hz, ?_⟩
  rw [hgA, ← hgB]
  exact DBand.lift_diff_norm_le g hwf A B z _
    (by have := EqBands.leftSlack_nonneg hatol.le; linarith) H

end OSq

/-! ## Non-vacuity -/
namespace OSq

-- a constructor-built rotation on qubit 3 of a 5-qubit register is unitary, whatever (non-zero) axis was given
example (atol θ φ : ℝ) (g : Gate ℝ) (h : mkBSR atol 3 (3, 0, 4) θ φ = .ok g) :
    gateOp 5 g ∈ Matrix.unitaryGroup (Fin (2 ^ 5)) ℂ := by
  have hU := mkBSR_unitary atol 3 (3, 0, 4) θ φ g h
  unfold mkBSR at h
  cases ha : mkAxis ((3, 0, 4) : Vec3 ℝ) with
  | error e => rw [ha] at h; simp [bind, Except.bind] at h
  | ok a =>
    rw [ha] at h
    simp only [bind, Except.bind, pure, Except.pure, Except.ok.injEq] at h
    subst h
    exact gateOp_unitary 5 _ ⟨by simp [Gate.operands], by
      intro q hq; simp only [Gate.operands, List.mem_singleton] at hq; subst hq; omega⟩ hU

-- a doubly controlled rotation (Toffoli-like) on qubits 0, 2 → 1 of a 3-qubit register
example (θ φ : ℝ) : gateOp 3 (.ctrl 0 (.ctrl 2 (.bsr 1 (1, 0, 0) θ φ))) ∈ Matrix.unitaryGroup (Fin (2 ^ 3)) ℂ :=
  gateOp_unitary 3 _ ⟨by simp [Gate.operands], by
    intro q hq; simp only [Gate.operands, List.mem_cons, List.not_mem_nil, or_false] at hq
    rcases hq with rfl | rfl | rfl <;> omega⟩ (by simp [Gate.Unitary])

-- contraction: a circuit with a measurement and a reset
example (θ : ℝ) (o : List Bool) :
    ‖circOp 2 [.gate (.bsr 0 (0, 0, 1) θ 0) none, .measure 0 0 (0, 0, 1) none, .reset 1 none] o‖ ≤ 1 := by
  apply circOp_norm_le
  intro s hs
  simp only [List.mem_cons, List.not_mem_nil, or_false] at hs
  rcases hs with rfl | rfl | rfl
  · rintro g nm h
    cases h
    exact gateOp_unitary 2 _ ⟨by simp [Gate.operands], by
      intro q hq; simp only [Gate.operands, List.mem_singleton] at hq; subst hq; omega⟩ (by simp [Gate.Unitary])
  · rintro g nm h; cases h
  · rintro g nm h; cases h

-- `kappa` for a one-qubit gate at `atol = 1e-7` (the value of `ATOL` in `common.py`) is below `2.1e-5`
-- (`5e-5` with the un-normalised phase), and so is `kappaL`
example : kappa 1 (1 / 10000000 : ℝ) ≤ 21 / 1000000 := by
  unfold kappa
  rw [rtol_real]
  norm_num

example : kappaL 1 (1 / 10000000 : ℝ) ≤ 21 / 1000000 := by
  unfold kappaL EqBands.leftSlack
  rw [rtol_real]
  norm_num

end OSq

#print axioms OSq.gateOp_unitary
#print axioms OSq.mkBSR_unitary
#print axioms OSq.circOp_gateStmts_unitary
#print axioms OSq.DBand.resetOp_conjTranspose_mul_self
#print axioms OSq.stmtOp_norm_le
#print axioms OSq.circOp_norm_le
#print axioms OSq.DBand.opNorm_le_of_entries
#print axioms OSq.DBand.lift_norm_le
#print axioms OSq.checkGateReplacement_band_op
#print axioms OSq.checkGateReplacement_band_op_left
