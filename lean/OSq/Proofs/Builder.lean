import OSq.Proofs.InstrWF
import OSq.Model.Front
/-
  OSq.Proofs.Builder — the circuit builder (`OSq/Model/Front.lean`: `Builder.call`, `checkArg(s)`, `Builder.comment`;
  Python `circuit_builder.py`, `instruction_library.py`, `named_gate` in `ir.py`).  Properties C13 ("every accepted
  instruction has a known name, right number and types of arguments, indices in range, distinct qubit operands; any
  other request raises and leaves the builder exactly as it was") and C20 (user gate tables are first class: all
  statements are about an arbitrary `lib : GateLib`).  Core Lean only, generic in the scalar type.

  Definitions used in the statements
  * `PyArg.toArg k a`          type test + conversion of one Python argument for a parameter of kind `k`.
  * `Arg.inReg nq nb x`        a qubit / bit argument lies in its register.
  * `GateLib.signature`        stage 1 of `_add_instruction`: resolved name and parameter list, or `ValueError`.
  * `GateLib.build`            stage 3: the generator call on the converted arguments.
  * `Cmd`, `Builder.step`, `Builder.run`   a sequence of requests; refused ones leave the builder as it was.
  * `tableTyped` (from `InstrWF`)   no definition passes an `int` parameter on in a qubit position.

  Theorems
  * `checkArg_eq`, `checkArg_ok`, `checkArg_type`, `checkArg_index`   `checkArg` = type test then range test.
  * `checkArgs_ok`             accepted lists: one converted argument per parameter, right kind, in range.
  * `checkArgs_error_iff`      refused lists: the first offending position decides (missing ⇒ `IndexError`).
  * `call_eq`, `call_ok_iff`   `Builder.call` = resolve ; check arguments ; refuse surplus ; generate ; append.
  * `call_reject_unchanged`    a refused request leaves the builder as it was.
  * `call_accept_appends`      an accepted one appends exactly one statement, registers unchanged.
  * `call_accept_wf_typed`           (C13/C20, `tableTyped` table) appended statement is named `⟨resolved name, converted
                               args⟩`, `#args = #params`, kinds as declared, and `Stmt.wf` holds.
  * `call_accept_wf_partial`   arbitrary table: all of the above except "gate operands in range" (false in general,
                               `call_accept_wf_needs_typed`), with "operands are qubit-or-int arguments" instead;
                               plus `tableTyped → Stmt.wf`.
  * `coherent_by_construction` re-running the generator on the recorded name and arguments gives the recorded
                               statement (`callGate … nm.name nm.args = .ok (g, nm)`).
  * `comment_accept_wf`, `step_wf`, `builder_wf_partial`   any sequence of requests to a fresh builder yields `Circuit.wf`.
  * `run_sizes`                the register sizes never change.
  * `call_errors_table`        the complete decision table; its rows separately, in precedence order: `signature_error`, `signature_unknown`, `call_unknown`,
    `call_unknown_name` (⇒ `ValueError`); `call_checkArgs_error`, `call_bad_arg` (first bad argument: wrong kind ⇒
    `TypeError`, out of register ⇒ `IndexError`), `call_missing_arg` (⇒ `IndexError`); `call_surplus` (⇒ `TypeError`);
    `call_generator_error`, `mkCtrl_error_iff`, `call_ctrl_eq_target_default` (control = target ⇒ `ValueError`).
-/
namespace OSq
variable {α : Type}

/-! ### `checkArg` / `checkArgs` -/

/-- the `isinstance` test of `_check_generator_f_args` together with the conversion the wrapper performs
    (`None` = wrong type) -/
def PyArg.toArg : Kind → PyArg α → Option (Arg α)
  | .qubit, .int i | .qubit, .qubit i | .qubit, .intObj i => some (.qubit i)
  | .float, .float v => some (.float v)
  | .int, .int i | .int, .intObj i => some (.int i)
  | .bit, .bit i => some (.bit i)
  | _, _ => none

/-- qubit / bit arguments lie inside their register -/
def Arg.inReg (nq nb : Nat) : Arg α → Bool
  | .qubit i => inRange nq i
  | .bit i => inRange nb i
  | _ => true

theorem inRange_iff {n : Nat} {i : Int} : inRange n i = true ↔ 0 ≤ i ∧ i < n := by
  simp [inRange]

/-- `checkArg` = type test, then range test -/
theorem checkArg_eq (nq nb : Nat) (k : Kind) (a : PyArg α) :
    checkArg nq nb k a =
      match PyArg.toArg k a with
      | none => .error .type
      | some x => if x.inReg nq nb then .ok x else .error .index := by
  cases k <;> cases a <;> simp only [checkArg, PyArg.toArg, Arg.inReg, inRange_iff] <;>
    first
    | rfl
    | (split <;> split <;> first | rfl | (exfalso; omega))
    | simp

theorem PyArg.toArg_kind {k : Kind} {a : PyArg α} {x : Arg α} (h : PyArg.toArg k a = some x) : x.kind = k := by
  cases k <;> cases a <;> simp [PyArg.toArg] at h <;> subst h <;> rfl

theorem checkArg_ok {nq nb : Nat} {k : Kind} {a : PyArg α} {x : Arg α} :
    checkArg nq nb k a = .ok x ↔ PyArg.toArg k a = some x ∧ x.inReg nq nb = true := by
  rw [checkArg_eq]
  cases PyArg.toArg k a with
  | none => simp
  | some y =>
    by_cases hy : y.inReg nq nb = true
    · simp only [hy, if_true, Except.ok.injEq, Option.some.injEq]
      constructor
      · rintro rfl; exact ⟨rfl, hy⟩
      · rintro ⟨rfl, _⟩; rfl
    · simp only [hy, Option.some.injEq]
      constructor
      · intro h; cases h
      · rintro ⟨rfl, h⟩; exact absurd h hy

/-- wrong kind ⇒ `TypeError` (and nothing else gives `TypeError`) -/
theorem checkArg_type {nq nb : Nat} {k : Kind} {a : PyArg α} :
    checkArg nq nb k a = .error .type ↔ PyArg.toArg k a = none := by
  rw [checkArg_eq]
  cases PyArg.toArg k a with
  | none => simp
  | some y => by_cases hy : y.inReg nq nb = true <;> simp [hy]

/-- right kind but index outside the register ⇒ `IndexError` (and nothing else) -/
theorem checkArg_index {nq nb : Nat} {k : Kind} {a : PyArg α} :
    checkArg nq nb k a = .error .index ↔ ∃ x, PyArg.toArg k a = some x ∧ x.inReg nq nb = false := by
  rw [checkArg_eq]
  cases PyArg.toArg k a with
  | none => simp
  | some y => by_cases hy : y.inReg nq nb = true <;> simp [hy]

theorem checkArg_error_cases {nq nb : Nat} {k : Kind} {a : PyArg α} {e : Err}
    (h : checkArg nq nb k a = .error e) : e = .type ∨ e = .index := by
  rw [checkArg_eq] at h
  cases hx : PyArg.toArg k a with
  | none => rw [hx] at h; cases h; exact .inl rfl
  | some y =>
    rw [hx] at h
    by_cases hy : y.inReg nq nb = true
    · simp [hy] at h
    · simp [hy] at h; exact .inr h.symm

theorem checkArgs_cons_ok {nq nb : Nat} {n : String} {k : Kind} {ps : List (String × Kind)} {a : PyArg α}
    {as : List (PyArg α)} {xs : List (Arg α)} :
    checkArgs nq nb ((n, k) :: ps) (a :: as) = .ok xs ↔
      ∃ x rest, checkArg nq nb k a = .ok x ∧ checkArgs nq nb ps as = .ok rest ∧ xs = x :: rest := by
  simp only [checkArgs, bind_ok, pure, Except.pure]
  constructor
  · rintro ⟨x, hx, rest, hr, h⟩; cases h; exact ⟨x, rest, hx, hr, rfl⟩
  · rintro ⟨x, rest, hx, hr, rfl⟩; exact ⟨x, hx, rest, hr, rfl⟩

/-- accepted argument lists: one converted argument per parameter, of the declared kind, in range -/
theorem checkArgs_ok : ∀ {nq nb : Nat} {ps : List (String × Kind)} {as : List (PyArg α)} {xs : List (Arg α)},
    checkArgs nq nb ps as = .ok xs →
      xs.length = ps.length ∧ ps.length ≤ as.length ∧ xs.map Arg.kind = ps.map (·.2) ∧
      (∀ x ∈ xs, x.inReg nq nb = true) ∧
      All₂ (fun (pa : (String × Kind) × PyArg α) x => PyArg.toArg pa.1.2 pa.2 = some x) (ps.zip as) xs
  | _, _, [], as, xs, h => by simp [checkArgs] at h; subst h; simp [All₂.nil]
  | _, _, _ :: _, [], xs, h => by simp [checkArgs] at h
  | nq, nb, (n, k) :: ps, a :: as, xs, h => by
    obtain ⟨x, rest, hx, hr, rfl⟩ := checkArgs_cons_ok.1 h
    obtain ⟨h1, h2, h3, h4, h5⟩ := checkArgs_ok hr
    obtain ⟨hx1, hx2⟩ := checkArg_ok.1 hx
    refine ⟨by simp [h1], by simpa using h2, by simp [h3, PyArg.toArg_kind hx1], ?_, ?_⟩
    · intro y hy
      rcases List.mem_cons.1 hy with rfl | hy
      · exact hx2
      · exact h4 y hy
    · simpa using All₂.cons (R := fun (pa : (String × Kind) × PyArg α) x => PyArg.toArg pa.1.2 pa.2 = some x)
        (a := ((n, k), a)) hx1 h5

/-- refused argument lists: the *first* position `i` (in parameter order) at which something is wrong decides —
    either the argument is there and `checkArg` refuses it with `e`, or it is missing (`args[i]` past the end)
    and `e` is `IndexError`. -/
theorem checkArgs_error_iff {nq nb : Nat} : ∀ {ps : List (String × Kind)} {args : List (PyArg α)} {e : Err},
    checkArgs nq nb ps args = .error e ↔
      ∃ (i : Nat) (p : String × Kind), ps[i]? = some p ∧
        (∀ j : Nat, j < i → ∃ (p' : String × Kind) (a' : PyArg α) (x : Arg α),
            ps[j]? = some p' ∧ args[j]? = some a' ∧ checkArg nq nb p'.2 a' = .ok x) ∧
        ((∃ a, args[i]? = some a ∧ checkArg nq nb p.2 a = .error e) ∨ (args[i]? = none ∧ e = .index))
  | [], args, e => by simp [checkArgs]
  | (n, k) :: ps, [], e => by
    simp only [checkArgs]
    constructor
    · intro h; cases h; exact ⟨0, (n, k), rfl, by intro j hj; omega, .inr ⟨rfl, rfl⟩⟩
    · rintro ⟨i, p, hp, hall, h⟩
      cases i with
      | zero =>
        rcases h with ⟨a, ha, _⟩ | ⟨_, rfl⟩
        · simp at ha
        · rfl
      | succ i => obtain ⟨_, a', _, _, ha', _⟩ := hall 0 (by omega); simp at ha'
  | (n, k) :: ps, a :: as, e => by
    have ih := checkArgs_error_iff (nq := nq) (nb := nb) (ps := ps) (args := as) (e := e)
    cases hx : checkArg nq nb k a with
    | error e' =>
      simp only [checkArgs, hx, bind, Except.bind]
      constructor
      · intro h; cases h; exact ⟨0, (n, k), rfl, by intro j hj; omega, .inl ⟨a, rfl, hx⟩⟩
      · rintro ⟨i, p, hp, hall, h⟩
        cases i with
        | zero =>
          simp at hp; subst hp
          rcases h with ⟨a', ha', he⟩ | ⟨hn, _⟩
          · simp at ha'; subst ha'; rw [hx] at he; cases he; rfl
          · simp at hn
        | succ i =>
          obtain ⟨p', a', x, hp', ha', hc⟩ := hall 0 (by omega)
          simp at hp' ha'; subst hp' ha'; rw [hx] at hc; cases hc
    | ok x =>
      have key : checkArgs nq nb ((n, k) :: ps) (a :: as) = .error e ↔ checkArgs nq nb ps as = .error e := by
        simp only [checkArgs, hx, bind, Except.bind]
        cases checkArgs nq nb ps as <;> simp [pure, Except.pure]
      rw [key, ih]
      constructor
      · rintro ⟨i, p, hp, hall, h⟩
        refine ⟨i + 1, p, by simpa using hp, ?_, by simpa using h⟩
        intro j hj
        cases j with
        | zero => exact ⟨(n, k), a, x, rfl, rfl, hx⟩
        | succ j => simpa using hall j (by omega)
      · rintro ⟨i, p, hp, hall, h⟩
        cases i with
        | zero =>
          simp at hp; subst hp
          rcases h with ⟨a', ha', he⟩ | ⟨hn, _⟩
          · simp at ha'; subst ha'; rw [hx] at he; cases he
          · simp at hn
        | succ i =>
          refine ⟨i, p, by simpa using hp, ?_, by simpa using h⟩
          intro j hj; simpa using hall (j + 1) (by omega)

/-! ### `Builder.call` in stages -/

/-- stage 1 of `_add_instruction`: which generator the attribute names — resolved name and parameter list.
    Measure set first, then reset set, then gate set, then aliases; anything else is a `ValueError`. -/
def GateLib.signature (lib : GateLib) (name : String) : Except Err (String × List (String × Kind)) :=
  if lib.measureSet.contains name then
    match lib.measures.find? (·.name == name) with
    | some d => .ok (name, d.params)
    | none => .error .value
  else if lib.resetSet.contains name then
    match lib.resets.find? (·.name == name) with
    | some d => .ok (name, d.params)
    | none => .error .value
  else do
    let n ← lib.gateName name
    match lib.table.find? (·.name == n) with
    | some d => .ok (n, d.params)
    | none => .error .value

variable [Scalar α]

/-- stage 3: the generator call itself, on the checked and converted arguments -/
def GateLib.build (atol : α) (lib : GateLib) (name n : String) (as : List (Arg α)) : Except Err (Stmt α) :=
  if lib.measureSet.contains name then callMeasure lib.measures name as
  else if lib.resetSet.contains name then callReset lib.resets name as
  else do
    let (g, nm) ← callGate atol lib.table n as
    pure (.gate g (some nm))

/-- `Builder.call` = resolve the name; check the arguments one by one against the parameters; refuse surplus
    arguments; call the generator; append.  The first failing stage determines the error. -/
theorem call_eq (atol : α) (lib : GateLib) (b : Builder α) (name : String) (args : List (PyArg α)) :
    b.call atol lib name args = (do
      let (n, ps) ← lib.signature name
      let as ← checkArgs b.nQubits b.nBits ps args
      if args.length > ps.length then throw .type
      let s ← lib.build atol name n as
      pure { b with stmts := b.stmts ++ [s] }) := by
  unfold Builder.call GateLib.signature GateLib.build
  by_cases hm : lib.measureSet.contains name = true
  · simp only [if_pos hm]
    cases lib.measures.find? (·.name == name) <;> rfl
  · simp only [if_neg hm]
    by_cases hr : lib.resetSet.contains name = true
    · simp only [if_pos hr]
      cases lib.resets.find? (·.name == name) <;> rfl
    · simp only [if_neg hr]
      cases lib.gateName name with
      | error e => rfl
      | ok n =>
        simp only [bind, Except.bind]
        cases lib.table.find? (·.name == n) with
        | none => rfl
        | some d =>
          simp only []
          cases checkArgs b.nQubits b.nBits d.params args with
          | error e => rfl
          | ok as =>
            simp only []
            by_cases hl : args.length > d.params.length
            · simp [hl]; rfl
            · simp only [hl, if_false]
              cases callGate atol lib.table n as <;> rfl

omit [Scalar α] in
theorem signature_ok {lib : GateLib} {name n : String} {ps : List (String × Kind)} :
    lib.signature name = .ok (n, ps) ↔
      (lib.measureSet.contains name = true ∧
          ∃ d, lib.measures.find? (·.name == name) = some d ∧ n = name ∧ ps = d.params) ∨
      (lib.measureSet.contains name = false ∧ lib.resetSet.contains name = true ∧
          ∃ d, lib.resets.find? (·.name == name) = some d ∧ n = name ∧ ps = d.params) ∨
      (lib.measureSet.contains name = false ∧ lib.resetSet.contains name = false ∧
          lib.gateName name = .ok n ∧ ∃ d, lib.table.find? (·.name == n) = some d ∧ ps = d.params) := by
  unfold GateLib.signature
  cases hm : lib.measureSet.contains name
  · cases hr : lib.resetSet.contains name
    · simp only [Bool.false_eq_true, if_false, false_and, true_and, false_or, bind_ok]
      constructor
      · rintro ⟨n', hn', h⟩
        cases hd : lib.table.find? (·.name == n') with
        | none => rw [hd] at h; cases h
        | some d => rw [hd] at h; cases h; exact ⟨hn', d, hd, rfl⟩
      · rintro ⟨hn, d, hd, rfl⟩; exact ⟨n, hn, by rw [hd]⟩
    · simp only [Bool.false_eq_true, Bool.true_eq_false, if_false, if_true, false_and, true_and, false_or, or_false]
      cases hd : lib.resets.find? (·.name == name) with
      | none => simp
      | some d =>
        simp only [Except.ok.injEq, Prod.mk.injEq, Option.some.injEq, exists_eq_left']
        constructor
        · rintro ⟨rfl, rfl⟩; exact ⟨rfl, rfl⟩
        · rintro ⟨rfl, rfl⟩; exact ⟨rfl, rfl⟩
  · simp only [if_true, true_and, Bool.true_eq_false, false_and, or_false]
    cases hd : lib.measures.find? (·.name == name) with
    | none => simp
    | some d =>
      simp only [Except.ok.injEq, Prod.mk.injEq, Option.some.injEq, exists_eq_left']
      constructor
      · rintro ⟨rfl, rfl⟩; exact ⟨rfl, rfl⟩
      · rintro ⟨rfl, rfl⟩; exact ⟨rfl, rfl⟩

/-- accepted calls, stage by stage -/
theorem call_ok_iff {atol : α} {lib : GateLib} {b b' : Builder α} {name : String} {args : List (PyArg α)} :
    b.call atol lib name args = .ok b' ↔
      ∃ n ps as s, lib.signature name = .ok (n, ps) ∧ checkArgs b.nQubits b.nBits ps args = .ok as ∧
        args.length = ps.length ∧ lib.build atol name n as = .ok s ∧
        b' = { b with stmts := b.stmts ++ [s] } := by
  rw [call_eq]
  simp only [bind_ok]
  constructor
  · rintro ⟨⟨n, ps⟩, hs, as, hc, h⟩
    by_cases hl : args.length > ps.length
    · simp [hl, throw, throwThe, MonadExceptOf.throw, bind, Except.bind] at h
    · simp only [hl, if_false] at h
      obtain ⟨s, hb, h⟩ := bind_ok.1 h
      cases h
      have : ps.length ≤ args.length := (checkArgs_ok hc).2.1
      exact ⟨n, ps, as, s, hs, hc, by omega, hb, rfl⟩
  · rintro ⟨n, ps, as, s, hs, hc, hl, hb, rfl⟩
    refine ⟨(n, ps), hs, as, hc, ?_⟩
    have : ¬ args.length > ps.length := by omega
    simp only [this, if_false]
    exact bind_ok.2 ⟨s, hb, rfl⟩

omit [Scalar α] in
theorem Env.val_mem {env : Env α} {n : String} {v : Arg α} (h : env.find? n = some v) : v ∈ env.map (·.2) :=
  List.mem_map.2 ⟨(n, v), Env.find?_mem h, rfl⟩

omit [Scalar α] in
/-- the checked arguments are bound as they are: the recorded `arguments` are exactly the converted ones -/
theorem bindArgs_checked {nq nb : Nat} {ps : List (String × Kind)} {args : List (PyArg α)} {as : List (Arg α)}
    {env : Env α} (hc : checkArgs nq nb ps args = .ok as) (hb : bindArgs ps as = .ok env) :
    env.map (·.2) = as := by
  obtain ⟨h1, _, h3, _, _⟩ := checkArgs_ok hc
  rw [bindArgs_of_kinds h3] at hb
  cases hb
  exact zipWith_snd_of_length h1

/-- what stage 3 produces from checked arguments, for an arbitrary table: a *named* statement carrying the
    resolved name and the converted arguments; measure / reset indices in range; gate operands pairwise
    distinct and (vacuously) of the right shape. -/
theorem build_named {atol : α} {lib : GateLib} {nq nb : Nat} {name n : String} {ps : List (String × Kind)}
    {args : List (PyArg α)} {as : List (Arg α)} {s : Stmt α}
    (hs : lib.signature name = .ok (n, ps)) (hc : checkArgs nq nb ps args = .ok as)
    (hb : lib.build atol name n as = .ok s) :
    s.named = some ⟨n, as⟩ ∧
    (∀ g nm, s = .gate g nm → hasDup g.operands = false ∧ g.shapeOk = true ∧ g.noMatrix = true ∧ g.ctrlOk = true ∧
        (tableTyped lib.table = true → ∀ q ∈ g.operands, inRange nq q = true)) ∧
    (∀ q b ax nm, s = .measure q b ax nm → inRange nq q = true ∧ inRange nb b = true) ∧
    (∀ q nm, s = .reset q nm → inRange nq q = true) ∧ (∀ c, s ≠ .comment c) := by
  have hreg := (checkArgs_ok hc).2.2.2.1
  unfold GateLib.build at hb
  rcases signature_ok.1 hs with ⟨hm, d, hd, rfl, rfl⟩ | ⟨hm, hr, d, hd, rfl, rfl⟩ | ⟨hm, hr, hn, d, hd, rfl⟩
  · simp only [hm, if_true] at hb
    obtain ⟨d', env, q, b, ax, hd', _, hbind, hq, hbit, _, rfl⟩ := callMeasure_ok.1 hb
    rw [hd] at hd'; cases hd'
    have henv := bindArgs_checked hc hbind
    refine ⟨by simp [Stmt.named, henv], by simp, ?_, by simp, by simp⟩
    intro q' b' ax' nm' h; cases h
    have h1 := hreg _ (henv ▸ Env.val_mem hq)
    have h2 := hreg _ (henv ▸ Env.val_mem hbit)
    exact ⟨h1, h2⟩
  · simp only [hm, hr, Bool.false_eq_true, if_false, if_true] at hb
    obtain ⟨d', env, q, hd', _, hbind, hq, rfl⟩ := callReset_ok.1 hb
    rw [hd] at hd'; cases hd'
    have henv := bindArgs_checked hc hbind
    refine ⟨by simp [Stmt.named, henv], by simp, by simp, ?_, by simp⟩
    intro q' nm' h; cases h
    exact hreg _ (henv ▸ Env.val_mem hq)
  · simp only [hm, hr, Bool.false_eq_true, if_false] at hb
    obtain ⟨⟨g, nm⟩, hcall, h⟩ := bind_ok.1 hb
    cases h
    obtain ⟨d', env, hd', _, hbind, he, hnm⟩ := callGate_ok.1 hcall
    rw [hd] at hd'; cases hd'
    have henv := bindArgs_checked hc hbind
    obtain ⟨w1, w2, w3, w4⟩ := evalGate_wf he
    refine ⟨by simp [Stmt.named, hnm, henv], ?_, by simp, by simp, by simp⟩
    intro g' nm' h; cases h
    refine ⟨w4, w1, w2, w3, ?_⟩
    intro hT q hq
    have := callGate_operands hT hcall q hq
    rw [hnm] at this
    exact hreg _ (henv ▸ this)

/-- … hence, for a table obeying `tableTyped`, the statement is well formed -/
theorem build_wf {atol : α} {lib : GateLib} (hT : tableTyped lib.table = true) {nq nb : Nat} {name n : String}
    {ps : List (String × Kind)} {args : List (PyArg α)} {as : List (Arg α)} {s : Stmt α}
    (hs : lib.signature name = .ok (n, ps)) (hc : checkArgs nq nb ps args = .ok as)
    (hb : lib.build atol name n as = .ok s) : Stmt.wf nq nb s = true := by
  obtain ⟨_, hg, hm, hr, hcm⟩ := build_named hs hc hb
  cases s with
  | gate g nm =>
    obtain ⟨h1, h2, _, _, h5⟩ := hg g nm rfl
    simp only [Stmt.wf, Bool.and_eq_true, Bool.not_eq_true', List.all_eq_true]
    exact ⟨⟨h5 hT, h1⟩, h2⟩
  | measure q b ax nm =>
    obtain ⟨h1, h2⟩ := hm q b ax nm rfl
    simp [Stmt.wf, h1, h2]
  | reset q nm => simp [Stmt.wf, hr q nm rfl]
  | comment c => exact absurd rfl (hcm c)

/-! ### C13 / C20: the main statements -/

/-- a request to the builder -/
inductive Cmd (α : Type)
  | call (name : String) (args : List (PyArg α))
  | comment (s : String)

/-- one request: an accepted one yields the new builder, a refused one (Python: an exception propagates to
    the caller) leaves the builder as it was -/
def Builder.step (atol : α) (lib : GateLib) (b : Builder α) : Cmd α → Builder α
  | .call name args => match b.call atol lib name args with
    | .ok b' => b'
    | .error _ => b
  | .comment s => match b.comment s with
    | .ok b' => b'
    | .error _ => b

def Builder.run (atol : α) (lib : GateLib) (b : Builder α) (cmds : List (Cmd α)) : Builder α :=
  cmds.foldl (Builder.step atol lib) b

/-- **`call_reject_unchanged`**: a refused request has no effect — `Builder.call` returns *either* an error
    *or* a builder, so there is no partially updated state (trivial from the type; stated for the record). -/
theorem call_reject_unchanged {atol : α} {lib : GateLib} {b : Builder α} {name : String} {args : List (PyArg α)}
    {e : Err} (h : b.call atol lib name args = .error e) : b.step atol lib (.call name args) = b := by
  simp [Builder.step, h]

/-- **`call_accept_appends`**: an accepted request appends exactly one statement and touches nothing else -/
theorem call_accept_appends {atol : α} {lib : GateLib} {b b' : Builder α} {name : String}
    {args : List (PyArg α)} (h : b.call atol lib name args = .ok b') :
    ∃ s, b'.stmts = b.stmts ++ [s] ∧ b'.nQubits = b.nQubits ∧ b'.nBits = b.nBits := by
  obtain ⟨n, ps, as, s, _, _, _, _, rfl⟩ := call_ok_iff.1 h
  exact ⟨s, rfl, rfl, rfl⟩

/-- **`call_accept_wf_typed`** (C13, C20).  For every library whose gate table obeys `tableTyped` (the default one
    does, `defaultLib_typed`) an accepted request appends a statement `s` that
    * is *named*: it records the resolved name `n` and the converted arguments `as`,
    * has exactly as many arguments as the generator has parameters, each of the declared kind,
    * is well formed: qubit operands in `0..nQubits-1`, bit index in `0..nBits-1`, operands pairwise distinct. -/
theorem call_accept_wf_typed {atol : α} {lib : GateLib} (hT : tableTyped lib.table = true) {b b' : Builder α}
    {name : String} {args : List (PyArg α)} (h : b.call atol lib name args = .ok b') :
    ∃ s n ps as, b'.stmts = b.stmts ++ [s] ∧ b'.nQubits = b.nQubits ∧ b'.nBits = b.nBits ∧
      lib.signature name = .ok (n, ps) ∧ checkArgs b.nQubits b.nBits ps args = .ok as ∧
      args.length = ps.length ∧ as.length = ps.length ∧ as.map Arg.kind = ps.map (·.2) ∧
      s.named = some ⟨n, as⟩ ∧ Stmt.wf b.nQubits b.nBits s = true := by
  obtain ⟨n, ps, as, s, hs, hc, hl, hb, rfl⟩ := call_ok_iff.1 h
  obtain ⟨h1, _, h3, _, _⟩ := checkArgs_ok hc
  exact ⟨s, n, ps, as, rfl, rfl, rfl, hs, hc, hl, h1, h3, (build_named hs hc hb).1, build_wf hT hs hc hb⟩

/- Intended statement (`call_accept_wf`): the same for an *arbitrary* table.  That is false, in the model and in
   Python alike: `named_gate` converts by annotation, so a user gate `def bad(q: QubitLike, k: SupportsInt): return
   CNOT(q, k)` turns the unchecked integer `k` into a qubit index (`Qubit(Int(k))` is legal); the builder checks
   only `q`.  See `call_accept_wf_needs_typed` below for the counterexample.  What holds for an arbitrary table: -/
/-- **`call_accept_wf_partial`**: arbitrary table — named, right number and kinds of arguments, every qubit /
    bit *argument* in range, operands pairwise distinct, shape fine; measure and reset statements well formed. -/
theorem call_accept_wf_partial {atol : α} {lib : GateLib} {b b' : Builder α}
    {name : String} {args : List (PyArg α)} (h : b.call atol lib name args = .ok b') :
    ∃ s n ps as, b'.stmts = b.stmts ++ [s] ∧ b'.nQubits = b.nQubits ∧ b'.nBits = b.nBits ∧
      lib.signature name = .ok (n, ps) ∧ checkArgs b.nQubits b.nBits ps args = .ok as ∧
      args.length = ps.length ∧ as.length = ps.length ∧ as.map Arg.kind = ps.map (·.2) ∧
      (∀ x ∈ as, x.inReg b.nQubits b.nBits = true) ∧
      s.named = some ⟨n, as⟩ ∧
      (∀ g nm, s = .gate g nm → hasDup g.operands = false ∧ g.shapeOk = true ∧ g.noMatrix = true ∧
          g.ctrlOk = true ∧ ∀ q ∈ g.operands, Arg.qubit q ∈ as ∨ Arg.int q ∈ as) ∧
      (s.isGate = false → Stmt.wf b.nQubits b.nBits s = true) ∧
      (tableTyped lib.table = true → Stmt.wf b.nQubits b.nBits s = true) := by
  obtain ⟨n, ps, as, s, hs, hc, hl, hb, rfl⟩ := call_ok_iff.1 h
  obtain ⟨h1, _, h3, h4, _⟩ := checkArgs_ok hc
  obtain ⟨k1, k2, k3, k4, k5⟩ := build_named hs hc hb
  refine ⟨s, n, ps, as, rfl, rfl, rfl, hs, hc, hl, h1, h3, h4, k1, ?_, ?_, fun hT => build_wf hT hs hc hb⟩
  · intro g nm hg
    obtain ⟨a, b, c, d, _⟩ := k2 g nm hg
    refine ⟨a, b, c, d, ?_⟩
    subst hg
    simp only [Stmt.named] at k1
    subst k1
    unfold GateLib.build at hb
    rcases signature_ok.1 hs with ⟨hm, d, hd, rfl, rfl⟩ | ⟨hm, hr, d, hd, rfl, rfl⟩ | ⟨hm, hr, hn, d, hd, rfl⟩
    · simp only [hm, if_true] at hb
      obtain ⟨_, _, _, _, _, _, _, _, _, _, _, h⟩ := callMeasure_ok.1 hb; cases h
    · simp only [hm, hr, Bool.false_eq_true, if_false, if_true] at hb
      obtain ⟨_, _, _, _, _, _, _, h⟩ := callReset_ok.1 hb; cases h
    · simp only [hm, hr, Bool.false_eq_true, if_false] at hb
      obtain ⟨⟨g', nm⟩, hcall, h⟩ := bind_ok.1 hb
      cases h
      exact callGate_operands_partial hcall
  · intro hg
    cases s with
    | gate g nm => simp [Stmt.isGate] at hg
    | measure q b ax nm => obtain ⟨a, c⟩ := k3 q b ax nm rfl; simp [Stmt.wf, a, c]
    | reset q nm => simp [Stmt.wf, k4 q nm rfl]
    | comment c => exact absurd rfl (k5 c)

/-- **`coherent_by_construction`**: in the statement appended by an accepted request, name and arguments
    denote exactly the operation — running the generator again on the *recorded* name and arguments gives
    back the recorded statement. -/
theorem coherent_by_construction {atol : α} {lib : GateLib} {b b' : Builder α}
    {name : String} {args : List (PyArg α)} (h : b.call atol lib name args = .ok b') :
    ∃ s nm, b'.stmts = b.stmts ++ [s] ∧ s.named = some nm ∧ lib.build atol name nm.name nm.args = .ok s ∧
      (∀ g nm', s = .gate g nm' → callGate atol lib.table nm.name nm.args = .ok (g, nm)) := by
  obtain ⟨n, ps, as, s, hs, hc, hl, hb, rfl⟩ := call_ok_iff.1 h
  refine ⟨s, ⟨n, as⟩, rfl, (build_named hs hc hb).1, hb, ?_⟩
  intro g nm' hg
  subst hg
  unfold GateLib.build at hb
  rcases signature_ok.1 hs with ⟨hm, d, hd, rfl, rfl⟩ | ⟨hm, hr, d, hd, rfl, rfl⟩ | ⟨hm, hr, hn, d, hd, rfl⟩
  · simp only [hm, if_true] at hb
    obtain ⟨_, _, _, _, _, _, _, _, _, _, _, h⟩ := callMeasure_ok.1 hb; cases h
  · simp only [hm, hr, Bool.false_eq_true, if_false, if_true] at hb
    obtain ⟨_, _, _, _, _, _, _, h⟩ := callReset_ok.1 hb; cases h
  · simp only [hm, hr, Bool.false_eq_true, if_false] at hb
    obtain ⟨⟨g', nm⟩, hcall, h⟩ := bind_ok.1 hb
    cases h
    have h1 := callGate_idem hcall
    obtain ⟨d', env, hd', _, hbind, he, hnm⟩ := callGate_ok.1 hcall
    rw [hd] at hd'; cases hd'
    have henv := bindArgs_checked hc hbind
    rw [henv] at hnm
    subst hnm
    exact h1

omit [Scalar α] in
/-- comments: accepted iff the text does not contain `*/`; the statement is well formed -/
theorem comment_accept_wf {b b' : Builder α} {c : String} (h : b.comment c = .ok b') :
    ∃ s, b'.stmts = b.stmts ++ [s] ∧ b'.nQubits = b.nQubits ∧ b'.nBits = b.nBits ∧ s = .comment c ∧
      Stmt.wf b.nQubits b.nBits s = true := by
  unfold Builder.comment at h
  obtain ⟨s, hs, h⟩ := bind_ok.1 h
  cases h
  unfold mkComment at hs
  by_cases hc : containsSub c "*/" = true
  · simp [hc] at hs
  · simp only [hc] at hs
    cases hs
    exact ⟨_, rfl, rfl, rfl, rfl, by simpa [Stmt.wf] using hc⟩

theorem step_wf {atol : α} {lib : GateLib} (hT : tableTyped lib.table = true) (b : Builder α) (c : Cmd α)
    (hb : Circuit.wf b.toCircuit = true) : Circuit.wf (b.step atol lib c).toCircuit = true := by
  cases c with
  | call name args =>
    simp only [Builder.step]
    cases h : b.call atol lib name args with
    | error e => exact hb
    | ok b' =>
      obtain ⟨s, n, ps, as, h1, h2, h3, _, _, _, _, _, _, hwf⟩ := call_accept_wf_typed hT h
      simp only [Circuit.wf, Builder.toCircuit, h1, h2, h3, List.all_append, List.all_cons, List.all_nil,
        Bool.and_true, Bool.and_eq_true]
      exact ⟨hb, hwf⟩
  | comment c =>
    simp only [Builder.step]
    cases h : b.comment c with
    | error e => exact hb
    | ok b' =>
      obtain ⟨s, h1, h2, h3, _, hwf⟩ := comment_accept_wf h
      simp only [Circuit.wf, Builder.toCircuit, h1, h2, h3, List.all_append, List.all_cons, List.all_nil,
        Bool.and_true, Bool.and_eq_true]
      exact ⟨hb, hwf⟩

/- Intended statement (`builder_wf`): the same without the hypothesis `tableTyped` — false, see
   `call_accept_wf_needs_typed`. -/
/-- **`builder_wf_partial`**: for a table obeying `tableTyped`, whatever sequence of requests (accepted or refused) is made to a fresh builder, the
    circuit it hands out is well formed. -/
theorem builder_wf_partial {atol : α} {lib : GateLib} (hT : tableTyped lib.table = true) (nq nb : Nat)
    (cmds : List (Cmd α)) :
    Circuit.wf (Builder.run atol lib ⟨nq, nb, []⟩ cmds).toCircuit = true := by
  suffices ∀ b : Builder α, Circuit.wf b.toCircuit = true →
      Circuit.wf (Builder.run atol lib b cmds).toCircuit = true from this _ rfl
  induction cmds with
  | nil => intro b hb; exact hb
  | cons c cmds ih => intro b hb; exact ih _ (step_wf hT b c hb)

/-- the register sizes never change -/
theorem run_sizes {atol : α} {lib : GateLib} (b : Builder α) (cmds : List (Cmd α)) :
    (Builder.run atol lib b cmds).nQubits = b.nQubits ∧ (Builder.run atol lib b cmds).nBits = b.nBits := by
  induction cmds generalizing b with
  | nil => exact ⟨rfl, rfl⟩
  | cons c cmds ih =>
    have : (b.step atol lib c).nQubits = b.nQubits ∧ (b.step atol lib c).nBits = b.nBits := by
      cases c with
      | call name args =>
        simp only [Builder.step]
        cases h : b.call atol lib name args with
        | error e => exact ⟨rfl, rfl⟩
        | ok b' => obtain ⟨s, _, h2, h3⟩ := call_accept_appends h; exact ⟨h2, h3⟩
      | comment c =>
        simp only [Builder.step]
        cases h : b.comment c with
        | error e => exact ⟨rfl, rfl⟩
        | ok b' => obtain ⟨s, _, h2, h3, _⟩ := comment_accept_wf h; exact ⟨h2, h3⟩
    have := ih (b.step atol lib c)
    simp only [Builder.run, List.foldl_cons] at this ⊢
    omega

/-! ### `call_errors_table`: which request is refused with which exception, in precedence order -/

omit [Scalar α] in
/-- stage 1 can only fail with `ValueError` -/
theorem signature_error {lib : GateLib} {name : String} {e : Err} (h : lib.signature name = .error e) :
    e = .value := by
  unfold GateLib.signature at h
  split at h
  · split at h <;> cases h; rfl
  · split at h
    · split at h <;> cases h; rfl
    · rcases bind_error.1 h with h | ⟨n, _, h⟩
      · exact (gateName_error.1 h).1
      · split at h <;> cases h; rfl

omit [Scalar α] in
/-- a name that is in none of the three sets and is no alias is unknown -/
theorem signature_unknown {lib : GateLib} {name : String} (hm : lib.measureSet.contains name = false)
    (hr : lib.resetSet.contains name = false) (hg : lib.gateSet.contains name = false)
    (ha : ∀ p ∈ lib.aliases, p.1 ≠ name) : lib.signature name = .error .value := by
  unfold GateLib.signature
  simp only [hm, hr, Bool.false_eq_true, if_false]
  rw [gateName_error.2 ⟨rfl, hg, ha⟩]; rfl

/-- (1) **unknown name ⇒ `ValueError`**, whatever the arguments -/
theorem call_unknown {atol : α} {lib : GateLib} {b : Builder α} {name : String} {args : List (PyArg α)} {e : Err}
    (h : lib.signature name = .error e) : b.call atol lib name args = .error .value := by
  rw [call_eq, h, signature_error h]; rfl

theorem call_unknown_name {atol : α} {lib : GateLib} {b : Builder α} {name : String} {args : List (PyArg α)}
    (hm : lib.measureSet.contains name = false) (hr : lib.resetSet.contains name = false)
    (hg : lib.gateSet.contains name = false) (ha : ∀ p ∈ lib.aliases, p.1 ≠ name) :
    b.call atol lib name args = .error .value :=
  call_unknown (signature_unknown hm hr hg ha)

/-- (2) known name: the argument check decides next, and its error is the error of the request -/
theorem call_checkArgs_error {atol : α} {lib : GateLib} {b : Builder α} {name n : String}
    {ps : List (String × Kind)} {args : List (PyArg α)} {e : Err} (hs : lib.signature name = .ok (n, ps))
    (hc : checkArgs b.nQubits b.nBits ps args = .error e) : b.call atol lib name args = .error e := by
  rw [call_eq, hs]; simp only [bind, Except.bind, hc]

/-- (2a) **first offending argument decides**: arguments `0..i-1` fine, argument `i` present and refused with `e`
    (`TypeError` iff wrong kind — `checkArg_type`; `IndexError` iff right kind but outside the register —
    `checkArg_index`) ⇒ the request is refused with `e` -/
theorem call_bad_arg {atol : α} {lib : GateLib} {b : Builder α} {name n : String}
    {ps : List (String × Kind)} {args : List (PyArg α)} {e : Err} (hs : lib.signature name = .ok (n, ps))
    {i : Nat} {p : String × Kind} {a : PyArg α} (hp : ps[i]? = some p) (ha : args[i]? = some a)
    (hbefore : ∀ j : Nat, j < i → ∃ (p' : String × Kind) (a' : PyArg α) (x : Arg α),
        ps[j]? = some p' ∧ args[j]? = some a' ∧ checkArg b.nQubits b.nBits p'.2 a' = .ok x)
    (he : checkArg b.nQubits b.nBits p.2 a = .error e) : b.call atol lib name args = .error e :=
  call_checkArgs_error hs (checkArgs_error_iff.2 ⟨i, p, hp, hbefore, .inl ⟨a, ha, he⟩⟩)

/-- (2b) **fewer arguments than parameters ⇒ `IndexError`**, provided the arguments that are there pass -/
theorem call_missing_arg {atol : α} {lib : GateLib} {b : Builder α} {name n : String}
    {ps : List (String × Kind)} {args : List (PyArg α)} (hs : lib.signature name = .ok (n, ps))
    (hlt : args.length < ps.length)
    (hall : ∀ j : Nat, j < args.length → ∃ (p' : String × Kind) (a' : PyArg α) (x : Arg α),
        ps[j]? = some p' ∧ args[j]? = some a' ∧ checkArg b.nQubits b.nBits p'.2 a' = .ok x) :
    b.call atol lib name args = .error .index :=
  call_checkArgs_error hs (checkArgs_error_iff.2
    ⟨args.length, ps[args.length], by simp [hlt], hall, .inr ⟨by simp, rfl⟩⟩)

/-- (3) **more arguments than parameters ⇒ `TypeError`** (only after every parameter's argument passed) -/
theorem call_surplus {atol : α} {lib : GateLib} {b : Builder α} {name n : String}
    {ps : List (String × Kind)} {args : List (PyArg α)} {as : List (Arg α)}
    (hs : lib.signature name = .ok (n, ps)) (hc : checkArgs b.nQubits b.nBits ps args = .ok as)
    (hl : args.length > ps.length) : b.call atol lib name args = .error .type := by
  rw [call_eq, hs]; simp only [bind, Except.bind, hc, hl, if_true]; rfl

/-- (4) otherwise the generator runs, and its failure is the failure of the request -/
theorem call_generator_error {atol : α} {lib : GateLib} {b : Builder α} {name n : String}
    {ps : List (String × Kind)} {args : List (PyArg α)} {as : List (Arg α)} {e : Err}
    (hs : lib.signature name = .ok (n, ps)) (hc : checkArgs b.nQubits b.nBits ps args = .ok as)
    (hl : args.length ≤ ps.length) (hb : lib.build atol name n as = .error e) :
    b.call atol lib name args = .error e := by
  have : ¬ args.length > ps.length := by omega
  rw [call_eq, hs]; simp only [bind, Except.bind, hc, this, if_false, hb]

/-- **`call_errors_table`**: the complete decision table of a request, in the model's precedence order.
    1. name not resolvable ⇒ `ValueError`;
    2. otherwise the argument check (`checkArgs_error_iff`: first offending position; missing ⇒ `IndexError`, wrong
       kind ⇒ `TypeError`, out of register ⇒ `IndexError`) ⇒ its error;
    3. otherwise surplus arguments ⇒ `TypeError`;
    4. otherwise a failing generator (e.g. control = target ⇒ `ValueError`, `mkCtrl_error_iff`) ⇒ its error;
    5. otherwise the statement is appended. -/
theorem call_errors_table {atol : α} {lib : GateLib} {b : Builder α} {name : String} {args : List (PyArg α)} :
    (∀ e, lib.signature name = .error e → b.call atol lib name args = .error .value) ∧
    (∀ n ps, lib.signature name = .ok (n, ps) →
      (∀ e, checkArgs b.nQubits b.nBits ps args = .error e → b.call atol lib name args = .error e) ∧
      (∀ as, checkArgs b.nQubits b.nBits ps args = .ok as →
        (args.length > ps.length → b.call atol lib name args = .error .type) ∧
        (args.length ≤ ps.length → ∀ e, lib.build atol name n as = .error e →
          b.call atol lib name args = .error e) ∧
        (args.length ≤ ps.length → ∀ s, lib.build atol name n as = .ok s →
          b.call atol lib name args = .ok { b with stmts := b.stmts ++ [s] }))) := by
  refine ⟨fun e h => call_unknown h, fun n ps hs => ⟨fun e hc => call_checkArgs_error hs hc, fun as hc =>
    ⟨fun hl => call_surplus hs hc hl, fun hl e hb => call_generator_error hs hc hl hb, fun hl s hb => ?_⟩⟩⟩
  have hle := (checkArgs_ok hc).2.1
  exact call_ok_iff.2 ⟨n, ps, as, s, hs, hc, by omega, hb, rfl⟩

omit [Scalar α] in
/-- (4a) `ControlledGate.__init__`: **control among the target's operands ⇒ `ValueError`** -/
theorem mkCtrl_error_iff {c : Int} {g : Gate α} {e : Err} :
    mkCtrl c g = .error e ↔ e = .value ∧ (c ∈ g.operands ∨ hasDup g.operands = true) := by
  unfold mkCtrl
  by_cases h : hasDup (c :: g.operands) = true
  · simp only [h, if_true, Except.error.injEq]
    have : c ∈ g.operands ∨ hasDup g.operands = true := by simpa [hasDup] using h
    exact ⟨fun h => ⟨h.symm, this⟩, fun h => h.1.symm⟩
  · have h' : ¬ (c ∈ g.operands ∨ hasDup g.operands = true) := by simpa [hasDup] using h
    simp [h, h']

/-- (4b) in the default library: **`CNOT(q, q)` ⇒ `ValueError`** for every in-range `q`, at every scalar type
    (whether or not the axis of `X` normalises — both failures are `ValueError`s) -/
theorem call_ctrl_eq_target_default {atol : α} {b : Builder α} {i : Int} (h0 : 0 ≤ i) (h1 : i < b.nQubits) :
    b.call atol defaultLib "CNOT" [.int i, .int i] = .error .value := by
  have hf : defaultLib.table.find? (·.name == "CNOT") = some
      { name := "CNOT", params := [("control", Kind.qubit), ("target", Kind.qubit)],
        body := (GExpr.ctrl "control" (GExpr.call "X" ["target"])) } := rfl
  have hx : defaultLib.table.find? (·.name == "X") = some
      { name := "X", params := [("q", Kind.qubit)],
        body := (GExpr.bsr "q" 1 0 0 SExpr.pi (SExpr.div SExpr.pi (SExpr.nat 2))) } := rfl
  have hs : defaultLib.signature "CNOT" = .ok ("CNOT", [("control", Kind.qubit), ("target", Kind.qubit)]) := rfl
  have hc : checkArgs b.nQubits b.nBits [("control", Kind.qubit), ("target", Kind.qubit)]
      [PyArg.int i, PyArg.int i] = .ok [Arg.qubit i, Arg.qubit (α := α) i] := by
    have : ¬ (i < 0 ∨ (b.nQubits : Int) ≤ i) := by omega
    simp [checkArgs, checkArg, this, bind, Except.bind, pure, Except.pure]
  refine call_generator_error hs hc (by simp) ?_
  have hm : defaultLib.measureSet.contains "CNOT" = false := by decide
  have hr : defaultLib.resetSet.contains "CNOT" = false := by decide
  simp only [GateLib.build, hm, hr, Bool.false_eq_true, if_false]
  rw [callGate, hf]
  simp [bindArgs, GExpr.eval, envQubit, Env.find?, evalNamed, hx, SExpr.eval, bind, Except.bind, pure, Except.pure]
  cases hb : mkBSR atol i (intToScalar 1, intToScalar 0, intToScalar 0) π (π / sc 2) with
  | error e => simp [mkBSR_error_value hb]
  | ok g =>
    obtain ⟨a, rfl⟩ := mkBSR_ok hb
    simp [mkCtrl, hasDup, Gate.operands]

/-! ### examples (non-vacuity) -/

/-- `call_accept_wf_typed`, every scalar type: `reset(1)` on a 2-qubit builder is accepted -/
example (atol : α) : ∃ b', Builder.call atol defaultLib ⟨2, 2, []⟩ "reset" [.int 1] = .ok b' ∧
    Circuit.wf b'.toCircuit = true := by
  have h : Builder.call atol defaultLib ⟨2, 2, []⟩ "reset" [.int 1] =
      .ok ⟨2, 2, [.reset 1 (some ⟨"reset", [.qubit 1]⟩)]⟩ := rfl
  obtain ⟨s, n, ps, as, h1, _, _, _, _, _, _, _, _, hwf⟩ := call_accept_wf_typed defaultLib_typed h
  refine ⟨_, h, ?_⟩
  simp only [List.nil_append, List.cons.injEq, and_true] at h1
  subst h1
  simpa [Circuit.wf, Builder.toCircuit] using hwf

/-- the error table on the default library, every scalar type -/
example (atol : α) : Builder.call atol defaultLib ⟨2, 2, []⟩ "nope" [.int 1] = .error .value :=
  call_unknown_name (by decide) (by decide) (by decide) (by decide)
example (atol : α) : Builder.call atol defaultLib ⟨2, 2, []⟩ "CNOT" [.int 1] = .error .index :=
  call_missing_arg (n := "CNOT") (ps := [("control", Kind.qubit), ("target", Kind.qubit)]) rfl (by simp)
    (fun j hj => by
      have : j = 0 := by simp at hj; omega
      subst this; exact ⟨_, _, _, rfl, rfl, rfl⟩)
example (atol : α) : Builder.call atol defaultLib ⟨2, 2, []⟩ "CNOT" [.int 0, .float atol] = .error .type :=
  call_bad_arg (n := "CNOT") (ps := [("control", Kind.qubit), ("target", Kind.qubit)]) (i := 1) rfl rfl rfl
    (fun j hj => by
      have : j = 0 := by omega
      subst this; exact ⟨_, _, _, rfl, rfl, rfl⟩) rfl
example (atol : α) : Builder.call atol defaultLib ⟨2, 2, []⟩ "CNOT" [.int 0, .int 2] = .error .index :=
  call_bad_arg (n := "CNOT") (ps := [("control", Kind.qubit), ("target", Kind.qubit)]) (i := 1) rfl rfl rfl
    (fun j hj => by
      have : j = 0 := by omega
      subst this; exact ⟨_, _, _, rfl, rfl, rfl⟩) rfl
example (atol : α) : Builder.call atol defaultLib ⟨2, 2, []⟩ "measure" [.int 0, .bit 2] = .error .index := rfl
example (atol : α) : Builder.call atol defaultLib ⟨2, 2, []⟩ "reset" [.int 0, .int 1] = .error .type :=
  call_surplus (n := "reset") (ps := [("q", Kind.qubit)]) (as := [.qubit 0]) rfl rfl (by simp)
example (atol : α) : Builder.call atol defaultLib ⟨2, 2, []⟩ "CNOT" [.int 1, .int 1] = .error .value :=
  call_ctrl_eq_target_default (b := ⟨2, 2, []⟩) (by decide) (by simp)

/-- closed instance at the toy scalar: `CNOT(0, Qubit(1))` on a 2-qubit builder is accepted, acts on `[0, 1]`,
    and the circuit is well formed -/
example : ∃ b', Builder.call (⟨0⟩ : Toy) defaultLib ⟨2, 2, []⟩ "CNOT" [.int 0, .qubit 1] = .ok b' ∧
    b'.stmts.map Stmt.qubits = [[0, 1]] ∧ Circuit.wf b'.toCircuit = true := by
  have hf : defaultLib.table.find? (·.name == "CNOT") = some
      { name := "CNOT", params := [("control", Kind.qubit), ("target", Kind.qubit)],
        body := (GExpr.ctrl "control" (GExpr.call "X" ["target"])) } := rfl
  have hx : defaultLib.table.find? (·.name == "X") = some
      { name := "X", params := [("q", Kind.qubit)],
        body := (GExpr.bsr "q" 1 0 0 SExpr.pi (SExpr.div SExpr.pi (SExpr.nat 2))) } := rfl
  have hs : defaultLib.signature "CNOT" = .ok ("CNOT", [("control", Kind.qubit), ("target", Kind.qubit)]) := rfl
  have hm : "CNOT" ∉ defaultLib.measureSet := by decide
  have hr : "CNOT" ∉ defaultLib.resetSet := by decide
  have h : Builder.call (⟨0⟩ : Toy) defaultLib ⟨2, 2, []⟩ "CNOT" [.int 0, .qubit 1] = .ok ⟨2, 2,
      [.gate (.ctrl 0 (.bsr 1 (one, zero, zero) (normalizeAngle ⟨0⟩ π) (normalizeAngle ⟨0⟩ (π / sc 2))))
        (some ⟨"CNOT", [Arg.qubit 0, Arg.qubit 1]⟩)]⟩ := by
    rw [call_eq, hs]
    simp [checkArgs, checkArg, GateLib.build, hm, hr, callGate, hf, bindArgs, GExpr.eval, envQubit, Env.find?,
      evalNamed, hx, SExpr.eval, bind, Except.bind, pure, Except.pure, mkBSR, toy_axis_x, mkCtrl, hasDup,
      Gate.operands]
  refine ⟨_, h, rfl, ?_⟩
  -- `coherent_by_construction` and `call_accept_wf_partial` apply to it
  obtain ⟨s, nm, _, _, _, _⟩ := coherent_by_construction h
  obtain ⟨s', _, _, _, _⟩ := call_accept_wf_partial h
  have := step_wf (atol := (⟨0⟩ : Toy)) defaultLib_typed ⟨2, 2, []⟩ (.call "CNOT" [.int 0, .qubit 1]) rfl
  simpa [Builder.step, h] using this

/-- `call_reject_unchanged`: the refused `CNOT(1, 1)` leaves the builder as it was -/
example (atol : α) : Builder.step atol defaultLib ⟨2, 2, []⟩ (.call "CNOT" [.int 1, .int 1]) = ⟨2, 2, []⟩ :=
  call_reject_unchanged (call_ctrl_eq_target_default (b := ⟨2, 2, []⟩) (by decide) (by simp))

/-- `builder_wf_partial` needs no hypothesis beyond `tableTyped`: here on a sequence with refused requests -/
example (atol : α) : Circuit.wf (Builder.run atol defaultLib ⟨2, 2, []⟩
    [.call "H" [.int 0], .call "CNOT" [.int 0, .int 1], .call "CNOT" [.int 1, .int 1], .call "nope" [],
     .call "measure" [.int 0, .bit 0], .comment "a */ b", .comment "fine"]).toCircuit = true :=
  builder_wf_partial defaultLib_typed 2 2 _

/-! ### `tableTyped` is needed -/

/-- a user library: `P(q) = identity on q`, `bad(q, k: SupportsInt) = ControlledGate(q, P(k))` -/
def badLib : GateLib where
  table := [⟨"P", [("q", .qubit)], .identity "q"⟩,
            ⟨"bad", [("q", .qubit), ("k", .int)], .ctrl "q" (.call "P" ["k"])⟩]
  gateSet := ["P", "bad"]
  aliases := []
  measures := []
  measureSet := []
  resets := []
  resetSet := []

/-- **`call_accept_wf_needs_typed`**: with `badLib` the builder *accepts* `bad(0, 7)` on a 2-qubit register
    (the `7` is a legitimate `SupportsInt` argument) and appends a gate acting on qubit `7`: the circuit is not
    well formed.  (Same in Python: `Qubit(Int(7))` is legal and the builder only range-checks `QubitLike`
    parameters.)  Hence the hypothesis `tableTyped` of `call_accept_wf_typed` / `builder_wf_partial` cannot be dropped. -/
theorem call_accept_wf_needs_typed : tableTyped badLib.table = false ∧
    ∃ b', Builder.call (⟨0⟩ : Toy) badLib ⟨2, 0, []⟩ "bad" [.int 0, .int 7] = .ok b' ∧
      b'.stmts.map Stmt.qubits = [[0, 7]] ∧ Circuit.wf b'.toCircuit = false := by
  refine ⟨by decide, ?_⟩
  have hf : badLib.table.find? (·.name == "bad") = some
      ⟨"bad", [("q", .qubit), ("k", .int)], .ctrl "q" (.call "P" ["k"])⟩ := rfl
  have hx : badLib.table.find? (·.name == "P") = some ⟨"P", [("q", .qubit)], .identity "q"⟩ := rfl
  have hs : badLib.signature "bad" = .ok ("bad", [("q", .qubit), ("k", .int)]) := rfl
  have hm : "bad" ∉ badLib.measureSet := by decide
  have hr : "bad" ∉ badLib.resetSet := by decide
  have h : Builder.call (⟨0⟩ : Toy) badLib ⟨2, 0, []⟩ "bad" [.int 0, .int 7] = .ok ⟨2, 0,
      [.gate (.ctrl 0 (.bsr 7 (one, zero, zero) (normalizeAngle ⟨0⟩ zero) (normalizeAngle ⟨0⟩ zero)))
        (some ⟨"bad", [Arg.qubit 0, Arg.int 7]⟩)]⟩ := by
    rw [call_eq, hs]
    simp [checkArgs, checkArg, GateLib.build, hm, hr, callGate, hf, bindArgs, GExpr.eval, envQubit, Env.find?,
      evalNamed, hx, bind, Except.bind, pure, Except.pure, mkBSR, toy_axis_id, mkCtrl, hasDup,
      Gate.operands]
  exact ⟨_, h, rfl, by decide⟩

end OSq

#print axioms OSq.checkArgs_ok
#print axioms OSq.checkArgs_error_iff
#print axioms OSq.call_eq
#print axioms OSq.call_ok_iff
#print axioms OSq.call_reject_unchanged
#print axioms OSq.call_accept_appends
#print axioms OSq.call_accept_wf_typed
#print axioms OSq.call_accept_wf_partial
#print axioms OSq.coherent_by_construction
#print axioms OSq.builder_wf_partial
#print axioms OSq.call_errors_table
#print axioms OSq.call_unknown_name
#print axioms OSq.call_bad_arg
#print axioms OSq.call_missing_arg
#print axioms OSq.call_surplus
#print axioms OSq.call_generator_error
#print axioms OSq.mkCtrl_error_iff
#print axioms OSq.call_ctrl_eq_target_default
#print axioms OSq.call_accept_wf_needs_typed
