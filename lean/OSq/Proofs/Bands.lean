/-
  OSq.Proofs.Bands — quantitative **band theorems** at `α := ℝ`: what the decomposers and the composition do for
  inputs *inside* the tolerance bands (a test `|u − t| < atol` fires although `u ≠ t`).  The crisp theorems
  (`ABA.lean`, `RotAlgebra.lean`, `DecomposeSem.lean`) give exact operator identities when every test is honest;
  here the operator error is bounded by a small explicit multiple of `atol`, so that the single-gate statements
  hold for **all** inputs.  Norm: entrywise on 2×2 complex matrices (all bounds are stated `∀ i j, ‖A i j − B i j‖ ≤ …`).

  Tools
  * `qMat_entry_le`, `toMat_sub_entry_le`, `rot_sub_entry_le`   an entry of `qMat w x y z` is `≤ √(w²+x²+y²+z²)`: the
        entrywise distance of two operators is at most the Euclidean distance `qdist2` of their quaternions
  * `cos_sin_sub_sq_le`, `abs_cos_sub_cos_le`, `abs_sin_sub_sin_le`, `norm_exp_sub_exp_le`   Lipschitz bounds
  1. Lipschitz lemmas (unit axis `n` for the first two)
  * `rot_lipschitz_angle`   `‖rot n θ φ i j − rot n θ' φ i j‖ ≤ |θ − θ'| / 2`      (sharp constant)
  * `rot_lipschitz_phase`   `‖rot n θ φ i j − rot n θ φ' i j‖ ≤ |φ − φ'|`
  * `rot_lipschitz_axis`    `‖rot n θ φ i j − rot n' θ φ i j‖ ≤ |sin(θ/2)|·(|Δn_x| + |Δn_y| + |Δn_z|)`  (any vectors)
  * `rot_entry_le_one`, `unitary_entry_le_one`   entries of (2×2) unitaries have modulus `≤ 1`
  2. Identity filter
  * `rot_sub_one_entry_le`  `‖rot a θ φ i j − 1 i j‖ ≤ |θ|/2 + |φ|`
  * `rot_identity_band`     `is_identity` accepts `(a, θ, φ)` ⇒ `‖rot a θ φ i j − 1 i j‖ ≤ (3/2)·atol`
  * `filter_identities_band`  list of unit-axis rotations: `‖listOp (filterOutIdentities atol l) i j − listOp l i j‖
                              ≤ k·2·atol`, `k = idCount atol l` the number of dropped gates
                              (`filter_identities_band_length`: `≤ l.length·2·atol`)
  3. `composeRot`, identity branch
  * `compose_identity_dist`     `U_a·U_b` is within `√2·|sin(Θ/2)|` of `e^{i(φa+φb)}·(±1)`
  * `composeRot_identity_band`  the branch `|sin(Θ/2)| < atol` fires ⇒ result is the identity rotation and
                                `‖(U_a·U_b) i j − (z • U_r) i j‖ ≤ √2·atol` for a unit scalar `z`
  A-B-A (`errSq`: squared quaternion error of a triple `(p, θ2, m)`; `aba_err_le`, `aba_err_of_angles`: operator error
  of the angles returned by `abaAngles` `≤ √errSq`)
  * `errSq_general_shortcut`, `errSq_pi_a_band`, `errSq_pi_inner_band`, `ptm_pi_band`   the bands of the closed form `ptm`
  4. `aba_inner_band`     general branch, inner shortcut fires (`sin(θ2/2) ≠ 0` allowed): error `≤ √2·atol`
     `aba_inner_band_p`   … there `θ2 = 0`, `θ1 + θ3 = p = 2·atan2(a sin(α/2), cos(α/2))` and
                          `‖rot e_a p 0 i j − rot n α 0 i j‖ ≤ √2·atol`  (the form of the task statement)
  5. `aba_pi_band`        `|α − π| < atol` fires (`α ≠ π` allowed), other tests crisp: error `≤ |α − π|/2 < atol/2`
  6. `aba_a_band`         `|α − π| < atol` and `|a| < atol` fire: error to `rot n π 0` `≤ √2·|a|`, to `rot n α 0`
                          `≤ √2·|a| + |α − π|/2 < (√2 + 1/2)·atol ≤ 2·atol`
     `aba_pi_inner_band`  (a band the task list did not name) `|α − π| < atol` fires, `|a| < atol` does not, the inner
                          shortcut `|sin(θ2/2)| < atol` fires with `b² + c² ≠ 0`: the code answers `m = π` whatever the
                          direction of `(b, c)`; error to `rot n π 0` `≤ 2√(b²+c²) < 2·atol`, to `rot n α 0` `< (5/2)·atol`
  7. `aba_all_inputs`     every kind, every unit axis, every `α ∈ [-π+atol, π+atol)`, **no crisp hypothesis**:
                          `‖(R_a(θ3)·R_b(θ2)·R_a(θ1)) i j − rot n α 0 i j‖ ≤ (5/2)·atol`
     `abaDecompose_all_inputs`  the decomposer with its identity filter, no crisp hypothesis at all:
                          `‖listOp out i j − (z • rot n α φ) i j‖ ≤ (17/2)·atol`, `‖z‖ = 1`
  Sharpness / explanation of the open finding C01-band-compound
  * `aba_a_band_sharp`        X-Z-X, axis `(a, 0, b)`, `α = π`, `|a| < atol`: the `(0,1)` entry of the error is exactly `√2·|a|`
  * `aba_pi_inner_band_sharp` X-Y-X, axis `(a, 0, -ρ)`, `α = π`, `ρ < atol ≤ |a|`: the `(0,0)` entry of the error is exactly `2ρ`
    Remark.  Worst cases by branch (entrywise, before any phase alignment): general branch `√2·atol`; `α ≈ π` alone
    `atol/2`; `α ≈ π` with `a ≈ 0`: `(√2 + 1/2)·atol ≈ 1.91·atol` (the crude componentwise sum is
    `|a| + |√(c²+a²) − |c|| + |α−π|/2 < 2.5·atol`); `α ≈ π` with the inner shortcut: `2·atol + atol/2 = 2.5·atol`.  Each
    of the compound cases exceeds the absolute tolerance `atol` of `check_gate_replacement`, and the sharpness
    theorems show that already a single inner band reaches `√2·atol` resp. `2·atol`: the decomposition is right to
    `O(atol)` but not to `atol`, which is exactly the reported `ValueError` on in-band inputs.
  Examples (non-vacuity) on inputs strictly inside each band follow the theorems.
-/
import OSq.Proofs.DecomposeSem
import Mathlib.Analysis.SpecialFunctions.Trigonometric.Bounds
import Mathlib.Tactic.Ring
import Mathlib.Tactic.Linarith
import Mathlib.Tactic.Positivity
import Mathlib.Tactic.FinCases

set_option linter.unnecessarySeqFocus false
set_option linter.unusedSimpArgs false
open Matrix

namespace OSq
namespace Bands
open Sem Complex

/-! ### 0. Norms of the entries of `qMat` -/

theorem norm_le_of_re_im {u : ℂ} {B : ℝ} (hB : 0 ≤ B) (h : u.re ^ 2 + u.im ^ 2 ≤ B ^ 2) : ‖u‖ ≤ B := by
  have h1 : ‖u‖ ^ 2 ≤ B ^ 2 := by
    rw [Complex.sq_norm, Complex.normSq_apply]; nlinarith
  exact (abs_le_of_sq_le_sq' h1 hB).2

/-- every entry of `qMat w x y z` is bounded by the Euclidean norm of `(w, x, y, z)` -/
theorem qMat_entry_le {w x y z B : ℝ} (hB : 0 ≤ B) (h : w ^ 2 + x ^ 2 + y ^ 2 + z ^ 2 ≤ B ^ 2)
    (i j : Fin 2) : ‖qMat w x y z i j‖ ≤ B := by
  rw [qMat_eq]
  fin_cases i <;> fin_cases j <;> apply norm_le_of_re_im hB <;> simp <;>
    nlinarith [sq_nonneg w, sq_nonneg x, sq_nonneg y, sq_nonneg z]

theorem qMat_sub (w x y z w' x' y' z' : ℝ) :
    qMat w x y z - qMat w' x' y' z' = qMat (w - w') (x - x') (y - y') (z - z') := by
  rw [qMat_eq, qMat_eq, qMat_eq]
  ext i j
  fin_cases i <;> fin_cases j <;> simp <;> ring

/-- squared Euclidean distance of two quaternions -/
def qdist2 (p q : ABA.Q) : ℝ := (p.w - q.w) ^ 2 + (p.x - q.x) ^ 2 + (p.y - q.y) ^ 2 + (p.z - q.z) ^ 2

theorem toMat_sub_entry_le (p q : ABA.Q) {B : ℝ} (hB : 0 ≤ B) (h : qdist2 p q ≤ B ^ 2) (i j : Fin 2) :
    ‖p.toMat i j - q.toMat i j‖ ≤ B := by
  rw [← Matrix.sub_apply]
  unfold ABA.Q.toMat
  rw [qMat_sub]
  exact qMat_entry_le hB h i j

/-- the same with a common unit scalar in front -/
theorem smul_toMat_sub_entry_le (c : ℂ) (hc : ‖c‖ = 1) (p q : ABA.Q) {B : ℝ} (hB : 0 ≤ B)
    (h : qdist2 p q ≤ B ^ 2) (i j : Fin 2) :
    ‖(c • p.toMat) i j - (c • q.toMat) i j‖ ≤ B := by
  rw [Matrix.smul_apply, Matrix.smul_apply, smul_eq_mul, smul_eq_mul, ← mul_sub, norm_mul, hc, one_mul]
  exact toMat_sub_entry_le p q hB h i j

/-- two rotations with the same phase: entrywise distance ≤ distance of the quaternions -/
theorem rot_sub_entry_le (n n' : ℝ × ℝ × ℝ) (θ θ' φ : ℝ) {B : ℝ} (hB : 0 ≤ B)
    (h : qdist2 (ABA.Q.ofRot n θ) (ABA.Q.ofRot n' θ') ≤ B ^ 2) (i j : Fin 2) :
    ‖rot n θ φ i j - rot n' θ' φ i j‖ ≤ B := by
  rw [rot_eq_qMat, rot_eq_qMat]
  exact smul_toMat_sub_entry_le _ (norm_exp_I_mul φ) _ _ hB h i j

/-! ### trigonometric Lipschitz bounds -/

theorem cos_sin_sub_sq_le (a b : ℝ) :
    (Real.cos a - Real.cos b) ^ 2 + (Real.sin a - Real.sin b) ^ 2 ≤ (a - b) ^ 2 := by
  have h1 := Real.sin_sq_add_cos_sq a
  have h2 := Real.sin_sq_add_cos_sq b
  have h3 := Real.cos_sub a b
  have h4 := Real.one_sub_sq_div_two_le_cos (x := a - b)
  nlinarith

theorem abs_cos_sub_cos_le (a b : ℝ) : |Real.cos a - Real.cos b| ≤ |a - b| := by
  apply sq_le_sq.mp
  nlinarith [cos_sin_sub_sq_le a b, sq_nonneg (Real.sin a - Real.sin b)]

theorem abs_sin_sub_sin_le (a b : ℝ) : |Real.sin a - Real.sin b| ≤ |a - b| := by
  apply sq_le_sq.mp
  nlinarith [cos_sin_sub_sq_le a b, sq_nonneg (Real.cos a - Real.cos b)]

theorem norm_exp_sub_exp_le (φ φ' : ℝ) :
    ‖Complex.exp (I * φ) - Complex.exp (I * φ')‖ ≤ |φ - φ'| := by
  apply norm_le_of_re_im (abs_nonneg _)
  rw [mul_comm I, mul_comm I]
  simp only [Complex.sub_re, Complex.sub_im, Complex.exp_ofReal_mul_I_re, Complex.exp_ofReal_mul_I_im, sq_abs]
  exact cos_sin_sub_sq_le φ φ'

/-! ### 1. Lipschitz lemmas for `rot` -/

/-- **rot_lipschitz_angle** (sharp constant `1/2`) -/
theorem rot_lipschitz_angle (n : ℝ × ℝ × ℝ) (hn : n.1 ^ 2 + n.2.1 ^ 2 + n.2.2 ^ 2 = 1) (θ θ' φ : ℝ)
    (i j : Fin 2) : ‖rot n θ φ i j - rot n θ' φ i j‖ ≤ |θ - θ'| / 2 := by
  apply rot_sub_entry_le _ _ _ _ _ (by positivity)
  have h := cos_sin_sub_sq_le (θ / 2) (θ' / 2)
  have e : (|θ - θ'| / 2) ^ 2 = (θ / 2 - θ' / 2) ^ 2 := by
    rw [div_pow, sq_abs]; ring
  rw [e]
  simp only [qdist2, ABA.Q.ofRot]
  have : (Real.cos (θ / 2) - Real.cos (θ' / 2)) ^ 2 + (Real.sin (θ / 2) * n.1 - Real.sin (θ' / 2) * n.1) ^ 2
      + (Real.sin (θ / 2) * n.2.1 - Real.sin (θ' / 2) * n.2.1) ^ 2
      + (Real.sin (θ / 2) * n.2.2 - Real.sin (θ' / 2) * n.2.2) ^ 2
      = (Real.cos (θ / 2) - Real.cos (θ' / 2)) ^ 2
        + (Real.sin (θ / 2) - Real.sin (θ' / 2)) ^ 2 * (n.1 ^ 2 + n.2.1 ^ 2 + n.2.2 ^ 2) := by ring
  rw [this, hn, mul_one]
  exact h

/-- entries of a unit-axis rotation have modulus `≤ 1` -/
theorem rot_entry_le_one (n : ℝ × ℝ × ℝ) (hn : n.1 ^ 2 + n.2.1 ^ 2 + n.2.2 ^ 2 = 1) (θ φ : ℝ) (i j : Fin 2) :
    ‖rot n θ φ i j‖ ≤ 1 := by
  rw [rot_eq_qMat, Matrix.smul_apply, smul_eq_mul, norm_mul, norm_exp_I_mul, one_mul]
  apply qMat_entry_le zero_le_one
  simp only [ABA.Q.ofRot]
  have := Real.sin_sq_add_cos_sq (θ / 2)
  nlinarith

/-- **rot_lipschitz_phase** -/
theorem rot_lipschitz_phase (n : ℝ × ℝ × ℝ) (hn : n.1 ^ 2 + n.2.1 ^ 2 + n.2.2 ^ 2 = 1) (θ φ φ' : ℝ)
    (i j : Fin 2) : ‖rot n θ φ i j - rot n θ φ' i j‖ ≤ |φ - φ'| := by
  rw [rot_phase_smul n θ φ, rot_phase_smul n θ φ', Matrix.smul_apply, Matrix.smul_apply, smul_eq_mul,
    smul_eq_mul, ← sub_mul, norm_mul]
  calc ‖Complex.exp (I * φ) - Complex.exp (I * φ')‖ * ‖rot n θ 0 i j‖
      ≤ |φ - φ'| * 1 :=
        mul_le_mul (norm_exp_sub_exp_le φ φ') (rot_entry_le_one n hn θ 0 i j) (norm_nonneg _) (abs_nonneg _)
    _ = |φ - φ'| := mul_one _

/-- **rot_lipschitz_axis** (any two vectors) -/
theorem rot_lipschitz_axis (n n' : ℝ × ℝ × ℝ) (θ φ : ℝ) (i j : Fin 2) :
    ‖rot n θ φ i j - rot n' θ φ i j‖
      ≤ |Real.sin (θ / 2)| * (|n.1 - n'.1| + |n.2.1 - n'.2.1| + |n.2.2 - n'.2.2|) := by
  apply rot_sub_entry_le _ _ _ _ _ (by positivity)
  simp only [qdist2, ABA.Q.ofRot]
  rw [mul_pow, sq_abs]
  have h1 := abs_nonneg (n.1 - n'.1)
  have h2 := abs_nonneg (n.2.1 - n'.2.1)
  have h3 := abs_nonneg (n.2.2 - n'.2.2)
  have e : (|n.1 - n'.1| + |n.2.1 - n'.2.1| + |n.2.2 - n'.2.2|) ^ 2
      = (n.1 - n'.1) ^ 2 + (n.2.1 - n'.2.1) ^ 2 + (n.2.2 - n'.2.2) ^ 2
        + 2 * (|n.1 - n'.1| * |n.2.1 - n'.2.1| + |n.1 - n'.1| * |n.2.2 - n'.2.2|
          + |n.2.1 - n'.2.1| * |n.2.2 - n'.2.2|) := by
    rw [← sq_abs (n.1 - n'.1), ← sq_abs (n.2.1 - n'.2.1), ← sq_abs (n.2.2 - n'.2.2)]; ring
  rw [e]
  have hs := sq_nonneg (Real.sin (θ / 2))
  have hp : 0 ≤ |n.1 - n'.1| * |n.2.1 - n'.2.1| + |n.1 - n'.1| * |n.2.2 - n'.2.2|
          + |n.2.1 - n'.2.1| * |n.2.2 - n'.2.2| := by positivity
  nlinarith [mul_nonneg hs hp]

/-! ### 2. The identity filter inside its band -/

/-- a rotation about a unit axis is within `|θ|/2 + |φ|` of the identity, entrywise -/
theorem rot_sub_one_entry_le (a : ℝ × ℝ × ℝ) (ha : a.1 ^ 2 + a.2.1 ^ 2 + a.2.2 ^ 2 = 1) (θ φ : ℝ)
    (i j : Fin 2) : ‖rot a θ φ i j - (1 : Matrix (Fin 2) (Fin 2) ℂ) i j‖ ≤ |θ| / 2 + |φ| := by
  have e1 := rot_lipschitz_angle a ha θ 0 φ i j
  have e2 := rot_lipschitz_phase a ha 0 φ 0 i j
  rw [sub_zero] at e1 e2
  rw [← rot_zero a]
  calc ‖rot a θ φ i j - rot a 0 0 i j‖
      = ‖(rot a θ φ i j - rot a 0 φ i j) + (rot a 0 φ i j - rot a 0 0 i j)‖ := by ring_nf
    _ ≤ ‖rot a θ φ i j - rot a 0 φ i j‖ + ‖rot a 0 φ i j - rot a 0 0 i j‖ := norm_add_le _ _
    _ ≤ |θ| / 2 + |φ| := add_le_add e1 e2

/-- **rot_identity_band**: a unit-axis rotation that `is_identity` accepts (`|θ| < atol ∧ |φ| < atol`, not
    necessarily `θ = φ = 0`) is within `(3/2)·atol` of the identity, entrywise. -/
theorem rot_identity_band (atol : ℝ) (q : Int) (a : Vec3 ℝ) (θ φ : ℝ)
    (ha : a.1 ^ 2 + a.2.1 ^ 2 + a.2.2 ^ 2 = 1) (h : (Gate.bsr q a θ φ).isIdentity atol = true) (i j : Fin 2) :
    ‖rot a θ φ i j - (1 : Matrix (Fin 2) (Fin 2) ℂ) i j‖ ≤ 3 / 2 * atol := by
  obtain ⟨h1, h2⟩ := (isIdentity_bsr_iff atol q a θ φ).mp h
  have := rot_sub_one_entry_le a ha θ φ i j
  linarith

/-- every rotation of the list has a unit axis -/
def UnitAxes (l : List (GStmt ℝ)) : Prop :=
  ∀ g ∈ l, ∀ q a θ φ, g.1 = .bsr q a θ φ → a.1 ^ 2 + a.2.1 ^ 2 + a.2.2 ^ 2 = 1

/-- number of gates of the list that the identity filter drops -/
noncomputable def idCount (atol : ℝ) (l : List (GStmt ℝ)) : ℕ := (l.filter fun g => g.1.isIdentity atol).length

theorem idCount_le_length (atol : ℝ) (l : List (GStmt ℝ)) : idCount atol l ≤ l.length :=
  List.length_filter_le _ _

theorem unitary_entry_le_one {U : Matrix (Fin 2) (Fin 2) ℂ} (hU : U ∈ Matrix.unitaryGroup (Fin 2) ℂ)
    (i j : Fin 2) : ‖U i j‖ ≤ 1 := by
  have h := Matrix.mem_unitaryGroup_iff.mp hU
  have hii := congrFun (congrFun h i) i
  simp only [Matrix.mul_apply, Fin.sum_univ_two, Matrix.star_apply, Matrix.one_apply_eq,
    Complex.star_def, Complex.mul_conj] at hii
  have h2 : Complex.normSq (U i 0) + Complex.normSq (U i 1) = 1 := by exact_mod_cast hii
  have h0 := Complex.normSq_nonneg (U i 0)
  have h1 := Complex.normSq_nonneg (U i 1)
  have hsq : ‖U i j‖ ^ 2 ≤ 1 ^ 2 := by
    rw [Complex.sq_norm]
    fin_cases j <;> simp <;> linarith
  exact (abs_le_of_sq_le_sq' hsq zero_le_one).2

theorem nσ_unitary (a : ℝ × ℝ × ℝ) (ha : a.1 ^ 2 + a.2.1 ^ 2 + a.2.2 ^ 2 = 1) :
    nσ a ∈ Matrix.unitaryGroup (Fin 2) ℂ := by
  rw [Matrix.mem_unitaryGroup_iff, Matrix.star_eq_conjTranspose, nσ_conjTranspose, nσ_mul_self a ha]

theorem opOf_unitary (g : GStmt ℝ)
    (h : ∀ q a θ φ, g.1 = .bsr q a θ φ → a.1 ^ 2 + a.2.1 ^ 2 + a.2.2 ^ 2 = 1) :
    opOf g ∈ Matrix.unitaryGroup (Fin 2) ℂ := by
  obtain ⟨g, nm⟩ := g
  cases g with
  | bsr q a θ φ => exact rot_unitary a θ φ (h q a θ φ rfl)
  | matrix m ops => exact one_mem _
  | ctrl c g => exact one_mem _

theorem listOp_unitary (l : List (GStmt ℝ)) (h : UnitAxes l) : listOp l ∈ Matrix.unitaryGroup (Fin 2) ℂ := by
  induction l with
  | nil => exact one_mem _
  | cons g l ih =>
    rw [listOp_cons]
    exact mul_mem (ih (fun g' hg' => h g' (List.mem_cons_of_mem _ hg'))) (opOf_unitary g (h g List.mem_cons_self))

theorem one_sub_rot (a : ℝ × ℝ × ℝ) (θ φ : ℝ) :
    1 - rot a θ φ = (1 - Complex.exp (I * φ) * (Real.cos (θ / 2) : ℂ)) • (1 : Matrix (Fin 2) (Fin 2) ℂ)
      + (Complex.exp (I * φ) * (I * (Real.sin (θ / 2) : ℂ))) • nσ a := by
  unfold rot
  rw [smul_sub, smul_smul, smul_smul, sub_smul, one_smul]
  abel

/-- sandwiching `1 - U_g` (with `g` inside the identity band) between two unitaries: entries `≤ |φ| + |θ|` -/
theorem sandwich_one_sub_rot (a : ℝ × ℝ × ℝ) (ha : a.1 ^ 2 + a.2.1 ^ 2 + a.2.2 ^ 2 = 1) (θ φ : ℝ)
    {A B : Matrix (Fin 2) (Fin 2) ℂ} (hA : A ∈ Matrix.unitaryGroup (Fin 2) ℂ)
    (hB : B ∈ Matrix.unitaryGroup (Fin 2) ℂ) (i j : Fin 2) :
    ‖(A * (1 - rot a θ φ) * B) i j‖ ≤ |φ| + |θ| := by
  have e : A * (1 - rot a θ φ) * B
      = (1 - Complex.exp (I * φ) * (Real.cos (θ / 2) : ℂ)) • (A * B)
        + (Complex.exp (I * φ) * (I * (Real.sin (θ / 2) : ℂ))) • (A * nσ a * B) := by
    rw [one_sub_rot, Matrix.mul_add, Matrix.add_mul, Matrix.mul_smul, Matrix.mul_smul, Matrix.smul_mul,
      Matrix.smul_mul, Matrix.mul_one]
  have hAB := unitary_entry_le_one (mul_mem hA hB) i j
  have hAnB := unitary_entry_le_one (mul_mem (mul_mem hA (nσ_unitary a ha)) hB) i j
  have hc1 : ‖(1 - Complex.exp (I * φ) * (Real.cos (θ / 2) : ℂ))‖ ≤ |φ| + |θ| / 2 := by
    have e1 : (1 - Complex.exp (I * φ) * (Real.cos (θ / 2) : ℂ))
        = (Complex.exp (I * (0 : ℝ)) - Complex.exp (I * φ))
          + Complex.exp (I * φ) * (((Real.cos 0 - Real.cos (θ / 2) : ℝ)) : ℂ) := by
      simp; ring
    rw [e1]
    refine (norm_add_le _ _).trans (add_le_add ?_ ?_)
    · have := norm_exp_sub_exp_le 0 φ
      rwa [zero_sub, abs_neg] at this
    · rw [norm_mul, norm_exp_I_mul, one_mul, Complex.norm_real, Real.norm_eq_abs]
      have := abs_cos_sub_cos_le 0 (θ / 2)
      rwa [zero_sub, abs_neg, abs_div, abs_two] at this
  have hc2 : ‖(Complex.exp (I * φ) * (I * (Real.sin (θ / 2) : ℂ)))‖ ≤ |θ| / 2 := by
    rw [norm_mul, norm_exp_I_mul, one_mul, norm_mul, Complex.norm_I, one_mul, Complex.norm_real,
      Real.norm_eq_abs]
    have := abs_sin_sub_sin_le (θ / 2) 0
    rwa [Real.sin_zero, sub_zero, sub_zero, abs_div, abs_two] at this
  rw [e, Matrix.add_apply, Matrix.smul_apply, Matrix.smul_apply, smul_eq_mul, smul_eq_mul]
  refine (norm_add_le _ _).trans ?_
  rw [norm_mul, norm_mul]
  have h1 : ‖(1 - Complex.exp (I * φ) * (Real.cos (θ / 2) : ℂ))‖ * ‖(A * B) i j‖ ≤ (|φ| + |θ| / 2) * 1 :=
    mul_le_mul hc1 hAB (norm_nonneg _) (by positivity)
  have h2 : ‖(Complex.exp (I * φ) * (I * (Real.sin (θ / 2) : ℂ)))‖ * ‖(A * nσ a * B) i j‖ ≤ (|θ| / 2) * 1 :=
    mul_le_mul hc2 hAnB (norm_nonneg _) (by positivity)
  linarith

theorem filter_band_aux (atol : ℝ) (hat : 0 ≤ atol) (l : List (GStmt ℝ)) (hl : UnitAxes l) :
    ∀ B ∈ Matrix.unitaryGroup (Fin 2) ℂ, ∀ i j : Fin 2,
      ‖((listOp (filterOutIdentities atol l) - listOp l) * B) i j‖ ≤ idCount atol l * (2 * atol) := by
  induction l with
  | nil => intro B _ i j; simp [filterOutIdentities, idCount]
  | cons g l ih =>
    have hl' : UnitAxes l := fun g' hg' => hl g' (List.mem_cons_of_mem _ hg')
    have ih' := ih hl'
    have hg := opOf_unitary g (hl g List.mem_cons_self)
    intro B hB i j
    unfold filterOutIdentities idCount at ih' ⊢
    rw [List.filter_cons, List.filter_cons]
    cases hid : g.1.isIdentity atol with
    | false =>
      simp only [Bool.not_false, if_true, Bool.false_eq_true, if_false]
      rw [listOp_cons, listOp_cons, ← Matrix.sub_mul, Matrix.mul_assoc]
      exact ih' _ (mul_mem hg hB) i j
    | true =>
      simp only [Bool.not_true, Bool.false_eq_true, if_false, if_true, List.length_cons]
      have e : (listOp (List.filter (fun g => !g.1.isIdentity atol) l) - listOp (g :: l)) * B
          = (listOp (List.filter (fun g => !g.1.isIdentity atol) l) - listOp l) * B
            + listOp l * (1 - opOf g) * B := by
        rw [listOp_cons, Matrix.mul_sub, Matrix.mul_one, ← Matrix.add_mul]; congr 1; abel
      rw [e, Matrix.add_apply]
      refine (norm_add_le _ _).trans ?_
      have h1 := ih' B hB i j
      have h2 : ‖(listOp l * (1 - opOf g) * B) i j‖ ≤ 2 * atol := by
        obtain ⟨g, nm⟩ := g
        cases g with
        | bsr q a θ φ =>
          obtain ⟨ht, hp⟩ := (isIdentity_bsr_iff atol q a θ φ).mp hid
          have := sandwich_one_sub_rot a (hl _ List.mem_cons_self q a θ φ rfl) θ φ (listOp_unitary l hl') hB i j
          rw [opOf_bsr]
          linarith
        | matrix m ops =>
          have : (0 : ℝ) ≤ 2 * atol := by positivity
          simpa [opOf] using this
        | ctrl c g =>
          have : (0 : ℝ) ≤ 2 * atol := by positivity
          simpa [opOf] using this
      push_cast
      linarith

/-- **filter_identities_band**: for a list of unit-axis rotations, dropping the gates that `is_identity` accepts
    (inside the band, not necessarily exact identities) changes the operator of the list entrywise by at most
    `k · 2 · atol`, where `k` is the number of dropped gates. -/
theorem filter_identities_band (atol : ℝ) (hat : 0 ≤ atol) (l : List (GStmt ℝ)) (hl : UnitAxes l) (i j : Fin 2) :
    ‖listOp (filterOutIdentities atol l) i j - listOp l i j‖ ≤ idCount atol l * (2 * atol) := by
  have := filter_band_aux atol hat l hl 1 (one_mem _) i j
  rwa [Matrix.mul_one, Matrix.sub_apply] at this

/-- the same with the length of the list: `≤ m · 2 · atol`, `m = l.length` -/
theorem filter_identities_band_length (atol : ℝ) (hat : 0 ≤ atol) (l : List (GStmt ℝ)) (hl : UnitAxes l)
    (i j : Fin 2) :
    ‖listOp (filterOutIdentities atol l) i j - listOp l i j‖ ≤ l.length * (2 * atol) := by
  refine (filter_identities_band atol hat l hl i j).trans ?_
  have : (idCount atol l : ℝ) ≤ l.length := by exact_mod_cast idCount_le_length atol l
  exact mul_le_mul_of_nonneg_right this (by positivity)

/-! non-vacuity for items 1 and 2 -/

example : ‖rot (0, 0, 1) 1 0 0 0 - rot (0, 0, 1) 0 0 0 0‖ ≤ 1 / 2 := by
  have := rot_lipschitz_angle (0, 0, 1) (by norm_num) 1 0 0 0 0
  simpa using this

example : ‖rot (0, 1, 0) 1 (1 / 3) 0 1 - rot (0, 1, 0) 1 0 0 1‖ ≤ 1 / 3 := by
  have := rot_lipschitz_phase (0, 1, 0) (by norm_num) 1 (1 / 3) 0 0 1
  rwa [sub_zero, abs_of_pos (by norm_num : (0 : ℝ) < 1 / 3)] at this

example : ‖rot (1, 0, 0) 1 0 0 1 - rot (0, 1, 0) 1 0 0 1‖ ≤ |Real.sin (1 / 2)| * 2 := by
  have := rot_lipschitz_axis (1, 0, 0) (0, 1, 0) 1 0 0 1
  norm_num at this ⊢
  linarith

/-- a gate strictly inside the identity band (not the identity) -/
example : (Gate.bsr 0 ((0, 0, 1) : Vec3 ℝ) (1 / 2000) (1 / 2000)).isIdentity (1 / 1000) = true ∧
    ∀ i j, ‖rot (0, 0, 1) (1 / 2000) (1 / 2000) i j - (1 : Matrix (Fin 2) (Fin 2) ℂ) i j‖ ≤ 3 / 2 * (1 / 1000) := by
  have h : (Gate.bsr 0 ((0, 0, 1) : Vec3 ℝ) (1 / 2000) (1 / 2000)).isIdentity (1 / 1000) = true := by
    rw [isIdentity_bsr_iff]; norm_num [abs_of_pos]
  exact ⟨h, rot_identity_band _ 0 _ _ _ (by norm_num) h⟩

example : ∀ i j, ‖listOp (filterOutIdentities (1 / 1000)
      [(.bsr 0 (0, 0, 1) (1 / 2000) (1 / 2000), none), (.bsr 0 (1, 0, 0) 1 0, none)]) i j
    - listOp [(.bsr 0 (0, 0, 1) (1 / 2000) (1 / 2000), none), (.bsr 0 (1, 0, 0) 1 0, none)] i j‖
      ≤ (2 : ℕ) * (2 * (1 / 1000)) := by
  intro i j
  refine filter_identities_band_length (1 / 1000) (by norm_num) _ ?_ i j
  intro g hg q a θ φ he
  simp only [List.mem_cons, List.not_mem_nil, or_false] at hg
  rcases hg with rfl | rfl <;> (injection he with _ ha _ _; subst ha; norm_num)

/-! ### A-B-A: the error of a triple `(p, θ2, m)` -/

/-- squared quaternion distance between the product built from `t = (p, θ2, m)` and the rotation `(n, α)`,
    in the coordinates `a, b, c` of the decomposer kind (cf. `ABA.Good`: `Good ↔ errSq = 0`) -/
noncomputable def errSq (a b c α : ℝ) (t : ℝ × ℝ × ℝ) : ℝ :=
  (Real.cos (t.2.1 / 2) * Real.cos (t.1 / 2) - Real.cos (α / 2)) ^ 2
  + (Real.cos (t.2.1 / 2) * Real.sin (t.1 / 2) - a * Real.sin (α / 2)) ^ 2
  + (Real.sin (t.2.1 / 2) * Real.cos (t.2.2 / 2) - b * Real.sin (α / 2)) ^ 2
  + (Real.sin (t.2.1 / 2) * Real.sin (t.2.2 / 2) - c * Real.sin (α / 2)) ^ 2

theorem errSq_of_good {a b c α : ℝ} {t : ℝ × ℝ × ℝ} (h : ABA.Good a b c α t) : errSq a b c α t = 0 := by
  obtain ⟨g1, g2, g3, g4⟩ := h
  unfold errSq
  rw [g1, g2, g3, g4]; ring

theorem qdist2_finish (k : ABAKind) (n : ℝ × ℝ × ℝ) (α : ℝ) (t : ℝ × ℝ × ℝ) :
    qdist2 (ABA.abaProduct k (ABA.finish k t).1 (ABA.finish k t).2.1 (ABA.finish k t).2.2) (ABA.Q.ofRot n α)
      = errSq (Vec3.get n k.ia) (Vec3.get n k.ib) (Vec3.get n k.ic) α t := by
  obtain ⟨c1, c2, c3, c4⟩ := ABA.abaProduct_pm k t.1 t.2.1 t.2.2 (ABA.finish k t).1 (ABA.finish k t).2.2
    (by simp only [ABA.finish]; ring) (by simp only [ABA.finish]; ring)
  have e : (ABA.finish k t).2.1 = t.2.1 := rfl
  rw [e]
  unfold qdist2 errSq
  cases k <;>
    simp only [ABAKind.ia, ABAKind.ib, ABAKind.ic, Vec3.get, Nat.reduceSub, Nat.sub_zero] at c1 c2 c3 c4 ⊢ <;>
    simp only [ABA.Q.ofRot] <;> rw [c1, c2, c3, c4] <;> ring

/-- operator error of the emitted triple, from the quaternion error -/
theorem aba_err_le (k : ABAKind) (n : ℝ × ℝ × ℝ) (α : ℝ) (t : ℝ × ℝ × ℝ) {B : ℝ} (hB : 0 ≤ B)
    (h : errSq (Vec3.get n k.ia) (Vec3.get n k.ib) (Vec3.get n k.ic) α t ≤ B ^ 2) (i j : Fin 2) :
    ‖(rot (eAxis k.ia) (ABA.finish k t).2.2 0 * rot (eAxis k.ib) (ABA.finish k t).2.1 0
        * rot (eAxis k.ia) (ABA.finish k t).1 0) i j - rot n α 0 i j‖ ≤ B := by
  rw [← abaProduct_toMat, rot_eq_qMat0]
  exact toMat_sub_entry_le _ _ hB (by rw [qdist2_finish]; exact h) i j

/-! ### the three inner bands of `ptm` -/

/-- general branch, the inner shortcut `|sin(θ2/2)| < atol` fires (`sin(θ2/2)² = sin(α/2)²(b²+c²)`): the code
    answers `(p, 0, p)`; squared quaternion error `≤ 2·sin(α/2)²(b²+c²)`. -/
theorem errSq_general_shortcut {atol a b c α : ℝ} (hn : a ^ 2 + b ^ 2 + c ^ 2 = 1)
    (hα : -Real.pi < α) (hα' : α < Real.pi) (hnp : ¬ |α - Real.pi| < atol)
    (hfire : Real.sin (α / 2) ^ 2 * (b ^ 2 + c ^ 2) < atol ^ 2) (hat : 0 < atol) :
    errSq a b c α (ABA.ptm atol a b c α) ≤ 2 * (Real.sin (α / 2) ^ 2 * (b ^ 2 + c ^ 2)) := by
  obtain ⟨hc2, hs2⟩ := ABA.theta2_spec hn hα hα'
  obtain ⟨hpc, hps⟩ := ABA.p_spec a hα hα'
  have hρsq : √(b ^ 2 + c ^ 2) ^ 2 = b ^ 2 + c ^ 2 := Real.sq_sqrt (by positivity)
  have hfire' : |Real.sin (α / 2) * √(b ^ 2 + c ^ 2)| < atol := by
    apply abs_lt_of_sq_lt_sq _ hat.le
    rw [mul_pow, hρsq]; exact hfire
  unfold ABA.ptm
  rw [if_neg hnp]
  dsimp only
  rw [hs2, if_pos hfire']
  simp only [errSq, zero_div, Real.cos_zero, Real.sin_zero, one_mul, zero_mul, zero_sub, neg_sq]
  set p := 2 * ABA.atan2 (a * Real.sin (α / 2)) (Real.cos (α / 2))
  set s := Real.sin (α / 2)
  set k := Real.cos (α / 2)
  set R := √(k ^ 2 + (a * s) ^ 2)
  have hR0 : 0 ≤ R := Real.sqrt_nonneg _
  have hRsq : R ^ 2 = k ^ 2 + (a * s) ^ 2 := Real.sq_sqrt (by positivity)
  have hsk : s ^ 2 + k ^ 2 = 1 := Real.sin_sq_add_cos_sq (α / 2)
  have hCS : Real.sin (p / 2) ^ 2 + Real.cos (p / 2) ^ 2 = 1 := Real.sin_sq_add_cos_sq (p / 2)
  have hσ : s ^ 2 * (b ^ 2 + c ^ 2) = 1 - R ^ 2 := by rw [hRsq]; nlinarith
  have hR1 : R ≤ 1 := by
    have : R ^ 2 ≤ 1 := by nlinarith [mul_nonneg (sq_nonneg s) (by positivity : 0 ≤ b ^ 2 + c ^ 2)]
    nlinarith
  have e : (Real.cos (p / 2) - k) ^ 2 + (Real.sin (p / 2) - a * s) ^ 2 + (b * s) ^ 2 + (c * s) ^ 2
      = (1 - R) ^ 2 + s ^ 2 * (b ^ 2 + c ^ 2) := by
    rw [← hpc, ← hps]
    have : (Real.cos (p / 2) - R * Real.cos (p / 2)) ^ 2 + (Real.sin (p / 2) - R * Real.sin (p / 2)) ^ 2
        = (1 - R) ^ 2 * (Real.sin (p / 2) ^ 2 + Real.cos (p / 2) ^ 2) := by ring
    rw [this, hCS]; ring
  rw [e, hσ]
  nlinarith

/-- `α = π` branch, the test `|a| < atol` fires: the code answers `(0, π, copysign(2 acos b, c))`, the exact
    decomposition of the half turn about the non-unit vector `(0, b, c)`; squared quaternion error `≤ 2a²`. -/
theorem errSq_pi_a_band {atol a b c : ℝ} (hat : 0 < atol) (hn : a ^ 2 + b ^ 2 + c ^ 2 = 1) (hfire : |a| < atol) :
    errSq a b c Real.pi (ABA.ptm atol a b c Real.pi) ≤ 2 * a ^ 2 := by
  have hb1 : -1 ≤ b ∧ b ≤ 1 :=
    abs_le_of_sq_le_sq' (by nlinarith [sq_nonneg a, sq_nonneg c] : b ^ 2 ≤ 1 ^ 2) zero_le_one
  unfold ABA.ptm
  rw [if_pos (by simpa using hat), if_pos hfire]
  simp only [errSq, zero_div, Real.cos_zero, Real.sin_zero, Real.cos_pi_div_two, Real.sin_pi_div_two, zero_mul,
    mul_one, one_mul, mul_zero, sub_zero, ABA.cos_csgn_arccos hb1.1 hb1.2, ABA.sin_csgn_arccos, sub_self]
  have e1 : 1 - b ^ 2 = a ^ 2 + c ^ 2 := by linarith
  rw [e1]
  set r := √(a ^ 2 + c ^ 2)
  have hr0 : 0 ≤ r := Real.sqrt_nonneg _
  have hrsq : r ^ 2 = a ^ 2 + c ^ 2 := Real.sq_sqrt (by positivity)
  have hrc : |c| ≤ r := by
    apply Real.abs_le_sqrt; nlinarith [sq_nonneg a]
  have key : (r - |c|) ^ 2 ≤ a ^ 2 := by
    have h1 : r ^ 2 - 2 * r * |c| + |c| ^ 2 ≤ a ^ 2 := by
      rw [hrsq, sq_abs]
      nlinarith [mul_le_mul_of_nonneg_right hrc (abs_nonneg c), sq_abs c, abs_nonneg c]
    nlinarith
  split_ifs with hc
  · rw [abs_of_nonneg hc] at key; nlinarith
  · rw [abs_of_neg (not_le.mp hc)] at key
    have : (-r - c) ^ 2 = (r - -c) ^ 2 := by ring
    nlinarith

/-- `α = π` branch, `|a| < atol` does not fire but the inner shortcut `|sin(θ2/2)| < atol` does
    (`sin(θ2/2)² = 1 - a² = b²+c²`): the code answers `(π, 2 acos a, π)`; squared quaternion error `≤ 4(b²+c²)`. -/
theorem errSq_pi_inner_band {atol a b c : ℝ} (hat : 0 < atol) (hn : a ^ 2 + b ^ 2 + c ^ 2 = 1)
    (hna : ¬ |a| < atol) (hfire : b ^ 2 + c ^ 2 < atol ^ 2) :
    errSq a b c Real.pi (ABA.ptm atol a b c Real.pi) ≤ 4 * (b ^ 2 + c ^ 2) := by
  have ha1 : -1 ≤ a ∧ a ≤ 1 :=
    abs_le_of_sq_le_sq' (by nlinarith [sq_nonneg b, sq_nonneg c] : a ^ 2 ≤ 1 ^ 2) zero_le_one
  have e : 2 * Real.arccos a / 2 = Real.arccos a := by ring
  have e1 : 1 - a ^ 2 = b ^ 2 + c ^ 2 := by linarith
  set ρ := √(b ^ 2 + c ^ 2) with hρ
  have hρ0 : 0 ≤ ρ := Real.sqrt_nonneg _
  have hρsq : ρ ^ 2 = b ^ 2 + c ^ 2 := Real.sq_sqrt (by positivity)
  have hfire' : |Real.sin (2 * Real.arccos a / 2)| < atol := by
    rw [e, Real.sin_arccos, e1, abs_of_nonneg hρ0]
    apply lt_of_abs_lt
    apply abs_lt_of_sq_lt_sq _ hat.le
    rw [hρsq]; exact hfire
  unfold ABA.ptm
  rw [if_pos (by simpa using hat), if_neg hna, if_pos hfire']
  simp only [errSq, e, Real.cos_arccos ha1.1 ha1.2, Real.sin_arccos, e1, Real.cos_pi_div_two,
    Real.sin_pi_div_two, mul_zero, mul_one, sub_zero, sub_self, zero_sub, neg_sq]
  rw [← hρ]
  have hcρ : |c| ≤ ρ := by
    apply Real.abs_le_sqrt; nlinarith [sq_nonneg b]
  have hc := neg_abs_le c
  nlinarith [mul_le_mul_of_nonneg_left hcρ hρ0, mul_le_mul_of_nonneg_left hc hρ0]

/-- the `α ≈ π` branch does not look at `α` -/
theorem ptm_pi_band {atol a b c α : ℝ} (hat : 0 < atol) (h : |α - Real.pi| < atol) :
    ABA.ptm atol a b c α = ABA.ptm atol a b c Real.pi := by
  have hπ : |Real.pi - Real.pi| < atol := by simpa using hat
  simp only [ABA.ptm, if_pos h, if_pos hπ]

/-! ### from `abaAngles` to the operator error -/

theorem sqrt_two_le : √(2 : ℝ) ≤ 3 / 2 := Real.sqrt_le_iff.mpr ⟨by norm_num, by norm_num⟩

theorem sqrt_two_mul_sq (x : ℝ) : (√2 * x) ^ 2 = 2 * x ^ 2 := by
  rw [mul_pow, Real.sq_sqrt (by norm_num)]

/-- the operator error of the angles `abaAngles` returns, against the rotation `(n, α')`, is bounded by the
    quaternion error `errSq` of the closed form `ptm` (`α'` is `α`, or `π` in the `α ≈ π` branch) -/
theorem aba_err_of_angles {atol : ℝ} {k : ABAKind} {α : ℝ} {n : ℝ × ℝ × ℝ} {θ1 θ2 θ3 : ℝ}
    (hn : n.1 ^ 2 + n.2.1 ^ 2 + n.2.2 ^ 2 = 1) (h1 : -Real.pi + atol ≤ α) (h2 : α ≤ Real.pi + atol)
    (h : abaAngles atol k α n = .ok (θ1, θ2, θ3)) (α' : ℝ) {B : ℝ} (hB : 0 ≤ B)
    (hE : errSq (Vec3.get n k.ia) (Vec3.get n k.ib) (Vec3.get n k.ic) α'
      (ABA.ptm atol (Vec3.get n k.ia) (Vec3.get n k.ib) (Vec3.get n k.ic) α) ≤ B ^ 2) (i j : Fin 2) :
    ‖(rot (eAxis k.ia) θ3 0 * rot (eAxis k.ib) θ2 0 * rot (eAxis k.ia) θ1 0) i j - rot n α' 0 i j‖ ≤ B := by
  rw [ABA.abaAngles_unit atol k α n hn h1 h2] at h
  injection h with h
  have hθ1 : θ1 = (ABA.finish k (ABA.ptm atol (Vec3.get n k.ia) (Vec3.get n k.ib) (Vec3.get n k.ic) α)).1 := by
    rw [h]
  have hθ2 : θ2 = (ABA.finish k (ABA.ptm atol (Vec3.get n k.ia) (Vec3.get n k.ib) (Vec3.get n k.ic) α)).2.1 := by
    rw [h]
  have hθ3 : θ3 = (ABA.finish k (ABA.ptm atol (Vec3.get n k.ia) (Vec3.get n k.ib) (Vec3.get n k.ic) α)).2.2 := by
    rw [h]
  rw [hθ1, hθ2, hθ3]
  exact aba_err_le k n α' _ hB hE i j

/-- moving the target from `rot n π 0` to `rot n α 0` costs `|α - π| / 2` -/
theorem pi_triangle (n : ℝ × ℝ × ℝ) (hn : n.1 ^ 2 + n.2.1 ^ 2 + n.2.2 ^ 2 = 1) (α : ℝ)
    (X : Matrix (Fin 2) (Fin 2) ℂ) {B : ℝ} (i j : Fin 2) (hX : ‖X i j - rot n Real.pi 0 i j‖ ≤ B) :
    ‖X i j - rot n α 0 i j‖ ≤ B + |α - Real.pi| / 2 := by
  have hl := rot_lipschitz_angle n hn Real.pi α 0 i j
  rw [abs_sub_comm] at hl
  calc ‖X i j - rot n α 0 i j‖
      = ‖(X i j - rot n Real.pi 0 i j) + (rot n Real.pi 0 i j - rot n α 0 i j)‖ := by ring_nf
    _ ≤ ‖X i j - rot n Real.pi 0 i j‖ + ‖rot n Real.pi 0 i j - rot n α 0 i j‖ := norm_add_le _ _
    _ ≤ B + |α - Real.pi| / 2 := add_le_add hX hl

/-! ### 5. the band `|α - π| < atol` -/

/-- **aba_pi_band**: the test `|α - π| < atol` fires (with `α ≠ π` allowed); the two other tests of that branch
    are crisp.  The code computes the angles for `α = π`, whose product is `rot n π 0` exactly (`aba_pi_sign`), so
    the operator error is `≤ |α - π|/2 < atol/2`, entrywise. -/
theorem aba_pi_band (atol : ℝ) (k : ABAKind) (α : ℝ) (n : ℝ × ℝ × ℝ) (θ1 θ2 θ3 : ℝ)
    (hat : 0 < atol) (hn : n.1 ^ 2 + n.2.1 ^ 2 + n.2.2 ^ 2 = 1)
    (h1 : -Real.pi + atol ≤ α) (h2 : α ≤ Real.pi + atol) (hπ : |α - Real.pi| < atol)
    (hca : |Vec3.get n k.ia| < atol → Vec3.get n k.ia = 0)
    (hcr : ¬ |Vec3.get n k.ia| < atol →
           (Vec3.get n k.ib) ^ 2 + (Vec3.get n k.ic) ^ 2 < atol ^ 2 →
           (Vec3.get n k.ib) ^ 2 + (Vec3.get n k.ic) ^ 2 = 0)
    (h : abaAngles atol k α n = .ok (θ1, θ2, θ3)) (i j : Fin 2) :
    ‖(rot (eAxis k.ia) θ3 0 * rot (eAxis k.ib) θ2 0 * rot (eAxis k.ia) θ1 0) i j - rot n α 0 i j‖
      ≤ |α - Real.pi| / 2 ∧
    |α - Real.pi| / 2 < atol / 2 := by
  refine ⟨?_, by linarith⟩
  have hg := ABA.ptm_pi hat (ABA.unit_abc k hn) hca hcr
  have h0 := aba_err_of_angles hn h1 h2 h Real.pi le_rfl
    (by rw [ptm_pi_band hat hπ, errSq_of_good hg]; norm_num) i j
  have := pi_triangle n hn α _ i j h0
  linarith

/-! ### 4. general branch, the inner shortcut inside its band -/

/-- **aba_inner_band**: general branch (`¬ |α - π| < atol`), the inner shortcut `|sin(θ2/2)| < atol` fires
    (phrased on the inputs by `theta2_spec`: `sin(θ2/2)² = sin(α/2)²(b²+c²)`), not necessarily with
    `sin(θ2/2) = 0`.  The code returns `(θ1, θ2, θ3)` with `θ2 = 0`, `θ1 + θ3 = p`; the operator error is
    `≤ √2·atol (≤ 2·atol)`, entrywise. -/
theorem aba_inner_band (atol : ℝ) (k : ABAKind) (α : ℝ) (n : ℝ × ℝ × ℝ) (θ1 θ2 θ3 : ℝ)
    (hat : 0 < atol) (hn : n.1 ^ 2 + n.2.1 ^ 2 + n.2.2 ^ 2 = 1)
    (h1 : -Real.pi + atol ≤ α) (h2 : α < Real.pi + atol) (hnp : ¬ |α - Real.pi| < atol)
    (hfire : Real.sin (α / 2) ^ 2 * ((Vec3.get n k.ib) ^ 2 + (Vec3.get n k.ic) ^ 2) < atol ^ 2)
    (h : abaAngles atol k α n = .ok (θ1, θ2, θ3)) (i j : Fin 2) :
    ‖(rot (eAxis k.ia) θ3 0 * rot (eAxis k.ib) θ2 0 * rot (eAxis k.ia) θ1 0) i j - rot n α 0 i j‖
      ≤ √2 * atol := by
  have hα' : α < Real.pi := by
    by_contra hc
    apply hnp
    rw [abs_of_nonneg (by linarith)]; linarith
  refine aba_err_of_angles hn h1 h2.le h α (by positivity) ?_ i j
  have := errSq_general_shortcut (ABA.unit_abc k hn) (by linarith) hα' hnp hfire hat
  rw [sqrt_two_mul_sq]
  linarith

/-- the shape of the answer in that band: `(p, θ2, m) = (p, 0, p)` with `p = 2·atan2(a sin(α/2), cos(α/2))` -/
theorem ptm_general_shortcut {atol a b c α : ℝ} (hn : a ^ 2 + b ^ 2 + c ^ 2 = 1)
    (hα : -Real.pi < α) (hα' : α < Real.pi) (hnp : ¬ |α - Real.pi| < atol)
    (hfire : Real.sin (α / 2) ^ 2 * (b ^ 2 + c ^ 2) < atol ^ 2) (hat : 0 < atol) :
    ABA.ptm atol a b c α = (2 * ABA.atan2 (a * Real.sin (α / 2)) (Real.cos (α / 2)), 0,
      2 * ABA.atan2 (a * Real.sin (α / 2)) (Real.cos (α / 2))) := by
  obtain ⟨-, hs2⟩ := ABA.theta2_spec hn hα hα'
  have hρsq : √(b ^ 2 + c ^ 2) ^ 2 = b ^ 2 + c ^ 2 := Real.sq_sqrt (by positivity)
  have hfire' : |Real.sin (α / 2) * √(b ^ 2 + c ^ 2)| < atol := by
    apply abs_lt_of_sq_lt_sq _ hat.le
    rw [mul_pow, hρsq]; exact hfire
  unfold ABA.ptm
  rw [if_neg hnp]
  dsimp only
  rw [hs2, if_pos hfire']

/-- item 4 in the form of the task statement: in that band the code returns `θ2 = 0` and `θ1 + θ3 = p`, i.e. the
    single rotation `R_a(p)`, `p = 2·atan2(a sin(α/2), cos(α/2))`, and `‖R_a(p) − R_n(α)‖ ≤ √2·atol` entrywise. -/
theorem aba_inner_band_p (atol : ℝ) (k : ABAKind) (α : ℝ) (n : ℝ × ℝ × ℝ) (θ1 θ2 θ3 : ℝ)
    (hat : 0 < atol) (hn : n.1 ^ 2 + n.2.1 ^ 2 + n.2.2 ^ 2 = 1)
    (h1 : -Real.pi + atol ≤ α) (h2 : α < Real.pi + atol) (hnp : ¬ |α - Real.pi| < atol)
    (hfire : Real.sin (α / 2) ^ 2 * ((Vec3.get n k.ib) ^ 2 + (Vec3.get n k.ic) ^ 2) < atol ^ 2)
    (h : abaAngles atol k α n = .ok (θ1, θ2, θ3)) :
    θ2 = 0 ∧ θ1 + θ3 = 2 * ABA.atan2 (Vec3.get n k.ia * Real.sin (α / 2)) (Real.cos (α / 2)) ∧
    ∀ i j : Fin 2, ‖rot (eAxis k.ia) (2 * ABA.atan2 (Vec3.get n k.ia * Real.sin (α / 2)) (Real.cos (α / 2))) 0 i j
      - rot n α 0 i j‖ ≤ √2 * atol := by
  have hα' : α < Real.pi := by
    by_contra hc
    apply hnp
    rw [abs_of_nonneg (by linarith)]; linarith
  have hb := aba_inner_band atol k α n θ1 θ2 θ3 hat hn h1 h2 hnp hfire h
  rw [ABA.abaAngles_unit atol k α n hn h1 h2.le,
    ptm_general_shortcut (ABA.unit_abc k hn) (by linarith) hα' hnp hfire hat] at h
  injection h with h
  simp only [ABA.finish, Prod.mk.injEq] at h
  obtain ⟨e1, e2, e3⟩ := h
  have h20 : θ2 = 0 := e2.symm
  have hsum : θ1 + θ3 = 2 * ABA.atan2 (Vec3.get n k.ia * Real.sin (α / 2)) (Real.cos (α / 2)) := by
    rw [← e1, ← e3]; ring
  refine ⟨h20, hsum, fun i j => ?_⟩
  have := hb i j
  rwa [h20, rot_zero, Matrix.mul_one, rot_axis_add, add_comm, hsum] at this

/-! ### 6. the two inner bands of the `α ≈ π` branch -/

/-- **aba_a_band**: `|α - π| < atol` and `|a| < atol` fire (`a ≠ 0`, `α ≠ π` allowed).  The code emits the exact
    decomposition of the half turn about the non-unit vector `(0, b, c)`; its distance to `rot n π 0` is `≤ √2·|a|`
    and the distance to the requested `rot n α 0` is `≤ √2·|a| + |α - π|/2 < (√2 + 1/2)·atol < 2·atol`. -/
theorem aba_a_band (atol : ℝ) (k : ABAKind) (α : ℝ) (n : ℝ × ℝ × ℝ) (θ1 θ2 θ3 : ℝ)
    (hat : 0 < atol) (hn : n.1 ^ 2 + n.2.1 ^ 2 + n.2.2 ^ 2 = 1)
    (h1 : -Real.pi + atol ≤ α) (h2 : α ≤ Real.pi + atol) (hπ : |α - Real.pi| < atol)
    (hfire : |Vec3.get n k.ia| < atol)
    (h : abaAngles atol k α n = .ok (θ1, θ2, θ3)) (i j : Fin 2) :
    ‖(rot (eAxis k.ia) θ3 0 * rot (eAxis k.ib) θ2 0 * rot (eAxis k.ia) θ1 0) i j - rot n Real.pi 0 i j‖
      ≤ √2 * |Vec3.get n k.ia| ∧
    ‖(rot (eAxis k.ia) θ3 0 * rot (eAxis k.ib) θ2 0 * rot (eAxis k.ia) θ1 0) i j - rot n α 0 i j‖
      ≤ √2 * |Vec3.get n k.ia| + |α - Real.pi| / 2 ∧
    √2 * |Vec3.get n k.ia| + |α - Real.pi| / 2 < (√2 + 1 / 2) * atol ∧ (√2 + 1 / 2) * atol ≤ 2 * atol := by
  have h0 := aba_err_of_angles hn h1 h2 h Real.pi (B := √2 * |Vec3.get n k.ia|) (by positivity)
    (by rw [ptm_pi_band hat hπ, sqrt_two_mul_sq, sq_abs]
        exact errSq_pi_a_band hat (ABA.unit_abc k hn) hfire) i j
  refine ⟨h0, pi_triangle n hn α _ i j h0, ?_, ?_⟩
  · have hs : (0 : ℝ) < √2 := by positivity
    nlinarith [mul_lt_mul_of_pos_left hfire hs]
  · nlinarith [sqrt_two_le]

/-- **aba_pi_inner_band**: `|α - π| < atol` fires, `|a| < atol` does not, and the inner shortcut
    `|sin(θ2/2)| < atol` (`sin(θ2/2)² = 1 - a² = b² + c²`) fires with `b² + c² ≠ 0` allowed.  The code answers
    `(p, θ2, m) = (π, 2 acos a, π)`, ignoring the direction of `(b, c)`; the distance to `rot n π 0` is
    `≤ 2√(b²+c²) < 2·atol`, to the requested `rot n α 0` it is `< (5/2)·atol`. -/
theorem aba_pi_inner_band (atol : ℝ) (k : ABAKind) (α : ℝ) (n : ℝ × ℝ × ℝ) (θ1 θ2 θ3 : ℝ)
    (hat : 0 < atol) (hn : n.1 ^ 2 + n.2.1 ^ 2 + n.2.2 ^ 2 = 1)
    (h1 : -Real.pi + atol ≤ α) (h2 : α ≤ Real.pi + atol) (hπ : |α - Real.pi| < atol)
    (hna : ¬ |Vec3.get n k.ia| < atol)
    (hfire : (Vec3.get n k.ib) ^ 2 + (Vec3.get n k.ic) ^ 2 < atol ^ 2)
    (h : abaAngles atol k α n = .ok (θ1, θ2, θ3)) (i j : Fin 2) :
    ‖(rot (eAxis k.ia) θ3 0 * rot (eAxis k.ib) θ2 0 * rot (eAxis k.ia) θ1 0) i j - rot n Real.pi 0 i j‖
      ≤ 2 * √((Vec3.get n k.ib) ^ 2 + (Vec3.get n k.ic) ^ 2) ∧
    ‖(rot (eAxis k.ia) θ3 0 * rot (eAxis k.ib) θ2 0 * rot (eAxis k.ia) θ1 0) i j - rot n α 0 i j‖
      ≤ 2 * √((Vec3.get n k.ib) ^ 2 + (Vec3.get n k.ic) ^ 2) + |α - Real.pi| / 2 ∧
    2 * √((Vec3.get n k.ib) ^ 2 + (Vec3.get n k.ic) ^ 2) + |α - Real.pi| / 2 < 5 / 2 * atol := by
  have hρsq : √((Vec3.get n k.ib) ^ 2 + (Vec3.get n k.ic) ^ 2) ^ 2
      = (Vec3.get n k.ib) ^ 2 + (Vec3.get n k.ic) ^ 2 := Real.sq_sqrt (by positivity)
  have h0 := aba_err_of_angles hn h1 h2 h Real.pi
    (B := 2 * √((Vec3.get n k.ib) ^ 2 + (Vec3.get n k.ic) ^ 2)) (by positivity)
    (by rw [ptm_pi_band hat hπ, mul_pow, hρsq]
        have := errSq_pi_inner_band hat (ABA.unit_abc k hn) hna hfire
        linarith) i j
  refine ⟨h0, pi_triangle n hn α _ i j h0, ?_⟩
  have hρ : √((Vec3.get n k.ib) ^ 2 + (Vec3.get n k.ic) ^ 2) < atol := by
    rw [← Real.sqrt_sq hat.le]
    exact Real.sqrt_lt_sqrt (by positivity) hfire
  linarith

/-! ### 7. all inputs -/

/-- **aba_all_inputs**: for every kind, every unit axis and every angle in `[-π+atol, π+atol)` — *no* crisp
    hypothesis — the angles returned by `abaAngles` compose to the requested rotation up to `(5/2)·atol`, entrywise.
    Worst case by branch: all tests honest `0`; general branch with the inner shortcut in its band `√2·atol`;
    `α ≈ π` band alone `atol/2`; with the `a ≈ 0` band `(√2 + 1/2)·atol`; with the inner shortcut band `(5/2)·atol`. -/
theorem aba_all_inputs (atol : ℝ) (k : ABAKind) (α : ℝ) (n : ℝ × ℝ × ℝ) (θ1 θ2 θ3 : ℝ)
    (hat : 0 < atol) (hn : n.1 ^ 2 + n.2.1 ^ 2 + n.2.2 ^ 2 = 1)
    (h1 : -Real.pi + atol ≤ α) (h2 : α < Real.pi + atol)
    (h : abaAngles atol k α n = .ok (θ1, θ2, θ3)) (i j : Fin 2) :
    ‖(rot (eAxis k.ia) θ3 0 * rot (eAxis k.ib) θ2 0 * rot (eAxis k.ia) θ1 0) i j - rot n α 0 i j‖
      ≤ 5 / 2 * atol := by
  by_cases hπ : |α - Real.pi| < atol
  · by_cases ha : |Vec3.get n k.ia| < atol
    · obtain ⟨-, h3, h4, h5⟩ := aba_a_band atol k α n θ1 θ2 θ3 hat hn h1 h2.le hπ ha h i j
      linarith
    · by_cases hs : (Vec3.get n k.ib) ^ 2 + (Vec3.get n k.ic) ^ 2 < atol ^ 2
      · obtain ⟨-, h3, h4⟩ := aba_pi_inner_band atol k α n θ1 θ2 θ3 hat hn h1 h2.le hπ ha hs h i j
        linarith
      · obtain ⟨h3, h4⟩ := aba_pi_band atol k α n θ1 θ2 θ3 hat hn h1 h2.le hπ (fun hh => absurd hh ha)
          (fun _ hh => absurd hh hs) h i j
        linarith
  · by_cases hs : Real.sin (α / 2) ^ 2 * ((Vec3.get n k.ib) ^ 2 + (Vec3.get n k.ic) ^ 2) < atol ^ 2
    · have := aba_inner_band atol k α n θ1 θ2 θ3 hat hn h1 h2 hπ hs h i j
      nlinarith [sqrt_two_le]
    · have := aba_rot atol k α n hat hn h1 h2 (fun hh => absurd hh hπ) (fun hh => absurd hh hπ)
        (fun _ hh => absurd hh hs) h
      rw [this, sub_self, norm_zero]
      positivity

/-! ### 3. `composeRot`, identity branch inside its band -/

theorem qMat_one : qMat 1 0 0 0 = 1 := ABA.Q.toMat_one'

theorem qMat_neg_one : qMat (-1) 0 0 0 = -1 := by
  rw [qMat_eq]
  ext i j
  fin_cases i <;> fin_cases j <;> simp

/-- **compose_identity_dist**: for unit axes the true product `U_a · U_b` is within `√2·|sin(Θ/2)|` (entrywise) of
    `e^{i(φa+φb)} · (±1)`, where `Θ = 2 acos w` is the combined angle the code computes (the vector part of the
    quaternion product has norm `|sin(Θ/2)|`, the scalar part is `±√(1 - sin²(Θ/2))`). -/
theorem compose_identity_dist (a b : Rot ℝ) (ha : UnitVec a.axis) (hb : UnitVec b.axis) :
    ∃ ε : ℂ, (ε = 1 ∨ ε = -1) ∧ ∀ i j : Fin 2,
      ‖(rot a.axis a.angle a.phase * rot b.axis b.angle b.phase) i j
        - (Complex.exp (I * ((a.phase + b.phase : ℝ) : ℂ)) • (ε • (1 : Matrix (Fin 2) (Fin 2) ℂ))) i j‖
        ≤ √2 * |Real.sin (cTheta a b / 2)| := by
  have hsq := cW_sq_add a b ha hb
  have hs2 := sin_half_cTheta_sq a b ha hb
  obtain ⟨hw1, hw2⟩ := abs_le.mp (abs_cW_le_one a b ha hb)
  have hprod : rot a.axis a.angle a.phase * rot b.axis b.angle b.phase
      = Complex.exp (I * ((a.phase + b.phase : ℝ) : ℂ))
        • (⟨cW a b, (cV a b).1, (cV a b).2.1, (cV a b).2.2⟩ : ABA.Q).toMat := by
    rw [rot_mul_rot]
    have : quat a.axis a.angle * quat b.axis b.angle = a.quat * b.quat := rfl
    rw [this, ← wv_eq_mul]
    rfl
  by_cases hw : 0 ≤ cW a b
  · refine ⟨1, Or.inl rfl, fun i j => ?_⟩
    have e1 : ((1 : ℂ) • (1 : Matrix (Fin 2) (Fin 2) ℂ)) = (⟨1, 0, 0, 0⟩ : ABA.Q).toMat := by
      rw [one_smul]; exact ABA.Q.toMat_one'.symm
    rw [hprod, e1]
    apply smul_toMat_sub_entry_le _ (norm_exp_I_mul _) _ _ (by positivity)
    rw [sqrt_two_mul_sq, sq_abs, hs2]
    simp only [qdist2]
    nlinarith
  · refine ⟨-1, Or.inr rfl, fun i j => ?_⟩
    have e1 : ((-1 : ℂ) • (1 : Matrix (Fin 2) (Fin 2) ℂ)) = (⟨-1, 0, 0, 0⟩ : ABA.Q).toMat := by
      rw [neg_smul, one_smul]; exact qMat_neg_one.symm
    rw [hprod, e1]
    apply smul_toMat_sub_entry_le _ (norm_exp_I_mul _) _ _ (by positivity)
    rw [sqrt_two_mul_sq, sq_abs, hs2]
    simp only [qdist2]
    have hw' : cW a b < 0 := not_le.mp hw
    nlinarith

/-- **composeRot_identity_band**: if the identity branch of `composeRot` fires (`|sin(Θ/2)| < atol`, not
    necessarily `sin(Θ/2) = 0`), the returned identity rotation differs from the true product `U_a · U_b`
    by at most `√2·atol (≤ 2·atol)` entrywise, up to the dropped global phase `z = ± e^{i(φa+φb)}`. -/
theorem composeRot_identity_band (atol : ℝ) (a b r : Rot ℝ) (ha : UnitVec a.axis) (hb : UnitVec b.axis)
    (h : composeRot atol a b = .ok r) (hfire : |Real.sin (cTheta a b / 2)| < atol) :
    r = identityRot a.q ∧ ∃ z : ℂ, ‖z‖ = 1 ∧ ∀ i j : Fin 2,
      ‖(rot a.axis a.angle a.phase * rot b.axis b.angle b.phase) i j
        - (z • rot r.axis r.angle r.phase) i j‖ ≤ √2 * atol := by
  have hq := (compose_ok_same_qubit atol a b r h).1
  rw [composeRot_real atol a b ha hb hq, if_pos hfire] at h
  injection h with h
  subst h
  refine ⟨rfl, ?_⟩
  obtain ⟨ε, hε, hd⟩ := compose_identity_dist a b ha hb
  have hr1 : rot (identityRot a.q : Rot ℝ).axis (identityRot a.q : Rot ℝ).angle (identityRot a.q : Rot ℝ).phase
      = 1 := by simp [identityRot, rot_zero]
  refine ⟨Complex.exp (I * ((a.phase + b.phase : ℝ) : ℂ)) * ε, ?_, fun i j => ?_⟩
  · rw [norm_mul, norm_exp_I_mul, one_mul]
    rcases hε with rfl | rfl <;> simp
  · rw [hr1, ← smul_smul]
    refine (hd i j).trans ?_
    exact mul_le_mul_of_nonneg_left hfire.le (by positivity)

/-! ### 7b. the whole decomposer, identity filter included -/

theorem unitAxes_rotStmt (atol : ℝ) (h0 : 0 ≤ atol) (h1 : atol < Real.pi) (na nb : String) (q : Int) (ia ib : Nat)
    (t1 t2 t3 : ℝ) :
    UnitAxes [rotStmt atol na q (eAxis ia) t1, rotStmt atol nb q (eAxis ib) t2, rotStmt atol na q (eAxis ia) t3] := by
  intro g hg q' a θ φ he
  simp only [List.mem_cons, List.not_mem_nil, or_false] at hg
  rcases hg with rfl | rfl | rfl <;>
  · rw [rotStmt_real atol h0 h1] at he
    injection he with _ ha _ _
    rw [← ha]; exact eAxis_unit _

/-- **abaDecompose_all_inputs**: for *every* rotation `R_n(α, φ)` with a unit axis and `α ∈ [-π+atol, π+atol)` and
    every A-B-A kind — no crisp hypothesis at all, neither on the three tests of `abaAngles` nor on the identity
    filter — a successful run of the decomposer returns a list whose operator is within `(17/2)·atol`
    (`= 5/2` for the angles `+ 3·2` for up to three dropped gates), entrywise, of `z • R_n(α, φ)` for one unit
    scalar `z` (`z = ± e^{-iφ}`). -/
theorem abaDecompose_all_inputs (atol : ℝ) (k : ABAKind) (q : Int) (n : Vec3 ℝ) (α φ : ℝ) (nm : Option (Named ℝ))
    (out : List (GStmt ℝ))
    (hat : 0 < atol) (hat' : atol < Real.pi) (hn : n.1 ^ 2 + n.2.1 ^ 2 + n.2.2 ^ 2 = 1)
    (h1 : -Real.pi + atol ≤ α) (h2 : α < Real.pi + atol)
    (h : abaDecompose atol k (.bsr q n α φ, nm) = .ok out) :
    ∃ z : ℂ, ‖z‖ = 1 ∧ ∀ i j : Fin 2, ‖listOp out i j - (z • rot n α φ) i j‖ ≤ 17 / 2 * atol := by
  obtain ⟨t1, t2, t3, axA, axB, hang, hA, hB, rfl⟩ := aba_form h
  obtain rfl := mkAxis_axisLit_inj hA
  obtain rfl := mkAxis_axisLit_inj hB
  obtain ⟨kk, hk⟩ := listOp_aba_triple atol hat.le hat' q k.ia k.ib (rotName k.ia) (rotName k.ib) t1 t2 t3
  refine ⟨(-1 : ℂ) ^ kk * Complex.exp (-(I * φ)), ?_, fun i j => ?_⟩
  · rw [norm_mul, norm_neg_one_zpow, norm_exp_neg_I_mul, one_mul]
  · have hf := filter_identities_band_length atol hat.le _
      (unitAxes_rotStmt atol hat.le hat' (rotName k.ia) (rotName k.ib) q k.ia k.ib t1 t2 t3) i j
    have hP := aba_all_inputs atol k α n t1 t2 t3 hat hn h1 h2 hang i j
    have ez : ((-1 : ℂ) ^ kk * Complex.exp (-(I * φ))) • rot n α φ = ((-1 : ℂ) ^ kk) • rot n α 0 := by
      rw [rot_phase_smul n α φ, smul_smul, mul_assoc, ← Complex.exp_add]; simp
    rw [ez]
    rw [hk] at hf
    have hs : ‖(((-1 : ℂ) ^ kk) • (rot (eAxis k.ia) t3 0 * rot (eAxis k.ib) t2 0 * rot (eAxis k.ia) t1 0)) i j
        - (((-1 : ℂ) ^ kk) • rot n α 0) i j‖ ≤ 5 / 2 * atol := by
      rw [Matrix.smul_apply, Matrix.smul_apply, smul_eq_mul, smul_eq_mul, ← mul_sub, norm_mul,
        norm_neg_one_zpow, one_mul]
      exact hP
    have hlen : (([rotStmt atol (rotName k.ia) q (eAxis k.ia) t1, rotStmt atol (rotName k.ib) q (eAxis k.ib) t2,
        rotStmt atol (rotName k.ia) q (eAxis k.ia) t3] : List (GStmt ℝ)).length : ℝ) = 3 := by simp
    rw [hlen] at hf
    set X := listOp (filterOutIdentities atol [rotStmt atol (rotName k.ia) q (eAxis k.ia) t1,
      rotStmt atol (rotName k.ib) q (eAxis k.ib) t2, rotStmt atol (rotName k.ia) q (eAxis k.ia) t3]) i j
    set Y := (((-1 : ℂ) ^ kk) • (rot (eAxis k.ia) t3 0 * rot (eAxis k.ib) t2 0 * rot (eAxis k.ia) t1 0)) i j
    set Z := (((-1 : ℂ) ^ kk) • rot n α 0) i j
    calc ‖X - Z‖ = ‖(X - Y) + (Y - Z)‖ := by ring_nf
      _ ≤ ‖X - Y‖ + ‖Y - Z‖ := norm_add_le _ _
      _ ≤ 17 / 2 * atol := by linarith

/-! ### sharpness: the inner bands of the `α ≈ π` branch alone exceed `atol` (explains finding C01-band-compound) -/

theorem toMat_sub_entry01 (p q : ABA.Q) :
    p.toMat 0 1 - q.toMat 0 1 = -(I * ((p.x - q.x : ℝ) : ℂ)) - ((p.y - q.y : ℝ) : ℂ) := by
  unfold ABA.Q.toMat
  rw [qMat_eq, qMat_eq]
  simp
  ring

theorem toMat_sub_entry00 (p q : ABA.Q) :
    p.toMat 0 0 - q.toMat 0 0 = ((p.w - q.w : ℝ) : ℂ) - I * ((p.z - q.z : ℝ) : ℂ) := by
  unfold ABA.Q.toMat
  rw [qMat_eq, qMat_eq]
  simp
  ring

/-- **aba_a_band_sharp**: X-Z-X of the half turn about `(a, 0, b)` with `0 < |a| < atol` (the `a ≈ 0` test fires
    dishonestly, everything else exact, `α = π`): the `(0,1)` entry of the emitted product differs from that of the
    requested operator by exactly `√2·|a|` — more than `atol` as soon as `|a| > atol/√2`. -/
theorem aba_a_band_sharp (atol a b : ℝ) (hat : 0 < atol) (hn : a ^ 2 + b ^ 2 = 1) (hfire : |a| < atol)
    (θ1 θ2 θ3 : ℝ) (h : abaAngles atol .XZX Real.pi (a, 0, b) = .ok (θ1, θ2, θ3)) :
    ‖(rot (eAxis 0) θ3 0 * rot (eAxis 2) θ2 0 * rot (eAxis 0) θ1 0) 0 1 - rot (a, 0, b) Real.pi 0 0 1‖
      = √2 * |a| := by
  have hn3 : (a, (0 : ℝ), b).1 ^ 2 + (a, (0 : ℝ), b).2.1 ^ 2 + (a, (0 : ℝ), b).2.2 ^ 2 = 1 := by
    simp only; linarith
  obtain ⟨r1, r2⟩ := ABA.abaAngles_range h
  rw [ABA.abaAngles_unit atol .XZX Real.pi _ hn3 r1 r2] at h
  injection h with h
  have ht : ABA.ptm atol (Vec3.get (a, (0 : ℝ), b) ABAKind.XZX.ia) (Vec3.get (a, (0 : ℝ), b) ABAKind.XZX.ib)
      (Vec3.get (a, (0 : ℝ), b) ABAKind.XZX.ic) Real.pi = (0, Real.pi, ABA.csgn (2 * Real.arccos b) 0) := by
    simp only [ABAKind.ia, ABAKind.ib, ABAKind.ic, Vec3.get]
    unfold ABA.ptm
    rw [if_pos (by simpa using hat), if_pos hfire]
  rw [ht] at h
  set t : ℝ × ℝ × ℝ := (0, Real.pi, ABA.csgn (2 * Real.arccos b) 0) with htdef
  have hθ1 : θ1 = (ABA.finish .XZX t).1 := by rw [h]
  have hθ2 : θ2 = (ABA.finish .XZX t).2.1 := by rw [h]
  have hθ3 : θ3 = (ABA.finish .XZX t).2.2 := by rw [h]
  obtain ⟨c1, c2, c3, c4⟩ := ABA.abaProduct_pm .XZX t.1 t.2.1 t.2.2 (ABA.finish .XZX t).1 (ABA.finish .XZX t).2.2
    (by simp only [ABA.finish]; ring) (by simp only [ABA.finish]; ring)
  simp only [ABAKind.ia, ABAKind.ib, ABAKind.ic, Vec3.get, Nat.reduceSub, Nat.sub_zero] at c2 c4
  have e2 : (ABA.finish .XZX t).2.1 = t.2.1 := rfl
  have hx : (ABA.abaProduct .XZX (ABA.finish .XZX t).1 t.2.1 (ABA.finish .XZX t).2.2).x = 0 := by
    rw [c2]; simp [htdef]
  have hy : (ABA.abaProduct .XZX (ABA.finish .XZX t).1 t.2.1 (ABA.finish .XZX t).2.2).y = |a| := by
    rw [c4]
    have : 1 - b ^ 2 = a ^ 2 := by linarith
    simp [htdef, ABA.sin_csgn_arccos, this, Real.sqrt_sq_eq_abs]
  have hprod := abaProduct_toMat .XZX θ1 θ2 θ3
  simp only [ABAKind.ia, ABAKind.ib] at hprod
  rw [← hprod, rot_eq_qMat0, hθ1, hθ2, hθ3, e2, toMat_sub_entry01, hx, hy]
  simp only [ABA.Q.ofRot, Real.sin_pi_div_two, one_mul, mul_zero, sub_zero, zero_sub]
  have : -(I * ((-a : ℝ) : ℂ)) - ((|a| : ℝ) : ℂ) = (⟨-|a|, a⟩ : ℂ) := by
    apply Complex.ext <;> simp
  rw [this, ABA.norm_mk, neg_sq, sq_abs, ← two_mul, Real.sqrt_mul (by norm_num), Real.sqrt_sq_eq_abs]

/-- **aba_pi_inner_band_sharp**: X-Y-X of the half turn about `(a, 0, -ρ)` with `0 ≤ ρ < atol ≤ |a|` (the inner
    shortcut of the `α = π` branch fires dishonestly, everything else exact): the `(0,0)` entry of the emitted
    product differs from that of the requested operator by exactly `2ρ` — up to (just under) `2·atol`. -/
theorem aba_pi_inner_band_sharp (atol a ρ : ℝ) (hat : 0 < atol) (hn : a ^ 2 + ρ ^ 2 = 1) (hρ : 0 ≤ ρ)
    (hna : ¬ |a| < atol) (hfire : ρ < atol)
    (θ1 θ2 θ3 : ℝ) (h : abaAngles atol .XYX Real.pi (a, 0, -ρ) = .ok (θ1, θ2, θ3)) :
    ‖(rot (eAxis 0) θ3 0 * rot (eAxis 1) θ2 0 * rot (eAxis 0) θ1 0) 0 0 - rot (a, 0, -ρ) Real.pi 0 0 0‖
      = 2 * ρ := by
  have hn3 : (a, (0 : ℝ), -ρ).1 ^ 2 + (a, (0 : ℝ), -ρ).2.1 ^ 2 + (a, (0 : ℝ), -ρ).2.2 ^ 2 = 1 := by
    simp only; linarith
  have ha1 : -1 ≤ a ∧ a ≤ 1 :=
    abs_le_of_sq_le_sq' (by nlinarith [sq_nonneg ρ] : a ^ 2 ≤ 1 ^ 2) zero_le_one
  have e : 2 * Real.arccos a / 2 = Real.arccos a := by ring
  have e1 : 1 - a ^ 2 = ρ ^ 2 := by linarith
  obtain ⟨r1, r2⟩ := ABA.abaAngles_range h
  rw [ABA.abaAngles_unit atol .XYX Real.pi _ hn3 r1 r2] at h
  injection h with h
  have ht : ABA.ptm atol (Vec3.get (a, (0 : ℝ), -ρ) ABAKind.XYX.ia) (Vec3.get (a, (0 : ℝ), -ρ) ABAKind.XYX.ib)
      (Vec3.get (a, (0 : ℝ), -ρ) ABAKind.XYX.ic) Real.pi = (Real.pi, 2 * Real.arccos a, Real.pi) := by
    simp only [ABAKind.ia, ABAKind.ib, ABAKind.ic, Vec3.get]
    unfold ABA.ptm
    rw [if_pos (by simpa using hat), if_neg hna, if_pos]
    rw [e, Real.sin_arccos, e1, Real.sqrt_sq hρ, abs_of_nonneg hρ]; exact hfire
  rw [ht] at h
  set t : ℝ × ℝ × ℝ := (Real.pi, 2 * Real.arccos a, Real.pi) with htdef
  have hθ1 : θ1 = (ABA.finish .XYX t).1 := by rw [h]
  have hθ2 : θ2 = (ABA.finish .XYX t).2.1 := by rw [h]
  have hθ3 : θ3 = (ABA.finish .XYX t).2.2 := by rw [h]
  obtain ⟨c1, c2, c3, c4⟩ := ABA.abaProduct_pm .XYX t.1 t.2.1 t.2.2 (ABA.finish .XYX t).1 (ABA.finish .XYX t).2.2
    (by simp only [ABA.finish]; ring) (by simp only [ABA.finish]; ring)
  simp only [ABAKind.ia, ABAKind.ib, ABAKind.ic, Vec3.get, Nat.reduceSub, Nat.sub_zero] at c1 c4
  have e2 : (ABA.finish .XYX t).2.1 = t.2.1 := rfl
  have hw : (ABA.abaProduct .XYX (ABA.finish .XYX t).1 t.2.1 (ABA.finish .XYX t).2.2).w = 0 := by
    rw [c1]; simp [htdef]
  have hz : (ABA.abaProduct .XYX (ABA.finish .XYX t).1 t.2.1 (ABA.finish .XYX t).2.2).z = ρ := by
    rw [c4]
    simp [htdef, e, Real.sin_arccos, e1, Real.sqrt_sq hρ]
  have hprod := abaProduct_toMat .XYX θ1 θ2 θ3
  simp only [ABAKind.ia, ABAKind.ib] at hprod
  rw [← hprod, rot_eq_qMat0, hθ1, hθ2, hθ3, e2, toMat_sub_entry00, hw, hz]
  simp only [ABA.Q.ofRot, Real.sin_pi_div_two, Real.cos_pi_div_two, one_mul, sub_zero, sub_neg_eq_add]
  have : ((0 : ℝ) : ℂ) - I * ((ρ + ρ : ℝ) : ℂ) = (⟨0, -(2 * ρ)⟩ : ℂ) := by
    apply Complex.ext <;> simp; ring
  rw [this, ABA.norm_mk]
  have : (0 : ℝ) ^ 2 + (-(2 * ρ)) ^ 2 = (2 * ρ) ^ 2 := by ring
  rw [this, Real.sqrt_sq (by positivity)]

/-- the finding in numbers: at `atol = 7/10`, X-Z-X of the half turn about `(3/5, 0, 4/5)` (`|a| = 3/5 < atol`) is
    off by `√2·3/5 > atol` in one entry although only a single test is dishonest -/
example : ∃ θ1 θ2 θ3, abaAngles (7 / 10 : ℝ) .XZX Real.pi (3 / 5, 0, 4 / 5) = .ok (θ1, θ2, θ3) ∧
    (7 / 10 : ℝ) < ‖(rot (eAxis 0) θ3 0 * rot (eAxis 2) θ2 0 * rot (eAxis 0) θ1 0) 0 1
      - rot (3 / 5, 0, 4 / 5) Real.pi 0 0 1‖ := by
  have hp := Real.two_le_pi
  have hn : (3 / 5 : ℝ) ^ 2 + (0 : ℝ) ^ 2 + (4 / 5 : ℝ) ^ 2 = 1 := by norm_num
  obtain ⟨⟨θ1, θ2, θ3⟩, h⟩ := ABA.aba_total (7 / 10) .XZX Real.pi (3 / 5, 0, 4 / 5) hn (by linarith) (by linarith)
  refine ⟨θ1, θ2, θ3, h, ?_⟩
  rw [aba_a_band_sharp (7 / 10) (3 / 5) (4 / 5) (by norm_num) (by norm_num)
    (by rw [abs_of_pos (by norm_num)]; norm_num) θ1 θ2 θ3 h, abs_of_pos (by norm_num)]
  have h2 : (1.4 : ℝ) < √2 := by
    rw [show (1.4 : ℝ) = √(1.4 ^ 2) by rw [Real.sqrt_sq (by norm_num)]]
    exact Real.sqrt_lt_sqrt (by norm_num) (by norm_num)
  nlinarith

/-! ### non-vacuity for items 3–7: inputs strictly inside the bands (tolerance `1/2`, resp. `1/10`) -/

private theorem pi_bounds : (2 : ℝ) ≤ Real.pi ∧ Real.pi ≤ 4 := ⟨Real.two_le_pi, Real.pi_le_four⟩

/-- item 4: Z-Y-Z of the rotation by `1` about `(7/25, 0, 24/25)` at `atol = 1/2`: the inner shortcut fires although
    `sin(θ2/2) = sin(1/2)·7/25 ≠ 0`. -/
example : ∃ θ1 θ2 θ3, abaAngles (1 / 2 : ℝ) .ZYZ 1 (7 / 25, 0, 24 / 25) = .ok (θ1, θ2, θ3) ∧ ∀ i j,
    ‖(rot (eAxis 2) θ3 0 * rot (eAxis 1) θ2 0 * rot (eAxis 2) θ1 0) i j - rot (7 / 25, 0, 24 / 25) 1 0 i j‖
      ≤ √2 * (1 / 2) := by
  obtain ⟨hp3, hp4⟩ := pi_bounds
  have hn : (7 / 25 : ℝ) ^ 2 + (0 : ℝ) ^ 2 + (24 / 25 : ℝ) ^ 2 = 1 := by norm_num
  obtain ⟨⟨θ1, θ2, θ3⟩, h⟩ := ABA.aba_total (1 / 2) .ZYZ 1 (7 / 25, 0, 24 / 25) hn (by linarith) (by linarith)
  refine ⟨θ1, θ2, θ3, h, aba_inner_band (1 / 2) .ZYZ 1 _ θ1 θ2 θ3 (by norm_num) hn (by linarith) (by linarith)
    ?_ ?_ h⟩
  · rw [abs_of_neg (by linarith)]; linarith
  · simp only [ABAKind.ib, ABAKind.ic, ABAKind.ia, Vec3.get]
    have := Real.sin_sq_le_one (1 / 2)
    nlinarith

/-- item 5: `α = π - 1/4` at `atol = 1/2`, axis `(3/5, 0, 4/5)`, Z-Y-Z: only the `α ≈ π` test is dishonest. -/
example : ∃ θ1 θ2 θ3, abaAngles (1 / 2 : ℝ) .ZYZ (Real.pi - 1 / 4) (3 / 5, 0, 4 / 5) = .ok (θ1, θ2, θ3) ∧ ∀ i j,
    ‖(rot (eAxis 2) θ3 0 * rot (eAxis 1) θ2 0 * rot (eAxis 2) θ1 0) i j
      - rot (3 / 5, 0, 4 / 5) (Real.pi - 1 / 4) 0 i j‖ ≤ 1 / 8 := by
  obtain ⟨hp3, hp4⟩ := pi_bounds
  have hn : (3 / 5 : ℝ) ^ 2 + (0 : ℝ) ^ 2 + (4 / 5 : ℝ) ^ 2 = 1 := by norm_num
  obtain ⟨⟨θ1, θ2, θ3⟩, h⟩ :=
    ABA.aba_total (1 / 2) .ZYZ (Real.pi - 1 / 4) (3 / 5, 0, 4 / 5) hn (by linarith) (by linarith)
  have hπ : |Real.pi - 1 / 4 - Real.pi| < (1 / 2 : ℝ) := by
    rw [show Real.pi - 1 / 4 - Real.pi = -(1 / 4 : ℝ) by ring, abs_neg, abs_of_pos (by norm_num)]; norm_num
  refine ⟨θ1, θ2, θ3, h, fun i j => ?_⟩
  have := (aba_pi_band (1 / 2) .ZYZ (Real.pi - 1 / 4) _ θ1 θ2 θ3 (by norm_num) hn (by linarith) (by linarith) hπ
    ?_ ?_ h i j).1
  · rwa [show Real.pi - 1 / 4 - Real.pi = -(1 / 4 : ℝ) by ring, abs_neg, abs_of_pos (by norm_num),
      show (1 / 4 : ℝ) / 2 = 1 / 8 by norm_num] at this
  · intro hh; exfalso
    simp only [ABAKind.ia, Vec3.get] at hh
    rw [abs_of_pos (by norm_num)] at hh; norm_num at hh
  · intro _ hh; exfalso
    simp only [ABAKind.ib, ABAKind.ic, ABAKind.ia, Vec3.get] at hh
    norm_num at hh

/-- item 6: `α = π - 1/4`, axis `(24/25, 0, 7/25)`, Z-Y-Z at `atol = 1/2`: both `α ≈ π` and `a ≈ 0` are dishonest
    (`a = 7/25`). -/
example : ∃ θ1 θ2 θ3, abaAngles (1 / 2 : ℝ) .ZYZ (Real.pi - 1 / 4) (24 / 25, 0, 7 / 25) = .ok (θ1, θ2, θ3) ∧ ∀ i j,
    ‖(rot (eAxis 2) θ3 0 * rot (eAxis 1) θ2 0 * rot (eAxis 2) θ1 0) i j
      - rot (24 / 25, 0, 7 / 25) (Real.pi - 1 / 4) 0 i j‖ ≤ 2 * (1 / 2) := by
  obtain ⟨hp3, hp4⟩ := pi_bounds
  have hn : (24 / 25 : ℝ) ^ 2 + (0 : ℝ) ^ 2 + (7 / 25 : ℝ) ^ 2 = 1 := by norm_num
  obtain ⟨⟨θ1, θ2, θ3⟩, h⟩ :=
    ABA.aba_total (1 / 2) .ZYZ (Real.pi - 1 / 4) (24 / 25, 0, 7 / 25) hn (by linarith) (by linarith)
  have hπ : |Real.pi - 1 / 4 - Real.pi| < (1 / 2 : ℝ) := by
    rw [show Real.pi - 1 / 4 - Real.pi = -(1 / 4 : ℝ) by ring, abs_neg, abs_of_pos (by norm_num)]; norm_num
  refine ⟨θ1, θ2, θ3, h, fun i j => ?_⟩
  obtain ⟨-, h3, h4, h5⟩ := aba_a_band (1 / 2) .ZYZ (Real.pi - 1 / 4) _ θ1 θ2 θ3 (by norm_num) hn (by linarith)
    (by linarith) hπ (by simp only [ABAKind.ia, Vec3.get]; rw [abs_of_pos (by norm_num)]; norm_num) h i j
  exact le_trans h3 (le_trans h4.le h5)

/-- the inner band of the `α ≈ π` branch and item 7: `α = π - 1/4`, axis `(7/25, 0, 24/25)`, Z-Y-Z at `atol = 1/2`
    (`a = 24/25`, `b² + c² = 49/625 < 1/4`). -/
example : ∃ θ1 θ2 θ3, abaAngles (1 / 2 : ℝ) .ZYZ (Real.pi - 1 / 4) (7 / 25, 0, 24 / 25) = .ok (θ1, θ2, θ3) ∧ ∀ i j,
    ‖(rot (eAxis 2) θ3 0 * rot (eAxis 1) θ2 0 * rot (eAxis 2) θ1 0) i j
      - rot (7 / 25, 0, 24 / 25) (Real.pi - 1 / 4) 0 i j‖ ≤ 5 / 2 * (1 / 2) := by
  obtain ⟨hp3, hp4⟩ := pi_bounds
  have hn : (7 / 25 : ℝ) ^ 2 + (0 : ℝ) ^ 2 + (24 / 25 : ℝ) ^ 2 = 1 := by norm_num
  obtain ⟨⟨θ1, θ2, θ3⟩, h⟩ :=
    ABA.aba_total (1 / 2) .ZYZ (Real.pi - 1 / 4) (7 / 25, 0, 24 / 25) hn (by linarith) (by linarith)
  exact ⟨θ1, θ2, θ3, h, aba_all_inputs (1 / 2) .ZYZ _ _ θ1 θ2 θ3 (by norm_num) hn (by linarith) (by linarith) h⟩

example : ∃ θ1 θ2 θ3, abaAngles (1 / 2 : ℝ) .ZYZ (Real.pi - 1 / 4) (7 / 25, 0, 24 / 25) = .ok (θ1, θ2, θ3) ∧ ∀ i j,
    ‖(rot (eAxis 2) θ3 0 * rot (eAxis 1) θ2 0 * rot (eAxis 2) θ1 0) i j
      - rot (7 / 25, 0, 24 / 25) Real.pi 0 i j‖ ≤ 2 * √((0 : ℝ) ^ 2 + (7 / 25) ^ 2) := by
  obtain ⟨hp3, hp4⟩ := pi_bounds
  have hn : (7 / 25 : ℝ) ^ 2 + (0 : ℝ) ^ 2 + (24 / 25 : ℝ) ^ 2 = 1 := by norm_num
  obtain ⟨⟨θ1, θ2, θ3⟩, h⟩ :=
    ABA.aba_total (1 / 2) .ZYZ (Real.pi - 1 / 4) (7 / 25, 0, 24 / 25) hn (by linarith) (by linarith)
  have hπ : |Real.pi - 1 / 4 - Real.pi| < (1 / 2 : ℝ) := by
    rw [show Real.pi - 1 / 4 - Real.pi = -(1 / 4 : ℝ) by ring, abs_neg, abs_of_pos (by norm_num)]; norm_num
  refine ⟨θ1, θ2, θ3, h, fun i j => ?_⟩
  exact (aba_pi_inner_band (1 / 2) .ZYZ (Real.pi - 1 / 4) _ θ1 θ2 θ3 (by norm_num) hn (by linarith)
    (by linarith) hπ (by simp only [ABAKind.ia, Vec3.get]; rw [abs_of_pos (by norm_num)]; norm_num)
    (by simp only [ABAKind.ib, ABAKind.ic, ABAKind.ia, Vec3.get]; norm_num) h i j).1

/-- item 3: `Rz(1/10)·e^{i/3}` composed with the exact identity at `atol = 1/10`: the identity branch fires although
    `sin(Θ/2) = sin(1/20) ≠ 0`. -/
example : ∃ r, composeRot (1 / 10 : ℝ) ⟨0, (0, 0, 1), 1 / 10, 1 / 3, none⟩ ⟨0, (0, 0, 1), 0, 0, none⟩ = .ok r ∧
    ∃ z : ℂ, ‖z‖ = 1 ∧ ∀ i j : Fin 2,
      ‖(rot (0, 0, 1) (1 / 10) (1 / 3) * rot (0, 0, 1) 0 0) i j - (z • rot r.axis r.angle r.phase) i j‖
        ≤ √2 * (1 / 10) := by
  have ha : UnitVec ((0, 0, 1) : Vec3 ℝ) := by simp [UnitVec]
  have hfire : |Real.sin (cTheta ⟨0, (0, 0, 1), 1 / 10, 1 / 3, none⟩ ⟨0, (0, 0, 1), 0, 0, none⟩ / 2)|
      < (1 / 10 : ℝ) := by
    have hW : cW ⟨0, (0, 0, 1), 1 / 10, 1 / 3, none⟩ ⟨0, (0, 0, 1), 0, 0, none⟩ = Real.cos (1 / 20) := by
      simp [cW]; norm_num
    rw [sin_half_cTheta, hW, ← Real.sin_sq, Real.sqrt_sq_eq_abs, abs_abs]
    have := abs_sin_sub_sin_le (1 / 20) 0
    rw [Real.sin_zero, sub_zero, sub_zero, abs_of_pos (by norm_num : (0 : ℝ) < 1 / 20)] at this
    linarith
  have hc : composeRot (1 / 10 : ℝ) ⟨0, (0, 0, 1), 1 / 10, 1 / 3, none⟩ ⟨0, (0, 0, 1), 0, 0, none⟩
      = .ok (identityRot 0) := by
    rw [composeRot_real (1 / 10) ⟨0, (0, 0, 1), 1 / 10, 1 / 3, none⟩ ⟨0, (0, 0, 1), 0, 0, none⟩ ha ha rfl,
      if_pos hfire]
  exact ⟨_, hc, (composeRot_identity_band (1 / 10) ⟨0, (0, 0, 1), 1 / 10, 1 / 3, none⟩
    ⟨0, (0, 0, 1), 0, 0, none⟩ _ ha ha hc hfire).2⟩

/-- item 7b: the whole Z-Y-Z decomposer on the same in-band input, with a phase -/
example : ∃ out, abaDecompose (1 / 2 : ℝ) .ZYZ (.bsr 0 (7 / 25, 0, 24 / 25) (Real.pi - 1 / 4) (1 / 3), none) = .ok out ∧
    ∃ z : ℂ, ‖z‖ = 1 ∧ ∀ i j : Fin 2,
      ‖listOp out i j - (z • rot (7 / 25, 0, 24 / 25) (Real.pi - 1 / 4) (1 / 3)) i j‖ ≤ 17 / 2 * (1 / 2) := by
  obtain ⟨hp3, hp4⟩ := pi_bounds
  have hn : (7 / 25 : ℝ) ^ 2 + (0 : ℝ) ^ 2 + (24 / 25 : ℝ) ^ 2 = 1 := by norm_num
  obtain ⟨out, h⟩ := abaDecompose_ok (1 / 2) .ZYZ 0 (7 / 25, 0, 24 / 25) (Real.pi - 1 / 4) (1 / 3) none
    (by norm_num) (by linarith) hn (by linarith) (by linarith)
  exact ⟨out, h, abaDecompose_all_inputs (1 / 2) .ZYZ 0 _ _ _ none out (by norm_num) (by linarith) hn
    (by linarith) (by linarith) h⟩

end Bands
end OSq

#print axioms OSq.Bands.rot_lipschitz_angle
#print axioms OSq.Bands.rot_lipschitz_phase
#print axioms OSq.Bands.rot_lipschitz_axis
#print axioms OSq.Bands.rot_identity_band
#print axioms OSq.Bands.filter_identities_band
#print axioms OSq.Bands.compose_identity_dist
#print axioms OSq.Bands.composeRot_identity_band
#print axioms OSq.Bands.aba_inner_band
#print axioms OSq.Bands.aba_inner_band_p
#print axioms OSq.Bands.aba_pi_band
#print axioms OSq.Bands.aba_a_band
#print axioms OSq.Bands.aba_pi_inner_band
#print axioms OSq.Bands.aba_all_inputs
#print axioms OSq.Bands.abaDecompose_all_inputs
#print axioms OSq.Bands.aba_a_band_sharp
#print axioms OSq.Bands.aba_pi_inner_band_sharp
