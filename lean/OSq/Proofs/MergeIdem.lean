import OSq.Proofs.MergeReal
import OSq.Proofs.Construct
import OSq.Proofs.CircuitSem7
import Mathlib.Tactic.Linarith
import Mathlib.Tactic.NormNum
import Mathlib.Tactic.FieldSimp
import Mathlib.Tactic.Ring

/-
  OSq.Proofs.MergeIdem — property C14 at `α := ℝ`: "merging again changes neither the number of statements nor the
  operation" (`OSq/Model/Passes.lean`: `merge`, `mergeLoop`, `flushOps`, `composeRot`, `tryName`, `defaultI`; Python
  `merger/general_merger.py`).  Builds on `MergeStruct` (per-qubit specification `specTrace`, normal form), `MergeReal`
  (`composeRot_angle_large`, `defaultI_real`, …) and `Compose` (`composeRot_real`, `compose_crisp`).

  Vocabulary
  * `dI q`                  the record `I(q) = ⟨q, (1,0,0), 0, 0, "I"⟩` (`defaultI_eq_dI`)
  * `sgnHalf a`             `sin(θ/2)/|sin(θ/2)|`, the sign by which the axis is multiplied
  * `RoundExact a`          the numbers `composeRot a I(q)` rounds (`± a.axis`, `a.phase`) have at most 7 decimals

  * `Stable atol a`         unit axis and `atol ≤ |sin(θ/2)|`: what makes `composeRot a I(q)` take the general branch
  * `pend atol accs`        number of accumulators that do not test as identity
  * `GoodRots atol l`, `AccInv`, `headNotBSR`   hypotheses / invariant of the structural loop theorem

  Theorems — composition with the fresh accumulator (item 1)
  * `cW_dI`, `sin_half_cTheta_dI`, `cAxis_dI`, `cTheta_dI_of_range`   the numbers `composeRot a I(q)` computes:
                            `w = cos(θ/2)`, `sin(Θ/2) = |sin(θ/2)|`, axis `= ± a.axis`, `Θ = |θ|` for `θ ∈ [-π, π]`
  * `compose_with_identity_real`   (unit axis, honest identity test, exact rounding) `composeRot a I(q)` succeeds; either
                            the identity test fires (then the result is the identity rotation and `a` is `±1`; this
                            happens whenever `a` tests as identity), or the result has the axis `± a.axis`, the same
                            quaternion up to sign, the phase of `a` mod `2π`, the name of `a`, `2·atol ≤ |angle|`, and
                            does not test as identity
  * `compose_with_identity_general`  with `θ ∈ (-π, π]`, `2·atol ≤ |θ|` the identity branch is excluded and the new
                            angle is `|θ|`
  * `compose_defaultI_ok`   NO crisp hypothesis: a `Stable` rotation composed with `I(q)` succeeds and the result does not
                            test as identity
  Names (item 3)
  * `finalRot_of_named`, `finalRot_of_anonymous`   (any `α`) the final flush renames only anonymous accumulators
  * `merge_keeps_name_real` a rotation alone in its segment is emitted with the same name (no crisp hypothesis)
  Structure of a second merge (item 2; any scalar type `α`)
  * `merge_output_inRange`  the output of a non-raising merge has in-range operands
  * `mergeTail_length`, `pend_set`, `flushOps_pend`   bookkeeping: emitted + pending is conserved by a flush
  * `mergeLoop_idem`        the loop on a normal-form list: no exception; `|out'| + pend accs' = |out| + pend accs + |rest|`
  * `specTrace_idem_shape`  per-qubit: on a normal-form trace `specTrace` keeps length, rotation/barrier pattern, barriers
  * `merge_idem_of_normal_form`   in-range + `GoodRots` + no adjacent rotations per qubit ⇒ no exception, same length
  At ℝ (item 2)
  * `fromCompose_stable`, `named_unit`, `finalRot_stable`, `merge_output_stable`   every rotation emitted by a
                            non-raising merge is `Stable` (`0 < atol ≤ 1/4`)
  * `merge_output_goodRots` hence `GoodRots` holds for the merged circuit — with no crisp hypothesis
  * `merge_length_idem`     **C14**: `0 < atol ≤ 1/4`, in-range operands, first merge does not raise ⇒ the second merge does
                            not raise, returns the same number of statements, the same non-rotation statements, the same
                            number of rotations, the same registers.  NO crisp hypothesis.
  * `merge_trace_idem`      per qubit: same trace length, same rotation/barrier pattern, same barriers
  * `merge_idem_sem`        under `CrispR` along the second run: `CircEquiv` (same operation up to one global phase for all
                            outcomes) between the once- and the twice-merged circuit
  * `ex2_compose_eq`, `ex2_merge_fixed`, examples   `X(π) q0; measure q0` is a fixed point of the pass; all theorems
                            instantiated on it / on `Rx(π)`
-/
set_option linter.unusedSectionVars false
namespace OSq
open Real

/-! ### 1. Composition with the fresh accumulator `I(q)` -/

/-- `I(q)` at ℝ, as a record -/
noncomputable def dI (q : Nat) : Rot ℝ := ⟨(q : Int), (1, 0, 0), 0, 0, some ⟨"I", [.qubit q]⟩⟩

theorem dI_unit (q : Nat) : UnitVec (dI q).axis := by simp [dI, UnitVec]

theorem cW_dI (a : Rot ℝ) (q : Nat) : cW a (dI q) = Real.cos (a.angle / 2) := by
  simp [cW, dI]

theorem sin_half_cTheta_dI (a : Rot ℝ) (q : Nat) :
    Real.sin (cTheta a (dI q) / 2) = |Real.sin (a.angle / 2)| := by
  rw [sin_half_cTheta, cW_dI, ← Real.sqrt_sq_eq_abs]
  congr 1
  have := Real.sin_sq_add_cos_sq (a.angle / 2)
  linarith

theorem cVi_dI (a : Rot ℝ) (q : Nat) (i : Nat) :
    cVi a (dI q) i = Real.sin (a.angle / 2) * a.axis.get i := by
  simp [cVi, dI]

/-- the combined axis is `± a.axis` (the sign of `sin(θ/2)`) -/
theorem cAxis_dI (a : Rot ℝ) (q : Nat) :
    cAxis a (dI q) =
      (Real.sin (a.angle / 2) / |Real.sin (a.angle / 2)| * a.axis.1,
       Real.sin (a.angle / 2) / |Real.sin (a.angle / 2)| * a.axis.2.1,
       Real.sin (a.angle / 2) / |Real.sin (a.angle / 2)| * a.axis.2.2) := by
  simp only [cAxis, sin_half_cTheta_dI, cVi_dI, Vec3.get]
  refine Prod.ext ?_ (Prod.ext ?_ ?_) <;> (simp only; ring)

/-- the sign `sin(θ/2)/|sin(θ/2)|` -/
noncomputable def sgnHalf (a : Rot ℝ) : ℝ := Real.sin (a.angle / 2) / |Real.sin (a.angle / 2)|

theorem sgnHalf_cases (a : Rot ℝ) (h : Real.sin (a.angle / 2) ≠ 0) : sgnHalf a = 1 ∨ sgnHalf a = -1 := by
  unfold sgnHalf
  rcases lt_or_gt_of_ne h with hneg | hpos
  · right; rw [abs_of_neg hneg]; field_simp
  · left; rw [abs_of_pos hpos]; field_simp

theorem sgnHalf_mul_abs (a : Rot ℝ) (h : Real.sin (a.angle / 2) ≠ 0) :
    sgnHalf a * |Real.sin (a.angle / 2)| = Real.sin (a.angle / 2) := by
  unfold sgnHalf
  have : |Real.sin (a.angle / 2)| ≠ 0 := abs_ne_zero.mpr h
  field_simp

theorem dI_quat (q : Nat) : (dI q).quat = 1 := by
  ext <;> simp [dI, Rot.quat, quat, Quat.one_def]

theorem dI_isIdentity (atol : ℝ) (hatol : 0 < atol) (q : Nat) : (dI q).isIdentity atol = true := by
  simp [dI, Rot.isIdentity, hatol]

theorem defaultI_eq_dI (atol : ℝ) (hatol : 0 < atol) (hpi : atol ≤ Real.pi) (q : Nat) :
    defaultI atol q = dI q := defaultI_real atol hatol hpi q

/-- a rotation that tests as identity has `|sin(θ/2)| < atol` -/
theorem sin_small_of_isIdentity (atol : ℝ) (a : Rot ℝ) (h : a.isIdentity atol = true) :
    |Real.sin (a.angle / 2)| < atol := by
  simp only [Rot.isIdentity, absS_real, Bool.and_eq_true] at h
  have h := And.intro (of_decide_eq_true h.1) (of_decide_eq_true h.2)
  have h1 : |Real.sin (a.angle / 2)| ≤ |a.angle / 2| := Real.abs_sin_le_abs
  have h2 : |a.angle / 2| = |a.angle| / 2 := by rw [abs_div, abs_of_pos (by norm_num : (0 : ℝ) < 2)]
  have := abs_nonneg a.angle
  linarith [h.1]

/-- the numbers rounded by `composeRot a I(q)` — the three components of `± a.axis` and `a.phase` — have at most
    seven decimals -/
def RoundExact (a : Rot ℝ) : Prop :=
  (∀ σ : ℝ, σ = 1 ∨ σ = -1 →
    roundTo s7 (σ * a.axis.1) = σ * a.axis.1 ∧ roundTo s7 (σ * a.axis.2.1) = σ * a.axis.2.1 ∧
    roundTo s7 (σ * a.axis.2.2) = σ * a.axis.2.2) ∧
  roundTo s7 a.phase = a.phase

/-- **C14, composition with the fresh accumulator.**  For a rotation `a` on qubit `q` with a unit axis, under
    crispness (the identity test `|sin(Θ/2)| < atol` of `composeRot`, which here reads `|sin(θ/2)| < atol`, is honest;
    the 7-decimal rounding of `± axis` and of the phase is exact), `composeRot atol a (I q)` succeeds and
    * either the identity test fires: the result is the anonymous identity rotation and `a` itself is `±1`
      (this is the case whenever `a` tests as identity — and only if `θ ≡ 0 mod 2π`),
    * or it does not: the result is on `q`, has the unit axis `± a.axis`, the same quaternion up to sign, the
      phase of `a` up to a multiple of `2π`, **the name of `a`**, the angle `normalizeAngle atol Θ` with
      `2·atol ≤ |angle|`, and therefore does **not** test as identity. -/
theorem compose_with_identity_real (atol : ℝ) (hatol : 0 < atol) (hpi : atol ≤ Real.pi) (a : Rot ℝ) (q : Nat)
    (hq : a.q = (q : Int)) (ha : UnitVec a.axis)
    (hcrisp : |Real.sin (a.angle / 2)| < atol → Real.sin (a.angle / 2) = 0)
    (hround : ¬ |Real.sin (a.angle / 2)| < atol → RoundExact a) :
    ∃ r, composeRot atol a (defaultI atol q) = .ok r ∧
      (a.isIdentity atol = true → |Real.sin (a.angle / 2)| < atol) ∧
      ((|Real.sin (a.angle / 2)| < atol ∧ r = identityRot (q : Int) ∧ (a.quat = 1 ∨ a.quat = -1)) ∨
       (¬ |Real.sin (a.angle / 2)| < atol ∧ r.q = (q : Int) ∧
          r.axis = (sgnHalf a * a.axis.1, sgnHalf a * a.axis.2.1, sgnHalf a * a.axis.2.2) ∧
          (sgnHalf a = 1 ∨ sgnHalf a = -1) ∧ UnitVec r.axis ∧
          (r.quat = a.quat ∨ r.quat = -a.quat) ∧
          (∃ m : ℤ, r.phase = a.phase + m * (2 * Real.pi)) ∧
          r.nm = a.nm ∧
          r.angle = normalizeAngle atol (cTheta a (dI q)) ∧ 2 * atol ≤ |r.angle| ∧
          r.isIdentity atol = false)) := by
  rw [defaultI_eq_dI atol hatol hpi q]
  have hb := dI_unit q
  have hqq : a.q = (dI q).q := hq
  have hsin := sin_half_cTheta_dI a q
  have habs : |Real.sin (cTheta a (dI q) / 2)| = |Real.sin (a.angle / 2)| := by rw [hsin, abs_abs]
  have hcrisp' : |Real.sin (cTheta a (dI q) / 2)| < atol → Real.sin (cTheta a (dI q) / 2) = 0 := by
    intro h; rw [habs] at h; rw [hsin, hcrisp h, abs_zero]
  have hround' : ¬ |Real.sin (cTheta a (dI q) / 2)| < atol →
      roundTo s7 (cAxis a (dI q)).1 = (cAxis a (dI q)).1 ∧ roundTo s7 (cAxis a (dI q)).2.1 = (cAxis a (dI q)).2.1 ∧
      roundTo s7 (cAxis a (dI q)).2.2 = (cAxis a (dI q)).2.2 ∧
      roundTo s7 (a.phase + (dI q).phase) = a.phase + (dI q).phase := by
    intro h
    rw [habs] at h
    have hne : Real.sin (a.angle / 2) ≠ 0 := by
      intro h0; apply h; rw [h0, abs_zero]; exact hatol
    obtain ⟨hax, hph⟩ := hround h
    obtain ⟨h1, h2, h3⟩ := hax (sgnHalf a) (sgnHalf_cases a hne)
    rw [cAxis_dI]
    refine ⟨h1, h2, h3, ?_⟩
    simp only [dI, add_zero]; exact hph
  obtain ⟨r, hr⟩ := compose_ok_of_crisp atol hatol a (dI q) ha hb hqq
    (fun h => ⟨(hround' h).1, (hround' h).2.1, (hround' h).2.2.1⟩)
  refine ⟨r, hr, sin_small_of_isIdentity atol a, ?_⟩
  obtain ⟨_, hrq, hc | hc⟩ := compose_crisp atol hatol a (dI q) r ha hb hr hcrisp' hround'
  · left
    obtain ⟨h1, _, h3, _, h5⟩ := hc
    rw [habs] at h1
    rw [dI_quat, Quat.mul_one'] at h5
    exact ⟨h1, by rw [h3, hq], h5⟩
  · right
    obtain ⟨h1, _, h3, h4, h5, h6, h7, h8⟩ := hc
    have h1' : ¬ |Real.sin (a.angle / 2)| < atol := by rwa [habs] at h1
    have hne : Real.sin (a.angle / 2) ≠ 0 := by
      intro h0; apply h1'; rw [h0, abs_zero]; exact hatol
    rw [dI_quat, Quat.mul_one'] at h5
    have hnid : a.isIdentity atol = false := by
      cases hid : a.isIdentity atol with
      | false => rfl
      | true => exact absurd (sin_small_of_isIdentity atol a hid) h1'
    have hlarge : 2 * atol ≤ |r.angle| := by rw [h8]; exact angle_bound atol _ h1
    refine ⟨h1', by rw [hrq, hq], by rw [h3, cAxis_dI]; rfl, sgnHalf_cases a hne, h4, h5, ?_, ?_, h8, hlarge, ?_⟩
    · obtain ⟨m, hm⟩ := h6
      exact ⟨m, by rw [hm]; simp [dI]⟩
    · rw [h7, hnid, dI_isIdentity atol hatol q]; simp
    · have : ¬ |r.angle| < atol := by linarith
      simp [Rot.isIdentity, this]

/-- for a normalised angle `θ ∈ (-π, π]`, `Θ = |θ|` -/
theorem cTheta_dI_of_range (a : Rot ℝ) (q : Nat) (h1 : -Real.pi ≤ a.angle) (h2 : a.angle ≤ Real.pi) :
    cTheta a (dI q) = |a.angle| := by
  rw [cTheta, cW_dI, ← Real.cos_abs, Real.arccos_cos (abs_nonneg _)]
  · rw [abs_div, abs_of_pos (by norm_num : (0 : ℝ) < 2)]; ring
  · rw [abs_div, abs_of_pos (by norm_num : (0 : ℝ) < 2)]
    have : |a.angle| ≤ Real.pi := abs_le.mpr ⟨h1, h2⟩
    linarith [Real.pi_pos]

/-- with a normalised, non-zero angle and an honest identity test the identity branch is excluded, and the
    angle of the result is `|θ|`: a second merge re-emits exactly one rotation for each emitted rotation. -/
theorem compose_with_identity_general (atol : ℝ) (hatol : 0 < atol) (hpi : atol ≤ Real.pi) (a : Rot ℝ) (q : Nat)
    (hq : a.q = (q : Int)) (ha : UnitVec a.axis) (h1 : -Real.pi < a.angle) (h2 : a.angle ≤ Real.pi)
    (hlarge : 2 * atol ≤ |a.angle|)
    (hcrisp : |Real.sin (a.angle / 2)| < atol → Real.sin (a.angle / 2) = 0)
    (hround : RoundExact a) :
    ∃ r, composeRot atol a (defaultI atol q) = .ok r ∧ r.q = (q : Int) ∧ r.angle = |a.angle| ∧
      (r.quat = a.quat ∨ r.quat = -a.quat) ∧ r.nm = a.nm ∧ r.isIdentity atol = false := by
  obtain ⟨r, hr, _, hc | hc⟩ := compose_with_identity_real atol hatol hpi a q hq ha hcrisp (fun _ => hround)
  · exfalso
    have h0 := hcrisp hc.1
    have hz : a.angle / 2 = 0 := by
      have hlo : -(Real.pi / 2) < a.angle / 2 := by linarith
      have hhi : a.angle / 2 < Real.pi := by linarith [Real.pi_pos]
      rcases lt_trichotomy (a.angle / 2) 0 with hn | hz | hp
      · have := Real.sin_neg_of_neg_of_neg_pi_lt hn (by linarith [Real.pi_pos]); linarith
      · exact hz
      · have := Real.sin_pos_of_pos_of_lt_pi hp hhi; linarith
    have : a.angle = 0 := by linarith
    rw [this, abs_zero] at hlarge; linarith
  · obtain ⟨_, hrq, _, _, _, hquat, _, hnm, hang, _, hnid⟩ := hc
    refine ⟨r, hr, hrq, ?_, hquat, hnm, hnid⟩
    rw [hang, cTheta_dI_of_range a q h1.le h2]
    exact normalizeAngle_of_mem atol _ hatol (by linarith [abs_nonneg a.angle]) (abs_le.mpr ⟨h1.le, h2⟩)

/-! ### 3. Names -/

section generic
variable {α : Type} [Scalar α]

/-- the final flush renames only anonymous accumulators … -/
theorem finalRot_of_named (atol : α) (r : Rot α) (h : r.nm ≠ none) : finalRot atol r = r := by
  unfold finalRot
  cases hn : r.nm with
  | none => exact absurd hn h
  | some n => simp

/-- … and those it passes through `tryName` -/
theorem finalRot_of_anonymous (atol : α) (r : Rot α) (h : r.nm = none) : finalRot atol r = tryName atol r := by
  unfold finalRot; simp [h]

end generic

theorem identityRot_isIdentity (atol : ℝ) (hatol : 0 < atol) (q : Int) :
    (identityRot q : Rot ℝ).isIdentity atol = true := by
  simp [identityRot, Rot.isIdentity, hatol]

/-- **C14, names.**  A rotation `a` (unit axis) that is alone in its segment is composed with the fresh accumulator
    `I(q)` only.  If the result `r` does not test as identity, then `r` carries **the name of `a`** (`I(q)` tests as
    identity and `a` does not, so `composeRot` keeps `a.nm`); it is emitted as it is in front of the next barrier, and
    at the end of the circuit through `finalRot`, which leaves a named rotation alone (`tryName` is applied only to
    anonymous accumulators).  No crisp hypothesis is needed. -/
theorem merge_keeps_name_real (atol : ℝ) (hatol : 0 < atol) (hpi : atol ≤ Real.pi) (a : Rot ℝ) (q : Nat)
    (hq : a.q = (q : Int)) (ha : UnitVec a.axis) (r : Rot ℝ)
    (hr : composeRot atol a (defaultI atol q) = .ok r) (hnid : r.isIdentity atol = false) :
    r.nm = a.nm ∧
    (a.nm ≠ none → finalRot atol r = r) ∧
    (a.nm = none → finalRot atol r = tryName atol r) ∧
    (∀ (b : Stmt ℝ) (rest : List (Stmt ℝ)), b.rot? = none →
      specTrace atol q (defaultI atol q) (a.toGStmt.toStmt :: b :: rest)
        = r.toGStmt.toStmt :: b :: specTrace atol q (defaultI atol q) rest) ∧
    specTrace atol q (defaultI atol q) [a.toGStmt.toStmt] = [(finalRot atol r).toGStmt.toStmt] := by
  have hnm : r.nm = a.nm := by
    have hne : r ≠ identityRot a.q := by
      intro h; rw [h, identityRot_isIdentity atol hatol] at hnid; cases hnid
    rcases compose_name atol a (defaultI atol q) r hr with h | h
    · exact absurd h hne
    · rw [h]
      have hb : (defaultI atol q).isIdentity atol = true := defaultIsIdentity_real atol hatol hpi q
      cases hid : a.isIdentity atol with
      | false => simp [hb]
      | true =>
        exfalso
        have hs := sin_small_of_isIdentity atol a hid
        rw [defaultI_eq_dI atol hatol hpi q] at hr
        rw [composeRot_real atol a (dI q) ha (dI_unit q) hq, if_pos (by rw [sin_half_cTheta_dI, abs_abs]; exact hs)]
          at hr
        injection hr with hr
        exact hne hr.symm
  refine ⟨hnm, ?_, ?_, ?_, ?_⟩
  · intro h; exact finalRot_of_named atol r (by rw [hnm]; exact h)
  · intro h; exact finalRot_of_anonymous atol r (by rw [hnm]; exact h)
  · intro b rest hb
    rw [specTrace_rot atol q (defaultI atol q) a r _ _ (Rot.rot?_toStmt a) hr,
      specTrace_barrier_emit atol q r b rest hb hnid]
  · rw [specTrace_rot atol q (defaultI atol q) a r _ _ (Rot.rot?_toStmt a) hr, specTrace_nil, hnid]
    simp

/-! ### 2. A second merge: structural part (any scalar type) -/

section generic
variable {α : Type} [Scalar α]

/-- all qubits of the statement are register indices -/
def StmtInRange (n : Nat) (s : Stmt α) : Prop := ∀ q ∈ s.qubits, inRange n q = true

theorem getElem?_lt_size (accs : Array (Rot α)) (i : Nat) (r : Rot α) (h : accs[i]? = some r) : i < accs.size := by
  rcases Nat.lt_or_ge i accs.size with h' | h'
  · exact h'
  · rw [Array.getElem?_eq_none h'] at h; cases h

theorem rot_stmt_inRange (n : Nat) (r : Rot α) (i : Nat) (hi : i < n) (hr : r.q = (i : Int)) :
    StmtInRange n r.toGStmt.toStmt := by
  intro q hq
  rw [Rot.toStmt_qubits, List.mem_singleton] at hq
  subst hq
  simp only [inRange, Bool.and_eq_true, decide_eq_true_eq]
  omega

theorem flushOps_range (atol : α) (n : Nat) (qs : List Int) :
    ∀ (accs : Array (Rot α)) (out : List (Stmt α)) (accs' : Array (Rot α)) (out' : List (Stmt α)),
      accs.size = n → AccOK accs → (∀ s ∈ out, StmtInRange n s) →
      flushOps atol accs out qs = .ok (accs', out') →
      accs'.size = n ∧ AccOK accs' ∧ ∀ s ∈ out', StmtInRange n s := by
  induction qs with
  | nil =>
    intro accs out accs' out' hsz hok ho h
    rw [flushOps_nil] at h; injection h with h; injection h with h1 h2
    subst h1; subst h2; exact ⟨hsz, hok, ho⟩
  | cons q0 qs ih =>
    intro accs out accs' out' hsz hok ho h
    cases hq0 : accGet? accs q0 with
    | none => rw [flushOps_cons_key atol accs out q0 qs hq0] at h; cases h
    | some r0 =>
      cases hid : r0.isIdentity atol with
      | true => rw [flushOps_cons_id atol accs out q0 qs r0 hq0 hid] at h; exact ih _ _ _ _ hsz hok ho h
      | false =>
        rw [flushOps_cons_emit atol accs out q0 qs r0 hq0 hid] at h
        obtain ⟨_, hget⟩ := accGet?_some accs q0 r0 hq0
        have hlt := getElem?_lt_size accs _ _ hget
        refine ih _ _ _ _ (by simpa using hsz) (hok.set _ _ (defaultI_q atol _)) ?_ h
        intro s hs
        rcases List.mem_cons.mp hs with rfl | hs
        · exact rot_stmt_inRange n r0 q0.toNat (by omega) (hok _ _ hget)
        · exact ho s hs

theorem mergeLoop_range (atol : α) (n : Nat) (rest : List (Stmt α)) (hr : OperandsInRange n rest) :
    ∀ (accs : Array (Rot α)) (out : List (Stmt α)) (accs' : Array (Rot α)) (out' : List (Stmt α)),
      accs.size = n → AccOK accs → (∀ s ∈ out, StmtInRange n s) →
      mergeLoop atol accs out rest = .inr (accs', out') →
      accs'.size = n ∧ AccOK accs' ∧ ∀ s ∈ out', StmtInRange n s := by
  induction rest with
  | nil =>
    intro accs out accs' out' hsz hok ho h
    rw [mergeLoop_nil] at h; injection h with h; injection h with h1 h2
    subst h1; subst h2; exact ⟨hsz, hok, ho⟩
  | cons s rest ih =>
    intro accs out accs' out' hsz hok ho h
    have ih := ih (fun s' hs' => hr s' (List.mem_cons_of_mem _ hs'))
    cases hb : s.isBSR with
    | true =>
      cases s with
      | gate g nm =>
        cases g with
        | bsr q0 ax an ph =>
          cases hq0 : accGet? accs q0 with
          | none => rw [mergeLoop_bsr_key atol accs out rest q0 ax an ph nm hq0] at h; cases h
          | some acc0 =>
            cases hc : composeRot atol ⟨q0, ax, an, ph, nm⟩ acc0 with
            | error e => rw [mergeLoop_bsr_err atol accs out rest q0 ax an ph nm acc0 e hq0 hc] at h; cases h
            | ok r =>
              rw [mergeLoop_bsr_ok atol accs out rest q0 ax an ph nm acc0 r hq0 hc] at h
              obtain ⟨hq0nn, _⟩ := accGet?_some accs q0 acc0 hq0
              refine ih _ _ _ _ (by simpa using hsz) (hok.set _ _ ?_) ho h
              rw [(composeRot_q atol _ _ _ hc).2]; show q0 = _; omega
        | matrix m ops => simp [Stmt.isBSR] at hb
        | ctrl c g => simp [Stmt.isBSR] at hb
      | measure q b ax nm => simp [Stmt.isBSR] at hb
      | reset q nm => simp [Stmt.isBSR] at hb
      | comment c => simp [Stmt.isBSR] at hb
    | false =>
      cases hf : flushOps atol accs out s.qubits with
      | error o => rw [mergeLoop_nonBSR_err atol accs out rest s hb o hf] at h; cases h
      | ok p =>
        obtain ⟨accs1, out1⟩ := p
        rw [mergeLoop_nonBSR_ok atol accs out rest s hb accs1 out1 hf] at h
        obtain ⟨hsz1, hok1, ho1⟩ := flushOps_range atol n s.qubits accs out accs1 out1 hsz hok ho hf
        refine ih _ _ _ _ hsz1 hok1 ?_ h
        intro s' hs'
        rcases List.mem_cons.mp hs' with rfl | hs'
        · exact hr s' List.mem_cons_self
        · exact ho1 s' hs'

/-- **the output of a non-raising merge has all its operands in range** (the emitted rotations sit on the qubit
    whose accumulator they were) -/
theorem merge_output_inRange (atol : α) (c : Circuit α) (hr : OperandsInRange c.nQubits c.stmts)
    (hne : (merge atol c).2 = none) : OperandsInRange (merge atol c).1.nQubits (merge atol c).1.stmts := by
  rw [(merge_registers atol c).1]
  obtain ⟨hsz, hok⟩ := initAccs_ok atol c.nQubits
  rw [merge_eq] at hne ⊢
  split at hne
  · rename_i st e heq
    exact absurd hne (mergeLoop_inl_some atol _ _ _ _ _ heq)
  · rename_i accs out heq
    obtain ⟨hsz', hok', ho'⟩ := mergeLoop_range atol c.nQubits c.stmts hr _ [] accs out hsz hok (by simp) heq
    intro s hs
    simp only [List.mem_append, List.mem_reverse] at hs
    rcases hs with hs | hs
    · exact ho' s hs
    · rw [mergeTail_eq, List.mem_filterMap] at hs
      obtain ⟨r, hmem, hr'⟩ := hs
      unfold tailF at hr'
      split at hr'
      · cases hr'
      · injection hr' with hr'
        obtain ⟨i, hi⟩ := List.getElem?_of_mem hmem
        have hi' : accs[i]? = some r := by simpa using hi
        have hlt := getElem?_lt_size accs i r hi'
        rw [← hr']
        exact rot_stmt_inRange c.nQubits _ i (by omega) (by rw [finalRot_q]; exact hok' i r hi')

/-! #### counting the pending (non-identity) accumulators -/

/-- number of accumulators that do not test as identity -/
def pend (atol : α) (accs : Array (Rot α)) : Nat := accs.toList.countP (fun r => !r.isIdentity atol)

theorem mergeTail_length (atol : α) (accs : Array (Rot α)) : (mergeTail atol accs).length = pend atol accs := by
  rw [mergeTail_eq, List.length_filterMap_eq_countP, pend]
  apply List.countP_congr
  intro r _
  unfold tailF
  cases r.isIdentity atol <;> simp

theorem pend_set (atol : α) (accs : Array (Rot α)) (i : Nat) (r r0 : Rot α) (h : accs[i]? = some r0) :
    pend atol (accs.set! i r) + (if r0.isIdentity atol then 0 else 1)
      = pend atol accs + (if r.isIdentity atol then 0 else 1) := by
  have hlt := getElem?_lt_size accs i r0 h
  have hlt' : i < accs.toList.length := by simpa using hlt
  have hget : accs.toList[i] = r0 := by
    have : accs.toList[i]? = some r0 := by simpa using h
    rw [List.getElem?_eq_getElem hlt'] at this; injection this
  have hpos : (if (!r0.isIdentity atol) = true then 1 else 0) ≤ accs.toList.countP (fun r => !r.isIdentity atol) := by
    split
    · rename_i hp
      apply List.countP_pos_iff.mpr
      exact ⟨r0, by rw [← hget]; exact List.getElem_mem _, hp⟩
    · exact Nat.zero_le _
  unfold pend
  rw [Array.set!_eq_setIfInBounds, Array.toList_setIfInBounds, List.countP_set hlt', hget]
  generalize accs.toList.countP (fun r => !r.isIdentity atol) = N at hpos ⊢
  cases h0 : r0.isIdentity atol <;> cases h1 : r.isIdentity atol <;> simp only [h0] at hpos <;>
    simp only [Bool.not_false, Bool.not_true, Bool.false_eq_true, if_true, if_false] at hpos ⊢ <;> omega

theorem pend_set_emit (atol : α) (accs : Array (Rot α)) (i : Nat) (r r0 : Rot α) (h : accs[i]? = some r0)
    (h0 : r0.isIdentity atol = false) (h1 : r.isIdentity atol = true) :
    pend atol (accs.set! i r) + 1 = pend atol accs := by
  have := pend_set atol accs i r r0 h
  rw [h0, h1] at this
  simpa only [Bool.false_eq_true, if_true, if_false, Nat.add_zero] using this

theorem pend_set_absorb (atol : α) (accs : Array (Rot α)) (i : Nat) (r r0 : Rot α) (h : accs[i]? = some r0)
    (h0 : r0.isIdentity atol = true) (h1 : r.isIdentity atol = false) :
    pend atol (accs.set! i r) = pend atol accs + 1 := by
  have := pend_set atol accs i r r0 h
  rw [h0, h1] at this
  simpa only [Bool.false_eq_true, if_true, if_false, Nat.add_zero] using this

theorem flushOps_pend (atol : α) (hdef : DefaultIsIdentity atol) (qs : List Int) :
    ∀ (accs : Array (Rot α)) (out : List (Stmt α)) (accs' : Array (Rot α)) (out' : List (Stmt α)),
      flushOps atol accs out qs = .ok (accs', out') →
      out'.length + pend atol accs' = out.length + pend atol accs := by
  induction qs with
  | nil =>
    intro accs out accs' out' h
    rw [flushOps_nil] at h; injection h with h; injection h with h1 h2
    subst h1; subst h2; rfl
  | cons q0 qs ih =>
    intro accs out accs' out' h
    cases hq0 : accGet? accs q0 with
    | none => rw [flushOps_cons_key atol accs out q0 qs hq0] at h; cases h
    | some r0 =>
      cases hid : r0.isIdentity atol with
      | true => rw [flushOps_cons_id atol accs out q0 qs r0 hq0 hid] at h; exact ih _ _ _ _ h
      | false =>
        rw [flushOps_cons_emit atol accs out q0 qs r0 hq0 hid] at h
        have h1 := ih _ _ _ _ h
        have h2 := pend_set_emit atol accs q0.toNat (defaultI atol q0.toNat) r0 (accGet?_some accs q0 r0 hq0).2
          hid (hdef _)
        simp only [List.length_cons] at h1
        omega

/-! #### the loop on a circuit in normal form -/

/-- the list is empty or starts with a barrier -/
def headNotBSR : List (Stmt α) → Bool
  | [] => true
  | s :: _ => !s.isBSR

theorem noAdjBSR_tail (s : Stmt α) (l : List (Stmt α)) (h : noAdjBSR (s :: l) = true) : noAdjBSR l = true := by
  cases l with
  | nil => rfl
  | cons y l => simp only [noAdjBSR, Bool.and_eq_true] at h; exact h.2

theorem headNotBSR_of_noAdj (s : Stmt α) (l : List (Stmt α)) (hs : s.isBSR = true)
    (h : noAdjBSR (s :: l) = true) : headNotBSR l = true := by
  cases l with
  | nil => rfl
  | cons y l =>
    simp only [noAdjBSR, hs, Bool.true_and, Bool.and_eq_true, Bool.not_eq_eq_eq_not, Bool.not_true] at h
    simp [headNotBSR, h.1]

theorem noAdj_trace_cons (q : Int) (s : Stmt α) (rest : List (Stmt α))
    (h : noAdjBSR (trace q (s :: rest)) = true) : noAdjBSR (trace q rest) = true := by
  by_cases hm : q ∈ s.qubits
  · rw [trace_cons_pos q s rest hm] at h; exact noAdjBSR_tail _ _ h
  · rw [trace_cons_neg q s rest hm] at h; exact h

/-- every rotation of the list, composed with the fresh accumulator of its qubit, gives a rotation that does not
    test as identity -/
def GoodRots (atol : α) (l : List (Stmt α)) : Prop :=
  ∀ s ∈ l, ∀ a, s.rot? = some a →
    ∃ r, composeRot atol a (defaultI atol a.q.toNat) = .ok r ∧ r.isIdentity atol = false

/-- every accumulator is the fresh `I(q)`, or a pending non-identity rotation whose qubit is next touched by a
    barrier (or never again) -/
def AccInv (atol : α) (n : Nat) (accs : Array (Rot α)) (rest : List (Stmt α)) : Prop :=
  ∀ q : Nat, q < n → ∃ acc, accs[q]? = some acc ∧
    (acc = defaultI atol q ∨ (acc.isIdentity atol = false ∧ headNotBSR (trace (q : Int) rest) = true))

/-- **the merge loop on a normal-form list**: no exception, and every statement is accounted for exactly once —
    either in `out` or as a pending accumulator. -/
theorem mergeLoop_idem (atol : α) (hdef : DefaultIsIdentity atol) (n : Nat) (rest : List (Stmt α)) :
    OperandsInRange n rest → GoodRots atol rest →
    (∀ q : Nat, q < n → noAdjBSR (trace (q : Int) rest) = true) →
    ∀ (accs : Array (Rot α)) (out : List (Stmt α)), accs.size = n → AccOK accs → AccInv atol n accs rest →
      ∃ accs' out', mergeLoop atol accs out rest = .inr (accs', out') ∧
        out'.length + pend atol accs' = out.length + pend atol accs + rest.length := by
  induction rest with
  | nil =>
    intro _ _ _ accs out _ _ _
    exact ⟨accs, out, mergeLoop_nil atol accs out, by simp⟩
  | cons s rest ih =>
    intro hr hgood hnf accs out hsz hok hinv
    have ih := ih (fun s' hs' => hr s' (List.mem_cons_of_mem _ hs'))
      (fun s' hs' => hgood s' (List.mem_cons_of_mem _ hs'))
      (fun q hq => noAdj_trace_cons _ s rest (hnf q hq))
    have hs := hr s List.mem_cons_self
    cases hb : s.isBSR with
    | true =>
      cases s with
      | gate g nm =>
        cases g with
        | bsr q0 ax an ph =>
          have hqr : inRange n q0 = true := hs q0 (by simp [Stmt.qubits, Gate.operands])
          have hqr' : 0 ≤ q0 ∧ q0 < (n : Int) := by
            simpa only [inRange, Bool.and_eq_true, decide_eq_true_eq] using hqr
          obtain ⟨acc0, hacc⟩ := accGet?_inRange accs q0 (by rw [hsz]; exact hqr)
          obtain ⟨_, hget⟩ := accGet?_some accs q0 acc0 hacc
          have hqn : q0.toNat < n := by omega
          have hcast : ((q0.toNat : Nat) : Int) = q0 := by omega
          have hmem : ((q0.toNat : Nat) : Int) ∈ (Stmt.gate (Gate.bsr q0 ax an ph) nm).qubits := by
            simp [Stmt.qubits, Gate.operands, hcast]
          -- the accumulator of `q0` is fresh
          have hfresh : acc0 = defaultI atol q0.toNat := by
            obtain ⟨acc, hacc', hcase⟩ := hinv q0.toNat hqn
            rw [hget] at hacc'; injection hacc' with hacc'; subst hacc'
            rcases hcase with h | ⟨_, h⟩
            · exact h
            · rw [trace_cons_pos _ _ _ hmem] at h
              simp [headNotBSR, Stmt.isBSR] at h
          obtain ⟨r, hc, hrid⟩ := hgood _ List.mem_cons_self ⟨q0, ax, an, ph, nm⟩ rfl
          rw [← hfresh] at hc
          rw [mergeLoop_bsr_ok atol accs out rest q0 ax an ph nm acc0 r hacc hc]
          have hrq : r.q = ((q0.toNat : Nat) : Int) := by
            rw [(composeRot_q atol _ _ _ hc).2]; exact hcast.symm
          have hlt : q0.toNat < accs.size := by rw [hsz]; exact hqn
          have hinv1 : AccInv atol n (accs.set! q0.toNat r) rest := by
            intro q hq
            by_cases he : q = q0.toNat
            · subst he
              refine ⟨r, getElem?_set!_self accs _ r hlt, Or.inr ⟨hrid, ?_⟩⟩
              have := hnf q0.toNat hqn
              rw [trace_cons_pos _ _ _ hmem] at this
              exact headNotBSR_of_noAdj _ _ rfl this
            · obtain ⟨acc, hacc', hcase⟩ := hinv q hq
              refine ⟨acc, by rw [getElem?_set!_ne accs _ _ _ (Ne.symm he)]; exact hacc', ?_⟩
              have hnm : ((q : Nat) : Int) ∉ (Stmt.gate (Gate.bsr q0 ax an ph) nm).qubits := by
                simp only [Stmt.qubits, Gate.operands, List.mem_singleton]; omega
              rw [trace_cons_neg _ _ _ hnm] at hcase
              exact hcase
          obtain ⟨accs', out', h1, h2⟩ := ih (accs.set! q0.toNat r) out (by simpa using hsz)
            (hok.set _ _ hrq) hinv1
          refine ⟨accs', out', h1, ?_⟩
          have hp := pend_set_absorb atol accs q0.toNat r acc0 hget (by rw [hfresh]; exact hdef _) hrid
          simp only [List.length_cons]
          omega
        | matrix m ops => simp [Stmt.isBSR] at hb
        | ctrl c g => simp [Stmt.isBSR] at hb
      | measure q b ax nm => simp [Stmt.isBSR] at hb
      | reset q nm => simp [Stmt.isBSR] at hb
      | comment c => simp [Stmt.isBSR] at hb
    | false =>
      obtain ⟨accs1, out1, hf, hsz1, hok1⟩ := flushOps_ok atol n s.qubits hs accs out hsz hok
      rw [mergeLoop_nonBSR_ok atol accs out rest s hb accs1 out1 hf]
      have hinv1 : AccInv atol n accs1 rest := by
        intro q hq
        obtain ⟨acc, hacc', hcase⟩ := hinv q hq
        obtain ⟨_, _, h3⟩ := flushOps_trace atol hdef q s.qubits accs out accs1 out1 acc hok hacc' hf
        by_cases hcnd : (q : Int) ∈ s.qubits ∧ acc.isIdentity atol = false
        · rw [if_pos hcnd] at h3
          exact ⟨_, h3.1, Or.inl rfl⟩
        · rw [if_neg hcnd] at h3
          refine ⟨acc, h3.1, ?_⟩
          rcases hcase with h | ⟨hnid, h⟩
          · exact Or.inl h
          · have hnm : (q : Int) ∉ s.qubits := fun hm => hcnd ⟨hm, hnid⟩
            rw [trace_cons_neg _ _ _ hnm] at h
            exact Or.inr ⟨hnid, h⟩
      obtain ⟨accs', out', h1, h2⟩ := ih accs1 (s :: out1) hsz1 hok1 hinv1
      refine ⟨accs', out', h1, ?_⟩
      have hp := flushOps_pend atol hdef s.qubits accs out accs1 out1 hf
      simp only [List.length_cons] at h2 ⊢
      omega

/-- **per-qubit shape**: on a trace in normal form (no two adjacent rotations, every rotation survives the
    composition with `I(q)`), the specification `specTrace` started from the fresh accumulator keeps the length and
    the barriers: each rotation, alone in its segment, is replaced by exactly one rotation in the same place. -/
theorem specTrace_idem_shape (atol : α) (hdef : DefaultIsIdentity atol) (q : Nat) :
    ∀ (k : Nat) (T : List (Stmt α)), T.length = k → noAdjBSR T = true →
      (∀ s ∈ T, ∀ a, s.rot? = some a →
        ∃ r, composeRot atol a (defaultI atol q) = .ok r ∧ r.isIdentity atol = false) →
      (specTrace atol q (defaultI atol q) T).length = T.length ∧
      (specTrace atol q (defaultI atol q) T).map Stmt.isBSR = T.map Stmt.isBSR ∧
      (specTrace atol q (defaultI atol q) T).filter notBSR = T.filter notBSR := by
  intro k
  induction k using Nat.strongRecOn with
  | _ k ih =>
    intro T hk hnf hgood
    cases T with
    | nil => rw [specTrace_nil, hdef]; simp
    | cons s rest =>
      cases hrot : s.rot? with
      | none =>
        have hb : s.isBSR = false := by
          cases h : s.isBSR with
          | false => rfl
          | true => obtain ⟨r, h'⟩ := (rot?_isBSR s).mp h; rw [hrot] at h'; cases h'
        rw [specTrace_barrier_id atol q _ s rest hrot (hdef q)]
        obtain ⟨h1, h2, h3⟩ := ih rest.length (by simp at hk; omega) rest rfl (noAdjBSR_tail _ _ hnf)
          (fun s' hs' => hgood s' (List.mem_cons_of_mem _ hs'))
        simp [h1, h2, h3, notBSR, hb]
      | some a =>
        have hb : s.isBSR = true := (rot?_isBSR s).mpr ⟨a, hrot⟩
        obtain ⟨r, hc, hrid⟩ := hgood s List.mem_cons_self a hrot
        rw [specTrace_rot atol q _ a r s rest hrot hc]
        cases rest with
        | nil => rw [specTrace_nil, hrid]; simp [notBSR, hb]; rfl
        | cons b rest' =>
          have hhead := headNotBSR_of_noAdj s (b :: rest') hb hnf
          have hbb : b.isBSR = false := by simpa [headNotBSR] using hhead
          rw [specTrace_barrier_emit atol q r b rest' (rot?_none_of_nonBSR b hbb) hrid]
          obtain ⟨h1, h2, h3⟩ := ih rest'.length (by simp at hk; omega) rest' rfl
            (noAdjBSR_tail _ _ (noAdjBSR_tail _ _ hnf))
            (fun s' hs' => hgood s' (List.mem_cons_of_mem _ (List.mem_cons_of_mem _ hs')))
          simp [h1, h2, h3, notBSR, hb, hbb, Rot.toStmt_isBSR]

/-- **a second merge of a normal-form circuit** (operands in range, no two rotations adjacent in any qubit's trace,
    every rotation survives the composition with the fresh accumulator): no exception, same number of statements. -/
theorem merge_idem_of_normal_form (atol : α) (hdef : DefaultIsIdentity atol) (c : Circuit α)
    (hr : OperandsInRange c.nQubits c.stmts) (hgood : GoodRots atol c.stmts)
    (hnf : ∀ q : Nat, q < c.nQubits → noAdjBSR (trace (q : Int) c.stmts) = true) :
    (merge atol c).2 = none ∧ (merge atol c).1.stmts.length = c.stmts.length := by
  obtain ⟨hsz, hok⟩ := initAccs_ok atol c.nQubits
  have hget : ∀ q, q < c.nQubits →
      (Array.ofFn (n := c.nQubits) fun i => defaultI atol i.val)[q]? = some (defaultI atol q) := by
    intro q hq; rw [Array.getElem?_ofFn]; simp [hq]
  have hinv : AccInv atol c.nQubits (Array.ofFn (n := c.nQubits) fun i => defaultI atol i.val) c.stmts :=
    fun q hq => ⟨_, hget q hq, Or.inl rfl⟩
  have hp0 : pend atol (Array.ofFn (n := c.nQubits) fun i => defaultI atol i.val) = 0 := by
    unfold pend
    rw [List.countP_eq_zero]
    intro r hr'
    obtain ⟨i, hi⟩ := List.getElem?_of_mem hr'
    have hi' : i < c.nQubits ∧ defaultI atol i = r := by simpa using hi
    rw [← hi'.2, hdef]; simp
  obtain ⟨accs', out', h1, h2⟩ := mergeLoop_idem atol hdef c.nQubits c.stmts hr hgood hnf _ [] hsz hok hinv
  rw [merge_eq, h1]
  refine ⟨rfl, ?_⟩
  simp only [List.length_append, List.length_reverse, mergeTail_length]
  rw [hp0] at h2
  simpa using h2

end generic

/-! ### 2'. A second merge at ℝ: every emitted rotation survives the composition with `I(q)` -/

/-- a rotation with a unit axis whose half-angle sine is at least the tolerance: exactly what makes
    `composeRot · I(q)` take the general branch -/
def Stable (atol : ℝ) (a : Rot ℝ) : Prop := UnitVec a.axis ∧ atol ≤ |Real.sin (a.angle / 2)|

theorem unitVec_of_sq (v : Vec3 ℝ) (h : v.1 ^ 2 + v.2.1 ^ 2 + v.2.2 ^ 2 = 1) : UnitVec v := by
  unfold UnitVec; rw [← h]; ring

theorem abs_sin_half_normalizeAngle (atol C : ℝ) :
    |Real.sin (normalizeAngle atol C / 2)| = |Real.sin (C / 2)| := by
  obtain ⟨m, hm⟩ := normalizeAngle_shift atol C
  rw [hm]
  have e : (C + m * (2 * Real.pi)) / 2 = C / 2 + m * Real.pi := by ring
  rw [e, Real.sin_add_int_mul_pi, abs_mul, abs_zpow, abs_neg, abs_one, one_zpow, one_mul]

/-- a rounded number that is `0` was small -/
theorem abs_le_of_roundTo_eq_zero (x : ℝ) (h : roundTo s7 x = 0) : |x| ≤ 1 / 20000000 := by
  have := roundTo_error s7 x (by rw [s7_eq]; norm_num)
  rw [h, zero_sub, abs_neg, s7_eq] at this
  linarith [this, show (1 : ℝ) / (2 * 10000000) = 1 / 20000000 by norm_num]

/-- **no crisp hypothesis needed**: a stable rotation composed with the fresh accumulator gives a rotation on the
    same qubit that does not test as identity (the rounded axis `± a.axis` cannot vanish: the axis is a unit vector). -/
theorem compose_defaultI_ok (atol : ℝ) (hatol : 0 < atol) (hpi : atol ≤ Real.pi) (a : Rot ℝ) (q : Nat)
    (hq : a.q = (q : Int)) (hst : Stable atol a) :
    ∃ r, composeRot atol a (defaultI atol q) = .ok r ∧ r.isIdentity atol = false := by
  obtain ⟨ha, hs⟩ := hst
  rw [defaultI_eq_dI atol hatol hpi q, composeRot_real atol a (dI q) ha (dI_unit q) hq]
  have hns : ¬ |Real.sin (cTheta a (dI q) / 2)| < atol := by
    rw [sin_half_cTheta_dI, abs_abs]; exact not_lt.mpr hs
  rw [if_neg hns]
  have hne : Real.sin (a.angle / 2) ≠ 0 := by
    intro h0; rw [h0, abs_zero] at hs; linarith
  cases hm : mkAxis (roundTo s7 (cAxis a (dI q)).1, roundTo s7 (cAxis a (dI q)).2.1, roundTo s7 (cAxis a (dI q)).2.2) with
  | error e =>
    exfalso
    obtain ⟨hv, _⟩ := (mkAxis_error_iff_value _ _).mp hm
    simp only [Prod.mk.injEq] at hv
    obtain ⟨h1, h2, h3⟩ := hv
    have b1 := abs_le_of_roundTo_eq_zero _ h1
    have b2 := abs_le_of_roundTo_eq_zero _ h2
    have b3 := abs_le_of_roundTo_eq_zero _ h3
    rw [cAxis_dI] at b1 b2 b3
    simp only at b1 b2 b3
    have hsg : |Real.sin (a.angle / 2) / (|Real.sin (a.angle / 2)|)| = 1 := by
      rw [abs_div, abs_abs, div_self (abs_ne_zero.mpr hne)]
    rw [abs_mul, hsg, one_mul] at b1 b2 b3
    unfold UnitVec at ha
    have e1 := abs_mul_abs_self a.axis.1
    have e2 := abs_mul_abs_self a.axis.2.1
    have e3 := abs_mul_abs_self a.axis.2.2
    nlinarith [abs_nonneg a.axis.1, abs_nonneg a.axis.2.1, abs_nonneg a.axis.2.2]
  | ok ax =>
    refine ⟨_, rfl, ?_⟩
    have hb := angle_bound atol _ hns
    have : ¬ |normalizeAngle atol (cTheta a (dI q))| < atol := by linarith
    simp [Rot.isIdentity, this]

/-- a `composeRot` result that does not test as identity is stable -/
theorem fromCompose_stable (atol : ℝ) (hatol : 0 < atol) (a b r : Rot ℝ)
    (h : composeRot atol a b = .ok r) (hid : r.isIdentity atol = false) : Stable atol r := by
  unfold composeRot at h
  split at h
  · cases h
  · simp only at h
    split at h
    · injection h with h
      rw [← h] at hid
      simp [Rot.isIdentity, identityRot, hatol] at hid
    · rename_i hs
      split at h
      · cases h
      · rename_i ax hax
        injection h with h
        rw [← h]
        simp only [absS_real, trig_sin_real, two_real] at hs
        refine ⟨unitVec_of_sq _ (mkAxis_ok _ _ hax).2.2, ?_⟩
        simp only [two_real]
        rw [abs_sin_half_normalizeAngle]
        exact not_lt.mp hs

/-- the axis of every parameter-free default rotation is a unit vector (it went through `mkAxis`) -/
theorem named_unit (atol : ℝ) (n : String) (hn : n ∈ Gen.bsrNoParams) (q q' : Int) (ax : Vec3 ℝ) (an ph : ℝ)
    (nm : Option (Named ℝ)) (h : named atol n [.qubit q] = .ok (.bsr q' ax an ph, nm)) : UnitVec ax := by
  simp only [Gen.bsrNoParams, List.mem_cons, List.not_mem_nil, or_false] at hn
  rcases hn with rfl | rfl | rfl | rfl | rfl | rfl | rfl | rfl | rfl | rfl | rfl | rfl | rfl
  all_goals
    simp [named, callGate, Gen.gateTable, bindArgs, GExpr.eval, SExpr.eval, envQubit, Env.find?, mkBSR,
      bind, Except.bind, pure, Except.pure, intToScalar] at h
    revert h
    generalize hm : mkAxis (α := ℝ) _ = m
    cases m with
    | error e => intro h; simp at h
    | ok v =>
      intro h
      simp at h
      rw [← h.1.2.1]
      exact unitVec_of_sq _ (mkAxis_ok _ _ hm).2.2

theorem quarter_le_sin_half (y : ℝ) (h1 : Real.pi / 4 ≤ y) (h2 : y ≤ Real.pi) : 1 / 4 ≤ Real.sin (y / 2) := by
  have hpi := Real.pi_pos
  have h := Real.mul_le_sin (x := y / 2) (by linarith) (by linarith)
  have e : 2 / Real.pi * (y / 2) = y / Real.pi := by field_simp
  rw [e] at h
  have : 1 / 4 ≤ y / Real.pi := by rw [le_div_iff₀ hpi]; linarith
  linarith

theorem quarter_le_abs_sin_half (x : ℝ) (h1 : Real.pi / 4 ≤ |x|) (h2 : |x| ≤ Real.pi) :
    1 / 4 ≤ |Real.sin (x / 2)| := by
  rcases le_or_gt 0 x with h | h
  · rw [abs_of_nonneg h] at h1 h2
    exact le_trans (quarter_le_sin_half x h1 h2) (le_abs_self _)
  · rw [abs_of_neg h] at h1 h2
    have := quarter_le_sin_half (-x) h1 h2
    rw [neg_div, Real.sin_neg] at this
    exact le_trans this (neg_le_abs _)

theorem defaultAngle_abs_le_pi (n : String) (hn : n ∈ Gen.bsrNoParams) (hI : n ≠ "I") :
    |defaultAngle n| ≤ Real.pi := by
  have hpi := Real.pi_pos
  rcases defaultAngle_vals n hn hI with h | h | h | h | h <;> rw [h] <;> rw [abs_le] <;>
    constructor <;> linarith

/-- what the final flush emits for a non-identity `composeRot` result is stable, renamed or not
    (`0 < atol ≤ 1/4`: the smallest default angle is `π/4`, and `sin(π/8) ≥ 1/4`) -/
theorem finalRot_stable (atol : ℝ) (hatol : 0 < atol) (h4 : atol ≤ 1 / 4) (a b r : Rot ℝ)
    (hab : composeRot atol a b = .ok r) (hid : r.isIdentity atol = false) : Stable atol (finalRot atol r) := by
  have hpi4 : atol ≤ Real.pi / 4 := by linarith [Real.two_le_pi]
  have hst := fromCompose_stable atol hatol a b r hab hid
  have hlarge := composeRot_angle_large atol hatol a b r hab hid
  unfold finalRot
  split
  · rcases tryName_cases atol r with h | ⟨n, hn, q', ax, an, ph, nm, hnamed, hcl, _, heq⟩
    · rw [h]; exact hst
    · rw [heq]
      have han := named_angle atol n hn r.q q' ax an ph nm hnamed
      have hax := named_unit atol n hn r.q q' ax an ph nm hnamed
      by_cases hI : n = "I"
      · exfalso
        subst hI
        have : an = 0 := by
          rw [han]
          simp only [defaultAngle, ↓reduceIte]
          exact normalizeAngle_zero atol hatol (by linarith [Real.pi_pos])
        subst this
        simp only [closeTo, absS_real, zero_real, zero_mul, add_zero, zero_sub, abs_neg,
          decide_eq_true_eq] at hcl
        linarith
      · obtain ⟨e1, e2⟩ := defaultAngle_not_I atol hatol hpi4 n hn hI
        rw [e1] at han
        refine ⟨hax, ?_⟩
        show atol ≤ |Real.sin (an / 2)|
        rw [han]
        exact le_trans h4 (quarter_le_abs_sin_half _ e2 (defaultAngle_abs_le_pi n hn hI))
  · exact hst

/-- **every rotation in the output of a non-raising merge is stable** (`0 < atol ≤ 1/4`) -/
theorem merge_output_stable (atol : ℝ) (hatol : 0 < atol) (h4 : atol ≤ 1 / 4) (c : Circuit ℝ)
    (hne : (merge atol c).2 = none) (s : Stmt ℝ) (hs : s ∈ (merge atol c).1.stmts) (a : Rot ℝ)
    (ha : s.rot? = some a) : Stable atol a := by
  have hdef := defaultIsIdentity_real atol hatol (by linarith [Real.two_le_pi])
  obtain ⟨r0, hid, ⟨x, y, hxy⟩, h | h⟩ :=
    merge_emitted_nonidentity atol hdef c hne s hs ((rot?_isBSR s).mpr ⟨a, ha⟩)
  · rw [h, Rot.rot?_toStmt] at ha; injection ha with ha; rw [← ha]
    exact fromCompose_stable atol hatol x y r0 hxy hid
  · rw [h, Rot.rot?_toStmt] at ha; injection ha with ha; rw [← ha]
    exact finalRot_stable atol hatol h4 x y r0 hxy hid

theorem rot?_qubits {α : Type} [Scalar α] (s : Stmt α) (a : Rot α) (h : s.rot? = some a) : s.qubits = [a.q] := by
  cases s with
  | gate g nm =>
    cases g with
    | bsr q ax an ph => simp only [Stmt.rot?, Option.some.injEq] at h; subst h; rfl
    | matrix m ops => simp [Stmt.rot?] at h
    | ctrl c g => simp [Stmt.rot?] at h
  | measure q b ax nm => simp [Stmt.rot?] at h
  | reset q nm => simp [Stmt.rot?] at h
  | comment c => simp [Stmt.rot?] at h

/-- the hypothesis `GoodRots` of the structural theorem holds for the output of a merge, with **no crisp
    hypothesis** -/
theorem merge_output_goodRots (atol : ℝ) (hatol : 0 < atol) (h4 : atol ≤ 1 / 4) (c : Circuit ℝ)
    (hr : OperandsInRange c.nQubits c.stmts) (hne : (merge atol c).2 = none) :
    GoodRots atol (merge atol c).1.stmts := by
  intro s hs a ha
  have hst := merge_output_stable atol hatol h4 c hne s hs a ha
  have hrange := merge_output_inRange atol c hr hne s hs a.q (by rw [rot?_qubits s a ha]; simp)
  simp only [inRange, Bool.and_eq_true, decide_eq_true_eq] at hrange
  exact compose_defaultI_ok atol hatol (by linarith [Real.two_le_pi]) a a.q.toNat (by omega) hst

/-- **C14: merging again changes neither the number of statements nor raises.**  For a circuit with in-range
    operands on which the merge pass does not raise, and `0 < atol ≤ 1/4`: a second merge does not raise and returns
    a circuit with the same number of statements, the same registers and literally the same non-rotation statements.
    No crisp hypothesis is needed: every emitted rotation has a unit axis and `|sin(θ/2)| ≥ atol`
    (`merge_output_stable`), which is all the composition with the fresh accumulator needs. -/
theorem merge_length_idem (atol : ℝ) (hatol : 0 < atol) (h4 : atol ≤ 1 / 4) (c : Circuit ℝ)
    (hr : OperandsInRange c.nQubits c.stmts) (hne : (merge atol c).2 = none) :
    (merge atol (merge atol c).1).2 = none ∧
    (merge atol (merge atol c).1).1.stmts.length = (merge atol c).1.stmts.length ∧
    (merge atol (merge atol c).1).1.stmts.filter notBSR = (merge atol c).1.stmts.filter notBSR ∧
    (merge atol (merge atol c).1).1.stmts.countP Stmt.isBSR = (merge atol c).1.stmts.countP Stmt.isBSR ∧
    (merge atol (merge atol c).1).1.nQubits = c.nQubits ∧ (merge atol (merge atol c).1).1.nBits = c.nBits := by
  have hpi4 : atol ≤ Real.pi / 4 := by linarith [Real.two_le_pi]
  have hdef := defaultIsIdentity_real atol hatol (by linarith [Real.two_le_pi])
  have hnf := (merge_normal_form_real atol hatol hpi4 c hne).1
  obtain ⟨h1, h2⟩ := merge_idem_of_normal_form atol hdef (merge atol c).1
    (merge_output_inRange atol c hr hne) (merge_output_goodRots atol hatol h4 c hr hne)
    (fun q hq => hnf q (by rw [(merge_registers atol c).1] at hq; exact hq))
  have h3 := merge_filter atol (merge atol c).1
  refine ⟨h1, h2, h3, ?_, ?_, ?_⟩
  · have key : ∀ l : List (Stmt ℝ), l.length = (l.filter notBSR).length + l.countP Stmt.isBSR := by
      intro l
      induction l with
      | nil => rfl
      | cons x l ih =>
        cases hx : x.isBSR <;> simp [notBSR, hx, ih] <;> omega
    have e1 := key (merge atol (merge atol c).1).1.stmts
    have e2 := key (merge atol c).1.stmts
    rw [h3] at e1
    omega
  · rw [(merge_registers atol _).1, (merge_registers atol c).1]
  · rw [(merge_registers atol _).2, (merge_registers atol c).2]

/-- **C14, per qubit.**  For every qubit of the register, the trace after the second merge has the same length and
    the same shape (rotation / barrier pattern, and literally the same barriers) as the trace after the first. -/
theorem merge_trace_idem (atol : ℝ) (hatol : 0 < atol) (h4 : atol ≤ 1 / 4) (c : Circuit ℝ)
    (hr : OperandsInRange c.nQubits c.stmts) (hne : (merge atol c).2 = none) (q : Nat) (hq : q < c.nQubits) :
    (trace (q : Int) (merge atol (merge atol c).1).1.stmts).length = (trace (q : Int) (merge atol c).1.stmts).length ∧
    (trace (q : Int) (merge atol (merge atol c).1).1.stmts).map Stmt.isBSR
      = (trace (q : Int) (merge atol c).1.stmts).map Stmt.isBSR ∧
    (trace (q : Int) (merge atol (merge atol c).1).1.stmts).filter notBSR
      = (trace (q : Int) (merge atol c).1.stmts).filter notBSR := by
  have hpi4 : atol ≤ Real.pi / 4 := by linarith [Real.two_le_pi]
  have hdef := defaultIsIdentity_real atol hatol (by linarith [Real.two_le_pi])
  have hne2 := (merge_length_idem atol hatol h4 c hr hne).1
  rw [merge_per_qubit_order atol hdef (merge atol c).1 hne2 q (by rw [(merge_registers atol c).1]; exact hq)]
  refine specTrace_idem_shape atol hdef q _ _ rfl ((merge_normal_form_real atol hatol hpi4 c hne).1 q hq) ?_
  intro s hs a ha
  have hs' : s ∈ (merge atol c).1.stmts ∧ Stmt.touches (q : Int) s = true := by
    simpa [trace] using hs
  have hqa : a.q = (q : Int) := by
    have := hs'.2
    simp only [Stmt.touches, rot?_qubits s a ha, List.mem_singleton, decide_eq_true_eq] at this
    exact this.symm
  obtain ⟨r, hc, hrid⟩ := merge_output_goodRots atol hatol h4 c hr hne s hs'.1 a ha
  rw [hqa, Int.toNat_natCast] at hc
  exact ⟨r, hc, hrid⟩

/-- **C14, the operation.**  Under the analytic crisp hypotheses `CrispR` of `merge_sem_global_real` along the *second*
    run (honest identity tests and exact rounding in each composition of an emitted rotation with `I(q)` — cf.
    `compose_with_identity_real` — and an operator-preserving final renaming), the twice-merged circuit implements
    the same operation as the once-merged one, up to one global phase, for all measurement/reset outcomes.
    That the second run does not raise is *proved* (`merge_length_idem`), not assumed. -/
theorem merge_idem_sem (atol : ℝ) (hatol : 0 < atol) (h4 : atol ≤ 1 / 4) (c : Circuit ℝ)
    (hr : OperandsInRange c.nQubits c.stmts) (hne : (merge atol c).2 = none)
    (hc : CrispR atol (regSemQ (merge atol c).1.nQubits) (merge atol c).1.nQubits ((fun q => defaultI atol q), [])
      ((merge atol c).1.stmts.map absStmt)) :
    CircEquiv c.nQubits (merge atol c).1.stmts (merge atol (merge atol c).1).1.stmts ∧
    SameBarriers (merge atol c).1.stmts (merge atol (merge atol c).1).1.stmts := by
  have h := merge_sem_global_real atol hatol (by linarith [Real.two_le_pi]) (merge atol c).1
    (merge_output_inRange atol c hr hne) (merge_length_idem atol hatol h4 c hr hne).1 hc
  rw [(merge_registers atol c).1] at h
  exact h

/-! ### Non-vacuity -/

/-- `Rx(π)` on qubit 0, named -/
noncomputable def exRx : Rot ℝ := ⟨0, (1, 0, 0), Real.pi, 0, some ⟨"Rx", [.qubit 0, .float Real.pi]⟩⟩

theorem exRx_unit : UnitVec exRx.axis := by simp [UnitVec, exRx]

theorem exRx_roundExact : RoundExact exRx := by
  refine ⟨?_, roundTo_exact _ 0 (by simp [exRx])⟩
  rintro σ (rfl | rfl)
  · exact ⟨roundTo_exact _ 10000000 (by rw [s7_eq]; simp [exRx]), roundTo_exact _ 0 (by simp [exRx]),
      roundTo_exact _ 0 (by simp [exRx])⟩
  · exact ⟨roundTo_exact _ (-10000000) (by rw [s7_eq]; simp [exRx]), roundTo_exact _ 0 (by simp [exRx]),
      roundTo_exact _ 0 (by simp [exRx])⟩

theorem exRx_sin : Real.sin (exRx.angle / 2) = 1 := by simp [exRx]

/-- `compose_with_identity_general` on `Rx(π)`: re-emitted as one rotation with angle `π`, the same quaternion up to
    sign and the same name -/
example : ∃ r, composeRot (1 / 10 ^ 7 : ℝ) exRx (defaultI (1 / 10 ^ 7 : ℝ) 0) = .ok r ∧ r.q = ((0 : Nat) : Int) ∧
    r.angle = |exRx.angle| ∧ (r.quat = exRx.quat ∨ r.quat = -exRx.quat) ∧ r.nm = exRx.nm ∧
    r.isIdentity (1 / 10 ^ 7 : ℝ) = false := by
  have hpi := Real.two_le_pi
  refine compose_with_identity_general _ (by norm_num) (by linarith) exRx 0 rfl exRx_unit ?_ ?_ ?_ ?_ exRx_roundExact
  · simp only [exRx]; linarith
  · simp [exRx]
  · simp only [exRx]; rw [abs_of_pos Real.pi_pos]; linarith
  · rw [exRx_sin]; intro h; norm_num at h

/-- `merge_keeps_name_real` on the same rotation: alone in its segment, it is re-emitted as `Rx` -/
example : ∃ r, composeRot (1 / 10 ^ 7 : ℝ) exRx (defaultI (1 / 10 ^ 7 : ℝ) 0) = .ok r ∧
    r.nm = some ⟨"Rx", [.qubit 0, .float Real.pi]⟩ ∧ finalRot (1 / 10 ^ 7 : ℝ) r = r := by
  have hpi := Real.two_le_pi
  have hst : Stable (1 / 10 ^ 7 : ℝ) exRx := ⟨exRx_unit, by rw [exRx_sin]; norm_num⟩
  obtain ⟨r, hr, hnid⟩ := compose_defaultI_ok _ (by norm_num) (by linarith) exRx 0 rfl hst
  obtain ⟨h1, h2, _⟩ := merge_keeps_name_real _ (by norm_num) (by linarith) exRx 0 rfl exRx_unit r hr hnid
  exact ⟨r, hr, h1, h2 (by simp [exRx])⟩

/-- `merge_length_idem` on `X(π) q0; measure q0` (the circuit `exCircR2` of `MergeSemReal`, on which the first merge
    performs a real composition and a flush) at `ATOL = 1e-7` -/
example : (merge (1 / 10 ^ 7 : ℝ) (merge (1 / 10 ^ 7 : ℝ) exCircR2).1).2 = none ∧
    (merge (1 / 10 ^ 7 : ℝ) (merge (1 / 10 ^ 7 : ℝ) exCircR2).1).1.stmts.length
      = (merge (1 / 10 ^ 7 : ℝ) exCircR2).1.stmts.length := by
  have hpi := Real.two_le_pi
  have hatol : (0 : ℝ) < 1 / 10 ^ 7 := by norm_num
  have h := merge_length_idem _ hatol (by norm_num) exCircR2
    (by simp [OperandsInRange, exCircR2, Stmt.qubits, Gate.operands, inRange])
    (ex2_no_error _ hatol (by norm_num; linarith))
  exact ⟨h.1, h.2.1⟩

section ex2
variable (atol : ℝ) (hatol : 0 < atol) (hpi : atol ≤ Real.pi / 4)
include hatol hpi

theorem ex2_compose_eq : composeRot atol exU (defaultI atol 0) = .ok exU := by
  have hle : atol ≤ Real.pi := by linarith [Real.pi_pos]
  have hdu : UnitVec (defaultI atol 0).axis := by
    rw [defaultI_real atol hatol hle]; exact unitVec_x
  have hq : exU.q = (defaultI atol 0).q := by rw [defaultI_q]; rfl
  have hph : exU.phase + (defaultI atol 0).phase = 0 := by
    rw [defaultI_real atol hatol hle]; simp [exU]
  have hnid : exU.isIdentity atol = false := by
    have : ¬ |Real.pi| < atol := by rw [abs_of_pos Real.pi_pos]; linarith [Real.pi_pos]
    simp [exU, Rot.isIdentity, this]
  rw [composeRot_real atol exU (defaultI atol 0) exU_unit hdu hq, if_neg (ex2_not_small atol hatol hpi),
    ex2_cAxis atol hatol hpi, ex2_cTheta atol hatol hpi, hph,
    roundTo_exact 1 10000000 (by rw [s7_eq]; norm_num), roundTo_exact 0 0 (by simp),
    mkAxis_unit _ unitVec_x, normalizeAngle_zero atol hatol hle,
    normalizeAngle_of_mem atol _ hatol (by linarith [Real.pi_pos]) le_rfl, hnid,
    defaultIsIdentity_real atol hatol hle 0]
  simp [Except.map, exU]

theorem ex2_merge_fixed : (merge atol exCircR2).1 = exCircR2 := by
  have hle : atol ≤ Real.pi := by linarith [Real.pi_pos]
  have hok := ex2_compose_eq atol hatol hpi
  have hnid : exU.isIdentity atol = false := by
    have : ¬ |Real.pi| < atol := by rw [abs_of_pos Real.pi_pos]; linarith [Real.pi_pos]
    simp [exU, Rot.isIdentity, this]
  have hget : accGet? (Array.ofFn (n := 1) fun i => defaultI atol i.val) 0 = some (defaultI atol 0) := by
    simp [accGet?]
  have hget2 : accGet? ((Array.ofFn (n := 1) fun i => defaultI atol i.val).set! 0 exU) 0 = some exU := by
    simp [accGet?]
  have h : mergeLoop atol (Array.ofFn (n := exCircR2.nQubits) fun i => defaultI atol i.val) [] exCircR2.stmts
      = .inr (((Array.ofFn (n := 1) fun i => defaultI atol i.val).set! 0 exU).set! 0 (defaultI atol 0),
          [.measure 0 0 (0, 0, 1) none, exU.toGStmt.toStmt]) := by
    show mergeLoop atol (Array.ofFn (n := 1) fun i => defaultI atol i.val) []
      [.gate (.bsr 0 (1, 0, 0) Real.pi 0) none, .measure 0 0 (0, 0, 1) none] = _
    rw [mergeLoop_bsr_ok atol _ [] _ 0 (1, 0, 0) Real.pi 0 none (defaultI atol 0) exU hget hok]
    have hf : flushOps atol ((Array.ofFn (n := 1) fun i => defaultI atol i.val).set! 0 exU) []
        (Stmt.measure 0 0 ((0 : ℝ), (0 : ℝ), (1 : ℝ)) none).qubits
        = .ok (((Array.ofFn (n := 1) fun i => defaultI atol i.val).set! 0 exU).set! 0 (defaultI atol 0),
            [exU.toGStmt.toStmt]) := by
      show flushOps atol _ [] [0] = _
      rw [flushOps_cons_emit atol _ [] 0 [] exU hget2 hnid, flushOps_nil]
      rfl
    show mergeLoop atol ((Array.ofFn (n := 1) fun i => defaultI atol i.val).set! 0 exU) []
      [.measure 0 0 (0, 0, 1) none] = _
    rw [mergeLoop_nonBSR_ok atol _ [] [] (.measure 0 0 (0, 0, 1) none) rfl _ _ hf, mergeLoop_nil]
  rw [merge_eq, h]
  have htail : mergeTail atol (((Array.ofFn (n := 1) fun i => defaultI atol i.val).set! 0 exU).set! 0
      (defaultI atol 0)) = [] := by
    simp [mergeTail, defaultIsIdentity_real atol hatol hle 0]
  simp only [htail]
  rfl

end ex2

/-- `merge_idem_sem` on `X(π) q0; measure q0`: the once-merged circuit is the circuit itself (`ex2_merge_fixed`), so
    the crisp hypothesis of the second run is `ex2_crispR` -/
example : CircEquiv 1 (merge (1 / 10 ^ 7 : ℝ) exCircR2).1.stmts
      (merge (1 / 10 ^ 7 : ℝ) (merge (1 / 10 ^ 7 : ℝ) exCircR2).1).1.stmts := by
  have hpi := Real.two_le_pi
  have hatol : (0 : ℝ) < 1 / 10 ^ 7 := by norm_num
  have h4 : (1 / 10 ^ 7 : ℝ) ≤ Real.pi / 4 := by norm_num; linarith
  refine (merge_idem_sem _ hatol (by norm_num) exCircR2
    (by simp [OperandsInRange, exCircR2, Stmt.qubits, Gate.operands, inRange])
    (ex2_no_error _ hatol h4) ?_).1
  rw [ex2_merge_fixed _ hatol h4]
  exact crispR_congr _ freeSemR (regSemQ 1) (fun _ => rfl) 1 _ _ (ex2_crispR _ hatol h4)

/-- `merge_trace_idem` on the same circuit, qubit 0 -/
example := merge_trace_idem (1 / 10 ^ 7 : ℝ) (by norm_num) (by norm_num) exCircR2
  (by simp [OperandsInRange, exCircR2, Stmt.qubits, Gate.operands, inRange])
  (ex2_no_error _ (by norm_num) (by norm_num; linarith [Real.two_le_pi])) 0 (by simp [exCircR2])

end OSq

#print axioms OSq.compose_with_identity_real
#print axioms OSq.compose_with_identity_general
#print axioms OSq.merge_keeps_name_real
#print axioms OSq.merge_output_inRange
#print axioms OSq.mergeLoop_idem
#print axioms OSq.merge_idem_of_normal_form
#print axioms OSq.compose_defaultI_ok
#print axioms OSq.merge_output_stable
#print axioms OSq.merge_length_idem
#print axioms OSq.merge_trace_idem
#print axioms OSq.merge_idem_sem
