import OSq.Sem.Circuit
import OSq.Model.Passes
import Mathlib.Algebra.BigOperators.Group.List.Basic
/-
  OSq.Proofs.CircuitSem — congruence theorems for the register-level circuit semantics `circOp` / `CircEquiv`
  (`OSq/Sem/Circuit.lean`): local (per-gate) operator equalities lift to whole-circuit equivalence with ONE
  global phase for ALL measurement / reset outcome assignments.   Parts 1 and 2 of the circuit-semantics work; the
  rest is split by topic to keep every file fast to check:
    `CircuitSem2`  the local-to-global embedding `lift`, `gateOp_eq_lift`, `local_phase_eq_global`
    `CircuitSem3`  `decompose_sem`, `decompose_fail_sem`          `CircuitSem8`  `replace_sem`, `replace_fail_sem`
    `CircuitSem4`  `map_sem` (qubit relabelling = conjugation by the qubit permutation), `remap_sem`
    `CircuitSem5`  `commute_disjoint` (statements on disjoint qubits commute)
    `CircuitSem6`  `merge_sem_global` (abstract merge theorem instantiated with `stmtOp` modulo phase)
    `CircuitSem7`  `merge_sem_global_real` (the same under the analytic crisp hypotheses of `MergeSemReal`)

  Theorems
  * `circOp_append`        `circOp n (s1 ++ s2) o = circOp n s2 (o.drop (nOutcomes s1)) * circOp n s1 (o.take (nOutcomes s1))`
  * `circOp_take_outcomes` `circOp n s o` depends only on the first `nOutcomes s` outcomes
  * `circOp_gates`         a list of gate statements ignores the outcome assignment: `circOp n blk o = circOp n blk []`
  * `gateStmts`, `circOp_gateStmts`   `gs.map (Stmt.gate · none)`; names are irrelevant: `circOp_map_toStmt`
  * `block_congr`          **block congruence**: gate blocks with `circOp n blk' [] = z • circOp n blk []`, `‖z‖ = 1` ⇒
                           `∀ o, circOp n (pre ++ blk' ++ post) o = z • circOp n (pre ++ blk ++ post) o`
  * `block_congr_equiv`    … hence `CircEquiv n (pre ++ blk' ++ post) (pre ++ blk ++ post)` (with that `z`), and
    `block_sameBarriers`   the two lists have the same barriers.
  * `CircEquiv.cons`, `CircEquiv.append_left`, `CircEquiv.append_right`, `CircEquiv.append`
  * `Replaces n l l' z`    inductive: `l'` arises from `l` by replacing each gate `g_i` by a gate list `r_i` with
                           `circOp n r_i [] = w_i • gateOp n g_i`; `z = ∏ w_i`.
  * `Replaces.circOp`      `Replaces n l l' z → ∀ o, circOp n l' o = z • circOp n l o`  (the phase is `∏ w_i`,
                           independent of the outcomes because gates carry no outcomes)
  * `Replaces.norm`, `Replaces.equiv`, `Replaces.sameBarriers`, `Replaces.append`, `Replaces.refl`
  * `flatMap_congr`        the `flatMap` form: `f s = [s]` on non-gates, `circOp n (f s) [] = w s • stmtOp n s false` on
                           gates ⇒ `circOp n (l.flatMap f) o = ((l.filter isGate).map w).prod • circOp n l o`
  * `flatMap_congr_equiv`  … hence `CircEquiv n (l.flatMap f) l` when every `‖w s‖ = 1`.
-/
open Matrix

namespace OSq

/-! ## 1. `circOp` of an append -/

theorem nOutcomes_nil {α : Type} : nOutcomes ([] : List (Stmt α)) = 0 := rfl

theorem nOutcomes_cons {α : Type} (s : Stmt α) (l : List (Stmt α)) :
    nOutcomes (s :: l) = nOutcomes l + (if s.hasOutcome then 1 else 0) := by
  simp [nOutcomes, List.countP_cons]

theorem nOutcomes_append {α : Type} (l1 l2 : List (Stmt α)) :
    nOutcomes (l1 ++ l2) = nOutcomes l1 + nOutcomes l2 := by
  simp [nOutcomes, List.countP_append]

theorem nOutcomes_of_gates {α : Type} (l : List (Stmt α)) (h : ∀ s ∈ l, s.isGate = true) :
    nOutcomes l = 0 := by
  unfold nOutcomes
  rw [List.countP_eq_zero]
  intro s hs
  have := h s hs
  cases s <;> simp_all [Stmt.isGate, Stmt.hasOutcome]

/-- **`circOp` of a concatenation**: the second part sees the outcomes left over by the first. -/
theorem circOp_append (n : Nat) (s1 s2 : List (Stmt ℝ)) (o : List Bool) :
    circOp n (s1 ++ s2) o
      = circOp n s2 (o.drop (nOutcomes s1)) * circOp n s1 (o.take (nOutcomes s1)) := by
  induction s1 generalizing o with
  | nil => simp [nOutcomes_nil]
  | cons s rest ih =>
    rw [List.cons_append, circOp_cons, circOp_cons, nOutcomes_cons]
    by_cases hs : s.hasOutcome = true
    · simp only [hs, if_true]
      rw [ih, Matrix.mul_assoc]
      cases o with
      | nil => simp
      | cons b o' => simp
    · simp only [hs, if_false, Bool.false_eq_true, Nat.add_zero]
      rw [ih, Matrix.mul_assoc]

/-- only the first `nOutcomes s` outcomes matter -/
theorem circOp_take_outcomes (n : Nat) (s : List (Stmt ℝ)) (o : List Bool) :
    circOp n s (o.take (nOutcomes s)) = circOp n s o := by
  have h := circOp_append n s [] o
  simp only [List.append_nil, circOp_nil, Matrix.one_mul] at h
  exact h.symm

/-- a list of gate statements ignores the outcome assignment -/
theorem circOp_gates (n : Nat) (blk : List (Stmt ℝ)) (h : ∀ s ∈ blk, s.isGate = true) (o : List Bool) :
    circOp n blk o = circOp n blk [] := by
  rw [← circOp_take_outcomes n blk o, nOutcomes_of_gates blk h, List.take_zero]

/-- the anonymous gate statements of a gate list -/
def gateStmts {α : Type} (gs : List (Gate α)) : List (Stmt α) := gs.map fun g => Stmt.gate g none

theorem gateStmts_isGate {α : Type} (gs : List (Gate α)) : ∀ s ∈ gateStmts gs, s.isGate = true := by
  intro s hs
  obtain ⟨g, _, rfl⟩ := List.mem_map.mp hs
  rfl

theorem map_toStmt_isGate {α : Type} (gs : List (GStmt α)) :
    ∀ s ∈ gs.map GStmt.toStmt, s.isGate = true := by
  intro s hs
  obtain ⟨g, _, rfl⟩ := List.mem_map.mp hs
  rfl

/-- names and arguments do not matter: the operator of a replacement list is that of its bare gates -/
theorem circOp_map_toStmt (n : Nat) (gs : List (GStmt ℝ)) (o : List Bool) :
    circOp n (gs.map GStmt.toStmt) o = circOp n (gateStmts (gs.map (·.1))) o := by
  induction gs with
  | nil => rfl
  | cons g rest ih =>
    simp only [List.map_cons, gateStmts, GStmt.toStmt, circOp_gate]
    rw [ih]; rfl

/-! ## 2. Block congruence -/

/-- **Block congruence.**  Replacing a block of gate statements by another block whose operator is the same up
    to the phase `z` changes the operator of the whole circuit by exactly `z`, for every outcome assignment. -/
theorem block_congr (n : Nat) (pre blk blk' post : List (Stmt ℝ))
    (hb : ∀ s ∈ blk, s.isGate = true) (hb' : ∀ s ∈ blk', s.isGate = true) (z : ℂ)
    (h : circOp n blk' [] = z • circOp n blk []) (o : List Bool) :
    circOp n (pre ++ blk' ++ post) o = z • circOp n (pre ++ blk ++ post) o := by
  rw [circOp_append, circOp_append n (pre ++ blk), circOp_append n pre blk', circOp_append n pre blk]
  rw [nOutcomes_append, nOutcomes_append, nOutcomes_of_gates blk hb, nOutcomes_of_gates blk' hb']
  rw [circOp_gates n blk' hb', circOp_gates n blk hb, h]
  simp only [Matrix.smul_mul, Matrix.mul_smul]

theorem block_congr_equiv (n : Nat) (pre blk blk' post : List (Stmt ℝ))
    (hb : ∀ s ∈ blk, s.isGate = true) (hb' : ∀ s ∈ blk', s.isGate = true) (z : ℂ) (hz : ‖z‖ = 1)
    (h : circOp n blk' [] = z • circOp n blk []) :
    CircEquiv n (pre ++ blk' ++ post) (pre ++ blk ++ post) :=
  ⟨z, hz, block_congr n pre blk blk' post hb hb' z h⟩

theorem filter_nongate_of_gates {α : Type} (l : List (Stmt α)) (h : ∀ s ∈ l, s.isGate = true) :
    l.filter (fun s => !s.isGate) = [] := by
  rw [List.filter_eq_nil_iff]
  intro s hs
  simp [h s hs]

theorem block_sameBarriers {α : Type} (pre blk blk' post : List (Stmt α))
    (hb : ∀ s ∈ blk, s.isGate = true) (hb' : ∀ s ∈ blk', s.isGate = true) :
    SameBarriers (pre ++ blk' ++ post) (pre ++ blk ++ post) := by
  unfold SameBarriers
  simp only [List.filter_append, filter_nongate_of_gates blk hb, filter_nongate_of_gates blk' hb']

/-! ### congruence rules for `CircEquiv` -/

theorem CircEquiv.cons {n : Nat} (s : Stmt ℝ) {a b : List (Stmt ℝ)} (h : CircEquiv n a b) :
    CircEquiv n (s :: a) (s :: b) := by
  obtain ⟨z, hz, H⟩ := h
  refine ⟨z, hz, ?_⟩
  intro o
  rw [circOp_cons, circOp_cons]
  split <;> rw [H, Matrix.smul_mul]

theorem CircEquiv.append_left {n : Nat} (p : List (Stmt ℝ)) {a b : List (Stmt ℝ)} (h : CircEquiv n a b) :
    CircEquiv n (p ++ a) (p ++ b) := by
  induction p with
  | nil => exact h
  | cons s rest ih => exact ih.cons s

/-- appending a common suffix needs the two prefixes to consume the same number of outcomes -/
theorem CircEquiv.append_right {n : Nat} {a b : List (Stmt ℝ)} (h : CircEquiv n a b)
    (hn : nOutcomes a = nOutcomes b) (p : List (Stmt ℝ)) : CircEquiv n (a ++ p) (b ++ p) := by
  obtain ⟨z, hz, H⟩ := h
  refine ⟨z, hz, ?_⟩
  intro o
  rw [circOp_append, circOp_append, H, hn, Matrix.mul_smul]

theorem CircEquiv.append {n : Nat} {a b c d : List (Stmt ℝ)} (h1 : CircEquiv n a b)
    (hn : nOutcomes a = nOutcomes b) (h2 : CircEquiv n c d) : CircEquiv n (a ++ c) (b ++ d) :=
  (h1.append_right hn c).trans (h2.append_left b)

/-! ### gate-by-gate replacement -/

/-- `Replaces n l l' z`: `l'` is `l` with every gate statement `g_i` replaced by a list `r_i` of gate statements
    whose operator is `w_i • gateOp n g_i` (non-gates stay where they are); `z` is the product of the `w_i`. -/
inductive Replaces (n : Nat) : List (Stmt ℝ) → List (Stmt ℝ) → ℂ → Prop
  | nil : Replaces n [] [] 1
  | keep (s : Stmt ℝ) {l l' : List (Stmt ℝ)} {z : ℂ} :
      Replaces n l l' z → Replaces n (s :: l) (s :: l') z
  | gate (g : Gate ℝ) (nm : Option (Named ℝ)) (r : List (Stmt ℝ)) (w : ℂ) {l l' : List (Stmt ℝ)} {z : ℂ} :
      (∀ x ∈ r, x.isGate = true) → circOp n r [] = w • gateOp n g → Replaces n l l' z →
      Replaces n (.gate g nm :: l) (r ++ l') (w * z)

/-- **gate-by-gate replacement changes the operator by the product of the local phases**, whatever the
    measurement / reset outcomes are -/
theorem Replaces.circOp {n : Nat} {l l' : List (Stmt ℝ)} {z : ℂ} (h : Replaces n l l' z) (o : List Bool) :
    circOp n l' o = z • circOp n l o := by
  induction h generalizing o with
  | nil => simp
  | keep s _ ih =>
    rw [circOp_cons, circOp_cons]
    split <;> rw [ih, Matrix.smul_mul]
  | gate g nm r w hr hw _ ih =>
    rw [circOp_append, nOutcomes_of_gates r hr, List.drop_zero, List.take_zero, hw, ih, circOp_gate]
    simp only [Matrix.smul_mul, Matrix.mul_smul, smul_smul]

theorem Replaces.refl (n : Nat) (l : List (Stmt ℝ)) : Replaces n l l 1 := by
  induction l with
  | nil => exact .nil
  | cons s rest ih => exact .keep s ih

theorem Replaces.append {n : Nat} {a a' b b' : List (Stmt ℝ)} {z w : ℂ} (h1 : Replaces n a a' z)
    (h2 : Replaces n b b' w) : Replaces n (a ++ b) (a' ++ b') (z * w) := by
  induction h1 with
  | nil => simpa using h2
  | keep s _ ih => exact .keep s ih
  | gate g nm r w' hr hw _ ih =>
    rw [List.cons_append, List.append_assoc, mul_assoc]
    exact .gate g nm r w' hr hw ih

/-- if every local phase has modulus one, so has the product -/
inductive ReplacesU (n : Nat) : List (Stmt ℝ) → List (Stmt ℝ) → ℂ → Prop
  | nil : ReplacesU n [] [] 1
  | keep (s : Stmt ℝ) {l l' : List (Stmt ℝ)} {z : ℂ} :
      ReplacesU n l l' z → ReplacesU n (s :: l) (s :: l') z
  | gate (g : Gate ℝ) (nm : Option (Named ℝ)) (r : List (Stmt ℝ)) (w : ℂ) {l l' : List (Stmt ℝ)} {z : ℂ} :
      (∀ x ∈ r, x.isGate = true) → ‖w‖ = 1 → OSq.circOp n r [] = w • gateOp n g → ReplacesU n l l' z →
      ReplacesU n (.gate g nm :: l) (r ++ l') (w * z)

theorem ReplacesU.replaces {n : Nat} {l l' : List (Stmt ℝ)} {z : ℂ} (h : ReplacesU n l l' z) :
    Replaces n l l' z := by
  induction h with
  | nil => exact .nil
  | keep s _ ih => exact .keep s ih
  | gate g nm r w hr _ hw _ ih => exact .gate g nm r w hr hw ih

theorem ReplacesU.norm {n : Nat} {l l' : List (Stmt ℝ)} {z : ℂ} (h : ReplacesU n l l' z) : ‖z‖ = 1 := by
  induction h with
  | nil => exact norm_one
  | keep s _ ih => exact ih
  | gate g nm r w _ hw _ _ ih => rw [norm_mul, hw, ih, one_mul]

/-- unit local phases ⇒ the two circuits are equivalent (one global phase for all outcomes) -/
theorem ReplacesU.equiv {n : Nat} {l l' : List (Stmt ℝ)} {z : ℂ} (h : ReplacesU n l l' z) :
    CircEquiv n l' l :=
  ⟨z, h.norm, h.replaces.circOp⟩

theorem ReplacesU.refl (n : Nat) (l : List (Stmt ℝ)) : ReplacesU n l l 1 := by
  induction l with
  | nil => exact .nil
  | cons s rest ih => exact .keep s ih

theorem ReplacesU.append {n : Nat} {a a' b b' : List (Stmt ℝ)} {z w : ℂ} (h1 : ReplacesU n a a' z)
    (h2 : ReplacesU n b b' w) : ReplacesU n (a ++ b) (a' ++ b') (z * w) := by
  induction h1 with
  | nil => simpa using h2
  | keep s _ ih => exact .keep s ih
  | gate g nm r w' hr hn hw _ ih =>
    rw [List.cons_append, List.append_assoc, mul_assoc]
    exact .gate g nm r w' hr hn hw ih

/-- the barriers are untouched -/
theorem Replaces.sameBarriers {n : Nat} {l l' : List (Stmt ℝ)} {z : ℂ} (h : Replaces n l l' z) :
    SameBarriers l' l := by
  unfold SameBarriers
  induction h with
  | nil => rfl
  | keep s _ ih => simp only [List.filter_cons, ih]
  | gate g nm r w hr _ _ ih =>
    rw [List.filter_append, filter_nongate_of_gates r hr, List.nil_append, ih]
    simp [Stmt.isGate]

/-- **`flatMap` congruence.**  `f` keeps every non-gate statement and replaces each gate statement `s` by a list
    of gate statements whose operator is `w s • stmtOp n s`.  Then the operator of the rewritten circuit is the
    original one times the product of the `w s` over the gate statements, for every outcome assignment. -/
theorem flatMap_congr (n : Nat) (f : Stmt ℝ → List (Stmt ℝ)) (w : Stmt ℝ → ℂ) (l : List (Stmt ℝ))
    (hkeep : ∀ s ∈ l, s.isGate = false → f s = [s])
    (hgate : ∀ s ∈ l, s.isGate = true →
      (∀ x ∈ f s, x.isGate = true) ∧ circOp n (f s) [] = w s • stmtOp n s false) :
    Replaces n l (l.flatMap f) ((l.filter Stmt.isGate).map w).prod := by
  induction l with
  | nil => exact .nil
  | cons s rest ih =>
    have ih' := ih (fun x hx => hkeep x (List.mem_cons_of_mem _ hx))
      (fun x hx => hgate x (List.mem_cons_of_mem _ hx))
    rw [List.flatMap_cons]
    by_cases hs : s.isGate = true
    · obtain ⟨h1, h2⟩ := hgate s List.mem_cons_self hs
      rw [List.filter_cons_of_pos hs, List.map_cons, List.prod_cons]
      cases s with
      | gate g nm => exact .gate g nm _ _ h1 h2 ih'
      | measure q b ax nm => simp [Stmt.isGate] at hs
      | reset q nm => simp [Stmt.isGate] at hs
      | comment c => simp [Stmt.isGate] at hs
    · have hs' : s.isGate = false := by simpa using hs
      rw [hkeep s List.mem_cons_self hs', List.filter_cons_of_neg hs]
      exact .keep s ih'

theorem flatMap_congr_circOp (n : Nat) (f : Stmt ℝ → List (Stmt ℝ)) (w : Stmt ℝ → ℂ) (l : List (Stmt ℝ))
    (hkeep : ∀ s ∈ l, s.isGate = false → f s = [s])
    (hgate : ∀ s ∈ l, s.isGate = true →
      (∀ x ∈ f s, x.isGate = true) ∧ circOp n (f s) [] = w s • stmtOp n s false) (o : List Bool) :
    circOp n (l.flatMap f) o = ((l.filter Stmt.isGate).map w).prod • circOp n l o :=
  (flatMap_congr n f w l hkeep hgate).circOp o

theorem norm_list_prod_eq_one (zs : List ℂ) (h : ∀ z ∈ zs, ‖z‖ = 1) : ‖zs.prod‖ = 1 := by
  induction zs with
  | nil => simp
  | cons z rest ih =>
    rw [List.prod_cons, norm_mul, h z List.mem_cons_self,
      ih (fun x hx => h x (List.mem_cons_of_mem _ hx)), one_mul]

theorem flatMap_congr_equiv (n : Nat) (f : Stmt ℝ → List (Stmt ℝ)) (w : Stmt ℝ → ℂ) (l : List (Stmt ℝ))
    (hkeep : ∀ s ∈ l, s.isGate = false → f s = [s])
    (hgate : ∀ s ∈ l, s.isGate = true →
      (∀ x ∈ f s, x.isGate = true) ∧ circOp n (f s) [] = w s • stmtOp n s false)
    (hw : ∀ s ∈ l, s.isGate = true → ‖w s‖ = 1) :
    CircEquiv n (l.flatMap f) l ∧ SameBarriers (l.flatMap f) l := by
  refine ⟨⟨_, ?_, flatMap_congr_circOp n f w l hkeep hgate⟩, (flatMap_congr n f w l hkeep hgate).sameBarriers⟩
  apply norm_list_prod_eq_one
  intro z hz
  obtain ⟨s, hs, rfl⟩ := List.mem_map.mp hz
  obtain ⟨hs1, hs2⟩ := List.mem_filter.mp hs
  exact hw s hs1 hs2

/-! ### Non-vacuity -/

-- a gate may be replaced by (itself, then a gate `h` that is a pure phase): the circuit changes by that phase
example (n : Nat) (g h : Gate ℝ) (z : ℂ) (hh : gateOp n h = z • (1 : Op n))
    (q : Int) (o : List Bool) :
    circOp n [.measure q 0 (0, 0, 1) none, .gate g none, .gate h none, .reset q none] o
      = z • circOp n [.measure q 0 (0, 0, 1) none, .gate g none, .reset q none] o := by
  have := block_congr n [.measure q 0 (0, 0, 1) none] [.gate g none] [.gate g none, .gate h none]
    [.reset q none] (by simp [Stmt.isGate]) (by simp [Stmt.isGate]) z (by simp [hh]) o
  simpa using this

example (n : Nat) (g h : Gate ℝ) (z : ℂ) (hz : ‖z‖ = 1) (hh : gateOp n h = z • (1 : Op n)) (q : Int) :
    CircEquiv n [.measure q 0 (0, 0, 1) none, .gate g none, .gate h none, .reset q none]
      [.measure q 0 (0, 0, 1) none, .gate g none, .reset q none] :=
  (ReplacesU.keep _ (ReplacesU.gate g none [.gate g none, .gate h none] z (by simp [Stmt.isGate]) hz
    (by simp [hh]) (ReplacesU.refl n [.reset q none]))).equiv

end OSq

#print axioms OSq.circOp_append
#print axioms OSq.block_congr
#print axioms OSq.block_congr_equiv
#print axioms OSq.Replaces.circOp
#print axioms OSq.ReplacesU.equiv
#print axioms OSq.flatMap_congr
#print axioms OSq.flatMap_congr_equiv
