import OSq.Proofs.CircuitSem
import OSq.Proofs.Equality
import Mathlib.Data.List.Nodup
/-
  OSq.Proofs.CircuitSem2 — **local-to-global**: the embedding `lift` of an operator on `k` listed qubits into the
  `n`-qubit register, and the theorem that turns the `2^k × 2^k` comparison made by `check_gate_replacement`
  (on the gate's own qubits only) into an equality of `2^n × 2^n` register operators.  General `k`.

  Index level (core facts about `reducedKet` = gather, `expandKet` = scatter, `agreeOff`; any `n`)
  * `agreeOff_refl/_symm/_trans`
  * `reducedKet_expandKet`      gather ∘ scatter = id on `[0, 2^k)` (distinct positions)
  * `expandKet_reducedKet`      scatter r ∘ gather = id on the kets that agree with `r` off the positions
  * `agreeOff_expandKet`        scatter only touches the listed positions
  * `eq_iff_agreeOff_reducedKet`  `r = c ↔ agreeOff n idx r c ∧ gather r = gather c`
  * `sum_agreeOff`              a sum over the register that vanishes off the kets agreeing with `r` outside `idx`
                                is a sum over the `2^k` local indices
  The embedding
  * `lift idx hk m : Op n`      `(lift idx hk m) r c = if agreeOff n idx r c then m (sub r) (sub c) else 0`, where
                                `sub x = reducedKet x idx` collects bit `idx[j]` of `x` into bit `j` (`hk : idx.length = k`)
  * `lift_mul`, `lift_one`, `lift_smul`, `lift_zero`, `lift_add`    `lift` is a unital algebra morphism
                                (for duplicate-free `idx` with all entries `< n`)
  Gates
  * `denote_lift`               (any scalar type) for a duplicate-free, in-range list `idxI : List Int` containing all
                                operands of `g`:  `denote n g r c = if agreeOff n idx r c then
                                denote k (g.pos idxI) (sub r) (sub c) else 0` with `idx = idxI.map Int.toNat`
  * `gateOp_eq_lift`            `gateOp n g = lift idx _ (gateOp k (g.pos idxI))`;  `gateOp_eq_lift_reindex` the same
                                with the hypothesis `reindexGate idxI g = .ok g'`
  * `circOp_gateStmts_lift`     `circOp n (gateStmts gs) o = lift idx _ (circOp k (gateStmts (gs.map (·.pos idxI))) o)`
  * `localMatrix_toMatrixOn`    `localMatrix idxI gs = .ok B` ⇒ every operand is listed and
                                `B.toMatrixOn (2^k) = circOp k (gateStmts (gs.map (·.pos idxI))) []`
  * `localMatrix_lift`          … hence `lift idx _ (B.toMatrixOn (2^k)) = circOp n (gateStmts gs) []`
  * `local_phase_eq_global_idx` local matrices (any admissible enumeration `idxI`) with `A = z • B` ⇒
                                `circOp n (gateStmts gs1) [] = z • circOp n (gateStmts gs2) []`
  * `local_phase_eq_global`     **the check of `check_gate_replacement`, exact level**: local matrices of `[g]` and of the
                                replacement `gs` on `g.operands` with `A = z • B` ⇒ `gateOp n g = z • circOp n (gateStmts gs) []`
  * `local_phase_eq_global'`    … i.e. `circOp n (gateStmts gs) [] = z⁻¹ • gateOp n g` (`z ≠ 0`)
-/
open Matrix

namespace OSq

/-! ## Index level -/
section index

theorem agreeOff_refl (n : Nat) (idx : List Nat) (x : Nat) : agreeOff n idx x x := fun _ _ _ => rfl

theorem agreeOff_symm {n : Nat} {idx : List Nat} {r c : Nat} (h : agreeOff n idx r c) :
    agreeOff n idx c r := fun i hi hni => (h i hi hni).symm

theorem agreeOff_trans {n : Nat} {idx : List Nat} {r x c : Nat} (h1 : agreeOff n idx r x)
    (h2 : agreeOff n idx x c) : agreeOff n idx r c :=
  fun i hi hni => (h1 i hi hni).trans (h2 i hi hni)

/-- gather ∘ scatter = id -/
theorem reducedKet_expandKet (idx : List Nat) (hnd : idx.Nodup) (b j : Nat) (hj : j < 2 ^ idx.length) :
    reducedKet (expandKet b j idx) idx = j := by
  apply Nat.eq_of_testBit_eq
  intro i
  rw [reducedKet_spec]
  by_cases hi : i < idx.length
  · rw [dif_pos hi, expandKet_getElem b j idx hnd i hi]
  · rw [dif_neg hi]
    exact (testBit_ge hj (Nat.le_of_not_lt hi)).symm

/-- scatter ∘ gather = id on the kets that agree with the base outside the positions -/
theorem expandKet_reducedKet {n : Nat} (idx : List Nat) {r x : Nat} (hr : r < 2 ^ n) (hx : x < 2 ^ n)
    (h : agreeOff n idx r x) : expandKet r (reducedKet x idx) idx = x :=
  (expandKet_eq_iff idx hx hr).mpr (agreeOff_symm h)

theorem agreeOff_expandKet (n : Nat) (idx : List Nat) (r j : Nat) :
    agreeOff n idx r (expandKet r j idx) :=
  fun _ _ hni => (expandKet_not_mem r j idx hni).symm

theorem eq_iff_agreeOff_reducedKet {n : Nat} (idx : List Nat) {r c : Nat} (hr : r < 2 ^ n)
    (hc : c < 2 ^ n) : r = c ↔ agreeOff n idx r c ∧ reducedKet r idx = reducedKet c idx := by
  constructor
  · rintro rfl; exact ⟨agreeOff_refl _ _ _, rfl⟩
  · rintro ⟨h1, h2⟩
    rw [← expandKet_reducedKet idx hr hc h1, ← h2, expandKet_reducedKet idx hr hr (agreeOff_refl _ _ _)]

/-- a sum over the register whose summand vanishes unless the ket agrees with `r` outside `idx` collapses to a
    sum over the `2^k` values of the bits at `idx` -/
theorem sum_agreeOff {n k : Nat} (idx : List Nat) (hnd : idx.Nodup) (hlt : ∀ q ∈ idx, q < n)
    (hk : idx.length = k) (r : Fin (2 ^ n)) (f : Fin (2 ^ n) → ℂ)
    (hf : ∀ x : Fin (2 ^ n), ¬ agreeOff n idx r.val x.val → f x = 0) :
    ∑ x, f x = ∑ j : Fin (2 ^ k), f ⟨expandKet r.val j.val idx, expandKet_lt _ _ _ r.isLt hlt⟩ := by
  subst hk
  have h1 : ∑ x, f x
      = ∑ x ∈ Finset.univ.filter (fun x : Fin (2 ^ n) => agreeOff n idx r.val x.val), f x := by
    symm
    apply Finset.sum_filter_of_ne
    intro x _ hx
    by_contra h
    exact hx (hf x h)
  rw [h1]
  refine Finset.sum_nbij'
    (fun x => (⟨reducedKet x.val idx, reducedKet_lt _ _⟩ : Fin (2 ^ idx.length)))
    (fun j => (⟨expandKet r.val j.val idx, expandKet_lt _ _ _ r.isLt hlt⟩ : Fin (2 ^ n)))
    ?_ ?_ ?_ ?_ ?_
  · intro x _; exact Finset.mem_univ _
  · intro j _
    rw [Finset.mem_filter]
    exact ⟨Finset.mem_univ _, agreeOff_expandKet n idx r.val j.val⟩
  · intro x hx
    rw [Finset.mem_filter] at hx
    apply Fin.ext
    exact expandKet_reducedKet idx r.isLt x.isLt hx.2
  · intro j _
    apply Fin.ext
    exact reducedKet_expandKet idx hnd r.val j.val j.isLt
  · intro x hx
    rw [Finset.mem_filter] at hx
    congr 1
    apply Fin.ext
    exact (expandKet_reducedKet idx r.isLt x.isLt hx.2).symm

end index

/-! ## The embedding `lift` -/

/-- local index of a register ket: bit `j` is bit `idx[j]` -/
def subKet {n k : Nat} (idx : List Nat) (hk : idx.length = k) (x : Fin (2 ^ n)) : Fin (2 ^ k) :=
  ⟨reducedKet x.val idx, by rw [← hk]; exact reducedKet_lt _ _⟩

@[simp] theorem subKet_val {n k : Nat} (idx : List Nat) (hk : idx.length = k) (x : Fin (2 ^ n)) :
    (subKet idx hk x).val = reducedKet x.val idx := rfl

/-- **the operator `m` on the qubits `idx`, identity elsewhere** -/
def lift {n k : Nat} (idx : List Nat) (hk : idx.length = k) (m : Op k) : Op n :=
  fun r c => if agreeOff n idx r.val c.val then m (subKet idx hk r) (subKet idx hk c) else 0

theorem lift_apply {n k : Nat} (idx : List Nat) (hk : idx.length = k) (m : Op k) (r c : Fin (2 ^ n)) :
    (lift idx hk m : Op n) r c
      = if agreeOff n idx r.val c.val then m (subKet idx hk r) (subKet idx hk c) else 0 := rfl

section lift
variable {n k : Nat} (idx : List Nat) (hk : idx.length = k)

theorem lift_zero : (lift idx hk (0 : Op k) : Op n) = 0 := by
  ext r c; simp [lift_apply]

theorem lift_smul (z : ℂ) (m : Op k) : (lift idx hk (z • m) : Op n) = z • lift idx hk m := by
  ext r c
  simp only [lift_apply, Matrix.smul_apply]
  split <;> simp

theorem lift_add (a b : Op k) : (lift idx hk (a + b) : Op n) = lift idx hk a + lift idx hk b := by
  ext r c
  simp only [lift_apply, Matrix.add_apply]
  split <;> simp

theorem lift_one : (lift idx hk (1 : Op k) : Op n) = 1 := by
  ext r c
  simp only [lift_apply, Matrix.one_apply]
  by_cases h : r = c
  · subst h
    simp [agreeOff_refl]
  · rw [if_neg h]
    have h' : ¬ (r.val = c.val) := fun e => h (Fin.ext e)
    rw [eq_iff_agreeOff_reducedKet idx r.isLt c.isLt] at h'
    by_cases hag : agreeOff n idx r.val c.val
    · rw [if_pos hag, if_neg]
      intro e
      exact h' ⟨hag, congrArg Fin.val e⟩
    · rw [if_neg hag]

variable (hnd : idx.Nodup) (hlt : ∀ q ∈ idx, q < n)
include hnd hlt

/-- **`lift` is multiplicative** -/
theorem lift_mul (a b : Op k) : (lift idx hk (a * b) : Op n) = lift idx hk a * lift idx hk b := by
  ext r c
  rw [Matrix.mul_apply, sum_agreeOff idx hnd hlt hk r]
  · simp only [lift_apply]
    by_cases h : agreeOff n idx r.val c.val
    · rw [if_pos h, Matrix.mul_apply]
      apply Finset.sum_congr rfl
      intro j _
      rw [if_pos (agreeOff_expandKet n idx r.val j.val),
        if_pos (agreeOff_trans (agreeOff_symm (agreeOff_expandKet n idx r.val j.val)) h)]
      have hj : subKet idx hk (⟨expandKet r.val j.val idx, expandKet_lt _ _ _ r.isLt hlt⟩ : Fin (2 ^ n)) = j := by
        apply Fin.ext
        exact reducedKet_expandKet idx hnd r.val j.val (by rw [hk]; exact j.isLt)
      rw [hj]
    · rw [if_neg h]
      symm
      apply Finset.sum_eq_zero
      intro j _
      rw [if_neg (fun h2 => h (agreeOff_trans (agreeOff_expandKet n idx r.val j.val) h2)), mul_zero]
  · intro x hx
    simp [lift_apply, hx]

end lift

/-! ## Gates: the register operator is the lift of the operator on the listed qubits -/

section gates
variable {n : Nat} (idxI : List Int) (hnd : idxI.Nodup) (hreg : ∀ q ∈ idxI, 0 ≤ q ∧ q < (n : Int))

include hnd hreg in
theorem nodup_map_toNat : (idxI.map Int.toNat).Nodup := by
  apply List.Nodup.map_on _ hnd
  intro x hx y hy e
  have := hreg x hx
  have := hreg y hy
  omega

include hreg in
theorem map_toNat_lt : ∀ q ∈ idxI.map Int.toNat, q < n := by
  intro q hq
  obtain ⟨x, hx, rfl⟩ := List.mem_map.mp hq
  have := hreg x hx
  omega

/-- bit `idxOf q` of the local index is bit `q` of the register ket -/
theorem reducedKet_testBit_idxOf (x : Nat) {q : Int} (hq : q ∈ idxI) :
    (reducedKet x (idxI.map Int.toNat)).testBit (idxI.idxOf q) = x.testBit q.toNat := by
  have hlt : idxI.idxOf q < idxI.length := List.idxOf_lt_length_of_mem hq
  rw [reducedKet_spec, dif_pos (by rwa [List.length_map])]
  simp only [List.getElem_map, List.getElem_idxOf hlt]

theorem reducedKet_bitOf_idxOf (x : Nat) {q : Int} (hq : q ∈ idxI) :
    bitOf (reducedKet x (idxI.map Int.toNat)) (idxI.idxOf q) = bitOf x q.toNat := by
  unfold bitOf
  rw [reducedKet_testBit_idxOf idxI x hq]

include hnd hreg in
/-- agreement outside a sub-list `ops` of the listed qubits splits into agreement outside the listed qubits and
    agreement of the local indices outside the positions of `ops` -/
theorem agreeOff_sub_iff (ops : List Int) (hops : ∀ q ∈ ops, q ∈ idxI) (r c : Nat) :
    agreeOff n (ops.map Int.toNat) r c ↔
      agreeOff n (idxI.map Int.toNat) r c ∧
        agreeOff idxI.length (ops.map fun q => idxI.idxOf q)
          (reducedKet r (idxI.map Int.toNat)) (reducedKet c (idxI.map Int.toNat)) := by
  constructor
  · intro H
    constructor
    · intro i hi hni
      apply H i hi
      intro hm
      obtain ⟨q, hq, rfl⟩ := List.mem_map.mp hm
      exact hni (List.mem_map.mpr ⟨q, hops q hq, rfl⟩)
    · intro j hj hnj
      have hj' : j < (idxI.map Int.toNat).length := by rwa [List.length_map]
      rw [reducedKet_spec, reducedKet_spec, dif_pos hj', dif_pos hj']
      have hq0 : idxI[j] ∈ idxI := List.getElem_mem hj
      have hr0 := hreg _ hq0
      apply H
      · simp only [List.getElem_map]; omega
      · intro hm
        obtain ⟨q', hq', e⟩ := List.mem_map.mp hm
        simp only [List.getElem_map] at e
        have hr1 := hreg _ (hops q' hq')
        have : q' = idxI[j] := by omega
        apply hnj
        rw [List.mem_map]
        exact ⟨q', hq', by rw [this, hnd.idxOf_getElem j hj]⟩
  · rintro ⟨H1, H2⟩ i hi hni
    by_cases hm : i ∈ idxI.map Int.toNat
    · obtain ⟨q, hq, rfl⟩ := List.mem_map.mp hm
      have := H2 (idxI.idxOf q) (List.idxOf_lt_length_of_mem hq) (by
        intro hm2
        obtain ⟨q', hq', e⟩ := List.mem_map.mp hm2
        have : q' = q := (List.idxOf_inj (hops q' hq')).mp e
        exact hni (List.mem_map.mpr ⟨q', hq', by rw [this]⟩))
      rwa [reducedKet_testBit_idxOf idxI r hq, reducedKet_testBit_idxOf idxI c hq] at this
    · exact H1 i hi hm

theorem subIdx_reducedKet (ops : List Int) (hops : ∀ q ∈ ops, q ∈ idxI) (x : Nat) :
    subIdx (reducedKet x (idxI.map Int.toNat)) (ops.map fun q => idxI.idxOf q)
      = subIdx x (ops.map Int.toNat) := by
  induction ops with
  | nil => rfl
  | cons q qs ih =>
    simp only [List.map_cons, subIdx, List.length_map]
    rw [reducedKet_bitOf_idxOf idxI x (hops q List.mem_cons_self),
      ih (fun y hy => hops y (List.mem_cons_of_mem _ hy))]

include hnd hreg in
/-- **local-to-global, entry level** (any scalar type): the textbook operator of `g` on the `n`-qubit register is
    the textbook operator of the re-indexed gate on the listed qubits, and the identity on all other qubits. -/
theorem denote_lift {α : Type} [Scalar α] (g : Gate α) (hg : ∀ q ∈ g.operands, q ∈ idxI) {r c : Nat}
    (hr : r < 2 ^ n) (hc : c < 2 ^ n) :
    denote n g r c =
      if agreeOff n (idxI.map Int.toNat) r c then
        denote idxI.length (g.pos idxI) (reducedKet r (idxI.map Int.toNat))
          (reducedKet c (idxI.map Int.toNat))
      else Cx.zero := by
  induction g generalizing r c with
  | bsr q ax an ph =>
    have hq : q ∈ idxI := hg q (by simp [Gate.operands])
    simp only [Gate.pos, denote, embed1, Int.toNat_natCast]
    have hag := agreeOff_sub_iff idxI hnd hreg [q] (by simpa using hq) r c
    simp only [List.map_cons, List.map_nil] at hag
    rw [reducedKet_bitOf_idxOf idxI r hq, reducedKet_bitOf_idxOf idxI c hq]
    by_cases h : agreeOff n [q.toNat] r c
    · rw [if_pos h, if_pos (hag.mp h).1, if_pos (hag.mp h).2]
    · rw [if_neg h]
      by_cases hA : agreeOff n (idxI.map Int.toNat) r c
      · rw [if_pos hA, if_neg (fun hB => h (hag.mpr ⟨hA, hB⟩))]
      · rw [if_neg hA]
  | matrix m ops =>
    have hops : ∀ q ∈ ops, q ∈ idxI := hg
    simp only [Gate.pos, denote, embedM, map_toNat_pos]
    have hag := agreeOff_sub_iff idxI hnd hreg ops hops r c
    rw [subIdx_reducedKet idxI ops hops r, subIdx_reducedKet idxI ops hops c]
    by_cases h : agreeOff n (ops.map Int.toNat) r c
    · rw [if_pos h, if_pos (hag.mp h).1, if_pos (hag.mp h).2]
    · rw [if_neg h]
      by_cases hA : agreeOff n (idxI.map Int.toNat) r c
      · rw [if_pos hA, if_neg (fun hB => h (hag.mpr ⟨hA, hB⟩))]
      · rw [if_neg hA]
  | ctrl cq g ih =>
    have hcq : cq ∈ idxI := hg cq (by simp [Gate.operands])
    have hg' : ∀ q ∈ g.operands, q ∈ idxI := fun q hq => hg q (by simp [Gate.operands, hq])
    simp only [Gate.pos, denote, ctrlOf, Int.toNat_natCast]
    simp only [reducedKet_testBit_idxOf idxI c hcq]
    by_cases hb : c.testBit cq.toNat = true
    · rw [if_pos hb, if_pos hb]
      exact ih hg' hr hc
    · rw [if_neg hb, if_neg hb]
      unfold delta
      by_cases hrc : r = c
      · subst hrc
        rw [if_pos rfl, if_pos (agreeOff_refl _ _ _), if_pos rfl]
      · rw [if_neg hrc]
        have h' := hrc
        rw [eq_iff_agreeOff_reducedKet (idxI.map Int.toNat) hr hc] at h'
        by_cases hA : agreeOff n (idxI.map Int.toNat) r c
        · rw [if_pos hA, if_neg (fun e => h' ⟨hA, e⟩)]
        · rw [if_neg hA]

include hnd hreg in
/-- **local-to-global, one gate**: `gateOp n g = lift idx (gateOp k (g re-indexed))` -/
theorem gateOp_eq_lift (g : Gate ℝ) (hg : ∀ q ∈ g.operands, q ∈ idxI) :
    gateOp n g = lift (idxI.map Int.toNat) (List.length_map _) (gateOp idxI.length (g.pos idxI)) := by
  ext r c
  rw [gateOp_apply, denote_lift idxI hnd hreg g hg r.isLt c.isLt, lift_apply]
  split
  · rfl
  · exact Cx.toC_zero

include hnd hreg in
/-- the same, phrased with the model's re-indexer -/
theorem gateOp_eq_lift_reindex (g g' : Gate ℝ) (h : reindexGate idxI g = .ok g') :
    gateOp n g = lift (idxI.map Int.toNat) (List.length_map _) (gateOp idxI.length g') := by
  rw [reindexGate_eq] at h
  by_cases hg : ∀ q ∈ g.operands, q ∈ idxI
  · rw [if_pos hg] at h
    cases h
    exact gateOp_eq_lift idxI hnd hreg g hg
  · rw [if_neg hg] at h; cases h

include hnd hreg in
/-- … a list of gates -/
theorem circOp_gateStmts_lift (gs : List (Gate ℝ)) (hgs : ∀ g ∈ gs, ∀ q ∈ g.operands, q ∈ idxI)
    (o o' : List Bool) :
    circOp n (gateStmts gs) o =
      lift (idxI.map Int.toNat) (List.length_map _)
        (circOp idxI.length (gateStmts (gs.map fun g => g.pos idxI)) o') := by
  induction gs with
  | nil => simp [gateStmts, lift_one]
  | cons g rest ih =>
    simp only [gateStmts, List.map_cons, circOp_gate]
    rw [lift_mul _ _ (nodup_map_toNat idxI hnd hreg) (map_toNat_lt idxI hreg),
      ← gateOp_eq_lift idxI hnd hreg g (hgs g List.mem_cons_self)]
    congr 1
    exact ih (fun g' hg' => hgs g' (List.mem_cons_of_mem _ hg'))

end gates

/-! ## `localMatrix` -/

theorem mapM_reindex_ok {idxI : List Int} {gs gs' : List (Gate ℝ)}
    (h : gs.mapM (reindexGate idxI) = .ok gs') :
    (∀ g ∈ gs, ∀ q ∈ g.operands, q ∈ idxI) ∧ gs' = gs.map fun g => g.pos idxI := by
  induction gs generalizing gs' with
  | nil =>
    simp only [List.mapM_nil, pure, Except.pure, Except.ok.injEq] at h
    subst h; simp
  | cons g rest ih =>
    rw [List.mapM_cons] at h
    cases hg : reindexGate idxI g with
    | error e => rw [hg] at h; simp [bind, Except.bind] at h
    | ok g' =>
      rw [hg] at h
      cases hr : rest.mapM (reindexGate idxI) with
      | error e => rw [hr] at h; simp [bind, Except.bind] at h
      | ok rest' =>
        rw [hr] at h
        simp only [bind, Except.bind, pure, Except.pure, Except.ok.injEq] at h
        obtain ⟨h1, h2⟩ := ih hr
        rw [reindexGate_eq] at hg
        by_cases hops : ∀ q ∈ g.operands, q ∈ idxI
        · rw [if_pos hops] at hg
          cases hg
          subst h; subst h2
          refine ⟨?_, rfl⟩
          intro g0 hg0
          rcases List.mem_cons.mp hg0 with rfl | hg0
          · exact hops
          · exact h1 g0 hg0
        · rw [if_neg hops] at hg; cases hg

/-- **the local matrix of a gate list is the specification on the sub-register** -/
theorem localMatrix_toMatrixOn {idxI : List Int} {gs : List (Gate ℝ)} {B : Mat ℝ}
    (h : localMatrix idxI gs = .ok B) :
    (∀ g ∈ gs, ∀ q ∈ g.operands, q ∈ idxI) ∧
      B.toMatrixOn (2 ^ idxI.length) = circOp idxI.length (gateStmts (gs.map fun g => g.pos idxI)) [] := by
  unfold localMatrix at h
  cases hg : gs.mapM (reindexGate idxI) with
  | error e => rw [hg] at h; simp [bind, Except.bind] at h
  | ok gs' =>
    rw [hg] at h
    simp only [bind, Except.bind] at h
    obtain ⟨h1, h2⟩ := mapM_reindex_ok hg
    subst h2
    exact ⟨h1, circuitMatrix_toMatrixOn (gateStmts_isGate _) h []⟩

/-- … and its lift is the register operator of the gate list -/
theorem localMatrix_lift {n : Nat} (idxI : List Int) (hnd : idxI.Nodup)
    (hreg : ∀ q ∈ idxI, 0 ≤ q ∧ q < (n : Int)) {gs : List (Gate ℝ)} {B : Mat ℝ}
    (h : localMatrix idxI gs = .ok B) (o : List Bool) :
    lift (idxI.map Int.toNat) (List.length_map _) (B.toMatrixOn (2 ^ idxI.length))
      = circOp n (gateStmts gs) o := by
  obtain ⟨h1, h2⟩ := localMatrix_toMatrixOn h
  rw [h2, ← circOp_gateStmts_lift idxI hnd hreg gs h1 o []]

/-- **local-to-global** for two gate lists compared on any admissible enumeration of a set of qubits -/
theorem local_phase_eq_global_idx {n : Nat} (idxI : List Int) (hnd : idxI.Nodup)
    (hreg : ∀ q ∈ idxI, 0 ≤ q ∧ q < (n : Int)) {gs1 gs2 : List (Gate ℝ)} {A B : Mat ℝ}
    (hA : localMatrix idxI gs1 = .ok A) (hB : localMatrix idxI gs2 = .ok B) (z : ℂ)
    (h : A.toMatrixOn (2 ^ idxI.length) = z • B.toMatrixOn (2 ^ idxI.length)) :
    circOp n (gateStmts gs1) [] = z • circOp n (gateStmts gs2) [] := by
  rw [← localMatrix_lift idxI hnd hreg hA [], ← localMatrix_lift idxI hnd hreg hB [], h, lift_smul]

/-- **Local-to-global for `check_gate_replacement`** (exact level).  `A`, `B` are the two `2^k × 2^k` matrices the
    check compares (`k` = number of operands of `g`): the gate itself and the proposed replacement `gs`, both
    re-indexed to the gate's own qubits.  If `A = z • B`, then on the whole `n`-qubit register
    `gateOp n g = z • (operator of the replacement)`. -/
theorem local_phase_eq_global {n : Nat} (g : Gate ℝ) (gs : List (Gate ℝ)) (hnd : g.operands.Nodup)
    (hreg : g.inReg n) {A B : Mat ℝ} (hA : localMatrix g.operands [g] = .ok A)
    (hB : localMatrix g.operands gs = .ok B) (z : ℂ)
    (h : A.toMatrixOn (2 ^ g.operands.length) = z • B.toMatrixOn (2 ^ g.operands.length)) :
    gateOp n g = z • circOp n (gateStmts gs) [] := by
  have := local_phase_eq_global_idx g.operands hnd hreg hA hB z h
  simpa [gateStmts] using this

/-- the direction used by the decompose pass: the replacement is the gate times `z⁻¹` -/
theorem local_phase_eq_global' {n : Nat} (g : Gate ℝ) (gs : List (Gate ℝ)) (hnd : g.operands.Nodup)
    (hreg : g.inReg n) {A B : Mat ℝ} (hA : localMatrix g.operands [g] = .ok A)
    (hB : localMatrix g.operands gs = .ok B) (z : ℂ) (hz : z ≠ 0)
    (h : A.toMatrixOn (2 ^ g.operands.length) = z • B.toMatrixOn (2 ^ g.operands.length)) :
    circOp n (gateStmts gs) [] = z⁻¹ • gateOp n g := by
  rw [local_phase_eq_global g gs hnd hreg hA hB z h, smul_smul, inv_mul_cancel₀ hz, one_smul]

/-! ## Non-vacuity -/

-- a rotation on qubit 5 of a 7-qubit register is the lift of the same rotation on a 1-qubit register
example (ax : Vec3 ℝ) (an ph : ℝ) :
    gateOp 7 (.bsr 5 ax an ph) = lift [5] rfl (gateOp 1 (.bsr 0 ax an ph)) := by
  have := gateOp_eq_lift (n := 7) [5] (by simp) (by simp) (.bsr 5 ax an ph) (by simp [Gate.operands])
  simp only [Gate.pos, List.idxOf_cons_self, List.length_cons, List.length_nil] at this
  exact this

-- a controlled rotation on qubits (3, 1) of 4 is the lift of the controlled rotation on qubits (0, 1) of 2
example (ax : Vec3 ℝ) (an ph : ℝ) :
    gateOp 4 (.ctrl 3 (.bsr 1 ax an ph)) = lift [3, 1] rfl (gateOp 2 (.ctrl 0 (.bsr 1 ax an ph))) := by
  have := gateOp_eq_lift (n := 4) [3, 1] (by simp) (by simp) (.ctrl 3 (.bsr 1 ax an ph))
    (by simp [Gate.operands])
  simp [Gate.pos] at this
  exact this

-- `local_phase_eq_global` with the replacement `[g]` itself (`z = 1`)
example (ax : Vec3 ℝ) (an ph : ℝ) (A : Mat ℝ)
    (hA : localMatrix [3, 1] [Gate.ctrl 3 (.bsr 1 ax an ph)] = .ok A) :
    gateOp 4 (.ctrl 3 (.bsr 1 ax an ph)) = (1 : ℂ) • circOp 4 (gateStmts [.ctrl 3 (.bsr 1 ax an ph)]) [] :=
  local_phase_eq_global (n := 4) (.ctrl 3 (.bsr 1 ax an ph)) [.ctrl 3 (.bsr 1 ax an ph)]
    (by simp [Gate.operands]) (by simp [Gate.inReg, Gate.operands]) hA hA 1 (by simp)

end OSq

#print axioms OSq.sum_agreeOff
#print axioms OSq.lift_mul
#print axioms OSq.lift_one
#print axioms OSq.denote_lift
#print axioms OSq.gateOp_eq_lift
#print axioms OSq.circOp_gateStmts_lift
#print axioms OSq.localMatrix_toMatrixOn
#print axioms OSq.local_phase_eq_global_idx
#print axioms OSq.local_phase_eq_global
#print axioms OSq.local_phase_eq_global'
