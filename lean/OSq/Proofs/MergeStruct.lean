import OSq.Model.Passes
/-
  OSq.Proofs.MergeStruct — structural theorems about the single-qubit merge pass
  (`OSq/Model/Passes.lean`: `mergeLoop`, `flushOps`, `merge`; Python `merger/general_merger.py`).
  Core Lean only; every theorem holds for every scalar type `α` and treats `composeRot` as a black box
  (only `composeRot_q`: a successful composition stays on the qubit of its first argument).

  Theorems
  * `merge_filter`          the sub-list of non-rotation statements (comments, measurements, resets, all gates other
                            than a plain `.bsr`) is literally unchanged — unconditionally, even when the pass raises.
  * `merge_registers`       register sizes are unchanged.
  * `merge_error_only_from_compose`  with in-range operands the pass raises only if a same-qubit `composeRot` fails.
  * `merge_no_error`, `merge_barriers`  in-range operands + `ComposeTotal` ⇒ no exception, statements as above.
  * `merge_no_error_of_no_bsr`  in-range operands and no plain rotation at all ⇒ no exception.
  * `merge_emits_only_bsr`  every output statement is an input statement or a plain rotation.
  * `mergeLoop_trace`       loop invariant: for every qubit, what the rest of the run appends to the qubit's trace is
                            `specTrace` of the pending accumulator and the remaining trace.
  * `merge_per_qubit_order` (no exception, `I(q)` tests as identity) for every qubit `q` of the register
                            `trace q output = specTrace atol q (I q) (trace q input)`, where `specTrace` is the
                            one-accumulator specification: rotations are absorbed by `acc := composeRot rot acc`,
                            a barrier emits the accumulator in front of itself and resets it unless it tests as
                            identity (then: neither emitted nor reset), the end emits it (through `tryName`).
  * `merge_trace_barriers`  the barrier statements of a qubit's trace are unchanged (unconditional).
  * `specTrace_segment`, `specTrace_last_segment`  segment form: a run of rotations between two barriers is replaced
                            by at most one rotation, the left fold `foldRot` of `composeRot` over the run.
  * `merge_emitted_nonidentity`  every rotation of the output is an accumulator produced by `composeRot` that did
                            not test as identity (possibly renamed by `tryName` in the final flush).
  * `merge_normal_form`     (C14) no two rotations adjacent in any qubit's trace; no output rotation tests identity
                            (the latter under `RenameKeepsNonIdentity`, see there).
  Non-vacuity: section `Toy` instantiates every theorem on a concrete 7-statement circuit over a computable toy
  scalar for which all hypotheses are proved.
-/
set_option linter.unusedSectionVars false
namespace OSq
variable {α : Type} [Scalar α]

/-! ### Vocabulary -/

/-- a plain Bloch-sphere rotation statement (what the merger accumulates) -/
def Stmt.isBSR : Stmt α → Bool
  | .gate (.bsr _ _ _ _) _ => true
  | _ => false

/-- comments, measurements, resets and every gate that is not a plain `.bsr` -/
def notBSR (s : Stmt α) : Bool := !s.isBSR

/-- the rotation carried by a BSR statement -/
def Stmt.rot? : Stmt α → Option (Rot α)
  | .gate (.bsr q ax an ph) nm => some ⟨q, ax, an, ph, nm⟩
  | _ => none

theorem Rot.toStmt_isBSR (r : Rot α) : (r.toGStmt.toStmt).isBSR = true := rfl
theorem Rot.toStmt_qubits (r : Rot α) : (r.toGStmt.toStmt).qubits = [r.q] := rfl

/-! ### One step of `mergeLoop` -/

theorem mergeLoop_nil (atol : α) (accs : Array (Rot α)) (out : List (Stmt α)) :
    mergeLoop atol accs out [] = .inr (accs, out) := by
  rw [mergeLoop]

theorem mergeLoop_bsr_key (atol : α) (accs : Array (Rot α)) (out rest : List (Stmt α))
    (q : Int) (ax : Vec3 α) (an ph : α) (nm : Option (Named α)) (h : accGet? accs q = none) :
    mergeLoop atol accs out (.gate (.bsr q ax an ph) nm :: rest) =
      .inl (out.reverse ++ .gate (.bsr q ax an ph) nm :: rest, some .key) := by
  simp only [mergeLoop, h]

theorem mergeLoop_bsr_err (atol : α) (accs : Array (Rot α)) (out rest : List (Stmt α))
    (q : Int) (ax : Vec3 α) (an ph : α) (nm : Option (Named α)) (acc : Rot α) (e : Err)
    (h : accGet? accs q = some acc) (h2 : composeRot atol ⟨q, ax, an, ph, nm⟩ acc = .error e) :
    mergeLoop atol accs out (.gate (.bsr q ax an ph) nm :: rest) =
      .inl (out.reverse ++ .gate (.bsr q ax an ph) nm :: rest, some e) := by
  simp only [mergeLoop, h, h2]

theorem mergeLoop_bsr_ok (atol : α) (accs : Array (Rot α)) (out rest : List (Stmt α))
    (q : Int) (ax : Vec3 α) (an ph : α) (nm : Option (Named α)) (acc r : Rot α)
    (h : accGet? accs q = some acc) (h2 : composeRot atol ⟨q, ax, an, ph, nm⟩ acc = .ok r) :
    mergeLoop atol accs out (.gate (.bsr q ax an ph) nm :: rest) =
      mergeLoop atol (accs.set! q.toNat r) out rest := by
  simp only [mergeLoop, h, h2]

/-- every statement that is not a plain rotation (comments included: they touch no qubit) is handled by
    flushing the accumulators of its operands and copying it -/
theorem mergeLoop_nonBSR_err (atol : α) (accs : Array (Rot α)) (out rest : List (Stmt α)) (s : Stmt α)
    (h : s.isBSR = false) (out' : List (Stmt α)) (hf : flushOps atol accs out s.qubits = .error out') :
    mergeLoop atol accs out (s :: rest) = .inl (out'.reverse ++ s :: rest, some .key) := by
  cases s with
  | comment c => simp [Stmt.qubits, flushOps] at hf
  | gate g nm =>
    cases g with
    | bsr q ax an ph => simp [Stmt.isBSR] at h
    | matrix m ops => simp only [mergeLoop, hf]
    | ctrl c g => simp only [mergeLoop, hf]
  | measure q b ax nm => simp only [mergeLoop, hf]
  | reset q nm => simp only [mergeLoop, hf]

theorem mergeLoop_nonBSR_ok (atol : α) (accs : Array (Rot α)) (out rest : List (Stmt α)) (s : Stmt α)
    (h : s.isBSR = false) (accs' : Array (Rot α)) (out' : List (Stmt α))
    (hf : flushOps atol accs out s.qubits = .ok (accs', out')) :
    mergeLoop atol accs out (s :: rest) = mergeLoop atol accs' (s :: out') rest := by
  cases s with
  | comment c =>
    simp only [Stmt.qubits, flushOps, Except.ok.injEq, Prod.mk.injEq] at hf
    simp only [mergeLoop, hf.1, hf.2]
  | gate g nm =>
    cases g with
    | bsr q ax an ph => simp [Stmt.isBSR] at h
    | matrix m ops => simp only [mergeLoop, hf]
    | ctrl c g => simp only [mergeLoop, hf]
  | measure q b ax nm => simp only [mergeLoop, hf]
  | reset q nm => simp only [mergeLoop, hf]

/-! ### One step of `flushOps` -/

theorem flushOps_nil (atol : α) (accs : Array (Rot α)) (out : List (Stmt α)) :
    flushOps atol accs out [] = .ok (accs, out) := by
  simp only [flushOps]

theorem flushOps_cons_key (atol : α) (accs : Array (Rot α)) (out : List (Stmt α)) (q : Int) (qs : List Int)
    (h : accGet? accs q = none) : flushOps atol accs out (q :: qs) = .error out := by
  simp only [flushOps, h]

theorem flushOps_cons_id (atol : α) (accs : Array (Rot α)) (out : List (Stmt α)) (q : Int) (qs : List Int)
    (r : Rot α) (h : accGet? accs q = some r) (hid : r.isIdentity atol = true) :
    flushOps atol accs out (q :: qs) = flushOps atol accs out qs := by
  simp only [flushOps, h, hid, ↓reduceIte]

theorem flushOps_cons_emit (atol : α) (accs : Array (Rot α)) (out : List (Stmt α)) (q : Int) (qs : List Int)
    (r : Rot α) (h : accGet? accs q = some r) (hid : r.isIdentity atol = false) :
    flushOps atol accs out (q :: qs) =
      flushOps atol (accs.set! q.toNat (defaultI atol q.toNat)) (r.toGStmt.toStmt :: out) qs := by
  simp only [flushOps, h, hid, Bool.false_eq_true, ↓reduceIte]

/-! ### `merge_barriers`, part 1: the non-rotation statements are untouched (unconditionally) -/

theorem filter_notBSR_emitted (em out : List (Stmt α)) (h : ∀ s ∈ em, s.isBSR = true) :
    (em ++ out).reverse.filter notBSR = out.reverse.filter notBSR := by
  have : em.reverse.filter notBSR = [] := by
    rw [List.filter_eq_nil_iff]
    intro s hs
    simp [notBSR, h s (List.mem_reverse.mp hs)]
  rw [List.reverse_append, List.filter_append, this, List.append_nil]

/-- whatever `flushOps` returns (normally or through the `KeyError`), it only pushed rotations on `out` -/
theorem flushOps_shape (atol : α) (qs : List Int) : ∀ (accs : Array (Rot α)) (out : List (Stmt α)),
    (∀ out', flushOps atol accs out qs = .error out' →
        ∃ em, out' = em ++ out ∧ ∀ s ∈ em, s.isBSR = true) ∧
    (∀ accs' out', flushOps atol accs out qs = .ok (accs', out') →
        ∃ em, out' = em ++ out ∧ (∀ s ∈ em, s.isBSR = true) ∧ accs'.size = accs.size) := by
  induction qs with
  | nil =>
    intro accs out
    rw [flushOps_nil]
    refine ⟨fun _ h => (by cases h), fun accs' out' h => ?_⟩
    injection h with h; injection h with h1 h2
    exact ⟨[], by simp [h2], by simp, by rw [h1]⟩
  | cons q qs ih =>
    intro accs out
    cases hq : accGet? accs q with
    | none =>
      rw [flushOps_cons_key atol accs out q qs hq]
      refine ⟨fun out' h => ?_, fun _ _ h => by cases h⟩
      injection h with h
      exact ⟨[], by simp [h], by simp⟩
    | some r =>
      cases hid : r.isIdentity atol with
      | true => rw [flushOps_cons_id atol accs out q qs r hq hid]; exact ih accs out
      | false =>
        rw [flushOps_cons_emit atol accs out q qs r hq hid]
        obtain ⟨ih1, ih2⟩ := ih (accs.set! q.toNat (defaultI atol q.toNat)) (r.toGStmt.toStmt :: out)
        constructor
        · intro out' h
          obtain ⟨em, he, hb⟩ := ih1 out' h
          refine ⟨em ++ [r.toGStmt.toStmt], by simp [he], ?_⟩
          intro s hs
          rcases List.mem_append.mp hs with hs | hs
          · exact hb s hs
          · simp only [List.mem_singleton] at hs; rw [hs]; rfl
        · intro accs' out' h
          obtain ⟨em, he, hb, hsz⟩ := ih2 accs' out' h
          refine ⟨em ++ [r.toGStmt.toStmt], by simp [he], ?_, by simpa using hsz⟩
          intro s hs
          rcases List.mem_append.mp hs with hs | hs
          · exact hb s hs
          · simp only [List.mem_singleton] at hs; rw [hs]; rfl

/-- the statement list a run of `mergeLoop` leaves behind (before the final flush) -/
def loopStmts : (List (Stmt α) × Option Err) ⊕ (Array (Rot α) × List (Stmt α)) → List (Stmt α)
  | .inl (st, _) => st
  | .inr (_, out) => out.reverse

theorem mergeLoop_filter (atol : α) (rest : List (Stmt α)) : ∀ (accs : Array (Rot α)) (out : List (Stmt α)),
    (loopStmts (mergeLoop atol accs out rest)).filter notBSR
      = out.reverse.filter notBSR ++ rest.filter notBSR := by
  induction rest with
  | nil => intro accs out; simp [mergeLoop_nil, loopStmts]
  | cons s rest ih =>
    intro accs out
    cases hb : s.isBSR with
    | true =>
      cases s with
      | gate g nm =>
        cases g with
        | bsr q ax an ph =>
          have hf : List.filter notBSR (Stmt.gate (Gate.bsr q ax an ph) nm :: rest)
              = List.filter notBSR rest := by
            simp [notBSR, Stmt.isBSR]
          cases hq : accGet? accs q with
          | none => rw [mergeLoop_bsr_key atol accs out rest q ax an ph nm hq]; simp [loopStmts]
          | some acc =>
            cases hc : composeRot atol ⟨q, ax, an, ph, nm⟩ acc with
            | error e => rw [mergeLoop_bsr_err atol accs out rest q ax an ph nm acc e hq hc]; simp [loopStmts]
            | ok r => rw [mergeLoop_bsr_ok atol accs out rest q ax an ph nm acc r hq hc, ih, hf]
        | matrix m ops => simp [Stmt.isBSR] at hb
        | ctrl c g => simp [Stmt.isBSR] at hb
      | measure q b ax nm => simp [Stmt.isBSR] at hb
      | reset q nm => simp [Stmt.isBSR] at hb
      | comment c => simp [Stmt.isBSR] at hb
    | false =>
      have hf : List.filter notBSR (s :: rest) = s :: List.filter notBSR rest := by
        simp [notBSR, hb]
      obtain ⟨h1, h2⟩ := flushOps_shape atol s.qubits accs out
      cases hfl : flushOps atol accs out s.qubits with
      | error out' =>
        obtain ⟨em, he, hem⟩ := h1 out' hfl
        rw [mergeLoop_nonBSR_err atol accs out rest s hb out' hfl]
        simp only [loopStmts, List.filter_append]
        rw [he, filter_notBSR_emitted em out hem]
      | ok p =>
        obtain ⟨accs', out'⟩ := p
        obtain ⟨em, he, hem, _⟩ := h2 accs' out' hfl
        rw [mergeLoop_nonBSR_ok atol accs out rest s hb accs' out' hfl, ih, hf]
        rw [List.reverse_cons, List.filter_append, he, filter_notBSR_emitted em out hem]
        simp [notBSR, hb]

/-- the statements appended after the loop (`accumulators_per_qubit.values()`) -/
def mergeTail (atol : α) (accs : Array (Rot α)) : List (Stmt α) :=
  accs.toList.filterMap fun r =>
    if r.isIdentity atol then none
    else
      let r' := if r.nm.isNone then tryName atol r else r
      some r'.toGStmt.toStmt

theorem merge_eq (atol : α) (c : Circuit α) :
    merge atol c =
      match mergeLoop atol (Array.ofFn (n := c.nQubits) fun i => defaultI atol i.val) [] c.stmts with
      | .inl (st, e) => ({ c with stmts := st }, e)
      | .inr (accs, out) => ({ c with stmts := out.reverse ++ mergeTail atol accs }, none) := by
  rfl

theorem mergeTail_isBSR (atol : α) (accs : Array (Rot α)) : ∀ s ∈ mergeTail atol accs, s.isBSR = true := by
  intro s hs
  simp only [mergeTail, List.mem_filterMap] at hs
  obtain ⟨r, _, hr⟩ := hs
  split at hr
  · cases hr
  · injection hr with hr; rw [← hr]; rfl

/-- **merge_barriers (statements).**  Comments, measurements, resets and all gates other than plain rotations are
    exactly the same, in the same order, before and after the pass — whether or not it raises. -/
theorem merge_filter (atol : α) (c : Circuit α) :
    (merge atol c).1.stmts.filter notBSR = c.stmts.filter notBSR := by
  have h := mergeLoop_filter atol c.stmts (Array.ofFn (n := c.nQubits) fun i => defaultI atol i.val) []
  rw [merge_eq]
  split
  · rename_i st e heq; rw [heq] at h; simpa [loopStmts] using h
  · rename_i accs out heq
    rw [heq] at h
    simp only [loopStmts] at h
    have ht : (mergeTail atol accs).filter notBSR = [] := by
      rw [List.filter_eq_nil_iff]
      intro s hs; simp [notBSR, mergeTail_isBSR atol accs s hs]
    simp only [List.filter_append, ht, List.append_nil]
    simpa using h

/-- registers are never changed -/
theorem merge_registers (atol : α) (c : Circuit α) :
    (merge atol c).1.nQubits = c.nQubits ∧ (merge atol c).1.nBits = c.nBits := by
  rw [merge_eq]; split <;> exact ⟨rfl, rfl⟩

/-- **merge_emits_only_bsr.** Every statement of the output is a statement of the input or a plain rotation. -/
theorem merge_emits_only_bsr (atol : α) (c : Circuit α) (s : Stmt α) (hs : s ∈ (merge atol c).1.stmts) :
    s ∈ c.stmts ∨ s.isBSR = true := by
  cases hb : s.isBSR with
  | true => exact Or.inr rfl
  | false =>
    left
    have : s ∈ (merge atol c).1.stmts.filter notBSR := List.mem_filter.mpr ⟨hs, by simp [notBSR, hb]⟩
    rw [merge_filter] at this
    exact (List.mem_filter.mp this).1

/-! ### `merge_barriers`, part 2: no exception for in-range operands -/

/-- every accumulator sits at the index of its own qubit -/
def AccOK (accs : Array (Rot α)) : Prop := ∀ (i : Nat) (r : Rot α), accs[i]? = some r → r.q = (i : Int)

theorem composeRot_q (atol : α) (a b r : Rot α) (h : composeRot atol a b = .ok r) :
    a.q = b.q ∧ r.q = a.q := by
  unfold composeRot at h
  split at h
  · cases h
  · rename_i hq
    have hq : a.q = b.q := by simpa using hq
    refine ⟨hq, ?_⟩
    simp only at h
    split at h
    · injection h with h; rw [← h]; rfl
    · split at h
      · cases h
      · injection h with h; rw [← h]

theorem defaultI_q (atol : α) (q : Nat) : (defaultI atol q).q = (q : Int) := by
  unfold defaultI
  split <;> rfl

theorem accGet?_some (accs : Array (Rot α)) (q : Int) (r : Rot α) (h : accGet? accs q = some r) :
    0 ≤ q ∧ accs[q.toNat]? = some r := by
  unfold accGet? at h
  split at h
  · exact ⟨by assumption, h⟩
  · cases h

theorem accGet?_inRange (accs : Array (Rot α)) (q : Int) (h : inRange accs.size q = true) :
    ∃ r, accGet? accs q = some r := by
  simp only [inRange, Bool.and_eq_true, decide_eq_true_eq] at h
  have hlt : q.toNat < accs.size := by omega
  exact ⟨accs[q.toNat], by simp [accGet?, h.1, hlt]⟩

theorem AccOK.set {accs : Array (Rot α)} (h : AccOK accs) (i : Nat) (r : Rot α) (hr : r.q = (i : Int)) :
    AccOK (accs.set! i r) := by
  intro j r' hj
  simp only [Array.set!_eq_setIfInBounds, Array.getElem?_setIfInBounds] at hj
  split at hj
  · rename_i hij
    split at hj
    · injection hj with hj; rw [← hj, hr, hij]
    · cases hj
  · exact h j r' hj

theorem flushOps_ok (atol : α) (n : Nat) (qs : List Int) (hq : ∀ q ∈ qs, inRange n q = true) :
    ∀ (accs : Array (Rot α)) (out : List (Stmt α)), accs.size = n → AccOK accs →
      ∃ accs' out', flushOps atol accs out qs = .ok (accs', out') ∧ accs'.size = n ∧ AccOK accs' := by
  induction qs with
  | nil => intro accs out hsz hok; exact ⟨accs, out, flushOps_nil atol accs out, hsz, hok⟩
  | cons q qs ih =>
    intro accs out hsz hok
    have ih := ih (fun q' hq' => hq q' (List.mem_cons_of_mem _ hq'))
    obtain ⟨r, hr⟩ := accGet?_inRange accs q (by rw [hsz]; exact hq q List.mem_cons_self)
    cases hid : r.isIdentity atol with
    | true => rw [flushOps_cons_id atol accs out q qs r hr hid]; exact ih accs out hsz hok
    | false =>
      rw [flushOps_cons_emit atol accs out q qs r hr hid]
      exact ih _ _ (by simpa using hsz) (hok.set _ _ (defaultI_q atol _))

/-- all qubit operands of all statements are register indices -/
def OperandsInRange (n : Nat) (stmts : List (Stmt α)) : Prop :=
  ∀ s ∈ stmts, ∀ q ∈ s.qubits, inRange n q = true

/-- `composeRot` succeeds on any two rotations of one qubit (it always fails on different qubits).
    At `ℝ` this holds for unit axes under exact rounding (`Compose.compose_ok_of_crisp`). -/
def ComposeTotal (atol : α) : Prop := ∀ a b : Rot α, a.q = b.q → ∃ r, composeRot atol a b = .ok r

/-- with in-range operands the loop either runs to the end or stops at a failing same-qubit `composeRot` -/
theorem mergeLoop_ok (atol : α) (n : Nat) (rest : List (Stmt α))
    (hr : OperandsInRange n rest) :
    ∀ (accs : Array (Rot α)) (out : List (Stmt α)), accs.size = n → AccOK accs →
      (∃ accs' out', mergeLoop atol accs out rest = .inr (accs', out') ∧ accs'.size = n ∧ AccOK accs') ∨
      (∃ st a b e, mergeLoop atol accs out rest = .inl (st, some e) ∧ a.q = b.q ∧
        composeRot atol a b = .error e) := by
  induction rest with
  | nil => intro accs out hsz hok; exact Or.inl ⟨accs, out, mergeLoop_nil atol accs out, hsz, hok⟩
  | cons s rest ih =>
    intro accs out hsz hok
    have ih := ih (fun s' hs' => hr s' (List.mem_cons_of_mem _ hs'))
    have hs := hr s List.mem_cons_self
    cases hb : s.isBSR with
    | true =>
      cases s with
      | gate g nm =>
        cases g with
        | bsr q ax an ph =>
          have hqr : inRange n q = true := hs q (by simp [Stmt.qubits, Gate.operands])
          obtain ⟨acc, hacc⟩ := accGet?_inRange accs q (by rw [hsz]; exact hqr)
          obtain ⟨hq0, hget⟩ := accGet?_some accs q acc hacc
          have haq : acc.q = q := by rw [hok _ _ hget]; omega
          cases hc : composeRot atol ⟨q, ax, an, ph, nm⟩ acc with
          | error e =>
            rw [mergeLoop_bsr_err atol accs out rest q ax an ph nm acc e hacc hc]
            exact Or.inr ⟨_, _, _, e, rfl, haq.symm, hc⟩
          | ok r =>
            rw [mergeLoop_bsr_ok atol accs out rest q ax an ph nm acc r hacc hc]
            refine ih _ _ (by simpa using hsz) (hok.set _ _ ?_)
            rw [(composeRot_q atol _ _ _ hc).2]; show q = _; omega
        | matrix m ops => simp [Stmt.isBSR] at hb
        | ctrl c g => simp [Stmt.isBSR] at hb
      | measure q b ax nm => simp [Stmt.isBSR] at hb
      | reset q nm => simp [Stmt.isBSR] at hb
      | comment c => simp [Stmt.isBSR] at hb
    | false =>
      obtain ⟨accs', out', hf, hsz', hok'⟩ := flushOps_ok atol n s.qubits hs accs out hsz hok
      rw [mergeLoop_nonBSR_ok atol accs out rest s hb accs' out' hf]
      exact ih accs' (s :: out') hsz' hok'

theorem initAccs_ok (atol : α) (n : Nat) :
    (Array.ofFn (n := n) fun i => defaultI atol i.val).size = n ∧
    AccOK (Array.ofFn (n := n) fun i => defaultI atol i.val) := by
  refine ⟨Array.size_ofFn, ?_⟩
  intro i r hi
  rw [Array.getElem?_ofFn] at hi
  split at hi
  · injection hi with hi; rw [← hi]; exact defaultI_q atol i
  · cases hi

/-- **merge_barriers (exceptions, sharp form).** With in-range operands (no `KeyError`) the pass either does not
    raise, or it re-raises the error of a `composeRot a b` call with `a.q = b.q` (at `ℝ`, for unit axes: only the
    `ValueError` of an all-zero rounded axis, see `Compose.compose_error_cases`). -/
theorem merge_error_only_from_compose (atol : α) (c : Circuit α) (hr : OperandsInRange c.nQubits c.stmts) :
    (merge atol c).2 = none ∨
    ∃ a b e, a.q = b.q ∧ composeRot atol a b = .error e ∧ (merge atol c).2 = some e := by
  obtain ⟨hsz, hok⟩ := initAccs_ok atol c.nQubits
  rcases mergeLoop_ok atol c.nQubits c.stmts hr _ [] hsz hok with ⟨accs', out', h, _, _⟩ | ⟨st, a, b, e, h, hq, he⟩
  · left; rw [merge_eq, h]
  · right; exact ⟨a, b, e, hq, he, by rw [merge_eq, h]⟩

/-- **merge_barriers (no exception).** In-range operands and a `composeRot` that does not fail on one qubit:
    the pass does not raise. -/
theorem merge_no_error (atol : α) (c : Circuit α) (hr : OperandsInRange c.nQubits c.stmts)
    (hcomp : ComposeTotal atol) : (merge atol c).2 = none := by
  rcases merge_error_only_from_compose atol c hr with h | ⟨a, b, e, hq, he, _⟩
  · exact h
  · obtain ⟨r, hr⟩ := hcomp a b hq
    rw [hr] at he; cases he

/-- a circuit without plain rotations and with in-range operands never raises (no composition is performed) -/
theorem merge_no_error_of_no_bsr (atol : α) (c : Circuit α) (hr : OperandsInRange c.nQubits c.stmts)
    (hb : ∀ s ∈ c.stmts, s.isBSR = false) : (merge atol c).2 = none := by
  have key : ∀ (rest : List (Stmt α)), OperandsInRange c.nQubits rest → (∀ s ∈ rest, s.isBSR = false) →
      ∀ (accs : Array (Rot α)) (out : List (Stmt α)), accs.size = c.nQubits → AccOK accs →
        ∃ accs' out', mergeLoop atol accs out rest = .inr (accs', out') := by
    intro rest
    induction rest with
    | nil => intro _ _ accs out _ _; exact ⟨accs, out, mergeLoop_nil atol accs out⟩
    | cons s rest ih =>
      intro hr hb accs out hsz hok
      obtain ⟨accs', out', hf, hsz', hok'⟩ :=
        flushOps_ok atol c.nQubits s.qubits (hr s List.mem_cons_self) accs out hsz hok
      rw [mergeLoop_nonBSR_ok atol accs out rest s (hb s List.mem_cons_self) accs' out' hf]
      exact ih (fun s' hs' => hr s' (List.mem_cons_of_mem _ hs'))
        (fun s' hs' => hb s' (List.mem_cons_of_mem _ hs')) accs' (s :: out') hsz' hok'
  obtain ⟨hsz, hok⟩ := initAccs_ok atol c.nQubits
  obtain ⟨accs', out', h⟩ := key c.stmts hr hb _ [] hsz hok
  rw [merge_eq, h]

/-- **merge_barriers.** -/
theorem merge_barriers (atol : α) (c : Circuit α) (hr : OperandsInRange c.nQubits c.stmts)
    (hcomp : ComposeTotal atol) :
    (merge atol c).2 = none ∧
    (merge atol c).1.stmts.filter notBSR = c.stmts.filter notBSR ∧
    (merge atol c).1.nQubits = c.nQubits ∧ (merge atol c).1.nBits = c.nBits :=
  ⟨merge_no_error atol c hr hcomp, merge_filter atol c, merge_registers atol c⟩

/-! ### Per-qubit traces -/

/-- the statement acts on qubit `q` -/
def Stmt.touches (q : Int) (s : Stmt α) : Bool := decide (q ∈ s.qubits)

/-- the statements touching `q`, in program order -/
def trace (q : Int) (l : List (Stmt α)) : List (Stmt α) := l.filter (Stmt.touches q)

theorem trace_append (q : Int) (l₁ l₂ : List (Stmt α)) : trace q (l₁ ++ l₂) = trace q l₁ ++ trace q l₂ :=
  List.filter_append ..

theorem trace_reverse (q : Int) (l : List (Stmt α)) : trace q l.reverse = (trace q l).reverse :=
  List.filter_reverse ..

theorem trace_cons_pos (q : Int) (s : Stmt α) (l : List (Stmt α)) (h : q ∈ s.qubits) :
    trace q (s :: l) = s :: trace q l := by
  simp [trace, Stmt.touches, h]

theorem trace_cons_neg (q : Int) (s : Stmt α) (l : List (Stmt α)) (h : q ∉ s.qubits) :
    trace q (s :: l) = trace q l := by
  simp [trace, Stmt.touches, h]

/-- what the final loop over the accumulators emits for a non-identity accumulator -/
def finalRot (atol : α) (r : Rot α) : Rot α := if r.nm.isNone then tryName atol r else r

theorem tryName_go_q (atol : α) (r : Rot α) (cl : α → α → Bool) (ns : List String) :
    (tryName.go atol r cl ns).q = r.q := by
  induction ns with
  | nil => simp [tryName.go]
  | cons n ns ih =>
    simp only [tryName.go]
    split
    · split
      · rfl
      · exact ih
    · exact ih

theorem tryName_q (atol : α) (r : Rot α) : (tryName atol r).q = r.q := tryName_go_q atol r _ _

theorem finalRot_q (atol : α) (r : Rot α) : (finalRot atol r).q = r.q := by
  unfold finalRot; split
  · exact tryName_q atol r
  · rfl

/-- the function mapped over the accumulators by the final flush -/
def tailF (atol : α) (r : Rot α) : Option (Stmt α) :=
  if r.isIdentity atol then none else some (finalRot atol r).toGStmt.toStmt

theorem mergeTail_eq (atol : α) (accs : Array (Rot α)) :
    mergeTail atol accs = accs.toList.filterMap (tailF atol) := rfl

/-- the trace of `q` in the final flush: only the accumulator stored at index `q` contributes -/
theorem trace_tail_aux (atol : α) (q : Nat) (l : List (Rot α)) : ∀ (off : Nat),
    (∀ i r, l[i]? = some r → r.q = ((off + i : Nat) : Int)) →
    trace (q : Int) (l.filterMap (tailF atol))
      = if off ≤ q then
          match l[q - off]? with
          | some acc => if acc.isIdentity atol then [] else [(finalRot atol acc).toGStmt.toStmt]
          | none => []
        else [] := by
  induction l with
  | nil => intro off _; simp [trace]
  | cons r l ih =>
    intro off h
    have hr : r.q = ((off : Nat) : Int) := by simpa using h 0 r (by simp)
    have ih := ih (off + 1) (fun i r' hi => by
      have := h (i + 1) r' (by simpa using hi)
      rw [this]; congr 1; omega)
    have hcons : trace (q : Int) ((r :: l).filterMap (tailF atol)) =
        (if r.isIdentity atol then [] else trace (q : Int) [(finalRot atol r).toGStmt.toStmt])
          ++ trace (q : Int) (l.filterMap (tailF atol)) := by
      cases hid : r.isIdentity atol with
      | true => simp [tailF, hid, trace]
      | false =>
        simp only [List.filterMap_cons, tailF, hid, Bool.false_eq_true, ↓reduceIte]
        exact trace_append _ [_] _
    rw [hcons, ih]
    by_cases hoq : off = q
    · subst hoq
      have : ¬ (off + 1 ≤ off) := by omega
      rw [if_neg this, trace_cons_pos _ _ _ (by simp [Rot.toStmt_qubits, finalRot_q, hr])]
      simp [trace]
    · have hnt : trace (q : Int) [(finalRot atol r).toGStmt.toStmt] = [] := by
        rw [trace_cons_neg]; · rfl
        simp only [Rot.toStmt_qubits, finalRot_q, hr, List.mem_singleton]
        omega
      rw [hnt]
      by_cases hle : off ≤ q
      · have h1 : off + 1 ≤ q := by omega
        have h2 : q - off = (q - (off + 1)) + 1 := by omega
        rw [if_pos hle, if_pos h1, h2, List.getElem?_cons_succ]; simp
      · have h1 : ¬ (off + 1 ≤ q) := by omega
        rw [if_neg hle, if_neg h1]; simp

theorem trace_tail (atol : α) (q : Nat) (accs : Array (Rot α)) (acc : Rot α) (hok : AccOK accs)
    (hacc : accs[q]? = some acc) :
    trace (q : Int) (mergeTail atol accs)
      = if acc.isIdentity atol then [] else [(finalRot atol acc).toGStmt.toStmt] := by
  rw [mergeTail_eq, trace_tail_aux atol q accs.toList 0 (fun i r hi => by
    simp only [Nat.zero_add]; exact hok i r (by simpa using hi))]
  simp [hacc]

/-- `I(q)` tests as identity (true at `ℝ` for `0 < atol < π`, at `Float` for `ATOL = 1e-7`): needed so that a
    statement naming the same qubit twice does not flush a fresh accumulator a second time. -/
def DefaultIsIdentity (atol : α) : Prop := ∀ q : Nat, (defaultI atol q).isIdentity atol = true

theorem getElem?_set!_self (accs : Array (Rot α)) (i : Nat) (r : Rot α) (h : i < accs.size) :
    (accs.set! i r)[i]? = some r := by
  simp [h]

theorem getElem?_set!_ne (accs : Array (Rot α)) (i j : Nat) (r : Rot α) (h : i ≠ j) :
    (accs.set! i r)[j]? = accs[j]? := by
  simp [h]

/-- effect of a flush on the trace and the accumulator of one qubit `q` -/
theorem flushOps_trace (atol : α) (hdef : DefaultIsIdentity atol) (q : Nat) (qs : List Int) :
    ∀ (accs : Array (Rot α)) (out : List (Stmt α)) (accs' : Array (Rot α)) (out' : List (Stmt α)) (acc : Rot α),
      AccOK accs → accs[q]? = some acc → flushOps atol accs out qs = .ok (accs', out') →
      AccOK accs' ∧ accs'.size = accs.size ∧
      (if (q : Int) ∈ qs ∧ acc.isIdentity atol = false
        then accs'[q]? = some (defaultI atol q) ∧ trace (q : Int) out' = acc.toGStmt.toStmt :: trace (q : Int) out
        else accs'[q]? = some acc ∧ trace (q : Int) out' = trace (q : Int) out) := by
  induction qs with
  | nil =>
    intro accs out accs' out' acc hok hacc h
    rw [flushOps_nil] at h
    injection h with h; injection h with h1 h2
    subst h1; subst h2
    exact ⟨hok, rfl, by simp [hacc]⟩
  | cons q0 qs ih =>
    intro accs out accs' out' acc hok hacc h
    cases hq0 : accGet? accs q0 with
    | none => rw [flushOps_cons_key atol accs out q0 qs hq0] at h; cases h
    | some r0 =>
      obtain ⟨hq0nn, hget0⟩ := accGet?_some accs q0 r0 hq0
      have hr0q : r0.q = q0 := by rw [hok _ _ hget0]; omega
      cases hid : r0.isIdentity atol with
      | true =>
        rw [flushOps_cons_id atol accs out q0 qs r0 hq0 hid] at h
        obtain ⟨h1, h2, h3⟩ := ih accs out accs' out' acc hok hacc h
        refine ⟨h1, h2, ?_⟩
        by_cases he : q0 = (q : Int)
        · have : r0 = acc := by
            have : q0.toNat = q := by omega
            rw [this, hacc] at hget0; injection hget0 with h; exact h.symm
          subst this
          have c1 : ¬ ((q : Int) ∈ q0 :: qs ∧ r0.isIdentity atol = false) := by simp [hid]
          have c2 : ¬ ((q : Int) ∈ qs ∧ r0.isIdentity atol = false) := by simp [hid]
          rw [if_neg c1]; rw [if_neg c2] at h3; exact h3
        · have : ((q : Int) ∈ q0 :: qs) ↔ ((q : Int) ∈ qs) := by
            simp only [List.mem_cons]; constructor
            · rintro (h | h); · exact absurd h.symm he
              exact h
            · exact Or.inr
          simpa only [this] using h3
      | false =>
        rw [flushOps_cons_emit atol accs out q0 qs r0 hq0 hid] at h
        have hok1 : AccOK (accs.set! q0.toNat (defaultI atol q0.toNat)) := hok.set _ _ (defaultI_q atol _)
        by_cases he : q0 = (q : Int)
        · have hqn : q0.toNat = q := by omega
          have hr : r0 = acc := by
            rw [hqn, hacc] at hget0; injection hget0 with h; exact h.symm
          subst hr
          have hlt : q < accs.size := by
            have := hacc
            rcases Nat.lt_or_ge q accs.size with h | h
            · exact h
            · rw [Array.getElem?_eq_none h] at this; cases this
          have hacc1 : (accs.set! q0.toNat (defaultI atol q0.toNat))[q]? = some (defaultI atol q) := by
            rw [hqn]; exact getElem?_set!_self accs q _ hlt
          obtain ⟨h1, h2, h3⟩ := ih _ _ accs' out' _ hok1 hacc1 h
          have c2 : ¬ ((q : Int) ∈ qs ∧ (defaultI atol q).isIdentity atol = false) := by simp [hdef q]
          rw [if_neg c2] at h3
          have c1 : ((q : Int) ∈ q0 :: qs ∧ r0.isIdentity atol = false) := ⟨by simp [he], hid⟩
          rw [if_pos c1]
          refine ⟨h1, by simpa using h2, h3.1, ?_⟩
          rw [h3.2, trace_cons_pos]
          simp [Rot.toStmt_qubits, hr0q, he]
        · have hqn : q0.toNat ≠ q := by omega
          have hacc1 : (accs.set! q0.toNat (defaultI atol q0.toNat))[q]? = some acc := by
            rw [getElem?_set!_ne accs _ _ _ hqn]; exact hacc
          obtain ⟨h1, h2, h3⟩ := ih _ _ accs' out' _ hok1 hacc1 h
          have : ((q : Int) ∈ q0 :: qs) ↔ ((q : Int) ∈ qs) := by
            simp only [List.mem_cons]; constructor
            · rintro (h | h); · exact absurd h.symm he
              exact h
            · exact Or.inr
          have ht : trace (q : Int) (r0.toGStmt.toStmt :: out) = trace (q : Int) out := by
            apply trace_cons_neg
            simp only [Rot.toStmt_qubits, hr0q, List.mem_singleton]
            exact fun h => he h.symm
          rw [ht] at h3
          refine ⟨h1, by simpa using h2, ?_⟩
          simpa only [this] using h3

/-! ### The per-qubit specification of the pass -/

theorem rot?_isBSR (s : Stmt α) : s.isBSR = true ↔ ∃ r, s.rot? = some r := by
  cases s with
  | gate g nm => cases g <;> simp [Stmt.isBSR, Stmt.rot?]
  | measure q b ax nm => simp [Stmt.isBSR, Stmt.rot?]
  | reset q nm => simp [Stmt.isBSR, Stmt.rot?]
  | comment c => simp [Stmt.isBSR, Stmt.rot?]

theorem rot?_none_of_nonBSR (s : Stmt α) (h : s.isBSR = false) : s.rot? = none := by
  cases hr : s.rot? with
  | none => rfl
  | some r => rw [(rot?_isBSR s).mpr ⟨r, hr⟩] at h; cases h

theorem Rot.rot?_toStmt (r : Rot α) : (r.toGStmt.toStmt).rot? = some r := rfl

/-- **The per-qubit specification.**  Walk the trace of qubit `q` with one accumulator:
    a rotation is absorbed (`acc := composeRot rotation acc`); at a barrier (anything that is not a plain rotation)
    the accumulator is emitted in front of the barrier and reset to `I(q)` unless it tests as identity (then it is
    neither emitted nor reset); at the end the accumulator is emitted (renamed by `tryName` if anonymous) unless it
    tests as identity. -/
def specTrace (atol : α) (q : Nat) : Rot α → List (Stmt α) → List (Stmt α)
  | acc, [] => if acc.isIdentity atol then [] else [(finalRot atol acc).toGStmt.toStmt]
  | acc, s :: rest =>
    match s.rot? with
    | some a =>
      match composeRot atol a acc with
      | .ok r => specTrace atol q r rest
      | .error _ => []
    | none =>
      if acc.isIdentity atol then s :: specTrace atol q acc rest
      else acc.toGStmt.toStmt :: s :: specTrace atol q (defaultI atol q) rest

theorem specTrace_nil (atol : α) (q : Nat) (acc : Rot α) :
    specTrace atol q acc [] = if acc.isIdentity atol then [] else [(finalRot atol acc).toGStmt.toStmt] := by
  simp only [specTrace]

theorem specTrace_rot (atol : α) (q : Nat) (acc a r : Rot α) (s : Stmt α) (rest : List (Stmt α))
    (hs : s.rot? = some a) (hc : composeRot atol a acc = .ok r) :
    specTrace atol q acc (s :: rest) = specTrace atol q r rest := by
  simp only [specTrace, hs, hc]

theorem specTrace_barrier_id (atol : α) (q : Nat) (acc : Rot α) (s : Stmt α) (rest : List (Stmt α))
    (hs : s.rot? = none) (hid : acc.isIdentity atol = true) :
    specTrace atol q acc (s :: rest) = s :: specTrace atol q acc rest := by
  simp only [specTrace, hs, hid, ↓reduceIte]

theorem specTrace_barrier_emit (atol : α) (q : Nat) (acc : Rot α) (s : Stmt α) (rest : List (Stmt α))
    (hs : s.rot? = none) (hid : acc.isIdentity atol = false) :
    specTrace atol q acc (s :: rest) =
      acc.toGStmt.toStmt :: s :: specTrace atol q (defaultI atol q) rest := by
  simp only [specTrace, hs, hid, Bool.false_eq_true, ↓reduceIte]

/-- **Loop invariant.** From any state, the rest of the run (loop + final flush) extends the trace of `q` by
    the specification applied to the pending accumulator of `q` and the remaining trace of `q`. -/
theorem mergeLoop_trace (atol : α) (hdef : DefaultIsIdentity atol) (q : Nat) (rest : List (Stmt α)) :
    ∀ (accs : Array (Rot α)) (out : List (Stmt α)) (accs' : Array (Rot α)) (out' : List (Stmt α)) (acc : Rot α),
      AccOK accs → accs[q]? = some acc → mergeLoop atol accs out rest = .inr (accs', out') →
      trace (q : Int) (out'.reverse ++ mergeTail atol accs')
        = trace (q : Int) out.reverse ++ specTrace atol q acc (trace (q : Int) rest) := by
  induction rest with
  | nil =>
    intro accs out accs' out' acc hok hacc h
    rw [mergeLoop_nil] at h
    injection h with h; injection h with h1 h2
    subst h1; subst h2
    rw [trace_append, trace_tail atol q accs acc hok hacc]
    simp [trace, specTrace_nil]
  | cons s rest ih =>
    intro accs out accs' out' acc hok hacc h
    have hlt : q < accs.size := by
      rcases Nat.lt_or_ge q accs.size with h | h
      · exact h
      · rw [Array.getElem?_eq_none h] at hacc; cases hacc
    cases hb : s.isBSR with
    | true =>
      cases s with
      | gate g nm =>
        cases g with
        | bsr q0 ax an ph =>
          cases hq0 : accGet? accs q0 with
          | none => rw [mergeLoop_bsr_key atol accs out rest q0 ax an ph nm hq0] at h; cases h
          | some acc0 =>
            obtain ⟨hq0nn, hget0⟩ := accGet?_some accs q0 acc0 hq0
            cases hc : composeRot atol ⟨q0, ax, an, ph, nm⟩ acc0 with
            | error e => rw [mergeLoop_bsr_err atol accs out rest q0 ax an ph nm acc0 e hq0 hc] at h; cases h
            | ok r =>
              rw [mergeLoop_bsr_ok atol accs out rest q0 ax an ph nm acc0 r hq0 hc] at h
              have hrq : r.q = ((q0.toNat : Nat) : Int) := by
                rw [(composeRot_q atol _ _ _ hc).2]; show q0 = _; omega
              have hok1 := hok.set q0.toNat r hrq
              by_cases he : q0 = (q : Int)
              · have hqn : q0.toNat = q := by omega
                have hacc0 : acc0 = acc := by
                  rw [hqn, hacc] at hget0; injection hget0 with h; exact h.symm
                subst hacc0
                have hacc1 : (accs.set! q0.toNat r)[q]? = some r := by
                  rw [hqn]; exact getElem?_set!_self accs q r hlt
                rw [ih _ _ _ _ _ hok1 hacc1 h,
                  trace_cons_pos _ _ _ (by simp [Stmt.qubits, Gate.operands, he]),
                  specTrace_rot atol q acc0 _ r _ _ rfl hc]
              · have hqn : q0.toNat ≠ q := by omega
                have hacc1 : (accs.set! q0.toNat r)[q]? = some acc := by
                  rw [getElem?_set!_ne accs _ _ _ hqn]; exact hacc
                rw [ih _ _ _ _ _ hok1 hacc1 h,
                  trace_cons_neg _ _ _ (by
                    simp only [Stmt.qubits, Gate.operands, List.mem_singleton]; exact fun h => he h.symm)]
        | matrix m ops => simp [Stmt.isBSR] at hb
        | ctrl c g => simp [Stmt.isBSR] at hb
      | measure q b ax nm => simp [Stmt.isBSR] at hb
      | reset q nm => simp [Stmt.isBSR] at hb
      | comment c => simp [Stmt.isBSR] at hb
    | false =>
      have hrn := rot?_none_of_nonBSR s hb
      cases hf : flushOps atol accs out s.qubits with
      | error o => rw [mergeLoop_nonBSR_err atol accs out rest s hb o hf] at h; cases h
      | ok p =>
        obtain ⟨accs1, out1⟩ := p
        rw [mergeLoop_nonBSR_ok atol accs out rest s hb accs1 out1 hf] at h
        obtain ⟨hok1, _, h3⟩ := flushOps_trace atol hdef q s.qubits accs out accs1 out1 acc hok hacc hf
        by_cases hm : (q : Int) ∈ s.qubits
        · rw [trace_cons_pos _ _ _ hm]
          cases hid : acc.isIdentity atol with
          | true =>
            have c : ¬ ((q : Int) ∈ s.qubits ∧ acc.isIdentity atol = false) := by simp [hid]
            rw [if_neg c] at h3
            rw [ih _ _ _ _ _ hok1 h3.1 h, specTrace_barrier_id atol q acc s _ hrn hid,
              List.reverse_cons, trace_append, trace_reverse, h3.2, ← trace_reverse,
              trace_cons_pos _ _ _ hm]
            simp [trace]
          | false =>
            rw [if_pos ⟨hm, hid⟩] at h3
            rw [ih _ _ _ _ _ hok1 h3.1 h, specTrace_barrier_emit atol q acc s _ hrn hid,
              List.reverse_cons, trace_append, trace_reverse, h3.2, List.reverse_cons, ← trace_reverse,
              trace_cons_pos _ _ _ hm]
            simp [trace]
        · have c : ¬ ((q : Int) ∈ s.qubits ∧ acc.isIdentity atol = false) := by simp [hm]
          rw [if_neg c] at h3
          rw [trace_cons_neg _ _ _ hm, ih _ _ _ _ _ hok1 h3.1 h,
            List.reverse_cons, trace_append, trace_reverse, h3.2, ← trace_reverse,
            trace_cons_neg _ _ _ hm]
          simp [trace]

/-- `mergeLoop` only stops early with an exception -/
theorem mergeLoop_inl_some (atol : α) (rest : List (Stmt α)) :
    ∀ (accs : Array (Rot α)) (out st : List (Stmt α)) (e : Option Err),
      mergeLoop atol accs out rest = .inl (st, e) → e ≠ none := by
  induction rest with
  | nil => intro accs out st e h; rw [mergeLoop_nil] at h; cases h
  | cons s rest ih =>
    intro accs out st e h
    cases hb : s.isBSR with
    | true =>
      cases s with
      | gate g nm =>
        cases g with
        | bsr q0 ax an ph =>
          cases hq0 : accGet? accs q0 with
          | none =>
            rw [mergeLoop_bsr_key atol accs out rest q0 ax an ph nm hq0] at h
            injection h with h; injection h with _ h; rw [← h]; simp
          | some acc0 =>
            cases hc : composeRot atol ⟨q0, ax, an, ph, nm⟩ acc0 with
            | error e' =>
              rw [mergeLoop_bsr_err atol accs out rest q0 ax an ph nm acc0 e' hq0 hc] at h
              injection h with h; injection h with _ h; rw [← h]; simp
            | ok r =>
              rw [mergeLoop_bsr_ok atol accs out rest q0 ax an ph nm acc0 r hq0 hc] at h
              exact ih _ _ _ _ h
        | matrix m ops => simp [Stmt.isBSR] at hb
        | ctrl c g => simp [Stmt.isBSR] at hb
      | measure q b ax nm => simp [Stmt.isBSR] at hb
      | reset q nm => simp [Stmt.isBSR] at hb
      | comment c => simp [Stmt.isBSR] at hb
    | false =>
      cases hf : flushOps atol accs out s.qubits with
      | error o =>
        rw [mergeLoop_nonBSR_err atol accs out rest s hb o hf] at h
        injection h with h; injection h with _ h; rw [← h]; simp
      | ok p =>
        obtain ⟨accs1, out1⟩ := p
        rw [mergeLoop_nonBSR_ok atol accs out rest s hb accs1 out1 hf] at h
        exact ih _ _ _ _ h

/-- **merge_per_qubit_order.**  If the pass does not raise then, for every qubit `q` of the register, the trace of
    `q` in the output is the specification `specTrace` applied to the trace of `q` in the input, starting from the
    accumulator `I(q)`.  Hence: same barrier statements in the same order; between two consecutive barriers at most
    one rotation on `q`, none if the accumulator tested as identity, and that rotation is the left fold
    `acc ↦ composeRot statement acc` over the rotations of that segment, in order; no rotation crosses a barrier
    that touches its qubit (see `specTrace_segment`, `specTrace_filter` below). -/
theorem merge_per_qubit_order (atol : α) (hdef : DefaultIsIdentity atol) (c : Circuit α)
    (hne : (merge atol c).2 = none) (q : Nat) (hq : q < c.nQubits) :
    trace (q : Int) (merge atol c).1.stmts = specTrace atol q (defaultI atol q) (trace (q : Int) c.stmts) := by
  obtain ⟨hsz, hok⟩ := initAccs_ok atol c.nQubits
  have hacc : (Array.ofFn (n := c.nQubits) fun i => defaultI atol i.val)[q]? = some (defaultI atol q) := by
    rw [Array.getElem?_ofFn]; simp [hq]
  rw [merge_eq] at hne ⊢
  split at hne
  · rename_i st e heq
    exact absurd hne (mergeLoop_inl_some atol _ _ _ _ _ heq)
  · rename_i accs out heq
    simpa [trace] using mergeLoop_trace atol hdef q c.stmts _ [] accs out _ hok hacc heq

/-- the barrier statements on `q` are the same, in the same order (whether or not the pass raises) -/
theorem merge_trace_barriers (atol : α) (c : Circuit α) (q : Int) :
    (trace q (merge atol c).1.stmts).filter notBSR = (trace q c.stmts).filter notBSR := by
  simp only [trace, List.filter_filter]
  have h := congrArg (List.filter (Stmt.touches q)) (merge_filter atol c)
  simp only [List.filter_filter] at h
  simpa [Bool.and_comm] using h

/-! ### Segments: the emitted rotation is the fold of `composeRot` over the run of rotations -/

/-- `acc_{i+1} = composeRot statement_i acc_i` over a list of rotation statements -/
def foldRot (atol : α) : Rot α → List (Stmt α) → Except Err (Rot α)
  | acc, [] => .ok acc
  | acc, s :: rest =>
    match s.rot? with
    | some a =>
      match composeRot atol a acc with
      | .ok r => foldRot atol r rest
      | .error e => .error e
    | none => foldRot atol acc rest

/-- a maximal run `seg` of rotations in the trace is replaced by its fold -/
theorem specTrace_append_segment (atol : α) (q : Nat) (seg : List (Stmt α))
    (hseg : ∀ s ∈ seg, s.isBSR = true) :
    ∀ (acc r : Rot α) (tl : List (Stmt α)), foldRot atol acc seg = .ok r →
      specTrace atol q acc (seg ++ tl) = specTrace atol q r tl := by
  induction seg with
  | nil => intro acc r tl h; simp only [foldRot] at h; injection h with h; rw [h]; rfl
  | cons s seg ih =>
    intro acc r tl h
    obtain ⟨a, ha⟩ := (rot?_isBSR s).mp (hseg s List.mem_cons_self)
    simp only [foldRot, ha] at h
    cases hc : composeRot atol a acc with
    | error e => rw [hc] at h; cases h
    | ok r1 =>
      rw [hc] at h
      rw [List.cons_append, specTrace_rot atol q acc a r1 s _ ha hc]
      exact ih (fun s' hs' => hseg s' (List.mem_cons_of_mem _ hs')) r1 r tl h

/-- **Segment form.** A run of rotations followed by a barrier `b`: at most one rotation is emitted, in front of
    `b`; it is the fold of the run; nothing is emitted (and the accumulator kept) if the fold tests as identity. -/
theorem specTrace_segment (atol : α) (q : Nat) (seg : List (Stmt α)) (hseg : ∀ s ∈ seg, s.isBSR = true)
    (acc r : Rot α) (hf : foldRot atol acc seg = .ok r) (b : Stmt α) (hb : b.isBSR = false)
    (rest : List (Stmt α)) :
    specTrace atol q acc (seg ++ b :: rest) =
      if r.isIdentity atol then b :: specTrace atol q r rest
      else r.toGStmt.toStmt :: b :: specTrace atol q (defaultI atol q) rest := by
  rw [specTrace_append_segment atol q seg hseg acc r _ hf]
  cases hid : r.isIdentity atol with
  | true => rw [specTrace_barrier_id atol q r b rest (rot?_none_of_nonBSR b hb) hid]; rfl
  | false => rw [specTrace_barrier_emit atol q r b rest (rot?_none_of_nonBSR b hb) hid]; rfl

/-- the last run (no barrier after it): emitted at the very end, through `tryName` if anonymous -/
theorem specTrace_last_segment (atol : α) (q : Nat) (seg : List (Stmt α)) (hseg : ∀ s ∈ seg, s.isBSR = true)
    (acc r : Rot α) (hf : foldRot atol acc seg = .ok r) :
    specTrace atol q acc seg =
      if r.isIdentity atol then [] else [(finalRot atol r).toGStmt.toStmt] := by
  have := specTrace_append_segment atol q seg hseg acc r [] hf
  rw [List.append_nil] at this
  rw [this, specTrace_nil]

/-! ### Normal form (property C14) -/

/-- no two rotations are adjacent -/
def noAdjBSR : List (Stmt α) → Bool
  | [] => true
  | [_] => true
  | x :: y :: l => !(x.isBSR && y.isBSR) && noAdjBSR (y :: l)

theorem noAdjBSR_cons_nonBSR (s : Stmt α) (l : List (Stmt α)) (h : s.isBSR = false) :
    noAdjBSR (s :: l) = noAdjBSR l := by
  cases l with
  | nil => rfl
  | cons y l => simp [noAdjBSR, h]

theorem specTrace_noAdj (atol : α) (q : Nat) (tr : List (Stmt α)) :
    ∀ acc : Rot α, noAdjBSR (specTrace atol q acc tr) = true := by
  induction tr with
  | nil => intro acc; rw [specTrace_nil]; split <;> rfl
  | cons s tr ih =>
    intro acc
    cases hr : s.rot? with
    | some a =>
      cases hc : composeRot atol a acc with
      | error e => simp only [specTrace, hr, hc]; rfl
      | ok r => rw [specTrace_rot atol q acc a r s tr hr hc]; exact ih r
    | none =>
      have hb : s.isBSR = false := by
        cases h : s.isBSR with
        | false => rfl
        | true => obtain ⟨r, h'⟩ := (rot?_isBSR s).mp h; rw [hr] at h'; cases h'
      cases hid : acc.isIdentity atol with
      | true => rw [specTrace_barrier_id atol q acc s tr hr hid, noAdjBSR_cons_nonBSR _ _ hb]; exact ih acc
      | false =>
        rw [specTrace_barrier_emit atol q acc s tr hr hid]
        simp only [noAdjBSR, hb, Bool.and_false, Bool.not_false, Bool.true_and]
        rw [noAdjBSR_cons_nonBSR _ _ hb]; exact ih _

/-- `r` is the result of some call of `composeRot` -/
def FromCompose (atol : α) (r : Rot α) : Prop := ∃ a b : Rot α, composeRot atol a b = .ok r

/-- every accumulator tests as identity (e.g. the initial `I(q)`) or was produced by `composeRot` -/
def AccSrc (atol : α) (accs : Array (Rot α)) : Prop :=
  ∀ (i : Nat) (r : Rot α), accs[i]? = some r → r.isIdentity atol = true ∨ FromCompose atol r

theorem AccSrc.set {atol : α} {accs : Array (Rot α)} (h : AccSrc atol accs) (i : Nat) (r : Rot α)
    (hr : r.isIdentity atol = true ∨ FromCompose atol r) : AccSrc atol (accs.set! i r) := by
  intro j r' hj
  simp only [Array.set!_eq_setIfInBounds, Array.getElem?_setIfInBounds] at hj
  split at hj
  · split at hj
    · injection hj with hj; rw [← hj]; exact hr
    · cases hj
  · exact h j r' hj

/-- what a rotation statement of the output looks like: a flushed, or finally flushed (and possibly renamed),
    accumulator that did not test as identity and was produced by `composeRot` -/
def Emitted (atol : α) (s : Stmt α) : Prop :=
  ∃ r : Rot α, r.isIdentity atol = false ∧ FromCompose atol r ∧
    (s = r.toGStmt.toStmt ∨ s = (finalRot atol r).toGStmt.toStmt)

theorem flushOps_emitted (atol : α) (hdef : DefaultIsIdentity atol) (qs : List Int) :
    ∀ (accs : Array (Rot α)) (out : List (Stmt α)) (accs' : Array (Rot α)) (out' : List (Stmt α)),
      AccSrc atol accs → (∀ s ∈ out, s.isBSR = true → Emitted atol s) →
      flushOps atol accs out qs = .ok (accs', out') →
      AccSrc atol accs' ∧ ∀ s ∈ out', s.isBSR = true → Emitted atol s := by
  induction qs with
  | nil =>
    intro accs out accs' out' ha ho h
    rw [flushOps_nil] at h; injection h with h; injection h with h1 h2; rw [← h1, ← h2]; exact ⟨ha, ho⟩
  | cons q0 qs ih =>
    intro accs out accs' out' ha ho h
    cases hq0 : accGet? accs q0 with
    | none => rw [flushOps_cons_key atol accs out q0 qs hq0] at h; cases h
    | some r0 =>
      cases hid : r0.isIdentity atol with
      | true => rw [flushOps_cons_id atol accs out q0 qs r0 hq0 hid] at h; exact ih _ _ _ _ ha ho h
      | false =>
        rw [flushOps_cons_emit atol accs out q0 qs r0 hq0 hid] at h
        refine ih _ _ _ _ (ha.set _ _ (Or.inl (hdef _))) ?_ h
        intro s hs hb
        rcases List.mem_cons.mp hs with rfl | hs
        · rcases ha _ _ (accGet?_some accs q0 r0 hq0).2 with h' | h'
          · rw [hid] at h'; cases h'
          · exact ⟨r0, hid, h', Or.inl rfl⟩
        · exact ho s hs hb

theorem mergeLoop_emitted (atol : α) (hdef : DefaultIsIdentity atol) (rest : List (Stmt α)) :
    ∀ (accs : Array (Rot α)) (out : List (Stmt α)) (accs' : Array (Rot α)) (out' : List (Stmt α)),
      AccSrc atol accs → (∀ s ∈ out, s.isBSR = true → Emitted atol s) →
      mergeLoop atol accs out rest = .inr (accs', out') →
      AccSrc atol accs' ∧ ∀ s ∈ out', s.isBSR = true → Emitted atol s := by
  induction rest with
  | nil =>
    intro accs out accs' out' ha ho h
    rw [mergeLoop_nil] at h; injection h with h; injection h with h1 h2; rw [← h1, ← h2]; exact ⟨ha, ho⟩
  | cons s rest ih =>
    intro accs out accs' out' ha ho h
    cases hb : s.isBSR with
    | true =>
      cases s with
      | gate g nm =>
        cases g with
        | bsr q0 ax an ph =>
          cases hq0 : accGet? accs q0 with
          | none => rw [mergeLoop_bsr_key atol accs out rest q0 ax an ph nm hq0] at h; cases h
          | some acc0 =>
            cases hc : composeRot atol ⟨q0, ax, an, ph, nm⟩ acc0 with
            | error e => rw [mergeLoop_bsr_err atol accs out rest q0 ax an ph nm acc0 e hq0 hc] at h; cases h
            | ok r =>
              rw [mergeLoop_bsr_ok atol accs out rest q0 ax an ph nm acc0 r hq0 hc] at h
              exact ih _ _ _ _ (ha.set _ _ (Or.inr ⟨_, _, hc⟩)) ho h
        | matrix m ops => simp [Stmt.isBSR] at hb
        | ctrl c g => simp [Stmt.isBSR] at hb
      | measure q b ax nm => simp [Stmt.isBSR] at hb
      | reset q nm => simp [Stmt.isBSR] at hb
      | comment c => simp [Stmt.isBSR] at hb
    | false =>
      cases hf : flushOps atol accs out s.qubits with
      | error o => rw [mergeLoop_nonBSR_err atol accs out rest s hb o hf] at h; cases h
      | ok p =>
        obtain ⟨accs1, out1⟩ := p
        rw [mergeLoop_nonBSR_ok atol accs out rest s hb accs1 out1 hf] at h
        obtain ⟨ha1, ho1⟩ := flushOps_emitted atol hdef s.qubits accs out accs1 out1 ha ho hf
        refine ih _ _ _ _ ha1 ?_ h
        intro s' hs' hb'
        rcases List.mem_cons.mp hs' with rfl | hs'
        · rw [hb] at hb'; cases hb'
        · exact ho1 s' hs' hb'

/-- **Every rotation in the output is an emitted accumulator that did not test as identity** (all input rotations
    have been absorbed), and that accumulator is the result of a `composeRot` call. -/
theorem merge_emitted_nonidentity (atol : α) (hdef : DefaultIsIdentity atol) (c : Circuit α)
    (hne : (merge atol c).2 = none)
    (s : Stmt α) (hs : s ∈ (merge atol c).1.stmts) (hb : s.isBSR = true) : Emitted atol s := by
  have hinit : AccSrc atol (Array.ofFn (n := c.nQubits) fun i => defaultI atol i.val) := by
    intro i r hi
    rw [Array.getElem?_ofFn] at hi
    split at hi
    · injection hi with hi; rw [← hi]; exact Or.inl (hdef i)
    · cases hi
  rw [merge_eq] at hne hs
  split at hne
  · rename_i st e heq
    exact absurd hne (mergeLoop_inl_some atol _ _ _ _ _ heq)
  · rename_i accs out heq
    rw [heq] at hs
    simp only [List.mem_append, List.mem_reverse] at hs
    obtain ⟨ha, ho⟩ := mergeLoop_emitted atol hdef c.stmts _ [] accs out hinit (by simp) heq
    rcases hs with hs | hs
    · exact ho s hs hb
    · rw [mergeTail_eq, List.mem_filterMap] at hs
      obtain ⟨r, hmem, hr⟩ := hs
      unfold tailF at hr
      split at hr
      · cases hr
      · rename_i hid
        have hid : r.isIdentity atol = false := by simpa using hid
        injection hr with hr
        obtain ⟨i, hi⟩ := List.getElem?_of_mem hmem
        rcases ha i r (by simpa using hi) with h' | h'
        · rw [hid] at h'; cases h'
        · exact ⟨r, hid, h', Or.inr hr.symm⟩

/-- renaming a non-identity accumulator produced by `composeRot` does not make it test as identity.
    (At `ℝ` this holds for `0 < atol ≤ π/4`: such an accumulator has `|angle| ≥ 2·atol`, so the only default gate
    that tests as identity, `I`, is never within `atol` of it.  For arbitrary rotations it fails on the boundary
    `|angle| = atol`, because `tryName` compares with `≤` and `is_identity` with `<`.) -/
def RenameKeepsNonIdentity (atol : α) : Prop :=
  ∀ a b r : Rot α, composeRot atol a b = .ok r → r.isIdentity atol = false →
    (finalRot atol r).isIdentity atol = false

/-- **merge_normal_form (C14).** If the pass does not raise: for every qubit of the register no two rotations are
    adjacent in its trace, and no rotation in the output tests as identity. -/
theorem merge_normal_form (atol : α) (hdef : DefaultIsIdentity atol) (hname : RenameKeepsNonIdentity atol)
    (c : Circuit α) (hne : (merge atol c).2 = none) :
    (∀ q : Nat, q < c.nQubits → noAdjBSR (trace (q : Int) (merge atol c).1.stmts) = true) ∧
    (∀ s ∈ (merge atol c).1.stmts, ∀ r, s.rot? = some r → r.isIdentity atol = false) := by
  constructor
  · intro q hq
    rw [merge_per_qubit_order atol hdef c hne q hq]
    exact specTrace_noAdj atol q _ _
  · intro s hs r hr
    obtain ⟨r0, hid, ⟨a, b, hab⟩, h | h⟩ :=
      merge_emitted_nonidentity atol hdef c hne s hs ((rot?_isBSR s).mpr ⟨r, hr⟩)
    · rw [h, Rot.rot?_toStmt] at hr; injection hr with hr; rw [← hr]; exact hid
    · rw [h, Rot.rot?_toStmt] at hr; injection hr with hr; rw [← hr]; exact hname a b r0 hab hid

/-! ### Non-vacuity: a toy scalar type on which everything is computable and `ComposeTotal` holds -/
namespace Toy

/-- a degenerate scalar (`sin ≡ 0`): every composition lands in the identity branch -/
local instance : Trig Int where
  pi := 3
  sin _ := 0
  cos _ := 1
  tan _ := 0
  acos _ := 0
  sqrt x := x
  atan2 _ _ := 0
  floor x := x
  abs x := x.natAbs
  copysign x _ := x
  finite _ := true
local instance : OfScientific Int := ⟨fun m _ _ => m⟩
local instance : Scalar Int where
  decLt := inferInstance
  decLe := inferInstance
  decEqB x y := x == y
  default := 0

theorem composeRot_toy (a b : Rot Int) (h : a.q = b.q) : composeRot (1 : Int) a b = .ok (identityRot a.q) := by
  simp [composeRot, h, absS, Trig.sin, Trig.abs]

theorem composeTotal : ComposeTotal (1 : Int) := fun a b h => ⟨_, composeRot_toy a b h⟩

theorem defaultIsIdentity : DefaultIsIdentity (1 : Int) := by
  intro q
  have h1 : Scalar.decEqB (Vec3.maxAbs ((one : Int), zero, zero)) zero = false := by decide
  have h2 : normalizeAngle (1 : Int) zero = 0 := by decide
  simp [defaultI, named, callGate, Gen.gateTable, bindArgs, GExpr.eval, envQubit, Env.find?, mkBSR, mkAxis,
    bind, Except.bind, pure, Except.pure, h1, h2, Rot.isIdentity, absS, Trig.abs]

theorem renameKeeps : RenameKeepsNonIdentity (1 : Int) := by
  intro a b r h hid
  rw [composeRot_toy a b (composeRot_q _ _ _ _ h).1] at h
  injection h with h
  rw [← h] at hid
  cases hid

def rot (q : Int) (an : Int) : Stmt Int := .gate (.bsr q (1, 0, 0) an 0) none

def exCirc : Circuit Int :=
  { nQubits := 2, nBits := 1,
    stmts := [rot 0 5, .comment "c", rot 1 7, .gate (.ctrl 0 (.bsr 1 (1, 0, 0) 3 0)) none, rot 0 2,
              .measure 0 0 (0, 0, 1) none, .reset 1 none] }

theorem exCirc_inRange : OperandsInRange exCirc.nQubits exCirc.stmts := by
  simp [OperandsInRange, exCirc, rot, Stmt.qubits, Gate.operands, inRange]

example := merge_barriers (1 : Int) exCirc exCirc_inRange composeTotal
example := merge_error_only_from_compose (1 : Int) exCirc exCirc_inRange
example (s : Stmt Int) (hs : s ∈ (merge (1 : Int) exCirc).1.stmts) := merge_emits_only_bsr (1 : Int) exCirc s hs

theorem exCirc_no_error : (merge (1 : Int) exCirc).2 = none :=
  merge_no_error (1 : Int) exCirc exCirc_inRange composeTotal

example := merge_per_qubit_order (1 : Int) defaultIsIdentity exCirc exCirc_no_error 0 (by decide)
example := merge_per_qubit_order (1 : Int) defaultIsIdentity exCirc exCirc_no_error 1 (by decide)
example := merge_normal_form (1 : Int) defaultIsIdentity renameKeeps exCirc exCirc_no_error
example (s : Stmt Int) (hs : s ∈ (merge (1 : Int) exCirc).1.stmts) (hb : s.isBSR = true) :=
  merge_emitted_nonidentity (1 : Int) defaultIsIdentity exCirc exCirc_no_error s hs hb

end Toy

/-- the unconditional part also instantiates on the executable `Float` model -/
example (c : Circuit Float) : (merge Gen.atol c).1.stmts.filter notBSR = c.stmts.filter notBSR :=
  merge_filter Gen.atol c

#print axioms merge_barriers
#print axioms merge_filter
#print axioms merge_error_only_from_compose
#print axioms merge_emits_only_bsr
#print axioms merge_per_qubit_order
#print axioms merge_trace_barriers
#print axioms specTrace_segment
#print axioms specTrace_last_segment
#print axioms merge_emitted_nonidentity
#print axioms merge_normal_form

end OSq
