import OSq.Model.Passes
/-
  OSq.Proofs.MergeStruct — structural theorems about the single-qubit merge pass
  (`OSq/Model/Passes.lean`: `mergeLoop`, `flushOps`, `merge`; Python `merger/general_merger.py`).
  Core Lean only; every theorem holds for every scalar type `α` and treats `composeRot` as a black box
  (only `composeRot_q`: a successful composition stays on the qubit of its first argument).

  Theorems
  * `merge_filter`          the sub-list of non-rotation statements (comments, measurements, resets, all gates other
                            than a plain `.bsr`) is literally unchanged — unconditionally, even when the pass raises.
  * `merge_registers`       register sizes are unchanged.
  * `merge_error_only_from_compose`  with in-range operands the pass raises only if a same-qubit `composeRot` fails.
  * `merge_no_error`, `merge_barriers`  in-range operands + `ComposeTotal` ⇒ no exception, statements as above.
  * `merge_emits_only_bsr`  every output statement is an input statement or a plain rotation.
  (continued below as the file grows)
-/
set_option linter.unusedSectionVars false
namespace OSq
variable {α : Type} [Scalar α]

/-! ### Vocabulary -/

/-- a plain Bloch-sphere rotation statement (what the merger accumulates) -/
def Stmt.isBSR : Stmt α → Bool
  | .gate (.bsr _ _ _ _) _ => true
  | _ => false

/-- comments, measurements, resets and every gate that is not a plain `.bsr` -/
def notBSR (s : Stmt α) : Bool := !s.isBSR

/-- the rotation carried by a BSR statement -/
def Stmt.rot? : Stmt α → Option (Rot α)
  | .gate (.bsr q ax an ph) nm => some ⟨q, ax, an, ph, nm⟩
  | _ => none

theorem Rot.toStmt_isBSR (r : Rot α) : (r.toGStmt.toStmt).isBSR = true := rfl
theorem Rot.toStmt_qubits (r : Rot α) : (r.toGStmt.toStmt).qubits = [r.q] := rfl

/-! ### One step of `mergeLoop` -/

theorem mergeLoop_nil (atol : α) (accs : Array (Rot α)) (out : List (Stmt α)) :
    mergeLoop atol accs out [] = .inr (accs, out) := by
  rw [mergeLoop]

theorem mergeLoop_bsr_key (atol : α) (accs : Array (Rot α)) (out rest : List (Stmt α))
    (q : Int) (ax : Vec3 α) (an ph : α) (nm : Option (Named α)) (h : accGet? accs q = none) :
    mergeLoop atol accs out (.gate (.bsr q ax an ph) nm :: rest) =
      .inl (out.reverse ++ .gate (.bsr q ax an ph) nm :: rest, some .key) := by
  simp only [mergeLoop, h]

theorem mergeLoop_bsr_err (atol : α) (accs : Array (Rot α)) (out rest : List (Stmt α))
    (q : Int) (ax : Vec3 α) (an ph : α) (nm : Option (Named α)) (acc : Rot α) (e : Err)
    (h : accGet? accs q = some acc) (h2 : composeRot atol ⟨q, ax, an, ph, nm⟩ acc = .error e) :
    mergeLoop atol accs out (.gate (.bsr q ax an ph) nm :: rest) =
      .inl (out.reverse ++ .gate (.bsr q ax an ph) nm :: rest, some e) := by
  simp only [mergeLoop, h, h2]

theorem mergeLoop_bsr_ok (atol : α) (accs : Array (Rot α)) (out rest : List (Stmt α))
    (q : Int) (ax : Vec3 α) (an ph : α) (nm : Option (Named α)) (acc r : Rot α)
    (h : accGet? accs q = some acc) (h2 : composeRot atol ⟨q, ax, an, ph, nm⟩ acc = .ok r) :
    mergeLoop atol accs out (.gate (.bsr q ax an ph) nm :: rest) =
      mergeLoop atol (accs.set! q.toNat r) out rest := by
  simp only [mergeLoop, h, h2]

/-- every statement that is not a plain rotation (comments included: they touch no qubit) is handled by
    flushing the accumulators of its operands and copying it -/
theorem mergeLoop_nonBSR_err (atol : α) (accs : Array (Rot α)) (out rest : List (Stmt α)) (s : Stmt α)
    (h : s.isBSR = false) (out' : List (Stmt α)) (hf : flushOps atol accs out s.qubits = .error out') :
    mergeLoop atol accs out (s :: rest) = .inl (out'.reverse ++ s :: rest, some .key) := by
  cases s with
  | comment c => simp [Stmt.qubits, flushOps] at hf
  | gate g nm =>
    cases g with
    | bsr q ax an ph => simp [Stmt.isBSR] at h
    | matrix m ops => simp only [mergeLoop, hf]
    | ctrl c g => simp only [mergeLoop, hf]
  | measure q b ax nm => simp only [mergeLoop, hf]
  | reset q nm => simp only [mergeLoop, hf]

theorem mergeLoop_nonBSR_ok (atol : α) (accs : Array (Rot α)) (out rest : List (Stmt α)) (s : Stmt α)
    (h : s.isBSR = false) (accs' : Array (Rot α)) (out' : List (Stmt α))
    (hf : flushOps atol accs out s.qubits = .ok (accs', out')) :
    mergeLoop atol accs out (s :: rest) = mergeLoop atol accs' (s :: out') rest := by
  cases s with
  | comment c =>
    simp only [Stmt.qubits, flushOps, Except.ok.injEq, Prod.mk.injEq] at hf
    simp only [mergeLoop, hf.1, hf.2]
  | gate g nm =>
    cases g with
    | bsr q ax an ph => simp [Stmt.isBSR] at h
    | matrix m ops => simp only [mergeLoop, hf]
    | ctrl c g => simp only [mergeLoop, hf]
  | measure q b ax nm => simp only [mergeLoop, hf]
  | reset q nm => simp only [mergeLoop, hf]

/-! ### One step of `flushOps` -/

theorem flushOps_nil (atol : α) (accs : Array (Rot α)) (out : List (Stmt α)) :
    flushOps atol accs out [] = .ok (accs, out) := by
  simp only [flushOps]

theorem flushOps_cons_key (atol : α) (accs : Array (Rot α)) (out : List (Stmt α)) (q : Int) (qs : List Int)
    (h : accGet? accs q = none) : flushOps atol accs out (q :: qs) = .error out := by
  simp only [flushOps, h]

theorem flushOps_cons_id (atol : α) (accs : Array (Rot α)) (out : List (Stmt α)) (q : Int) (qs : List Int)
    (r : Rot α) (h : accGet? accs q = some r) (hid : r.isIdentity atol = true) :
    flushOps atol accs out (q :: qs) = flushOps atol accs out qs := by
  simp only [flushOps, h, hid, ↓reduceIte]

theorem flushOps_cons_emit (atol : α) (accs : Array (Rot α)) (out : List (Stmt α)) (q : Int) (qs : List Int)
    (r : Rot α) (h : accGet? accs q = some r) (hid : r.isIdentity atol = false) :
    flushOps atol accs out (q :: qs) =
      flushOps atol (accs.set! q.toNat (defaultI atol q.toNat)) (r.toGStmt.toStmt :: out) qs := by
  simp only [flushOps, h, hid, Bool.false_eq_true, ↓reduceIte]

/-! ### `merge_barriers`, part 1: the non-rotation statements are untouched (unconditionally) -/

theorem filter_notBSR_emitted (em out : List (Stmt α)) (h : ∀ s ∈ em, s.isBSR = true) :
    (em ++ out).reverse.filter notBSR = out.reverse.filter notBSR := by
  have : em.reverse.filter notBSR = [] := by
    rw [List.filter_eq_nil_iff]
    intro s hs
    simp [notBSR, h s (List.mem_reverse.mp hs)]
  rw [List.reverse_append, List.filter_append, this, List.append_nil]

/-- whatever `flushOps` returns (normally or through the `KeyError`), it only pushed rotations on `out` -/
theorem flushOps_shape (atol : α) (qs : List Int) : ∀ (accs : Array (Rot α)) (out : List (Stmt α)),
    (∀ out', flushOps atol accs out qs = .error out' →
        ∃ em, out' = em ++ out ∧ ∀ s ∈ em, s.isBSR = true) ∧
    (∀ accs' out', flushOps atol accs out qs = .ok (accs', out') →
        ∃ em, out' = em ++ out ∧ (∀ s ∈ em, s.isBSR = true) ∧ accs'.size = accs.size) := by
  induction qs with
  | nil =>
    intro accs out
    rw [flushOps_nil]
    refine ⟨fun _ h => (by cases h), fun accs' out' h => ?_⟩
    injection h with h; injection h with h1 h2
    exact ⟨[], by simp [h2], by simp, by rw [h1]⟩
  | cons q qs ih =>
    intro accs out
    cases hq : accGet? accs q with
    | none =>
      rw [flushOps_cons_key atol accs out q qs hq]
      refine ⟨fun out' h => ?_, fun _ _ h => by cases h⟩
      injection h with h
      exact ⟨[], by simp [h], by simp⟩
    | some r =>
      cases hid : r.isIdentity atol with
      | true => rw [flushOps_cons_id atol accs out q qs r hq hid]; exact ih accs out
      | false =>
        rw [flushOps_cons_emit atol accs out q qs r hq hid]
        obtain ⟨ih1, ih2⟩ := ih (accs.set! q.toNat (defaultI atol q.toNat)) (r.toGStmt.toStmt :: out)
        constructor
        · intro out' h
          obtain ⟨em, he, hb⟩ := ih1 out' h
          refine ⟨em ++ [r.toGStmt.toStmt], by simp [he], ?_⟩
          intro s hs
          rcases List.mem_append.mp hs with hs | hs
          · exact hb s hs
          · simp only [List.mem_singleton] at hs; rw [hs]; rfl
        · intro accs' out' h
          obtain ⟨em, he, hb, hsz⟩ := ih2 accs' out' h
          refine ⟨em ++ [r.toGStmt.toStmt], by simp [he], ?_, by simpa using hsz⟩
          intro s hs
          rcases List.mem_append.mp hs with hs | hs
          · exact hb s hs
          · simp only [List.mem_singleton] at hs; rw [hs]; rfl

/-- the statement list a run of `mergeLoop` leaves behind (before the final flush) -/
def loopStmts : (List (Stmt α) × Option Err) ⊕ (Array (Rot α) × List (Stmt α)) → List (Stmt α)
  | .inl (st, _) => st
  | .inr (_, out) => out.reverse

theorem mergeLoop_filter (atol : α) (rest : List (Stmt α)) : ∀ (accs : Array (Rot α)) (out : List (Stmt α)),
    (loopStmts (mergeLoop atol accs out rest)).filter notBSR
      = out.reverse.filter notBSR ++ rest.filter notBSR := by
  induction rest with
  | nil => intro accs out; simp [mergeLoop_nil, loopStmts]
  | cons s rest ih =>
    intro accs out
    cases hb : s.isBSR with
    | true =>
      cases s with
      | gate g nm =>
        cases g with
        | bsr q ax an ph =>
          have hf : List.filter notBSR (Stmt.gate (Gate.bsr q ax an ph) nm :: rest)
              = List.filter notBSR rest := by
            simp [notBSR, Stmt.isBSR]
          cases hq : accGet? accs q with
          | none => rw [mergeLoop_bsr_key atol accs out rest q ax an ph nm hq]; simp [loopStmts]
          | some acc =>
            cases hc : composeRot atol ⟨q, ax, an, ph, nm⟩ acc with
            | error e => rw [mergeLoop_bsr_err atol accs out rest q ax an ph nm acc e hq hc]; simp [loopStmts]
            | ok r => rw [mergeLoop_bsr_ok atol accs out rest q ax an ph nm acc r hq hc, ih, hf]
        | matrix m ops => simp [Stmt.isBSR] at hb
        | ctrl c g => simp [Stmt.isBSR] at hb
      | measure q b ax nm => simp [Stmt.isBSR] at hb
      | reset q nm => simp [Stmt.isBSR] at hb
      | comment c => simp [Stmt.isBSR] at hb
    | false =>
      have hf : List.filter notBSR (s :: rest) = s :: List.filter notBSR rest := by
        simp [notBSR, hb]
      obtain ⟨h1, h2⟩ := flushOps_shape atol s.qubits accs out
      cases hfl : flushOps atol accs out s.qubits with
      | error out' =>
        obtain ⟨em, he, hem⟩ := h1 out' hfl
        rw [mergeLoop_nonBSR_err atol accs out rest s hb out' hfl]
        simp only [loopStmts, List.filter_append]
        rw [he, filter_notBSR_emitted em out hem]
      | ok p =>
        obtain ⟨accs', out'⟩ := p
        obtain ⟨em, he, hem, _⟩ := h2 accs' out' hfl
        rw [mergeLoop_nonBSR_ok atol accs out rest s hb accs' out' hfl, ih, hf]
        rw [List.reverse_cons, List.filter_append, he, filter_notBSR_emitted em out hem]
        simp [notBSR, hb]

/-- the statements appended after the loop (`accumulators_per_qubit.values()`) -/
def mergeTail (atol : α) (accs : Array (Rot α)) : List (Stmt α) :=
  accs.toList.filterMap fun r =>
    if r.isIdentity atol then none
    else
      let r' := if r.nm.isNone then tryName atol r else r
      some r'.toGStmt.toStmt

theorem merge_eq (atol : α) (c : Circuit α) :
    merge atol c =
      match mergeLoop atol (Array.ofFn (n := c.nQubits) fun i => defaultI atol i.val) [] c.stmts with
      | .inl (st, e) => ({ c with stmts := st }, e)
      | .inr (accs, out) => ({ c with stmts := out.reverse ++ mergeTail atol accs }, none) := by
  rfl

theorem mergeTail_isBSR (atol : α) (accs : Array (Rot α)) : ∀ s ∈ mergeTail atol accs, s.isBSR = true := by
  intro s hs
  simp only [mergeTail, List.mem_filterMap] at hs
  obtain ⟨r, _, hr⟩ := hs
  split at hr
  · cases hr
  · injection hr with hr; rw [← hr]; rfl

/-- **merge_barriers (statements).**  Comments, measurements, resets and all gates other than plain rotations are
    exactly the same, in the same order, before and after the pass — whether or not it raises. -/
theorem merge_filter (atol : α) (c : Circuit α) :
    (merge atol c).1.stmts.filter notBSR = c.stmts.filter notBSR := by
  have h := mergeLoop_filter atol c.stmts (Array.ofFn (n := c.nQubits) fun i => defaultI atol i.val) []
  rw [merge_eq]
  split
  · rename_i st e heq; rw [heq] at h; simpa [loopStmts] using h
  · rename_i accs out heq
    rw [heq] at h
    simp only [loopStmts] at h
    have ht : (mergeTail atol accs).filter notBSR = [] := by
      rw [List.filter_eq_nil_iff]
      intro s hs; simp [notBSR, mergeTail_isBSR atol accs s hs]
    simp only [List.filter_append, ht, List.append_nil]
    simpa using h

/-- registers are never changed -/
theorem merge_registers (atol : α) (c : Circuit α) :
    (merge atol c).1.nQubits = c.nQubits ∧ (merge atol c).1.nBits = c.nBits := by
  rw [merge_eq]; split <;> exact ⟨rfl, rfl⟩

/-- **merge_emits_only_bsr.** Every statement of the output is a statement of the input or a plain rotation. -/
theorem merge_emits_only_bsr (atol : α) (c : Circuit α) (s : Stmt α) (hs : s ∈ (merge atol c).1.stmts) :
    s ∈ c.stmts ∨ s.isBSR = true := by
  cases hb : s.isBSR with
  | true => exact Or.inr rfl
  | false =>
    left
    have : s ∈ (merge atol c).1.stmts.filter notBSR := List.mem_filter.mpr ⟨hs, by simp [notBSR, hb]⟩
    rw [merge_filter] at this
    exact (List.mem_filter.mp this).1

/-! ### `merge_barriers`, part 2: no exception for in-range operands -/

/-- every accumulator sits at the index of its own qubit -/
def AccOK (accs : Array (Rot α)) : Prop := ∀ (i : Nat) (r : Rot α), accs[i]? = some r → r.q = (i : Int)

theorem composeRot_q (atol : α) (a b r : Rot α) (h : composeRot atol a b = .ok r) :
    a.q = b.q ∧ r.q = a.q := by
  unfold composeRot at h
  split at h
  · cases h
  · rename_i hq
    have hq : a.q = b.q := by simpa using hq
    refine ⟨hq, ?_⟩
    simp only at h
    split at h
    · injection h with h; rw [← h]; rfl
    · split at h
      · cases h
      · injection h with h; rw [← h]

theorem defaultI_q (atol : α) (q : Nat) : (defaultI atol q).q = (q : Int) := by
  unfold defaultI
  split <;> rfl

theorem accGet?_some (accs : Array (Rot α)) (q : Int) (r : Rot α) (h : accGet? accs q = some r) :
    0 ≤ q ∧ accs[q.toNat]? = some r := by
  unfold accGet? at h
  split at h
  · exact ⟨by assumption, h⟩
  · cases h

theorem accGet?_inRange (accs : Array (Rot α)) (q : Int) (h : inRange accs.size q = true) :
    ∃ r, accGet? accs q = some r := by
  simp only [inRange, Bool.and_eq_true, decide_eq_true_eq] at h
  have hlt : q.toNat < accs.size := by omega
  exact ⟨accs[q.toNat], by simp [accGet?, h.1, hlt]⟩

theorem AccOK.set {accs : Array (Rot α)} (h : AccOK accs) (i : Nat) (r : Rot α) (hr : r.q = (i : Int)) :
    AccOK (accs.set! i r) := by
  intro j r' hj
  simp only [Array.set!_eq_setIfInBounds, Array.getElem?_setIfInBounds] at hj
  split at hj
  · rename_i hij
    split at hj
    · injection hj with hj; rw [← hj, hr, hij]
    · cases hj
  · exact h j r' hj

theorem flushOps_ok (atol : α) (n : Nat) (qs : List Int) (hq : ∀ q ∈ qs, inRange n q = true) :
    ∀ (accs : Array (Rot α)) (out : List (Stmt α)), accs.size = n → AccOK accs →
      ∃ accs' out', flushOps atol accs out qs = .ok (accs', out') ∧ accs'.size = n ∧ AccOK accs' := by
  induction qs with
  | nil => intro accs out hsz hok; exact ⟨accs, out, flushOps_nil atol accs out, hsz, hok⟩
  | cons q qs ih =>
    intro accs out hsz hok
    have ih := ih (fun q' hq' => hq q' (List.mem_cons_of_mem _ hq'))
    obtain ⟨r, hr⟩ := accGet?_inRange accs q (by rw [hsz]; exact hq q List.mem_cons_self)
    cases hid : r.isIdentity atol with
    | true => rw [flushOps_cons_id atol accs out q qs r hr hid]; exact ih accs out hsz hok
    | false =>
      rw [flushOps_cons_emit atol accs out q qs r hr hid]
      exact ih _ _ (by simpa using hsz) (hok.set _ _ (defaultI_q atol _))

/-- all qubit operands of all statements are register indices -/
def OperandsInRange (n : Nat) (stmts : List (Stmt α)) : Prop :=
  ∀ s ∈ stmts, ∀ q ∈ s.qubits, inRange n q = true

/-- `composeRot` succeeds on any two rotations of one qubit (it always fails on different qubits).
    At `ℝ` this holds for unit axes under exact rounding (`Compose.compose_ok_of_crisp`). -/
def ComposeTotal (atol : α) : Prop := ∀ a b : Rot α, a.q = b.q → ∃ r, composeRot atol a b = .ok r

/-- with in-range operands the loop either runs to the end or stops at a failing same-qubit `composeRot` -/
theorem mergeLoop_ok (atol : α) (n : Nat) (rest : List (Stmt α))
    (hr : OperandsInRange n rest) :
    ∀ (accs : Array (Rot α)) (out : List (Stmt α)), accs.size = n → AccOK accs →
      (∃ accs' out', mergeLoop atol accs out rest = .inr (accs', out') ∧ accs'.size = n ∧ AccOK accs') ∨
      (∃ st a b e, mergeLoop atol accs out rest = .inl (st, some e) ∧ a.q = b.q ∧
        composeRot atol a b = .error e) := by
  induction rest with
  | nil => intro accs out hsz hok; exact Or.inl ⟨accs, out, mergeLoop_nil atol accs out, hsz, hok⟩
  | cons s rest ih =>
    intro accs out hsz hok
    have ih := ih (fun s' hs' => hr s' (List.mem_cons_of_mem _ hs'))
    have hs := hr s List.mem_cons_self
    cases hb : s.isBSR with
    | true =>
      cases s with
      | gate g nm =>
        cases g with
        | bsr q ax an ph =>
          have hqr : inRange n q = true := hs q (by simp [Stmt.qubits, Gate.operands])
          obtain ⟨acc, hacc⟩ := accGet?_inRange accs q (by rw [hsz]; exact hqr)
          obtain ⟨hq0, hget⟩ := accGet?_some accs q acc hacc
          have haq : acc.q = q := by rw [hok _ _ hget]; omega
          cases hc : composeRot atol ⟨q, ax, an, ph, nm⟩ acc with
          | error e =>
            rw [mergeLoop_bsr_err atol accs out rest q ax an ph nm acc e hacc hc]
            exact Or.inr ⟨_, _, _, e, rfl, haq.symm, hc⟩
          | ok r =>
            rw [mergeLoop_bsr_ok atol accs out rest q ax an ph nm acc r hacc hc]
            refine ih _ _ (by simpa using hsz) (hok.set _ _ ?_)
            rw [(composeRot_q atol _ _ _ hc).2]; show q = _; omega
        | matrix m ops => simp [Stmt.isBSR] at hb
        | ctrl c g => simp [Stmt.isBSR] at hb
      | measure q b ax nm => simp [Stmt.isBSR] at hb
      | reset q nm => simp [Stmt.isBSR] at hb
      | comment c => simp [Stmt.isBSR] at hb
    | false =>
      obtain ⟨accs', out', hf, hsz', hok'⟩ := flushOps_ok atol n s.qubits hs accs out hsz hok
      rw [mergeLoop_nonBSR_ok atol accs out rest s hb accs' out' hf]
      exact ih accs' (s :: out') hsz' hok'

theorem initAccs_ok (atol : α) (n : Nat) :
    (Array.ofFn (n := n) fun i => defaultI atol i.val).size = n ∧
    AccOK (Array.ofFn (n := n) fun i => defaultI atol i.val) := by
  refine ⟨Array.size_ofFn, ?_⟩
  intro i r hi
  rw [Array.getElem?_ofFn] at hi
  split at hi
  · injection hi with hi; rw [← hi]; exact defaultI_q atol i
  · cases hi

/-- **merge_barriers (exceptions, sharp form).** With in-range operands (no `KeyError`) the pass either does not
    raise, or it re-raises the error of a `composeRot a b` call with `a.q = b.q` (at `ℝ`, for unit axes: only the
    `ValueError` of an all-zero rounded axis, see `Compose.compose_error_cases`). -/
theorem merge_error_only_from_compose (atol : α) (c : Circuit α) (hr : OperandsInRange c.nQubits c.stmts) :
    (merge atol c).2 = none ∨
    ∃ a b e, a.q = b.q ∧ composeRot atol a b = .error e ∧ (merge atol c).2 = some e := by
  obtain ⟨hsz, hok⟩ := initAccs_ok atol c.nQubits
  rcases mergeLoop_ok atol c.nQubits c.stmts hr _ [] hsz hok with ⟨accs', out', h, _, _⟩ | ⟨st, a, b, e, h, hq, he⟩
  · left; rw [merge_eq, h]
  · right; exact ⟨a, b, e, hq, he, by rw [merge_eq, h]⟩

/-- **merge_barriers (no exception).** In-range operands and a `composeRot` that does not fail on one qubit:
    the pass does not raise. -/
theorem merge_no_error (atol : α) (c : Circuit α) (hr : OperandsInRange c.nQubits c.stmts)
    (hcomp : ComposeTotal atol) : (merge atol c).2 = none := by
  rcases merge_error_only_from_compose atol c hr with h | ⟨a, b, e, hq, he, _⟩
  · exact h
  · obtain ⟨r, hr⟩ := hcomp a b hq
    rw [hr] at he; cases he

/-- **merge_barriers.** -/
theorem merge_barriers (atol : α) (c : Circuit α) (hr : OperandsInRange c.nQubits c.stmts)
    (hcomp : ComposeTotal atol) :
    (merge atol c).2 = none ∧
    (merge atol c).1.stmts.filter notBSR = c.stmts.filter notBSR ∧
    (merge atol c).1.nQubits = c.nQubits ∧ (merge atol c).1.nBits = c.nBits :=
  ⟨merge_no_error atol c hr hcomp, merge_filter atol c, merge_registers atol c⟩

/-! ### Non-vacuity: a toy scalar type on which everything is computable and `ComposeTotal` holds -/
namespace Toy

/-- a degenerate scalar (`sin ≡ 0`): every composition lands in the identity branch -/
local instance : Trig Int where
  pi := 3
  sin _ := 0
  cos _ := 1
  tan _ := 0
  acos _ := 0
  sqrt x := x
  atan2 _ _ := 0
  floor x := x
  abs x := x.natAbs
  copysign x _ := x
  finite _ := true
local instance : OfScientific Int := ⟨fun m _ _ => m⟩
local instance : Scalar Int where
  decLt := inferInstance
  decLe := inferInstance
  decEqB x y := x == y
  default := 0

theorem composeTotal : ComposeTotal (1 : Int) := by
  intro a b h
  refine ⟨identityRot a.q, ?_⟩
  simp [composeRot, h, absS, Trig.sin, Trig.abs]

def rot (q : Int) (an : Int) : Stmt Int := .gate (.bsr q (1, 0, 0) an 0) none

def exCirc : Circuit Int :=
  { nQubits := 2, nBits := 1,
    stmts := [rot 0 5, .comment "c", rot 1 7, .gate (.ctrl 0 (.bsr 1 (1, 0, 0) 3 0)) none, rot 0 2,
              .measure 0 0 (0, 0, 1) none, .reset 1 none] }

theorem exCirc_inRange : OperandsInRange exCirc.nQubits exCirc.stmts := by
  simp [OperandsInRange, exCirc, rot, Stmt.qubits, Gate.operands, inRange]

example := merge_barriers (1 : Int) exCirc exCirc_inRange composeTotal
example := merge_error_only_from_compose (1 : Int) exCirc exCirc_inRange
example (s : Stmt Int) (hs : s ∈ (merge (1 : Int) exCirc).1.stmts) := merge_emits_only_bsr (1 : Int) exCirc s hs

end Toy

/-- the unconditional part also instantiates on the executable `Float` model -/
example (c : Circuit Float) : (merge Gen.atol c).1.stmts.filter notBSR = c.stmts.filter notBSR :=
  merge_filter Gen.atol c

#print axioms merge_barriers
#print axioms merge_filter
#print axioms merge_error_only_from_compose
#print axioms merge_emits_only_bsr

end OSq
