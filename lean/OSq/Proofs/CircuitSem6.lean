import OSq.Proofs.CircuitSem5
import OSq.Proofs.MergeAbstract
import OSq.Proofs.Construct
import OSq.Proofs.MergeSemReal
import Mathlib.GroupTheory.Congruence.Hom
/-
  OSq.Proofs.CircuitSem6 — **the merge pass preserves the meaning of the circuit at register level**, obtained by
  instantiating the abstract merge theorem (`MergeAbstract.merge_sem`) with the register semantics `stmtOp` modulo one
  global phase.

  The monoids
  * `phaseCon n`, `POp n`   operators modulo a unit complex factor (`a ~ b ↔ ∃ z, ‖z‖ = 1 ∧ a = z • b`): a monoid
  * `ST n`                  outcome-consuming operators `List Bool → Op n × List Bool` (read some outcomes, return the
                            operator and the unread outcomes) with sequential composition — a monoid;
                            `stGate A`, `stStmt n s`, `stCirc n l` (`stCirc n l o = (circOp n l o, o.drop (nOutcomes l))`,
                            `stCirc_cons : stCirc n (s :: l) = stCirc n l * stStmt n s`)
  * `stCon n`, `MOp n`      `ST n` modulo ONE unit complex factor for ALL outcome streams: a monoid;
                            `stCirc_equiv_iff`: two circuits have the same class iff they are `CircEquiv`
                            (given equally many outcome-consuming statements)
  The semantics
  * `regSem n : MergeAbs.Sem (POp 1) (MOp n) (Stmt ℝ)`   `emb q [a] = [lift [q] a]` (`q < n`, else trivial),
                            `den s = [stStmt n s]` (in-range statements, else trivial), `touches s = s.qubits.map toNat`;
                            the two commutation fields are `lift_commute` and `lift_commute_stmtOp` (`CircuitSem5`)
  * `rotOp r : POp 1`       the operator of a rotation record (`can1 axis angle phase`) modulo phase;
                            `rotOp_defaultI`: `I(q)` denotes the unit (`0 < atol ≤ π`)
  * `denS_regSem`           for in-range statement lists `denS (regSem n) rotOp l = [stCirc n l]`
  The theorems
  * `gmergeR_wf`            (abstract) every statement the abstract algorithm emits is on a register qubit
  * `merge_output_inReg`    (model) every statement of the output of `merge` is in range (needs no exception)
  * `merge_sameBarriers`    measurements, resets and comments are untouched (unconditional; from `merge_filter`)
  * `merge_sem_global`      in-range operands, no exception, `0 < atol ≤ π`, and the run-local exact-composition
                            hypothesis `MergeAbs.Crisp (regSem n) (modelAlg atol rotOp) …` (each composition performed
                            denotes the operator product up to phase; each accumulator that is tested and tests as
                            identity denotes the identity up to phase; the final renaming keeps the operator up to phase)
                            ⇒ `CircEquiv n c.stmts (merge atol c).1.stmts ∧ SameBarriers c.stmts (merge atol c).1.stmts`
  Deriving `Crisp` for `rotOp` from the analytic hypotheses `CrispR` of `MergeSemReal` (through the monoid morphism from
  quaternions modulo sign to `POp 1`) is done in `CircuitSem7` (`merge_sem_global_real`).
-/
open Matrix

namespace OSq
open MergeAbs

/-! ## Operators modulo a global phase -/

/-- equality up to a unit complex factor is a congruence of the multiplicative monoid of operators -/
def phaseCon (n : Nat) : Con (Op n) where
  r a b := ∃ z : ℂ, ‖z‖ = 1 ∧ a = z • b
  iseqv := {
    refl := fun a => ⟨1, norm_one, (one_smul _ _).symm⟩
    symm := by
      rintro a b ⟨z, hz, rfl⟩
      have hz0 : z ≠ 0 := by
        intro h0; rw [h0, norm_zero] at hz; exact zero_ne_one hz
      exact ⟨z⁻¹, by rw [norm_inv, hz, inv_one], by rw [smul_smul, inv_mul_cancel₀ hz0, one_smul]⟩
    trans := by
      rintro a b c ⟨z, hz, rfl⟩ ⟨w, hw, rfl⟩
      exact ⟨z * w, by rw [norm_mul, hz, hw, one_mul], by rw [smul_smul]⟩ }
  mul' := by
    rintro a b c d ⟨z, hz, rfl⟩ ⟨w, hw, rfl⟩
    exact ⟨z * w, by rw [norm_mul, hz, hw, one_mul],
      by simp only [Matrix.smul_mul, Matrix.mul_smul, smul_smul]; rw [mul_comm]⟩

/-- operators modulo a global phase -/
abbrev POp (n : Nat) := (phaseCon n).Quotient

theorem phaseCon_rel {n : Nat} (a b : Op n) : phaseCon n a b ↔ ∃ z : ℂ, ‖z‖ = 1 ∧ a = z • b := Iff.rfl

/-! ## Outcome-consuming operators -/

/-- an operator that reads some measurement / reset outcomes from a stream and returns the unread rest -/
def ST (n : Nat) : Type := List Bool → Op n × List Bool

namespace ST
variable {n : Nat}

@[ext] theorem ext {f g : ST n} (h : ∀ o, f o = g o) : f = g := funext h

/-- sequential composition: `g` first, then `f` on the outcomes `g` left over -/
instance : Mul (ST n) := ⟨fun f g => fun o => ((f (g o).2).1 * (g o).1, (f (g o).2).2)⟩
instance : One (ST n) := ⟨fun o => (1, o)⟩

theorem mul_apply (f g : ST n) (o : List Bool) :
    (f * g) o = ((f (g o).2).1 * (g o).1, (f (g o).2).2) := rfl
theorem one_apply (o : List Bool) : (1 : ST n) o = (1, o) := rfl

instance : Monoid (ST n) where
  mul_assoc f g h := by
    apply ST.ext; intro o
    simp only [mul_apply, Matrix.mul_assoc]
  one_mul f := by apply ST.ext; intro o; simp [mul_apply, one_apply]
  mul_one f := by apply ST.ext; intro o; simp [mul_apply, one_apply]

end ST

/-- a gate: consumes nothing -/
def stGate {n : Nat} (A : Op n) : ST n := fun o => (A, o)

theorem stGate_mul {n : Nat} (A B : Op n) : stGate (A * B) = stGate A * stGate B := rfl
theorem stGate_one {n : Nat} : stGate (1 : Op n) = 1 := rfl

/-- one statement -/
noncomputable def stStmt (n : Nat) (s : Stmt ℝ) : ST n := fun o =>
  if s.hasOutcome then (stmtOp n s (o.headD false), o.tail) else (stmtOp n s false, o)

/-- a statement list -/
noncomputable def stCirc (n : Nat) (l : List (Stmt ℝ)) : ST n := fun o =>
  (circOp n l o, o.drop (nOutcomes l))

theorem stCirc_nil (n : Nat) : stCirc n [] = 1 := by
  apply ST.ext; intro o; simp [stCirc, ST.one_apply, nOutcomes_nil]

theorem stCirc_cons (n : Nat) (s : Stmt ℝ) (l : List (Stmt ℝ)) :
    stCirc n (s :: l) = stCirc n l * stStmt n s := by
  apply ST.ext; intro o
  simp only [stCirc, ST.mul_apply, stStmt, circOp_cons, nOutcomes_cons]
  by_cases hs : s.hasOutcome = true
  · simp only [hs, if_true]
    cases o <;> simp
  · simp only [hs, if_false, Bool.false_eq_true, Nat.add_zero]

theorem stStmt_gate (n : Nat) (g : Gate ℝ) (nm : Option (Named ℝ)) :
    stStmt n (.gate g nm) = stGate (gateOp n g) := rfl

/-- one unit complex factor for all outcome streams -/
def stCon (n : Nat) : Con (ST n) where
  r f g := ∃ z : ℂ, ‖z‖ = 1 ∧ ∀ o, f o = (z • (g o).1, (g o).2)
  iseqv := {
    refl := fun f => ⟨1, norm_one, fun o => by simp⟩
    symm := by
      rintro f g ⟨z, hz, H⟩
      have hz0 : z ≠ 0 := by
        intro h0; rw [h0, norm_zero] at hz; exact zero_ne_one hz
      refine ⟨z⁻¹, by rw [norm_inv, hz, inv_one], fun o => ?_⟩
      rw [H o]
      simp only [smul_smul, inv_mul_cancel₀ hz0, one_smul]
    trans := by
      rintro f g h ⟨z, hz, H⟩ ⟨w, hw, K⟩
      refine ⟨z * w, by rw [norm_mul, hz, hw, one_mul], fun o => ?_⟩
      rw [H o, K o]
      simp only [smul_smul] }
  mul' := by
    rintro f f' g g' ⟨z, hz, H⟩ ⟨w, hw, K⟩
    refine ⟨z * w, by rw [norm_mul, hz, hw, one_mul], fun o => ?_⟩
    simp only [ST.mul_apply, K o, H]
    simp only [Matrix.smul_mul, Matrix.mul_smul, smul_smul]
    rw [mul_comm]

/-- outcome-consuming operators modulo one global phase -/
abbrev MOp (n : Nat) := (stCon n).Quotient

theorem stCon_rel {n : Nat} (f g : ST n) :
    stCon n f g ↔ ∃ z : ℂ, ‖z‖ = 1 ∧ ∀ o, f o = (z • (g o).1, (g o).2) := Iff.rfl

/-- **equality of classes is `CircEquiv`** (for lists consuming equally many outcomes) -/
theorem stCirc_equiv_iff (n : Nat) (l1 l2 : List (Stmt ℝ)) (hn : nOutcomes l1 = nOutcomes l2) :
    ((stCirc n l1 : ST n) : MOp n) = ((stCirc n l2 : ST n) : MOp n) ↔ CircEquiv n l1 l2 := by
  rw [Con.eq, stCon_rel]
  constructor
  · rintro ⟨z, hz, H⟩
    exact ⟨z, hz, fun o => congrArg Prod.fst (H o)⟩
  · rintro ⟨z, hz, H⟩
    refine ⟨z, hz, fun o => ?_⟩
    simp only [stCirc, H o, hn]

/-! ## The register semantics as an instance of the abstract merge semantics -/

/-- a one-qubit operator placed on qubit `q < n`, as a monoid morphism into outcome-consuming operators -/
def embHom (n q : Nat) (hq : q < n) : Op 1 →* ST n where
  toFun a := stGate (lift [q] rfl a)
  map_one' := by rw [lift_one, stGate_one]
  map_mul' a b := by
    rw [lift_mul [q] rfl (by simp) (by simpa using hq), stGate_mul]

theorem embHom_apply (n q : Nat) (hq : q < n) (a : Op 1) : embHom n q hq a = stGate (lift [q] rfl a) := rfl

theorem embHom_phase (n q : Nat) (hq : q < n) :
    phaseCon 1 ≤ Con.ker ((stCon n).mk'.comp (embHom n q hq)) := by
  rintro a b ⟨z, hz, rfl⟩
  rw [Con.ker_apply]
  simp only [MonoidHom.comp_apply, Con.coe_mk', embHom_apply]
  rw [Con.eq]
  exact ⟨z, hz, fun o => by simp [stGate, lift_smul]⟩

/-- the embedding on classes -/
def embP (n q : Nat) : POp 1 →* MOp n :=
  if hq : q < n then (phaseCon 1).lift ((stCon n).mk'.comp (embHom n q hq)) (embHom_phase n q hq) else 1

theorem embP_coe (n q : Nat) (hq : q < n) (a : Op 1) :
    embP n q (a : POp 1) = ((stGate (lift [q] rfl a : Op n) : ST n) : MOp n) := by
  simp only [embP, dif_pos hq]
  rfl

/-- the denotation of a barrier statement (trivial for statements outside the register) -/
noncomputable def denP (n : Nat) (s : Stmt ℝ) : MOp n :=
  if s.qubits.all (inRange n) then ((stStmt n s : ST n) : MOp n) else 1

theorem all_inRange_iff (n : Nat) (l : List Int) :
    l.all (inRange n) = true ↔ ∀ q ∈ l, 0 ≤ q ∧ q < (n : Int) := by
  simp [List.all_eq_true, inRange]

theorem stGate_commute_stStmt {n : Nat} (A : Op n) (s : Stmt ℝ)
    (h : ∀ b, A * stmtOp n s b = stmtOp n s b * A) : stGate A * stStmt n s = stStmt n s * stGate A := by
  apply ST.ext; intro o
  simp only [ST.mul_apply, stGate, stStmt]
  split <;> simp [h]

/-- **the register semantics** -/
noncomputable def regSem (n : Nat) : Sem (POp 1) (MOp n) (Stmt ℝ) where
  emb := embP n
  den := denP n
  touches := fun s => s.qubits.map Int.toNat
  comm_emb := by
    intro q q' a b hne
    by_cases hq : q < n
    · by_cases hq' : q' < n
      · induction a using Con.induction_on with
        | H a =>
          induction b using Con.induction_on with
          | H b =>
            rw [embP_coe n q hq, embP_coe n q' hq']
            show _ * _ = _ * _
            rw [← Con.coe_mul, ← Con.coe_mul, ← stGate_mul, ← stGate_mul,
              lift_commute [q] [q'] rfl rfl (by simp) (by simpa using hq) (by simp) (by simpa using hq')
                (by simpa using hne)]
      · simp only [embP, dif_neg hq']
        exact Commute.one_right _
    · simp only [embP, dif_neg hq]
      exact Commute.one_left _
  comm_den := by
    intro q a s hnot
    by_cases hq : q < n
    · by_cases hs : s.qubits.all (inRange n) = true
      · induction a using Con.induction_on with
        | H a =>
          rw [embP_coe n q hq]
          simp only [denP, hs, if_true]
          show _ * _ = _ * _
          rw [← Con.coe_mul, ← Con.coe_mul]
          congr 1
          apply stGate_commute_stStmt
          intro b
          exact lift_commute_stmtOp q hq a s ((all_inRange_iff n _).mp hs) hnot b
      · simp only [denP, hs, if_false, Bool.false_eq_true]
        exact Commute.one_right _
    · simp only [embP, dif_neg hq]
      exact Commute.one_left _

/-- the operator of a rotation record, modulo phase -/
noncomputable def rotOp (r : Rot ℝ) : POp 1 :=
  ((gateOp 1 (.bsr 0 r.axis r.angle r.phase) : Op 1) : POp 1)

/-- a plain rotation on qubit `q` of the register is the lift of the same rotation on a one-qubit register -/
theorem gateOp_bsr_eq_lift (n : Nat) (q : Int) (hq : q.toNat < n) (ax : Vec3 ℝ) (an ph : ℝ) :
    gateOp n (.bsr q ax an ph) = lift [q.toNat] rfl (gateOp 1 (.bsr 0 ax an ph)) := by
  have h0 : gateOp n (.bsr q ax an ph) = gateOp n (.bsr (q.toNat : Int) ax an ph) := by
    ext r c; simp only [gateOp_apply, denote, Int.toNat_natCast]
  rw [h0]
  have := gateOp_eq_lift (n := n) [(q.toNat : Int)] (by simp)
    (by intro x hx; simp only [List.mem_singleton] at hx; subst hx; omega)
    (.bsr (q.toNat : Int) ax an ph) (by simp [Gate.operands])
  simp only [Gate.pos, List.idxOf_cons_self, List.length_cons, List.length_nil] at this
  exact this

/-- in-range, in the sense needed by `denS_regSem`: a plain rotation sits on a register qubit, every other
    statement has all its qubits in `0 … n-1` -/
def Stmt.inRegSem (n : Nat) (s : Stmt ℝ) : Prop :=
  match s.rot? with
  | some r => r.q.toNat < n
  | none => ∀ q ∈ s.qubits, inRange n q = true

theorem inRegSem_of_inRange (n : Nat) (s : Stmt ℝ) (h : ∀ q ∈ s.qubits, inRange n q = true) :
    s.inRegSem n := by
  unfold Stmt.inRegSem
  cases hr : s.rot? with
  | none => exact h
  | some r =>
    cases s with
    | gate g nm =>
      cases g with
      | bsr q ax an ph =>
        simp only [Stmt.rot?, Option.some.injEq] at hr
        subst hr
        have := h q (by simp [Stmt.qubits, Gate.operands])
        simp only [inRange, Bool.and_eq_true, decide_eq_true_eq] at this
        show q.toNat < n
        omega
      | matrix m ops => simp [Stmt.rot?] at hr
      | ctrl c g => simp [Stmt.rot?] at hr
    | measure q b ax nm => simp [Stmt.rot?] at hr
    | reset q nm => simp [Stmt.rot?] at hr
    | comment c => simp [Stmt.rot?] at hr

/-- **the abstract denotation of an in-range statement list is the class of its register semantics** -/
theorem denS_regSem (n : Nat) (l : List (Stmt ℝ)) (h : ∀ s ∈ l, s.inRegSem n) :
    denS (regSem n) rotOp l = ((stCirc n l : ST n) : MOp n) := by
  induction l with
  | nil => rw [stCirc_nil]; rfl
  | cons s l ih =>
    have ih' := ih (fun x hx => h x (List.mem_cons_of_mem _ hx))
    have hs := h s List.mem_cons_self
    rw [denS, ih', stCirc_cons, Con.coe_mul]
    congr 1
    unfold Stmt.inRegSem at hs
    cases hr : s.rot? with
    | none =>
      rw [hr] at hs
      have : s.qubits.all (inRange n) = true := List.all_eq_true.mpr hs
      simp only [regSem, denP, this, if_true]
    | some r =>
      rw [hr] at hs
      cases s with
      | gate g nm =>
        cases g with
        | bsr q ax an ph =>
          simp only [Stmt.rot?, Option.some.injEq] at hr
          subst hr
          simp only [regSem, rotOp]
          rw [embP_coe n q.toNat hs, stStmt_gate, gateOp_bsr_eq_lift n q hs]
        | matrix m ops => simp [Stmt.rot?] at hr
        | ctrl c g => simp [Stmt.rot?] at hr
      | measure q b ax nm => simp [Stmt.rot?] at hr
      | reset q nm => simp [Stmt.rot?] at hr
      | comment c => simp [Stmt.rot?] at hr

/-! ## The output of the pass is in range -/

section abstractWF
variable {Op' M' B' A' : Type} [Monoid Op'] [Monoid M'] (S : Sem Op' M' B') (G : Alg A' Op')

theorem gflush1_wf (n q : ℕ) (hq : q < n) (st : GState A' B') (h : ∀ s ∈ st.2, wfSt S n s) :
    ∀ s ∈ (gflush1 G st q).2, wfSt S n s := by
  unfold gflush1
  split
  · exact h
  · intro s hs
    rcases List.mem_cons.mp hs with rfl | hs
    · exact hq
    · exact h s hs

theorem gflush_wf (n : ℕ) (qs : List ℕ) (hqs : ∀ q ∈ qs, q < n) (st : GState A' B')
    (h : ∀ s ∈ st.2, wfSt S n s) : ∀ s ∈ (gflush G qs st).2, wfSt S n s := by
  induction qs generalizing st with
  | nil => exact h
  | cons q qs ih =>
    exact ih (fun q' hq' => hqs q' (List.mem_cons_of_mem _ hq')) _
      (gflush1_wf S G n q (hqs q List.mem_cons_self) st h)

theorem gstep_wf (n : ℕ) (s : St A' B') (hs : wfSt S n s) (st : GState A' B')
    (h : ∀ x ∈ st.2, wfSt S n x) : ∀ x ∈ (gstep S G st s).2, wfSt S n x := by
  cases s with
  | rot q u => exact h
  | bar b =>
    intro x hx
    simp only [gstep] at hx
    rcases List.mem_cons.mp hx with rfl | hx
    · exact hs
    · exact gflush_wf S G n _ hs st h x hx

theorem grun_wf (n : ℕ) (prog : List (St A' B')) (hwf : ∀ s ∈ prog, wfSt S n s) (st : GState A' B')
    (h : ∀ x ∈ st.2, wfSt S n x) : ∀ x ∈ (grun S G prog st).2, wfSt S n x := by
  induction prog generalizing st with
  | nil => exact h
  | cons s prog ih =>
    exact ih (fun x hx => hwf x (List.mem_cons_of_mem _ hx)) _
      (gstep_wf S G n s (hwf s List.mem_cons_self) st h)

theorem gfinish_wf (n : ℕ) (st : GState A' B') (h : ∀ x ∈ st.2, wfSt S n x) :
    ∀ x ∈ gfinish G n st, wfSt S n x := by
  unfold gfinish
  have key : ∀ (l : List ℕ) (out : List (St A' B')), (∀ q ∈ l, q < n) → (∀ x ∈ out, wfSt S n x) →
      ∀ x ∈ l.foldl (fun out q => if G.isId (st.1 q) then out else .rot q (G.fin (st.1 q)) :: out) out,
        wfSt S n x := by
    intro l
    induction l with
    | nil => intro out _ ho; exact ho
    | cons q l ih =>
      intro out hl ho
      rw [List.foldl_cons]
      apply ih _ (fun q' hq' => hl q' (List.mem_cons_of_mem _ hq'))
      split
      · exact ho
      · intro x hx
        rcases List.mem_cons.mp hx with rfl | hx
        · exact hl q List.mem_cons_self
        · exact ho x hx
  exact key _ _ (fun q hq => List.mem_range.mp hq) h

/-- every statement emitted by the abstract algorithm is on a register qubit -/
theorem gmergeR_wf (n : ℕ) (prog : List (St A' B')) (hwf : ∀ s ∈ prog, wfSt S n s) :
    ∀ x ∈ gmergeR S G n prog, wfSt S n x :=
  gfinish_wf S G n _ (grun_wf S G n prog hwf _ (by simp))

end abstractWF

/-- **every statement of the output of `merge` is in range** -/
theorem merge_output_inReg (atol : ℝ) (c : Circuit ℝ) (hr : OperandsInRange c.nQubits c.stmts)
    (hne : (merge atol c).2 = none) : ∀ s ∈ (merge atol c).1.stmts, s.inRegSem c.nQubits := by
  intro s hs
  rcases merge_emits_only_bsr atol c s hs with hin | hb
  · exact inRegSem_of_inRange _ s (hr s hin)
  · have hinst := merge_is_instance atol (regSem c.nQubits) rotOp (fun _ => rfl) c hne
    have hwf := gmergeR_wf (regSem c.nQubits) (modelAlg atol rotOp) c.nQubits (c.stmts.map absStmt) (by
      intro x hx
      obtain ⟨s', hs', rfl⟩ := List.mem_map.mp hx
      exact absStmt_wf (regSem c.nQubits) (fun _ => rfl) _ s' (hr s' hs'))
    rw [← hinst] at hwf
    have := hwf (absStmt s) (List.mem_reverse.mpr (List.mem_map.mpr ⟨s, hs, rfl⟩))
    unfold Stmt.inRegSem
    cases s with
    | gate g nm =>
      cases g with
      | bsr q ax an ph => simpa [absStmt, Stmt.rot?, wfSt] using this
      | matrix m ops => simp [Stmt.isBSR] at hb
      | ctrl c g => simp [Stmt.isBSR] at hb
    | measure q b ax nm => simp [Stmt.isBSR] at hb
    | reset q nm => simp [Stmt.isBSR] at hb
    | comment c => simp [Stmt.isBSR] at hb

/-- measurements, resets and comments are untouched by the pass, whatever happens -/
theorem merge_sameBarriers (atol : ℝ) (c : Circuit ℝ) :
    SameBarriers (merge atol c).1.stmts c.stmts := by
  have h := merge_filter atol c
  have key : ∀ l : List (Stmt ℝ),
      l.filter (fun s => !s.isGate) = (l.filter notBSR).filter (fun s => !s.isGate) := by
    intro l
    rw [List.filter_filter]
    apply List.filter_congr
    intro s _
    cases s with
    | gate g nm => simp [Stmt.isGate]
    | measure q b ax nm => simp [Stmt.isGate, notBSR, Stmt.isBSR]
    | reset q nm => simp [Stmt.isGate, notBSR, Stmt.isBSR]
    | comment c => simp [Stmt.isGate, notBSR, Stmt.isBSR]
  unfold SameBarriers
  rw [key, h, ← key]

/-! ## `I(q)` denotes the unit -/

theorem gateOp_one_bsr (ax : Vec3 ℝ) (an ph : ℝ) (r c : Fin (2 ^ 1)) :
    gateOp 1 (.bsr 0 ax an ph) r c = Sem.rot ax an ph ⟨r.val, r.isLt⟩ ⟨c.val, c.isLt⟩ := by
  rw [gateOp_apply]
  simp only [denote, embed1, Int.toNat_zero]
  rw [if_pos (agreeOff_one_zero _ _)]
  have hb : ∀ x : Fin (2 ^ 1), bitOf x.val 0 = x.val := by
    intro x
    have : x.val < 2 := x.isLt
    unfold bitOf
    rcases Nat.lt_or_ge x.val 1 with h | h
    · have : x.val = 0 := by omega
      simp [this]
    · have : x.val = 1 := by omega
      simp [this]
  rw [hb r, hb c]
  exact can1_get ax an ph ⟨r.val, r.isLt⟩ ⟨c.val, c.isLt⟩

theorem rotOp_defaultI (atol : ℝ) (hatol : 0 < atol) (hpi : atol ≤ Real.pi) (q : ℕ) :
    rotOp (defaultI atol q) = 1 := by
  rw [defaultI_real atol hatol hpi q]
  show ((gateOp 1 (.bsr 0 (1, 0, 0) 0 0) : Op 1) : POp 1) = ((1 : Op 1) : POp 1)
  congr 1
  ext r c
  rw [gateOp_one_bsr, Sem.rot_zero, Matrix.one_apply, Matrix.one_apply]
  simp [Fin.ext_iff]

/-! ## The theorem -/

/-- **The merge pass preserves the meaning of the circuit** (register level: one global phase for every
    combination of measurement and reset outcomes), under the run-local exact-composition hypothesis `Crisp`. -/
theorem merge_sem_global (atol : ℝ) (hatol : 0 < atol) (hpi : atol ≤ Real.pi) (c : Circuit ℝ)
    (hr : OperandsInRange c.nQubits c.stmts) (hne : (merge atol c).2 = none)
    (hcrisp : Crisp (regSem c.nQubits) (modelAlg atol rotOp) c.nQubits
      ((fun q => defaultI atol q), []) (c.stmts.map absStmt)) :
    CircEquiv c.nQubits c.stmts (merge atol c).1.stmts ∧ SameBarriers c.stmts (merge atol c).1.stmts := by
  have hsb := merge_sameBarriers atol c
  refine ⟨?_, hsb.symm⟩
  have h := merge_sem atol (regSem c.nQubits) rotOp (fun _ => rfl) c hr hne
    (rotOp_defaultI atol hatol hpi) hcrisp
  rw [denS_regSem _ _ (merge_output_inReg atol c hr hne),
    denS_regSem _ _ (fun s hs => inRegSem_of_inRange _ s (hr s hs))] at h
  exact ((stCirc_equiv_iff _ _ _ hsb.nOutcomes).mp h).symm

/-! ## Non-vacuity -/

/-- a program consisting of barriers only is crisp for the register semantics: the accumulators stay `I(q)` -/
theorem crisp_bars_regSem (atol : ℝ) (hatol : 0 < atol) (hpi : atol ≤ Real.pi) (n : ℕ)
    (prog : List (St (Rot ℝ) (Stmt ℝ))) (hbars : ∀ s ∈ prog, ∃ b, s = St.bar b) :
    ∀ out, Crisp (regSem n) (modelAlg atol rotOp) n ((fun q => defaultI atol q), out) prog := by
  have hid := defaultIsIdentity_real atol hatol hpi
  induction prog with
  | nil =>
    intro out q _
    refine ⟨fun _ => rotOp_defaultI atol hatol hpi q, ?_⟩
    show rotOp (finalRot atol (defaultI atol q)) = rotOp (defaultI atol q)
    rw [defaultI_real atol hatol hpi]; simp [finalRot]
  | cons s prog ih =>
    intro out
    obtain ⟨b, rfl⟩ := hbars s (by simp)
    have : gstep (regSem n) (modelAlg atol rotOp) ((fun q => defaultI atol q), out) (.bar b)
        = ((fun q => defaultI atol q), .bar b :: out) := by
      show ((gflush (modelAlg atol rotOp) ((regSem n).touches b) ((fun q => defaultI atol q), out)).1,
        St.bar b :: (gflush (modelAlg atol rotOp) ((regSem n).touches b)
          ((fun q => defaultI atol q), out)).2) = _
      rw [gflush_of_isId _ _ _ (fun q _ => hid q)]
    refine ⟨fun q _ _ => rotOp_defaultI atol hatol hpi q, ?_⟩
    rw [this]
    exact ih (fun s hs => hbars s (by simp [hs])) _

/-- `merge_sem_global` on the two-barrier circuit `measure q0; reset q1` of `MergeReal`, `ATOL = 1e-7` -/
example : CircEquiv exCircR.nQubits exCircR.stmts (merge (1 / 10 ^ 7 : ℝ) exCircR).1.stmts ∧
    SameBarriers exCircR.stmts (merge (1 / 10 ^ 7 : ℝ) exCircR).1.stmts := by
  have hpi := Real.two_le_pi
  have hatol : (0 : ℝ) < 1 / 10 ^ 7 := by norm_num
  have hle : (1 / 10 ^ 7 : ℝ) ≤ Real.pi := by norm_num; linarith
  refine merge_sem_global _ hatol hle exCircR ?_ ?_ ?_
  · simp [OperandsInRange, exCircR, Stmt.qubits, inRange]
  · apply merge_no_error_of_no_bsr
    · simp [OperandsInRange, exCircR, Stmt.qubits, inRange]
    · simp [exCircR, Stmt.isBSR]
  · apply crisp_bars_regSem _ hatol hle
    intro s hs
    simp only [exCircR, List.map_cons, List.map_nil, List.mem_cons, List.not_mem_nil, or_false] at hs
    rcases hs with rfl | rfl
    · exact ⟨_, rfl⟩
    · exact ⟨_, rfl⟩

end OSq

#print axioms OSq.stCirc_equiv_iff
#print axioms OSq.regSem
#print axioms OSq.denS_regSem
#print axioms OSq.gmergeR_wf
#print axioms OSq.merge_output_inReg
#print axioms OSq.merge_sameBarriers
#print axioms OSq.rotOp_defaultI
#print axioms OSq.merge_sem_global
