import OSq.Proofs.MergeStruct
import Mathlib.Algebra.Group.Commute.Defs
import Mathlib.Algebra.Group.Hom.Defs
import Mathlib.Algebra.BigOperators.Group.List.Basic
import Mathlib.Logic.Function.Basic
import Mathlib.Algebra.FreeMonoid.Basic
/-
  OSq.Proofs.MergeAbstract — semantic correctness of the merge pass by abstraction.

  Part 1 (namespace `OSq.MergeAbs`; ported from `prototypes/lean/MergeAbstract.lean`)
  * `merge_correct`        for any monoid-valued semantics with commuting one-qubit embeddings (`Sem`), the
                           accumulate/flush algorithm on *operators* preserves the denotation if "tests as identity ⇒
                           is the unit".
  Part 2 (same namespace) — the algorithm on *representations* `A` with denotation `ρ : A → Op` (`Alg`):
  * `gmerge_correct`       the algorithm (an accumulator that tests as identity is neither emitted nor reset; final
                           flush in index order through `fin`) preserves the denotation under the run-local crisp
                           hypothesis `Crisp` (each composition performed denotes the product; each accumulator that
                           is tested and tests as identity denotes the unit; `fin` keeps the denotation) and
                           `ρ (unit q) = 1`.
  * `crisp_trivial`        `Crisp` holds for the trivial denotation (satisfiability).
  Part 3 (namespace `OSq`) — the model is an instance:
  * `absStmt`, `absAccs`, `absState`, `modelAlg`   the abstraction of statements / accumulator array / loop state and
                           the model's parameters (`composeRot` made total, `defaultI`, `Rot.isIdentity`, `finalRot`).
  * `flushOps_sim`, `mergeLoop_sim`, `tail_sim`  an error-free `flushOps` / `mergeLoop` / final flush is the abstract
                           `gflush` / `grun` / `gfinish` on the abstracted state.
  * `merge_is_instance`    abstraction of the output of `merge` = `gmergeR` of the abstracted input.
  * `merge_sem`            in-range operands, no exception, `ρ (I q) = 1`, crisp run ⇒
                           `denS S ρ (merge atol c).1.stmts = denS S ρ c.stmts`.
-/

set_option linter.unusedSectionVars false
set_option linter.unusedVariables false

namespace OSq.MergeAbs
open Function

/-! ## Part 1 — the design-phase abstract argument (ported from `prototypes/lean/MergeAbstract.lean`)

`Op` : single-qubit operators (already modulo global phase), `M` : register operators,
`emb q` places an operator on qubit `q`, barriers `B` are everything that is not a plain rotation. -/

variable {Op M B : Type} [Monoid Op] [Monoid M]

structure Sem (Op M B : Type) [Monoid Op] [Monoid M] where
  emb : ℕ → Op →* M
  den : B → M
  touches : B → List ℕ
  comm_emb : ∀ q q' a b, q ≠ q' → Commute (emb q a) (emb q' b)
  comm_den : ∀ q a b, q ∉ touches b → Commute (emb q a) (den b)

inductive St (Op B : Type) | rot (q : ℕ) (u : Op) | bar (b : B)

variable (S : Sem Op M B)

/-- denotation of a statement list kept most-recent-first -/
def denR : List (St Op B) → M
  | [] => 1
  | .rot q u :: l => S.emb q u * denR l
  | .bar b :: l => S.den b * denR l

def accProd (n : ℕ) (acc : ℕ → Op) : M := ((List.range n).map fun q => S.emb q (acc q)).prod

lemma accProd_succ (n : ℕ) (acc : ℕ → Op) : accProd S (n+1) acc = accProd S n acc * S.emb n (acc n) := by
  simp [accProd, List.range_succ]

lemma accProd_congr (n : ℕ) (acc acc' : ℕ → Op) (h : ∀ q < n, acc q = acc' q) :
    accProd S n acc = accProd S n acc' := by
  unfold accProd; congr 1; apply List.map_congr_left; intro q hq; rw [h q (List.mem_range.mp hq)]

lemma commute_accProd (n : ℕ) (acc : ℕ → Op) (x : M)
    (h : ∀ q < n, Commute x (S.emb q (acc q))) : Commute x (accProd S n acc) := by
  unfold accProd
  apply Commute.list_prod_right
  intro y hy
  obtain ⟨q, hq, rfl⟩ := List.mem_map.mp hy
  exact h q (List.mem_range.mp hq)

lemma emb_commute_accProd_update (n q : ℕ) (acc : ℕ → Op) (a : Op) :
    Commute (S.emb q a) (accProd S n (update acc q 1)) := by
  apply commute_accProd
  intro q' _
  by_cases h : q' = q
  · subst h; simp [Commute.one_right]
  · rw [update_of_ne h]; exact S.comm_emb q q' _ _ (Ne.symm h)

/-- pull the factor of qubit `q` to the front -/
lemma accProd_pull (n q : ℕ) (hq : q < n) (acc : ℕ → Op) :
    accProd S n acc = S.emb q (acc q) * accProd S n (update acc q 1) := by
  induction n with
  | zero => omega
  | succ n ih =>
    rw [accProd_succ, accProd_succ]
    by_cases h : q = n
    · subst h
      have e : accProd S q (update acc q 1) = accProd S q acc :=
        accProd_congr S q _ _ (fun q' hq' => by rw [update_of_ne (by omega)])
      rw [e, update_self, map_one, mul_one]
      have hc : Commute (S.emb q (acc q)) (accProd S q acc) :=
        commute_accProd S q acc _ (fun q' hq' => S.comm_emb q q' _ _ (by omega))
      exact hc.eq.symm
    · have hq' : q < n := by omega
      rw [ih hq', update_of_ne (Ne.symm h), mul_assoc]

/-- flushing one qubit -/
def flush1 (isId : Op → Bool) (st : (ℕ → Op) × List (St Op B)) (q : ℕ) : (ℕ → Op) × List (St Op B) :=
  if isId (st.1 q) then st else (update st.1 q 1, .rot q (st.1 q) :: st.2)

def flush (isId : Op → Bool) (qs : List ℕ) (st : (ℕ → Op) × List (St Op B)) := qs.foldl (flush1 isId) st

def step (isId : Op → Bool) (st : (ℕ → Op) × List (St Op B)) : St Op B → (ℕ → Op) × List (St Op B)
  | .rot q u => (update st.1 q (u * st.1 q), st.2)
  | .bar b => let st' := flush isId (S.touches b) st; (st'.1, .bar b :: st'.2)

/-- the merge pass: returns the output most-recent-first -/
def mergeR (isId : Op → Bool) (n : ℕ) (prog : List (St Op B)) : List (St Op B) :=
  (flush isId (List.range n) (prog.foldl (step S isId) (fun _ => 1, []))).2

def inv (n : ℕ) (st : (ℕ → Op) × List (St Op B)) : M := accProd S n st.1 * denR S st.2

lemma denR_append (l₁ l₂ : List (St Op B)) : denR S (l₁ ++ l₂) = denR S l₁ * denR S l₂ := by
  induction l₁ with
  | nil => simp [denR]
  | cons x l₁ ih => cases x <;> simp [denR, ih, mul_assoc]

def wfSt {X : Type} (n : ℕ) : St X B → Prop
  | .rot q _ => q < n
  | .bar b => ∀ q ∈ S.touches b, q < n

section proto
variable {isId : Op → Bool} (hId : ∀ a, isId a = true → a = 1)
include hId

lemma flush1_inv (n q : ℕ) (hq : q < n) (st) :
    inv S n (flush1 isId st q) = inv S n st ∧ (flush1 isId st q).1 q = 1 ∧
    (∀ q', st.1 q' = 1 → (flush1 isId st q).1 q' = 1) := by
  unfold flush1
  split
  · rename_i h; exact ⟨rfl, hId _ h, fun _ h => h⟩
  · refine ⟨?_, by simp, ?_⟩
    · simp only [inv, denR]
      rw [accProd_pull S n q hq st.1, ← mul_assoc, (emb_commute_accProd_update S n q st.1 _).eq.symm]
    · intro q' h; by_cases e : q' = q
      · subst e; simp
      · simp [update_of_ne e, h]

lemma flush_inv (n : ℕ) (qs : List ℕ) (hqs : ∀ q ∈ qs, q < n) (st) :
    inv S n (flush isId qs st) = inv S n st ∧ (∀ q ∈ qs, (flush isId qs st).1 q = 1) ∧
    (∀ q', st.1 q' = 1 → (flush isId qs st).1 q' = 1) := by
  induction qs generalizing st with
  | nil => simp [flush]
  | cons q qs ih =>
    have h1 := flush1_inv S hId n q (hqs q (by simp)) st
    have h2 := ih (fun q' hq' => hqs q' (by simp [hq'])) (flush1 isId st q)
    simp only [flush, List.foldl_cons] at h2 ⊢
    refine ⟨h2.1.trans h1.1, ?_, fun q' h => h2.2.2 q' (h1.2.2 q' h)⟩
    intro q' hq'
    rcases List.mem_cons.mp hq' with rfl | hq'
    · exact h2.2.2 _ h1.2.1
    · exact h2.2.1 q' hq'

lemma step_inv (n : ℕ) (s : St Op B) (hs : wfSt S n s) (st) :
    inv S n (step S isId st s) = denR S [s] * inv S n st := by
  cases s with
  | rot q u =>
    simp only [step, inv, denR, mul_one]
    rw [accProd_pull S n q hs (update st.1 q (u * st.1 q)), update_self, update_idem,
        accProd_pull S n q hs st.1, map_mul]
    simp only [mul_assoc]
  | bar b =>
    obtain ⟨h1, h2, _⟩ := flush_inv S hId n (S.touches b) hs st
    simp only [step, inv, denR, mul_one] at h1 ⊢
    have hc : Commute (S.den b) (accProd S n (flush isId (S.touches b) st).1) := by
      apply commute_accProd
      intro q _
      by_cases hq : q ∈ S.touches b
      · rw [h2 q hq, map_one]; exact Commute.one_right _
      · exact (S.comm_den q _ b hq).symm
    rw [← mul_assoc, hc.eq.symm, mul_assoc, h1]

/-- **Abstract correctness (design-phase form).** For any monoid-valued semantics with commuting one-qubit
    embeddings, the accumulate/flush algorithm preserves the denotation, provided "tests as identity ⇒ is the
    unit". -/
theorem merge_correct (n : ℕ) (prog : List (St Op B)) (hwf : ∀ s ∈ prog, wfSt S n s) :
    denR S (mergeR S isId n prog) = denR S prog.reverse := by
  have hfold : ∀ (l : List (St Op B)) (st), (∀ s ∈ l, wfSt S n s) →
      inv S n (l.foldl (step S isId) st) = denR S l.reverse * inv S n st := by
    intro l
    induction l with
    | nil => intro st _; simp [denR]
    | cons s l ih =>
      intro st h
      rw [List.foldl_cons, ih _ (fun x hx => h x (by simp [hx])), step_inv S hId n s (h s (by simp))]
      rw [List.reverse_cons, denR_append, mul_assoc]
  obtain ⟨h1, h2, _⟩ := flush_inv S hId n (List.range n) (fun q hq => List.mem_range.mp hq)
    (prog.foldl (step S isId) (fun _ => 1, []))
  have hone : accProd S n (flush isId (List.range n) (prog.foldl (step S isId) (fun _ => 1, []))).1 = 1 := by
    unfold accProd
    apply List.prod_eq_one
    intro x hx
    obtain ⟨q, hq, rfl⟩ := List.mem_map.mp hx
    rw [h2 q hq, map_one]
  have := hfold prog (fun _ => 1, []) hwf
  rw [← h1] at this
  simp only [inv, hone, one_mul] at this
  rw [mergeR, this]
  have : accProd S n (fun _ => (1 : Op)) = 1 := by
    unfold accProd; apply List.prod_eq_one; intro x hx
    obtain ⟨q, _, rfl⟩ := List.mem_map.mp hx; simp
  simp [this, denR]

end proto

/-! ## Part 2 — the same argument for *represented* accumulators

The model does not accumulate operators but *representations* `A` (axis/angle/phase/name records) with a partial,
tolerance-laden composition, a tolerance test `isId`, a fresh accumulator `unit q` and a final renaming `fin`.
`ρ : A → Op` is the denotation.  The algorithm below is the model's algorithm verbatim (an accumulator that tests as
identity is neither emitted nor reset); the hypotheses about `ρ` are demanded only where the run actually uses them
(`Crisp`). -/

variable {A : Type}

/-- the algorithmic parameters -/
structure Alg (A Op : Type) where
  comp : A → A → A          -- `comp u a`: absorb the statement `u` into the accumulator `a`
  unit : ℕ → A              -- fresh accumulator for qubit `q`
  isId : A → Bool           -- the tolerance test
  fin : A → A               -- renaming applied by the final flush
  ρ : A → Op                -- denotation

variable (G : Alg A Op)

/-- denotation of a list of represented statements, most recent first -/
def denA : List (St A B) → M
  | [] => 1
  | .rot q u :: l => S.emb q (G.ρ u) * denA l
  | .bar b :: l => S.den b * denA l

lemma denA_append (l₁ l₂ : List (St A B)) : denA S G (l₁ ++ l₂) = denA S G l₁ * denA S G l₂ := by
  induction l₁ with
  | nil => simp [denA]
  | cons x l₁ ih => cases x <;> simp [denA, ih, mul_assoc]

abbrev GState (A B : Type) := (ℕ → A) × List (St A B)

def gflush1 (st : GState A B) (q : ℕ) : GState A B :=
  if G.isId (st.1 q) then st else (update st.1 q (G.unit q), .rot q (st.1 q) :: st.2)

def gflush (qs : List ℕ) (st : GState A B) : GState A B := qs.foldl (gflush1 G) st

def gstep (st : GState A B) : St A B → GState A B
  | .rot q u => (update st.1 q (G.comp u (st.1 q)), st.2)
  | .bar b => let st' := gflush G (S.touches b) st; (st'.1, .bar b :: st'.2)

/-- the final flush: accumulators in index order, renamed by `fin`, not reset -/
def gfinish (n : ℕ) (st : GState A B) : List (St A B) :=
  (List.range n).foldl (fun out q => if G.isId (st.1 q) then out else .rot q (G.fin (st.1 q)) :: out) st.2

def grun (prog : List (St A B)) (st : GState A B) : GState A B := prog.foldl (gstep S G) st

/-- the merge pass on represented accumulators; output most-recent-first -/
def gmergeR (n : ℕ) (prog : List (St A B)) : List (St A B) :=
  gfinish G n (grun S G prog (G.unit, []))

/-- **The crisp hypothesis, along the run**: every composition the run performs denotes the product, every
    accumulator that is tested and tests as identity denotes the unit, and the final renaming keeps the
    denotation. -/
def Crisp (n : ℕ) : GState A B → List (St A B) → Prop
  | st, [] => ∀ q < n, (G.isId (st.1 q) = true → G.ρ (st.1 q) = 1) ∧ G.ρ (G.fin (st.1 q)) = G.ρ (st.1 q)
  | st, .rot q u :: rest =>
      G.ρ (G.comp u (st.1 q)) = G.ρ u * G.ρ (st.1 q) ∧ Crisp n (gstep S G st (.rot q u)) rest
  | st, .bar b :: rest =>
      (∀ q ∈ S.touches b, G.isId (st.1 q) = true → G.ρ (st.1 q) = 1) ∧ Crisp n (gstep S G st (.bar b)) rest

def racc (st : GState A B) : ℕ → Op := fun q => G.ρ (st.1 q)

def ginv (n : ℕ) (st : GState A B) : M := accProd S n (racc G st) * denA S G st.2

lemma racc_update (acc : ℕ → A) (out : List (St A B)) (q : ℕ) (x : A) :
    racc G (update acc q x, out) = update (racc G (acc, out)) q (G.ρ x) := by
  funext q'
  by_cases h : q' = q
  · subst h; simp [racc]
  · simp [racc, update_of_ne h]

section gen
variable (hunit : ∀ q, G.ρ (G.unit q) = 1)
include hunit

lemma gflush1_inv (n q : ℕ) (hq : q < n) (st : GState A B) :
    ginv S G n (gflush1 G st q) = ginv S G n st ∧
    (∀ q', (gflush1 G st q).1 q' = st.1 q' ∨ G.ρ ((gflush1 G st q).1 q') = 1) ∧
    ((G.isId (st.1 q) = true → G.ρ (st.1 q) = 1) → G.ρ ((gflush1 G st q).1 q) = 1) := by
  unfold gflush1
  split
  · rename_i h; exact ⟨rfl, fun _ => Or.inl rfl, fun hc => hc h⟩
  · refine ⟨?_, ?_, fun _ => by simp [hunit]⟩
    · obtain ⟨acc, out⟩ := st
      simp only [ginv, denA]
      rw [racc_update, hunit, accProd_pull S n q hq (racc G (acc, out)), ← mul_assoc,
        (emb_commute_accProd_update S n q _ _).eq.symm]
      rfl
    · intro q'
      by_cases e : q' = q
      · subst e; right; simp [hunit]
      · left; simp [update_of_ne e]

lemma gflush_inv (n : ℕ) (qs : List ℕ) (hqs : ∀ q ∈ qs, q < n) (st : GState A B) :
    ginv S G n (gflush G qs st) = ginv S G n st ∧
    (∀ q', (gflush G qs st).1 q' = st.1 q' ∨ G.ρ ((gflush G qs st).1 q') = 1) ∧
    (∀ q ∈ qs, (G.isId (st.1 q) = true → G.ρ (st.1 q) = 1) → G.ρ ((gflush G qs st).1 q) = 1) := by
  induction qs generalizing st with
  | nil => exact ⟨rfl, fun _ => Or.inl rfl, fun q hq => by simp at hq⟩
  | cons q0 qs ih =>
    obtain ⟨a1, a2, a3⟩ := gflush1_inv S G hunit n q0 (hqs q0 (by simp)) st
    obtain ⟨b1, b2, b3⟩ := ih (fun q' hq' => hqs q' (by simp [hq'])) (gflush1 G st q0)
    simp only [gflush, List.foldl_cons] at b1 b2 b3 ⊢
    refine ⟨b1.trans a1, ?_, ?_⟩
    · intro q'
      rcases b2 q' with h | h
      · rcases a2 q' with h' | h'
        · left; rw [h, h']
        · right; rw [h]; exact h'
      · right; exact h
    · intro q hq hc
      -- after the first step the accumulator of `q` either is unchanged or denotes 1
      have key : G.isId ((gflush1 G st q0).1 q) = true → G.ρ ((gflush1 G st q0).1 q) = 1 := by
        rcases a2 q with h' | h'
        · rw [h']; exact hc
        · exact fun _ => h'
      rcases List.mem_cons.mp hq with rfl | hq'
      · -- `q = q0`: denotes 1 after the first step, and that is preserved
        have h1 := a3 hc
        rcases b2 q with h | h
        · rw [h]; exact h1
        · exact h
      · exact b3 q hq' key

lemma gstep_inv (n : ℕ) (s : St A B) (hs : wfSt S n s) (st : GState A B)
    (hc : match s with
      | .rot q u => G.ρ (G.comp u (st.1 q)) = G.ρ u * G.ρ (st.1 q)
      | .bar b => ∀ q ∈ S.touches b, G.isId (st.1 q) = true → G.ρ (st.1 q) = 1) :
    ginv S G n (gstep S G st s) = denA S G [s] * ginv S G n st := by
  cases s with
  | rot q u =>
    obtain ⟨acc, out⟩ := st
    simp only [gstep, ginv, denA, mul_one]
    simp only at hc
    rw [racc_update, hc, accProd_pull S n q hs (update _ q _), update_self, update_idem,
        accProd_pull S n q hs (racc G (acc, out)), map_mul]
    simp only [mul_assoc, racc]
  | bar b =>
    obtain ⟨h1, _, h3⟩ := gflush_inv S G hunit n (S.touches b) hs st
    simp only [gstep, ginv, denA, mul_one] at h1 ⊢
    have hcm : Commute (S.den b) (accProd S n (racc G (gflush G (S.touches b) st))) := by
      apply commute_accProd
      intro q _
      by_cases hq : q ∈ S.touches b
      · have : racc G (gflush G (S.touches b) st) q = 1 := h3 q hq (hc q hq)
        rw [this, map_one]; exact Commute.one_right _
      · exact (S.comm_den q _ b hq).symm
    have e : racc G ((gflush G (S.touches b) st).1, St.bar b :: (gflush G (S.touches b) st).2)
        = racc G (gflush G (S.touches b) st) := rfl
    rw [e, ← mul_assoc, hcm.eq.symm, mul_assoc, h1]

lemma grun_inv (n : ℕ) (prog : List (St A B)) :
    ∀ (st : GState A B), (∀ s ∈ prog, wfSt S n s) → Crisp S G n st prog →
      ginv S G n (grun S G prog st) = denA S G prog.reverse * ginv S G n st ∧
      Crisp S G n (grun S G prog st) [] := by
  induction prog with
  | nil => intro st _ hc; exact ⟨by simp [grun, denA], hc⟩
  | cons s prog ih =>
    intro st hwf hc
    have hs := hwf s (by simp)
    have hwf' : ∀ s' ∈ prog, wfSt S n s' := fun s' h => hwf s' (by simp [h])
    cases s with
    | rot q u =>
      obtain ⟨hc1, hc2⟩ := hc
      obtain ⟨i1, i2⟩ := ih (gstep S G st (.rot q u)) hwf' hc2
      refine ⟨?_, i2⟩
      show ginv S G n (grun S G prog (gstep S G st (.rot q u))) = _
      rw [i1, gstep_inv S G hunit n (.rot q u) hs st hc1, List.reverse_cons, denA_append, mul_assoc]
    | bar b =>
      obtain ⟨hc1, hc2⟩ := hc
      obtain ⟨i1, i2⟩ := ih (gstep S G st (.bar b)) hwf' hc2
      refine ⟨?_, i2⟩
      show ginv S G n (grun S G prog (gstep S G st (.bar b))) = _
      rw [i1, gstep_inv S G hunit n (.bar b) hs st hc1, List.reverse_cons, denA_append, mul_assoc]

lemma gfinish_den (st : GState A B) (n : ℕ) :
    ∀ m ≤ n, (∀ q < n, (G.isId (st.1 q) = true → G.ρ (st.1 q) = 1) ∧ G.ρ (G.fin (st.1 q)) = G.ρ (st.1 q)) →
      denA S G (gfinish G m st) = accProd S m (racc G st) * denA S G st.2 := by
  intro m
  induction m with
  | zero => intro _ _; simp [gfinish, accProd]
  | succ m ih =>
    intro hm hc
    have ih := ih (by omega) hc
    obtain ⟨c1, c2⟩ := hc m (by omega)
    have hcm : Commute (S.emb m (racc G st m)) (accProd S m (racc G st)) :=
      commute_accProd S m _ _ (fun q' hq' => S.comm_emb m q' _ _ (by omega))
    have e : gfinish G (m + 1) st =
        if G.isId (st.1 m) then gfinish G m st else .rot m (G.fin (st.1 m)) :: gfinish G m st := by
      simp [gfinish, List.range_succ]
    rw [e, accProd_succ, ← hcm.eq]
    split
    · rename_i h
      have : racc G st m = 1 := c1 h
      rw [this, map_one, one_mul]; exact ih
    · simp only [denA, c2, ih, mul_assoc]; rfl

/-- **Abstract correctness for represented accumulators.**  Under the crisp hypothesis along the run, the output
    of the pass denotes the same register operator as the input. -/
theorem gmerge_correct (n : ℕ) (prog : List (St A B)) (hwf : ∀ s ∈ prog, wfSt S n s)
    (hc : Crisp S G n (G.unit, []) prog) :
    denA S G (gmergeR S G n prog) = denA S G prog.reverse := by
  obtain ⟨h1, h2⟩ := grun_inv S G hunit n prog (G.unit, []) hwf hc
  rw [gmergeR, gfinish_den S G hunit _ n n (Nat.le_refl n) h2]
  show ginv S G n _ = _
  rw [h1]
  have : accProd S n (racc G ((G.unit, []) : GState A B)) = 1 := by
    unfold accProd; apply List.prod_eq_one; intro x hx
    obtain ⟨q, _, rfl⟩ := List.mem_map.mp hx
    simp [racc, hunit]
  simp [ginv, this, denA]

end gen

/-- with the trivial denotation of rotations every run is crisp -/
theorem crisp_trivial (hρ : ∀ a, G.ρ a = 1) (n : ℕ) (prog : List (St A B)) :
    ∀ st : GState A B, Crisp S G n st prog := by
  induction prog with
  | nil => intro st q _; simp [hρ]
  | cons s prog ih =>
    intro st
    cases s with
    | rot q u => exact ⟨by simp [hρ], ih _⟩
    | bar b => exact ⟨fun _ _ _ => hρ _, ih _⟩

end OSq.MergeAbs

namespace OSq
open MergeAbs Function
variable {α : Type} [Scalar α] {Op M : Type} [Monoid Op] [Monoid M]

/-! ## Part 3 — the model's loop is an instance of the abstract algorithm -/

/-- `composeRot` made total (the error value is irrelevant: it is not used by error-free runs) -/
def compTotal (atol : α) (u a : Rot α) : Rot α :=
  match composeRot atol u a with
  | .ok r => r
  | .error _ => a

theorem compTotal_ok (atol : α) (u a r : Rot α) (h : composeRot atol u a = .ok r) : compTotal atol u a = r := by
  simp [compTotal, h]

/-- the model's parameters: composition, fresh accumulator `I(q)`, identity test, final renaming -/
def modelAlg (atol : α) (ρ : Rot α → Op) : Alg (Rot α) Op where
  comp := compTotal atol
  unit := fun q => defaultI atol q
  isId := Rot.isIdentity atol
  fin := finalRot atol
  ρ := ρ

/-- abstraction of a statement: a plain rotation on its qubit, or a barrier -/
def absStmt (s : Stmt α) : St (Rot α) (Stmt α) :=
  match s.rot? with
  | some r => .rot r.q.toNat r
  | none => .bar s

/-- abstraction of the accumulator array (indices outside the register read as fresh accumulators) -/
def absAccs (atol : α) (accs : Array (Rot α)) : ℕ → Rot α := fun q => (accs[q]?).getD (defaultI atol q)

/-- abstraction of the loop state `(accs, out)` -/
def absState (atol : α) (accs : Array (Rot α)) (out : List (Stmt α)) : GState (Rot α) (Stmt α) :=
  (absAccs atol accs, out.map absStmt)

theorem absStmt_toStmt (r : Rot α) : absStmt r.toGStmt.toStmt = .rot r.q.toNat r := rfl

theorem absStmt_nonBSR (s : Stmt α) (h : s.isBSR = false) : absStmt s = .bar s := by
  simp [absStmt, rot?_none_of_nonBSR s h]

theorem absAccs_get (atol : α) (accs : Array (Rot α)) (q : Nat) (r : Rot α) (h : accs[q]? = some r) :
    absAccs atol accs q = r := by
  simp [absAccs, h]

theorem absAccs_set (atol : α) (accs : Array (Rot α)) (q : Nat) (r : Rot α) (h : q < accs.size) :
    absAccs atol (accs.set! q r) = update (absAccs atol accs) q r := by
  funext q'
  by_cases e : q' = q
  · subst e; simp [absAccs, h]
  · have : q ≠ q' := fun h => e h.symm
    simp [absAccs, update_of_ne e, this]

theorem absAccs_setIfInBounds (atol : α) (accs : Array (Rot α)) (q : Nat) (r : Rot α) (h : q < accs.size) :
    absAccs atol (accs.setIfInBounds q r) = update (absAccs atol accs) q r := by
  rw [← absAccs_set atol accs q r h]; simp

theorem gflush_cons (G : Alg (Rot α) Op) (q : ℕ) (qs : List ℕ) (st : GState (Rot α) (Stmt α)) :
    gflush G (q :: qs) st = gflush G qs (gflush1 G st q) := rfl

theorem flushOps_sim (atol : α) (ρ : Rot α → Op) (qs : List Int) :
    ∀ (accs : Array (Rot α)) (out : List (Stmt α)) (accs' : Array (Rot α)) (out' : List (Stmt α)),
      AccOK accs → flushOps atol accs out qs = .ok (accs', out') →
      AccOK accs' ∧ accs'.size = accs.size ∧
      absState atol accs' out' = gflush (modelAlg atol ρ) (qs.map Int.toNat) (absState atol accs out) := by
  induction qs with
  | nil =>
    intro accs out accs' out' hok h
    rw [flushOps_nil] at h; injection h with h; injection h with h1 h2
    subst h1; subst h2
    exact ⟨hok, rfl, rfl⟩
  | cons q0 qs ih =>
    intro accs out accs' out' hok h
    cases hq0 : accGet? accs q0 with
    | none => rw [flushOps_cons_key atol accs out q0 qs hq0] at h; cases h
    | some r0 =>
      obtain ⟨hq0nn, hget0⟩ := accGet?_some accs q0 r0 hq0
      have hr0q : r0.q = ((q0.toNat : Nat) : Int) := hok _ _ hget0
      have hlt : q0.toNat < accs.size := by
        rcases Nat.lt_or_ge q0.toNat accs.size with h | h
        · exact h
        · rw [Array.getElem?_eq_none h] at hget0; cases hget0
      cases hid : r0.isIdentity atol with
      | true =>
        rw [flushOps_cons_id atol accs out q0 qs r0 hq0 hid] at h
        obtain ⟨h1, h2, h3⟩ := ih accs out accs' out' hok h
        refine ⟨h1, h2, ?_⟩
        have : gflush1 (modelAlg atol ρ) (absState atol accs out) q0.toNat = absState atol accs out := by
          simp [gflush1, modelAlg, absState, absAccs_get atol accs _ r0 hget0, hid]
        rw [h3, List.map_cons, gflush_cons, this]
      | false =>
        rw [flushOps_cons_emit atol accs out q0 qs r0 hq0 hid] at h
        obtain ⟨h1, h2, h3⟩ := ih _ _ accs' out' (hok.set _ _ (defaultI_q atol _)) h
        refine ⟨h1, by simpa using h2, ?_⟩
        have : gflush1 (modelAlg atol ρ) (absState atol accs out) q0.toNat
            = absState atol (accs.set! q0.toNat (defaultI atol q0.toNat)) (r0.toGStmt.toStmt :: out) := by
          have e : r0.q.toNat = q0.toNat := by rw [hr0q]; rfl
          simp [gflush1, modelAlg, absState, absAccs_get atol accs _ r0 hget0, hid,
            absAccs_setIfInBounds atol accs _ _ hlt, absStmt_toStmt, e]
        rw [h3, List.map_cons, gflush_cons, this]

theorem grun_cons (S : Sem Op M (Stmt α)) (G : Alg (Rot α) Op) (s : St (Rot α) (Stmt α))
    (l : List (St (Rot α) (Stmt α))) (st : GState (Rot α) (Stmt α)) :
    grun S G (s :: l) st = grun S G l (gstep S G st s) := rfl

/-- **Simulation.** An error-free run of the model's `mergeLoop` is, under the abstraction `absState`, the run of
    the abstract algorithm on the abstracted statements. -/
theorem mergeLoop_sim (atol : α) (S : Sem Op M (Stmt α)) (ρ : Rot α → Op)
    (htouch : ∀ s : Stmt α, S.touches s = s.qubits.map Int.toNat) (rest : List (Stmt α)) :
    ∀ (accs : Array (Rot α)) (out : List (Stmt α)) (accs' : Array (Rot α)) (out' : List (Stmt α)),
      AccOK accs → mergeLoop atol accs out rest = .inr (accs', out') →
      AccOK accs' ∧ accs'.size = accs.size ∧
      absState atol accs' out' = grun S (modelAlg atol ρ) (rest.map absStmt) (absState atol accs out) := by
  induction rest with
  | nil =>
    intro accs out accs' out' hok h
    rw [mergeLoop_nil] at h; injection h with h; injection h with h1 h2
    subst h1; subst h2
    exact ⟨hok, rfl, rfl⟩
  | cons s rest ih =>
    intro accs out accs' out' hok h
    cases hb : s.isBSR with
    | true =>
      cases s with
      | gate g nm =>
        cases g with
        | bsr q0 ax an ph =>
          cases hq0 : accGet? accs q0 with
          | none => rw [mergeLoop_bsr_key atol accs out rest q0 ax an ph nm hq0] at h; cases h
          | some acc0 =>
            obtain ⟨hq0nn, hget0⟩ := accGet?_some accs q0 acc0 hq0
            have hlt : q0.toNat < accs.size := by
              rcases Nat.lt_or_ge q0.toNat accs.size with h | h
              · exact h
              · rw [Array.getElem?_eq_none h] at hget0; cases hget0
            cases hc : composeRot atol ⟨q0, ax, an, ph, nm⟩ acc0 with
            | error e => rw [mergeLoop_bsr_err atol accs out rest q0 ax an ph nm acc0 e hq0 hc] at h; cases h
            | ok r =>
              rw [mergeLoop_bsr_ok atol accs out rest q0 ax an ph nm acc0 r hq0 hc] at h
              have hrq : r.q = ((q0.toNat : Nat) : Int) := by
                rw [(composeRot_q atol _ _ _ hc).2]; show q0 = _; omega
              obtain ⟨h1, h2, h3⟩ := ih _ _ accs' out' (hok.set q0.toNat r hrq) h
              refine ⟨h1, by simpa using h2, ?_⟩
              have : gstep S (modelAlg atol ρ) (absState atol accs out)
                  (absStmt (.gate (.bsr q0 ax an ph) nm)) = absState atol (accs.set! q0.toNat r) out := by
                show (update (absAccs atol accs) q0.toNat
                  (compTotal atol ⟨q0, ax, an, ph, nm⟩ (absAccs atol accs q0.toNat)), _) = _
                rw [absAccs_get atol accs _ acc0 hget0, compTotal_ok atol _ _ r hc,
                  ← absAccs_set atol accs _ _ hlt]
                rfl
              rw [h3, List.map_cons, grun_cons, this]
        | matrix m ops => simp [Stmt.isBSR] at hb
        | ctrl c g => simp [Stmt.isBSR] at hb
      | measure q b ax nm => simp [Stmt.isBSR] at hb
      | reset q nm => simp [Stmt.isBSR] at hb
      | comment c => simp [Stmt.isBSR] at hb
    | false =>
      cases hf : flushOps atol accs out s.qubits with
      | error o => rw [mergeLoop_nonBSR_err atol accs out rest s hb o hf] at h; cases h
      | ok p =>
        obtain ⟨accs1, out1⟩ := p
        rw [mergeLoop_nonBSR_ok atol accs out rest s hb accs1 out1 hf] at h
        obtain ⟨f1, f2, f3⟩ := flushOps_sim atol ρ s.qubits accs out accs1 out1 hok hf
        obtain ⟨h1, h2, h3⟩ := ih _ _ accs' out' f1 h
        refine ⟨h1, h2.trans f2, ?_⟩
        have : gstep S (modelAlg atol ρ) (absState atol accs out) (absStmt s)
            = absState atol accs1 (s :: out1) := by
          rw [absStmt_nonBSR s hb]
          show ((gflush (modelAlg atol ρ) (S.touches s) (absState atol accs out)).1,
            St.bar s :: (gflush (modelAlg atol ρ) (S.touches s) (absState atol accs out)).2) = _
          rw [htouch, ← f3]
          simp [absState, absStmt_nonBSR s hb]
        rw [h3, List.map_cons, grun_cons, this]

theorem gfinish_eq (G : Alg (Rot α) Op) (st : GState (Rot α) (Stmt α)) (n : ℕ) :
    gfinish G n st =
      ((List.range n).filterMap fun q =>
        if G.isId (st.1 q) then none else some (St.rot q (G.fin (st.1 q)))).reverse ++ st.2 := by
  induction n with
  | zero => simp [gfinish]
  | succ n ih =>
    have e : gfinish G (n + 1) st =
        if G.isId (st.1 n) then gfinish G n st else .rot n (G.fin (st.1 n)) :: gfinish G n st := by
      simp [gfinish, List.range_succ]
    rw [e, ih, List.range_succ, List.filterMap_append]
    cases h : G.isId (st.1 n) <;> simp [h]

theorem filterMap_range_eq {X Y : Type} (F : X → Option Y) : ∀ (l : List X) (g : ℕ → X),
    (∀ i, i < l.length → l[i]? = some (g i)) →
    (List.range l.length).filterMap (fun i => F (g i)) = l.filterMap F
  | [], _, _ => rfl
  | x :: l, g, h => by
    have h0 : g 0 = x := by
      have := h 0 (by simp); simpa using this.symm
    have ih := filterMap_range_eq F l (fun i => g (i + 1)) (fun i hi => by
      have := h (i + 1) (by simp; omega); simpa using this)
    rw [List.length_cons, List.range_succ_eq_map, List.filterMap_cons, List.filterMap_cons, h0,
      List.filterMap_map]
    have : (fun i => F (g i)) ∘ Nat.succ = fun i => F (g (i + 1)) := rfl
    rw [this, ih]

/-- the final flush, abstracted -/
theorem tail_sim (atol : α) (ρ : Rot α → Op) (accs : Array (Rot α)) (out : List (Stmt α)) (hok : AccOK accs) :
    gfinish (modelAlg atol ρ) accs.size (absState atol accs out)
      = ((mergeTail atol accs).map absStmt).reverse ++ out.map absStmt := by
  rw [gfinish_eq]
  congr 2
  rw [mergeTail_eq, List.map_filterMap]
  have hlen : accs.size = accs.toList.length := by simp
  rw [hlen, ← filterMap_range_eq _ accs.toList (fun i => absAccs atol accs i) (fun i hi => by
    have hi' : i < accs.size := by simpa using hi
    simp [absAccs, hi'])]
  apply List.filterMap_congr
  intro q hq
  have hq' : q < accs.size := by simpa using hq
  have hget : accs[q]? = some (absAccs atol accs q) := by simp [absAccs, hq']
  have hqq : (absAccs atol accs q).q = (q : Int) := hok q _ hget
  show (if Rot.isIdentity atol (absAccs atol accs q) = true then none
      else some (St.rot q (finalRot atol (absAccs atol accs q))))
    = Option.map absStmt (tailF atol (absAccs atol accs q))
  unfold tailF
  by_cases hid : Rot.isIdentity atol (absAccs atol accs q) = true
  · rw [if_pos hid, if_pos hid]; rfl
  · rw [if_neg hid, if_neg hid]
    simp only [Option.map_some, absStmt_toStmt, finalRot_q, hqq]
    rfl

/-- denotation of a statement list in program order (later statements multiply on the left): a plain rotation
    `r` denotes `emb r.q (ρ r)`, everything else `den s` -/
def denS (S : Sem Op M (Stmt α)) (ρ : Rot α → Op) : List (Stmt α) → M
  | [] => 1
  | s :: l => denS S ρ l * (match s.rot? with
      | some r => S.emb r.q.toNat (ρ r)
      | none => S.den s)

theorem denS_eq (S : Sem Op M (Stmt α)) (ρ : Rot α → Op) (atol : α) (l : List (Stmt α)) :
    denS S ρ l = denA S (modelAlg atol ρ) (l.map absStmt).reverse := by
  induction l with
  | nil => rfl
  | cons s l ih =>
    rw [List.map_cons, List.reverse_cons, denA_append, denS, ih]
    congr 1
    unfold absStmt
    cases s.rot? <;> simp [denA, modelAlg]

theorem absState_init (atol : α) (n : ℕ) :
    absState atol (Array.ofFn (n := n) fun i => defaultI atol i.val) []
      = ((fun q => defaultI atol q), []) := by
  simp only [absState, List.map_nil, Prod.mk.injEq, and_true]
  funext q
  simp only [absAccs, Array.getElem?_ofFn]
  split <;> rfl

theorem absStmt_wf (S : Sem Op M (Stmt α)) (htouch : ∀ s : Stmt α, S.touches s = s.qubits.map Int.toNat)
    (n : ℕ) (s : Stmt α) (hs : ∀ q ∈ s.qubits, inRange n q = true) : wfSt S n (absStmt s) := by
  have key : ∀ q ∈ s.qubits, q.toNat < n := by
    intro q hq
    have := hs q hq
    simp only [inRange, Bool.and_eq_true, decide_eq_true_eq] at this
    omega
  cases hr : s.rot? with
  | none =>
    simp only [absStmt, hr, wfSt, htouch, List.mem_map]
    rintro q ⟨q', hq', rfl⟩
    exact key q' hq'
  | some r =>
    simp only [absStmt, hr, wfSt]
    cases s with
    | gate g nm =>
      cases g with
      | bsr q0 ax an ph =>
        simp only [Stmt.rot?, Option.some.injEq] at hr
        rw [← hr]
        exact key q0 (by simp [Stmt.qubits, Gate.operands])
      | matrix m ops => simp [Stmt.rot?] at hr
      | ctrl c g => simp [Stmt.rot?] at hr
    | measure q b ax nm => simp [Stmt.rot?] at hr
    | reset q nm => simp [Stmt.rot?] at hr
    | comment c => simp [Stmt.rot?] at hr

/-- the output of the model's pass is the output of the abstract algorithm on the abstracted circuit -/
theorem merge_is_instance (atol : α) (S : Sem Op M (Stmt α)) (ρ : Rot α → Op)
    (htouch : ∀ s : Stmt α, S.touches s = s.qubits.map Int.toNat)
    (c : Circuit α) (hne : (merge atol c).2 = none) :
    ((merge atol c).1.stmts.map absStmt).reverse
      = gmergeR S (modelAlg atol ρ) c.nQubits (c.stmts.map absStmt) := by
  obtain ⟨hsz, hok⟩ := initAccs_ok atol c.nQubits
  rw [merge_eq] at hne ⊢
  split at hne
  · rename_i st e heq
    exact absurd hne (mergeLoop_inl_some atol _ _ _ _ _ heq)
  · rename_i accs out heq
    obtain ⟨h1, h2, h3⟩ := mergeLoop_sim atol S ρ htouch c.stmts _ [] accs out hok heq
    rw [absState_init] at h3
    have hn : accs.size = c.nQubits := h2.trans hsz
    rw [gmergeR]
    show _ = gfinish (modelAlg atol ρ) c.nQubits (grun S (modelAlg atol ρ) _ ((fun q => defaultI atol q), []))
    rw [← h3, ← hn, tail_sim atol ρ accs out h1]
    simp [List.map_append, List.reverse_append, List.map_reverse]

/-- **Semantic correctness of the model's merge pass** (via the abstract argument).
    `S` is any monoid-valued semantics with commuting one-qubit embeddings in which a statement commutes with the
    rotations on the qubits it does not touch; `ρ` is the denotation of a rotation record.  If the operands are in
    range, the pass does not raise, `I(q)` denotes the unit, and the run is crisp (`Crisp`: every composition
    performed denotes the product; every accumulator that tests as identity when tested denotes the unit — such an
    accumulator is neither emitted nor reset by the code, which under this hypothesis is harmless; the final
    renaming keeps the denotation), then the output circuit denotes the same operator as the input circuit. -/
theorem merge_sem (atol : α) (S : Sem Op M (Stmt α)) (ρ : Rot α → Op)
    (htouch : ∀ s : Stmt α, S.touches s = s.qubits.map Int.toNat)
    (c : Circuit α) (hr : OperandsInRange c.nQubits c.stmts) (hne : (merge atol c).2 = none)
    (hunit : ∀ q : ℕ, ρ (defaultI atol q) = 1)
    (hcrisp : Crisp S (modelAlg atol ρ) c.nQubits ((fun q => defaultI atol q), []) (c.stmts.map absStmt)) :
    denS S ρ (merge atol c).1.stmts = denS S ρ c.stmts := by
  rw [denS_eq S ρ atol, denS_eq S ρ atol, merge_is_instance atol S ρ htouch c hne]
  apply gmerge_correct S (modelAlg atol ρ) hunit
  · intro s hs
    obtain ⟨s', hs', rfl⟩ := List.mem_map.mp hs
    exact absStmt_wf S htouch _ s' (hr s' hs')
  · exact hcrisp

/-! ### Non-vacuity -/

/-- A non-trivial semantics in which all hypotheses of `merge_sem` hold for *every* circuit: the free monoid on
    statements, rotations denoting the unit.  `merge_sem` then says that the word of non-rotation statements is
    preserved (compare `merge_filter`). -/
def freeSem (α : Type) : Sem (FreeMonoid (Stmt α)) (FreeMonoid (Stmt α)) (Stmt α) where
  emb := fun _ => 1
  den := fun s => FreeMonoid.of s
  touches := fun s => s.qubits.map Int.toNat
  comm_emb := fun _ _ _ _ _ => Commute.one_left _
  comm_den := fun _ _ _ _ => Commute.one_left _

example (c : Circuit Float) (hr : OperandsInRange c.nQubits c.stmts) (hne : (merge Gen.atol c).2 = none) :
    denS (freeSem Float) (fun _ => 1) (merge Gen.atol c).1.stmts = denS (freeSem Float) (fun _ => 1) c.stmts :=
  merge_sem Gen.atol (freeSem Float) (fun _ => 1) (fun _ => rfl) c hr hne (fun _ => rfl)
    (crisp_trivial _ _ (fun _ => rfl) _ _ _)

example (c : Circuit Float) (hne : (merge Gen.atol c).2 = none) :=
  merge_is_instance Gen.atol (freeSem Float) (fun _ => 1) (fun _ => rfl) c hne

/-- the design-phase theorem on a concrete three-statement program (identity test that never fires) -/
example :
    let prog : List (St (FreeMonoid (Stmt Float)) (Stmt Float)) :=
      [.rot 0 (FreeMonoid.of (.comment "u")), .bar (.reset 1 none), .rot 1 (FreeMonoid.of (.comment "v"))]
    denR (freeSem Float) (mergeR (freeSem Float) (fun _ => false) 2 prog) = denR (freeSem Float) prog.reverse := by
  intro prog
  refine MergeAbs.merge_correct (freeSem Float) (fun _ h => by cases h) 2 prog ?_
  intro s hs
  simp only [prog, List.mem_cons, List.not_mem_nil, or_false] at hs
  rcases hs with rfl | rfl | rfl <;> simp [wfSt, freeSem, Stmt.qubits]

#print axioms MergeAbs.merge_correct
#print axioms MergeAbs.gmerge_correct
#print axioms mergeLoop_sim
#print axioms merge_is_instance
#print axioms merge_sem

end OSq
