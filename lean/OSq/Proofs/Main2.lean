import OSq.Proofs.Main3
import OSq.Proofs.Main4
import OSq.Proofs.CircuitSem4
import OSq.Proofs.CircuitSem7
import OSq.Proofs.CircuitSem8
/-
  OSq.Proofs.Main2 — **C05, semantic invariant of arbitrary pass sequences** (at `α := ℝ`): any finite list of passes
  (`decompose` with a built-in decomposer, `replace`, `merge`, `map`) applied to a well-formed circuit, under per-step
  crisp hypotheses on the intermediate circuits, **completes**, leaves a **well-formed** circuit on the same registers,
  and the result implements the original operation **up to one global phase and the accumulated qubit permutation**,
  for every combination of measurement / reset outcomes.

  * `permOp n m`, `permsOp n ms`   the permutation matrix of one relabelling on an `n`-qubit register
                              (`permOp m.length m = qpermOp m` of `CircuitSem4`), and of a sequence of relabellings
                              (first mapping first: `permsOp n (m :: ms) = permsOp n ms * permOp n m`)
  * `map_step_sem`            `circOp n (stmts.map (mapQubits m)) o = permOp n m * circOp n stmts o * (permOp n m)⁻¹`
  * `GateOK atol d c`         every gate of `c` is answered by `d` with an accepted exact replacement
  * `CrispStep atol p c`      the crisp hypothesis of one pass on the circuit it is applied to
  * `CrispRun atol ps c`      … along a run: `CrispStep` of each pass on the intermediate circuit it sees
  * `step_sem`                one pass: completes, `circOp (after) o = z • (P * circOp (before) o * P⁻¹)`
  * `C05_main`                **the invariant**, by induction on the list of passes
  * `C05_equiv_nomap`         without `map` passes: `CircEquiv` and `SameBarriers` between input and output
  * `run_map_eq`              under its hypothesis a `map` pass goes through and relabels every statement
  * examples                  `[map [1,0], decompose Z-Y-Z]` on the circuit `exMCirc` of `Main`, and `[map [0], merge]` on
                              `X(π) q0; measure q0` (all hypotheses discharged)
-/
open Matrix

namespace OSq
open Sem Complex MergeAbs

/-! ## Permutation matrices of relabellings on a fixed register -/

/-- the permutation matrix of the relabelling `m` on an `n`-qubit register: `P |c⟩ = |r⟩` where bit `m[i]` of `r` is
    bit `i` of `c` (`qpermOp m` of `CircuitSem4` when `n = m.length`; kept free of the dependent type) -/
def permOp (n : Nat) (m : List Int) : Op n :=
  fun r c => if reducedKet r.val (m.map Int.toNat) = c.val then 1 else 0

theorem permOp_eq_qpermOp (m : List Int) : permOp m.length m = qpermOp m := by
  ext r c
  simp only [permOp, qpermOp_apply, Fin.ext_iff, unmapFin_val, unmapKet]

/-- the permutation matrix of a sequence of relabellings, first mapping first -/
def permsOp (n : Nat) : List (List Int) → Op n
  | [] => 1
  | m :: ms => permsOp n ms * permOp n m

@[simp] theorem permsOp_nil (n : Nat) : permsOp n [] = 1 := rfl
theorem permsOp_cons (n : Nat) (m : List Int) (ms : List (List Int)) :
    permsOp n (m :: ms) = permsOp n ms * permOp n m := rfl

theorem permsOp_append (n : Nat) (ms1 ms2 : List (List Int)) :
    permsOp n (ms1 ++ ms2) = permsOp n ms2 * permsOp n ms1 := by
  induction ms1 with
  | nil => simp
  | cons m ms ih => rw [List.cons_append, permsOp_cons, ih, permsOp_cons, Matrix.mul_assoc]

theorem permsOp_singleton (n : Nat) (m : List Int) : permsOp n [m] = permOp n m := by
  simp [permsOp_cons]

/-- relabelling = conjugation by the permutation matrix, on a register whose size is given by a hypothesis -/
theorem map_step_sem (m : List Int) (hv : mappingValid m = true) (n : Nat) (hn : n = m.length)
    (stmts : List (Stmt ℝ)) (hs : ∀ s ∈ stmts, ∀ q ∈ s.qubits, 0 ≤ q ∧ q < (n : Int)) (o : List Bool) :
    circOp n (stmts.map (Stmt.mapQubits m)) o = permOp n m * circOp n stmts o * (permOp n m)⁻¹ := by
  subst hn
  rw [permOp_eq_qpermOp]
  exact map_sem m hv stmts hs o

/-! ## Crisp hypotheses of a pass and of a run -/

/-- every gate of `c` is answered by the decomposer `d` with an accepted, exact replacement (what `CrispABA` /
    `CrispMcKay` / `CrispCNOT` imply: `aba_gate_ok`, `mckay_gate_ok`, `cnot_gate_ok`) -/
def GateOK (atol : ℝ) (d : Decomposer) (c : Circuit ℝ) : Prop :=
  ∀ g nm, Stmt.gate g nm ∈ c.stmts → ∃ repl, d.run atol (g, nm) = .ok repl ∧
    checkGateReplacement atol g (repl.map (·.1)) = none ∧ ExactRepl g (repl.map (·.1))

/-- **the crisp hypothesis of one pass on the circuit it is applied to**
    * A-B-A / McKay / CNOT decomposition: `CrispABA` / `CrispMcKay` / `CrispCNOT` (`Main`, `Main3`);
    * `replace name f`: the callback returns constructible gates, its proposals for the gates called `name` are
      accepted and exact, the other gates pass their self-check;
    * merge: the analytic crisp hypotheses `CrispR` of `MergeSemReal` along the run (that the pass does not raise is
      then a theorem: `merge_no_error_of_crispR` of `Main4`);
    * `map m`: `m` is a valid mapping of the size of the register and every qubit a statement mentions (operands and
      named arguments) is in the register — the conditions under which `Circuit.map` does not raise. -/
def CrispStep (atol : ℝ) : Pass ℝ → Circuit ℝ → Prop
  | .decompose (.aba k), c => CrispABA atol k c
  | .decompose .mckay, c => CrispMcKay atol c
  | .decompose .cnot, c => CrispCNOT atol c
  | .replace name f, c =>
      CallbackFine f ∧
      (∀ k g n, c.stmts[k]? = some (.gate g (some n)) → n.name = name →
        ∃ repl, f (matchIdx name c.stmts k) n.args = .ok repl ∧
          checkGateReplacement atol g (repl.map (·.1)) = none ∧ ExactRepl g (repl.map (·.1))) ∧
      (∀ g nm, Stmt.gate g nm ∈ c.stmts → matchesName name (.gate g nm) = false →
        checkGateReplacement atol g [g] = none)
  | .merge, c =>
      CrispR atol (regSemQ c.nQubits) c.nQubits ((fun q => defaultI atol q), []) (c.stmts.map absStmt)
  | .map m, c =>
      mappingValid m = true ∧ m.length = c.nQubits ∧
      ∀ s ∈ c.stmts, ∀ q ∈ s.allQubits, 0 ≤ q ∧ q < (c.nQubits : Int)

/-- the crisp hypotheses along a run: each pass on the intermediate circuit it sees -/
def CrispRun (atol : ℝ) : List (Pass ℝ) → Circuit ℝ → Prop
  | [], _ => True
  | p :: ps, c => CrispStep atol p c ∧ CrispRun atol ps (p.run atol c).1

theorem crispStep_fine {atol : ℝ} {p : Pass ℝ} {c : Circuit ℝ} (h : CrispStep atol p c) : p.Fine := by
  cases p with
  | replace name f => exact h.1
  | decompose d => trivial
  | merge => trivial
  | map m => trivial

theorem gateOK_of_crispStep {atol : ℝ} (h0 : 0 < atol) (h1 : atol ≤ 1 / 2) {d : Decomposer} {c : Circuit ℝ}
    (hwf : c.wf = true) (h : CrispStep atol (.decompose d) c) : GateOK atol d c := by
  cases d with
  | aba k => exact aba_gate_ok atol h0 h1 k c hwf h
  | mckay => exact mckay_gate_ok atol h0 h1 c hwf h
  | cnot => exact cnot_gate_ok atol h0 h1 c hwf h

theorem operandsInRange_of_wf {c : Circuit ℝ} (hwf : c.wf = true) : OperandsInRange c.nQubits c.stmts := by
  intro s hs q hq
  have h := (Circuit.wf_iff c).mp hwf s hs
  cases s with
  | gate g nm =>
    simp only [Stmt.wf, Bool.and_eq_true] at h
    exact List.all_eq_true.mp h.1.1 q hq
  | measure q' b ax nm =>
    simp only [Stmt.wf, Bool.and_eq_true] at h
    simp only [Stmt.qubits, List.mem_singleton] at hq
    subst hq; exact h.1
  | reset q' nm =>
    simp only [Stmt.wf] at h
    simp only [Stmt.qubits, List.mem_singleton] at hq
    subst hq; exact h
  | comment s => simp [Stmt.qubits] at hq

/-- under its hypothesis a `map` pass goes through and relabels every statement -/
theorem run_map_eq (atol : ℝ) (m : List Int) (c : Circuit ℝ) (hc : CrispStep atol (.map m) c) :
    Pass.run atol (.map m) c = ({ c with stmts := c.stmts.map (Stmt.mapQubits m) }, none) := by
  obtain ⟨hv, hlen, hall⟩ := hc
  have hmk : (mkMapping m >>= mkMapper c.nQubits) = .ok m := by
    simp [mkMapping, mkMapper, hv, hlen, bind, Except.bind]
  have hs' : ∀ s ∈ c.stmts, ∀ q ∈ s.allQubits, 0 ≤ q ∧ q < (m.length : Int) := by
    rw [hlen]; exact hall
  have hnone := (remap_sem m hv c hlen.symm hs' []).1
  have hr : remap m c = ({ c with stmts := c.stmts.map (Stmt.mapQubits m) }, none) := by
    rcases remap_cases m c with ⟨_, _, hr⟩ | ⟨_, hr⟩
    · exact hr
    · rw [hr] at hnone; cases hnone
  rw [Pass.run_map, hmk]; exact hr

/-! ## One pass -/

/-- **one pass under its crisp hypothesis**: it completes, and the circuit it leaves implements the circuit it received
    up to one global phase and the relabelling of the pass (`P = 1` unless the pass is a `map`) -/
theorem step_sem (atol : ℝ) (h0 : 0 < atol) (h1 : atol ≤ 1 / 2) (p : Pass ℝ) (c : Circuit ℝ) (hwf : c.wf = true)
    (hc : CrispStep atol p c) :
    (p.run atol c).2 = none ∧
    ∃ z : ℂ, ‖z‖ = 1 ∧ ∀ o, circOp c.nQubits (p.run atol c).1.stmts o
      = z • (permsOp c.nQubits p.mapOf * circOp c.nQubits c.stmts o * (permsOp c.nQubits p.mapOf)⁻¹) := by
  have hpi : atol ≤ Real.pi := (atol_lt_pi h1).le
  cases p with
  | decompose d =>
    obtain ⟨out, hrun, heq, -, -⟩ := C01_of_gate_ok atol d c hwf (gateOK_of_crispStep h0 h1 hwf hc)
    obtain ⟨z, hz, H⟩ := heq.symm
    refine ⟨by simp only [Pass.run, hrun], z, hz, fun o => ?_⟩
    simp only [Pass.run, hrun, Pass.mapOf, permsOp_nil, inv_one, Matrix.one_mul, Matrix.mul_one]
    exact H o
  | replace name f =>
    obtain ⟨_, hmatch, hother⟩ := hc
    have hrun := replace_ok_eq_spec atol name f c.stmts
      (fun k g n hk hn => by obtain ⟨r, h1, h2, _⟩ := hmatch k g n hk hn; exact ⟨r, h1, h2⟩) hother
    have hsem := replace_sem c.nQubits atol name f c.stmts _
      (fun g nm hm _ => gateWF_of_wf ((Circuit.wf_iff c).mp hwf _ hm)) hrun
      (fun k g nm repl hk hn hf _ => by
        obtain ⟨r, h1, _, h3⟩ := hmatch k g nm hk hn
        rw [h1] at hf; injection hf with hf; subst hf; exact h3)
    obtain ⟨z, hz, H⟩ := hsem.1.symm
    refine ⟨by simp only [Pass.run, hrun], z, hz, fun o => ?_⟩
    simp only [Pass.run, hrun, Pass.mapOf, permsOp_nil, inv_one, Matrix.one_mul, Matrix.mul_one]
    exact H o
  | merge =>
    have hcr : CrispR atol (regSemQ c.nQubits) c.nQubits ((fun q => defaultI atol q), [])
        (c.stmts.map absStmt) := hc
    have hne := merge_no_error_of_crispR atol h0 hpi (regSemQ c.nQubits) (fun _ => rfl) c
      (operandsInRange_of_wf hwf) hcr
    have hsem := merge_sem_global_real atol h0 hpi c (operandsInRange_of_wf hwf) hne hcr
    obtain ⟨z, hz, H⟩ := hsem.1.symm
    refine ⟨hne, z, hz, fun o => ?_⟩
    simp only [Pass.mapOf, permsOp_nil, inv_one, Matrix.one_mul, Matrix.mul_one]
    exact H o
  | map m =>
    have hrun := run_map_eq atol m c hc
    obtain ⟨hv, hlen, hall⟩ := hc
    refine ⟨by rw [hrun], 1, norm_one, fun o => ?_⟩
    rw [hrun, one_smul]
    simp only [Pass.mapOf, permsOp_singleton]
    exact map_step_sem m hv c.nQubits hlen.symm c.stmts
      (fun s hs q hq => hall s hs q (by simp [Stmt.allQubits, hq])) o

/-! ## The invariant -/

theorem C05_aux (atol : ℝ) (h0 : 0 < atol) (h1 : atol ≤ 1 / 2) (n : Nat) (ps : List (Pass ℝ)) :
    ∀ (c : Circuit ℝ), c.nQubits = n → c.wf = true → CrispRun atol ps c →
    (runPasses atol ps c).2 = none ∧
    ∃ z : ℂ, ‖z‖ = 1 ∧ ∀ o, circOp n (runPasses atol ps c).1.stmts o
      = z • (permsOp n (appliedMaps atol ps c) * circOp n c.stmts o * (permsOp n (appliedMaps atol ps c))⁻¹) := by
  induction ps with
  | nil =>
    intro c _ _ _
    refine ⟨rfl, 1, norm_one, fun o => ?_⟩
    simp [runPasses, appliedMaps]
  | cons p ps ih =>
    intro c hn hwf hcr
    obtain ⟨hstep, hrest⟩ := hcr
    obtain ⟨hnone, z1, hz1, H1⟩ := step_sem atol h0 h1 p c hwf hstep
    obtain ⟨hwf', hnq', -⟩ := pass_wf atol p c (crispStep_fine hstep) hwf
    cases hrun : p.run atol c with
    | mk c' oe =>
      rw [hrun] at hnone hwf' hnq' hrest H1
      simp only at hnone hwf' hnq' hrest H1
      subst hnone
      rw [hn] at H1
      obtain ⟨hnone2, z2, hz2, H2⟩ := ih c' (hnq'.trans hn) hwf' hrest
      rw [runPasses_cons_none atol p ps c c' hrun, appliedMaps_cons_none atol p ps c c' hrun]
      refine ⟨hnone2, z2 * z1, by rw [norm_mul, hz2, hz1, one_mul], fun o => ?_⟩
      rw [H2 o, H1 o, permsOp_append, Matrix.mul_inv_rev]
      simp only [Matrix.mul_smul, Matrix.smul_mul, smul_smul, Matrix.mul_assoc]

/-- **C05 (semantic invariant).**  Let `ps` be any finite list of passes, `c` a well-formed circuit, `0 < atol ≤ 1/2`,
    and assume the crisp hypothesis of every pass on the intermediate circuit it is applied to (`CrispRun`).  Then the
    whole sequence **completes**, the final circuit is **well formed** on the **same registers**, and for ONE unit
    complex number `z` and EVERY outcome assignment `o`
    `circOp (final) o = z • (P * circOp (initial) o * P⁻¹)`,
    `P` the permutation matrix of the composed relabelling `appliedMaps atol ps c` (the `map` calls, first one first). -/
theorem C05_main (atol : ℝ) (h0 : 0 < atol) (h1 : atol ≤ 1 / 2) (ps : List (Pass ℝ)) (c : Circuit ℝ)
    (hwf : c.wf = true) (hcr : CrispRun atol ps c) :
    (runPasses atol ps c).2 = none ∧
    (runPasses atol ps c).1.wf = true ∧
    (runPasses atol ps c).1.nQubits = c.nQubits ∧ (runPasses atol ps c).1.nBits = c.nBits ∧
    ∃ z : ℂ, ‖z‖ = 1 ∧ ∀ o, circOp c.nQubits (runPasses atol ps c).1.stmts o
      = z • (permsOp c.nQubits (appliedMaps atol ps c) * circOp c.nQubits c.stmts o
              * (permsOp c.nQubits (appliedMaps atol ps c))⁻¹) := by
  have hfine : ∀ name f, Pass.replace name f ∈ ps → CallbackFine f := by
    intro name f hmem
    induction ps generalizing c with
    | nil => cases hmem
    | cons p ps ih =>
      obtain ⟨hstep, hrest⟩ := hcr
      rcases List.mem_cons.mp hmem with rfl | hmem
      · exact hstep.1
      · exact ih _ (pass_wf atol p c (crispStep_fine hstep) hwf).1 hrest hmem
  obtain ⟨w1, w2, w3⟩ := runPasses_wf atol ps c hfine hwf
  obtain ⟨a, b⟩ := C05_aux atol h0 h1 c.nQubits ps c rfl hwf hcr
  exact ⟨a, w1, w2, w3, b⟩

/-- without `map` passes the permutation is trivial: input and output are `CircEquiv`, with the same barriers -/
theorem C05_equiv_nomap (atol : ℝ) (h0 : 0 < atol) (h1 : atol ≤ 1 / 2) (ps : List (Pass ℝ)) (c : Circuit ℝ)
    (hwf : c.wf = true) (hcr : CrispRun atol ps c) (hps : ∀ p ∈ ps, ∀ m, p ≠ .map m) :
    (runPasses atol ps c).2 = none ∧ CircEquiv c.nQubits (runPasses atol ps c).1.stmts c.stmts ∧
      SameBarriers (runPasses atol ps c).1.stmts c.stmts := by
  obtain ⟨a, -, -, -, z, hz, H⟩ := C05_main atol h0 h1 ps c hwf hcr
  refine ⟨a, ⟨z, hz, fun o => ?_⟩, ?_⟩
  · rw [H o, appliedMaps_no_map atol ps c hps]
    simp
  · exact runPasses_nongates atol ps c hps

/-! ## Non-vacuity: `map [1, 0]` followed by the Z-Y-Z decomposition on the circuit `exMCirc` of `Main` -/
section Example

theorem exM_map_step : CrispStep (1 / 1000) (.map [1, 0]) exMCirc := by
  refine ⟨by decide, rfl, ?_⟩
  intro s hs q hq
  simp only [exMCirc, List.mem_cons, List.not_mem_nil, or_false] at hs
  rcases hs with rfl | rfl | rfl | rfl <;>
    simp [Stmt.allQubits, Stmt.qubits, Stmt.named, Gate.operands] at hq <;>
    (first | (subst hq; decide) | (rcases hq with rfl | rfl <;> decide))

theorem exM_run : CrispRun (1 / 1000) [.map [1, 0], .decompose (.aba .ZYZ)] exMCirc := by
  refine ⟨exM_map_step, ?_, trivial⟩
  rw [run_map_eq _ _ _ exM_map_step]
  intro g nm hm
  simp only [exMCirc, List.map_cons, List.map_nil, Stmt.mapQubits, Gate.mapQubits, List.mem_cons, Stmt.gate.injEq,
    reduceCtorEq, List.not_mem_nil, or_false] at hm
  rcases hm with ⟨rfl, _⟩ | ⟨rfl, _⟩
  · exact exM_crisp
  · trivial

/-- all hypotheses of `C05_main` hold on this run: it completes, and the final circuit is the initial one up to one
    global phase and the swap of the two qubits, for every outcome of the measurement and of the reset -/
example : (runPasses (1 / 1000 : ℝ) [.map [1, 0], .decompose (.aba .ZYZ)] exMCirc).2 = none ∧
    ∃ z : ℂ, ‖z‖ = 1 ∧ ∀ o,
      circOp 2 (runPasses (1 / 1000 : ℝ) [.map [1, 0], .decompose (.aba .ZYZ)] exMCirc).1.stmts o
        = z • (permsOp 2 (appliedMaps (1 / 1000 : ℝ) [.map [1, 0], .decompose (.aba .ZYZ)] exMCirc)
                * circOp 2 exMCirc.stmts o
                * (permsOp 2 (appliedMaps (1 / 1000 : ℝ) [.map [1, 0], .decompose (.aba .ZYZ)] exMCirc))⁻¹) := by
  obtain ⟨a, -, -, -, b⟩ := C05_main (1 / 1000) (by norm_num) (by norm_num) _ exMCirc exMCirc_wf exM_run
  exact ⟨a, b⟩

/-- … and the composed relabelling of that run is the single mapping `[1, 0]` -/
example : appliedMaps (1 / 1000 : ℝ) [.map [1, 0], .decompose (.aba .ZYZ)] exMCirc = [[1, 0]] := by
  have h1 := run_map_eq _ _ _ exM_map_step
  have hwf1 := (pass_wf (1 / 1000 : ℝ) (.map [1, 0]) exMCirc trivial exMCirc_wf).1
  have h2 := (step_sem (1 / 1000) (by norm_num) (by norm_num) (.decompose (.aba .ZYZ)) _ hwf1 exM_run.2.1).1
  rw [h1] at h2
  rw [appliedMaps_cons_none _ _ _ _ _ h1]
  cases hr : Pass.run (1 / 1000 : ℝ) (.decompose (.aba .ZYZ))
      ({ exMCirc with stmts := exMCirc.stmts.map (Stmt.mapQubits [1, 0]) } : Circuit ℝ) with
  | mk c' oe =>
    rw [hr] at h2
    simp only at h2
    subst h2
    rw [appliedMaps_cons_none _ _ _ _ _ hr]
    rfl

/-- a run with a **merge**: `X(π) q0; measure q0` (the circuit `exCircR2` of `MergeSemReal`) through
    `[map [0], merge]` at `atol = 1e-7` — `CrispR` is discharged by `ex2_crispR`, and the pass provably does not raise -/
example : (runPasses (1 / 10 ^ 7 : ℝ) [.map [0], .merge] exCircR2).2 = none ∧
    ∃ z : ℂ, ‖z‖ = 1 ∧ ∀ o, circOp 1 (runPasses (1 / 10 ^ 7 : ℝ) [.map [0], .merge] exCircR2).1.stmts o
        = z • (permsOp 1 (appliedMaps (1 / 10 ^ 7 : ℝ) [.map [0], .merge] exCircR2) * circOp 1 exCircR2.stmts o
                * (permsOp 1 (appliedMaps (1 / 10 ^ 7 : ℝ) [.map [0], .merge] exCircR2))⁻¹) := by
  have hpi := Real.two_le_pi
  have hatol : (0 : ℝ) < 1 / 10 ^ 7 := by norm_num
  have h4 : (1 / 10 ^ 7 : ℝ) ≤ Real.pi / 4 := by norm_num; linarith
  have hwf : exCircR2.wf = true := by
    simp [exCircR2, Circuit.wf, Stmt.wf, Gate.operands, inRange, hasDup, Gate.shapeOk]
  have hmap : CrispStep (1 / 10 ^ 7) (.map [0]) exCircR2 := by
    refine ⟨by decide, rfl, ?_⟩
    intro s hs q hq
    simp only [exCircR2, List.mem_cons, List.not_mem_nil, or_false] at hs
    rcases hs with rfl | rfl <;>
      simp [Stmt.allQubits, Stmt.qubits, Stmt.named, Gate.operands] at hq <;> (subst hq; decide)
  have hsame : (Pass.run (1 / 10 ^ 7 : ℝ) (.map [0]) exCircR2).1 = exCircR2 := by
    rw [run_map_eq _ _ _ hmap]
    simp [exCircR2, Stmt.mapQubits, Gate.mapQubits, mapIdx]
  have hrun : CrispRun (1 / 10 ^ 7) [.map [0], .merge] exCircR2 := by
    refine ⟨hmap, ?_, trivial⟩
    rw [hsame]
    exact crispR_congr _ freeSemR (regSemQ 1) (fun _ => rfl) 1 _ _ (ex2_crispR _ hatol h4)
  obtain ⟨a, -, -, -, b⟩ := C05_main (1 / 10 ^ 7) hatol (by norm_num) _ exCircR2 hwf hrun
  exact ⟨a, b⟩

end Example

end OSq

#print axioms OSq.step_sem
#print axioms OSq.C05_main
#print axioms OSq.C05_equiv_nomap
