import OSq.Proofs.DecomposeBand
import OSq.Proofs.CircuitSem8
import Mathlib.Tactic.Module

/-
  OSq.Proofs.DecomposeBand2 — part 2: **if a decompose / replace pass completes (or stops half-way), the circuit it
  leaves is within an explicit tolerance of the original, up to ONE global phase, for ALL outcome assignments** (C06,
  C01, C05).  `α := ℝ`; every input; no crisp hypothesis; the decomposer `d` / the user rule `f` is an ARBITRARY
  function (it may depend on the call index, raise, return anything).  `‖·‖` is the ℓ² operator norm
  (`Matrix.Norms.L2Operator`), `κ(k, atol) = kappa k atol = 2^k·(atol + 1e-5)` the single-replacement constant of
  `OSq.Proofs.DecomposeBand` (the `1e-5` is numpy's default `rtol`, which `np.allclose(…, atol=ATOL)` keeps), and
  `κ_L(k, atol) = kappaL k atol = 2^k·(atol + 1e-5·(1 + atol)/(1 − 1e-5))` the constant when nothing is assumed about the
  replacement.

  * `bandOf atol s`             budget of one statement: `κ(#operands, atol)` for a gate, `0` otherwise
  * `DBand.telescope_step`      `‖X'R − (wz)•XG‖ ≤ ‖R − w•G‖ + ‖X' − z•X‖` for contractions `X'`, `G` and a unit `w`
  * `DBand.genSpec_band`        telescoping over the specification `genSpec` of the generic accumulator loop
  * `DBand.genLoop_verdict_band`  the generic driver with body `verdict atol d` (both passes are instances), any run
  * `decompose_band_sum`        `decompose`, ANY run (completed or stopped at list position `k`): a unit `z` with
                                `∀ o, ‖circOp n (result) o − z • circOp n stmts o‖ ≤ Σ_{gates before k} κ(#operands g, atol)`
  * `decompose_ok_band`         **main theorem**: well-formed circuit `c`, gates `Gate.Unitary` on `≤ K` qubits, any `d`
                                whose *accepted* answers are unitary on the register, `atol > 0`,
                                `decompose atol d c.stmts = (out, none)` ⇒ `∃ z, ‖z‖ = 1 ∧ ∀ o,
                                ‖circOp c.nQubits out o − z • circOp c.nQubits c.stmts o‖ ≤ gateCount c.stmts · κ(K, atol)`
  * `decompose_ok_band_syntactic`  the same with the hypothesis on `d` in syntactic form: every returned gate has distinct
                                operands and is `Gate.Unitary` (`accepted_unitary_of_syntactic`: the check itself keeps the
                                replacement on the qubits of the replaced gate)
  * `decomposeBuiltin_ok_band`  the built-in decomposers (`Decomposer.run`), same syntactic hypothesis, restricted to the
                                gates of the circuit
  * `decompose_fail_band`       `decompose … = (out, some e)` ⇒ the pass stopped at a refused gate statement (position `k`)
                                and `out` satisfies the bound with `G = gateIdx c.stmts k` (gates replaced before the stop)
  * `replace_band_sum`, `replace_ok_band`, `replace_fail_band`   the same for `replace`; only the named gates called
                                `name` are charged (`bandOfNamed`, `G = countP (matchesName name)`, resp. `matchIdx … k`)
  6. NO hypothesis on the accepted answers (possible since the measured phase of the check is normalised)
  * `bandOfL`, `DBand.telescope_step_prod`, `DBand.genSpec_band_prod`, `DBand.verdict_chunks_nohyp`,
    `DBand.genLoop_verdict_band_nohyp`, `DBand.prod_map_le_pow`   the telescoping *product* (replacements need not be
                                contractions: `‖R‖ ≤ 1 + κ_L`)
  * `decompose_band_prod`       `decompose`, ANY run, ANY `d`: `… ≤ Π_{gates before k} (1 + κ_L(#operands g, atol)) − 1`
  * `decompose_ok_band_nohyp`   **main theorem without `hrepl`**: `… ≤ (1 + κ_L(K, atol))^G − 1`, `G = gateCount c.stmts`
  * `decompose_ok_band_nohyp_linear`  … `≤ 2·G·κ_L(K, atol)` as long as `G·κ_L(K, atol) ≤ 1` (`pow_sub_one_le_two_mul`)
  * `decompose_fail_band_nohyp`, `replace_band_prod`, `replace_ok_band_nohyp`   the same for a stopped run / for `replace`

  The hypothesis "accepted answers are unitary" (`hrepl`) of `decompose_ok_band` WAS necessary while
  `check_gate_replacement` compared up to an *arbitrary* non-zero complex factor (a decomposer answering `MatrixGate(2·U)`
  was accepted and doubled the operator of the circuit).  With the normalised phase that answer is rejected
  (`scalar_multiple_rejected` in `OSq.Proofs.DecomposeBand3`) and the hypothesis can be dropped at the price of the
  product form of the bound (section 6); with it, the bound keeps the sharper additive form `G·κ`.
-/

open Matrix
open scoped Matrix.Norms.L2Operator

namespace OSq

/-- the contribution of one statement to the error budget of the decompose pass: `κ(#operands, atol)` for a gate,
    nothing for a measurement, reset or comment -/
noncomputable def bandOf (atol : ℝ) : Stmt ℝ → ℝ
  | .gate g _ => kappa g.operands.length atol
  | _ => 0

theorem bandOf_nonneg {atol : ℝ} (h : 0 ≤ atol) (s : Stmt ℝ) : 0 ≤ bandOf atol s := by
  cases s <;> simp [bandOf, kappa_nonneg _ h]

namespace DBand

/-- **one step of the telescoping sum**:
    `X'·R − (w z)•(X·G) = X'·(R − w•G) + w•((X' − z•X)·G)` with `‖X'‖, ‖G‖ ≤ 1`, `‖w‖ = 1` -/
theorem telescope_step {n : Nat} (X' X R G : Op n) (w z : ℂ) (δ ε : ℝ) (hw : ‖w‖ = 1)
    (hX' : ‖X'‖ ≤ 1) (hG : ‖G‖ ≤ 1) (hR : ‖R - w • G‖ ≤ δ) (hX : ‖X' - z • X‖ ≤ ε) :
    ‖X' * R - (w * z) • (X * G)‖ ≤ δ + ε := by
  have e : X' * R - (w * z) • (X * G) = X' * (R - w • G) + w • ((X' - z • X) * G) := by
    rw [mul_sub, sub_mul, Matrix.mul_smul, Matrix.smul_mul, smul_sub, smul_smul]
    abel
  rw [e]
  refine le_trans (norm_add_le _ _) ?_
  have hδ : 0 ≤ δ := le_trans (norm_nonneg _) hR
  have hε : 0 ≤ ε := le_trans (norm_nonneg _) hX
  have h1 : ‖X' * (R - w • G)‖ ≤ δ := by
    refine le_trans (norm_mul_le _ _) ?_
    calc ‖X'‖ * ‖R - w • G‖ ≤ 1 * δ := mul_le_mul hX' hR (norm_nonneg _) zero_le_one
      _ = δ := one_mul δ
  have h2 : ‖w • ((X' - z • X) * G)‖ ≤ ε := by
    rw [norm_smul, hw, one_mul]
    refine le_trans (norm_mul_le _ _) ?_
    calc ‖X' - z • X‖ * ‖G‖ ≤ ε * 1 := mul_le_mul hX hG (norm_nonneg _) hε
      _ = ε := mul_one ε
  linarith

/-- the operator of an accepted replacement, seen from the replaced gate: `‖R − w•G‖ ≤ κ` with `w = z⁻¹` -/
theorem accepted_repl_band (atol : ℝ) (hatol : 0 < atol) (n : Nat) (g : Gate ℝ) (repl : List (GStmt ℝ))
    (hwf : GateWF n g)
    (hU2 : circOp n (gateStmts (repl.map (·.1))) [] ∈ Matrix.unitaryGroup (Fin (2 ^ n)) ℂ)
    (h : checkGateReplacement atol g (repl.map (·.1)) = none) :
    ∃ w : ℂ, ‖w‖ = 1 ∧ ‖circOp n (repl.map GStmt.toStmt) []‖ ≤ 1 ∧
      ‖circOp n (repl.map GStmt.toStmt) [] - w • gateOp n g‖ ≤ kappa g.operands.length atol := by
  obtain ⟨z, hz, H⟩ := checkGateReplacement_band_op atol hatol n g _ hwf hU2 h
  have hz0 : z ≠ 0 := by intro h0; rw [h0, norm_zero] at hz; exact zero_ne_one hz
  rw [circOp_map_toStmt]
  refine ⟨z⁻¹, by rw [norm_inv, hz, inv_one], opNorm_unitary_le hU2, ?_⟩
  have e : circOp n (gateStmts (repl.map (·.1))) [] - z⁻¹ • gateOp n g
      = (-z⁻¹) • (gateOp n g - z • circOp n (gateStmts (repl.map (·.1))) []) := by
    rw [smul_sub, smul_smul, neg_mul, inv_mul_cancel₀ hz0]
    module
  rw [e, norm_smul, norm_neg, norm_inv, hz, inv_one, one_mul]
  exact H

/-- **Telescoping over the specification of the generic loop.**  `c` is the chunk function; for every position the
    chunk is the statement itself, or the statement is a gate `g` and the chunk a list `r` of gate statements with
    `‖circOp r‖ ≤ 1`, `‖circOp r − w•gateOp g‖ ≤ δ s` for a unit `w`.  All statements of `l` are contractions. -/
theorem genSpec_band (n : Nat) (c : Nat → Stmt ℝ → List (Stmt ℝ)) (bump : Stmt ℝ → Bool) (δ : Stmt ℝ → ℝ)
    (i : Nat) (l : List (Stmt ℝ)) (hδ : ∀ s ∈ l, 0 ≤ δ s) (hok : ∀ s ∈ l, s.OpOK n)
    (h : ∀ k s, l[k]? = some s →
      c (ctrAt bump i l k) s = [s] ∨
      ∃ (g : Gate ℝ) (nm : Option (Named ℝ)) (r : List (Stmt ℝ)) (w : ℂ), s = .gate g nm ∧
        c (ctrAt bump i l k) s = r ∧ (∀ x ∈ r, x.isGate = true) ∧ ‖w‖ = 1 ∧ ‖circOp n r []‖ ≤ 1 ∧
        ‖circOp n r [] - w • gateOp n g‖ ≤ δ s) :
    ∃ z : ℂ, ‖z‖ = 1 ∧ nOutcomes (genSpec c bump i l) = nOutcomes l ∧
      ∀ o, ‖circOp n (genSpec c bump i l) o‖ ≤ 1 ∧
        ‖circOp n (genSpec c bump i l) o - z • circOp n l o‖ ≤ (l.map δ).sum := by
  induction l generalizing i with
  | nil =>
    refine ⟨1, norm_one, rfl, fun o => ⟨?_, ?_⟩⟩
    · simp only [genSpec, circOp_nil]; exact opNorm_unitary_le (one_mem _)
    · simp [genSpec]
  | cons s rest ih =>
    obtain ⟨z, hz, hno, H⟩ := ih (i + (bump s).toNat)
      (fun x hx => hδ x (List.mem_cons_of_mem _ hx)) (fun x hx => hok x (List.mem_cons_of_mem _ hx)) (by
        intro k s' hk
        have := h (k + 1) s' (by simpa using hk)
        rwa [ctrAt_succ] at this)
    have h0 := h 0 s (by simp)
    rw [ctrAt_zero] at h0
    have hs0 : 0 ≤ δ s := hδ s List.mem_cons_self
    simp only [genSpec, List.map_cons, List.sum_cons]
    rcases h0 with h0 | ⟨g, nm, r, w, rfl, hc, hr, hw, hr1, hrδ⟩
    · rw [h0]
      refine ⟨z, hz, ?_, fun o => ?_⟩
      · simp only [List.singleton_append, nOutcomes_cons, hno]
      · simp only [List.singleton_append]
        rw [circOp_cons', circOp_cons']
        obtain ⟨H1, H2⟩ := H (o.drop (nOutcomes [s]))
        have hS := stmtOp_norm_le n s (hok s List.mem_cons_self) (o.headD false)
        constructor
        · refine le_trans (norm_mul_le _ _) ?_
          calc _ ≤ (1 : ℝ) * 1 := mul_le_mul H1 hS (norm_nonneg _) zero_le_one
            _ = 1 := one_mul 1
        · rw [← Matrix.smul_mul, ← sub_mul]
          refine le_trans (norm_mul_le _ _) ?_
          have hε : 0 ≤ (rest.map δ).sum := le_trans (norm_nonneg _) H2
          calc _ ≤ (rest.map δ).sum * 1 := mul_le_mul H2 hS (norm_nonneg _) hε
            _ ≤ δ s + (rest.map δ).sum := by linarith
    · rw [hc]
      refine ⟨w * z, by rw [norm_mul, hw, hz, one_mul], ?_, fun o => ?_⟩
      · rw [nOutcomes_append, nOutcomes_of_gates r hr, hno, nOutcomes_cons]
        simp [Stmt.hasOutcome]
      · rw [circOp_append, nOutcomes_of_gates r hr, List.drop_zero, List.take_zero, circOp_gate]
        obtain ⟨H1, H2⟩ := H o
        have hG : ‖gateOp n g‖ ≤ 1 := opNorm_unitary_le (hok _ List.mem_cons_self g nm rfl)
        constructor
        · refine le_trans (norm_mul_le _ _) ?_
          calc _ ≤ (1 : ℝ) * 1 := mul_le_mul H1 hr1 (norm_nonneg _) zero_le_one
            _ = 1 := one_mul 1
        · exact telescope_step _ _ _ _ w z _ _ hw H1 hG hrδ H2

/-- appending an untouched suffix keeps the bound -/
theorem band_append_right (n : Nat) (a a' b : List (Stmt ℝ)) (z : ℂ) (ε : ℝ) (hb : ∀ s ∈ b, s.OpOK n)
    (hno : nOutcomes a' = nOutcomes a) (H : ∀ o, ‖circOp n a' o - z • circOp n a o‖ ≤ ε) (o : List Bool) :
    ‖circOp n (a' ++ b) o - z • circOp n (a ++ b) o‖ ≤ ε := by
  rw [circOp_append, circOp_append, hno, ← Matrix.mul_smul, ← mul_sub]
  refine le_trans (norm_mul_le _ _) ?_
  have h1 := circOp_norm_le n b hb (o.drop (nOutcomes a))
  have h2 := H (o.take (nOutcomes a))
  have hε : 0 ≤ ε := le_trans (norm_nonneg _) h2
  calc _ ≤ 1 * ε := mul_le_mul h1 h2 (norm_nonneg _) zero_le_one
    _ = ε := one_mul ε


/-- the chunk hypothesis of `genSpec_band` for the loop body `verdict atol d` (the body of both `decompose` and
    `replace`), from acceptance at every position -/
theorem verdict_chunks (atol : ℝ) (hatol : 0 < atol) (n : Nat)
    (d : Nat → GStmt ℝ → Except Err (List (GStmt ℝ))) (bump : Stmt ℝ → Bool) (δ : Stmt ℝ → ℝ) (i : Nat)
    (l : List (Stmt ℝ))
    (hwf : ∀ k g nm, l[k]? = some (.gate g nm) →
      spliceChunk d (ctrAt bump i l k) (.gate g nm) ≠ [.gate g nm] → GateWF n g)
    (hacc : ∀ k, OkAt (verdict atol d) bump i l k)
    (hrepl : ∀ k g nm repl, l[k]? = some (.gate g nm) → d (ctrAt bump i l k) (g, nm) = .ok repl →
      checkGateReplacement atol g (repl.map (·.1)) = none →
      circOp n (gateStmts (repl.map (·.1))) [] ∈ Matrix.unitaryGroup (Fin (2 ^ n)) ℂ)
    (hδ : ∀ k g nm, l[k]? = some (.gate g nm) →
      spliceChunk d (ctrAt bump i l k) (.gate g nm) ≠ [.gate g nm] → kappa g.operands.length atol ≤ δ (.gate g nm))
    (k : Nat) (s : Stmt ℝ) (hs : l[k]? = some s) :
    spliceChunk d (ctrAt bump i l k) s = [s] ∨
      ∃ (g : Gate ℝ) (nm : Option (Named ℝ)) (r : List (Stmt ℝ)) (w : ℂ), s = .gate g nm ∧
        spliceChunk d (ctrAt bump i l k) s = r ∧ (∀ x ∈ r, x.isGate = true) ∧ ‖w‖ = 1 ∧ ‖circOp n r []‖ ≤ 1 ∧
        ‖circOp n r [] - w • gateOp n g‖ ≤ δ s := by
  by_cases hch : spliceChunk d (ctrAt bump i l k) s = [s]
  · exact Or.inl hch
  · right
    cases s with
    | gate g nm =>
      obtain ⟨r, hr⟩ := hacc k _ hs
      have hacc' : Accepts atol d (ctrAt bump i l k) (.gate g nm) := (verdict_ok_iff atol d _ _).mp ⟨r, hr⟩
      obtain ⟨repl, hd, hc⟩ := hacc' g nm rfl
      have hchunk : spliceChunk d (ctrAt bump i l k) (.gate g nm) = repl.map GStmt.toStmt := by
        simp [spliceChunk, hd]
      obtain ⟨w, hw, h1, h2⟩ := accepted_repl_band atol hatol n g repl (hwf k g nm hs hch)
        (hrepl k g nm repl hs hd hc) hc
      exact ⟨g, nm, _, w, rfl, hchunk, map_toStmt_isGate repl, hw, h1, le_trans h2 (hδ k g nm hs hch)⟩
    | measure q b ax nm => exact absurd rfl hch
    | reset q nm => exact absurd rfl hch
    | comment c => exact absurd rfl hch

theorem okAt_take {S E : Type} (v : Nat → S → Except E (List S)) (bump : S → Bool) (i : Nat) (l : List S) (k : Nat)
    (h : ∀ j, j < k → OkAt v bump i l j) (j : Nat) : OkAt v bump i (l.take k) j := by
  intro s hs
  have hjk : j < k := by
    have := (List.getElem?_eq_some_iff.1 hs).1
    rw [List.length_take] at this
    omega
  have hs' : l[j]? = some s := by rwa [List.getElem?_take_of_lt hjk] at hs
  have hctr : ctrAt bump i (l.take k) j = ctrAt bump i l j := by
    simp only [ctrAt, List.take_take, Nat.min_eq_left (Nat.le_of_lt hjk)]
  rw [hctr]
  exact h j hjk s hs'

/-- **The generic driver** (`decompose` and `replace` are instances): whatever the run does — complete, or stop at
    the first refused gate — the IR it leaves is within `Σ δ` (over the processed prefix) of the original, up to one
    unit phase, for every outcome assignment. -/
theorem genLoop_verdict_band (atol : ℝ) (hatol : 0 < atol) (n : Nat)
    (d : Nat → GStmt ℝ → Except Err (List (GStmt ℝ))) (bump : Stmt ℝ → Bool) (δ : Stmt ℝ → ℝ)
    (l : List (Stmt ℝ)) (hδ0 : ∀ s ∈ l, 0 ≤ δ s) (hok : ∀ s ∈ l, s.OpOK n)
    (hwf : ∀ k g nm, l[k]? = some (.gate g nm) →
      spliceChunk d (ctrAt bump 0 l k) (.gate g nm) ≠ [.gate g nm] → GateWF n g)
    (hrepl : ∀ k g nm repl, l[k]? = some (.gate g nm) → d (ctrAt bump 0 l k) (g, nm) = .ok repl →
      checkGateReplacement atol g (repl.map (·.1)) = none →
      circOp n (gateStmts (repl.map (·.1))) [] ∈ Matrix.unitaryGroup (Fin (2 ^ n)) ℂ)
    (hδ : ∀ k g nm, l[k]? = some (.gate g nm) →
      spliceChunk d (ctrAt bump 0 l k) (.gate g nm) ≠ [.gate g nm] → kappa g.operands.length atol ≤ δ (.gate g nm)) :
    ∃ k, k ≤ l.length ∧
      ((genLoop (verdict atol d) bump 0 [] l).2 = none → k = l.length) ∧
      (∀ e, (genLoop (verdict atol d) bump 0 [] l).2 = some e → ErrAt (verdict atol d) bump 0 l k e) ∧
      ∃ z : ℂ, ‖z‖ = 1 ∧ ∀ o,
        ‖circOp n (genLoop (verdict atol d) bump 0 [] l).1 o - z • circOp n l o‖ ≤ ((l.take k).map δ).sum := by
  rcases genLoop_total (verdict atol d) bump (spliceChunk d) (verdict_chunk atol d) l 0 []
    with ⟨hall, hres⟩ | ⟨k, e, hpre, herr, hres⟩
  · refine ⟨l.length, le_refl _, fun _ => rfl, ?_, ?_⟩
    · intro e he; rw [hres] at he; cases he
    · obtain ⟨z, hz, -, H⟩ := genSpec_band n (spliceChunk d) bump δ 0 l hδ0 hok
        (verdict_chunks atol hatol n d bump δ 0 l hwf hall hrepl hδ)
      refine ⟨z, hz, fun o => ?_⟩
      rw [hres, List.take_length]
      simpa using (H o).2
  · have hk : k < l.length := errAt_lt herr
    have hsub : ∀ s ∈ l.take k, s ∈ l := fun s hs => List.mem_of_mem_take hs
    have hget : ∀ j s, (l.take k)[j]? = some s → j < k ∧ l[j]? = some s := by
      intro j s hs
      have hjk : j < k := by
        have := (List.getElem?_eq_some_iff.1 hs).1
        rw [List.length_take] at this
        omega
      exact ⟨hjk, by rwa [List.getElem?_take_of_lt hjk] at hs⟩
    have hctr : ∀ j, j < k → ctrAt bump 0 (l.take k) j = ctrAt bump 0 l j := by
      intro j hjk
      simp only [ctrAt, List.take_take, Nat.min_eq_left (Nat.le_of_lt hjk)]
    obtain ⟨z, hz, hno, H⟩ := genSpec_band n (spliceChunk d) bump δ 0 (l.take k)
      (fun s hs => hδ0 s (hsub s hs)) (fun s hs => hok s (hsub s hs))
      (verdict_chunks atol hatol n d bump δ 0 (l.take k)
        (by
          intro j g nm hj hne
          obtain ⟨hjk, hj'⟩ := hget j _ hj
          rw [hctr j hjk] at hne
          exact hwf j g nm hj' hne) (okAt_take _ _ _ _ _ hpre)
        (by
          intro j g nm repl hj hd hc
          obtain ⟨hjk, hj'⟩ := hget j _ hj
          rw [hctr j hjk] at hd
          exact hrepl j g nm repl hj' hd hc)
        (by
          intro j g nm hj hne
          obtain ⟨hjk, hj'⟩ := hget j _ hj
          rw [hctr j hjk] at hne
          exact hδ j g nm hj' hne))
    refine ⟨k, hk.le, ?_, ?_, z, hz, fun o => ?_⟩
    · intro he; rw [hres] at he; cases he
    · intro e' he'
      rw [hres] at he'
      cases he'
      exact herr
    · rw [hres]
      simp only [List.reverse_nil, List.nil_append]
      have := band_append_right n (l.take k) (genSpec (spliceChunk d) bump 0 (l.take k)) (l.drop k) z
        (((l.take k).map δ).sum) (fun s hs => hok s (List.mem_of_mem_drop hs)) hno (fun o => (H o).2) o
      rwa [List.take_append_drop] at this

/-- a sum of per-statement budgets is at most (number of charged statements) × (largest charge) -/
theorem sum_map_le_countP (δ : Stmt ℝ → ℝ) (P : Stmt ℝ → Bool) (C : ℝ) (l : List (Stmt ℝ))
    (h : ∀ s ∈ l, δ s ≤ if P s then C else 0) : (l.map δ).sum ≤ (l.countP P : ℝ) * C := by
  induction l with
  | nil => simp
  | cons s rest ih =>
    have h1 := h s List.mem_cons_self
    have h2 := ih (fun x hx => h x (List.mem_cons_of_mem _ hx))
    rw [List.map_cons, List.sum_cons, List.countP_cons]
    by_cases hp : P s = true
    · simp only [hp, if_true] at h1 ⊢
      push_cast
      linarith
    · simp only [hp, if_false, Bool.false_eq_true] at h1 ⊢
      push_cast
      linarith

end DBand


/-! ## 3. The decompose pass -/

/-- a well-formed circuit whose gates satisfy `Gate.Unitary`: every statement is a contraction, every gate is `GateWF` -/
theorem Circuit.opOK_of_wf (c : Circuit ℝ) (hwf : c.wf = true)
    (hU : ∀ g nm, Stmt.gate g nm ∈ c.stmts → g.Unitary) :
    (∀ s ∈ c.stmts, s.OpOK c.nQubits) ∧ (∀ g nm, Stmt.gate g nm ∈ c.stmts → GateWF c.nQubits g) := by
  have hall : ∀ s ∈ c.stmts, Stmt.wf c.nQubits c.nBits s = true := by
    intro s hs
    exact List.all_eq_true.mp hwf s hs
  exact ⟨fun s hs => Stmt.opOK_of_wf (hall s hs) (fun g nm e => hU g nm (e ▸ hs)),
    fun g nm hm => gateWF_of_wf (hall _ hm)⟩

theorem ctrAt_isGate (stmts : List (Stmt ℝ)) (k : Nat) : ctrAt Stmt.isGate 0 stmts k = gateIdx stmts k := by
  simp [ctrAt, gateIdx, gateCount]

/-- **`decompose`, any run, sharp budget.**  Statement level (register size `n`; every gate statement of `stmts` a
    unitary on well-formed operands; every *accepted* replacement unitary on the register — for the version without
    this hypothesis see `decompose_band_prod`).  `k` is the list position where the pass stopped (`= length` if it
    completed).  The IR the pass leaves is within the sum of the budgets `κ(#operands(g), atol)` of the gates it
    replaced of the original, up to ONE unit phase, for ALL outcome assignments. -/
theorem decompose_band_sum (atol : ℝ) (hatol : 0 < atol) (n : Nat)
    (d : Nat → GStmt ℝ → Except Err (List (GStmt ℝ))) (stmts : List (Stmt ℝ))
    (hok : ∀ s ∈ stmts, s.OpOK n) (hwf : ∀ g nm, Stmt.gate g nm ∈ stmts → GateWF n g)
    (hrepl : ∀ k g nm repl, stmts[k]? = some (.gate g nm) → d (gateIdx stmts k) (g, nm) = .ok repl →
      checkGateReplacement atol g (repl.map (·.1)) = none →
      circOp n (gateStmts (repl.map (·.1))) [] ∈ Matrix.unitaryGroup (Fin (2 ^ n)) ℂ) :
    ∃ k, k ≤ stmts.length ∧
      ((decompose atol d stmts).2 = none → k = stmts.length) ∧
      (∀ e, (decompose atol d stmts).2 = some e →
        ∃ g nm, stmts[k]? = some (.gate g nm) ∧ Rejects atol d (gateIdx stmts k) (.gate g nm) e) ∧
      ∃ z : ℂ, ‖z‖ = 1 ∧ ∀ o,
        ‖circOp n (decompose atol d stmts).1 o - z • circOp n stmts o‖
          ≤ ((stmts.take k).map (bandOf atol)).sum := by
  rw [decompose_eq_genLoop]
  obtain ⟨k, hk, h1, h2, h3⟩ := DBand.genLoop_verdict_band atol hatol n d Stmt.isGate (bandOf atol) stmts
    (fun s _ => bandOf_nonneg hatol.le s) hok (fun k g nm hs _ => hwf g nm (List.mem_of_getElem? hs))
    (fun k g nm repl hs hd hc => hrepl k g nm repl hs (by rwa [ctrAt_isGate] at hd) hc)
    (fun k g nm _ _ => le_refl _)
  refine ⟨k, hk, h1, ?_, h3⟩
  intro e he
  obtain ⟨s, hs, hr⟩ := (errAt_verdict_iff atol d stmts k e).mp (h2 e he)
  obtain ⟨g, nm, rfl, _⟩ := id hr
  exact ⟨g, nm, hs, hr⟩

/-- the budget in the form `G · κ(K)`: `G` gate statements, each on at most `K` qubits -/
theorem bandOf_sum_le (atol : ℝ) (hatol : 0 ≤ atol) (K : Nat) (l : List (Stmt ℝ))
    (hK : ∀ g nm, Stmt.gate g nm ∈ l → g.operands.length ≤ K) :
    (l.map (bandOf atol)).sum ≤ (gateCount l : ℝ) * kappa K atol := by
  apply DBand.sum_map_le_countP
  intro s hs
  cases s with
  | gate g nm => simpa [bandOf, Stmt.isGate] using kappa_mono (hK g nm hs) hatol
  | measure q b ax nm => simp [bandOf, Stmt.isGate]
  | reset q nm => simp [bandOf, Stmt.isGate]
  | comment c => simp [bandOf, Stmt.isGate]

/-- **Main theorem (C06/C01/C05, tolerance level, no crisp hypothesis, arbitrary decomposer).**
    `c` a well-formed circuit whose gates are `Gate.Unitary` and act on at most `K` qubits; `d` ANY decomposer whose
    *accepted* answers denote unitaries; `atol > 0`.  If `decompose atol d c.stmts = (out, none)` then for one unit `z`
    and all outcome lists `o`:   `‖circOp out o − z • circOp c.stmts o‖ ≤ G · κ(K, atol)`,
    `G = gateCount c.stmts`, `κ(K, atol) = 2^K · (atol + 1e-5)` (ℓ² operator norm; independent of
    the register size). -/
theorem decompose_ok_band (atol : ℝ) (hatol : 0 < atol) (d : Nat → GStmt ℝ → Except Err (List (GStmt ℝ)))
    (c : Circuit ℝ) (out : List (Stmt ℝ)) (K : Nat) (hwf : c.wf = true)
    (hU : ∀ g nm, Stmt.gate g nm ∈ c.stmts → g.Unitary)
    (hK : ∀ g nm, Stmt.gate g nm ∈ c.stmts → g.operands.length ≤ K)
    (hrepl : ∀ k g nm repl, c.stmts[k]? = some (.gate g nm) → d (gateIdx c.stmts k) (g, nm) = .ok repl →
      checkGateReplacement atol g (repl.map (·.1)) = none →
      circOp c.nQubits (gateStmts (repl.map (·.1))) [] ∈ Matrix.unitaryGroup (Fin (2 ^ c.nQubits)) ℂ)
    (hrun : decompose atol d c.stmts = (out, none)) :
    ∃ z : ℂ, ‖z‖ = 1 ∧ ∀ o,
      ‖circOp c.nQubits out o - z • circOp c.nQubits c.stmts o‖ ≤ (gateCount c.stmts : ℝ) * kappa K atol := by
  obtain ⟨hok, hgwf⟩ := Circuit.opOK_of_wf c hwf hU
  obtain ⟨k, -, h1, -, z, hz, H⟩ := decompose_band_sum atol hatol c.nQubits d c.stmts hok hgwf hrepl
  rw [hrun] at h1 H
  have hk := h1 rfl
  subst hk
  refine ⟨z, hz, fun o => le_trans (H o) ?_⟩
  rw [List.take_length]
  exact bandOf_sum_le atol hatol.le K c.stmts hK

/-- the accepted answers of a decomposer that only returns `Gate.Unitary` gates with distinct operands are unitary
    on the register (the check guarantees that they stay on the qubits of the replaced gate) -/
theorem accepted_unitary_of_syntactic (atol : ℝ) (n : Nat) (g : Gate ℝ) (repl : List (GStmt ℝ)) (hwf : GateWF n g)
    (hsyn : ∀ x ∈ repl, x.1.operands.Nodup ∧ x.1.Unitary)
    (hc : checkGateReplacement atol g (repl.map (·.1)) = none) :
    circOp n (gateStmts (repl.map (·.1))) [] ∈ Matrix.unitaryGroup (Fin (2 ^ n)) ℂ := by
  obtain ⟨hloc, -⟩ := checkGateReplacement_none_local atol g _ hc
  apply circOp_gateStmts_unitary
  intro r hr
  obtain ⟨x, hx, rfl⟩ := List.mem_map.mp hr
  exact gateOp_unitary n x.1 ⟨(hsyn x hx).1, fun q hq => hwf.2 q (hloc _ hr q hq)⟩ (hsyn x hx).2

/-- **Main theorem, syntactic hypothesis on the decomposer**: every gate it returns *for a gate of the circuit* has
    distinct operands, unit rotation axes and unitary matrix nodes (what the constructors `mkBSR`, `mkCtrl` guarantee; `mkMatrix` does not
    check unitarity). -/
theorem decompose_ok_band_syntactic (atol : ℝ) (hatol : 0 < atol)
    (d : Nat → GStmt ℝ → Except Err (List (GStmt ℝ))) (c : Circuit ℝ) (out : List (Stmt ℝ)) (K : Nat)
    (hwf : c.wf = true) (hU : ∀ g nm, Stmt.gate g nm ∈ c.stmts → g.Unitary)
    (hK : ∀ g nm, Stmt.gate g nm ∈ c.stmts → g.operands.length ≤ K)
    (hd : ∀ k g nm repl, c.stmts[k]? = some (.gate g nm) → d (gateIdx c.stmts k) (g, nm) = .ok repl →
      ∀ x ∈ repl, x.1.operands.Nodup ∧ x.1.Unitary)
    (hrun : decompose atol d c.stmts = (out, none)) :
    ∃ z : ℂ, ‖z‖ = 1 ∧ ∀ o,
      ‖circOp c.nQubits out o - z • circOp c.nQubits c.stmts o‖ ≤ (gateCount c.stmts : ℝ) * kappa K atol := by
  apply decompose_ok_band atol hatol d c out K hwf hU hK _ hrun
  intro k g nm repl hs hdk hc
  exact accepted_unitary_of_syntactic atol c.nQubits g repl
    ((Circuit.opOK_of_wf c hwf hU).2 g nm (List.mem_of_getElem? hs)) (hd k g nm repl hs hdk) hc

/-- the built-in decomposers (`Decomposer.run`), same hypothesis on what they return -/
theorem decomposeBuiltin_ok_band (atol : ℝ) (hatol : 0 < atol) (dc : Decomposer) (c : Circuit ℝ)
    (out : List (Stmt ℝ)) (K : Nat) (hwf : c.wf = true)
    (hU : ∀ g nm, Stmt.gate g nm ∈ c.stmts → g.Unitary)
    (hK : ∀ g nm, Stmt.gate g nm ∈ c.stmts → g.operands.length ≤ K)
    (hd : ∀ g nm repl, Stmt.gate g nm ∈ c.stmts → dc.run atol (g, nm) = .ok repl →
      ∀ x ∈ repl, x.1.operands.Nodup ∧ x.1.Unitary)
    (hrun : decomposeBuiltin atol dc c.stmts = (out, none)) :
    ∃ z : ℂ, ‖z‖ = 1 ∧ ∀ o,
      ‖circOp c.nQubits out o - z • circOp c.nQubits c.stmts o‖ ≤ (gateCount c.stmts : ℝ) * kappa K atol := by
  apply decompose_ok_band atol hatol (fun _ g => dc.run atol g) c out K hwf hU hK _ hrun
  intro k g nm repl hs hdk hc
  exact accepted_unitary_of_syntactic atol c.nQubits g repl
    ((Circuit.opOK_of_wf c hwf hU).2 g nm (List.mem_of_getElem? hs))
    (hd g nm repl (List.mem_of_getElem? hs) hdk) hc

/-! ## 4. Failure -/

/-- **`decompose_fail_band`**: if the pass stops with the error `e`, it stopped at a gate statement (list position
    `k`, the `gateIdx c.stmts k`-th gate) that was refused, and the IR left behind (replaced prefix + untouched rest,
    `decompose_fail_prefix`) is within `G' · κ(K)` of the original with `G' = gateIdx c.stmts k` the number of gates
    replaced before the stop. -/
theorem decompose_fail_band (atol : ℝ) (hatol : 0 < atol) (d : Nat → GStmt ℝ → Except Err (List (GStmt ℝ)))
    (c : Circuit ℝ) (out : List (Stmt ℝ)) (e : Err) (K : Nat) (hwf : c.wf = true)
    (hU : ∀ g nm, Stmt.gate g nm ∈ c.stmts → g.Unitary)
    (hK : ∀ g nm, Stmt.gate g nm ∈ c.stmts → g.operands.length ≤ K)
    (hrepl : ∀ k g nm repl, c.stmts[k]? = some (.gate g nm) → d (gateIdx c.stmts k) (g, nm) = .ok repl →
      checkGateReplacement atol g (repl.map (·.1)) = none →
      circOp c.nQubits (gateStmts (repl.map (·.1))) [] ∈ Matrix.unitaryGroup (Fin (2 ^ c.nQubits)) ℂ)
    (hrun : decompose atol d c.stmts = (out, some e)) :
    ∃ k g nm, c.stmts[k]? = some (.gate g nm) ∧ Rejects atol d (gateIdx c.stmts k) (.gate g nm) e ∧
      ∃ z : ℂ, ‖z‖ = 1 ∧ ∀ o,
        ‖circOp c.nQubits out o - z • circOp c.nQubits c.stmts o‖ ≤ (gateIdx c.stmts k : ℝ) * kappa K atol := by
  obtain ⟨hok, hgwf⟩ := Circuit.opOK_of_wf c hwf hU
  obtain ⟨k, -, -, h2, z, hz, H⟩ := decompose_band_sum atol hatol c.nQubits d c.stmts hok hgwf hrepl
  rw [hrun] at h2 H
  obtain ⟨g, nm, hs, hr⟩ := h2 e rfl
  refine ⟨k, g, nm, hs, hr, z, hz, fun o => le_trans (H o) ?_⟩
  exact bandOf_sum_le atol hatol.le K (c.stmts.take k)
    (fun g' nm' hm => hK g' nm' (List.mem_of_mem_take hm))

/-! ## 5. `replace` -/

/-- budget of `replace`: only the named gates called `name` are charged -/
noncomputable def bandOfNamed (atol : ℝ) (name : String) (s : Stmt ℝ) : ℝ :=
  if matchesName name s then bandOf atol s else 0

/-- **`replace`, any run, sharp budget** (statement level). -/
theorem replace_band_sum (atol : ℝ) (hatol : 0 < atol) (n : Nat) (name : String)
    (f : Nat → List (Arg ℝ) → Except Err (List (GStmt ℝ))) (stmts : List (Stmt ℝ))
    (hok : ∀ s ∈ stmts, s.OpOK n)
    (hwf : ∀ g nm, Stmt.gate g (some nm) ∈ stmts → nm.name = name → GateWF n g)
    (hrepl : ∀ k g nm repl, stmts[k]? = some (.gate g (some nm)) → nm.name = name →
      f (matchIdx name stmts k) nm.args = .ok repl → checkGateReplacement atol g (repl.map (·.1)) = none →
      circOp n (gateStmts (repl.map (·.1))) [] ∈ Matrix.unitaryGroup (Fin (2 ^ n)) ℂ) :
    ∃ k, k ≤ stmts.length ∧
      ((replace atol name f stmts).2 = none → k = stmts.length) ∧
      (∀ e, (replace atol name f stmts).2 = some e → RRejectsAt atol name f stmts k e) ∧
      ∃ z : ℂ, ‖z‖ = 1 ∧ ∀ o,
        ‖circOp n (replace atol name f stmts).1 o - z • circOp n stmts o‖
          ≤ ((stmts.take k).map (bandOfNamed atol name)).sum := by
  rw [replace_eq_genLoop]
  have hkeep : ∀ k g nm, spliceChunk (genericReplacer name f) (ctrAt (matchesName name) 0 stmts k) (.gate g nm)
      ≠ [.gate g nm] → ∃ n', nm = some n' ∧ n'.name = name ∧ matchesName name (.gate g nm) = true := by
    intro k g nm hne
    rcases matchesName_cases name g nm with h | h
    · exact h
    · exact absurd (replace_only_named name f _ _ h) hne
  obtain ⟨k, hk, h1, h2, h3⟩ := DBand.genLoop_verdict_band atol hatol n (genericReplacer name f)
    (matchesName name) (bandOfNamed atol name) stmts
    (fun s _ => by unfold bandOfNamed; split; exacts [bandOf_nonneg hatol.le s, le_refl _]) hok
    (by
      intro k g nm hs hne
      obtain ⟨n', rfl, hn, -⟩ := hkeep k g nm hne
      exact hwf g n' (List.mem_of_getElem? hs) hn)
    (by
      intro k g nm repl hs hd hc
      rcases matchesName_cases name g nm with ⟨n', rfl, hn, -⟩ | hm
      · rw [genericReplacer_match name f _ g n' hn, ctrAt_matchIdx] at hd
        exact hrepl k g n' repl hs hn hd hc
      · rw [genericReplacer_other name f _ g nm hm] at hd
        cases hd
        have : circOp n (gateStmts ([(g, nm)].map (·.1))) [] = gateOp n g := by simp [gateStmts]
        rw [this]
        exact hok _ (List.mem_of_getElem? hs) g nm rfl)
    (by
      intro k g nm _ hne
      obtain ⟨n', rfl, -, hm⟩ := hkeep k g nm hne
      simp [bandOfNamed, hm, bandOf])
  refine ⟨k, hk, h1, ?_, h3⟩
  intro e he
  exact (rRejectsAt_iff atol name f stmts k e).mp ((errAt_rverdict_iff atol name f stmts k e).mp (h2 e he))

theorem bandOfNamed_sum_le (atol : ℝ) (hatol : 0 ≤ atol) (name : String) (K : Nat) (l : List (Stmt ℝ))
    (hK : ∀ g nm, Stmt.gate g (some nm) ∈ l → nm.name = name → g.operands.length ≤ K) :
    (l.map (bandOfNamed atol name)).sum ≤ (l.countP (matchesName name) : ℝ) * kappa K atol := by
  apply DBand.sum_map_le_countP
  intro s hs
  unfold bandOfNamed
  by_cases hm : matchesName name s = true
  · obtain ⟨g, n', rfl, hn⟩ := (matchesName_true_iff name s).mp hm
    simpa [hm, bandOf] using kappa_mono (hK g n' hs hn) hatol
  · simp [hm]

/-- **`replace_ok_band`**: `replace atol name f c.stmts = (out, none)` ⇒ one unit `z`, all outcome lists:
    `‖circOp out o − z • circOp c.stmts o‖ ≤ G · κ(K, atol)` with `G` the number of named gates called `name`
    (the only ones rewritten), each on at most `K` qubits.  `f` is ANY user rule whose accepted answers are unitary. -/
theorem replace_ok_band (atol : ℝ) (hatol : 0 < atol) (name : String)
    (f : Nat → List (Arg ℝ) → Except Err (List (GStmt ℝ))) (c : Circuit ℝ) (out : List (Stmt ℝ)) (K : Nat)
    (hwf : c.wf = true) (hU : ∀ g nm, Stmt.gate g nm ∈ c.stmts → g.Unitary)
    (hK : ∀ g nm, Stmt.gate g (some nm) ∈ c.stmts → nm.name = name → g.operands.length ≤ K)
    (hrepl : ∀ k g nm repl, c.stmts[k]? = some (.gate g (some nm)) → nm.name = name →
      f (matchIdx name c.stmts k) nm.args = .ok repl → checkGateReplacement atol g (repl.map (·.1)) = none →
      circOp c.nQubits (gateStmts (repl.map (·.1))) [] ∈ Matrix.unitaryGroup (Fin (2 ^ c.nQubits)) ℂ)
    (hrun : replace atol name f c.stmts = (out, none)) :
    ∃ z : ℂ, ‖z‖ = 1 ∧ ∀ o,
      ‖circOp c.nQubits out o - z • circOp c.nQubits c.stmts o‖
        ≤ (c.stmts.countP (matchesName name) : ℝ) * kappa K atol := by
  obtain ⟨hok, hgwf⟩ := Circuit.opOK_of_wf c hwf hU
  obtain ⟨k, -, h1, -, z, hz, H⟩ := replace_band_sum atol hatol c.nQubits name f c.stmts hok
    (fun g nm hm _ => hgwf g (some nm) hm) hrepl
  rw [hrun] at h1 H
  have hk := h1 rfl
  subst hk
  refine ⟨z, hz, fun o => le_trans (H o) ?_⟩
  rw [List.take_length]
  exact bandOfNamed_sum_le atol hatol.le name K c.stmts hK

/-- … and when `replace` stops with an error: `G' = matchIdx name c.stmts k` rewritten gates before the stop -/
theorem replace_fail_band (atol : ℝ) (hatol : 0 < atol) (name : String)
    (f : Nat → List (Arg ℝ) → Except Err (List (GStmt ℝ))) (c : Circuit ℝ) (out : List (Stmt ℝ)) (e : Err)
    (K : Nat) (hwf : c.wf = true) (hU : ∀ g nm, Stmt.gate g nm ∈ c.stmts → g.Unitary)
    (hK : ∀ g nm, Stmt.gate g (some nm) ∈ c.stmts → nm.name = name → g.operands.length ≤ K)
    (hrepl : ∀ k g nm repl, c.stmts[k]? = some (.gate g (some nm)) → nm.name = name →
      f (matchIdx name c.stmts k) nm.args = .ok repl → checkGateReplacement atol g (repl.map (·.1)) = none →
      circOp c.nQubits (gateStmts (repl.map (·.1))) [] ∈ Matrix.unitaryGroup (Fin (2 ^ c.nQubits)) ℂ)
    (hrun : replace atol name f c.stmts = (out, some e)) :
    ∃ k, RRejectsAt atol name f c.stmts k e ∧
      ∃ z : ℂ, ‖z‖ = 1 ∧ ∀ o,
        ‖circOp c.nQubits out o - z • circOp c.nQubits c.stmts o‖
          ≤ (matchIdx name c.stmts k : ℝ) * kappa K atol := by
  obtain ⟨hok, hgwf⟩ := Circuit.opOK_of_wf c hwf hU
  obtain ⟨k, -, -, h2, z, hz, H⟩ := replace_band_sum atol hatol c.nQubits name f c.stmts hok
    (fun g nm hm _ => hgwf g (some nm) hm) hrepl
  rw [hrun] at h2 H
  refine ⟨k, h2 e rfl, z, hz, fun o => le_trans (H o) ?_⟩
  exact bandOfNamed_sum_le atol hatol.le name K (c.stmts.take k)
    (fun g' nm' hm hn => hK g' nm' (List.mem_of_mem_take hm) hn)

/-! ## 6. No hypothesis on the accepted answers

With the measured phase normalised, `check_gate_replacement` itself bounds the distance of an accepted replacement
from the replaced (unitary) gate: `checkGateReplacement_band_op_left`, constant `κ_L(k, atol) = 2^k·(atol + leftSlack atol)`.
The replacement need not be a contraction any more (`‖R‖ ≤ 1 + κ_L`), so the telescoping sum becomes a product:
`Π (1 + κ_L) − 1` instead of `Σ κ`. -/

/-- the budget of one statement when nothing is assumed about the replacements -/
noncomputable def bandOfL (atol : ℝ) : Stmt ℝ → ℝ
  | .gate g _ => kappaL g.operands.length atol
  | _ => 0

theorem bandOfL_nonneg {atol : ℝ} (h : 0 ≤ atol) (s : Stmt ℝ) : 0 ≤ bandOfL atol s := by
  cases s <;> simp [bandOfL, kappaL_nonneg _ h]

namespace DBand

/-- one step of the telescoping product: `‖X'‖ ≤ P`, `‖G‖ ≤ 1`, `‖w‖ = 1` -/
theorem telescope_step_prod {n : Nat} (X' X R G : Op n) (w z : ℂ) (P δ ε : ℝ) (hw : ‖w‖ = 1)
    (hX' : ‖X'‖ ≤ P) (hG : ‖G‖ ≤ 1) (hR : ‖R - w • G‖ ≤ δ) (hX : ‖X' - z • X‖ ≤ ε) :
    ‖X' * R - (w * z) • (X * G)‖ ≤ P * δ + ε := by
  have e : X' * R - (w * z) • (X * G) = X' * (R - w • G) + w • ((X' - z • X) * G) := by
    rw [mul_sub, sub_mul, Matrix.mul_smul, Matrix.smul_mul, smul_sub, smul_smul]
    abel
  rw [e]
  refine le_trans (norm_add_le _ _) ?_
  have hδ : 0 ≤ δ := le_trans (norm_nonneg _) hR
  have hε : 0 ≤ ε := le_trans (norm_nonneg _) hX
  have hP : 0 ≤ P := le_trans (norm_nonneg _) hX'
  have h1 : ‖X' * (R - w • G)‖ ≤ P * δ :=
    le_trans (norm_mul_le _ _) (mul_le_mul hX' hR (norm_nonneg _) hP)
  have h2 : ‖w • ((X' - z • X) * G)‖ ≤ ε := by
    rw [norm_smul, hw, one_mul]
    refine le_trans (norm_mul_le _ _) ?_
    calc ‖X' - z • X‖ * ‖G‖ ≤ ε * 1 := mul_le_mul hX hG (norm_nonneg _) hε
      _ = ε := mul_one ε
  linarith

/-- **Telescoping product over the specification of the generic loop**: as `genSpec_band`, but the chunks need not be
    contractions. -/
theorem genSpec_band_prod (n : Nat) (c : Nat → Stmt ℝ → List (Stmt ℝ)) (bump : Stmt ℝ → Bool) (δ : Stmt ℝ → ℝ)
    (i : Nat) (l : List (Stmt ℝ)) (hδ : ∀ s ∈ l, 0 ≤ δ s) (hok : ∀ s ∈ l, s.OpOK n)
    (h : ∀ k s, l[k]? = some s →
      c (ctrAt bump i l k) s = [s] ∨
      ∃ (g : Gate ℝ) (nm : Option (Named ℝ)) (r : List (Stmt ℝ)) (w : ℂ), s = .gate g nm ∧
        c (ctrAt bump i l k) s = r ∧ (∀ x ∈ r, x.isGate = true) ∧ ‖w‖ = 1 ∧
        ‖circOp n r [] - w • gateOp n g‖ ≤ δ s) :
    ∃ z : ℂ, ‖z‖ = 1 ∧ nOutcomes (genSpec c bump i l) = nOutcomes l ∧
      ∀ o, ‖circOp n (genSpec c bump i l) o‖ ≤ (l.map fun s => 1 + δ s).prod ∧
        ‖circOp n (genSpec c bump i l) o - z • circOp n l o‖ ≤ (l.map fun s => 1 + δ s).prod - 1 := by
  induction l generalizing i with
  | nil =>
    refine ⟨1, norm_one, rfl, fun o => ⟨?_, ?_⟩⟩
    · simp only [genSpec, circOp_nil, List.map_nil, List.prod_nil]; exact opNorm_unitary_le (one_mem _)
    · simp [genSpec]
  | cons s rest ih =>
    obtain ⟨z, hz, hno, H⟩ := ih (i + (bump s).toNat)
      (fun x hx => hδ x (List.mem_cons_of_mem _ hx)) (fun x hx => hok x (List.mem_cons_of_mem _ hx)) (by
        intro k s' hk
        have := h (k + 1) s' (by simpa using hk)
        rwa [ctrAt_succ] at this)
    have h0 := h 0 s (by simp)
    rw [ctrAt_zero] at h0
    have hs0 : 0 ≤ δ s := hδ s List.mem_cons_self
    simp only [genSpec, List.map_cons, List.prod_cons]
    set P := (rest.map fun s => 1 + δ s).prod with hPdef
    rcases h0 with h0 | ⟨g, nm, r, w, rfl, hc, hr, hw, hrδ⟩
    · rw [h0]
      refine ⟨z, hz, ?_, fun o => ?_⟩
      · simp only [List.singleton_append, nOutcomes_cons, hno]
      · simp only [List.singleton_append]
        rw [circOp_cons', circOp_cons']
        obtain ⟨H1, H2⟩ := H (o.drop (nOutcomes [s]))
        have hS := stmtOp_norm_le n s (hok s List.mem_cons_self) (o.headD false)
        have hP : 0 ≤ P := le_trans (norm_nonneg _) H1
        have hgrow : P ≤ (1 + δ s) * P := by nlinarith
        constructor
        · refine le_trans (norm_mul_le _ _) ?_
          calc _ ≤ P * 1 := mul_le_mul H1 hS (norm_nonneg _) hP
            _ ≤ (1 + δ s) * P := by linarith
        · rw [← Matrix.smul_mul, ← sub_mul]
          refine le_trans (norm_mul_le _ _) ?_
          have hε : 0 ≤ P - 1 := le_trans (norm_nonneg _) H2
          calc _ ≤ (P - 1) * 1 := mul_le_mul H2 hS (norm_nonneg _) hε
            _ ≤ (1 + δ s) * P - 1 := by linarith
    · rw [hc]
      refine ⟨w * z, by rw [norm_mul, hw, hz, one_mul], ?_, fun o => ?_⟩
      · rw [nOutcomes_append, nOutcomes_of_gates r hr, hno, nOutcomes_cons]
        simp [Stmt.hasOutcome]
      · rw [circOp_append, nOutcomes_of_gates r hr, List.drop_zero, List.take_zero, circOp_gate]
        obtain ⟨H1, H2⟩ := H o
        have hG : ‖gateOp n g‖ ≤ 1 := opNorm_unitary_le (hok _ List.mem_cons_self g nm rfl)
        have hP : 0 ≤ P := le_trans (norm_nonneg _) H1
        have hR : ‖circOp n r []‖ ≤ 1 + δ (.gate g nm) := by
          have e : circOp n r [] = (circOp n r [] - w • gateOp n g) + w • gateOp n g := by abel
          rw [e]
          refine le_trans (norm_add_le _ _) ?_
          rw [norm_smul, hw, one_mul]
          linarith
        constructor
        · refine le_trans (norm_mul_le _ _) ?_
          calc _ ≤ P * (1 + δ (.gate g nm)) := mul_le_mul H1 hR (norm_nonneg _) hP
            _ = (1 + δ (.gate g nm)) * P := mul_comm _ _
        · have := telescope_step_prod _ _ _ _ w z P _ _ hw H1 hG hrδ H2
          linarith

/-- the chunk hypothesis of `genSpec_band_prod` for the loop body `verdict atol d`, from acceptance at every position —
    NO hypothesis on what the decomposer returns -/
theorem verdict_chunks_nohyp (atol : ℝ) (hatol : 0 < atol) (n : Nat)
    (d : Nat → GStmt ℝ → Except Err (List (GStmt ℝ))) (bump : Stmt ℝ → Bool) (δ : Stmt ℝ → ℝ) (i : Nat)
    (l : List (Stmt ℝ)) (hok : ∀ s ∈ l, s.OpOK n)
    (hwf : ∀ k g nm, l[k]? = some (.gate g nm) →
      spliceChunk d (ctrAt bump i l k) (.gate g nm) ≠ [.gate g nm] → GateWF n g)
    (hacc : ∀ k, OkAt (verdict atol d) bump i l k)
    (hδ : ∀ k g nm, l[k]? = some (.gate g nm) →
      spliceChunk d (ctrAt bump i l k) (.gate g nm) ≠ [.gate g nm] → kappaL g.operands.length atol ≤ δ (.gate g nm))
    (k : Nat) (s : Stmt ℝ) (hs : l[k]? = some s) :
    spliceChunk d (ctrAt bump i l k) s = [s] ∨
      ∃ (g : Gate ℝ) (nm : Option (Named ℝ)) (r : List (Stmt ℝ)) (w : ℂ), s = .gate g nm ∧
        spliceChunk d (ctrAt bump i l k) s = r ∧ (∀ x ∈ r, x.isGate = true) ∧ ‖w‖ = 1 ∧
        ‖circOp n r [] - w • gateOp n g‖ ≤ δ s := by
  by_cases hch : spliceChunk d (ctrAt bump i l k) s = [s]
  · exact Or.inl hch
  · right
    cases s with
    | gate g nm =>
      obtain ⟨r, hr⟩ := hacc k _ hs
      have hacc' : Accepts atol d (ctrAt bump i l k) (.gate g nm) := (verdict_ok_iff atol d _ _).mp ⟨r, hr⟩
      obtain ⟨repl, hd, hc⟩ := hacc' g nm rfl
      have hmem : Stmt.gate g nm ∈ l := List.mem_of_getElem? hs
      have hchunk : spliceChunk d (ctrAt bump i l k) (.gate g nm) = repl.map GStmt.toStmt := by
        simp [spliceChunk, hd]
      obtain ⟨z, hz, H⟩ := checkGateReplacement_band_op_left atol hatol n g _ (hwf k g nm hs hch)
        (hok _ hmem g nm rfl) hc
      have hz0 : z ≠ 0 := ne_zero_of_norm_one hz
      refine ⟨g, nm, _, z⁻¹, rfl, hchunk, map_toStmt_isGate repl, norm_inv_of_norm_one hz, ?_⟩
      rw [circOp_map_toStmt]
      have e : circOp n (gateStmts (repl.map (·.1))) [] - z⁻¹ • gateOp n g
          = (-z⁻¹) • (gateOp n g - z • circOp n (gateStmts (repl.map (·.1))) []) := by
        rw [smul_sub, smul_smul, neg_mul, inv_mul_cancel₀ hz0]
        module
      rw [e, norm_smul, norm_neg, norm_inv, hz, inv_one, one_mul]
      exact le_trans H (hδ k g nm hs hch)
    | measure q b ax nm => exact absurd rfl hch
    | reset q nm => exact absurd rfl hch
    | comment c => exact absurd rfl hch

/-- **The generic driver, no hypothesis on the replacements**: whatever the run does, the IR it leaves is within
    `Π (1 + δ) − 1` (over the processed prefix) of the original, up to one unit phase, for every outcome assignment. -/
theorem genLoop_verdict_band_nohyp (atol : ℝ) (hatol : 0 < atol) (n : Nat)
    (d : Nat → GStmt ℝ → Except Err (List (GStmt ℝ))) (bump : Stmt ℝ → Bool) (δ : Stmt ℝ → ℝ)
    (l : List (Stmt ℝ)) (hδ0 : ∀ s ∈ l, 0 ≤ δ s) (hok : ∀ s ∈ l, s.OpOK n)
    (hwf : ∀ k g nm, l[k]? = some (.gate g nm) →
      spliceChunk d (ctrAt bump 0 l k) (.gate g nm) ≠ [.gate g nm] → GateWF n g)
    (hδ : ∀ k g nm, l[k]? = some (.gate g nm) →
      spliceChunk d (ctrAt bump 0 l k) (.gate g nm) ≠ [.gate g nm] → kappaL g.operands.length atol ≤ δ (.gate g nm)) :
    ∃ k, k ≤ l.length ∧
      ((genLoop (verdict atol d) bump 0 [] l).2 = none → k = l.length) ∧
      (∀ e, (genLoop (verdict atol d) bump 0 [] l).2 = some e → ErrAt (verdict atol d) bump 0 l k e) ∧
      ∃ z : ℂ, ‖z‖ = 1 ∧ ∀ o,
        ‖circOp n (genLoop (verdict atol d) bump 0 [] l).1 o - z • circOp n l o‖
          ≤ ((l.take k).map fun s => 1 + δ s).prod - 1 := by
  rcases genLoop_total (verdict atol d) bump (spliceChunk d) (verdict_chunk atol d) l 0 []
    with ⟨hall, hres⟩ | ⟨k, e, hpre, herr, hres⟩
  · refine ⟨l.length, le_refl _, fun _ => rfl, ?_, ?_⟩
    · intro e he; rw [hres] at he; cases he
    · obtain ⟨z, hz, -, H⟩ := genSpec_band_prod n (spliceChunk d) bump δ 0 l hδ0 hok
        (verdict_chunks_nohyp atol hatol n d bump δ 0 l hok hwf hall hδ)
      refine ⟨z, hz, fun o => ?_⟩
      rw [hres, List.take_length]
      simpa using (H o).2
  · have hk : k < l.length := errAt_lt herr
    have hsub : ∀ s ∈ l.take k, s ∈ l := fun s hs => List.mem_of_mem_take hs
    have hget : ∀ j s, (l.take k)[j]? = some s → j < k ∧ l[j]? = some s := by
      intro j s hs
      have hjk : j < k := by
        have := (List.getElem?_eq_some_iff.1 hs).1
        rw [List.length_take] at this
        omega
      exact ⟨hjk, by rwa [List.getElem?_take_of_lt hjk] at hs⟩
    have hctr : ∀ j, j < k → ctrAt bump 0 (l.take k) j = ctrAt bump 0 l j := by
      intro j hjk
      simp only [ctrAt, List.take_take, Nat.min_eq_left (Nat.le_of_lt hjk)]
    obtain ⟨z, hz, hno, H⟩ := genSpec_band_prod n (spliceChunk d) bump δ 0 (l.take k)
      (fun s hs => hδ0 s (hsub s hs)) (fun s hs => hok s (hsub s hs))
      (verdict_chunks_nohyp atol hatol n d bump δ 0 (l.take k) (fun s hs => hok s (hsub s hs))
        (by
          intro j g nm hj hne
          obtain ⟨hjk, hj'⟩ := hget j _ hj
          rw [hctr j hjk] at hne
          exact hwf j g nm hj' hne) (okAt_take _ _ _ _ _ hpre)
        (by
          intro j g nm hj hne
          obtain ⟨hjk, hj'⟩ := hget j _ hj
          rw [hctr j hjk] at hne
          exact hδ j g nm hj' hne))
    refine ⟨k, hk.le, ?_, ?_, z, hz, fun o => ?_⟩
    · intro he; rw [hres] at he; cases he
    · intro e' he'
      rw [hres] at he'
      cases he'
      exact herr
    · rw [hres]
      simp only [List.reverse_nil, List.nil_append]
      have := band_append_right n (l.take k) (genSpec (spliceChunk d) bump 0 (l.take k)) (l.drop k) z
        (((l.take k).map fun s => 1 + δ s).prod - 1) (fun s hs => hok s (List.mem_of_mem_drop hs)) hno
        (fun o => (H o).2) o
      rwa [List.take_append_drop] at this

/-- a product of per-statement growth factors is at most `(1 + C)^(number of charged statements)` -/
theorem prod_map_le_pow (δ : Stmt ℝ → ℝ) (P : Stmt ℝ → Bool) (C : ℝ) (hC : 0 ≤ C) (l : List (Stmt ℝ))
    (h0 : ∀ s ∈ l, 0 ≤ δ s) (h : ∀ s ∈ l, δ s ≤ if P s then C else 0) :
    (l.map fun s => 1 + δ s).prod ≤ (1 + C) ^ l.countP P := by
  induction l with
  | nil => simp
  | cons s rest ih =>
    have h1 := h s List.mem_cons_self
    have h01 := h0 s List.mem_cons_self
    have h2 := ih (fun x hx => h0 x (List.mem_cons_of_mem _ hx)) (fun x hx => h x (List.mem_cons_of_mem _ hx))
    have hp : 0 ≤ (rest.map fun s => 1 + δ s).prod :=
      List.prod_nonneg (by
        intro a ha
        obtain ⟨x, hx, rfl⟩ := List.mem_map.mp ha
        have := h0 x (List.mem_cons_of_mem _ hx)
        linarith)
    rw [List.map_cons, List.prod_cons, List.countP_cons]
    by_cases hps : P s = true
    · simp only [hps, if_true] at h1 ⊢
      rw [pow_succ, mul_comm ((1 + C) ^ _)]
      exact mul_le_mul (by linarith) h2 hp (by linarith)
    · simp only [hps, if_false, Bool.false_eq_true] at h1 ⊢
      have : δ s = 0 := le_antisymm h1 h01
      rw [this, add_zero, one_mul, Nat.add_zero]
      exact h2

end DBand

/-- **`decompose`, any run, NO hypothesis on the decomposer** (statement level): the IR the pass leaves is within
    `Π_{gates replaced} (1 + κ_L(#operands g, atol)) − 1` of the original, up to ONE unit phase, for ALL outcome
    assignments. -/
theorem decompose_band_prod (atol : ℝ) (hatol : 0 < atol) (n : Nat)
    (d : Nat → GStmt ℝ → Except Err (List (GStmt ℝ))) (stmts : List (Stmt ℝ))
    (hok : ∀ s ∈ stmts, s.OpOK n) (hwf : ∀ g nm, Stmt.gate g nm ∈ stmts → GateWF n g) :
    ∃ k, k ≤ stmts.length ∧
      ((decompose atol d stmts).2 = none → k = stmts.length) ∧
      (∀ e, (decompose atol d stmts).2 = some e →
        ∃ g nm, stmts[k]? = some (.gate g nm) ∧ Rejects atol d (gateIdx stmts k) (.gate g nm) e) ∧
      ∃ z : ℂ, ‖z‖ = 1 ∧ ∀ o,
        ‖circOp n (decompose atol d stmts).1 o - z • circOp n stmts o‖
          ≤ ((stmts.take k).map fun s => 1 + bandOfL atol s).prod - 1 := by
  rw [decompose_eq_genLoop]
  obtain ⟨k, hk, h1, h2, h3⟩ := DBand.genLoop_verdict_band_nohyp atol hatol n d Stmt.isGate (bandOfL atol) stmts
    (fun s _ => bandOfL_nonneg hatol.le s) hok (fun k g nm hs _ => hwf g nm (List.mem_of_getElem? hs))
    (fun k g nm _ _ => le_refl _)
  refine ⟨k, hk, h1, ?_, h3⟩
  intro e he
  obtain ⟨s, hs, hr⟩ := (errAt_verdict_iff atol d stmts k e).mp (h2 e he)
  obtain ⟨g, nm, rfl, _⟩ := id hr
  exact ⟨g, nm, hs, hr⟩

theorem bandOfL_prod_le (atol : ℝ) (hatol : 0 ≤ atol) (K : Nat) (l : List (Stmt ℝ))
    (hK : ∀ g nm, Stmt.gate g nm ∈ l → g.operands.length ≤ K) :
    (l.map fun s => 1 + bandOfL atol s).prod ≤ (1 + kappaL K atol) ^ gateCount l := by
  apply DBand.prod_map_le_pow _ _ _ (kappaL_nonneg K hatol) _ (fun s _ => bandOfL_nonneg hatol s)
  intro s hs
  cases s with
  | gate g nm => simpa [bandOfL, Stmt.isGate] using kappaL_mono (hK g nm hs) hatol
  | measure q b ax nm => simp [bandOfL, Stmt.isGate]
  | reset q nm => simp [bandOfL, Stmt.isGate]
  | comment c => simp [bandOfL, Stmt.isGate]

/-- **Main theorem without any hypothesis on the decomposer (C06/C01/C05, tolerance level).**
    `c` a well-formed circuit whose gates are `Gate.Unitary` and act on at most `K` qubits; `d` ANY function (it may
    answer `MatrixGate`s with arbitrary matrices); `atol > 0`.  If `decompose atol d c.stmts = (out, none)` then for one
    unit `z` and all outcome lists `o`:
        `‖circOp out o − z • circOp c.stmts o‖ ≤ (1 + κ_L(K, atol))^G − 1`,   `G = gateCount c.stmts`,
    `κ_L(K, atol) = 2^K·(atol + 1e-5·(1 + atol)/(1 − 1e-5))` (`≈ G·κ_L` for `G·κ_L ≪ 1`).  The unitarity hypothesis
    `hrepl` of `decompose_ok_band` on the accepted answers is not needed any more: the check itself (unit measured
    phase) keeps every accepted replacement within `κ_L` of the unitary gate it replaces. -/
theorem decompose_ok_band_nohyp (atol : ℝ) (hatol : 0 < atol) (d : Nat → GStmt ℝ → Except Err (List (GStmt ℝ)))
    (c : Circuit ℝ) (out : List (Stmt ℝ)) (K : Nat) (hwf : c.wf = true)
    (hU : ∀ g nm, Stmt.gate g nm ∈ c.stmts → g.Unitary)
    (hK : ∀ g nm, Stmt.gate g nm ∈ c.stmts → g.operands.length ≤ K)
    (hrun : decompose atol d c.stmts = (out, none)) :
    ∃ z : ℂ, ‖z‖ = 1 ∧ ∀ o,
      ‖circOp c.nQubits out o - z • circOp c.nQubits c.stmts o‖
        ≤ (1 + kappaL K atol) ^ gateCount c.stmts - 1 := by
  obtain ⟨hok, hgwf⟩ := Circuit.opOK_of_wf c hwf hU
  obtain ⟨k, -, h1, -, z, hz, H⟩ := decompose_band_prod atol hatol c.nQubits d c.stmts hok hgwf
  rw [hrun] at h1 H
  have hk := h1 rfl
  subst hk
  refine ⟨z, hz, fun o => le_trans (H o) ?_⟩
  rw [List.take_length]
  have := bandOfL_prod_le atol hatol.le K c.stmts hK
  linarith

/-- … and when the pass stops with an error: `G' = gateIdx c.stmts k` gates replaced before the stop -/
theorem decompose_fail_band_nohyp (atol : ℝ) (hatol : 0 < atol) (d : Nat → GStmt ℝ → Except Err (List (GStmt ℝ)))
    (c : Circuit ℝ) (out : List (Stmt ℝ)) (e : Err) (K : Nat) (hwf : c.wf = true)
    (hU : ∀ g nm, Stmt.gate g nm ∈ c.stmts → g.Unitary)
    (hK : ∀ g nm, Stmt.gate g nm ∈ c.stmts → g.operands.length ≤ K)
    (hrun : decompose atol d c.stmts = (out, some e)) :
    ∃ k g nm, c.stmts[k]? = some (.gate g nm) ∧ Rejects atol d (gateIdx c.stmts k) (.gate g nm) e ∧
      ∃ z : ℂ, ‖z‖ = 1 ∧ ∀ o,
        ‖circOp c.nQubits out o - z • circOp c.nQubits c.stmts o‖
          ≤ (1 + kappaL K atol) ^ gateIdx c.stmts k - 1 := by
  obtain ⟨hok, hgwf⟩ := Circuit.opOK_of_wf c hwf hU
  obtain ⟨k, -, -, h2, z, hz, H⟩ := decompose_band_prod atol hatol c.nQubits d c.stmts hok hgwf
  rw [hrun] at h2 H
  obtain ⟨g, nm, hs, hr⟩ := h2 e rfl
  refine ⟨k, g, nm, hs, hr, z, hz, fun o => le_trans (H o) ?_⟩
  have := bandOfL_prod_le atol hatol.le K (c.stmts.take k)
    (fun g' nm' hm => hK g' nm' (List.mem_of_mem_take hm))
  have e : gateCount (c.stmts.take k) = gateIdx c.stmts k := rfl
  rw [e] at this
  linarith

/-- the linearised form: as long as `G·κ_L ≤ 1`, the product bound is at most `2·G·κ_L`
    (`(1 + x)^G − 1 ≤ G·x·(1 + x)^(G−1)` and `(1 + x)^G ≤ e^{Gx} ≤ 1 + 2Gx`; here proved by induction) -/
theorem pow_sub_one_le_two_mul (x : ℝ) (hx : 0 ≤ x) (G : Nat) (h : (G : ℝ) * x ≤ 1) :
    (1 + x) ^ G - 1 ≤ 2 * (G * x) := by
  have key : ∀ j : Nat, j ≤ G → (1 + x) ^ j ≤ 1 + j * x + (j * x) ^ 2 := by
    intro j hj
    induction j with
    | zero => simp
    | succ j ih =>
      have ih' := ih (Nat.le_of_succ_le hj)
      have hjG : ((j : ℝ) + 1) * x ≤ 1 := by
        have : ((j + 1 : ℕ) : ℝ) ≤ G := by exact_mod_cast hj
        push_cast at this
        nlinarith
      have hj0 : (0 : ℝ) ≤ j := Nat.cast_nonneg j
      rw [pow_succ]
      push_cast
      have h1 : (1 + x) ^ j * (1 + x) ≤ (1 + j * x + (j * x) ^ 2) * (1 + x) :=
        mul_le_mul_of_nonneg_right ih' (by linarith)
      refine le_trans h1 ?_
      nlinarith [mul_nonneg hj0 hx, mul_nonneg (mul_nonneg hj0 hx) hx, mul_nonneg (mul_nonneg hj0 hx) (mul_nonneg hj0 hx)]
  have := key G le_rfl
  have hGx : 0 ≤ (G : ℝ) * x := mul_nonneg (Nat.cast_nonneg G) hx
  nlinarith

/-- `decompose_ok_band_nohyp` in linear form: for `G·κ_L(K, atol) ≤ 1` the bound is `2·G·κ_L(K, atol)` -/
theorem decompose_ok_band_nohyp_linear (atol : ℝ) (hatol : 0 < atol)
    (d : Nat → GStmt ℝ → Except Err (List (GStmt ℝ))) (c : Circuit ℝ) (out : List (Stmt ℝ)) (K : Nat)
    (hwf : c.wf = true) (hU : ∀ g nm, Stmt.gate g nm ∈ c.stmts → g.Unitary)
    (hK : ∀ g nm, Stmt.gate g nm ∈ c.stmts → g.operands.length ≤ K)
    (hsmall : (gateCount c.stmts : ℝ) * kappaL K atol ≤ 1)
    (hrun : decompose atol d c.stmts = (out, none)) :
    ∃ z : ℂ, ‖z‖ = 1 ∧ ∀ o,
      ‖circOp c.nQubits out o - z • circOp c.nQubits c.stmts o‖
        ≤ 2 * ((gateCount c.stmts : ℝ) * kappaL K atol) := by
  obtain ⟨z, hz, H⟩ := decompose_ok_band_nohyp atol hatol d c out K hwf hU hK hrun
  exact ⟨z, hz, fun o => le_trans (H o)
    (pow_sub_one_le_two_mul _ (kappaL_nonneg K hatol.le) _ hsmall)⟩

/-- budget of `replace` without hypotheses on the user rule: only the named gates called `name` are charged -/
noncomputable def bandOfNamedL (atol : ℝ) (name : String) (s : Stmt ℝ) : ℝ :=
  if matchesName name s then bandOfL atol s else 0

/-- **`replace`, any run, NO hypothesis on the user rule** (statement level). -/
theorem replace_band_prod (atol : ℝ) (hatol : 0 < atol) (n : Nat) (name : String)
    (f : Nat → List (Arg ℝ) → Except Err (List (GStmt ℝ))) (stmts : List (Stmt ℝ))
    (hok : ∀ s ∈ stmts, s.OpOK n)
    (hwf : ∀ g nm, Stmt.gate g (some nm) ∈ stmts → nm.name = name → GateWF n g) :
    ∃ k, k ≤ stmts.length ∧
      ((replace atol name f stmts).2 = none → k = stmts.length) ∧
      (∀ e, (replace atol name f stmts).2 = some e → RRejectsAt atol name f stmts k e) ∧
      ∃ z : ℂ, ‖z‖ = 1 ∧ ∀ o,
        ‖circOp n (replace atol name f stmts).1 o - z • circOp n stmts o‖
          ≤ ((stmts.take k).map fun s => 1 + bandOfNamedL atol name s).prod - 1 := by
  rw [replace_eq_genLoop]
  have hkeep : ∀ k g nm, spliceChunk (genericReplacer name f) (ctrAt (matchesName name) 0 stmts k) (.gate g nm)
      ≠ [.gate g nm] → ∃ n', nm = some n' ∧ n'.name = name ∧ matchesName name (.gate g nm) = true := by
    intro k g nm hne
    rcases matchesName_cases name g nm with h | h
    · exact h
    · exact absurd (replace_only_named name f _ _ h) hne
  obtain ⟨k, hk, h1, h2, h3⟩ := DBand.genLoop_verdict_band_nohyp atol hatol n (genericReplacer name f)
    (matchesName name) (bandOfNamedL atol name) stmts
    (fun s _ => by unfold bandOfNamedL; split; exacts [bandOfL_nonneg hatol.le s, le_refl _]) hok
    (by
      intro k g nm hs hne
      obtain ⟨n', rfl, hn, -⟩ := hkeep k g nm hne
      exact hwf g n' (List.mem_of_getElem? hs) hn)
    (by
      intro k g nm _ hne
      obtain ⟨n', rfl, -, hm⟩ := hkeep k g nm hne
      simp [bandOfNamedL, hm, bandOfL])
  refine ⟨k, hk, h1, ?_, h3⟩
  intro e he
  exact (rRejectsAt_iff atol name f stmts k e).mp ((errAt_rverdict_iff atol name f stmts k e).mp (h2 e he))

theorem bandOfNamedL_prod_le (atol : ℝ) (hatol : 0 ≤ atol) (name : String) (K : Nat) (l : List (Stmt ℝ))
    (hK : ∀ g nm, Stmt.gate g (some nm) ∈ l → nm.name = name → g.operands.length ≤ K) :
    (l.map fun s => 1 + bandOfNamedL atol name s).prod ≤ (1 + kappaL K atol) ^ l.countP (matchesName name) := by
  apply DBand.prod_map_le_pow _ _ _ (kappaL_nonneg K hatol) _
    (fun s _ => by unfold bandOfNamedL; split; exacts [bandOfL_nonneg hatol s, le_refl _])
  intro s hs
  unfold bandOfNamedL
  by_cases hm : matchesName name s = true
  · obtain ⟨g, n', rfl, hn⟩ := (matchesName_true_iff name s).mp hm
    simpa [hm, bandOfL] using kappaL_mono (hK g n' hs hn) hatol
  · simp [hm]

/-- **`replace_ok_band_nohyp`**: `replace atol name f c.stmts = (out, none)`, `f` ANY user rule ⇒ one unit `z`, all
    outcome lists: `‖circOp out o − z • circOp c.stmts o‖ ≤ (1 + κ_L(K, atol))^G − 1` with `G` the number of named gates
    called `name`, each on at most `K` qubits. -/
theorem replace_ok_band_nohyp (atol : ℝ) (hatol : 0 < atol) (name : String)
    (f : Nat → List (Arg ℝ) → Except Err (List (GStmt ℝ))) (c : Circuit ℝ) (out : List (Stmt ℝ)) (K : Nat)
    (hwf : c.wf = true) (hU : ∀ g nm, Stmt.gate g nm ∈ c.stmts → g.Unitary)
    (hK : ∀ g nm, Stmt.gate g (some nm) ∈ c.stmts → nm.name = name → g.operands.length ≤ K)
    (hrun : replace atol name f c.stmts = (out, none)) :
    ∃ z : ℂ, ‖z‖ = 1 ∧ ∀ o,
      ‖circOp c.nQubits out o - z • circOp c.nQubits c.stmts o‖
        ≤ (1 + kappaL K atol) ^ c.stmts.countP (matchesName name) - 1 := by
  obtain ⟨hok, hgwf⟩ := Circuit.opOK_of_wf c hwf hU
  obtain ⟨k, -, h1, -, z, hz, H⟩ := replace_band_prod atol hatol c.nQubits name f c.stmts hok
    (fun g nm hm _ => hgwf g (some nm) hm)
  rw [hrun] at h1 H
  have hk := h1 rfl
  subst hk
  refine ⟨z, hz, fun o => le_trans (H o) ?_⟩
  rw [List.take_length]
  have := bandOfNamedL_prod_le atol hatol.le name K c.stmts hK
  linarith

end OSq

#print axioms OSq.decompose_band_sum
#print axioms OSq.decompose_ok_band
#print axioms OSq.decompose_ok_band_syntactic
#print axioms OSq.decomposeBuiltin_ok_band
#print axioms OSq.decompose_fail_band
#print axioms OSq.decompose_band_prod
#print axioms OSq.decompose_ok_band_nohyp
#print axioms OSq.decompose_fail_band_nohyp
#print axioms OSq.decompose_ok_band_nohyp_linear
#print axioms OSq.replace_band_sum
#print axioms OSq.replace_ok_band
#print axioms OSq.replace_fail_band
#print axioms OSq.replace_band_prod
#print axioms OSq.replace_ok_band_nohyp
