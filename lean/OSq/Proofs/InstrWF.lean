import OSq.Model.Front
/-
  OSq.Proofs.InstrWF — structural facts about the instruction evaluator (`OSq/Model/Instr.lean`: `bindArgs`,
  `GExpr.eval`, `evalNamed`, `callGate`, `callMeasure`, `callReset`; Python `named_gate` / `named_measure` /
  `named_reset` in `ir.py`) shared by `OSq.Proofs.Builder` and `OSq.Proofs.Parser`.
  Core Lean only; everything holds for every scalar type `α` with `[Scalar α]` and for an *arbitrary* gate table.

  Helpers
  * `bind_ok`, `bind_error`, `mapM_ok_iff`, `All₂` (+ `all₂_iff_get`)   `Except` / `List.mapM` plumbing.
  * `hasDup_eq_false_iff`      `hasDup l = false ↔ l.Nodup`.
  Theorems
  * `bindArgs_sig`             the environment has exactly the declared names and kinds (`Env.sig env = params`).
  * `bindArgs_le`, `bindArgs_length`   at least as many arguments as parameters; one entry per parameter.
  * `bindArgs_idem`            binding the converted arguments again gives the same environment.
  * `bindArgs_of_kinds`        arguments already of the declared kinds are bound unchanged.
  * `bindArgs_mem`, `bindArgs_mem_bit`   every entry is the conversion of an argument; bit entries are bit arguments.
  * `bindArgs_mem_qubit`       a qubit entry stems from a qubit argument or an int argument (conversion `Qubit(int)`).
  * `eval_built` / `evalGate_wf`   a gate definition evaluates to `bsr`/`ctrl` nodes only (`GExpr` has no matrix
                               constructor, so `Gate.shapeOk` is trivially true), every `ctrl c g'` node has
                               `c ∉ g'.operands` and `g'.operands` duplicate free (`Gate.ctrlOk`, checked by `mkCtrl`),
                               hence `hasDup g.operands = false`.
  * `eval_operands` (= `gexpr_operands_subset_typed`)   for a table obeying `tableTyped`, every operand is the value
                               of a qubit entry of the environment.
  * `eval_operands_partial` (= `gexpr_operands_subset_partial`)   arbitrary table: … of a qubit *or int* entry (the unrestricted statement is false).
  * `callGate_ok`, `callMeasure_ok`, `callReset_ok`   success of the wrappers, spelled out.
  * `callGate_idem`, `callMeasure_idem`, `callReset_idem`   re-running the generator on the recorded name and
                               arguments reproduces the statement (coherence of `generator` / `arguments`).
  * `callGate_operands(_partial)`   operands are qubit (or int) entries of the recorded arguments.
  * `defaultLib_typed`         the default gate table obeys `tableTyped`.
  * `gateName_ok`, `gateName_error`   `get_gate_f`: gate set first, then aliases, else `ValueError`.
  * `mkAxis_error_value`, `mkBSR_error_value`     these constructors fail with `ValueError` only.
  Also: `Toy`, a toy `Scalar` instance (integers, trivial transcendental functions) used only to state *closed*
  non-vacuity examples.
-/
namespace OSq

/-! ### generic helpers -/

theorem bind_ok {ε β γ : Type} {x : Except ε β} {f : β → Except ε γ} {c : γ} :
    (x >>= f) = .ok c ↔ ∃ a, x = .ok a ∧ f a = .ok c := by
  cases x <;> simp [bind, Except.bind]

theorem bind_error {ε β γ : Type} {x : Except ε β} {f : β → Except ε γ} {e : ε} :
    (x >>= f) = .error e ↔ x = .error e ∨ ∃ a, x = .ok a ∧ f a = .error e := by
  cases x <;> simp [bind, Except.bind]

theorem map_ok {ε β γ : Type} {x : Except ε β} {f : β → γ} {c : γ} :
    (f <$> x) = .ok c ↔ ∃ a, x = .ok a ∧ f a = c := by
  cases x <;> simp [Functor.map, Except.map]

/-- pointwise relation of two lists of equal length (core has no `Forall₂`) -/
inductive All₂ {β γ : Type} (R : β → γ → Prop) : List β → List γ → Prop
  | nil : All₂ R [] []
  | cons {a b l r} : R a b → All₂ R l r → All₂ R (a :: l) (b :: r)

theorem all₂_cons {β γ : Type} {R : β → γ → Prop} {a b l r} :
    All₂ R (a :: l) (b :: r) ↔ R a b ∧ All₂ R l r :=
  ⟨fun h => by cases h; constructor <;> assumption, fun h => .cons h.1 h.2⟩

theorem All₂.imp {β γ : Type} {R S : β → γ → Prop} (hRS : ∀ a b, R a b → S a b) {l r} (h : All₂ R l r) :
    All₂ S l r := by
  induction h with
  | nil => exact .nil
  | cons hab _ ih => exact .cons (hRS _ _ hab) ih

theorem All₂.imp_mem {β γ : Type} {R S : β → γ → Prop} {l r} (h : All₂ R l r)
    (hRS : ∀ a b, a ∈ l → R a b → S a b) : All₂ S l r := by
  induction h with
  | nil => exact .nil
  | cons hab _ ih =>
    exact .cons (hRS _ _ (by simp) hab) (ih fun a b ha => hRS a b (List.mem_cons_of_mem _ ha))

theorem All₂.comp {β γ δ : Type} {R : β → γ → Prop} {S : γ → δ → Prop} {l m r} (h₁ : All₂ R l m)
    (h₂ : All₂ S m r) : All₂ (fun a c => ∃ b, R a b ∧ S b c) l r := by
  induction h₁ generalizing r with
  | nil => cases h₂; exact .nil
  | cons hab _ ih => cases h₂ with
    | cons hbc hrest => exact .cons ⟨_, hab, hbc⟩ (ih hrest)

theorem All₂.mem_right {β γ : Type} {R : β → γ → Prop} {l r} (h : All₂ R l r) {b : γ} (hb : b ∈ r) :
    ∃ a ∈ l, R a b := by
  induction h with
  | nil => simp at hb
  | cons hab _ ih =>
    rcases List.mem_cons.1 hb with rfl | hb
    · exact ⟨_, by simp, hab⟩
    · obtain ⟨a, ha, h⟩ := ih hb; exact ⟨a, List.mem_cons_of_mem _ ha, h⟩

theorem All₂.length_eq {β γ : Type} {R : β → γ → Prop} {l r} (h : All₂ R l r) : l.length = r.length := by
  induction h <;> simp [*]

theorem All₂.get {β γ : Type} {R : β → γ → Prop} {l r} (h : All₂ R l r) :
    ∀ (i : Nat) (h₁ : i < l.length) (h₂ : i < r.length), R l[i] r[i] := by
  induction h with
  | nil => intro i h₁; simp at h₁
  | cons hab _ ih =>
    intro i h₁ h₂
    cases i with
    | zero => simpa using hab
    | succ i => simpa using ih i (by simpa using h₁) (by simpa using h₂)

theorem all₂_iff_get {β γ : Type} {R : β → γ → Prop} : ∀ {l : List β} {r : List γ},
    All₂ R l r ↔ l.length = r.length ∧ ∀ (i : Nat) (h₁ : i < l.length) (h₂ : i < r.length), R l[i] r[i]
  | [], [] => by simp [All₂.nil]
  | [], _ :: _ => by constructor; (intro h; cases h); simp
  | _ :: _, [] => by constructor; (intro h; cases h); simp
  | a :: l, b :: r => by
    rw [all₂_cons, all₂_iff_get (l := l) (r := r)]
    constructor
    · rintro ⟨hab, hl, h⟩
      refine ⟨by simp [hl], ?_⟩
      intro i h₁ h₂
      cases i with
      | zero => simpa using hab
      | succ i => simpa using h i (by simpa using h₁) (by simpa using h₂)
    · rintro ⟨hl, h⟩
      refine ⟨h 0 (by simp) (by simp), by simpa using hl, ?_⟩
      intro i h₁ h₂
      exact h (i + 1) (by simpa using h₁) (by simpa using h₂)

theorem mapM_ok_iff {ε β γ : Type} (f : β → Except ε γ) :
    ∀ (l : List β) (r : List γ), l.mapM f = .ok r ↔ All₂ (fun a b => f a = .ok b) l r
  | [], r => by
    cases r with
    | nil => simp [pure, Except.pure, All₂.nil]
    | cons b r => simp only [List.mapM_nil, pure, Except.pure]; constructor <;> (intro h; cases h)
  | a :: l, r => by
    rw [List.mapM_cons]
    cases r with
    | nil =>
      simp only [bind_ok, pure, Except.pure]
      constructor
      · rintro ⟨_, _, _, _, h⟩; cases h
      · intro h; cases h
    | cons b r =>
      simp only [bind_ok, pure, Except.pure, all₂_cons, ← mapM_ok_iff f l r]
      constructor
      · rintro ⟨b', hb, r', hr, h⟩; cases h; exact ⟨hb, hr⟩
      · rintro ⟨hb, hr⟩; exact ⟨b, hb, r, hr, rfl⟩

/-! ### duplicates -/

theorem hasDup_cons (x : Int) (xs : List Int) :
    hasDup (x :: xs) = false ↔ x ∉ xs ∧ hasDup xs = false := by
  simp [hasDup]

theorem hasDup_eq_false_iff : ∀ l : List Int, hasDup l = false ↔ l.Nodup
  | [] => by simp [hasDup]
  | x :: xs => by rw [hasDup_cons, hasDup_eq_false_iff xs, List.nodup_cons]

/-! ### `bindArgs` -/
variable {α : Type}

/-- the kind of an IR argument -/
def Arg.kind : Arg α → Kind
  | .qubit _ => .qubit | .bit _ => .bit | .int _ => .int | .float _ => .float

/-- names and kinds of the entries of an environment -/
def Env.sig (env : Env α) : List (String × Kind) := env.map fun p => (p.1, p.2.kind)

/-- the conversion the `named_*` wrappers perform on one positional argument
    (the `match` inside `bindArgs`) -/
def convArg : Kind → Arg α → Option (Arg α)
  | .qubit, .qubit i => some (.qubit i)
  | .qubit, .int i => some (.qubit i)
  | .int, .int i => some (.int i)
  | .float, .float v => some (.float v)
  | .bit, .bit i => some (.bit i)
  | _, _ => none

theorem convArg_kind {k : Kind} {a a' : Arg α} (h : convArg k a = some a') : a'.kind = k := by
  cases k <;> cases a <;> simp [convArg] at h <;> subst h <;> rfl

theorem convArg_idem {k : Kind} {a a' : Arg α} (h : convArg k a = some a') : convArg k a' = some a' := by
  cases k <;> cases a <;> simp [convArg] at h <;> subst h <;> rfl

theorem convArg_of_kind {k : Kind} {a : Arg α} (h : a.kind = k) : convArg k a = some a := by
  cases a <;> subst h <;> rfl

theorem bindArgs_cons_ok {n : String} {k : Kind} {ps : List (String × Kind)} {a : Arg α} {as : List (Arg α)}
    {env : Env α} :
    bindArgs ((n, k) :: ps) (a :: as) = .ok env ↔
      ∃ a' rest, convArg k a = some a' ∧ bindArgs ps as = .ok rest ∧ env = (n, a') :: rest := by
  cases k <;> cases a <;>
    simp [bindArgs, convArg, bind, Except.bind, pure, Except.pure, throw, throwThe, MonadExceptOf.throw] <;>
    (cases bindArgs ps as <;> simp [eq_comm])

theorem bindArgs_nil_right {ps : List (String × Kind)} {env : Env α} :
    bindArgs ps ([] : List (Arg α)) = .ok env ↔ ps = [] ∧ env = [] := by
  cases ps <;> simp [bindArgs, eq_comm]

/-- the environment has exactly the declared names and kinds -/
theorem bindArgs_sig : ∀ {ps : List (String × Kind)} {as : List (Arg α)} {env : Env α},
    bindArgs ps as = .ok env → env.sig = ps
  | [], _, env, h => by simp [bindArgs] at h; subst h; rfl
  | _ :: _, [], env, h => by simp [bindArgs] at h
  | (n, k) :: ps, a :: as, env, h => by
    obtain ⟨a', rest, ha, hr, rfl⟩ := bindArgs_cons_ok.1 h
    have := bindArgs_sig hr
    simp [Env.sig] at this ⊢
    exact ⟨convArg_kind ha, this⟩

theorem bindArgs_length {ps : List (String × Kind)} {as : List (Arg α)} {env : Env α}
    (h : bindArgs ps as = .ok env) : env.length = ps.length := by
  have := congrArg List.length (bindArgs_sig h); simpa [Env.sig] using this

/-- at least as many arguments as parameters -/
theorem bindArgs_le : ∀ {ps : List (String × Kind)} {as : List (Arg α)} {env : Env α},
    bindArgs ps as = .ok env → ps.length ≤ as.length
  | [], _, _, _ => by simp
  | _ :: _, [], env, h => by simp [bindArgs] at h
  | (n, k) :: ps, a :: as, env, h => by
    obtain ⟨a', rest, ha, hr, rfl⟩ := bindArgs_cons_ok.1 h
    simpa using bindArgs_le hr

/-- binding the already converted arguments again changes nothing -/
theorem bindArgs_idem : ∀ {ps : List (String × Kind)} {as : List (Arg α)} {env : Env α},
    bindArgs ps as = .ok env → bindArgs ps (env.map (·.2)) = .ok env
  | [], _, env, h => by simp [bindArgs] at h; subst h; simp [bindArgs]
  | _ :: _, [], env, h => by simp [bindArgs] at h
  | (n, k) :: ps, a :: as, env, h => by
    obtain ⟨a', rest, ha, hr, rfl⟩ := bindArgs_cons_ok.1 h
    simp only [List.map_cons]
    exact bindArgs_cons_ok.2 ⟨a', rest, convArg_idem ha, bindArgs_idem hr, rfl⟩

/-- arguments that already have the declared kinds are bound unchanged -/
theorem bindArgs_of_kinds : ∀ {ps : List (String × Kind)} {as : List (Arg α)},
    as.map Arg.kind = ps.map (·.2) → bindArgs ps as = .ok (List.zipWith (fun p a => (p.1, a)) ps as)
  | [], as, _ => by simp [bindArgs]
  | _ :: _, [], h => by simp at h
  | (n, k) :: ps, a :: as, h => by
    simp only [List.map_cons, List.cons.injEq] at h
    exact bindArgs_cons_ok.2 ⟨a, _, convArg_of_kind h.1, bindArgs_of_kinds h.2, rfl⟩

theorem zipWith_snd_of_length {ps : List (String × Kind)} {as : List (Arg α)} (h : as.length = ps.length) :
    (List.zipWith (fun p a => ((p.1, a) : String × Arg α)) ps as).map (·.2) = as := by
  induction ps generalizing as with
  | nil => cases as <;> simp_all
  | cons p ps ih => cases as with
    | nil => simp at h
    | cons a as => simp at h; simp [ih h]

/-- every qubit entry of the environment stems from a qubit argument or from an
    int argument in a qubit position -/
theorem bindArgs_mem_qubit : ∀ {ps : List (String × Kind)} {as : List (Arg α)} {env : Env α} {n : String} {q : Int},
    bindArgs ps as = .ok env → (n, Arg.qubit q) ∈ env → Arg.qubit q ∈ as ∨ Arg.int q ∈ as
  | [], _, env, _, _, h, hm => by simp [bindArgs] at h; subst h; simp at hm
  | _ :: _, [], env, _, _, h, _ => by simp [bindArgs] at h
  | (n, k) :: ps, a :: as, env, n', q, h, hm => by
    obtain ⟨a', rest, ha, hr, rfl⟩ := bindArgs_cons_ok.1 h
    rcases List.mem_cons.1 hm with heq | hm
    · cases heq
      cases k <;> cases a <;> simp [convArg] at ha <;> subst ha <;> simp
    · rcases bindArgs_mem_qubit hr hm with h | h
      · exact .inl (List.mem_cons_of_mem _ h)
      · exact .inr (List.mem_cons_of_mem _ h)

/-- every entry of the environment is the conversion of one of the arguments -/
theorem bindArgs_mem : ∀ {ps : List (String × Kind)} {as : List (Arg α)} {env : Env α} {n : String} {v : Arg α},
    bindArgs ps as = .ok env → (n, v) ∈ env → ∃ a ∈ as, ∃ k, convArg k a = some v
  | [], _, env, _, _, h, hm => by simp [bindArgs] at h; subst h; simp at hm
  | _ :: _, [], env, _, _, h, _ => by simp [bindArgs] at h
  | (n, k) :: ps, a :: as, env, n', v, h, hm => by
    obtain ⟨a', rest, ha, hr, rfl⟩ := bindArgs_cons_ok.1 h
    rcases List.mem_cons.1 hm with heq | hm
    · cases heq; exact ⟨a, by simp, k, ha⟩
    · obtain ⟨a₀, h₀, hk⟩ := bindArgs_mem hr hm
      exact ⟨a₀, List.mem_cons_of_mem _ h₀, hk⟩

theorem bindArgs_mem_bit {ps : List (String × Kind)} {as : List (Arg α)} {env : Env α} {n : String} {b : Int}
    (h : bindArgs ps as = .ok env) (hm : (n, Arg.bit b) ∈ env) : Arg.bit b ∈ as := by
  obtain ⟨a, ha, k, hk⟩ := bindArgs_mem h hm
  cases k <;> cases a <;> simp [convArg] at hk
  subst hk; exact ha

theorem Env.find?_mem {env : Env α} {n : String} {v : Arg α} (h : env.find? n = some v) : (n, v) ∈ env := by
  simp only [Env.find?, Option.map_eq_some_iff] at h
  obtain ⟨p, hp, rfl⟩ := h
  have h1 := List.mem_of_find?_eq_some hp
  have h2 := List.find?_some hp
  simp at h2; subst h2; exact h1

theorem Env.find?_sig (env : Env α) (n : String) :
    (env.sig.find? (·.1 == n)).map (·.2) = (env.find? n).map Arg.kind := by
  induction env with
  | nil => rfl
  | cons p env ih =>
    simp only [Env.sig, Env.find?, List.map_cons, List.find?_cons] at ih ⊢
    split <;> simp_all

/-! ### structural predicates on gates -/

/-- no `MatrixGate` node anywhere -/
def Gate.noMatrix : Gate α → Bool
  | .bsr _ _ _ _ => true
  | .matrix _ _ => false
  | .ctrl _ g => g.noMatrix

/-- every `ControlledGate` node passed the repeated-operand check of its constructor
    (and every `MatrixGate` node that of its own) -/
def Gate.ctrlOk : Gate α → Bool
  | .bsr _ _ _ _ => true
  | .matrix _ ops => !hasDup ops
  | .ctrl c g => !hasDup (c :: g.operands) && g.ctrlOk

theorem Gate.ctrlOk_ctrl {c : Int} {g : Gate α} :
    (Gate.ctrl c g).ctrlOk = true ↔ c ∉ g.operands ∧ g.operands.Nodup ∧ g.ctrlOk = true := by
  simp only [Gate.ctrlOk, Bool.and_eq_true, Bool.not_eq_true', hasDup_eq_false_iff, List.nodup_cons, and_assoc]

/-- a gate whose constructors all ran their check has pairwise distinct operands -/
theorem Gate.nodup_of_ctrlOk : ∀ {g : Gate α}, g.ctrlOk = true → hasDup g.operands = false
  | .bsr _ _ _ _, _ => by simp [Gate.operands, hasDup]
  | .matrix _ ops, h => by simpa [Gate.ctrlOk, Gate.operands] using h
  | .ctrl c g, h => by
    simp only [Gate.ctrlOk, Bool.and_eq_true, Bool.not_eq_true'] at h
    simpa [Gate.operands] using h.1

/-- without a matrix node the shape check is vacuous -/
theorem Gate.shapeOk_of_noMatrix : ∀ {g : Gate α}, g.noMatrix = true → g.shapeOk = true
  | .bsr _ _ _ _, _ => rfl
  | .matrix _ _, h => by simp [Gate.noMatrix] at h
  | .ctrl _ g, h => by simpa [Gate.shapeOk] using Gate.shapeOk_of_noMatrix (g := g) (by simpa [Gate.noMatrix] using h)

theorem mkCtrl_ok {c : Int} {g g' : Gate α} (h : mkCtrl c g = .ok g') :
    g' = .ctrl c g ∧ hasDup (c :: g.operands) = false := by
  unfold mkCtrl at h
  split at h
  · cases h
  · cases h; simp_all

theorem envQubit_ok {env : Env α} {n : String} {q : Int} (h : envQubit env n = .ok q) :
    env.find? n = some (.qubit q) := by
  unfold envQubit at h
  split at h
  · cases h; assumption
  · cases h

/-- the part of a gate's quality that does not depend on the environment -/
def Gate.built (g : Gate α) : Prop := g.noMatrix = true ∧ g.ctrlOk = true

variable [Scalar α]

theorem mkBSR_ok {atol : α} {q : Int} {ax : Vec3 α} {an ph : α} {g : Gate α}
    (h : mkBSR atol q ax an ph = .ok g) : ∃ a, g = .bsr q a (normalizeAngle atol an) (normalizeAngle atol ph) := by
  simp only [mkBSR, bind_ok, pure, Except.pure] at h
  obtain ⟨a, _, h⟩ := h
  exact ⟨a, by cases h; rfl⟩

/-- **`evalGate_wf`** (structure).  Whatever a gate definition evaluates to consists of `bsr` and `ctrl`
    nodes only (`GExpr` has no matrix constructor, so `Gate.shapeOk` holds trivially), every `ctrl c g'`
    node in it has `c ∉ g'.operands` and `g'.operands` duplicate free (`mkCtrl` checked it), and hence the
    operand list of the whole gate is duplicate free.  Mutual statement for `evalNamed`. -/
theorem eval_built (atol : α) (table : List GateDef) :
    ∀ (fuel : Nat) (env : Env α) (loc : List (String × α)) (body : GExpr) (g : Gate α),
      body.eval atol table fuel env loc = .ok g → g.built := by
  intro fuel env loc body
  refine GExpr.eval.induct (α := α) table
    (fun fuel env loc body => ∀ g, body.eval atol table fuel env loc = .ok g → g.built)
    (fun fuel name args => ∀ g, evalNamed atol table fuel name args = .ok g → g.built)
    ?_ ?_ ?_ ?_ ?_ ?_ ?_ ?_ fuel env loc body
  · intro fuel env loc q ax ay az an ph g h
    rw [GExpr.eval] at h
    simp only [bind_ok] at h
    obtain ⟨_, _, _, _, _, _, h⟩ := h
    obtain ⟨a, rfl⟩ := mkBSR_ok h
    exact ⟨rfl, rfl⟩
  · intro fuel env loc q g h
    rw [GExpr.eval] at h
    simp only [bind_ok] at h
    obtain ⟨_, _, h⟩ := h
    obtain ⟨a, rfl⟩ := mkBSR_ok h
    exact ⟨rfl, rfl⟩
  · intro fuel env loc c body ih g h
    rw [GExpr.eval] at h
    simp only [bind_ok] at h
    obtain ⟨ci, _, g0, hg0, h⟩ := h
    obtain ⟨rfl, hd⟩ := mkCtrl_ok h
    have := ih g0 hg0
    exact ⟨by simpa [Gate.noMatrix] using this.1, by simp [Gate.ctrlOk, hd, this.2]⟩
  · intro fuel env loc name args ih g h
    rw [GExpr.eval] at h
    simp only [bind_ok] at h
    obtain ⟨as, _, h⟩ := h
    cases fuel with
    | zero => simp [throw, throwThe, MonadExceptOf.throw] at h
    | succ fuel => exact ih as g h
  · intro fuel env loc n v body ih g h
    rw [GExpr.eval] at h
    simp only [bind_ok] at h
    obtain ⟨x, _, h⟩ := h
    exact ih x g h
  · intro fuel name args hf g h
    rw [evalNamed, hf] at h; cases h
  · intro fuel name args d hf hlen g h
    rw [evalNamed, hf] at h; simp [hlen] at h
  · intro fuel name args d hf hlen ih g h
    rw [evalNamed, hf] at h
    simp only [hlen, if_false, bind_ok] at h
    obtain ⟨env, _, h⟩ := h
    exact ih env g h

theorem evalGate_wf {atol : α} {table : List GateDef} {fuel : Nat} {env : Env α} {loc : List (String × α)}
    {body : GExpr} {g : Gate α} (h : body.eval atol table fuel env loc = .ok g) :
    g.shapeOk = true ∧ g.noMatrix = true ∧ g.ctrlOk = true ∧ hasDup g.operands = false :=
  have hb := eval_built atol table fuel env loc body g h
  ⟨Gate.shapeOk_of_noMatrix hb.1, hb.1, hb.2, Gate.nodup_of_ctrlOk hb.2⟩

/-! ### where the operands come from -/

theorem evalNamed_ok {atol : α} {table : List GateDef} {fuel : Nat} {name : String} {args : List (Arg α)}
    {g : Gate α} :
    evalNamed atol table fuel name args = .ok g ↔
      ∃ d env, table.find? (·.name == name) = some d ∧ args.length ≤ d.params.length ∧
        bindArgs d.params args = .ok env ∧ d.body.eval atol table fuel env [] = .ok g := by
  rw [evalNamed]
  cases hd : table.find? (·.name == name) with
  | none => simp
  | some d =>
    by_cases hl : args.length > d.params.length
    · simp only [hl, if_true]
      constructor
      · intro h; cases h
      · rintro ⟨d', env, hd', hl', _⟩; cases hd'; omega
    · simp only [hl, if_false, bind_ok]
      constructor
      · rintro ⟨env, hb, he⟩; exact ⟨d, env, rfl, by omega, hb, he⟩
      · rintro ⟨d', env, hd', _, hb, he⟩; cases hd'; exact ⟨env, hb, he⟩

omit [Scalar α] in
theorem lookup_ok {env : Env α} {a : String} {v : Arg α} :
    (match env.find? a with
      | some v => (pure v : Except Err (Arg α))
      | none => throw Err.key) = .ok v ↔ env.find? a = some v := by
  cases env.find? a <;> simp [pure, Except.pure, throw, throwThe, MonadExceptOf.throw]

/-- kind of the parameter called `a` (first match, as `Env.find?`) -/
def paramKind (ps : List (String × Kind)) (a : String) : Option Kind := (ps.find? (·.1 == a)).map (·.2)

/-- static discipline of a gate body relative to the table: in no nested call is a parameter declared
    `int` passed on in a position the callee declares as qubit (`Qubit(Int(k))` would silently turn the
    number into a qubit index). -/
def GExpr.typed (table : List GateDef) (ps : List (String × Kind)) : GExpr → Bool
  | .bsr _ _ _ _ _ _ => true
  | .identity _ => true
  | .ctrl _ b => b.typed table ps
  | .letS _ _ b => b.typed table ps
  | .call name args =>
    match table.find? (·.name == name) with
    | none => true
    | some d => (args.zip d.params).all fun x => !(x.2.2 == Kind.qubit && paramKind ps x.1 == some Kind.int)

/-- every definition of the table obeys the discipline -/
def tableTyped (table : List GateDef) : Bool := table.all fun d => d.body.typed table d.params

omit [Scalar α] in
theorem call_env_qubit (env : Env α) : ∀ (args : List String) (ps : List (String × Kind)) (as : List (Arg α))
    (env' : Env α) (n' : String) (q : Int),
    All₂ (fun a v => env.find? a = some v) args as → bindArgs ps as = .ok env' →
    ((args.zip ps).all fun x => !(x.2.2 == Kind.qubit && paramKind env.sig x.1 == some Kind.int)) = true →
    (n', Arg.qubit q) ∈ env' → ∃ a, env.find? a = some (.qubit q)
  | _, [], _, env', _, _, _, hb, _, hm => by simp [bindArgs] at hb; subst hb; simp at hm
  | [], _ :: _, as, env', _, _, ha, hb, _, hm => by cases ha; simp [bindArgs] at hb
  | a :: args, (n, k) :: ps, as, env', n', q, ha, hb, hc, hm => by
    cases ha with
    | cons hav hrest =>
      rename_i v as
      obtain ⟨v', rest, hv, hr, rfl⟩ := bindArgs_cons_ok.1 hb
      simp only [List.zip_cons_cons, List.all_cons, Bool.and_eq_true] at hc
      rcases List.mem_cons.1 hm with heq | hm
      · cases heq
        cases k <;> cases v <;> simp [convArg] at hv
        · subst hv; exact ⟨a, hav⟩
        · subst hv
          have := hc.1
          simp [paramKind, Env.find?_sig, hav, Arg.kind] at this
      · exact call_env_qubit env args ps as rest n' q hrest hr hc.2 hm

/-- **`gexpr_operands_subset`**: for a table obeying the discipline `tableTyped`, every operand of the
    gate a body evaluates to is the value of a *qubit* entry of the environment. -/
theorem eval_operands (atol : α) (table : List GateDef) (hT : tableTyped table = true) :
    ∀ (fuel : Nat) (env : Env α) (loc : List (String × α)) (body : GExpr) (g : Gate α),
      body.typed table env.sig = true → body.eval atol table fuel env loc = .ok g →
      ∀ q ∈ g.operands, ∃ n, env.find? n = some (.qubit q) := by
  intro fuel env loc body
  have := GExpr.eval.induct (α := α) table
    (fun fuel env loc body => ∀ g, body.typed table env.sig = true → body.eval atol table fuel env loc = .ok g →
      ∀ q ∈ g.operands, ∃ n, env.find? n = some (.qubit q))
    (fun fuel name args => ∀ g, evalNamed atol table fuel name args = .ok g →
      ∀ d env', table.find? (·.name == name) = some d → bindArgs d.params args = .ok env' →
      ∀ q ∈ g.operands, ∃ n, env'.find? n = some (.qubit q))
    ?_ ?_ ?_ ?_ ?_ ?_ ?_ ?_ fuel env loc body
  · exact this
  · intro fuel env loc q ax ay az an ph g _ h
    rw [GExpr.eval] at h
    simp only [bind_ok] at h
    obtain ⟨qi, hq, _, _, _, _, h⟩ := h
    obtain ⟨a, rfl⟩ := mkBSR_ok h
    intro q' hq'
    simp [Gate.operands] at hq'; subst hq'
    exact ⟨q, envQubit_ok hq⟩
  · intro fuel env loc q g _ h
    rw [GExpr.eval] at h
    simp only [bind_ok] at h
    obtain ⟨qi, hq, h⟩ := h
    obtain ⟨a, rfl⟩ := mkBSR_ok h
    intro q' hq'
    simp [Gate.operands] at hq'; subst hq'
    exact ⟨q, envQubit_ok hq⟩
  · intro fuel env loc c body ih g ht h
    rw [GExpr.eval] at h
    simp only [bind_ok] at h
    obtain ⟨ci, hc, g0, hg0, h⟩ := h
    obtain ⟨rfl, _⟩ := mkCtrl_ok h
    intro q' hq'
    rcases List.mem_cons.1 (by simpa [Gate.operands] using hq') with rfl | hq'
    · exact ⟨c, envQubit_ok hc⟩
    · exact ih g0 (by simpa [GExpr.typed] using ht) hg0 q' hq'
  · intro fuel env loc name args ih g ht h
    rw [GExpr.eval] at h
    simp only [bind_ok] at h
    obtain ⟨as, has, h⟩ := h
    cases fuel with
    | zero => simp [throw, throwThe, MonadExceptOf.throw] at h
    | succ fuel =>
      obtain ⟨d, env', hd, _, hb, _⟩ := evalNamed_ok.1 h
      have hall : All₂ (fun a v => env.find? a = some v) args as :=
        ((mapM_ok_iff _ _ _).1 has).imp fun a v h => by
          cases hf : env.find? a <;> simp [hf, pure, Except.pure, throw, throwThe, MonadExceptOf.throw] at h ⊢
          exact h
      simp only [GExpr.typed, hd] at ht
      intro q hq
      obtain ⟨n', hn'⟩ := ih as g h d env' hd hb q hq
      exact call_env_qubit env args d.params as env' n' q hall hb ht (Env.find?_mem hn')
  · intro fuel env loc n v body ih g ht h
    rw [GExpr.eval] at h
    simp only [bind_ok] at h
    obtain ⟨x, _, h⟩ := h
    exact ih x g (by simpa [GExpr.typed] using ht) h
  · intro fuel name args hf g h
    rw [evalNamed, hf] at h; cases h
  · intro fuel name args d hf hlen g h
    rw [evalNamed, hf] at h; simp [hlen] at h
  · intro fuel name args d hf hlen ih g h d' env' hd' hb
    rw [hf] at hd'; cases hd'
    obtain ⟨d', env'', hd', _, hb', he⟩ := evalNamed_ok.1 h
    rw [hf] at hd'; cases hd'
    rw [hb] at hb'; cases hb'
    refine ih env' g ?_ he
    rw [bindArgs_sig hb]
    have hmem := List.mem_of_find?_eq_some hf
    exact (List.all_eq_true.1 hT) d hmem

omit [Scalar α] in
theorem call_env_index (env : Env α) : ∀ (args : List String) (ps : List (String × Kind)) (as : List (Arg α))
    (env' : Env α) (n' : String) (q : Int),
    All₂ (fun a v => env.find? a = some v) args as → bindArgs ps as = .ok env' →
    ((n', Arg.qubit q) ∈ env' ∨ (n', Arg.int q) ∈ env') →
    ∃ a, env.find? a = some (.qubit q) ∨ env.find? a = some (.int q)
  | _, [], _, env', _, _, _, hb, hm => by simp [bindArgs] at hb; subst hb; simp at hm
  | [], _ :: _, as, env', _, _, ha, hb, _ => by cases ha; simp [bindArgs] at hb
  | a :: args, (n, k) :: ps, as, env', n', q, ha, hb, hm => by
    cases ha with
    | cons hav hrest =>
      rename_i v as
      obtain ⟨v', rest, hv, hr, rfl⟩ := bindArgs_cons_ok.1 hb
      have key : (n', Arg.qubit q) = (n, v') ∨ (n', Arg.int q) = (n, v') ∨
          ((n', Arg.qubit q) ∈ rest ∨ (n', Arg.int q) ∈ rest) := by
        rcases hm with hm | hm <;> rcases List.mem_cons.1 hm with h | h <;> simp [h]
      rcases key with heq | heq | hm
      · cases heq
        cases k <;> cases v <;> simp [convArg] at hv <;> subst hv
        · exact ⟨a, .inl hav⟩
        · exact ⟨a, .inr hav⟩
      · cases heq
        cases k <;> cases v <;> simp [convArg] at hv <;> subst hv
        exact ⟨a, .inr hav⟩
      · exact call_env_index env args ps as rest n' q hrest hr hm

/- Intended statement of `gexpr_operands_subset`: every operand is the value of a *qubit* entry of the environment,
   for an arbitrary table.  False in general (see `eval_operands`): a nested call may pass an `int` parameter in a
   qubit position and `named_gate` converts it.  For an arbitrary table: -/
/-- **`gexpr_operands_subset_partial`**: every operand is the value of a qubit *or int* entry of the environment. -/
theorem eval_operands_partial (atol : α) (table : List GateDef) :
    ∀ (fuel : Nat) (env : Env α) (loc : List (String × α)) (body : GExpr) (g : Gate α),
      body.eval atol table fuel env loc = .ok g →
      ∀ q ∈ g.operands, ∃ n, env.find? n = some (.qubit q) ∨ env.find? n = some (.int q) := by
  intro fuel env loc body
  have := GExpr.eval.induct (α := α) table
    (fun fuel env loc body => ∀ g, body.eval atol table fuel env loc = .ok g →
      ∀ q ∈ g.operands, ∃ n, env.find? n = some (.qubit q) ∨ env.find? n = some (.int q))
    (fun fuel name args => ∀ g, evalNamed atol table fuel name args = .ok g →
      ∀ d env', table.find? (·.name == name) = some d → bindArgs d.params args = .ok env' →
      ∀ q ∈ g.operands, ∃ n, env'.find? n = some (.qubit q) ∨ env'.find? n = some (.int q))
    ?_ ?_ ?_ ?_ ?_ ?_ ?_ ?_ fuel env loc body
  · exact this
  · intro fuel env loc q ax ay az an ph g h
    rw [GExpr.eval] at h
    simp only [bind_ok] at h
    obtain ⟨qi, hq, _, _, _, _, h⟩ := h
    obtain ⟨a, rfl⟩ := mkBSR_ok h
    intro q' hq'
    simp [Gate.operands] at hq'; subst hq'
    exact ⟨q, .inl (envQubit_ok hq)⟩
  · intro fuel env loc q g h
    rw [GExpr.eval] at h
    simp only [bind_ok] at h
    obtain ⟨qi, hq, h⟩ := h
    obtain ⟨a, rfl⟩ := mkBSR_ok h
    intro q' hq'
    simp [Gate.operands] at hq'; subst hq'
    exact ⟨q, .inl (envQubit_ok hq)⟩
  · intro fuel env loc c body ih g h
    rw [GExpr.eval] at h
    simp only [bind_ok] at h
    obtain ⟨ci, hc, g0, hg0, h⟩ := h
    obtain ⟨rfl, _⟩ := mkCtrl_ok h
    intro q' hq'
    rcases List.mem_cons.1 (by simpa [Gate.operands] using hq') with rfl | hq'
    · exact ⟨c, .inl (envQubit_ok hc)⟩
    · exact ih g0 hg0 q' hq'
  · intro fuel env loc name args ih g h
    rw [GExpr.eval] at h
    simp only [bind_ok] at h
    obtain ⟨as, has, h⟩ := h
    cases fuel with
    | zero => simp [throw, throwThe, MonadExceptOf.throw] at h
    | succ fuel =>
      obtain ⟨d, env', hd, _, hb, _⟩ := evalNamed_ok.1 h
      have hall : All₂ (fun a v => env.find? a = some v) args as :=
        ((mapM_ok_iff _ _ _).1 has).imp fun a v h => by
          cases hf : env.find? a <;> simp [hf, pure, Except.pure, throw, throwThe, MonadExceptOf.throw] at h ⊢
          exact h
      intro q hq
      obtain ⟨n', hn'⟩ := ih as g h d env' hd hb q hq
      exact call_env_index env args d.params as env' n' q hall hb
        (hn'.imp Env.find?_mem Env.find?_mem)
  · intro fuel env loc n v body ih g h
    rw [GExpr.eval] at h
    simp only [bind_ok] at h
    obtain ⟨x, _, h⟩ := h
    exact ih x g h
  · intro fuel name args hf g h
    rw [evalNamed, hf] at h; cases h
  · intro fuel name args d hf hlen g h
    rw [evalNamed, hf] at h; simp [hlen] at h
  · intro fuel name args d hf hlen ih g h d' env' hd' hb
    rw [hf] at hd'; cases hd'
    obtain ⟨d', env'', hd', _, hb', he⟩ := evalNamed_ok.1 h
    rw [hf] at hd'; cases hd'
    rw [hb] at hb'; cases hb'
    exact ih env' g he

/-- alias under the name of the work plan -/
theorem gexpr_operands_subset_typed (atol : α) (table : List GateDef) (hT : tableTyped table = true)
    (fuel : Nat) (env : Env α) (loc : List (String × α)) (body : GExpr) (g : Gate α)
    (ht : body.typed table env.sig = true) (h : body.eval atol table fuel env loc = .ok g) :
    ∀ q ∈ g.operands, ∃ n, env.find? n = some (.qubit q) :=
  eval_operands atol table hT fuel env loc body g ht h

theorem gexpr_operands_subset_partial (atol : α) (table : List GateDef)
    (fuel : Nat) (env : Env α) (loc : List (String × α)) (body : GExpr) (g : Gate α)
    (h : body.eval atol table fuel env loc = .ok g) :
    ∀ q ∈ g.operands, ∃ n, env.find? n = some (.qubit q) ∨ env.find? n = some (.int q) :=
  eval_operands_partial atol table fuel env loc body g h

/-! ### the `named_*` wrappers -/

theorem callGate_ok {atol : α} {table : List GateDef} {name : String} {args : List (Arg α)}
    {g : Gate α} {nm : Named α} :
    callGate atol table name args = .ok (g, nm) ↔
      ∃ d env, table.find? (·.name == name) = some d ∧ args.length ≤ d.params.length ∧
        bindArgs d.params args = .ok env ∧ d.body.eval atol table 8 env [] = .ok g ∧
        nm = ⟨name, env.map (·.2)⟩ := by
  rw [callGate]
  cases hd : table.find? (·.name == name) with
  | none => simp
  | some d =>
    by_cases hl : args.length > d.params.length
    · simp only [hl, if_true]
      constructor
      · intro h; cases h
      · rintro ⟨d', env, hd', hl', _⟩; cases hd'; omega
    · simp only [hl, if_false, bind_ok, pure, Except.pure]
      constructor
      · rintro ⟨env, hb, g', he, h⟩; cases h; exact ⟨d, env, rfl, by omega, hb, he, rfl⟩
      · rintro ⟨d', env, hd', _, hb, he, rfl⟩; cases hd'; exact ⟨env, hb, g, he, rfl⟩

theorem callMeasure_ok {table : List MeasureDef} {name : String} {args : List (Arg α)} {s : Stmt α} :
    callMeasure table name args = .ok s ↔
      ∃ d env q b ax, table.find? (·.name == name) = some d ∧ args.length ≤ d.params.length ∧
        bindArgs d.params args = .ok env ∧ env.find? d.qparam = some (.qubit q) ∧
        env.find? d.bparam = some (.bit b) ∧
        mkAxis (intToScalar d.axis.1, intToScalar d.axis.2.1, intToScalar d.axis.2.2) = .ok ax ∧
        s = .measure q b ax (some ⟨name, env.map (·.2)⟩) := by
  rw [callMeasure]
  cases hd : table.find? (·.name == name) with
  | none => simp
  | some d =>
    by_cases hl : args.length > d.params.length
    · simp only [hl, if_true]
      constructor
      · intro h; cases h
      · rintro ⟨d', env, _, _, _, hd', hl', _⟩; cases hd'; omega
    · simp only [hl, if_false]
      constructor
      · intro h
        obtain ⟨env, hb, h⟩ := bind_ok.1 h
        obtain ⟨q, hq, h⟩ := bind_ok.1 h
        split at h
        · rename_i b hbit
          obtain ⟨b', hb', h⟩ := bind_ok.1 h
          cases hb'
          obtain ⟨ax, hax, h⟩ := bind_ok.1 h
          cases h
          exact ⟨d, env, q, b, ax, rfl, by omega, hb, envQubit_ok hq, hbit, hax, rfl⟩
        · obtain ⟨b', hb', h⟩ := bind_ok.1 h
          cases hb'
      · rintro ⟨d', env, q, b, ax, hd', _, hb, hq, hbit, hax, rfl⟩
        cases hd'
        refine bind_ok.2 ⟨env, hb, bind_ok.2 ⟨q, by simp [envQubit, hq], ?_⟩⟩
        simp only [hbit]
        exact bind_ok.2 ⟨b, rfl, bind_ok.2 ⟨ax, hax, rfl⟩⟩

omit [Scalar α] in
theorem callReset_ok {table : List ResetDef} {name : String} {args : List (Arg α)} {s : Stmt α} :
    callReset table name args = .ok s ↔
      ∃ d env q, table.find? (·.name == name) = some d ∧ args.length ≤ d.params.length ∧
        bindArgs d.params args = .ok env ∧ env.find? d.qparam = some (.qubit q) ∧
        s = .reset q (some ⟨name, env.map (·.2)⟩) := by
  rw [callReset]
  cases hd : table.find? (·.name == name) with
  | none => simp
  | some d =>
    by_cases hl : args.length > d.params.length
    · simp only [hl, if_true]
      constructor
      · intro h; cases h
      · rintro ⟨d', env, _, hd', hl', _⟩; cases hd'; omega
    · simp only [hl, if_false, bind_ok, pure, Except.pure]
      constructor
      · rintro ⟨env, hb, q, hq, h⟩
        cases h
        exact ⟨d, env, q, rfl, by omega, hb, envQubit_ok hq, rfl⟩
      · rintro ⟨d', env, q, hd', _, hb, hq, rfl⟩
        cases hd'
        exact ⟨env, hb, q, by simp [envQubit, hq], rfl⟩

/-- **coherence** (`named_gate`): calling the generator again on the recorded `arguments` reproduces the
    gate and the record — "name and arguments denote exactly the operation". -/
theorem callGate_idem {atol : α} {table : List GateDef} {name : String} {args : List (Arg α)}
    {g : Gate α} {nm : Named α} (h : callGate atol table name args = .ok (g, nm)) :
    callGate atol table nm.name nm.args = .ok (g, nm) := by
  obtain ⟨d, env, hd, hl, hb, he, rfl⟩ := callGate_ok.1 h
  exact callGate_ok.2 ⟨d, env, hd, by simp [bindArgs_length hb], bindArgs_idem hb, he, rfl⟩

theorem callMeasure_idem {table : List MeasureDef} {name : String} {args : List (Arg α)} {s : Stmt α}
    (h : callMeasure table name args = .ok s) :
    ∃ nm, s.named = some nm ∧ callMeasure table nm.name nm.args = .ok s := by
  obtain ⟨d, env, q, b, ax, hd, hl, hb, hq, hbit, hax, rfl⟩ := callMeasure_ok.1 h
  exact ⟨_, rfl, callMeasure_ok.2 ⟨d, env, q, b, ax, hd, by simp [bindArgs_length hb], bindArgs_idem hb, hq,
    hbit, hax, rfl⟩⟩

omit [Scalar α] in
theorem callReset_idem {table : List ResetDef} {name : String} {args : List (Arg α)} {s : Stmt α}
    (h : callReset table name args = .ok s) :
    ∃ nm, s.named = some nm ∧ callReset table nm.name nm.args = .ok s := by
  obtain ⟨d, env, q, hd, hl, hb, hq, rfl⟩ := callReset_ok.1 h
  exact ⟨_, rfl, callReset_ok.2 ⟨d, env, q, hd, by simp [bindArgs_length hb], bindArgs_idem hb, hq, rfl⟩⟩

/-- operands of a gate produced by `callGate` (typed table) are qubit entries of the recorded arguments -/
theorem callGate_operands {atol : α} {table : List GateDef} (hT : tableTyped table = true) {name : String}
    {args : List (Arg α)} {g : Gate α} {nm : Named α} (h : callGate atol table name args = .ok (g, nm)) :
    ∀ q ∈ g.operands, Arg.qubit q ∈ nm.args := by
  obtain ⟨d, env, hd, hl, hb, he, rfl⟩ := callGate_ok.1 h
  intro q hq
  have hty : d.body.typed table env.sig = true := by
    rw [bindArgs_sig hb]; exact (List.all_eq_true.1 hT) d (List.mem_of_find?_eq_some hd)
  obtain ⟨n, hn⟩ := eval_operands atol table hT 8 env [] d.body g hty he q hq
  exact List.mem_map.2 ⟨(n, Arg.qubit q), Env.find?_mem hn, rfl⟩

/-- arbitrary table: operands are qubit-or-int entries of the recorded arguments -/
theorem callGate_operands_partial {atol : α} {table : List GateDef} {name : String}
    {args : List (Arg α)} {g : Gate α} {nm : Named α} (h : callGate atol table name args = .ok (g, nm)) :
    ∀ q ∈ g.operands, Arg.qubit q ∈ nm.args ∨ Arg.int q ∈ nm.args := by
  obtain ⟨d, env, hd, hl, hb, he, rfl⟩ := callGate_ok.1 h
  intro q hq
  obtain ⟨n, hn⟩ := eval_operands_partial atol table 8 env [] d.body g he q hq
  rcases hn with hn | hn
  · exact .inl (List.mem_map.2 ⟨(n, Arg.qubit q), Env.find?_mem hn, rfl⟩)
  · exact .inr (List.mem_map.2 ⟨(n, Arg.int q), Env.find?_mem hn, rfl⟩)

/-! ### name resolution (`GateLibrary.get_gate_f`) -/

theorem gateName_ok {lib : GateLib} {n t : String} :
    lib.gateName n = .ok t ↔
      (lib.gateSet.contains n = true ∧ t = n) ∨
      (lib.gateSet.contains n = false ∧ ∃ p, lib.aliases.find? (·.1 == n) = some p ∧ p.2 = t) := by
  unfold GateLib.gateName
  cases hc : lib.gateSet.contains n
  · simp only [Bool.false_eq_true, if_false, false_and, true_and, false_or]
    cases hf : lib.aliases.find? (·.1 == n) with
    | none => simp
    | some p => obtain ⟨a, t'⟩ := p; simp
  · simp [eq_comm]

theorem gateName_error {lib : GateLib} {n : String} {e : Err} :
    lib.gateName n = .error e ↔
      e = .value ∧ lib.gateSet.contains n = false ∧ ∀ p ∈ lib.aliases, p.1 ≠ n := by
  unfold GateLib.gateName
  cases hc : lib.gateSet.contains n
  · simp only [Bool.false_eq_true, if_false, true_and]
    cases hf : lib.aliases.find? (·.1 == n) with
    | none =>
      have := List.find?_eq_none.1 hf
      simp only [Except.error.injEq]
      constructor
      · rintro rfl; exact ⟨rfl, fun p hp => by simpa using this p hp⟩
      · rintro ⟨rfl, _⟩; rfl
    | some p =>
      obtain ⟨a, t'⟩ := p
      have h1 := List.mem_of_find?_eq_some hf
      have h2 := List.find?_some hf
      constructor
      · intro h; cases h
      · rintro ⟨_, h⟩
        exact absurd (by simpa using h2) (h _ h1)
  · simp

/-- the default library obeys the discipline `tableTyped` -/
theorem defaultLib_typed : tableTyped defaultLib.table = true := by decide

/-! ### constructor failures -/

theorem mkAxis_error_value {v : Vec3 α} {e : Err} (h : mkAxis v = .error e) : e = .value := by
  simp only [mkAxis] at h
  split at h <;> cases h; rfl

theorem mkBSR_error_value {atol : α} {q : Int} {ax : Vec3 α} {an ph : α} {e : Err}
    (h : mkBSR atol q ax an ph = .error e) : e = .value := by
  unfold mkBSR at h
  rcases bind_error.1 h with h | ⟨_, _, h⟩
  · exact mkAxis_error_value h
  · cases h

/-! ### a toy scalar, for closed examples only -/

/-- integers with trivial "transcendental" functions: enough to *run* the structural part of the model inside
    the kernel.  No theorem depends on it; it only serves to show that hypotheses are satisfiable. -/
structure Toy where
  v : Int
deriving DecidableEq, Inhabited

instance : Scalar Toy where
  add a b := ⟨a.v + b.v⟩
  sub a b := ⟨a.v - b.v⟩
  mul a b := ⟨a.v * b.v⟩
  div a b := ⟨a.v / b.v⟩
  neg a := ⟨-a.v⟩
  lt a b := a.v < b.v
  le a b := a.v ≤ b.v
  natCast n := ⟨n⟩
  pi := ⟨3⟩
  sin := id
  cos := id
  tan := id
  acos := id
  sqrt := id
  atan2 a _ := a
  floor := id
  abs a := ⟨a.v.natAbs⟩
  copysign a _ := a
  finite _ := true
  ofScientific m s e := ⟨if s then 0 else m * 10 ^ e⟩
  decLt a b := inferInstanceAs (Decidable (a.v < b.v))
  decLe a b := inferInstanceAs (Decidable (a.v ≤ b.v))
  decEqB a b := a.v == b.v

theorem toy_axis_x : mkAxis ((intToScalar 1, intToScalar 0, intToScalar 0) : Vec3 Toy) = .ok (one, zero, zero) := rfl
theorem toy_axis_z : mkAxis ((intToScalar 0, intToScalar 0, intToScalar 1) : Vec3 Toy) = .ok (zero, zero, one) := rfl
theorem toy_axis_id : mkAxis ((one, zero, zero) : Vec3 Toy) = .ok (one, zero, zero) := rfl

/-! ### examples (non-vacuity) -/

/-- `evalGate_wf`, `callGate_idem`, `callGate_operands` on `CNOT(0, 1)` of the default table -/
example : ∃ g nm, callGate (⟨0⟩ : Toy) Gen.gateTable "CNOT" [Arg.int 0, Arg.qubit 1] = .ok (g, nm) ∧
    nm.args = [Arg.qubit 0, Arg.qubit 1] ∧ g.operands = [0, 1] ∧ hasDup g.operands = false ∧
    callGate (⟨0⟩ : Toy) Gen.gateTable nm.name nm.args = .ok (g, nm) := by
  have hf : Gen.gateTable.find? (·.name == "CNOT") = some
      { name := "CNOT", params := [("control", Kind.qubit), ("target", Kind.qubit)],
        body := (GExpr.ctrl "control" (GExpr.call "X" ["target"])) } := rfl
  have hx : Gen.gateTable.find? (·.name == "X") = some
      { name := "X", params := [("q", Kind.qubit)],
        body := (GExpr.bsr "q" 1 0 0 SExpr.pi (SExpr.div SExpr.pi (SExpr.nat 2))) } := rfl
  have h : callGate (⟨0⟩ : Toy) Gen.gateTable "CNOT" [Arg.int 0, Arg.qubit 1] = .ok
      (.ctrl 0 (.bsr 1 (one, zero, zero) (normalizeAngle ⟨0⟩ π) (normalizeAngle ⟨0⟩ (π / sc 2))),
        ⟨"CNOT", [Arg.qubit 0, Arg.qubit 1]⟩) := by
    rw [callGate, hf]
    simp [bindArgs, GExpr.eval, envQubit, Env.find?, evalNamed, hx, SExpr.eval, bind, Except.bind, pure,
      Except.pure, mkBSR, toy_axis_x, mkCtrl, hasDup, Gate.operands]
  obtain ⟨d, env, _, _, _, he, _⟩ := callGate_ok.1 h
  have hop := callGate_operands (by decide) h
  exact ⟨_, _, h, rfl, rfl, (evalGate_wf he).2.2.2, callGate_idem h⟩

end OSq

#print axioms OSq.bindArgs_idem
#print axioms OSq.evalGate_wf
#print axioms OSq.eval_operands
#print axioms OSq.eval_operands_partial
#print axioms OSq.callGate_idem
#print axioms OSq.callMeasure_idem
#print axioms OSq.callReset_idem
#print axioms OSq.callGate_operands
#print axioms OSq.gateName_ok
#print axioms OSq.gateName_error
#print axioms OSq.defaultLib_typed
