import OSq.Proofs.InstrWF
/-
  OSq.Proofs.Parser — the expansion of libqasm's semantic AST into the IR (`OSq/Model/Front.lean`: `layout`,
  `rangeOf`, `operandIndices`, `zipAll`, `parseStmt`, `parseAst`; Python `parser/libqasm/parser.py`,
  `register_manager.py`).  Property C09 ("element-wise expansion in source order; variables laid out consecutively in
  declaration order; register sizes are the sums") and the parser side of C13.  Core Lean only, generic in the scalar.

  Definitions used in the statements
  * `layoutFrom`, `sizeSum`, `varsOf`   reference layout, sum of sizes, variables of one kind in declaration order.
  * `Operand.subOk`, `Operand.subOk'`   sub-indices of an index reference lie inside the variable.
  * `Operand.varName`, `Operand.argAt`, `Operand.column`, `expandGateOperand`, `gateOpCount`, `mkGateStmt`,
    `GateShape`                named parts of the gate branch of `parseStmt`.
  * `zipLen`                   length of the shortest list.
  * `AstStmt.typed`            operands in qubit positions of the resolved gate are qubit operands.

  Theorems
  * `layout_eq`, `layout_spec` `layout vars qb` = consecutive ranges in declaration order, total = Σ sizes, every range
                               below the total, consecutive, pairwise disjoint.
  * `rangeOf_mem`, `rangeOf_of_nodup`   lookup returns an entry; with distinct names, *the* entry.
  * `operandIndices_varRef/_indexRef/_ok/_length`   whole variable ↦ `[first..first+size-1]`, index list ↦ `first + i`.
  * `operandIndices_spec`, `operandIndices_in_var`, `operandIndices_inRange`, `operandIndices_disjoint`   indices lie in the variable's
                               range, hence below the register size; different variables give disjoint sets.
  * `zipAll_spec`, `zipAll_eq_of_length`, `zipAll_pair`, `zipAll_congr`   `zip(*ls)`: as many tuples as the shortest
                               list, `i`-th tuple = `i`-th elements in order.
  * `zipAll_columns`           the `Σ sizes` copies of a literal can be replaced by any `N ≥ k` copies (e.g. `k`).
  * `parseStmt_gate_eq`, `parseStmt_gate_spec`   gate statement with qubit operands of common length `k` ↦ for
                               `i = 0..k-1` in order the instruction on the `i`-th elements and the literals.
  * `parseStmt_measure_spec`, `parseStmt_measure_unknown`   `i`-th bit from `i`-th qubit (AST lists the bit first).
  * `parseStmt_reset_spec` (= `parseStmt_reset_all`), `parseStmt_reset_ops`   no operand ⇒ every qubit `0..nq-1` in order.
  * `lookup_spec`              gate set first, then aliases, else `ValueError`.
  * `parseAst_order`           circuit statements = concatenation of the expansions in source order; register sizes
                               are the sums of the variable sizes.
  * `parseStmt_wf`, `parse_wf_partial` (C13) sub-indices within variables + `AstStmt.typed` + `tableTyped` + successful
                               expansion ⇒ `Circuit.wf`.

  Note: `containsStr` (Python `in`) is defined through `String.splitOn`, which the kernel cannot evaluate on literals;
  the closed example at the end therefore takes five such facts (`"measure" in "measure"` …) as hypotheses — they are
  `#eval`-checked right before it.
-/
namespace OSq

/-! ### `layout` (`Register.from_ast`) -/

/-- reference description of the register layout: consecutive ranges from `start` on, in list order -/
def layoutFrom : Nat → List VarDecl → List (String × Nat × Nat)
  | _, [] => []
  | start, v :: vs => (v.name, start, v.size) :: layoutFrom (start + v.size) vs

/-- sum of the sizes -/
def sizeSum (vs : List VarDecl) : Nat := (vs.map (·.size)).sum

/-- the variables of one kind (qubit / bit), in declaration order -/
def varsOf (vars : List VarDecl) (qubit : Bool) : List VarDecl := vars.filter (·.isQubit == qubit)

theorem sizeSum_cons (v : VarDecl) (vs : List VarDecl) : sizeSum (v :: vs) = v.size + sizeSum vs := by
  simp [sizeSum]

theorem sizeSum_append (us vs : List VarDecl) : sizeSum (us ++ vs) = sizeSum us + sizeSum vs := by
  simp [sizeSum]

theorem layout_fold (vs : List VarDecl) (acc : List (String × Nat × Nat)) (s : Nat) :
    vs.foldl (fun (acc : List (String × Nat × Nat) × Nat) v => (acc.1 ++ [(v.name, acc.2, v.size)], acc.2 + v.size))
      (acc, s) = (acc ++ layoutFrom s vs, s + sizeSum vs) := by
  induction vs generalizing acc s with
  | nil => simp [layoutFrom, sizeSum]
  | cons v vs ih =>
    simp only [List.foldl_cons, ih, layoutFrom, sizeSum_cons]
    simp [Nat.add_assoc]

/-- `layout` computes the reference layout and the sum of the sizes -/
theorem layout_eq (vars : List VarDecl) (qb : Bool) :
    layout vars qb = (layoutFrom 0 (varsOf vars qb), sizeSum (varsOf vars qb)) := by
  unfold layout varsOf
  rw [layout_fold]; simp

theorem layoutFrom_length (s : Nat) (vs : List VarDecl) : (layoutFrom s vs).length = vs.length := by
  induction vs generalizing s with
  | nil => rfl
  | cons v vs ih => simp [layoutFrom, ih]

/-- the `i`-th entry: name and size of the `i`-th variable, first index = start + sizes of the earlier ones -/
theorem layoutFrom_get (s : Nat) (vs : List VarDecl) (i : Nat) :
    (layoutFrom s vs)[i]? = vs[i]?.map fun v => (v.name, s + sizeSum (vs.take i), v.size) := by
  induction vs generalizing s i with
  | nil => simp [layoutFrom]
  | cons v vs ih =>
    cases i with
    | zero => simp [layoutFrom, sizeSum]
    | succ i =>
      simp only [layoutFrom, List.getElem?_cons_succ, ih, List.take_succ_cons, sizeSum_cons]
      cases vs[i]? <;> simp [Nat.add_assoc]

/-- every range of the layout lies between `start` and `start + Σ sizes` -/
theorem layoutFrom_bounds (s : Nat) (vs : List VarDecl) :
    ∀ e ∈ layoutFrom s vs, s ≤ e.2.1 ∧ e.2.1 + e.2.2 ≤ s + sizeSum vs := by
  induction vs generalizing s with
  | nil => simp [layoutFrom]
  | cons v vs ih =>
    intro e he
    simp only [layoutFrom, List.mem_cons] at he
    rcases he with rfl | he
    · simp [sizeSum_cons]
    · have := ih _ e he
      simp only [sizeSum_cons]; omega

/-- the ranges are pairwise disjoint and ordered: an earlier variable ends before a later one starts -/
theorem layoutFrom_pairwise (s : Nat) (vs : List VarDecl) :
    (layoutFrom s vs).Pairwise fun e₁ e₂ => e₁.2.1 + e₁.2.2 ≤ e₂.2.1 := by
  induction vs generalizing s with
  | nil => simp [layoutFrom]
  | cons v vs ih =>
    simp only [layoutFrom, List.pairwise_cons]
    exact ⟨fun e he => (layoutFrom_bounds _ vs e he).1, ih _⟩

/-- the ranges are consecutive: each starts where the previous one ends -/
theorem layoutFrom_consecutive (s : Nat) (vs : List VarDecl) (i : Nat) (e e' : String × Nat × Nat)
    (h : (layoutFrom s vs)[i]? = some e) (h' : (layoutFrom s vs)[i + 1]? = some e') :
    e'.2.1 = e.2.1 + e.2.2 := by
  rw [layoutFrom_get] at h h'
  cases hv : vs[i]? with
  | none => simp [hv] at h
  | some v =>
    cases hv' : vs[i + 1]? with
    | none => simp [hv'] at h'
    | some v' =>
      simp only [hv, hv', Option.map_some, Option.some.injEq] at h h'
      subst h h'
      have : vs.take (i + 1) = vs.take i ++ [v] := by
        rw [List.take_add_one, hv]; rfl
      simp [this, sizeSum, Nat.add_assoc]

/-- **`layout_spec`** (C09).  For `(lay, total) := layout vars qb` and `vs` the variables of that kind in
    declaration order: `total = Σ sizes`; the entries are, in declaration order, `(name, first, size)` with
    `first = Σ sizes of the earlier variables of that kind`; every range lies below `total`; ranges are consecutive
    and pairwise disjoint. -/
theorem layout_spec (vars : List VarDecl) (qb : Bool) :
    let vs := varsOf vars qb
    let lay := (layout vars qb).1
    let total := (layout vars qb).2
    total = sizeSum vs ∧ lay.length = vs.length ∧
    (∀ i, lay[i]? = vs[i]?.map fun v => (v.name, sizeSum (vs.take i), v.size)) ∧
    (∀ e ∈ lay, e.2.1 + e.2.2 ≤ total) ∧
    (∀ i e e', lay[i]? = some e → lay[i + 1]? = some e' → e'.2.1 = e.2.1 + e.2.2) ∧
    lay.Pairwise (fun e₁ e₂ => e₁.2.1 + e₁.2.2 ≤ e₂.2.1) := by
  simp only [layout_eq]
  refine ⟨trivial, layoutFrom_length _ _, ?_, ?_, ?_, layoutFrom_pairwise _ _⟩
  · intro i; simpa using layoutFrom_get 0 (varsOf vars qb) i
  · intro e he; simpa using (layoutFrom_bounds 0 _ e he).2
  · intro i e e' h h'; exact layoutFrom_consecutive 0 _ i e e' h h'

/-! ### `rangeOf`, `operandIndices` (`_get_qubits` / `_get_bits`) -/

/-- a successful lookup returns an entry of the layout -/
theorem rangeOf_mem {lay : List (String × Nat × Nat)} {n : String} {f sz : Nat}
    (h : rangeOf lay n = some (f, sz)) : (n, f, sz) ∈ lay := by
  simp only [rangeOf, Option.map_eq_some_iff] at h
  obtain ⟨⟨n', r⟩, hf, hr⟩ := h
  have h1 := List.mem_of_find?_eq_some hf
  have h2 := List.find?_some hf
  simp at h2 hr; subst h2 hr
  simpa using h1

theorem find?_of_nodup {β : Type} : ∀ {l : List (String × β)} {n : String} {v : β},
    (l.map (·.1)).Nodup → (n, v) ∈ l → l.find? (·.1 == n) = some (n, v)
  | [], _, _, _, h => by simp at h
  | (n', v') :: l, n, v, hnd, h => by
    simp only [List.map_cons, List.nodup_cons] at hnd
    rcases List.mem_cons.1 h with heq | hm
    · cases heq; simp
    · have : n' ≠ n := by
        rintro rfl
        exact hnd.1 (List.mem_map.2 ⟨(n', v), hm, rfl⟩)
      simp only [List.find?_cons]
      have h' : ((n', v').1 == n) = false := by simpa using this
      rw [h']
      exact find?_of_nodup hnd.2 hm

/-- with distinct variable names (guaranteed by libqasm) the lookup finds *the* entry of that name -/
theorem rangeOf_of_nodup {lay : List (String × Nat × Nat)} {n : String} {f sz : Nat}
    (hnd : (lay.map (·.1)).Nodup) (hm : (n, f, sz) ∈ lay) : rangeOf lay n = some (f, sz) := by
  have : (lay.reverse.map (·.1)).Nodup := by
    rw [List.map_reverse]
    unfold List.Nodup at hnd ⊢
    rw [List.pairwise_reverse]
    exact hnd.imp fun h => Ne.symm h
  simp [rangeOf, find?_of_nodup this (List.mem_reverse.2 hm)]

variable {α : Type}

/-- sub-indices of an index reference lie inside the variable (libqasm guarantees it) -/
def Operand.subOk (lay : List (String × Nat × Nat)) : Operand α → Prop
  | .indexRef n _ is => ∀ f sz, rangeOf lay n = some (f, sz) → ∀ i ∈ is, 0 ≤ i ∧ i < (sz : Int)
  | _ => True

/-- whole variable ↦ `[first, …, first+size-1]` -/
theorem operandIndices_varRef {lay : List (String × Nat × Nat)} {n : String} {q : Bool} {s f sz : Nat}
    (h : rangeOf lay n = some (f, sz)) :
    operandIndices (α := α) lay (.varRef n q s) = .ok ((List.range sz).map fun i => ((f + i : Nat) : Int)) := by
  simp [operandIndices, h]

/-- index list `is` ↦ `is.map (first + ·)` -/
theorem operandIndices_indexRef {lay : List (String × Nat × Nat)} {n : String} {q : Bool} {is : List Int}
    {f sz : Nat} (h : rangeOf lay n = some (f, sz)) :
    operandIndices (α := α) lay (.indexRef n q is) = .ok (is.map fun i => (f : Int) + i) := by
  simp [operandIndices, h]

/-- the only failures: unknown variable (`KeyError`), not a variable (`TypeError`) -/
theorem operandIndices_ok {lay : List (String × Nat × Nat)} {o : Operand α} {xs : List Int}
    (h : operandIndices lay o = .ok xs) :
    (∃ n q s f sz, o = .varRef n q s ∧ rangeOf lay n = some (f, sz) ∧
        xs = (List.range sz).map fun i => ((f + i : Nat) : Int)) ∨
    (∃ n q is f sz, o = .indexRef n q is ∧ rangeOf lay n = some (f, sz) ∧ xs = is.map fun i => (f : Int) + i) := by
  cases o with
  | varRef n q s =>
    simp only [operandIndices] at h
    cases hr : rangeOf lay n with
    | none => simp [hr] at h
    | some r => obtain ⟨f, sz⟩ := r; simp [hr] at h; exact .inl ⟨n, q, s, f, sz, rfl, hr, h.symm⟩
  | indexRef n q is =>
    simp only [operandIndices] at h
    cases hr : rangeOf lay n with
    | none => simp [hr] at h
    | some r => obtain ⟨f, sz⟩ := r; simp [hr] at h; exact .inr ⟨n, q, is, f, sz, rfl, hr, h.symm⟩
  | constInt v => simp [operandIndices] at h
  | constFloat v => simp [operandIndices] at h

/-- length of the expansion: the variable's size, resp. the number of sub-indices -/
theorem operandIndices_length {lay : List (String × Nat × Nat)} {o : Operand α} {xs : List Int}
    (h : operandIndices lay o = .ok xs) :
    (∀ n q s, o = .varRef n q s → ∃ f, rangeOf lay n = some (f, xs.length)) ∧
    (∀ n q is, o = .indexRef n q is → xs.length = is.length) := by
  rcases operandIndices_ok h with ⟨n, q, s, f, sz, rfl, hr, rfl⟩ | ⟨n, q, is, f, sz, rfl, hr, rfl⟩
  · refine ⟨?_, by intros; contradiction⟩
    intro n' q' s' h; cases h; exact ⟨f, by simpa using hr⟩
  · refine ⟨by intros; contradiction, ?_⟩
    intro n' q' is' h; cases h; simp

/-- the variable an operand refers to -/
def Operand.varName : Operand α → Option String
  | .varRef n _ _ => some n
  | .indexRef n _ _ => some n
  | _ => none

/-- the flat indices of an operand lie inside its variable's range `[first, first+size)` … -/
theorem operandIndices_in_var {lay : List (String × Nat × Nat)} {o : Operand α} {xs : List Int}
    (hs : o.subOk lay) (h : operandIndices lay o = .ok xs) :
    ∃ n f sz, o.varName = some n ∧ (n, f, sz) ∈ lay ∧ ∀ x ∈ xs, (f : Int) ≤ x ∧ x < ((f + sz : Nat) : Int) := by
  rcases operandIndices_ok h with ⟨n, q, s, f, sz, rfl, hr, rfl⟩ | ⟨n, q, is, f, sz, rfl, hr, rfl⟩
  · refine ⟨n, f, sz, rfl, rangeOf_mem hr, ?_⟩
    intro x hx
    simp only [List.mem_map, List.mem_range] at hx
    obtain ⟨i, hi, rfl⟩ := hx
    omega
  · refine ⟨n, f, sz, rfl, rangeOf_mem hr, ?_⟩
    intro x hx
    simp only [List.mem_map] at hx
    obtain ⟨i, hi, rfl⟩ := hx
    have := hs f sz hr i hi
    omega

/-- … hence inside the register -/
theorem operandIndices_inRange {lay : List (String × Nat × Nat)} {total : Nat}
    (hlay : ∀ e ∈ lay, e.2.1 + e.2.2 ≤ total) {o : Operand α} {xs : List Int}
    (hs : o.subOk lay) (h : operandIndices lay o = .ok xs) : ∀ x ∈ xs, inRange total x = true := by
  obtain ⟨n, f, sz, _, hm, hx⟩ := operandIndices_in_var hs h
  intro x hxs
  have := hx x hxs
  have := hlay _ hm
  simp only [inRange, Bool.and_eq_true, decide_eq_true_eq]
  simp only at this
  omega

/-- two different entries of a pairwise ordered layout are ordered one way or the other -/
theorem pairwise_ordered : ∀ {lay : List (String × Nat × Nat)},
    (lay.Pairwise fun e₁ e₂ => e₁.2.1 + e₁.2.2 ≤ e₂.2.1) →
    ∀ {e₁ e₂ : String × Nat × Nat}, e₁ ∈ lay → e₂ ∈ lay → e₁ ≠ e₂ →
      e₁.2.1 + e₁.2.2 ≤ e₂.2.1 ∨ e₂.2.1 + e₂.2.2 ≤ e₁.2.1
  | [], _, _, _, m₁, _, _ => by simp at m₁
  | e :: lay, hpw, e₁, e₂, m₁, m₂, hne => by
    rw [List.pairwise_cons] at hpw
    rcases List.mem_cons.1 m₁ with h₁ | h₁
    · rcases List.mem_cons.1 m₂ with h₂ | h₂
      · exact absurd (h₁.trans h₂.symm) hne
      · subst h₁; exact .inl (hpw.1 _ h₂)
    · rcases List.mem_cons.1 m₂ with h₂ | h₂
      · subst h₂; exact .inr (hpw.1 _ h₁)
      · exact pairwise_ordered hpw.2 h₁ h₂ hne

/-- two operands referring to *different* variables of a layout with pairwise disjoint ranges expand to
    disjoint index sets -/
theorem operandIndices_disjoint {lay : List (String × Nat × Nat)}
    (hpw : lay.Pairwise fun e₁ e₂ => e₁.2.1 + e₁.2.2 ≤ e₂.2.1)
    {o₁ o₂ : Operand α} {xs₁ xs₂ : List Int} (hs₁ : o₁.subOk lay) (hs₂ : o₂.subOk lay)
    (h₁ : operandIndices lay o₁ = .ok xs₁) (h₂ : operandIndices lay o₂ = .ok xs₂)
    (hne : o₁.varName ≠ o₂.varName) : ∀ x, x ∈ xs₁ → x ∉ xs₂ := by
  obtain ⟨n₁, f₁, s₁, hn₁, hm₁, hx₁⟩ := operandIndices_in_var hs₁ h₁
  obtain ⟨n₂, f₂, s₂, hn₂, hm₂, hx₂⟩ := operandIndices_in_var hs₂ h₂
  have hne' : (n₁, f₁, s₁) ≠ (n₂, f₂, s₂) := by
    intro h; cases h; exact hne (hn₁.trans hn₂.symm)
  intro x h1 h2
  have a := hx₁ x h1
  have b := hx₂ x h2
  rcases pairwise_ordered hpw hm₁ hm₂ hne' with h | h <;> simp only at h <;> omega

/-- **`operandIndices_spec`** (C09), the four facts together, for a layout whose ranges lie below `total` and are
    pairwise disjoint (as `layout_spec` provides) -/
theorem operandIndices_spec {lay : List (String × Nat × Nat)} {total : Nat}
    (hlay : ∀ e ∈ lay, e.2.1 + e.2.2 ≤ total) (hpw : lay.Pairwise fun e₁ e₂ => e₁.2.1 + e₁.2.2 ≤ e₂.2.1) :
    (∀ n q s f sz, rangeOf lay n = some (f, sz) →
      operandIndices (α := α) lay (.varRef n q s) = .ok ((List.range sz).map fun i => ((f + i : Nat) : Int))) ∧
    (∀ n q is f sz, rangeOf lay n = some (f, sz) →
      operandIndices (α := α) lay (.indexRef n q is) = .ok (is.map fun i => (f : Int) + i)) ∧
    (∀ (o : Operand α) xs, o.subOk lay → operandIndices lay o = .ok xs → ∀ x ∈ xs, inRange total x = true) ∧
    (∀ (o₁ o₂ : Operand α) xs₁ xs₂, o₁.subOk lay → o₂.subOk lay → operandIndices lay o₁ = .ok xs₁ →
      operandIndices lay o₂ = .ok xs₂ → o₁.varName ≠ o₂.varName → ∀ x, x ∈ xs₁ → x ∉ xs₂) :=
  ⟨fun _ _ _ _ _ h => operandIndices_varRef h, fun _ _ _ _ _ h => operandIndices_indexRef h,
   fun _ _ hs h => operandIndices_inRange hlay hs h,
   fun _ _ _ _ hs₁ hs₂ h₁ h₂ hne => operandIndices_disjoint hpw hs₁ hs₂ h₁ h₂ hne⟩

/-! ### `zipAll` (Python `zip(*lists)`) -/

theorem foldl_min_le (ns : List Nat) (m : Nat) :
    ns.foldl min m ≤ m ∧ ∀ n ∈ ns, ns.foldl min m ≤ n := by
  induction ns generalizing m with
  | nil => simp
  | cons a ns ih =>
    obtain ⟨h1, h2⟩ := ih (min m a)
    simp only [List.foldl_cons, List.mem_cons]
    refine ⟨by omega, ?_⟩
    rintro n (rfl | hn)
    · omega
    · exact h2 n hn

theorem foldl_min_attained (ns : List Nat) (m : Nat) : ns.foldl min m = m ∨ ns.foldl min m ∈ ns := by
  induction ns generalizing m with
  | nil => simp
  | cons a ns ih =>
    simp only [List.foldl_cons, List.mem_cons]
    rcases ih (min m a) with h | h
    · rcases Nat.le_total m a with hma | ham
      · left; rw [h]; omega
      · right; left; rw [h]; omega
    · right; right; exact h

variable {β : Type}

/-- number of tuples `zip(*ls)` yields: the length of the shortest list -/
def zipLen (ls : List (List β)) : Nat := (ls.map List.length).foldl min (ls.head!.length)

theorem zipAll_cons (l : List β) (ls : List (List β)) :
    zipAll (l :: ls) = (List.range (zipLen (l :: ls))).map fun i => (l :: ls).filterMap fun l => l[i]? := by
  simp [zipAll, zipLen]

theorem zipAll_nil : zipAll ([] : List (List β)) = [] := rfl

theorem zipLen_le {ls : List (List β)} : ∀ l ∈ ls, zipLen ls ≤ l.length := by
  intro l hl
  exact (foldl_min_le _ _).2 _ (List.mem_map.2 ⟨l, hl, rfl⟩)

theorem zipLen_attained {ls : List (List β)} (h : ls ≠ []) : ∃ l ∈ ls, zipLen ls = l.length := by
  cases ls with
  | nil => exact absurd rfl h
  | cons l ls =>
    rcases foldl_min_attained (((l :: ls).map List.length)) ((l :: ls).head!.length) with h | h
    · exact ⟨l, by simp, h⟩
    · obtain ⟨l', hl', he⟩ := List.mem_map.1 h
      exact ⟨l', hl', he.symm⟩

/-- a complete column: if every list has an `i`-th element, the `i`-th tuple lists them in order -/
theorem column_all₂ {i : Nat} : ∀ {ls : List (List β)}, (∀ l ∈ ls, i < l.length) →
    All₂ (fun l x => l[i]? = some x) ls (ls.filterMap fun l => l[i]?)
  | [], _ => .nil
  | l :: ls, h => by
    have hl : i < l.length := h l (by simp)
    have : l[i]? = some l[i] := by simp [hl]
    simp only [List.filterMap_cons, this]
    exact .cons this (column_all₂ fun l' hl' => h l' (List.mem_cons_of_mem _ hl'))

/-- **`zipAll_spec`**: `zipAll ls` has as many tuples as the shortest list has elements (none for `[]`), and
    its `i`-th tuple consists of the `i`-th elements of the lists, in order. -/
theorem zipAll_spec (ls : List (List β)) :
    (ls = [] → zipAll ls = []) ∧
    (∀ l ∈ ls, (zipAll ls).length ≤ l.length) ∧
    (ls ≠ [] → ∃ l ∈ ls, (zipAll ls).length = l.length) ∧
    (∀ (i : Nat) (h : i < (zipAll ls).length), All₂ (fun l x => l[i]? = some x) ls (zipAll ls)[i]) := by
  cases ls with
  | nil => simp [zipAll_nil]
  | cons l ls =>
    have hlen : (zipAll (l :: ls)).length = zipLen (l :: ls) := by simp [zipAll_cons]
    refine ⟨by simp, ?_, ?_, ?_⟩
    · intro l' hl'; rw [hlen]; exact zipLen_le l' hl'
    · intro _; rw [hlen]; exact zipLen_attained (by simp)
    · intro i h
      rw [hlen] at h
      have : (zipAll (l :: ls))[i] = (l :: ls).filterMap fun l => l[i]? := by simp [zipAll_cons]
      rw [this]
      exact column_all₂ fun l' hl' => Nat.lt_of_lt_of_le h (zipLen_le l' hl')

/-- lists of equal length `k`: exactly `k` tuples -/
theorem zipAll_eq_of_length {ls : List (List β)} {k : Nat} (hne : ls ≠ []) (h : ∀ l ∈ ls, l.length = k) :
    zipAll ls = (List.range k).map fun i => ls.filterMap fun l => l[i]? := by
  cases ls with
  | nil => exact absurd rfl hne
  | cons l ls =>
    obtain ⟨l', hl', he⟩ := zipLen_attained (ls := l :: ls) (by simp)
    rw [zipAll_cons, he, h l' hl']

/-- only the first `zipLen` elements of each list matter: truncating longer lists changes nothing -/
theorem zipAll_congr {ls ls' : List (List β)} (hl : zipLen ls = zipLen ls')
    (h : All₂ (fun l l' => ∀ i, i < zipLen ls → l[i]? = l'[i]?) ls ls') : zipAll ls = zipAll ls' := by
  cases h with
  | nil => rfl
  | cons h1 hrest =>
    rename_i a b tl r
    rw [zipAll_cons, zipAll_cons, ← hl]
    apply List.map_congr_left
    intro i hi
    have hi' : i < zipLen (a :: tl) := by simpa using hi
    have key : ∀ {m m' : List (List β)}, All₂ (fun l l' => ∀ i, i < zipLen (a :: tl) → l[i]? = l'[i]?) m m' →
        (m.filterMap fun l => l[i]?) = m'.filterMap fun l => l[i]? := by
      intro m m' hm
      induction hm with
      | nil => rfl
      | cons hab _ ih => simp only [List.filterMap_cons, hab i hi', ih]
    exact key (.cons h1 hrest)

/-! ### `parseStmt`: gate statements -/

theorem mapM_of_forall {ε γ δ : Type} {f : γ → Except ε δ} {g : γ → δ} :
    ∀ {l : List γ}, (∀ a ∈ l, f a = .ok (g a)) → l.mapM f = .ok (l.map g)
  | [], _ => rfl
  | a :: l, h => by
    rw [List.mapM_cons, h a (by simp), mapM_of_forall fun b hb => h b (List.mem_cons_of_mem _ hb)]
    rfl

theorem mapM_congr_mem {ε γ δ : Type} {f g : γ → Except ε δ} :
    ∀ {l : List γ}, (∀ a ∈ l, f a = g a) → l.mapM f = l.mapM g
  | [], _ => rfl
  | a :: l, h => by
    rw [List.mapM_cons, List.mapM_cons, h a (by simp),
      mapM_congr_mem (l := l) fun b hb => h b (List.mem_cons_of_mem _ hb)]

theorem filterMap_congr' {γ δ : Type} {f g : γ → Option δ} :
    ∀ {l : List γ}, (∀ a ∈ l, f a = g a) → l.filterMap f = l.filterMap g
  | [], _ => rfl
  | a :: l, h => by
    simp only [List.filterMap_cons, h a (by simp),
      filterMap_congr' (l := l) fun b hb => h b (List.mem_cons_of_mem _ hb)]

variable [Scalar α]

/-- expansion of one operand of a gate statement (`_get_expanded_gate_args`); a literal is repeated `N` times -/
def expandGateOperand (qlay : List (String × Nat × Nat)) (N : Nat) (o : Operand α) : Except Err (List (Arg α)) :=
  if o.isQ then (operandIndices qlay o).map (·.map (Arg.qubit (α := α)))
  else match o with
    | .constInt v => pure (List.replicate N (Arg.int v))
    | .constFloat v => pure (List.replicate N (Arg.float v))
    | _ => throw Err.type

/-- `number_of_operands`: the sum of the sizes of the qubit operands -/
def gateOpCount (ops : List (Operand α)) : Nat := (ops.filter Operand.isQ).foldl (fun acc o => acc + o.sizeOf) 0

/-- one IR gate statement from one argument tuple -/
def mkGateStmt (atol : α) (lib : GateLib) (n : String) (as : List (Arg α)) : Except Err (Stmt α) := do
  let (g, nm) ← callGate atol lib.table n as
  pure (Stmt.gate g (some nm))

/-- the gate branch of `parseStmt`, named parts -/
theorem parseStmt_gate_eq {atol : α} {lib : GateLib} {qlay blay : List (String × Nat × Nat)} {nq : Nat}
    {s : AstStmt α} (hm : containsStr s.name "measure" = false) (hr : containsStr s.name "reset" = false) :
    parseStmt atol lib qlay blay nq s = (do
      let n ← lib.gateName s.name
      let lists ← s.operands.mapM (expandGateOperand qlay (gateOpCount s.operands))
      (zipAll lists).mapM (mkGateStmt atol lib n)) := by
  simp only [parseStmt, hm, hr, Bool.false_eq_true, if_false]
  rfl

/-- the `i`-th argument an operand contributes: its `i`-th qubit, or the literal itself -/
def Operand.argAt (qlay : List (String × Nat × Nat)) (i : Nat) : Operand α → Option (Arg α)
  | .constInt v => some (.int v)
  | .constFloat v => some (.float v)
  | o => match operandIndices qlay o with
    | .ok xs => xs[i]?.map Arg.qubit
    | .error _ => none

/-- the argument list of an operand when literals are repeated `N` times -/
def Operand.column (qlay : List (String × Nat × Nat)) (N : Nat) (o : Operand α) : List (Arg α) :=
  match expandGateOperand qlay N o with
  | .ok l => l
  | .error _ => []

omit [Scalar α] in
theorem foldl_sizeOf_ge (l : List (Operand α)) (a : Nat) :
    a ≤ l.foldl (fun acc o => acc + o.sizeOf) a ∧ ∀ o ∈ l, a + o.sizeOf ≤ l.foldl (fun acc o => acc + o.sizeOf) a := by
  induction l generalizing a with
  | nil => simp
  | cons x l ih =>
    obtain ⟨h1, h2⟩ := ih (a + x.sizeOf)
    simp only [List.foldl_cons, List.mem_cons]
    refine ⟨by omega, ?_⟩
    rintro o (rfl | ho)
    · exact h1
    · have := h2 o ho; omega

/-- well-sorted gate statement: every qubit operand expands to `k` indices (and libqasm's size of it is `k` too),
    every other operand is a literal -/
structure GateShape (qlay : List (String × Nat × Nat)) (k : Nat) (ops : List (Operand α)) : Prop where
  someQubit : ∃ o ∈ ops, o.isQ = true
  qubits : ∀ o ∈ ops, o.isQ = true → ∃ xs, operandIndices qlay o = .ok xs ∧ xs.length = k ∧ o.sizeOf = k
  literals : ∀ o ∈ ops, o.isQ = false → (∃ v, o = .constInt v) ∨ ∃ v, o = .constFloat v

omit [Scalar α] in
theorem GateShape.count_ge {qlay : List (String × Nat × Nat)} {k : Nat} {ops : List (Operand α)}
    (h : GateShape qlay k ops) : k ≤ gateOpCount ops := by
  obtain ⟨o, ho, hq⟩ := h.someQubit
  obtain ⟨xs, _, _, hsz⟩ := h.qubits o ho hq
  have := (foldl_sizeOf_ge (ops.filter Operand.isQ) 0).2 o (List.mem_filter.2 ⟨ho, hq⟩)
  unfold gateOpCount; omega

omit [Scalar α] in
theorem GateShape.expand {qlay : List (String × Nat × Nat)} {k : Nat} {ops : List (Operand α)}
    (h : GateShape qlay k ops) (N : Nat) (hN : k ≤ N) :
    ∀ o ∈ ops, expandGateOperand qlay N o = .ok (o.column qlay N) ∧ k ≤ (o.column qlay N).length ∧
      (o.isQ = true → (o.column qlay N).length = k) ∧
      ∀ i, i < k → (o.column qlay N)[i]? = o.argAt qlay i := by
  intro o ho
  cases hq : o.isQ with
  | true =>
    obtain ⟨xs, hxs, hlen, _⟩ := h.qubits o ho hq
    have he : expandGateOperand qlay N o = .ok (xs.map Arg.qubit) := by
      simp [expandGateOperand, hq, hxs, Except.map]
    have hc : o.column qlay N = xs.map Arg.qubit := by simp [Operand.column, he]
    refine ⟨by rw [hc, he], by simp [hc, hlen], fun _ => by simp [hc, hlen], ?_⟩
    intro i hi
    rw [hc]
    cases o with
    | varRef n q sz => simp [Operand.argAt, hxs]
    | indexRef n q is => simp [Operand.argAt, hxs]
    | constInt v => simp [Operand.isQ] at hq
    | constFloat v => simp [Operand.isQ] at hq
  | false =>
    rcases h.literals o ho hq with ⟨v, rfl⟩ | ⟨v, rfl⟩
    · have he : expandGateOperand qlay N (.constInt v : Operand α) = .ok (List.replicate N (Arg.int v)) := by
        simp [expandGateOperand, Operand.isQ, pure, Except.pure]
      have hc : (Operand.constInt v : Operand α).column qlay N = List.replicate N (Arg.int v) := by
        simp [Operand.column, he]
      refine ⟨by rw [hc, he], by simp [hc, hN], by simp, ?_⟩
      intro i hi
      have : i < N := by omega
      simp [hc, Operand.argAt, this]
    · have he : expandGateOperand qlay N (.constFloat v : Operand α) = .ok (List.replicate N (Arg.float v)) := by
        simp [expandGateOperand, Operand.isQ, pure, Except.pure]
      have hc : (Operand.constFloat v : Operand α).column qlay N = List.replicate N (Arg.float v) := by
        simp [Operand.column, he]
      refine ⟨by rw [hc, he], by simp [hc, hN], by simp, ?_⟩
      intro i hi
      have : i < N := by omega
      simp [hc, Operand.argAt, this]

omit [Scalar α] in
/-- Python lets `zip` cut the `Σ sizes` copies of each literal down to the common length `k` of the qubit operands:
    the tuples are the same for *any* number `N ≥ k` of copies — in particular for `N = k`. -/
theorem zipAll_columns {qlay : List (String × Nat × Nat)} {k : Nat} {ops : List (Operand α)}
    (h : GateShape qlay k ops) (N : Nat) (hN : k ≤ N) :
    zipAll (ops.map (Operand.column qlay N)) = (List.range k).map fun i => ops.filterMap (Operand.argAt qlay i) := by
  have hex := h.expand N hN
  have hne : ops.map (Operand.column qlay N) ≠ [] := by
    obtain ⟨o, ho, _⟩ := h.someQubit
    intro he; rw [List.map_eq_nil_iff] at he; subst he; simp at ho
  have hlen : zipLen (ops.map (Operand.column qlay N)) = k := by
    apply Nat.le_antisymm
    · obtain ⟨o, ho, hq⟩ := h.someQubit
      have := zipLen_le (ls := ops.map (Operand.column qlay N)) _ (List.mem_map.2 ⟨o, ho, rfl⟩)
      rw [(hex o ho).2.2.1 hq] at this; exact this
    · obtain ⟨l, hl, he⟩ := zipLen_attained hne
      obtain ⟨o, ho, rfl⟩ := List.mem_map.1 hl
      rw [he]; exact (hex o ho).2.1
  obtain ⟨l0, ls0, h0⟩ := List.exists_cons_of_ne_nil hne
  rw [h0, zipAll_cons, ← h0, hlen]
  apply List.map_congr_left
  intro i hi
  have hi' : i < k := by simpa using hi
  rw [List.filterMap_map]
  apply filterMap_congr'
  intro o ho
  exact (hex o ho).2.2.2 i hi'

/-- **`parseStmt_gate_spec`** (C09): a gate statement whose qubit operands all have `k` elements becomes, for
    `i = 0, …, k-1` in this order, the instruction applied to the `i`-th element of each qubit operand and the
    (repeated) literal parameters. -/
theorem parseStmt_gate_spec {atol : α} {lib : GateLib} {qlay blay : List (String × Nat × Nat)} {nq k : Nat}
    {s : AstStmt α} (hm : containsStr s.name "measure" = false) (hr : containsStr s.name "reset" = false)
    (hs : GateShape qlay k s.operands) :
    parseStmt atol lib qlay blay nq s = (do
      let n ← lib.gateName s.name
      (List.range k).mapM fun i => mkGateStmt atol lib n (s.operands.filterMap (Operand.argAt qlay i))) := by
  rw [parseStmt_gate_eq hm hr]
  have hN := hs.count_ge
  rw [mapM_of_forall (g := Operand.column qlay (gateOpCount s.operands)) fun o ho => (hs.expand _ hN o ho).1]
  cases lib.gateName s.name with
  | error e => rfl
  | ok n =>
    simp only [bind, Except.bind]
    rw [zipAll_columns hs _ hN, List.mapM_map]
    rfl

/-! ### `parseStmt`: measure and reset statements -/

omit [Scalar α] in
/-- `zip(xs, ys)` -/
theorem zipAll_pair (xs ys : List β) : zipAll [xs, ys] = (xs.zip ys).map fun p => [p.1, p.2] := by
  rw [zipAll_cons]
  have hl : zipLen [xs, ys] = min xs.length ys.length := by
    have : [xs, ys].head! = xs := rfl
    simp [zipLen, this]
  rw [hl]
  apply List.ext_getElem?
  intro i
  by_cases hi : i < min xs.length ys.length
  · have h1 : i < xs.length := by omega
    have h2 : i < ys.length := by omega
    simp [hi, h1, h2]
  · have : ¬ (i < xs.length ∧ i < ys.length) := by omega
    simp only [List.getElem?_map]
    have h1 : (List.range (min xs.length ys.length))[i]? = none := by simp; omega
    have h2 : (xs.zip ys)[i]? = none := by simp [List.length_zip]; omega
    simp [h1, h2]

/-- **`parseStmt_measure_spec`** (C09): `measure` with the bit operand first and the qubit operand second (as in
    libqasm's AST; the code walks the operands in reverse): the `i`-th bit receives the outcome of the `i`-th
    qubit, in order; the shorter operand decides the count. -/
theorem parseStmt_measure_spec {atol : α} {lib : GateLib} {qlay blay : List (String × Nat × Nat)} {nq : Nat}
    {s : AstStmt α} {ob oq : Operand α} {qs bs : List Int}
    (hm : containsStr s.name "measure" = true) (hset : lib.measureSet.contains s.name = true)
    (hops : s.operands = [ob, oq]) (hq : oq.isQ = true) (hbq : ob.isQ = false) (hbb : ob.isB = true)
    (hqs : operandIndices qlay oq = .ok qs) (hbs : operandIndices blay ob = .ok bs) :
    parseStmt atol lib qlay blay nq s =
      (qs.zip bs).mapM fun p => callMeasure lib.measures s.name [Arg.qubit p.1, Arg.bit p.2] := by
  simp only [parseStmt, hm, if_true, hset, Bool.not_true, Bool.false_eq_true, if_false, hops, List.reverse_cons,
    List.reverse_nil, List.nil_append, List.singleton_append, List.mapM_cons, List.mapM_nil, hq, hbq, hbb, hqs, hbs,
    Except.map, bind, Except.bind, pure, Except.pure]
  rw [zipAll_pair, List.zip_map, List.map_map, List.mapM_map]
  rfl

/-- the unknown-name check of the measure branch -/
theorem parseStmt_measure_unknown {atol : α} {lib : GateLib} {qlay blay : List (String × Nat × Nat)} {nq : Nat}
    {s : AstStmt α} (hm : containsStr s.name "measure" = true) (hset : lib.measureSet.contains s.name = false) :
    parseStmt atol lib qlay blay nq s = .error .value := by
  simp only [parseStmt, hm, if_true, hset, Bool.not_false]
  rfl

/-- **`parseStmt_reset_spec`** (C09): `reset` without operand resets every qubit `0, …, nq-1` in order … -/
theorem parseStmt_reset_all {atol : α} {lib : GateLib} {qlay blay : List (String × Nat × Nat)} {nq : Nat}
    {s : AstStmt α} (hm : containsStr s.name "measure" = false) (hr : containsStr s.name "reset" = true)
    (hset : lib.resetSet.contains s.name = true) (hops : s.operands = []) :
    parseStmt atol lib qlay blay nq s =
      (List.range nq).mapM fun (i : Nat) => callReset lib.resets s.name [Arg.qubit (i : Int)] := by
  simp only [parseStmt, hm, hr, if_true, hset, Bool.not_true, Bool.false_eq_true, if_false, hops,
    List.isEmpty_nil, bind, Except.bind, pure, Except.pure]
  rw [List.mapM_map]
  rfl

theorem parseStmt_reset_spec {atol : α} {lib : GateLib} {qlay blay : List (String × Nat × Nat)} {nq : Nat}
    {s : AstStmt α} (hm : containsStr s.name "measure" = false) (hr : containsStr s.name "reset" = true)
    (hset : lib.resetSet.contains s.name = true) (hops : s.operands = []) :
    parseStmt atol lib qlay blay nq s =
      (List.range nq).mapM fun (i : Nat) => callReset lib.resets s.name [Arg.qubit (i : Int)] :=
  parseStmt_reset_all hm hr hset hops

/-- … and with operands, the qubits of the operands, concatenated in source order -/
theorem parseStmt_reset_ops {atol : α} {lib : GateLib} {qlay blay : List (String × Nat × Nat)} {nq : Nat}
    {s : AstStmt α} {ls : List (List Int)}
    (hm : containsStr s.name "measure" = false) (hr : containsStr s.name "reset" = true)
    (hset : lib.resetSet.contains s.name = true) (hops : s.operands ≠ [])
    (hq : ∀ o ∈ s.operands, o.isQ = true) (hls : s.operands.mapM (operandIndices qlay) = .ok ls) :
    parseStmt atol lib qlay blay nq s =
      ls.flatten.mapM fun q => callReset lib.resets s.name [Arg.qubit q] := by
  have he : s.operands.isEmpty = false := by
    cases h : s.operands with
    | nil => exact absurd h hops
    | cons _ _ => rfl
  have hmap : s.operands.mapM (fun o => if o.isQ = true then operandIndices qlay o else throw Err.type) = .ok ls := by
    rw [← hls]
    exact mapM_congr_mem fun o ho => by simp [hq o ho]
  simp only [parseStmt, hm, hr, if_true, hset, Bool.not_true, Bool.false_eq_true, if_false, he,
    bind, Except.bind, pure, Except.pure, hmap]

/-! ### `parseAst` -/

/-- **`lookup_spec`**: name resolution = gate set first, then aliases, else `ValueError` -/
theorem lookup_spec (lib : GateLib) (n : String) :
    (lib.gateSet.contains n = true → lib.gateName n = .ok n) ∧
    (lib.gateSet.contains n = false → ∀ p, lib.aliases.find? (·.1 == n) = some p → lib.gateName n = .ok p.2) ∧
    (lib.gateSet.contains n = false → (∀ p ∈ lib.aliases, p.1 ≠ n) → lib.gateName n = .error .value) := by
  refine ⟨fun h => gateName_ok.2 (.inl ⟨h, rfl⟩), fun h p hp => gateName_ok.2 (.inr ⟨h, p, hp, rfl⟩),
    fun h hp => gateName_error.2 ⟨rfl, h, hp⟩⟩

/-- **`parseAst_order`** (C09): the statements of the circuit are the expansions of the AST statements,
    concatenated in source order; the register sizes are the layout totals (= sums of the variable sizes,
    `layout_spec`). -/
theorem parseAst_order {atol : α} {lib : GateLib} {ast : Ast α} {c : Circuit α}
    (h : parseAst atol lib ast = .ok c) :
    ∃ blocks : List (List (Stmt α)),
      All₂ (fun s b => parseStmt atol lib (layout ast.vars true).1 (layout ast.vars false).1
        (layout ast.vars true).2 s = .ok b) ast.stmts blocks ∧
      c.stmts = blocks.flatten ∧ c.nQubits = sizeSum (varsOf ast.vars true) ∧
      c.nBits = sizeSum (varsOf ast.vars false) := by
  unfold parseAst at h
  simp only [bind_ok, pure, Except.pure] at h
  obtain ⟨blocks, hb, hc⟩ := h
  cases hc
  refine ⟨blocks, (mapM_ok_iff _ _ _).1 hb, rfl, ?_, ?_⟩ <;> simp [layout_eq]

/-! ### `parse_wf_partial` (C13, parser side) -/

omit [Scalar α] in
/-- sub-indices of an index reference lie inside the variable — looked up in the register of its own kind -/
def Operand.subOk' (qlay blay : List (String × Nat × Nat)) (o : Operand α) : Prop :=
  (o.isQ = true → o.subOk qlay) ∧ (o.isB = true → o.subOk blay)

/-- operands in qubit positions of the resolved gate are qubit operands (libqasm resolves the instruction by the
    operand types, so its AST satisfies this) -/
def AstStmt.typed (lib : GateLib) (s : AstStmt α) : Prop :=
  ∀ n d, lib.gateName s.name = .ok n → lib.table.find? (·.name == n) = some d →
    ((s.operands.zip d.params).all fun x => x.2.2 != Kind.qubit || x.1.isQ) = true

omit [Scalar α] in
theorem gate_env_inRange {nq : Nat} : ∀ (ops : List (Operand α)) (ps : List (String × Kind)) (as : List (Arg α))
    (env : Env α) (n' : String) (q : Int),
    All₂ (fun o x => o.isQ = true → ∃ j, x = Arg.qubit j ∧ inRange nq j = true) ops as →
    bindArgs ps as = .ok env →
    ((ops.zip ps).all fun x => x.2.2 != Kind.qubit || x.1.isQ) = true →
    (n', Arg.qubit q) ∈ env → inRange nq q = true
  | _, [], _, env, _, _, _, hb, _, hm => by simp [bindArgs] at hb; subst hb; simp at hm
  | [], _ :: _, as, env, _, _, ha, hb, _, _ => by cases ha; simp [bindArgs] at hb
  | o :: ops, (n, k) :: ps, as, env, n', q, ha, hb, hc, hm => by
    cases ha with
    | cons hox hrest =>
      rename_i x as
      obtain ⟨x', rest, hx, hr, rfl⟩ := bindArgs_cons_ok.1 hb
      simp only [List.zip_cons_cons, List.all_cons, Bool.and_eq_true] at hc
      rcases List.mem_cons.1 hm with heq | hm
      · cases heq
        have hq : o.isQ = true := by
          cases k <;> cases x <;> simp [convArg] at hx <;> simpa using hc.1
        obtain ⟨j, rfl, hj⟩ := hox hq
        cases k <;> simp [convArg] at hx
        subst hx; exact hj
      · exact gate_env_inRange ops ps as rest n' q hrest hr hc.2 hm

/-- every statement a single AST statement expands to is well formed -/
theorem parseStmt_wf {atol : α} {lib : GateLib} (hT : tableTyped lib.table = true)
    {qlay blay : List (String × Nat × Nat)} {nq nb : Nat}
    (hql : ∀ e ∈ qlay, e.2.1 + e.2.2 ≤ nq) (hbl : ∀ e ∈ blay, e.2.1 + e.2.2 ≤ nb)
    {s : AstStmt α} (hsub : ∀ o ∈ s.operands, o.subOk' qlay blay) (hty : s.typed lib)
    {stmts : List (Stmt α)} (h : parseStmt atol lib qlay blay nq s = .ok stmts) :
    ∀ st ∈ stmts, Stmt.wf nq nb st = true := by
  intro st hst
  by_cases hm : containsStr s.name "measure" = true
  · -- measure
    simp only [parseStmt, hm, if_true] at h
    have hset : lib.measureSet.contains s.name = true := by
      cases hc : lib.measureSet.contains s.name with
      | true => rfl
      | false => simp only [hc, Bool.not_false, if_true] at h; cases h
    simp only [hset, Bool.not_true, Bool.false_eq_true, if_false] at h
    obtain ⟨lists, hl, h⟩ := bind_ok.1 h
    obtain ⟨as, has, hcall⟩ := ((mapM_ok_iff _ _ _).1 h).mem_right hst
    have hlists := (mapM_ok_iff _ _ _).1 hl
    -- every argument is a qubit or a bit inside its register
    have hgood : ∀ x ∈ as, (∃ j, x = Arg.qubit j ∧ inRange nq j = true) ∨ (∃ j, x = Arg.bit j ∧ inRange nb j = true) := by
      obtain ⟨i, hi, rfl⟩ := List.getElem_of_mem has
      have hcol := (zipAll_spec lists).2.2.2 i hi
      intro x hx
      obtain ⟨l, hl', hlx⟩ := hcol.mem_right hx
      obtain ⟨o, ho, hol⟩ := hlists.mem_right hl'
      have ho' : o ∈ s.operands := List.mem_reverse.1 ho
      have hxl : x ∈ l := List.mem_of_getElem? hlx
      by_cases hq : o.isQ = true
      · simp only [hq, if_true] at hol
        cases hx' : operandIndices qlay o with
        | error e => simp [hx', Except.map] at hol
        | ok xs =>
          simp only [hx', Except.map, Except.ok.injEq] at hol
          subst hol
          obtain ⟨j, hj, rfl⟩ := List.mem_map.1 hxl
          exact .inl ⟨j, rfl, operandIndices_inRange hql ((hsub o ho').1 hq) hx' j hj⟩
      · simp only [hq, Bool.false_eq_true, if_false] at hol
        by_cases hb : o.isB = true
        · simp only [hb, if_true] at hol
          cases hx' : operandIndices blay o with
          | error e => simp [hx', Except.map] at hol
          | ok xs =>
            simp only [hx', Except.map, Except.ok.injEq] at hol
            subst hol
            obtain ⟨j, hj, rfl⟩ := List.mem_map.1 hxl
            exact .inr ⟨j, rfl, operandIndices_inRange hbl ((hsub o ho').2 hb) hx' j hj⟩
        · simp [hb, throw, throwThe, MonadExceptOf.throw] at hol
    obtain ⟨d, env, q, b, ax, _, _, hbind, hq, hb, _, rfl⟩ := callMeasure_ok.1 hcall
    have h1 : inRange nq q = true := by
      rcases bindArgs_mem_qubit hbind (Env.find?_mem hq) with hm' | hm'
      · rcases hgood _ hm' with ⟨j, hj, hr⟩ | ⟨j, hj, _⟩
        · cases hj; exact hr
        · cases hj
      · rcases hgood _ hm' with ⟨j, hj, _⟩ | ⟨j, hj, _⟩ <;> cases hj
    have h2 : inRange nb b = true := by
      rcases hgood _ (bindArgs_mem_bit hbind (Env.find?_mem hb)) with ⟨j, hj, _⟩ | ⟨j, hj, hr⟩
      · cases hj
      · cases hj; exact hr
    simp [Stmt.wf, h1, h2]
  · simp only [parseStmt, hm, Bool.false_eq_true, if_false] at h
    by_cases hr : containsStr s.name "reset" = true
    · -- reset
      simp only [hr, if_true] at h
      have hset : lib.resetSet.contains s.name = true := by
        cases hc : lib.resetSet.contains s.name with
        | true => rfl
        | false => simp only [hc, Bool.not_false, if_true] at h; cases h
      simp only [hset, Bool.not_true, Bool.false_eq_true, if_false] at h
      have key : ∃ qs : List Int, (∀ q ∈ qs, inRange nq q = true) ∧
          qs.mapM (fun q => callReset lib.resets s.name [Arg.qubit q]) = .ok stmts := by
        by_cases he : s.operands.isEmpty = true
        · simp only [he, if_true] at h
          obtain ⟨qs, hqs, h⟩ := bind_ok.1 h
          simp only [pure, Except.pure, Except.ok.injEq] at hqs
          subst hqs
          refine ⟨_, ?_, h⟩
          intro q hq
          obtain ⟨i, hi, rfl⟩ := List.mem_map.1 hq
          have := List.mem_range.1 hi
          simp [inRange]; omega
        · simp only [he, Bool.false_eq_true, if_false] at h
          obtain ⟨ls, hls, h⟩ := bind_ok.1 h
          obtain ⟨qs, hqs, h⟩ := bind_ok.1 h
          simp only [pure, Except.pure, Except.ok.injEq] at hqs
          subst hqs
          refine ⟨_, ?_, h⟩
          intro q hq
          obtain ⟨l, hl, hql'⟩ := List.mem_flatten.1 hq
          obtain ⟨o, ho, hol⟩ := ((mapM_ok_iff _ _ _).1 hls).mem_right hl
          by_cases hoq : o.isQ = true
          · simp only [hoq, if_true] at hol
            exact operandIndices_inRange hql ((hsub o ho).1 hoq) hol q hql'
          · simp [hoq, throw, throwThe, MonadExceptOf.throw] at hol
      obtain ⟨qs, hqsr, h⟩ := key
      obtain ⟨q, hq, hcall⟩ := ((mapM_ok_iff _ _ _).1 h).mem_right hst
      have hqr := hqsr q hq
      obtain ⟨d, env, q', _, _, hbind, hq', rfl⟩ := callReset_ok.1 hcall
      have : q' = q := by
        rcases bindArgs_mem_qubit hbind (Env.find?_mem hq') with hm' | hm' <;> simp at hm'
        exact hm'
      subst this
      simp [Stmt.wf, hqr]
    · -- gate
      simp only [hr, Bool.false_eq_true, if_false] at h
      obtain ⟨n, hn, h⟩ := bind_ok.1 h
      obtain ⟨lists, hl, h⟩ := bind_ok.1 h
      obtain ⟨as, has, hcall⟩ := ((mapM_ok_iff _ _ _).1 h).mem_right hst
      obtain ⟨⟨g, nm⟩, hcg, hst'⟩ := bind_ok.1 hcall
      simp only [pure, Except.pure, Except.ok.injEq] at hst'
      subst hst'
      have hlists := (mapM_ok_iff _ _ _).1 hl
      obtain ⟨i, hi, rfl⟩ := List.getElem_of_mem has
      have hcol := (zipAll_spec lists).2.2.2 i hi
      have hrel : All₂ (fun o x => o.isQ = true → ∃ j, x = Arg.qubit j ∧ inRange nq j = true) s.operands
          (zipAll lists)[i] := by
        refine (hlists.comp hcol).imp_mem ?_
        rintro o x ho ⟨l, hol, hlx⟩ hq
        have hxl : x ∈ l := List.mem_of_getElem? hlx
        simp only [hq, if_true] at hol
        cases hx' : operandIndices qlay o with
        | error e => simp [hx', Except.map] at hol
        | ok xs =>
          simp only [hx', Except.map, Except.ok.injEq] at hol
          subst hol
          obtain ⟨j, hj, rfl⟩ := List.mem_map.1 hxl
          exact ⟨j, rfl, operandIndices_inRange hql ((hsub o ho).1 hq) hx' j hj⟩
      obtain ⟨d, env, hd, _, hbind, he, rfl⟩ := callGate_ok.1 hcg
      obtain ⟨w1, _, _, w4⟩ := evalGate_wf he
      have hops : ∀ q ∈ g.operands, inRange nq q = true := by
        intro q hq
        have hty' : d.body.typed lib.table env.sig = true := by
          rw [bindArgs_sig hbind]; exact (List.all_eq_true.1 hT) d (List.mem_of_find?_eq_some hd)
        obtain ⟨n', hn'⟩ := eval_operands atol lib.table hT 8 env [] d.body g hty' he q hq
        exact gate_env_inRange _ _ _ _ _ _ hrel hbind (hty n d hn hd) (Env.find?_mem hn')
      simp only [Stmt.wf, Bool.and_eq_true, Bool.not_eq_true', List.all_eq_true]
      exact ⟨⟨hops, w4⟩, w1⟩

/- Intended statement (`parse_wf`): only "sub-indices within their variables" (+ successful expansion) as
   hypothesis, for an arbitrary library.  False in the model and in Python: see the remark after the proof. -/
/-- **`parse_wf_partial`** (C13, parser side).  If the sub-indices of the AST lie inside their variables and operands in
    qubit positions are qubit operands (libqasm guarantees both), the gate table obeys `tableTyped`, and the
    expansion succeeds, then the circuit is well formed: all qubit / bit indices inside the registers, the
    operands of every gate pairwise distinct. -/
theorem parse_wf_partial {atol : α} {lib : GateLib} {ast : Ast α} {c : Circuit α} (hT : tableTyped lib.table = true)
    (hsub : ∀ s ∈ ast.stmts, ∀ o ∈ s.operands,
      o.subOk' (layout ast.vars true).1 (layout ast.vars false).1)
    (hty : ∀ s ∈ ast.stmts, s.typed lib)
    (h : parseAst atol lib ast = .ok c) : Circuit.wf c = true := by
  unfold parseAst at h
  simp only [bind_ok, pure, Except.pure] at h
  obtain ⟨blocks, hb, hc⟩ := h
  cases hc
  have hall := (mapM_ok_iff _ _ _).1 hb
  simp only [Circuit.wf, List.all_eq_true]
  intro st hst
  obtain ⟨blk, hblk, hstb⟩ := List.mem_flatten.1 hst
  obtain ⟨s, hs, hps⟩ := hall.mem_right hblk
  have hq := (layout_spec ast.vars true).2.2.2.1
  have hbt := (layout_spec ast.vars false).2.2.2.1
  exact parseStmt_wf hT hq hbt (hsub s hs) (hty s hs) hps st hstb

/- Why `parse_wf_partial` and not `parse_wf`: with only "sub-indices within their variables" as hypothesis.  Not enough in the
   model (nor in Python): an integer literal in a qubit position (`CNOT q[0], 7` — which libqasm's type check
   rejects) would be converted by `named_gate` into a qubit index without any range check; and a user gate table
   violating `tableTyped` does the same in a nested call (`call_accept_wf_needs_typed`).  Hence the two extra
   hypotheses `AstStmt.typed` and `tableTyped`. -/

/-! ### examples (non-vacuity) -/

def exVars : List VarDecl := [⟨"q", true, 2⟩, ⟨"b", false, 3⟩, ⟨"r", true, 3⟩]

example : layout exVars true = ([("q", 0, 2), ("r", 2, 3)], 5) := by decide
example : layout exVars false = ([("b", 0, 3)], 3) := by decide
example : (layout exVars true).2 = 2 + 3 := (layout_spec exVars true).1
example : rangeOf (layout exVars true).1 "r" = some (2, 3) :=
  rangeOf_of_nodup (by decide) (by decide)
example : operandIndices (α := Toy) (layout exVars true).1 (.varRef "r" true 3) = .ok [2, 3, 4] :=
  operandIndices_varRef (f := 2) (sz := 3) (by decide)
example : operandIndices (α := Toy) (layout exVars true).1 (.indexRef "r" true [2, 0]) = .ok [4, 2] :=
  operandIndices_indexRef (f := 2) (sz := 3) (by decide)
example : ∀ x, x ∈ [0, 1] → x ∉ [4, (2 : Int)] :=
  operandIndices_disjoint (α := Toy) (lay := (layout exVars true).1) (layout_spec exVars true).2.2.2.2.2
    (o₁ := .varRef "q" true 2) (o₂ := .indexRef "r" true [2, 0]) trivial
    (by intro f sz h i hi
        have : rangeOf (layout exVars true).1 "r" = some (2, 3) := by decide
        rw [this] at h; cases h
        simp at hi; rcases hi with rfl | rfl <;> decide)
    rfl rfl (by decide)
example : zipAll [[1, 2, 3], [4, 5]] = [[1, 4], [2, 5]] := by decide
example : zipAll ([] : List (List Nat)) = [] := by decide
example : (zipAll [[1, 2, 3], [4, 5]]).length = [4, 5].length := by decide

def exAst : Ast Toy where
  vars := [⟨"q", true, 2⟩, ⟨"b", false, 2⟩]
  stmts := [⟨"CNOT", [.indexRef "q" true [0], .indexRef "q" true [1]]⟩,
            ⟨"measure", [.varRef "b" false 2, .varRef "q" true 2]⟩,
            ⟨"reset", []⟩]

theorem toy_cnot : callGate (⟨0⟩ : Toy) defaultLib.table "CNOT" [Arg.qubit 0, Arg.qubit 1] = .ok
      (.ctrl 0 (.bsr 1 (one, zero, zero) (normalizeAngle ⟨0⟩ π) (normalizeAngle ⟨0⟩ (π / sc 2))),
        ⟨"CNOT", [Arg.qubit 0, Arg.qubit 1]⟩) := by
  have hf : defaultLib.table.find? (·.name == "CNOT") = some
      { name := "CNOT", params := [("control", Kind.qubit), ("target", Kind.qubit)],
        body := (GExpr.ctrl "control" (GExpr.call "X" ["target"])) } := rfl
  have hx : defaultLib.table.find? (·.name == "X") = some
      { name := "X", params := [("q", Kind.qubit)],
        body := (GExpr.bsr "q" 1 0 0 SExpr.pi (SExpr.div SExpr.pi (SExpr.nat 2))) } := rfl
  rw [callGate, hf]
  simp [bindArgs, GExpr.eval, envQubit, Env.find?, evalNamed, hx, SExpr.eval, bind, Except.bind, pure,
    Except.pure, mkBSR, toy_axis_x, mkCtrl, hasDup, Gate.operands]

#eval containsStr "CNOT" "measure"     -- false
#eval containsStr "CNOT" "reset"       -- false
#eval containsStr "measure" "measure"  -- true
#eval containsStr "reset" "measure"    -- false
#eval containsStr "reset" "reset"      -- true

/-- `parseStmt_gate_spec`, `parseStmt_measure_spec`, `parseStmt_reset_all`, `parseAst_order`, `parse_wf_partial` on
    `qubit[2] q; bit[2] b; CNOT q[0], q[1]; b = measure q; reset` at the toy scalar -/
example (h1 : containsStr "CNOT" "measure" = false) (h2 : containsStr "CNOT" "reset" = false)
    (h3 : containsStr "measure" "measure" = true) (h4 : containsStr "reset" "measure" = false)
    (h5 : containsStr "reset" "reset" = true) :
    ∃ c, parseAst (⟨0⟩ : Toy) defaultLib exAst = .ok c ∧ c.nQubits = 2 ∧ c.nBits = 2 ∧
      c.stmts.map Stmt.qubits = [[0, 1], [0], [1], [0], [1]] ∧ Circuit.wf c = true := by
  have hl1 : layout exAst.vars true = ([("q", 0, 2)], 2) := by decide
  have hl2 : layout exAst.vars false = ([("b", 0, 2)], 2) := by decide
  -- statement 1
  have s1 : parseStmt (⟨0⟩ : Toy) defaultLib [("q", 0, 2)] [("b", 0, 2)] 2
      ⟨"CNOT", [.indexRef "q" true [0], .indexRef "q" true [1]]⟩ = .ok
      [.gate (.ctrl 0 (.bsr 1 (one, zero, zero) (normalizeAngle ⟨0⟩ π) (normalizeAngle ⟨0⟩ (π / sc 2))))
        (some ⟨"CNOT", [Arg.qubit 0, Arg.qubit 1]⟩)] := by
    have shape : GateShape (α := Toy) [("q", 0, 2)] 1 [.indexRef "q" true [0], .indexRef "q" true [1]] := by
      refine ⟨⟨.indexRef "q" true [0], by simp, rfl⟩, ?_, ?_⟩
      · intro o ho _
        simp only [List.mem_cons, List.not_mem_nil, or_false] at ho
        rcases ho with rfl | rfl
        · exact ⟨[0], rfl, rfl, rfl⟩
        · exact ⟨[1], rfl, rfl, rfl⟩
      · intro o ho hq
        simp only [List.mem_cons, List.not_mem_nil, or_false] at ho
        rcases ho with rfl | rfl <;> simp [Operand.isQ] at hq
    rw [parseStmt_gate_spec h1 h2 shape]
    have hg : defaultLib.gateName "CNOT" = .ok "CNOT" := rfl
    have ha : ([.indexRef "q" true [0], .indexRef "q" true [1]] : List (Operand Toy)).filterMap
        (Operand.argAt [("q", 0, 2)] 0) = [Arg.qubit 0, Arg.qubit 1] := rfl
    simp [hg, bind, Except.bind, List.range, List.range.loop, ha, mkGateStmt, toy_cnot, pure, Except.pure]
  have s2 : parseStmt (⟨0⟩ : Toy) defaultLib [("q", 0, 2)] [("b", 0, 2)] 2
      ⟨"measure", [.varRef "b" false 2, .varRef "q" true 2]⟩ = .ok
      [.measure 0 0 (zero, zero, one) (some ⟨"measure", [Arg.qubit 0, Arg.bit 0]⟩),
       .measure 1 1 (zero, zero, one) (some ⟨"measure", [Arg.qubit 1, Arg.bit 1]⟩)] := by
    rw [parseStmt_measure_spec (qs := [0, 1]) (bs := [0, 1]) h3 (by decide) rfl rfl rfl rfl rfl rfl]
    rfl
  have s3 : parseStmt (⟨0⟩ : Toy) defaultLib [("q", 0, 2)] [("b", 0, 2)] 2 ⟨"reset", []⟩ = .ok
      [.reset 0 (some ⟨"reset", [Arg.qubit 0]⟩), .reset 1 (some ⟨"reset", [Arg.qubit 1]⟩)] := by
    rw [parseStmt_reset_all h4 h5 (by decide) rfl]
    rfl
  have hp : parseAst (⟨0⟩ : Toy) defaultLib exAst = .ok ⟨2, 2,
      [.gate (.ctrl 0 (.bsr 1 (one, zero, zero) (normalizeAngle ⟨0⟩ π) (normalizeAngle ⟨0⟩ (π / sc 2))))
        (some ⟨"CNOT", [Arg.qubit 0, Arg.qubit 1]⟩),
       .measure 0 0 (zero, zero, one) (some ⟨"measure", [Arg.qubit 0, Arg.bit 0]⟩),
       .measure 1 1 (zero, zero, one) (some ⟨"measure", [Arg.qubit 1, Arg.bit 1]⟩),
       .reset 0 (some ⟨"reset", [Arg.qubit 0]⟩), .reset 1 (some ⟨"reset", [Arg.qubit 1]⟩)]⟩ := by
    unfold parseAst
    rw [hl1, hl2]
    simp only [exAst, List.mapM_cons, List.mapM_nil, s1, s2, s3, bind, Except.bind, pure, Except.pure]
    rfl
  refine ⟨_, hp, rfl, rfl, rfl, ?_⟩
  refine parse_wf_partial defaultLib_typed ?_ ?_ hp
  · rw [hl1, hl2]
    have hr : rangeOf [("q", 0, 2)] "q" = some (0, 2) := by decide
    intro s hs o ho
    simp only [exAst, List.mem_cons, List.not_mem_nil, or_false] at hs
    rcases hs with rfl | rfl | rfl <;> simp only [List.mem_cons, List.not_mem_nil, or_false] at ho
    · rcases ho with rfl | rfl <;>
      · refine ⟨fun _ f sz h i hi => ?_, fun h => by simp [Operand.isB] at h⟩
        rw [hr] at h; cases h
        simp at hi; subst hi; decide
    · rcases ho with rfl | rfl <;> exact ⟨fun _ => trivial, fun _ => trivial⟩
  · intro s hs n d hn hd
    simp only [exAst, List.mem_cons, List.not_mem_nil, or_false] at hs
    rcases hs with rfl | rfl | rfl
    · have : n = "CNOT" := by
        have : defaultLib.gateName "CNOT" = .ok "CNOT" := rfl
        rw [this] at hn; cases hn; rfl
      subst this
      have : defaultLib.table.find? (·.name == "CNOT") = some
        { name := "CNOT", params := [("control", Kind.qubit), ("target", Kind.qubit)],
          body := (GExpr.ctrl "control" (GExpr.call "X" ["target"])) } := rfl
      rw [this] at hd; cases hd; rfl
    · have : defaultLib.gateName "measure" = .error .value := rfl
      rw [this] at hn; cases hn
    · have : defaultLib.gateName "reset" = .error .value := rfl
      rw [this] at hn; cases hn
end OSq

#print axioms OSq.layout_spec
#print axioms OSq.rangeOf_of_nodup
#print axioms OSq.operandIndices_spec
#print axioms OSq.operandIndices_disjoint
#print axioms OSq.zipAll_spec
#print axioms OSq.zipAll_eq_of_length
#print axioms OSq.zipAll_columns
#print axioms OSq.parseStmt_gate_spec
#print axioms OSq.parseStmt_measure_spec
#print axioms OSq.parseStmt_reset_all
#print axioms OSq.parseStmt_reset_ops
#print axioms OSq.lookup_spec
#print axioms OSq.parseAst_order
#print axioms OSq.parseStmt_wf
#print axioms OSq.parse_wf_partial
