import OSq.Model.Pipeline
import OSq.Proofs.DecomposeLoop
import OSq.Proofs.Remap
import OSq.Proofs.MergeStruct
import OSq.Proofs.InstrWF
import OSq.Proofs.Shape
/-
  OSq.Proofs.Pipeline — property C05: the well-formedness invariant of arbitrary sequences of passes
  (`OSq/Model/Pipeline.lean`: `Pass`, `Pass.run`, `runPasses`, on top of `decomposeBuiltin`, `replace`, `merge`
  of `OSq/Model/Passes.lean` and `mkMapping`, `mkMapper`, `remap` of `OSq/Model/Mapping.lean`; Python
  `Circuit.decompose / replace / merge_single_qubit_gates / map`).  Core Lean only (the imported `Remap` uses one
  Batteries module); every theorem holds for every scalar type `α` with `[Scalar α]` and every `atol`, and for the
  state a pass leaves behind when it *raises* as well as for its normal result.

  Hypothesis (explicit, the only one besides `Circuit.wf` of the input): `CallbackFine f` — the user callback handed
  to `Circuit.replace` only returns gates `r` with `GStmt.fine r`, i.e. no repeated operand and a matrix of the
  right size, which is what every `Gate` object constructible in Python satisfies (constructor checks).  For the
  built-in decomposers the same property (`Decomposer.Fine`) is *proved*: `decomposer_fine` (from
  `decomposer_operands_subset` of `OSq.Proofs.Shape`).

  Theorems
  * `check_subset`        `checkGateReplacement atol g repl = none` ⇒ every operand of every replacement gate is an
                          operand of `g`.
  * `genLoop_all`         invariant lemma for the accumulator loop shared by `decompose` and `replace`.
  * `decompose_stmts_wf`  `decompose` with an arbitrary index-dependent decomposer returning fine gates keeps every
                          statement well-formed (any outcome); `decompose_wf_of_fine` the same for `Pass.run`.
  * `decomposer_fine`     every built-in decomposer, fed a fine gate, returns fine gates only;
    `named_fine`          so does every default-gate generator (`named`), for any name and arguments.
  * `decompose_wf`        `Circuit.decompose` (any built-in decomposer) keeps `Circuit.wf` and the registers, after
                          success and after an exception alike — no hypothesis but `c.wf`.
  * `replace_stmts_wf`, `replace_wf`       the same for `Circuit.replace`.
  * `merge_wf`            the same for `merge_single_qubit_gates` (emitted accumulators are rotations on qubits
                          `< nQubits`, barriers are kept as they are) — also after `KeyError` / a failed composition.
  * `map_wf`              the same for `Circuit.map`: refused ⇒ untouched; accepted ⇒ relabelled through a permutation
                          of `0 … n-1` (`mapIdx_inj`, `hasDup_map_mapIdx`, `Stmt.wf_mapQubits`).
  * `pass_wf`             one pass, any kind.
  * `runPasses_wf`        **main theorem**: for every list of passes (induction on the list), a well-formed circuit
                          stays well-formed with the same `nQubits`, `nBits`, wherever the sequence stops
                          (hypothesis: `CallbackFine f` for the `replace f` passes in the list).
  * `runPasses_wf_builtin`  lists without `replace`: no hypothesis at all.
  * `runPasses_nongates`  passes other than `map` never change, drop, duplicate or reorder comments, measurements,
                          resets.
  * `runPasses_nongates_map`  general form: the non-gate statements of the result are those of the input relabelled
                          through the mappings of the `map` calls that went through (`appliedMaps`, `relabelAll`).
  * `runPasses_append`, `runPasses_append_ok`, `runPasses_append_err`   running `ps ++ qs` = running `ps`, then
                          (unless it raised) `qs`.
  Non-vacuity: namespace `PipelineExamples` (toy scalar, concrete circuit, three concrete passes whose hypotheses
  are proved), plus instances at arbitrary `α` (all four kinds of passes) and at `Float`.
-/
set_option linter.unusedSectionVars false
namespace OSq
variable {α : Type} [Scalar α]

/-! ## Vocabulary -/

omit [Scalar α] in
theorem Stmt.wf_gate_iff (nq nb : Nat) (g : Gate α) (nm : Option (Named α)) :
    Stmt.wf nq nb (.gate g nm) = true ↔
      (∀ q ∈ g.operands, inRange nq q = true) ∧ hasDup g.operands = false ∧ g.shapeOk = true := by
  simp [Stmt.wf, List.all_eq_true, and_assoc]

omit [Scalar α] in
theorem Circuit.wf_iff (c : Circuit α) :
    c.wf = true ↔ ∀ s ∈ c.stmts, Stmt.wf c.nQubits c.nBits s = true := by
  simp [Circuit.wf, List.all_eq_true]

/-- what a decomposer / a `replace` callback may return: gates without repeated operands whose matrices
    (if any) have the right size.  Every `Gate` object that Python code can construct satisfies this
    (`MatrixGate.__init__`, `ControlledGate.__init__`, `Gate._check_repeated_qubit_operands`). -/
def GStmt.fine (r : GStmt α) : Prop := hasDup r.1.operands = false ∧ r.1.shapeOk = true

/-! ## 1. `check_subset` -/

/-- **check_subset.** An accepted replacement only acts on operands of the replaced gate
    (the first test of `check_gate_replacement`). -/
theorem check_subset (atol : α) (g : Gate α) (repl : List (Gate α))
    (h : checkGateReplacement atol g repl = none) :
    ∀ r ∈ repl, ∀ q ∈ r.operands, q ∈ g.operands := by
  intro r hr q hq
  unfold checkGateReplacement at h
  simp only at h
  split at h
  · cases h
  · rename_i hall
    have hall : ((List.map Gate.operands repl).flatten.all fun q => g.operands.contains q) = true := by
      simpa using hall
    rw [List.all_eq_true] at hall
    have := hall q (List.mem_flatten.mpr ⟨r.operands, List.mem_map.mpr ⟨r, hr, rfl⟩, hq⟩)
    simpa using this

/-! ## Generic loop invariant -/

/-- A property that every accepted replacement of a `P`-statement has is an invariant of the accumulator
    loop — whether the loop runs to the end or stops at a rejected statement. -/
theorem genLoop_all {S E : Type} (v : Nat → S → Except E (List S)) (bump : S → Bool) (P : S → Prop)
    (hP : ∀ i s r, P s → v i s = .ok r → ∀ x ∈ r, P x) (l : List S) :
    ∀ (i : Nat) (out : List S), (∀ x ∈ out, P x) → (∀ x ∈ l, P x) →
      ∀ x ∈ (genLoop v bump i out l).1, P x := by
  induction l with
  | nil =>
    intro i out ho _ x hx
    simp only [genLoop, List.mem_reverse] at hx
    exact ho x hx
  | cons s rest ih =>
    intro i out ho hl x hx
    cases hv : v i s with
    | error e =>
      simp only [genLoop, hv, List.mem_append, List.mem_reverse] at hx
      rcases hx with hx | hx
      · exact ho x hx
      · exact hl x hx
    | ok r =>
      have hloop : genLoop v bump i out (s :: rest) =
          genLoop v bump (i + (bump s).toNat) (r.reverse ++ out) rest := by
        simp [genLoop, hv]
      rw [hloop] at hx
      refine ih _ _ ?_ (fun y hy => hl y (List.mem_cons_of_mem _ hy)) x hx
      intro y hy
      rcases List.mem_append.mp hy with hy | hy
      · exact hP i s r (hl s List.mem_cons_self) hv y (List.mem_reverse.mp hy)
      · exact ho y hy

/-! ## 2. `decompose_wf` -/

/-- the loop body of `decompose` maps a well-formed statement to well-formed statements -/
theorem verdict_wf (atol : α) (d : Nat → GStmt α → Except Err (List (GStmt α))) (nq nb : Nat)
    (hshape : ∀ i g nm repl, hasDup g.operands = false → g.shapeOk = true → d i (g, nm) = .ok repl →
      ∀ r ∈ repl, GStmt.fine r)
    (i : Nat) (s : Stmt α) (r : List (Stmt α)) (hs : Stmt.wf nq nb s = true)
    (h : verdict atol d i s = .ok r) : ∀ x ∈ r, Stmt.wf nq nb x = true := by
  cases s with
  | gate g nm =>
    simp only [verdict] at h
    cases hd : d i (g, nm) with
    | error e => simp [hd] at h
    | ok repl =>
      cases hc : checkGateReplacement atol g (repl.map (·.1)) with
      | some e => simp [hd, hc] at h
      | none =>
        simp [hd, hc] at h; subst h
        obtain ⟨hr, hdup, hsh⟩ := (Stmt.wf_gate_iff nq nb g nm).1 hs
        intro x hx
        obtain ⟨y, hy, rfl⟩ := List.mem_map.mp hx
        obtain ⟨hyd, hys⟩ := hshape i g nm repl hdup hsh hd y hy
        refine (Stmt.wf_gate_iff nq nb y.1 y.2).2 ⟨fun q hq => ?_, hyd, hys⟩
        exact hr q (check_subset atol g _ hc y.1 (List.mem_map.mpr ⟨y, hy, rfl⟩) q hq)
  | measure q b ax nm => simp [verdict] at h; subst h; simpa using hs
  | reset q nm => simp [verdict] at h; subst h; simpa using hs
  | comment c => simp [verdict] at h; subst h; simpa using hs

/-- `decompose` with an arbitrary (index-dependent) decomposer keeps every statement well-formed,
    in every case (success or exception). -/
theorem decompose_stmts_wf (atol : α) (d : Nat → GStmt α → Except Err (List (GStmt α))) (nq nb : Nat)
    (hshape : ∀ i g nm repl, hasDup g.operands = false → g.shapeOk = true → d i (g, nm) = .ok repl →
      ∀ r ∈ repl, GStmt.fine r)
    (stmts : List (Stmt α)) (hwf : ∀ s ∈ stmts, Stmt.wf nq nb s = true) :
    ∀ s ∈ (decompose atol d stmts).1, Stmt.wf nq nb s = true := by
  rw [decompose_eq_genLoop]
  exact genLoop_all _ _ (fun s => Stmt.wf nq nb s = true) (fun i s r => verdict_wf atol d nq nb hshape i s r)
    stmts 0 [] (by simp) hwf

/-- the shape property of a built-in decomposer: fed a gate without repeated operands and with a
    matrix of the right size, it only returns such gates (proved for all of them below: `decomposer_fine`) -/
def Decomposer.Fine (atol : α) (d : Decomposer) : Prop :=
  ∀ (g : Gate α) (nm : Option (Named α)) (repl : List (GStmt α)),
    hasDup g.operands = false → g.shapeOk = true → d.run atol (g, nm) = .ok repl → ∀ r ∈ repl, GStmt.fine r

/-- `decompose_wf` under the shape hypothesis (discharged below for every built-in decomposer) -/
theorem decompose_wf_of_fine (atol : α) (d : Decomposer) (c : Circuit α) (hshape : d.Fine atol)
    (hwf : c.wf = true) :
    (Pass.run atol (.decompose d) c).1.wf = true ∧
      (Pass.run atol (.decompose d) c).1.nQubits = c.nQubits ∧
      (Pass.run atol (.decompose d) c).1.nBits = c.nBits := by
  refine ⟨?_, rfl, rfl⟩
  rw [Circuit.wf_iff] at hwf ⊢
  exact decompose_stmts_wf atol (fun _ g => d.run atol g) c.nQubits c.nBits
    (fun _ g nm repl h1 h2 h3 => hshape g nm repl h1 h2 h3) c.stmts hwf

/-! ## 4. `merge_wf` -/

omit [Scalar α] in
theorem Rot.toStmt_wf (nq nb : Nat) (r : Rot α) (h : inRange nq r.q = true) :
    Stmt.wf nq nb r.toGStmt.toStmt = true := by
  simp [Rot.toGStmt, GStmt.toStmt, Stmt.wf, Gate.operands, hasDup, Gate.shapeOk, h]

/-- an accumulator that can be fetched sits on a register qubit -/
theorem accGet?_inRange_q (accs : Array (Rot α)) (n : Nat) (hsz : accs.size = n) (hok : AccOK accs)
    (q : Int) (r : Rot α) (h : accGet? accs q = some r) :
    inRange n r.q = true ∧ 0 ≤ q ∧ q.toNat < n ∧ r.q = q := by
  obtain ⟨h0, hget⟩ := accGet?_some accs q r h
  have hlt : q.toNat < accs.size := by
    rcases Nat.lt_or_ge q.toNat accs.size with h | h
    · exact h
    · rw [Array.getElem?_eq_none h] at hget; cases hget
  have hq := hok _ _ hget
  refine ⟨?_, h0, by omega, by omega⟩
  simp only [inRange, Bool.and_eq_true, decide_eq_true_eq]
  omega

/-- whatever `flushOps` returns (normally or through the `KeyError`), every statement pushed is a rotation on a
    register qubit, and the accumulator table keeps its invariant -/
theorem flushOps_wf (atol : α) (n nb : Nat) (qs : List Int) :
    ∀ (accs : Array (Rot α)) (out : List (Stmt α)), accs.size = n → AccOK accs →
      (∀ s ∈ out, Stmt.wf n nb s = true) →
      (∀ out', flushOps atol accs out qs = .error out' → ∀ s ∈ out', Stmt.wf n nb s = true) ∧
      (∀ accs' out', flushOps atol accs out qs = .ok (accs', out') →
        accs'.size = n ∧ AccOK accs' ∧ ∀ s ∈ out', Stmt.wf n nb s = true) := by
  induction qs with
  | nil =>
    intro accs out hsz hok ho
    rw [flushOps_nil]
    refine ⟨fun _ h => (by cases h), fun accs' out' h => ?_⟩
    injection h with h; injection h with h1 h2
    subst h1; subst h2
    exact ⟨hsz, hok, ho⟩
  | cons q qs ih =>
    intro accs out hsz hok ho
    cases hq : accGet? accs q with
    | none =>
      rw [flushOps_cons_key atol accs out q qs hq]
      refine ⟨fun out' h => ?_, fun _ _ h => by cases h⟩
      injection h with h; subst h; exact ho
    | some r =>
      cases hid : r.isIdentity atol with
      | true => rw [flushOps_cons_id atol accs out q qs r hq hid]; exact ih accs out hsz hok ho
      | false =>
        rw [flushOps_cons_emit atol accs out q qs r hq hid]
        obtain ⟨hrq, _, _, _⟩ := accGet?_inRange_q accs n hsz hok q r hq
        refine ih _ _ (by simpa using hsz) (hok.set _ _ (defaultI_q atol _)) ?_
        intro s hs
        rcases List.mem_cons.mp hs with hs | hs
        · rw [hs]; exact Rot.toStmt_wf n nb r hrq
        · exact ho s hs

/-- well-formedness of what a run of `mergeLoop` leaves behind -/
def LoopWF (n nb : Nat) : (List (Stmt α) × Option Err) ⊕ (Array (Rot α) × List (Stmt α)) → Prop
  | .inl (st, _) => ∀ s ∈ st, Stmt.wf n nb s = true
  | .inr (accs, out) => accs.size = n ∧ AccOK accs ∧ ∀ s ∈ out, Stmt.wf n nb s = true

omit [Scalar α] in
theorem all_wf_rev_append (n nb : Nat) (out rest : List (Stmt α))
    (ho : ∀ s ∈ out, Stmt.wf n nb s = true) (hr : ∀ s ∈ rest, Stmt.wf n nb s = true) :
    ∀ s ∈ out.reverse ++ rest, Stmt.wf n nb s = true := by
  intro s hs
  rcases List.mem_append.mp hs with hs | hs
  · exact ho s (List.mem_reverse.mp hs)
  · exact hr s hs

theorem mergeLoop_wf (atol : α) (n nb : Nat) (rest : List (Stmt α)) :
    (∀ s ∈ rest, Stmt.wf n nb s = true) →
    ∀ (accs : Array (Rot α)) (out : List (Stmt α)), accs.size = n → AccOK accs →
      (∀ s ∈ out, Stmt.wf n nb s = true) → LoopWF n nb (mergeLoop atol accs out rest) := by
  induction rest with
  | nil => intro _ accs out hsz hok ho; rw [mergeLoop_nil]; exact ⟨hsz, hok, ho⟩
  | cons s rest ih =>
    intro hr accs out hsz hok ho
    have ih := ih (fun s' hs' => hr s' (List.mem_cons_of_mem _ hs'))
    cases hb : s.isBSR with
    | true =>
      cases s with
      | gate g nm =>
        cases g with
        | bsr q ax an ph =>
          cases hq : accGet? accs q with
          | none =>
            rw [mergeLoop_bsr_key atol accs out rest q ax an ph nm hq]
            exact all_wf_rev_append n nb out _ ho hr
          | some acc =>
            cases hc : composeRot atol ⟨q, ax, an, ph, nm⟩ acc with
            | error e =>
              rw [mergeLoop_bsr_err atol accs out rest q ax an ph nm acc e hq hc]
              exact all_wf_rev_append n nb out _ ho hr
            | ok r =>
              rw [mergeLoop_bsr_ok atol accs out rest q ax an ph nm acc r hq hc]
              obtain ⟨_, h0, _, _⟩ := accGet?_inRange_q accs n hsz hok q acc hq
              refine ih _ _ (by simpa using hsz) (hok.set _ _ ?_) ho
              rw [(composeRot_q atol _ _ _ hc).2]; show q = _; omega
        | matrix m ops => simp [Stmt.isBSR] at hb
        | ctrl c g => simp [Stmt.isBSR] at hb
      | measure q b ax nm => simp [Stmt.isBSR] at hb
      | reset q nm => simp [Stmt.isBSR] at hb
      | comment c => simp [Stmt.isBSR] at hb
    | false =>
      obtain ⟨h1, h2⟩ := flushOps_wf atol n nb s.qubits accs out hsz hok ho
      cases hfl : flushOps atol accs out s.qubits with
      | error out' =>
        rw [mergeLoop_nonBSR_err atol accs out rest s hb out' hfl]
        exact all_wf_rev_append n nb out' _ (h1 out' hfl) hr
      | ok p =>
        obtain ⟨accs', out'⟩ := p
        obtain ⟨hsz', hok', ho'⟩ := h2 accs' out' hfl
        rw [mergeLoop_nonBSR_ok atol accs out rest s hb accs' out' hfl]
        refine ih accs' (s :: out') hsz' hok' ?_
        intro x hx
        rcases List.mem_cons.mp hx with hx | hx
        · rw [hx]; exact hr s List.mem_cons_self
        · exact ho' x hx

/-- the final flush emits rotations on register qubits -/
theorem mergeTail_wf (atol : α) (n nb : Nat) (accs : Array (Rot α)) (hsz : accs.size = n) (hok : AccOK accs) :
    ∀ s ∈ mergeTail atol accs, Stmt.wf n nb s = true := by
  intro s hs
  rw [mergeTail_eq, List.mem_filterMap] at hs
  obtain ⟨r, hr, hrs⟩ := hs
  unfold tailF at hrs
  split at hrs
  · cases hrs
  · injection hrs with hrs
    rw [← hrs]
    apply Rot.toStmt_wf
    rw [finalRot_q]
    obtain ⟨i, hi, hget⟩ := List.getElem_of_mem hr
    have hi' : i < accs.size := by simpa using hi
    have : accs[i]? = some r := by
      rw [Array.getElem?_eq_getElem hi']; simpa using hget
    have hq := hok i r this
    simp only [inRange, Bool.and_eq_true, decide_eq_true_eq]
    omega

/-- **merge_wf.** `merge_single_qubit_gates` leaves a well-formed circuit with the same registers — when it
    returns normally and when it raises (`KeyError` of an unknown qubit, error of a composition). -/
theorem merge_wf (atol : α) (c : Circuit α) (hwf : c.wf = true) :
    (merge atol c).1.wf = true ∧ (merge atol c).1.nQubits = c.nQubits ∧ (merge atol c).1.nBits = c.nBits := by
  refine ⟨?_, merge_registers atol c⟩
  rw [Circuit.wf_iff] at hwf
  obtain ⟨hsz, hok⟩ := initAccs_ok atol c.nQubits
  have h := mergeLoop_wf atol c.nQubits c.nBits c.stmts hwf _ [] hsz hok (by simp)
  rw [merge_eq]
  split
  · rename_i st e heq
    rw [heq] at h
    rw [Circuit.wf_iff]; exact h
  · rename_i accs out heq
    rw [heq] at h
    obtain ⟨hsz', hok', ho⟩ := h
    rw [Circuit.wf_iff]
    exact all_wf_rev_append _ _ out _ ho (mergeTail_wf atol _ _ accs hsz' hok')

/-! ## 5. `map_wf` -/

/-- a valid mapping is injective on `0 … n-1` -/
theorem mapIdx_inj (m : List Int) (hv : mappingValid m = true) (a b : Int)
    (ha : 0 ≤ a ∧ a < m.length) (hb : 0 ≤ b ∧ b < m.length) (h : mapIdx m a = mapIdx m b) : a = b := by
  have ha' : a = (a.toNat : Int) := by omega
  have hb' : b = (b.toNat : Int) := by omega
  have h1 := invMapping_left_inverse m hv a.toNat (by omega)
  have h2 := invMapping_left_inverse m hv b.toNat (by omega)
  rw [← ha'] at h1; rw [← hb'] at h2
  rw [h, h2] at h1
  omega

theorem inRange_iff_bounds (n : Nat) (q : Int) : inRange n q = true ↔ 0 ≤ q ∧ q < n := by
  simp [inRange]

theorem inRange_mapIdx (m : List Int) (hv : mappingValid m = true) (q : Int)
    (h : inRange m.length q = true) : inRange m.length (mapIdx m q) = true := by
  rw [inRange_iff_bounds] at h ⊢
  exact mapIdx_range m hv q h.1 h.2

/-- relabelling through a valid mapping keeps "no repeated operand" (for operands of the register) -/
theorem hasDup_map_mapIdx (m : List Int) (hv : mappingValid m = true) (l : List Int)
    (hl : ∀ q ∈ l, inRange m.length q = true) : hasDup (l.map (mapIdx m)) = hasDup l := by
  induction l with
  | nil => rfl
  | cons x xs ih =>
    have ih := ih (fun q hq => hl q (List.mem_cons_of_mem _ hq))
    simp only [List.map_cons, hasDup, ih]
    congr 1
    rw [Bool.eq_iff_iff]
    simp only [List.contains_iff_mem, List.mem_map]
    constructor
    · rintro ⟨y, hy, hxy⟩
      have hx := (inRange_iff_bounds _ _).1 (hl x List.mem_cons_self)
      have hy' := (inRange_iff_bounds _ _).1 (hl y (List.mem_cons_of_mem _ hy))
      rw [mapIdx_inj m hv x y hx hy' hxy.symm]; exact hy
    · intro hx; exact ⟨x, hx, rfl⟩

theorem Gate.shapeOk_mapQubits (m : List Int) (g : Gate α) : (g.mapQubits m).shapeOk = g.shapeOk := by
  induction g with
  | bsr q ax an ph => rfl
  | matrix mt ops => simp [Gate.mapQubits, Gate.shapeOk]
  | ctrl c g ih => simpa [Gate.mapQubits, Gate.shapeOk] using ih

/-- relabelling through a valid mapping of register size keeps a statement well-formed -/
theorem Stmt.wf_mapQubits (m : List Int) (hv : mappingValid m = true) (nb : Nat) (s : Stmt α)
    (hs : Stmt.wf m.length nb s = true) : Stmt.wf m.length nb (s.mapQubits m) = true := by
  cases s with
  | gate g nm =>
    obtain ⟨hr, hd, hsh⟩ := (Stmt.wf_gate_iff _ _ g nm).1 hs
    refine (Stmt.wf_gate_iff _ _ _ _).2 ⟨?_, ?_, ?_⟩
    · rw [Gate.operands_mapQubits]
      intro q hq
      obtain ⟨p, hp, rfl⟩ := List.mem_map.mp hq
      exact inRange_mapIdx m hv p (hr p hp)
    · rw [Gate.operands_mapQubits, hasDup_map_mapIdx m hv _ hr]; exact hd
    · rw [Gate.shapeOk_mapQubits]; exact hsh
  | measure q b ax nm =>
    simp only [Stmt.wf, Stmt.mapQubits, Bool.and_eq_true] at hs ⊢
    exact ⟨inRange_mapIdx m hv q hs.1, hs.2⟩
  | reset q nm =>
    simp only [Stmt.wf, Stmt.mapQubits] at hs ⊢
    exact inRange_mapIdx m hv q hs
  | comment t => exact hs

/-- the two constructor checks of `Circuit.map`: the mapping is a valid one, of register size -/
theorem mkMapping_mkMapper_ok (n : Nat) (m m' : List Int) (h : (mkMapping m >>= mkMapper n) = .ok m') :
    m' = m ∧ mappingValid m = true ∧ m.length = n := by
  obtain ⟨a, h1, h2⟩ := bind_ok.1 h
  unfold mkMapping at h1
  split at h1
  · injection h1 with h1; subst h1
    unfold mkMapper at h2
    split at h2
    · injection h2 with h2; subst h2
      rename_i hv hl
      exact ⟨rfl, hv, by simpa using hl⟩
    · cases h2
  · cases h1

theorem Pass.run_map (atol : α) (m : List Int) (c : Circuit α) :
    Pass.run atol (.map m) c =
      match mkMapping m >>= mkMapper c.nQubits with
      | .error e => (c, some e)
      | .ok m' => remap m' c := rfl

/-- **map_wf.** `Circuit.map` with a hard-coded mapping leaves a well-formed circuit with the same registers:
    when anything is refused the circuit is untouched; otherwise every qubit is relabelled through a
    permutation of `0 … nQubits-1`. -/
theorem map_wf (atol : α) (m : List Int) (c : Circuit α) (hwf : c.wf = true) :
    (Pass.run atol (.map m) c).1.wf = true ∧
      (Pass.run atol (.map m) c).1.nQubits = c.nQubits ∧
      (Pass.run atol (.map m) c).1.nBits = c.nBits := by
  rw [Pass.run_map]
  split
  · exact ⟨hwf, rfl, rfl⟩
  · rename_i m' hm
    obtain ⟨rfl, hv, hl⟩ := mkMapping_mkMapper_ok _ _ _ hm
    rcases remap_cases m' c with ⟨_, _, hr⟩ | ⟨_, hr⟩
    · rw [hr]
      refine ⟨?_, rfl, rfl⟩
      rw [Circuit.wf_iff] at hwf ⊢
      intro s hs
      obtain ⟨t, ht, rfl⟩ := List.mem_map.mp hs
      have := hwf t ht
      show Stmt.wf c.nQubits c.nBits (Stmt.mapQubits m' t) = true
      rw [← hl] at this ⊢
      exact Stmt.wf_mapQubits m' hv c.nBits t this
    · rw [hr]; exact ⟨hwf, rfl, rfl⟩

/-! ## The built-in decomposers are `Fine` (from `OSq.Proofs.Shape`) -/

/-- whatever a default-gate generator returns is a constructible gate (`evalGate_wf` of `OSq.Proofs.InstrWF`) -/
theorem named_fine {atol : α} {name : String} {args : List (Arg α)} {r : GStmt α}
    (h : named atol name args = .ok r) : GStmt.fine r := by
  simp only [named, bind_ok, pure, Except.pure] at h
  obtain ⟨⟨g, nm⟩, hc, hr⟩ := h
  injection hr with hr; subst hr
  obtain ⟨d, env, _, _, _, he, _⟩ := callGate_ok.1 hc
  obtain ⟨h1, _, _, h4⟩ := evalGate_wf he
  exact ⟨h4, h1⟩

/-- **every built-in decomposer only returns constructible gates** (`decomposer_operands_subset`) -/
theorem decomposer_fine (atol : α) (d : Decomposer) : d.Fine atol := by
  intro g nm repl hd hs h r hr
  obtain ⟨_, h2, h3⟩ := decomposer_operands_subset atol d g nm repl hd h r hr
  exact ⟨h2, h3 hs⟩

/-- **decompose_wf.** The state left by `Circuit.decompose` with any built-in decomposer — after success *or* after
    an exception (raised by the decomposer or by the replacement check) — is well-formed and has the same
    registers. -/
theorem decompose_wf (atol : α) (d : Decomposer) (c : Circuit α) (hwf : c.wf = true) :
    (Pass.run atol (.decompose d) c).1.wf = true ∧
      (Pass.run atol (.decompose d) c).1.nQubits = c.nQubits ∧
      (Pass.run atol (.decompose d) c).1.nBits = c.nBits :=
  decompose_wf_of_fine atol d c (decomposer_fine atol d) hwf

/-! ## 3. `replace_wf` -/

/-- the hypothesis on a `replace` callback: whatever it returns consists of gates without repeated operands
    and with matrices of the right size — true of every `Gate` object Python code can construct. -/
def CallbackFine (f : Nat → List (Arg α) → Except Err (List (GStmt α))) : Prop :=
  ∀ j args repl, f j args = .ok repl → ∀ r ∈ repl, GStmt.fine r

omit [Scalar α] in
theorem genericReplacer_fine (name : String) (f : Nat → List (Arg α) → Except Err (List (GStmt α)))
    (hf : CallbackFine f) (i : Nat) (g : Gate α) (nm : Option (Named α)) (repl : List (GStmt α))
    (hd : hasDup g.operands = false) (hs : g.shapeOk = true)
    (h : genericReplacer name f i (g, nm) = .ok repl) : ∀ r ∈ repl, GStmt.fine r := by
  rcases matchesName_cases name g nm with ⟨n, rfl, hn, _⟩ | hm
  · rw [genericReplacer_match name f i g n hn] at h
    exact hf i n.args repl h
  · rw [genericReplacer_other name f i g nm hm] at h
    injection h with h; subst h
    intro r hr
    rw [List.mem_singleton] at hr; subst hr
    exact ⟨hd, hs⟩

theorem replace_stmts_wf (atol : α) (name : String) (f : Nat → List (Arg α) → Except Err (List (GStmt α)))
    (hf : CallbackFine f) (nq nb : Nat) (stmts : List (Stmt α))
    (hwf : ∀ s ∈ stmts, Stmt.wf nq nb s = true) :
    ∀ s ∈ (replace atol name f stmts).1, Stmt.wf nq nb s = true := by
  rw [replace_eq_genLoop]
  exact genLoop_all _ _ (fun s => Stmt.wf nq nb s = true)
    (fun i s r => verdict_wf atol (genericReplacer name f) nq nb
      (fun i g nm repl h1 h2 h3 => genericReplacer_fine name f hf i g nm repl h1 h2 h3) i s r)
    stmts 0 [] (by simp) hwf

/-- **replace_wf.** The state left by `Circuit.replace` — after success or after an exception (raised by the
    callback or by the replacement check, also the self-check of a non-matching gate) — is well-formed and has
    the same registers. -/
theorem replace_wf (atol : α) (name : String) (f : Nat → List (Arg α) → Except Err (List (GStmt α)))
    (c : Circuit α) (hf : CallbackFine f) (hwf : c.wf = true) :
    (Pass.run atol (.replace name f) c).1.wf = true ∧
      (Pass.run atol (.replace name f) c).1.nQubits = c.nQubits ∧
      (Pass.run atol (.replace name f) c).1.nBits = c.nBits := by
  refine ⟨?_, rfl, rfl⟩
  rw [Circuit.wf_iff] at hwf ⊢
  exact replace_stmts_wf atol name f hf c.nQubits c.nBits c.stmts hwf

/-! ## 6. `runPasses_wf` -/

/-- the hypothesis on one pass: the callback of `replace` only returns constructible gates (nothing is assumed
    about `decompose`, `merge`, `map`) -/
def Pass.Fine : Pass α → Prop
  | .replace _ f => CallbackFine f
  | _ => True

/-- one pass keeps well-formedness and registers, whether it raises or not -/
theorem pass_wf (atol : α) (p : Pass α) (c : Circuit α) (hp : p.Fine) (hwf : c.wf = true) :
    (p.run atol c).1.wf = true ∧ (p.run atol c).1.nQubits = c.nQubits ∧ (p.run atol c).1.nBits = c.nBits := by
  cases p with
  | decompose d => exact decompose_wf atol d c hwf
  | replace name f => exact replace_wf atol name f c hp hwf
  | merge => exact merge_wf atol c hwf
  | map m => exact map_wf atol m c hwf

theorem runPasses_nil (atol : α) (c : Circuit α) : runPasses atol [] c = (c, none) := rfl

theorem runPasses_cons_none (atol : α) (p : Pass α) (ps : List (Pass α)) (c c' : Circuit α)
    (h : p.run atol c = (c', none)) : runPasses atol (p :: ps) c = runPasses atol ps c' := by
  simp only [runPasses, h]

theorem runPasses_cons_some (atol : α) (p : Pass α) (ps : List (Pass α)) (c c' : Circuit α) (e : Err)
    (h : p.run atol c = (c', some e)) : runPasses atol (p :: ps) c = (c', some e) := by
  simp only [runPasses, h]

/-- **runPasses_wf (C05).** Any finite sequence of passes — decomposition with a built-in decomposer, replacement
    of a named gate, single-qubit merging, qubit mapping — applied to a well-formed circuit leaves a well-formed
    circuit with the same registers; if one of the passes raises, the state it left behind (where the sequence
    stops) is well-formed as well.  By induction on the list: any length. -/
theorem runPasses_wf (atol : α) (ps : List (Pass α)) (c : Circuit α)
    (hps : ∀ name f, Pass.replace name f ∈ ps → CallbackFine f) (hwf : c.wf = true) :
    (runPasses atol ps c).1.wf = true ∧
      (runPasses atol ps c).1.nQubits = c.nQubits ∧ (runPasses atol ps c).1.nBits = c.nBits := by
  induction ps generalizing c with
  | nil => exact ⟨hwf, rfl, rfl⟩
  | cons p ps ih =>
    have hp : p.Fine := by
      cases p with
      | replace name f => exact hps name f List.mem_cons_self
      | _ => trivial
    obtain ⟨h1, h2, h3⟩ := pass_wf atol p c hp hwf
    cases hrun : p.run atol c with
    | mk c' oe =>
      rw [hrun] at h1 h2 h3
      cases oe with
      | none =>
        rw [runPasses_cons_none atol p ps c c' hrun]
        obtain ⟨i1, i2, i3⟩ := ih c' (fun n f hq => hps n f (List.mem_cons_of_mem _ hq)) h1
        exact ⟨i1, i2.trans h2, i3.trans h3⟩
      | some e =>
        rw [runPasses_cons_some atol p ps c c' e hrun]
        exact ⟨h1, h2, h3⟩

/-- sequences without `replace` (only built-in decomposers, merging, mapping): no hypothesis at all -/
theorem runPasses_wf_builtin (atol : α) (ps : List (Pass α)) (c : Circuit α)
    (hps : ∀ name f, Pass.replace name f ∉ ps) (hwf : c.wf = true) :
    (runPasses atol ps c).1.wf = true ∧
      (runPasses atol ps c).1.nQubits = c.nQubits ∧ (runPasses atol ps c).1.nBits = c.nBits :=
  runPasses_wf atol ps c (fun name f h => absurd h (hps name f)) hwf

/-! ## 8. `runPasses_append` -/

/-- running `ps ++ qs` is running `ps` and, unless that raised, `qs` on the result -/
theorem runPasses_append (atol : α) (ps qs : List (Pass α)) (c : Circuit α) :
    runPasses atol (ps ++ qs) c =
      (match runPasses atol ps c with
       | (c', none) => runPasses atol qs c'
       | r => r) := by
  induction ps generalizing c with
  | nil => rfl
  | cons p ps ih =>
    cases hrun : p.run atol c with
    | mk c' oe =>
      cases oe with
      | none =>
        rw [List.cons_append, runPasses_cons_none atol p _ c c' hrun,
          runPasses_cons_none atol p _ c c' hrun, ih]
      | some e =>
        rw [List.cons_append, runPasses_cons_some atol p _ c c' e hrun,
          runPasses_cons_some atol p _ c c' e hrun]

theorem runPasses_append_ok (atol : α) (ps qs : List (Pass α)) (c : Circuit α)
    (h : (runPasses atol ps c).2 = none) :
    runPasses atol (ps ++ qs) c = runPasses atol qs (runPasses atol ps c).1 := by
  rw [runPasses_append]
  cases hr : runPasses atol ps c with
  | mk c' oe => rw [hr] at h; cases h; rfl

theorem runPasses_append_err (atol : α) (ps qs : List (Pass α)) (c : Circuit α) (e : Err)
    (h : (runPasses atol ps c).2 = some e) :
    runPasses atol (ps ++ qs) c = ((runPasses atol ps c).1, some e) := by
  rw [runPasses_append]
  cases hr : runPasses atol ps c with
  | mk c' oe => rw [hr] at h; cases h; rfl

/-! ## 7. `runPasses_nongates` -/

/-- comments, measurements and resets -/
def notGate (s : Stmt α) : Bool := !s.isGate

omit [Scalar α] in
theorem notGate_notBSR (s : Stmt α) (h : notGate s = true) : notBSR s = true := by
  cases s with
  | gate g nm => simp [notGate, Stmt.isGate] at h
  | _ => rfl

omit [Scalar α] in
theorem filter_notGate_of_notBSR (l l' : List (Stmt α)) (h : l.filter notBSR = l'.filter notBSR) :
    l.filter notGate = l'.filter notGate := by
  have key : ∀ k : List (Stmt α), k.filter notGate = (k.filter notBSR).filter notGate := by
    intro k
    rw [List.filter_filter]
    apply List.filter_congr
    intro s _
    cases hs : notGate s with
    | true => simp [notGate_notBSR s hs]
    | false => simp
  rw [key l, key l', h]

omit [Scalar α] in
theorem filter_notGate_map (m : List Int) (l : List (Stmt α)) :
    (l.map (Stmt.mapQubits m)).filter notGate = (l.filter notGate).map (Stmt.mapQubits m) := by
  induction l with
  | nil => rfl
  | cons s l ih =>
    have hg : notGate (Stmt.mapQubits m s) = notGate s := by simp only [notGate, Stmt.isGate_mapQubits]
    simp only [List.map_cons, List.filter_cons, hg]
    split
    · rw [List.map_cons, ih]
    · exact ih

/-- a pass other than `map` does not touch comments, measurements and resets (not even when it raises) -/
theorem pass_nongates (atol : α) (p : Pass α) (c : Circuit α) (hp : ∀ m, p ≠ .map m) :
    (p.run atol c).1.stmts.filter notGate = c.stmts.filter notGate := by
  cases p with
  | decompose d => exact decompose_nongates atol _ c.stmts
  | replace name f => exact replace_nongates atol name f c.stmts
  | merge => exact filter_notGate_of_notBSR _ _ (merge_filter atol c)
  | map m => exact absurd rfl (hp m)

/-- a successful `map` relabels every statement; a refused one changes nothing -/
theorem Pass.run_map_cases (atol : α) (m : List Int) (c : Circuit α) :
    (∃ e, Pass.run atol (.map m) c = (c, some e)) ∨
    Pass.run atol (.map m) c = ({ c with stmts := c.stmts.map (Stmt.mapQubits m) }, none) := by
  rw [Pass.run_map]
  split
  · rename_i e _; exact Or.inl ⟨e, rfl⟩
  · rename_i m' hm
    obtain ⟨rfl, _, _⟩ := mkMapping_mkMapper_ok _ _ _ hm
    rcases remap_cases m' c with ⟨_, _, hr⟩ | ⟨_, hr⟩
    · exact Or.inr hr
    · exact Or.inl ⟨_, hr⟩

/-- the mapping of a `map` pass (as a list of at most one element) -/
def Pass.mapOf : Pass α → List (List Int)
  | .map m => [m]
  | _ => []

/-- the mappings of the `map` calls of a run that went through, in program order -/
def appliedMaps (atol : α) : List (Pass α) → Circuit α → List (List Int)
  | [], _ => []
  | p :: ps, c =>
    match p.run atol c with
    | (c', none) => p.mapOf ++ appliedMaps atol ps c'
    | (_, some _) => []

/-- relabel a statement through a sequence of mappings, first mapping first -/
def relabelAll (ms : List (List Int)) (s : Stmt α) : Stmt α := ms.foldl (fun s m => s.mapQubits m) s

omit [Scalar α] in
@[simp] theorem relabelAll_nil (s : Stmt α) : relabelAll [] s = s := rfl
omit [Scalar α] in
@[simp] theorem relabelAll_cons (m : List Int) (ms : List (List Int)) (s : Stmt α) :
    relabelAll (m :: ms) s = relabelAll ms (s.mapQubits m) := rfl

omit [Scalar α] in
theorem map_relabelAll_nil (l : List (Stmt α)) : l.map (relabelAll []) = l := by
  induction l with
  | nil => rfl
  | cons s l ih => rw [List.map_cons, ih, relabelAll_nil]

theorem appliedMaps_cons_none (atol : α) (p : Pass α) (ps : List (Pass α)) (c c' : Circuit α)
    (h : p.run atol c = (c', none)) :
    appliedMaps atol (p :: ps) c = p.mapOf ++ appliedMaps atol ps c' := by
  simp only [appliedMaps, h]

theorem appliedMaps_cons_some (atol : α) (p : Pass α) (ps : List (Pass α)) (c c' : Circuit α) (e : Err)
    (h : p.run atol c = (c', some e)) : appliedMaps atol (p :: ps) c = [] := by
  simp only [appliedMaps, h]

/-- without `map` passes nothing is relabelled -/
theorem appliedMaps_no_map (atol : α) (ps : List (Pass α)) (c : Circuit α) (hps : ∀ p ∈ ps, ∀ m, p ≠ .map m) :
    appliedMaps atol ps c = [] := by
  induction ps generalizing c with
  | nil => rfl
  | cons p ps ih =>
    cases hrun : p.run atol c with
    | mk c' oe =>
      cases oe with
      | none =>
        rw [appliedMaps_cons_none atol p ps c c' hrun, ih c' (fun q hq => hps q (List.mem_cons_of_mem _ hq))]
        cases p with
        | map m => exact absurd rfl (hps _ List.mem_cons_self m)
        | _ => rfl
      | some e => exact appliedMaps_cons_some atol p ps c c' e hrun

/-- **runPasses_nongates (general form).** Whatever the passes are and wherever the sequence stops, the comments,
    measurements and resets of the result are those of the input, in the same order, none dropped or
    duplicated, each relabelled through the mappings of the `map` calls that went through (composed in call
    order). -/
theorem runPasses_nongates_map (atol : α) (ps : List (Pass α)) (c : Circuit α) :
    (runPasses atol ps c).1.stmts.filter notGate =
      (c.stmts.filter notGate).map (relabelAll (appliedMaps atol ps c)) := by
  induction ps generalizing c with
  | nil => simp only [runPasses, appliedMaps, map_relabelAll_nil]
  | cons p ps ih =>
    cases hrun : p.run atol c with
    | mk c' oe =>
      cases oe with
      | some e =>
        rw [runPasses_cons_some atol p ps c c' e hrun, appliedMaps_cons_some atol p ps c c' e hrun]
        have : c'.stmts.filter notGate = c.stmts.filter notGate := by
          cases p with
          | map m =>
            rcases Pass.run_map_cases atol m c with ⟨e', h⟩ | h
            · rw [h] at hrun; injection hrun with h1 _; rw [← h1]
            · rw [h] at hrun; injection hrun with _ h2; cases h2
          | decompose d =>
            have := pass_nongates atol (.decompose d) c (fun m h => by cases h); rwa [hrun] at this
          | replace name f =>
            have := pass_nongates atol (.replace name f) c (fun m h => by cases h); rwa [hrun] at this
          | merge =>
            have := pass_nongates atol .merge c (fun m h => by cases h); rwa [hrun] at this
        rw [this, map_relabelAll_nil]
      | none =>
        rw [runPasses_cons_none atol p ps c c' hrun, appliedMaps_cons_none atol p ps c c' hrun, ih c']
        cases p with
        | map m =>
          rcases Pass.run_map_cases atol m c with ⟨e', h⟩ | h
          · rw [h] at hrun; injection hrun with _ h2; cases h2
          · rw [h] at hrun; injection hrun with h1 _
            rw [← h1]
            show List.map _ (List.filter notGate (c.stmts.map (Stmt.mapQubits m))) = _
            rw [filter_notGate_map, List.map_map]
            apply List.map_congr_left
            intro s _
            simp [Pass.mapOf]
        | decompose d =>
          have := pass_nongates atol (.decompose d) c (fun m h => by cases h); rw [hrun] at this
          simp only [Pass.mapOf, List.nil_append]; rw [this]
        | replace name f =>
          have := pass_nongates atol (.replace name f) c (fun m h => by cases h); rw [hrun] at this
          simp only [Pass.mapOf, List.nil_append]; rw [this]
        | merge =>
          have := pass_nongates atol .merge c (fun m h => by cases h); rw [hrun] at this
          simp only [Pass.mapOf, List.nil_append]; rw [this]

/-- **runPasses_nongates.** Passes other than `map` never change, drop, duplicate or reorder comments,
    measurements and resets — for every list of such passes, also when one of them raises. -/
theorem runPasses_nongates (atol : α) (ps : List (Pass α)) (c : Circuit α)
    (hps : ∀ p ∈ ps, ∀ m, p ≠ .map m) :
    (runPasses atol ps c).1.stmts.filter notGate = c.stmts.filter notGate := by
  rw [runPasses_nongates_map, appliedMaps_no_map atol ps c hps, map_relabelAll_nil]

/-! ## Non-vacuity examples -/
namespace PipelineExamples

/-- the toy scalar of `DecomposeLoopExamples` (integers, `cos = 1`, `sin = 0`) -/
local instance : Trig Int where
  pi := 3
  sin _ := 0
  cos _ := 1
  tan _ := 0
  acos _ := 0
  sqrt x := x
  atan2 _ _ := 0
  floor x := x
  abs x := x.natAbs
  copysign x _ := x
  finite _ := true
local instance : OfScientific Int := ⟨fun _ _ _ => 0⟩
local instance : Scalar Int where
  decLt := inferInstance
  decLe := inferInstance
  decEqB x y := x == y

def rot (q : Int) : Gate Int := .bsr q (1, 0, 0) 0 0
def nRx (q : Int) : Named Int := ⟨"Rx", [.qubit q]⟩
def ax : Vec3 Int := (0, 0, 1)

/-- named rotation, controlled rotation, measurement, anonymous rotation, reset -/
def circ : Circuit Int :=
  { nQubits := 2, nBits := 1,
    stmts := [.gate (rot 0) (some (nRx 0)), .gate (.ctrl 0 (rot 1)) none, .measure 0 0 ax none,
              .gate (rot 1) none, .reset 1 none] }

theorem circ_wf : circ.wf = true := by decide

/-- a `replace` callback: `Rx(q)` becomes two rotations on `q` -/
def fTwice : Nat → List (Arg Int) → Except Err (List (GStmt Int)) := fun _ args =>
  match args with
  | [.qubit q] => .ok [(rot q, some (nRx q)), (rot q, none)]
  | _ => .error .value

theorem fTwice_fine : CallbackFine fTwice := by
  intro j args repl h
  unfold fTwice at h
  split at h
  · injection h with h; subst h
    intro r hr
    simp only [List.mem_cons, List.not_mem_nil, or_false] at hr
    rcases hr with rfl | rfl <;> exact ⟨rfl, rfl⟩
  · cases h

/-- a fourth kind of pass in front: the concrete sequence with a built-in decomposer -/
def passes4 : List (Pass Int) := [.decompose (.aba .ZYZ), .replace "Rx" fTwice, .merge, .map [1, 0]]

/-- replace `Rx`, merge, swap the two qubits -/
def passes : List (Pass Int) := [.replace "Rx" fTwice, .merge, .map [1, 0]]

theorem passes_fine : ∀ name f, Pass.replace name f ∈ passes → CallbackFine f := by
  intro name f hp
  simp only [passes, List.mem_cons, List.not_mem_nil, or_false] at hp
  rcases hp with h | h | h
  · injection h with _ h; subst h; exact fTwice_fine
  · cases h
  · cases h

/-- `runPasses_wf` on a concrete three-pass sequence and a concrete circuit -/
example : (runPasses (1 : Int) passes circ).1.wf = true ∧
    (runPasses (1 : Int) passes circ).1.nQubits = 2 ∧ (runPasses (1 : Int) passes circ).1.nBits = 1 :=
  runPasses_wf (1 : Int) passes circ passes_fine circ_wf

example : (runPasses (1 : Int) passes4 circ).1.wf = true :=
  (runPasses_wf (1 : Int) passes4 circ (by
    intro name f hp
    simp only [passes4, List.mem_cons, List.not_mem_nil, or_false] at hp
    rcases hp with h | h | h | h
    · cases h
    · injection h with _ h; subst h; exact fTwice_fine
    · cases h
    · cases h) circ_wf).1

/-- measurement and reset come out relabelled by the swap, in place -/
example : (runPasses (1 : Int) passes circ).1.stmts.filter notGate =
    (circ.stmts.filter notGate).map (relabelAll (appliedMaps (1 : Int) passes circ)) :=
  runPasses_nongates_map (1 : Int) passes circ

example : (runPasses (1 : Int) [.replace "Rx" fTwice, .merge] circ).1.stmts.filter notGate =
    [.measure 0 0 ax none, .reset 1 none] :=
  runPasses_nongates (1 : Int) [.replace "Rx" fTwice, .merge] circ (by
    intro p hp m
    simp only [List.mem_cons, List.not_mem_nil, or_false] at hp
    rcases hp with rfl | rfl <;> intro h <;> cases h)

/-- the `replace` call goes through (kernel evaluation; `#eval` shows that the whole sequence `passes` runs without
    exception and ends with 3 statements, `appliedMaps = [[1, 0]]`) -/
theorem replace_run : (runPasses (1 : Int) [.replace "Rx" fTwice] circ).2 = none := by decide +kernel

/-- `runPasses_append` on the concrete run -/
example : runPasses (1 : Int) ([.replace "Rx" fTwice] ++ [.merge, .map [1, 0]]) circ =
    runPasses (1 : Int) [.merge, .map [1, 0]] (runPasses (1 : Int) [.replace "Rx" fTwice] circ).1 :=
  runPasses_append_ok (1 : Int) _ _ circ replace_run

example (c : Circuit Int) (e : Err) (h : (runPasses (1 : Int) [.replace "Rx" fTwice] c).2 = some e) :
    runPasses (1 : Int) ([.replace "Rx" fTwice] ++ [.merge, .map [1, 0]]) c =
      ((runPasses (1 : Int) [.replace "Rx" fTwice] c).1, some e) :=
  runPasses_append_err (1 : Int) _ _ c e h



end PipelineExamples

/-- the main theorem for an arbitrary scalar type and a sequence using all four kinds of passes: the only
    hypothesis left is the one on the user's callback -/
example (atol : α) (c : Circuit α) (f : Nat → List (Arg α) → Except Err (List (GStmt α)))
    (hf : CallbackFine f) (hwf : c.wf = true) :
    (runPasses atol [.decompose .mckay, .replace "H" f, .merge, .decompose .cnot, .map [2, 0, 1]] c).1.wf = true :=
  (runPasses_wf atol _ c (by
    intro name f' hp
    simp only [List.mem_cons, List.not_mem_nil, or_false] at hp
    rcases hp with h | h | h | h | h
    · cases h
    · injection h with _ h; subst h; exact hf
    · cases h
    · cases h
    · cases h) hwf).1

/-- … and on the executable `Float` model (no hypothesis but well-formedness of the input) -/
example (c : Circuit Float) (hwf : c.wf = true) :
    (runPasses Gen.atol [.decompose (.aba .ZYZ), .merge, .map [1, 0, 2], .decompose .mckay, .merge] c).1.wf = true :=
  (runPasses_wf_builtin Gen.atol _ c (by
    intro name f hp
    simp only [List.mem_cons, List.not_mem_nil, or_false] at hp
    rcases hp with h | h | h | h | h <;> cases h) hwf).1

#print axioms check_subset
#print axioms decompose_wf
#print axioms replace_wf
#print axioms merge_wf
#print axioms map_wf
#print axioms decomposer_fine
#print axioms runPasses_wf
#print axioms runPasses_wf_builtin
#print axioms runPasses_nongates_map
#print axioms runPasses_nongates
#print axioms runPasses_append
#print axioms PipelineExamples.replace_run

end OSq
