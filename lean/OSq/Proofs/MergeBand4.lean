/-
  OSq.Proofs.MergeBand4 — the hypothesis "every other gate has operator norm `≤ 1`" of `MergeBand3.merge_all_inputs`
  discharged for the gates of the default gate set that are `ControlledGate`s, and the resulting *syntactic* form of
  the all-inputs circuit-level theorem.  (`‖·‖` = L2 operator norm, namespace `OSq.Bands`.)

  * `measOp_conjTranspose`       the measurement projector is Hermitian
  * `gateOp_ctrl_eq`             `gateOp n (.ctrl cq g) = gateOp n g * P₁(cq) + P₀(cq)`
  * `gateOp_commute_measOp`      a gate commutes with the projectors of a qubit it does not touch
  * `gateOp_ctrl_unitary`        `gateOp n g` unitary, `cq ∉ g.operands`, in range ⇒ `gateOp n (.ctrl cq g)` unitary
  * `gateOp_bsr_unitary`         a unit-axis rotation on a register qubit is unitary (register level)
  * `ctrlRot g`                  `g` is a unit-axis rotation or a (nested) controlled one
  * `gateOp_unitary_of_ctrlRot`, `norm_gateOp_le_of_ctrlRot`   such gates (in range, no repeated operand) are unitary,
                                 hence of norm `≤ 1`
  * `merge_all_inputs_std`       **C02, all inputs, syntactic hypotheses only**: operands in range, gates are
                                 (controlled) unit-axis rotations without repeated operands, `0 < atol ≤ π` ⇒ the pass does
                                 not raise, `SameBarriers`, and `∃ z, ‖z‖ = 1 ∧ ∀ o,
                                 ‖circOp n merged o − z • circOp n original o‖ ≤ G · perRot atol`
  * example                      `Rx(1/20) q0; CNOT q0 q1; Rx(1/20) q0; measure q0` at `atol = 1/10`
  Matrix gates (`SWAP`, …) are not covered by `ctrlRot`: for them use `merge_all_inputs` with `‖gateOp n g‖ ≤ 1`
  (`opNorm_le_one_of_unitary`).
-/
import OSq.Proofs.MergeBand3

set_option linter.unusedSectionVars false
set_option linter.unusedVariables false
set_option linter.unusedSimpArgs false
set_option linter.unusedTactic false
open Matrix
open scoped Matrix.Norms.L2Operator

namespace OSq
namespace Bands
open MergeAbs Sem

/-! ## 1. Controlled gates are unitary -/

theorem measOp_conjTranspose (n q : Nat) (b : Bool) : (measOp n q b)ᴴ = measOp n q b := by
  ext r c
  rw [Matrix.conjTranspose_apply]
  simp only [measOp]
  by_cases h : r = c
  · subst h; split <;> simp
  · rw [if_neg (fun h' => h h'.1.symm), if_neg (fun h' => h h'.1), star_zero]

/-- `ControlledGate` semantics: `C(g) = g · P₁ + P₀` (columns whose control bit is `0` are identity columns) -/
theorem gateOp_ctrl_eq (n : Nat) (cq : Int) (g : Gate ℝ) :
    gateOp n (.ctrl cq g) = gateOp n g * measOp n cq.toNat true + measOp n cq.toNat false := by
  ext r c
  rw [Matrix.add_apply, Matrix.mul_apply, Finset.sum_eq_single c]
  · rw [gateOp_apply, gateOp_apply]
    simp only [denote, ctrlOf, measOp, delta]
    cases hc : c.val.testBit cq.toNat with
    | true =>
      have hn : ¬ (r = c ∧ r.val.testBit cq.toNat = false) := by
        rintro ⟨rfl, h⟩; rw [hc] at h; cases h
      simp [hc, hn]
    | false =>
      by_cases hrc : r = c
      · subst hrc; simp [hc]
      · have : ¬ r.val = c.val := fun e => hrc (Fin.ext e)
        simp [hrc, this]
  · intro x _ hx
    simp [measOp, hx]
  · intro h; exact absurd (Finset.mem_univ c) h

/-- a gate that does not touch `cq` commutes with the projectors on `cq` -/
theorem gateOp_commute_measOp (n : Nat) (g : Gate ℝ) (cq : Int) (hg : g.inReg n) (hcq : 0 ≤ cq ∧ cq < (n : Int))
    (hnot : cq ∉ g.operands) (b : Bool) :
    gateOp n g * measOp n cq.toNat b = measOp n cq.toNat b * gateOp n g :=
  commute_disjoint (n := n) (.gate g none) (.measure cq 0 (0, 0, 1) none) hg
    (by intro q hq; simp only [Stmt.qubits, List.mem_singleton] at hq; subst hq; exact hcq)
    (by intro q hq h2; simp only [Stmt.qubits, List.mem_singleton] at h2; subst h2; exact hnot hq) false b

/-- **a controlled unitary is unitary** (control outside the operands of the target gate) -/
theorem gateOp_ctrl_unitary (n : Nat) (g : Gate ℝ) (cq : Int) (hg : g.inReg n) (hcq : 0 ≤ cq ∧ cq < (n : Int))
    (hnot : cq ∉ g.operands) (hU : gateOp n g ∈ Matrix.unitaryGroup (Fin (2 ^ n)) ℂ) :
    gateOp n (.ctrl cq g) ∈ Matrix.unitaryGroup (Fin (2 ^ n)) ℂ := by
  rw [Matrix.mem_unitaryGroup_iff', Matrix.star_eq_conjTranspose, gateOp_ctrl_eq]
  set A := gateOp n g
  set P1 := measOp n cq.toNat true
  set P0 := measOp n cq.toNat false
  have hA : Aᴴ * A = 1 := by
    have := Matrix.mem_unitaryGroup_iff'.mp hU
    rwa [Matrix.star_eq_conjTranspose] at this
  have c1 : A * P1 = P1 * A := gateOp_commute_measOp n g cq hg hcq hnot true
  have c0 : A * P0 = P0 * A := gateOp_commute_measOp n g cq hg hcq hnot false
  have h1 : P1ᴴ = P1 := measOp_conjTranspose _ _ _
  have h0 : P0ᴴ = P0 := measOp_conjTranspose _ _ _
  have p11 : P1 * P1 = P1 := measOp_mul_self _ _ _
  have p00 : P0 * P0 = P0 := measOp_mul_self _ _ _
  have p10 : P1 * P0 = 0 := measOp_mul_ne n cq.toNat true
  have p01 : P0 * P1 = 0 := measOp_mul_ne n cq.toNat false
  have padd : P0 + P1 = 1 := measOp_add n cq.toNat
  rw [Matrix.conjTranspose_add, Matrix.conjTranspose_mul, h1, h0]
  -- (P1 Aᴴ + P0)(A P1 + P0) = P1 AᴴA P1 + P1 Aᴴ P0 + P0 A P1 + P0 P0
  have e1 : P1 * Aᴴ * (A * P1) = P1 := by
    rw [Matrix.mul_assoc, ← Matrix.mul_assoc Aᴴ, hA, Matrix.one_mul, p11]
  have e2 : P0 * (A * P1) = 0 := by
    rw [c1, ← Matrix.mul_assoc, p01, Matrix.zero_mul]
  have e3 : P1 * Aᴴ * P0 = 0 := by
    have : (P0 * (A * P1))ᴴ = 0 := by rw [e2, Matrix.conjTranspose_zero]
    rwa [Matrix.conjTranspose_mul, Matrix.conjTranspose_mul, h1, h0] at this
  rw [Matrix.add_mul, Matrix.mul_add, Matrix.mul_add, e1, e2, e3, p00, add_zero, zero_add, add_comm, padd]

/-- a plain rotation with a unit axis on a register qubit is unitary -/
theorem gateOp_bsr_unitary (n : Nat) (q : Int) (hq : q.toNat < n) (ax : Vec3 ℝ) (an ph : ℝ) (hax : UnitVec ax) :
    gateOp n (.bsr q ax an ph) ∈ Matrix.unitaryGroup (Fin (2 ^ n)) ℂ := by
  rw [gateOp_bsr_eq_lift n q hq]
  have hU : (gateOp 1 (.bsr 0 ax an ph) : Op 1) ∈ Matrix.unitaryGroup (Fin (2 ^ 1)) ℂ := by
    have e : (gateOp 1 (.bsr 0 ax an ph) : Op 1) = rotOp1 ⟨0, ax, an, ph, none⟩ := rfl
    rw [e, rotOp1_eq]
    exact rot_unitary _ _ _ ((unitVec_iff _).mp hax)
  rw [Matrix.mem_unitaryGroup_iff', Matrix.star_eq_conjTranspose] at hU ⊢
  rw [← lift_conjTranspose, ← lift_mul [q.toNat] rfl (by simp) (by simpa using hq), hU, lift_one]

/-- (nested) controlled unit-axis rotations: `CNOT`, `CZ`, `CR`, `CRk`, … — every `ControlledGate` of the default
    gate set -/
def ctrlRot : Gate ℝ → Prop
  | .bsr _ ax _ _ => UnitVec ax
  | .matrix _ _ => False
  | .ctrl _ g => ctrlRot g

theorem gateOp_unitary_of_ctrlRot (n : Nat) (g : Gate ℝ) (hg : g.inReg n) (hd : hasDup g.operands = false)
    (hc : ctrlRot g) : gateOp n g ∈ Matrix.unitaryGroup (Fin (2 ^ n)) ℂ := by
  induction g with
  | bsr q ax an ph =>
    have := hg q (by simp [Gate.operands])
    exact gateOp_bsr_unitary n q (by omega) ax an ph hc
  | matrix m ops => exact absurd hc (by simp [ctrlRot])
  | ctrl cq g ih =>
    simp only [Gate.operands, hasDup, Bool.or_eq_false_iff] at hd
    have hg' : g.inReg n := fun q hq => hg q (by simp [Gate.operands, hq])
    have hcq := hg cq (by simp [Gate.operands])
    have hnot : cq ∉ g.operands := by
      intro h
      have := hd.1
      simp [h] at this
    exact gateOp_ctrl_unitary n g cq hg' hcq hnot (ih hg' hd.2 hc)

theorem norm_gateOp_le_of_ctrlRot (n : Nat) (g : Gate ℝ) (hg : g.inReg n) (hd : hasDup g.operands = false)
    (hc : ctrlRot g) : ‖gateOp n g‖ ≤ 1 :=
  opNorm_le_one_of_unitary (gateOp_unitary_of_ctrlRot n g hg hd hc)

/-! ## 2. The circuit-level theorem for circuits of (controlled) rotations, measurements, resets -/

/-- **merge_all_inputs_std** — C02 for all inputs, with hypotheses on the *syntax* of the circuit only: operands in
    range, no repeated operand in a gate, every gate a unit-axis rotation or a (nested) controlled unit-axis rotation
    (measurements, resets, comments are unrestricted).  Then for `0 < atol ≤ π` the pass does not raise, keeps all
    non-gate statements, and there is ONE unit scalar `z` with, for EVERY outcome assignment `o`,
    `‖circOp n merged o − z • circOp n original o‖ ≤ G · perRot atol` (operator norm), `G` = number of one-qubit
    rotations, `perRot atol ≤ 10·atol + 5·10⁻⁷`. -/
theorem merge_all_inputs_std (atol : ℝ) (hat : 0 < atol) (hpi : atol ≤ Real.pi) (c : Circuit ℝ)
    (hr : OperandsInRange c.nQubits c.stmts)
    (hstd : ∀ g nm, Stmt.gate g nm ∈ c.stmts → ctrlRot g ∧ hasDup g.operands = false) :
    (merge atol c).2 = none ∧ SameBarriers c.stmts (merge atol c).1.stmts ∧
    ∃ z : ℂ, ‖z‖ = 1 ∧ ∀ o : List Bool,
      ‖circOp c.nQubits (merge atol c).1.stmts o - z • circOp c.nQubits c.stmts o‖
        ≤ (c.stmts.countP Stmt.isBSR : ℝ) * perRot atol := by
  apply merge_all_inputs' atol hat hpi c hr
  · intro s hs r hsr
    cases s with
    | gate g nm =>
      cases g with
      | bsr q ax an ph =>
        simp only [Stmt.rot?, Option.some.injEq] at hsr
        subst hsr
        exact (hstd _ _ hs).1
      | matrix m ops => simp [Stmt.rot?] at hsr
      | ctrl cq g => simp [Stmt.rot?] at hsr
    | measure q b ax nm => simp [Stmt.rot?] at hsr
    | reset q nm => simp [Stmt.rot?] at hsr
    | comment cm => simp [Stmt.rot?] at hsr
  · intro g nm hs _
    obtain ⟨h1, h2⟩ := hstd g nm hs
    refine norm_gateOp_le_of_ctrlRot c.nQubits g ?_ h2 h1
    intro q hq
    have := hr _ hs q (by simpa [Stmt.qubits] using hq)
    simp only [inRange, Bool.and_eq_true, decide_eq_true_eq] at this
    exact this

/-! ### Non-vacuity: rotations inside the band around a CNOT and a measurement -/

/-- `Rx(1/20) q0; CNOT q0 q1; Rx(1/20) q0; measure q0` on two qubits, `atol = 1/10` -/
noncomputable def exStd : Circuit ℝ :=
  { nQubits := 2, nBits := 1,
    stmts := [rotStmtOf exR, .gate (.ctrl 0 (.bsr 1 (1, 0, 0) Real.pi (Real.pi / 2))) none, rotStmtOf exR,
      .measure 0 0 (0, 0, 1) none] }

example : (merge (1 / 10 : ℝ) exStd).2 = none ∧ SameBarriers exStd.stmts (merge (1 / 10 : ℝ) exStd).1.stmts ∧
    ∃ z : ℂ, ‖z‖ = 1 ∧ ∀ o : List Bool,
      ‖circOp 2 (merge (1 / 10 : ℝ) exStd).1.stmts o - z • circOp 2 exStd.stmts o‖ ≤ 2 * perRot (1 / 10) := by
  have hpi := Real.two_le_pi
  obtain ⟨h1, h2, z, hz, H⟩ := merge_all_inputs_std (1 / 10) (by norm_num) (by linarith) exStd
    (by
      intro s hs q hq
      simp only [exStd, List.mem_cons, List.not_mem_nil, or_false] at hs
      rcases hs with rfl | rfl | rfl | rfl <;>
        simp only [rotStmtOf, exR, Stmt.qubits, Gate.operands, List.mem_cons, List.mem_singleton,
          List.not_mem_nil, or_false] at hq <;>
        (try rcases hq with rfl | rfl) <;> (try subst hq) <;> rfl)
    (by
      intro g nm hs
      simp only [exStd, rotStmtOf, List.mem_cons, List.not_mem_nil, or_false, Stmt.gate.injEq, reduceCtorEq] at hs
      rcases hs with ⟨rfl, -⟩ | ⟨rfl, -⟩ | ⟨rfl, -⟩
      · exact ⟨exR_unit, rfl⟩
      · exact ⟨by simp [ctrlRot, UnitVec], rfl⟩
      · exact ⟨exR_unit, rfl⟩)
  refine ⟨h1, h2, z, hz, fun o => ?_⟩
  have := H o
  have e : exStd.stmts.countP Stmt.isBSR = 2 := rfl
  rw [e] at this
  exact_mod_cast this

end Bands
end OSq

#print axioms OSq.Bands.gateOp_ctrl_eq
#print axioms OSq.Bands.gateOp_ctrl_unitary
#print axioms OSq.Bands.gateOp_unitary_of_ctrlRot
#print axioms OSq.Bands.norm_gateOp_le_of_ctrlRot
#print axioms OSq.Bands.merge_all_inputs_std
