import OSq.Proofs.V1Sem2
import OSq.Proofs.Bands

/-
  OSq.Proofs.V3Sem — property C04, semantic half: **the cQASM 3 text of a circuit parses back to a circuit that
  performs the same operation** ("… the same instruction, qubit operands, bit target and parameters (reals to 8
  significant digits), HENCE THE SAME OPERATION as the in-memory circuit").  At `α := ℝ`; helpers in `OSq.V3Sem`.
  Builds on `RoundTrip` (writer → specification reader: `readLine3_writeStmt`, `readProgram3_writeCircuit`,
  `decimalValue`, `param_value`), `GateTable` (`call_*`, `rot_CR`, `rot_nA_sign`), `Bands` (`rot_lipschitz_angle`,
  `norm_exp_sub_exp_le`), `V1Sem`/`V1Sem2` (`LibStmt`, `LibGate`, `callGate_cases`, `oneSpec`, `gateOp_bsr_oneSpec`,
  `Readable`), `SchedSem` (`ctrlSpec`, `gateOp_ctrl_bsr`) and `Sem/Circuit` (`stmtOp`).

  Scope: the model's writer (`writeStmt`, `writeCircuit`), the specification reader (`readLine3`, `readProgram3`) and
  the model's library call (`callGate` / `callMeasure` / `callReset` on the generated default tables).  libqasm itself
  is not modelled; the tie between the specification reader and libqasm is checked at run time by the harness.

  Definitions
  * `Close8 x v`        the closeness `param_value` provides: `x = v = 0`, or `v` has decimal exponent `e`
                        (`10^(e-1) ≤ |v| < 10^e`) and `|x − v| ≤ 10^(e−8)/2` (half a unit in the 8th significant digit).
    `Close8.rel`, `Close8.rel'`:  `|x − v| ≤ 5·10⁻⁸·|v|`, `|x − v| ≤ 5.1·10⁻⁸·|x|`.
  * `FmtDenotes fmt x`  `∃ v, decimalValue (fmt x) = some v ∧ Close8 x v` (what `param_value` / `param_value_zero` prove
                        of `fmtFloat 8` on finite doubles; instance for the real formatter in `V3Sem2.lean`).
  * `paramArg t`        value of a parameter text: a decimal with point ↦ `.float`, `[-]d+` ↦ `.int`
                        (`paramArg_int`: integer texts are read exactly).
  * `rebuildLine atol l`, `rebuildProgram atol text`   the library call on a read line / on every line of a read text
                        (`callGate atol Gen.gateTable name (qubits ++ values)`, `callMeasure … [qubit, bit]`,
                        `callReset … [qubit]`; comments kept).
  * `ParamClose`, `SameShape s s'`   same instruction name, qubit operands, bit target; integer parameters equal, float
                        parameters `x ↦ (v : ℝ)` with `Close8 x v`.
  * `opBound s s'`      `|θ' − θ|` for `CR`, `|θ' − θ| / 2` otherwise (single float parameters), `0` without float parameter.
  * `OpClose s s'`      `∃ σ = ±1` (`σ = -1` only for `Rx/Ry/Rz`), `∀ n b r k, ‖stmtOp n s' b r k − σ·stmtOp n s b r k‖ ≤ opBound s s'`.
  * `Reread atol s s'`  comment kept verbatim, or library statements with `SameShape` and `OpClose`.

  Theorems (`0 < atol ≤ π/2`)
  * `libGate_reparse`, `reparse_gate`   gates: the read line is `(name, parameter texts, qubits)`, the texts evaluate to
                        `ps'`, `callGate atol Gen.gateTable name (qubits ++ ps')` succeeds with a `SameShape` statement.
  * `reparse_stmt`      every library statement: written line = `stmtBody ++ "\n"`, read as `expectedLine3`, re-built
                        (`rebuildLine`) as a library statement `s'` with `SameShape s s'`.
  * `oneSpec_entry_close`, `ctrlSpec_entry_close`   an entrywise bound on the 2×2 (target) operator is the same
                        entrywise bound on the embedded register operator.
  * `rot_nA_close`      `‖rot a (nA θ') 0 i j − σ·rot a (nA θ) 0 i j‖ ≤ |θ' − θ|/2`, `σ = ±1` (unit axis, `nA = normalizeAngle`).
  * `rot_CR_close`      the target operators of `CR(θ)`, `CR(θ')` are within `|θ' − θ|` (constant 1: phase-type dependence).
  * `reparse_stmt_op`   (main, statement level) `LibStmt s`, `LibStmt s'`, `SameShape s s'` ⇒ `OpClose s s'`;
                        `reparse_gate_op` the gate case; parameter-free gates, `CRk`, measure, reset: `s' = s`.
  * `angleDiff_le`, `opBound_le`   `opBound s s' ≤ 5·10⁻⁸·|θ'|` and `≤ 5.1·10⁻⁸·|θ|`.
  * `branch_cut_sign`   the sign is real: for `θ < π + atol ≤ θ'` (the branch cut of `normalize_angle`)
                        `rot a (nA θ) 0 = rot a θ 0` but `rot a (nA θ') 0 = − rot a θ' 0`.
  * `writeCircuit_read_sem`  (main, program level) circuit of library statements and writable comments, formatter
                        producing tokens that denote the float parameters: the text is read back
                        (`readProgram3 = some (nQubits, nBits, lines)`), `rebuildProgram` succeeds with `c'`, same register
                        sizes, `List.Forall₂ (Reread atol) c.stmts c'.stmts`.
  * Non-vacuity / negative controls: `Rz(1/3)` is written `Rz(0.33333333) q[0]`, re-built with parameter
                        `33333333/10^8 ≠ 1/3`, `SameShape`, `OpClose`, `opBound = 1/(6·10⁸)`; a 5-statement circuit;
                        `not_sameShape_Rx_Ry`, wrong operand / parameter outside the bound are not `SameShape`;
                        `not_opClose_Rx_Ry`: `Rx(π/2)` vs `Ry(π/2)` are not `OpClose`.
  Continued in `V3Sem2.lean` (the writer's own formatter on double-valued circuits satisfies `FmtDenotes`; a concrete
  sign flip) and `V3Sem3.lean` (item 4: the whole-circuit operator `circOp` of the re-read circuit is within
  `Σ_i 2^(qubits_i)·opBound_i` of the original, entrywise, for all outcomes, up to one sign, independent of `n`).
  NOTE (finding, model = Python): re-reading can flip the global sign of a one-qubit rotation: the angle is
  re-normalised into `[-π+atol, π+atol)`, and the 8-digit text of an angle just below the cut can lie above it
  (`branch_cut_sign`).  Harmless for `Rx/Ry/Rz` as one-qubit gates (global phase), compensated exactly in `CR`
  (phase `θ/2`), and integers (`CRk`) are exact.
-/

namespace OSq
namespace V3Sem
open OSq.Sem OSq.GateTable OSq.SchedSem OSq.V1Sem OSq.Bands Complex Matrix

/-! ### Parameter texts and their values -/

/-- the closeness `param_value` (RoundTrip) provides between a double `x` and the rational `v` its text denotes:
    `v` has decimal exponent `e` and `x` is within half a unit of the 8th significant digit of `v`
    (or both are zero, `param_value_zero`) -/
def Close8 (x : ℝ) (v : ℚ) : Prop :=
  (x = 0 ∧ v = 0) ∨
    ∃ e : ℤ, (10 : ℚ) ^ (e - 1) ≤ |v| ∧ |v| < (10 : ℚ) ^ e ∧ |x - (v : ℝ)| ≤ (10 : ℝ) ^ (e - 8) / 2

/-- the formatter renders `x` as a decimal text denoting `x` to 8 significant digits -/
def FmtDenotes (fmt : ℝ → String) (x : ℝ) : Prop :=
  ∃ v : ℚ, decimalValue (fmt x) = some v ∧ Close8 x v

/-- relative form: `|x − v| ≤ 5·10⁻⁸·|v|` -/
theorem Close8.rel {x : ℝ} {v : ℚ} (h : Close8 x v) : |x - (v : ℝ)| ≤ 5 / 10 ^ 8 * |(v : ℝ)| := by
  rcases h with ⟨rfl, rfl⟩ | ⟨e, h1, -, h3⟩
  · simp
  · have h1' : (10 : ℝ) ^ (e - 1) ≤ |(v : ℝ)| := by
      have := (Rat.cast_le (K := ℝ)).2 h1
      rwa [Rat.cast_abs, Rat.cast_zpow, Rat.cast_ofNat] at this
    have e1 : (10 : ℝ) ^ (e - 8) = (10 : ℝ) ^ (e - 1) / 10 ^ 7 := by
      rw [show e - 8 = (e - 1) - 7 by ring, zpow_sub₀ (by norm_num)]; norm_num
    rw [e1] at h3
    calc |x - (v : ℝ)| ≤ (10 : ℝ) ^ (e - 1) / 10 ^ 7 / 2 := h3
      _ = 5 / 10 ^ 8 * (10 : ℝ) ^ (e - 1) := by ring
      _ ≤ 5 / 10 ^ 8 * |(v : ℝ)| := by apply mul_le_mul_of_nonneg_left h1'; norm_num

/-- relative to `x` itself: `|x − v| ≤ 51·10⁻⁹·|x|` -/
theorem Close8.rel' {x : ℝ} {v : ℚ} (h : Close8 x v) : |x - (v : ℝ)| ≤ 51 / 10 ^ 9 * |x| := by
  have h1 := h.rel
  have h2 : |(v : ℝ)| ≤ |x| + |x - (v : ℝ)| := by
    have := abs_sub_abs_le_abs_sub (v : ℝ) x
    rw [abs_sub_comm (v : ℝ) x] at this
    linarith
  nlinarith [abs_nonneg x, abs_nonneg (v : ℝ), abs_nonneg (x - (v : ℝ))]

/-- the value a parameter text denotes: a decimal `[-]d+.d+(e[+-]d+)?` is a float, `[-]d+` an integer -/
noncomputable def paramArg (t : String) : Option (Arg ℝ) :=
  match decimalValue t with
  | some v => some (.float (v : ℝ))
  | none => (Gram.readInt t.toList).map Arg.int

theorem paramArg_float {t : String} {v : ℚ} (h : decimalValue t = some v) : paramArg t = some (.float (v : ℝ)) := by
  unfold paramArg; rw [h]

/-- an integer text has no decimal point, so it is read as an integer — exactly -/
theorem paramArg_int (k : Int) : paramArg (toString k) = some (.int k) := by
  have hd : decimalValue (toString k) = none := by
    unfold decimalValue decimalValueL
    have hdot : '.' ∉ (toString k).toList := intText_not_mem k '.' (by decide) (by decide)
    have hdot' : '.' ∉ (toString k).toList.tail := fun h => hdot (List.mem_of_mem_tail h)
    simp only []
    split
    · rw [splitAt1_none _ _ hdot']; rfl
    · rw [splitAt1_none _ _ hdot]; rfl
  unfold paramArg
  rw [hd]
  simp only [readInt_toString, Option.map_some]

/-! ### Re-building a read line through the library -/

/-- **the library call on a line read back from the text**: the parameter texts are evaluated (`paramArg`) and
    the default tables are called with the read name on `qubits ++ parameter values` (gates), `[qubit, bit]`
    (measure), `[qubit]` (reset; the reader returns a reset as a parameter-free one-operand line, it is
    recognised by its name being in `Gen.resetSet`).  Comments are kept. -/
noncomputable def rebuildLine (atol : ℝ) : Line3 → Option (Stmt ℝ)
  | .gate name ptexts qs =>
      if Gen.resetSet.contains name then
        match ptexts, qs with
        | [], [q] => (callReset Gen.resetTable name [.qubit q]).toOption
        | _, _ => none
      else
        (ptexts.mapM paramArg).bind fun ps =>
          (callGate atol Gen.gateTable name (qs.map Arg.qubit ++ ps)).toOption.map fun r => .gate r.1 (some r.2)
  | .measure b name q => (callMeasure Gen.measureTable name [.qubit q, .bit b]).toOption
  | .reset name q => (callReset Gen.resetTable name [.qubit q]).toOption
  | .comment t => some (.comment t)
  | _ => none

/-- re-reading a whole text: specification reader, then the library on every line -/
noncomputable def rebuildProgram (atol : ℝ) (text : String) : Option (Circuit ℝ) :=
  (readProgram3 text).bind fun r => (r.2.2.mapM (rebuildLine atol)).map fun st => ⟨r.1, r.2.1, st⟩

/-- two parameters agree: integers exactly, a float `x` is re-read as the rational its text denotes -/
def ParamClose : Arg ℝ → Arg ℝ → Prop
  | .float x, .float x' => ∃ v : ℚ, x' = (v : ℝ) ∧ Close8 x v
  | .int k, .int k' => k' = k
  | _, _ => False

/-- **same instruction, same qubit operands, same bit target, same parameters (floats to 8 digits)** -/
inductive SameShape : Stmt ℝ → Stmt ℝ → Prop
  | gate {g g' : Gate ℝ} {nm nm' : Named ℝ} (hn : nm'.name = nm.name) (hq : nm'.qubitArgs = nm.qubitArgs)
      (ho : g'.operands = g.operands) (hp : List.Forall₂ ParamClose (params nm) (params nm')) :
      SameShape (.gate g (some nm)) (.gate g' (some nm'))
  | measure {q b : Int} {ax ax' : Vec3 ℝ} {nm nm' : Named ℝ} (hn : nm'.name = nm.name) :
      SameShape (.measure q b ax (some nm)) (.measure q b ax' (some nm'))
  | reset {q : Int} {nm nm' : Named ℝ} (hn : nm'.name = nm.name) :
      SameShape (.reset q (some nm)) (.reset q (some nm'))

/-- the float parameters of a statement -/
def stmtFloats (s : Stmt ℝ) : List ℝ :=
  (stmtParams s).filterMap fun a => match a with | .float x => some x | _ => none

theorem toOption_ok {ε β : Type} (x : β) : (Except.ok x : Except ε β).toOption = some x := rfl

theorem mapM_one (t : String) {a : Arg ℝ} (h : paramArg t = some a) : [t].mapM paramArg = some [a] := by
  simp [List.mapM_cons, h]

theorem float_mem_stmtFloats {g : Gate ℝ} {nm : Named ℝ} {x : ℝ} (hx : Arg.float x ∈ nm.args) :
    x ∈ stmtFloats (.gate g (some nm)) := by
  simp only [stmtFloats, stmtParams, params, List.mem_filterMap, List.mem_filter]
  exact ⟨.float x, ⟨hx, rfl⟩, rfl⟩

section reparse
variable (fmt : ℝ → String) (atol : ℝ) (h0 : 0 < atol) (h1 : atol ≤ Real.pi / 2)
include h0 h1

/-- gates, by shape: the texts of the parameters evaluate, the library accepts the read-back call, and the result
    has the same name, operands and (close) parameters -/
theorem libGate_reparse {g : Gate ℝ} {nm : Named ℝ} (h : LibGate atol g nm)
    (hden : ∀ x, Arg.float x ∈ nm.args → FmtDenotes fmt x) :
    Gen.resetSet.contains nm.name = false ∧
    ∃ ps' g' nm', (paramTexts fmt nm).mapM paramArg = some ps' ∧
      callGate atol Gen.gateTable nm.name (nm.qubitArgs.map Arg.qubit ++ ps') = .ok (g', nm') ∧
      SameShape (.gate g (some nm)) (.gate g' (some nm')) := by
  have h1' : atol < Real.pi := by linarith [Real.pi_pos]
  cases h with
  | I q => exact ⟨(by decide : Gen.resetSet.contains "I" = false), [], _, _, rfl, call_I atol h0 h1 q, .gate rfl rfl rfl .nil⟩
  | H q => exact ⟨(by decide : Gen.resetSet.contains "H" = false), [], _, _, rfl, call_H atol h0 h1 q, .gate rfl rfl rfl .nil⟩
  | X q => exact ⟨(by decide : Gen.resetSet.contains "X" = false), [], _, _, rfl, call_X atol h0 h1 q, .gate rfl rfl rfl .nil⟩
  | X90 q => exact ⟨(by decide : Gen.resetSet.contains "X90" = false), [], _, _, rfl, call_X90 atol h0 h1 q, .gate rfl rfl rfl .nil⟩
  | mX90 q => exact ⟨(by decide : Gen.resetSet.contains "mX90" = false), [], _, _, rfl, call_mX90 atol h0 h1 q, .gate rfl rfl rfl .nil⟩
  | Y q => exact ⟨(by decide : Gen.resetSet.contains "Y" = false), [], _, _, rfl, call_Y atol h0 h1 q, .gate rfl rfl rfl .nil⟩
  | Y90 q => exact ⟨(by decide : Gen.resetSet.contains "Y90" = false), [], _, _, rfl, call_Y90 atol h0 h1 q, .gate rfl rfl rfl .nil⟩
  | mY90 q => exact ⟨(by decide : Gen.resetSet.contains "mY90" = false), [], _, _, rfl, call_mY90 atol h0 h1 q, .gate rfl rfl rfl .nil⟩
  | Z q => exact ⟨(by decide : Gen.resetSet.contains "Z" = false), [], _, _, rfl, call_Z atol h0 h1 q, .gate rfl rfl rfl .nil⟩
  | S q => exact ⟨(by decide : Gen.resetSet.contains "S" = false), [], _, _, rfl, call_S atol h0 h1 q, .gate rfl rfl rfl .nil⟩
  | Sdag q => exact ⟨(by decide : Gen.resetSet.contains "Sdag" = false), [], _, _, rfl, call_Sdag atol h0 h1 q, .gate rfl rfl rfl .nil⟩
  | T q => exact ⟨(by decide : Gen.resetSet.contains "T" = false), [], _, _, rfl, call_T atol h0 h1 q, .gate rfl rfl rfl .nil⟩
  | Tdag q => exact ⟨(by decide : Gen.resetSet.contains "Tdag" = false), [], _, _, rfl, call_Tdag atol h0 h1 q, .gate rfl rfl rfl .nil⟩
  | Rx q θ =>
    obtain ⟨v, hv, hc⟩ := hden θ (by simp)
    exact ⟨(by decide : Gen.resetSet.contains "Rx" = false), [.float (v : ℝ)], _, _, mapM_one _ (paramArg_float hv), call_Rx atol h0.le h1' q v,
      .gate rfl rfl rfl (.cons ⟨v, rfl, hc⟩ .nil)⟩
  | Ry q θ =>
    obtain ⟨v, hv, hc⟩ := hden θ (by simp)
    exact ⟨(by decide : Gen.resetSet.contains "Ry" = false), [.float (v : ℝ)], _, _, mapM_one _ (paramArg_float hv), call_Ry atol h0.le h1' q v,
      .gate rfl rfl rfl (.cons ⟨v, rfl, hc⟩ .nil)⟩
  | Rz q θ =>
    obtain ⟨v, hv, hc⟩ := hden θ (by simp)
    exact ⟨(by decide : Gen.resetSet.contains "Rz" = false), [.float (v : ℝ)], _, _, mapM_one _ (paramArg_float hv), call_Rz atol h0.le h1' q v,
      .gate rfl rfl rfl (.cons ⟨v, rfl, hc⟩ .nil)⟩
  | CNOT c t hct => exact ⟨(by decide : Gen.resetSet.contains "CNOT" = false), [], _, _, rfl, call_CNOT atol h0 h1 c t hct, .gate rfl rfl rfl .nil⟩
  | CZ c t hct => exact ⟨(by decide : Gen.resetSet.contains "CZ" = false), [], _, _, rfl, call_CZ atol h0 h1 c t hct, .gate rfl rfl rfl .nil⟩
  | CR c t θ hct =>
    obtain ⟨v, hv, hc⟩ := hden θ (by simp)
    exact ⟨(by decide : Gen.resetSet.contains "CR" = false), [.float (v : ℝ)], _, _, mapM_one _ (paramArg_float hv), call_CR atol h0.le h1' c t v hct,
      .gate rfl rfl rfl (.cons ⟨v, rfl, hc⟩ .nil)⟩
  | CRk c t k hct =>
    exact ⟨(by decide : Gen.resetSet.contains "CRk" = false), [.int k], _, _, mapM_one _ (paramArg_int k), call_CRk atol h0.le h1' c t k hct,
      .gate rfl rfl rfl (.cons rfl .nil)⟩

omit h0 h1 in
theorem rebuildLine_gate {name : String} {ptexts : List String} {qs : List Int} {ps : List (Arg ℝ)}
    {g : Gate ℝ} {nm : Named ℝ} (hr : Gen.resetSet.contains name = false) (hp : ptexts.mapM paramArg = some ps)
    (hc : callGate atol Gen.gateTable name (qs.map Arg.qubit ++ ps) = .ok (g, nm)) :
    rebuildLine atol (.gate name ptexts qs) = some (.gate g (some nm)) := by
  simp only [rebuildLine, hr, Bool.false_eq_true, if_false, hp, Option.bind_some, hc, toOption_ok,
    Option.map_some]

/-- **`reparse_gate` (C04, semantic half, gates).**  For a gate statement of the default library the line read
    back is `(name, parameter texts, qubits)`; the texts denote values `ps'`; the library call
    `callGate atol Gen.gateTable name (qubits ++ ps')` succeeds and yields a statement with the same name, the
    same qubit operands and parameters that agree (integers exactly, floats to 8 significant digits). -/
theorem reparse_gate (hfmt : ∀ x, isParamTok (fmt x) = true) {name : String} {args : List (Arg ℝ)} {g : Gate ℝ}
    {nm : Named ℝ} (h : callGate atol Gen.gateTable name args = .ok (g, nm))
    (hden : ∀ x, Arg.float x ∈ nm.args → FmtDenotes fmt x) :
    readLine3 (stmtBody fmt (.gate g (some nm))) = some (.gate nm.name (paramTexts fmt nm) nm.qubitArgs) ∧
    ∃ ps' g' nm', (paramTexts fmt nm).mapM paramArg = some ps' ∧
      callGate atol Gen.gateTable nm.name (nm.qubitArgs.map Arg.qubit ++ ps') = .ok (g', nm') ∧
      rebuildLine atol (.gate nm.name (paramTexts fmt nm) nm.qubitArgs) = some (.gate g' (some nm')) ∧
      SameShape (.gate g (some nm)) (.gate g' (some nm')) := by
  have hL := callGate_cases atol h0 h1 h
  obtain ⟨hr, ps', g', nm', hps, hcall, hsh⟩ := libGate_reparse fmt atol h0 h1 hL hden
  exact ⟨readLine3_gate fmt hfmt g nm hL.writable, ps', g', nm', hps, hcall, rebuildLine_gate atol hr hps hcall, hsh⟩

/-- **`reparse_stmt` (C04, semantic half, every statement kind).**  For a statement `s` of the default library:
    the writer emits `stmtBody fmt s` followed by a newline; the specification reader reads that line as
    `expectedLine3 fmt s` (name, parameter texts, qubit operands, bit target); re-building the read line through
    the library (`rebuildLine`: parameter texts ↦ values, then `callGate` / `callMeasure` / `callReset` of the
    generated tables) succeeds with a library statement `s'` of the same shape: same instruction name, same
    qubit operands, same bit target, integer parameters equal and float parameters equal to 8 significant digits
    (`ParamClose`, the bound of `param_value`). -/
theorem reparse_stmt (anon : Gate ℝ → String) (hfmt : ∀ x, isParamTok (fmt x) = true) {s : Stmt ℝ}
    (hs : LibStmt atol s) (hden : ∀ x ∈ stmtFloats s, FmtDenotes fmt x) :
    writeStmt fmt anon s = stmtBody fmt s ++ "\n" ∧
    readLine3 (stmtBody fmt s) = some (expectedLine3 fmt s) ∧
    ∃ s', rebuildLine atol (expectedLine3 fmt s) = some s' ∧ LibStmt atol s' ∧ SameShape s s' := by
  have hw := hs.writable h0 h1
  have hnc : Stmt.isComment s = false := by
    have := hs.not_comment
    cases s <;> first | rfl | cases this
  refine ⟨by rw [writeStmt_eq_body fmt anon s hw, hnc]; simp, readLine3_writeStmt fmt hfmt s hw, ?_⟩
  cases hs with
  | @gate name args g nm h =>
    obtain ⟨-, ps', g', nm', -, hcall, hre, hsh⟩ :=
      reparse_gate fmt atol h0 h1 hfmt h (fun x hx => hden x (float_mem_stmtFloats hx))
    exact ⟨_, hre, .gate hcall, hsh⟩
  | @measure name args s h =>
    obtain ⟨q, b, hn, rfl⟩ := callMeasure_cases h
    refine ⟨_, ?_, .measure h, .measure rfl⟩
    show (callMeasure Gen.measureTable name [.qubit q, .bit b]).toOption = _
    rcases hn with rfl | rfl
    · rw [call_measure]; rfl
    · rw [call_measure_z]; rfl
  | @reset name args s h =>
    obtain ⟨q, rfl, rfl⟩ := callReset_cases h
    refine ⟨_, ?_, .reset h, .reset rfl⟩
    show rebuildLine atol (.gate "reset" [] [q]) = _
    simp only [rebuildLine, (by decide : Gen.resetSet.contains "reset" = true), if_true, call_reset, toOption_ok]

end reparse

/-! ### The operation of the re-read statement -/

/-- an entrywise bound on the 2×2 operator is the same entrywise bound on the embedded operator (the embedding
    copies entries and zeros), also against a scalar multiple -/
theorem oneSpec_entry_close (n q : Nat) (σ : ℂ) (U V : M2) {ε : ℝ} (hε : 0 ≤ ε)
    (h : ∀ i j, ‖V i j - σ * U i j‖ ≤ ε) (r k : Fin (2 ^ n)) :
    ‖oneSpec n q V r k - σ * oneSpec n q U r k‖ ≤ ε := by
  unfold oneSpec
  split
  · exact h _ _
  · simpa using hε

theorem ctrlSpec_entry_close (n c t : Nat) (U V : M2) {ε : ℝ} (hε : 0 ≤ ε)
    (h : ∀ i j, ‖V i j - U i j‖ ≤ ε) (r k : Fin (2 ^ n)) :
    ‖ctrlSpec n c t V r k - ctrlSpec n c t U r k‖ ≤ ε := by
  unfold ctrlSpec
  split
  · split
    · exact h _ _
    · simpa using hε
  · simpa using hε

/-- one-qubit rotations of the library: the normalised angles of `θ` and `θ'` give operators that agree up to a
    sign within `|θ' − θ| / 2`, entrywise (the sign is `-1` iff the two angles are normalised across the branch
    cut of `normalize_angle` an odd number of turns apart) -/
theorem rot_nA_close (atol : ℝ) (a : Vec3 ℝ) (ha : a.1 ^ 2 + a.2.1 ^ 2 + a.2.2 ^ 2 = 1) (θ θ' : ℝ) :
    ∃ σ : ℂ, (σ = 1 ∨ σ = -1) ∧ ∀ i j,
      ‖rot a (normalizeAngle atol θ') 0 i j - σ * rot a (normalizeAngle atol θ) 0 i j‖ ≤ |θ' - θ| / 2 := by
  have hL := fun i j => rot_lipschitz_angle a ha θ' θ 0 i j
  rcases rot_nA_sign atol θ a with e | e <;> rcases rot_nA_sign atol θ' a with e' | e'
  · refine ⟨1, .inl rfl, fun i j => ?_⟩
    rw [e, e', one_mul]; exact hL i j
  · refine ⟨-1, .inr rfl, fun i j => ?_⟩
    rw [e, e', Matrix.neg_apply]
    have : -rot a θ' 0 i j - -1 * rot a θ 0 i j = -(rot a θ' 0 i j - rot a θ 0 i j) := by ring
    rw [this, norm_neg]; exact hL i j
  · refine ⟨-1, .inr rfl, fun i j => ?_⟩
    rw [e, e', Matrix.neg_apply]
    have : rot a θ' 0 i j - -1 * -rot a θ 0 i j = rot a θ' 0 i j - rot a θ 0 i j := by ring
    rw [this]; exact hL i j
  · refine ⟨1, .inl rfl, fun i j => ?_⟩
    rw [e, e', Matrix.neg_apply, Matrix.neg_apply, one_mul]
    have : -rot a θ' 0 i j - -rot a θ 0 i j = -(rot a θ' 0 i j - rot a θ 0 i j) := by ring
    rw [this, norm_neg]; exact hL i j

/-- `CR`: the target operators `diag(1, e^{iθ})` (phase-type dependence on the angle) are within `|θ' − θ|` -/
theorem P_close (θ θ' : ℝ) (i j : Fin 2) : ‖Std.P θ' i j - Std.P θ i j‖ ≤ |θ' - θ| := by
  have h := norm_exp_sub_exp_le θ' θ
  fin_cases i <;> fin_cases j <;> simp [Std.P, h]

theorem rot_CR_close (atol θ θ' : ℝ) (i j : Fin 2) :
    ‖rot (0, 0, 1) (normalizeAngle atol θ') (normalizeAngle atol θ' / 2) i j
      - rot (0, 0, 1) (normalizeAngle atol θ) (normalizeAngle atol θ / 2) i j‖ ≤ |θ' - θ| := by
  rw [rot_CR, rot_CR]; exact P_close θ θ' i j

/-- the instruction name of a statement -/
def stmtName (s : Stmt ℝ) : Option String := s.named.map (·.name)

/-- `|θ' − θ|` for single float parameters, `0` otherwise -/
noncomputable def angleDiff : List (Arg ℝ) → List (Arg ℝ) → ℝ
  | [.float θ], [.float θ'] => |θ' - θ|
  | _, _ => 0

theorem angleDiff_nonneg (l l' : List (Arg ℝ)) : 0 ≤ angleDiff l l' := by
  unfold angleDiff; split <;> simp

/-- **the per-statement bound**: `|θ' − θ|` for `CR`, `|θ' − θ| / 2` for `Rx`, `Ry`, `Rz`, and `0` for every
    statement without a float parameter -/
noncomputable def opBound (s s' : Stmt ℝ) : ℝ :=
  (if stmtName s = some "CR" then 1 else 1 / 2) * angleDiff (stmtParams s) (stmtParams s')

theorem opBound_nonneg (s s' : Stmt ℝ) : 0 ≤ opBound s s' := by
  unfold opBound
  apply mul_nonneg _ (angleDiff_nonneg _ _)
  split <;> norm_num

/-- **the operation of `s'` is the operation of `s`**, entrywise on every register and for every outcome, up to
    the bound `opBound` and up to a sign `σ = ±1` that can be `-1` only for the one-qubit rotations -/
def OpClose (s s' : Stmt ℝ) : Prop :=
  ∃ σ : ℂ, (σ = 1 ∨ σ = -1) ∧ (σ = -1 → stmtName s = some "Rx" ∨ stmtName s = some "Ry" ∨ stmtName s = some "Rz") ∧
    ∀ (n : ℕ) (b : Bool) (r k : Fin (2 ^ n)), ‖stmtOp n s' b r k - σ * stmtOp n s b r k‖ ≤ opBound s s'

theorem OpClose.refl (s : Stmt ℝ) : OpClose s s :=
  ⟨1, .inl rfl, fun h => absurd h (by norm_num), fun n b r k => by
    rw [one_mul, sub_self, norm_zero]; exact opBound_nonneg s s⟩

theorem libStmt_gate_inv {atol : ℝ} {g : Gate ℝ} {nm : Named ℝ} (h : LibStmt atol (.gate g (some nm))) :
    ∃ name args, callGate atol Gen.gateTable name args = .ok (g, nm) := by
  generalize hs : Stmt.gate g (some nm) = s at h
  cases h with
  | @gate name args g' nm' h => cases hs; exact ⟨name, args, h⟩
  | measure h => obtain ⟨q, b, -, rfl⟩ := callMeasure_cases h; cases hs
  | reset h => obtain ⟨q, -, rfl⟩ := callReset_cases h; cases hs

/-- the recorded arguments of a library gate: the qubits first, then the parameters -/
theorem libGate_args_eq {atol : ℝ} {g : Gate ℝ} {nm : Named ℝ} (h : LibGate atol g nm) :
    nm.args = nm.qubitArgs.map Arg.qubit ++ params nm := by
  cases h <;> rfl

theorem paramClose_noFloat : ∀ {ps ps' : List (Arg ℝ)}, (∀ x, Arg.float x ∉ ps) →
    List.Forall₂ ParamClose ps ps' → ps' = ps
  | _, _, _, .nil => rfl
  | a :: _, a' :: _, hnf, .cons h t => by
    have ht := paramClose_noFloat (fun x hx => hnf x (List.mem_cons_of_mem _ hx)) t
    match a, a', h with
    | .float x, .float x', _ => exact absurd (List.mem_cons_self) (hnf x)
    | .int k, .int k', h => cases h; rw [ht]

theorem libGate_inv_Rx {atol : ℝ} {g : Gate ℝ} {nm : Named ℝ} (h : LibGate atol g nm) (hn : nm.name = "Rx") :
    ∃ q θ, nm = ⟨"Rx", [.qubit q, .float θ]⟩ ∧ g = .bsr q (1, 0, 0) (normalizeAngle atol θ) 0 := by
  cases h <;> first | exact ⟨_, _, rfl, rfl⟩ | (simp at hn)
theorem libGate_inv_Ry {atol : ℝ} {g : Gate ℝ} {nm : Named ℝ} (h : LibGate atol g nm) (hn : nm.name = "Ry") :
    ∃ q θ, nm = ⟨"Ry", [.qubit q, .float θ]⟩ ∧ g = .bsr q (0, 1, 0) (normalizeAngle atol θ) 0 := by
  cases h <;> first | exact ⟨_, _, rfl, rfl⟩ | (simp at hn)
theorem libGate_inv_Rz {atol : ℝ} {g : Gate ℝ} {nm : Named ℝ} (h : LibGate atol g nm) (hn : nm.name = "Rz") :
    ∃ q θ, nm = ⟨"Rz", [.qubit q, .float θ]⟩ ∧ g = .bsr q (0, 0, 1) (normalizeAngle atol θ) 0 := by
  cases h <;> first | exact ⟨_, _, rfl, rfl⟩ | (simp at hn)
theorem libGate_inv_CR {atol : ℝ} {g : Gate ℝ} {nm : Named ℝ} (h : LibGate atol g nm) (hn : nm.name = "CR") :
    ∃ c t θ, nm = ⟨"CR", [.qubit c, .qubit t, .float θ]⟩ ∧
      g = .ctrl c (.bsr t (0, 0, 1) (normalizeAngle atol θ) (normalizeAngle atol θ / 2)) := by
  cases h <;> first | exact ⟨_, _, _, rfl, rfl⟩ | (simp at hn)

theorem opBound_rot {g g' : Gate ℝ} {name : String} {q q' : Int} {θ θ' : ℝ} (hname : name ≠ "CR") :
    opBound (.gate g (some ⟨name, [.qubit q, .float θ]⟩)) (.gate g' (some ⟨name, [.qubit q', .float θ']⟩))
      = |θ' - θ| / 2 := by
  have : (some name = some "CR") = False := by simpa using hname
  simp only [opBound, stmtName, Stmt.named, Option.map_some, this, if_false, stmtParams, params, List.filter,
    isQubitArg, Bool.not_true, Bool.not_false, angleDiff]
  ring

theorem opBound_CR {g g' : Gate ℝ} {c t c' t' : Int} {θ θ' : ℝ} :
    opBound (.gate g (some ⟨"CR", [.qubit c, .qubit t, .float θ]⟩))
      (.gate g' (some ⟨"CR", [.qubit c', .qubit t', .float θ']⟩)) = |θ' - θ| := by
  simp only [opBound, stmtName, Stmt.named, Option.map_some, if_true, stmtParams, params, List.filter,
    isQubitArg, Bool.not_true, Bool.not_false, angleDiff, one_mul]

section op
variable (atol : ℝ) (h0 : 0 < atol) (h1 : atol ≤ Real.pi / 2)
include h0 h1

theorem reparse_gate_op {g g' : Gate ℝ} {nm nm' : Named ℝ}
    (hc : callGate atol Gen.gateTable nm.name nm.args = .ok (g, nm))
    (hc' : callGate atol Gen.gateTable nm'.name nm'.args = .ok (g', nm'))
    (hn : nm'.name = nm.name) (hq : nm'.qubitArgs = nm.qubitArgs)
    (hp : List.Forall₂ ParamClose (params nm) (params nm')) :
    OpClose (.gate g (some nm)) (.gate g' (some nm')) := by
  have hL := callGate_cases atol h0 h1 hc
  have hL' := callGate_cases atol h0 h1 hc'
  by_cases hf : ∀ x, Arg.float x ∉ params nm
  · have hps := paramClose_noFloat hf hp
    have hargs : nm'.args = nm.args := by rw [libGate_args_eq hL', libGate_args_eq hL, hq, hps]
    have hnm : nm' = nm := by
      cases nm; cases nm'; simp only [Named.mk.injEq]; exact ⟨hn, hargs⟩
    subst hnm
    rw [hc] at hc'
    cases hc'
    exact OpClose.refl _
  · simp only [not_forall, not_not] at hf
    obtain ⟨x, hx⟩ := hf
    cases hL with
    | Rx q θ =>
      obtain ⟨q', θ', rfl, rfl⟩ := libGate_inv_Rx hL' hn
      obtain rfl : q' = q := by simpa [Named.qubitArgs] using hq
      obtain ⟨σ, hσ, hσb⟩ := rot_nA_close atol (1, 0, 0) (by norm_num) θ θ'
      refine ⟨σ, hσ, fun _ => .inl rfl, fun n b r k => ?_⟩
      rw [opBound_rot (by decide)]
      show ‖gateOp n _ r k - σ * gateOp n _ r k‖ ≤ _
      rw [gateOp_bsr_oneSpec, gateOp_bsr_oneSpec]
      exact oneSpec_entry_close n _ σ _ _ (by positivity) hσb r k
    | Ry q θ =>
      obtain ⟨q', θ', rfl, rfl⟩ := libGate_inv_Ry hL' hn
      obtain rfl : q' = q := by simpa [Named.qubitArgs] using hq
      obtain ⟨σ, hσ, hσb⟩ := rot_nA_close atol (0, 1, 0) (by norm_num) θ θ'
      refine ⟨σ, hσ, fun _ => .inr (.inl rfl), fun n b r k => ?_⟩
      rw [opBound_rot (by decide)]
      show ‖gateOp n _ r k - σ * gateOp n _ r k‖ ≤ _
      rw [gateOp_bsr_oneSpec, gateOp_bsr_oneSpec]
      exact oneSpec_entry_close n _ σ _ _ (by positivity) hσb r k
    | Rz q θ =>
      obtain ⟨q', θ', rfl, rfl⟩ := libGate_inv_Rz hL' hn
      obtain rfl : q' = q := by simpa [Named.qubitArgs] using hq
      obtain ⟨σ, hσ, hσb⟩ := rot_nA_close atol (0, 0, 1) (by norm_num) θ θ'
      refine ⟨σ, hσ, fun _ => .inr (.inr rfl), fun n b r k => ?_⟩
      rw [opBound_rot (by decide)]
      show ‖gateOp n _ r k - σ * gateOp n _ r k‖ ≤ _
      rw [gateOp_bsr_oneSpec, gateOp_bsr_oneSpec]
      exact oneSpec_entry_close n _ σ _ _ (by positivity) hσb r k
    | CR c t θ hct =>
      obtain ⟨c', t', θ', rfl, rfl⟩ := libGate_inv_CR hL' hn
      obtain ⟨rfl, rfl⟩ : c' = c ∧ t' = t := by simpa [Named.qubitArgs] using hq
      refine ⟨1, .inl rfl, fun h => absurd h (by norm_num), fun n b r k => ?_⟩
      rw [opBound_CR, one_mul]
      show ‖gateOp n _ r k - gateOp n _ r k‖ ≤ _
      rw [gateOp_ctrl_bsr, gateOp_ctrl_bsr]
      exact ctrlSpec_entry_close n _ _ _ _ (abs_nonneg _) (rot_CR_close atol θ θ') r k
    | _ => simp [params, isQubitArg] at hx

/-- **`reparse_stmt_op` (C04: "hence the same operation").**  If `s` and `s'` are statements of the default
    library of the same shape (same name, qubit operands, bit target; integer parameters equal, float parameters
    `θ ↦ θ'`), then on every register size `n`, for every outcome `b` and every matrix entry `(r, k)`
    `‖stmtOp n s' b r k − σ · stmtOp n s b r k‖ ≤ opBound s s'` where
    * `Rx`, `Ry`, `Rz`: `opBound = |θ' − θ| / 2` and `σ = ±1` (a global sign, from re-normalising the angle);
    * `CR`: `opBound = |θ' − θ|`, `σ = 1`;
    * parameter-free gates, `CRk`, measure, reset: `opBound = 0`, `σ = 1` (indeed `s' = s`). -/
theorem reparse_stmt_op {s s' : Stmt ℝ} (hs : LibStmt atol s) (hs' : LibStmt atol s') (hsh : SameShape s s') :
    OpClose s s' := by
  cases hsh with
  | @gate g g' nm nm' hn hq ho hp =>
    obtain ⟨name, args, hc⟩ := libStmt_gate_inv hs
    obtain ⟨name', args', hc'⟩ := libStmt_gate_inv hs'
    exact reparse_gate_op atol h0 h1 (callGate_idem hc) (callGate_idem hc') hn hq hp
  | @measure q b ax ax' nm nm' hn =>
    refine ⟨1, .inl rfl, fun h => absurd h (by norm_num), fun n b r k => ?_⟩
    rw [one_mul]
    show ‖measOp n q.toNat b r k - measOp n q.toNat b r k‖ ≤ _
    rw [sub_self, norm_zero]; exact opBound_nonneg _ _
  | @reset q nm nm' hn =>
    refine ⟨1, .inl rfl, fun h => absurd h (by norm_num), fun n b r k => ?_⟩
    rw [one_mul]
    show ‖resetOp n q.toNat b r k - resetOp n q.toNat b r k‖ ≤ _
    rw [sub_self, norm_zero]; exact opBound_nonneg _ _

end op

/-- size of the single float parameter -/
noncomputable def paramMag : List (Arg ℝ) → ℝ
  | [.float θ] => |θ|
  | _ => 0

/-- the angle difference is within the formatter's precision: `≤ 5·10⁻⁸·|θ'|` and `≤ 51·10⁻⁹·|θ|` -/
theorem angleDiff_le {ps ps' : List (Arg ℝ)} (h : List.Forall₂ ParamClose ps ps') :
    angleDiff ps ps' ≤ 5 / 10 ^ 8 * paramMag ps' ∧ angleDiff ps ps' ≤ 51 / 10 ^ 9 * paramMag ps := by
  have h0 : ∀ l : List (Arg ℝ), 0 ≤ paramMag l := by intro l; unfold paramMag; split <;> simp
  match ps, ps', h with
  | [.float θ], [.float θ'], .cons ⟨v, hv, hc⟩ .nil =>
    subst hv
    simp only [angleDiff, paramMag]
    rw [abs_sub_comm]
    exact ⟨hc.rel, hc.rel'⟩
  | [], [], _ => simp [angleDiff, paramMag]
  | [.int k], [.int k'], _ => simp [angleDiff, paramMag]
  | [.float θ], [.int k'], .cons h _ => exact h.elim
  | [.int k], [.float θ'], .cons h _ => exact h.elim
  | [.qubit k], _ :: _, .cons h _ => exact h.elim
  | [.bit k], _ :: _, .cons h _ => exact h.elim
  | a :: b :: l, a' :: b' :: l', _ =>
    have e : angleDiff (a :: b :: l) (a' :: b' :: l') = 0 := by unfold angleDiff; split <;> simp_all
    rw [e]
    exact ⟨mul_nonneg (by norm_num) (h0 _), mul_nonneg (by norm_num) (h0 _)⟩

/-- `opBound` in terms of the parameter sizes: `≤ 5·10⁻⁸·|θ'|`, `≤ 5.1·10⁻⁸·|θ|` (for `CR`; half of that for the
    one-qubit rotations; `0` otherwise) -/
theorem opBound_le {s s' : Stmt ℝ} (h : SameShape s s') :
    opBound s s' ≤ 5 / 10 ^ 8 * paramMag (stmtParams s') ∧ opBound s s' ≤ 51 / 10 ^ 9 * paramMag (stmtParams s) := by
  have hk : ∀ x : ℝ, 0 ≤ x → (if stmtName s = some "CR" then (1 : ℝ) else 1 / 2) * x ≤ x := by
    intro x hx; split <;> linarith
  have key : List.Forall₂ ParamClose (stmtParams s) (stmtParams s') := by
    cases h with
    | gate hn hq ho hp => exact hp
    | measure hn => exact .nil
    | reset hn => exact .nil
  obtain ⟨a1, a2⟩ := angleDiff_le key
  have := hk _ (angleDiff_nonneg (stmtParams s) (stmtParams s'))
  unfold opBound
  exact ⟨by linarith, by linarith⟩

/-! ### Program level -/

/-- statement `s` of the circuit and statement `s'` re-built from the text: comments are kept verbatim; an
    instruction is re-built as a library statement of the same shape performing the same operation -/
inductive Reread (atol : ℝ) : Stmt ℝ → Stmt ℝ → Prop
  | comment (t : String) : Reread atol (.comment t) (.comment t)
  | instr {s s' : Stmt ℝ} (hs : LibStmt atol s) (hs' : LibStmt atol s') (hsh : SameShape s s')
      (hop : OpClose s s') : Reread atol s s'

section program
variable (fmt : ℝ → String) (anon : Gate ℝ → String) (hfmt : ∀ x, isParamTok (fmt x) = true)
  (atol : ℝ) (h0 : 0 < atol) (h1 : atol ≤ Real.pi / 2)
include hfmt h0 h1

theorem rebuild_lines : ∀ (stmts : List (Stmt ℝ)), (∀ s ∈ stmts, Readable atol s) →
    (∀ s ∈ stmts, ∀ x ∈ stmtFloats s, FmtDenotes fmt x) →
    ∃ stmts', (stmts.map (expectedLine3 fmt)).mapM (rebuildLine atol) = some stmts' ∧
      List.Forall₂ (Reread atol) stmts stmts'
  | [], _, _ => ⟨[], rfl, .nil⟩
  | s :: rest, hr, hd => by
    obtain ⟨rest', hm, hF⟩ := rebuild_lines rest (fun s' hs' => hr s' (List.mem_cons_of_mem _ hs'))
      (fun s' hs' => hd s' (List.mem_cons_of_mem _ hs'))
    rcases hr s (by simp) with hlib | ⟨t, rfl, -⟩
    · obtain ⟨-, -, s', hre, hs', hsh⟩ := reparse_stmt fmt atol h0 h1 (fun _ => "") hfmt hlib (hd s (by simp))
      refine ⟨s' :: rest', ?_, .cons (.instr hlib hs' hsh (reparse_stmt_op atol h0 h1 hlib hs' hsh)) hF⟩
      simp only [List.map_cons, List.mapM_cons, hre, hm, Option.bind_eq_bind, Option.bind_some, pure]
    · refine ⟨.comment t :: rest', ?_, .cons (.comment t) hF⟩
      simp only [List.map_cons, List.mapM_cons, expectedLine3, rebuildLine, hm, Option.bind_eq_bind,
        Option.bind_some, pure]

/-- **`writeCircuit_read_sem` (C04, program level, "hence the same operation").**  For a circuit of statements of
    the default library and one-line, `*/`-free comments, written with a formatter that produces parameter tokens
    denoting the float parameters to 8 significant digits:
    * the text is read by the specification reader as the register sizes and one line per statement;
    * re-building every read line through the library succeeds (`rebuildProgram`), giving a circuit `c'` with the
      same register sizes and — `List.Forall₂`, so the same number of statements in the same order — for every
      statement: a comment is kept verbatim, an instruction `s` is re-built as a library statement `s'` with the
      same name, qubit operands, bit target and parameters (floats to 8 digits) (`SameShape`) whose operation on
      every register is that of `s` within `opBound s s'` entrywise, up to a sign for `Rx/Ry/Rz` (`OpClose`). -/
theorem writeCircuit_read_sem (c : Circuit ℝ) (hc : ∀ s ∈ c.stmts, Readable atol s)
    (hden : ∀ s ∈ c.stmts, ∀ x ∈ stmtFloats s, FmtDenotes fmt x) :
    ∃ c', readProgram3 (writeCircuit fmt anon c) = some (c.nQubits, c.nBits, c.stmts.map (expectedLine3 fmt)) ∧
      rebuildProgram atol (writeCircuit fmt anon c) = some c' ∧
      c'.nQubits = c.nQubits ∧ c'.nBits = c.nBits ∧ List.Forall₂ (Reread atol) c.stmts c'.stmts := by
  have hW : ∀ s ∈ c.stmts, s.Writable := by
    intro s hs
    rcases hc s hs with hlib | ⟨t, rfl, hw⟩
    · exact hlib.writable h0 h1
    · exact hw
  have hread := readProgram3_writeCircuit fmt anon hfmt c hW
  obtain ⟨stmts', hm, hF⟩ := rebuild_lines fmt hfmt atol h0 h1 c.stmts hc hden
  refine ⟨⟨c.nQubits, c.nBits, stmts'⟩, hread, ?_, rfl, rfl, hF⟩
  unfold rebuildProgram
  rw [hread]
  simp only [Option.bind_some, hm, Option.map_some]

end program

/-- **the sign is needed**: `normalize_angle` maps into `[-π + atol, π + atol)`; if the original angle lies below
    the cut `π + atol` and the re-read one on or above it, the second operator picks up the factor `-1`. -/
theorem branch_cut_sign (atol : ℝ) (h0 : 0 ≤ atol) (h1 : atol < Real.pi) (a : Vec3 ℝ) (θ θ' : ℝ)
    (hθ : -Real.pi + atol ≤ θ ∧ θ < Real.pi + atol) (hθ' : Real.pi + atol ≤ θ' ∧ θ' < 3 * Real.pi + atol) :
    rot a (normalizeAngle atol θ) 0 = rot a θ 0 ∧ rot a (normalizeAngle atol θ') 0 = - rot a θ' 0 := by
  constructor
  · rw [normalizeAngle_id_of_window atol θ h0 h1 hθ.1 hθ.2]
  · obtain ⟨k, hk, hr1, hr2⟩ := normalizeAngle_spec atol θ' h0 h1
    have e : normalizeAngle atol θ' = θ' - 2 * Real.pi := by
      have hk' : normalizeAngle atol θ' = (θ' - 2 * Real.pi) + 2 * Real.pi * ((k + 1 : ℤ) : ℝ) := by
        rw [hk]; push_cast; ring
      exact eq_of_congr_of_window hk' hr1 (by linarith) (by linarith [hθ'.1]) (by linarith [hθ'.2])
    have e2 : θ' - 2 * Real.pi = θ' + 2 * Real.pi * ((-1 : ℤ) : ℝ) := by push_cast; ring
    rw [e, e2, rot_add_int_mul_two_pi]
    simp

/-! ### Non-vacuity and negative controls -/

/-- the text `0.33333333` denotes `33333333 / 10^8` -/
theorem decimalValue_third : decimalValue "0.33333333" = some (33333333 / 10 ^ 8 : ℚ) := by
  have hd : ∀ l : List Char, (∀ c ∈ l, c.isDigit = true) → Digits l := fun l h => h
  have := decimalValueL_eval false ['0'] "33333333".toList none 0 (hd _ (by decide)) (by decide)
    (hd _ (by decide)) (by decide) rfl
  simp only [Bool.false_eq_true, if_false, List.nil_append, expSuffix, List.append_nil] at this
  rw [decimalValue, show "0.33333333".toList = ['0'] ++ '.' :: "33333333".toList from rfl, this,
    show Nat.ofDigitChars 10 (['0'] ++ "33333333".toList) 0 = 33333333 by decide,
    show ("33333333".toList.length : Int) = 8 by decide]
  norm_num

/-- `1/3` is not representable in 8 digits; `0.33333333` denotes it to 8 significant digits -/
theorem close8_third : Close8 (1 / 3) (33333333 / 10 ^ 8 : ℚ) := by
  refine .inr ⟨0, ?_, ?_, ?_⟩
  · rw [abs_of_pos (by norm_num)]; norm_num
  · rw [abs_of_pos (by norm_num)]; norm_num
  · push_cast
    rw [abs_of_pos (by norm_num)]
    norm_num

/-- a formatter that renders `1/3` as Python's `format(1/3, '.8')` does -/
def fmtThird : ℝ → String := fun _ => "0.33333333"

theorem fmtThird_tok : ∀ x, isParamTok (fmtThird x) = true :=
  fun _ => (by decide : isParamTok "0.33333333" = true)

theorem fmtThird_denotes : FmtDenotes fmtThird (1 / 3) := ⟨_, decimalValue_third, close8_third⟩

/-- `Rz(1/3) q[0]` as built by the library, and as re-built from its text -/
noncomputable def sRz : Stmt ℝ :=
  .gate (.bsr 0 (0, 0, 1) (normalizeAngle Gen.atol (1 / 3)) 0) (some ⟨"Rz", [.qubit 0, .float (1 / 3)]⟩)
noncomputable def sRz' : Stmt ℝ :=
  .gate (.bsr 0 (0, 0, 1) (normalizeAngle Gen.atol ((33333333 / 10 ^ 8 : ℚ) : ℝ)) 0)
    (some ⟨"Rz", [.qubit 0, .float ((33333333 / 10 ^ 8 : ℚ) : ℝ)]⟩)

theorem sRz_lib : LibStmt (Gen.atol : ℝ) sRz := .gate (call_Rz Gen.atol atol_gen_pos.le atol_gen_lt 0 (1 / 3))

theorem sRz_floats : ∀ x ∈ stmtFloats sRz, FmtDenotes fmtThird x := by
  intro x hx
  have : x = 1 / 3 := by simpa [stmtFloats, sRz, stmtParams, params, isQubitArg] using hx
  rw [this]; exact fmtThird_denotes

/-- **`Rz(1/3)`**: the line `Rz(0.33333333) q[0]` is read back and re-built as `Rz(0.33333333) q[0]` — the
    parameter **differs** from `1/3` — with the same name and operand, the parameter within the 8-digit bound,
    and the operation within `|θ' − θ| / 2 = 1 / (6·10⁸)` entrywise (up to a sign) on every register. -/
example :
    readLine3 (stmtBody fmtThird sRz) = some (.gate "Rz" ["0.33333333"] [0]) ∧
    rebuildLine Gen.atol (.gate "Rz" ["0.33333333"] [0]) = some sRz' ∧
    stmtParams sRz' ≠ stmtParams sRz ∧
    SameShape sRz sRz' ∧ OpClose sRz sRz' ∧ opBound sRz sRz' = 1 / (6 * 10 ^ 8) := by
  obtain ⟨-, hread, s', hre, hs', hsh⟩ :=
    reparse_stmt fmtThird Gen.atol atol_gen_pos atol_gen_le (fun _ => "") fmtThird_tok sRz_lib sRz_floats
  have hre' : rebuildLine Gen.atol (.gate "Rz" ["0.33333333"] [0]) = some sRz' :=
    rebuildLine_gate Gen.atol (by decide) (mapM_one _ (paramArg_float decimalValue_third))
      (call_Rz Gen.atol atol_gen_pos.le atol_gen_lt 0 _)
  have e : expectedLine3 fmtThird sRz = .gate "Rz" ["0.33333333"] [0] := rfl
  rw [e] at hread hre
  rw [hre'] at hre
  cases hre
  refine ⟨hread, hre', ?_, hsh, reparse_stmt_op Gen.atol atol_gen_pos atol_gen_le sRz_lib hs' hsh, ?_⟩
  · intro h
    have : (((33333333 / 10 ^ 8 : ℚ) : ℝ)) = 1 / 3 := by
      simpa [sRz, sRz', stmtParams, params, isQubitArg] using h
    norm_num at this
  · unfold sRz sRz'
    rw [opBound_rot (by decide)]
    push_cast
    rw [abs_of_neg (by norm_num)]
    norm_num

/-- the hypotheses of the program theorem are satisfiable and its conclusion applies:
    `Rz(1/3) q[0]; /* c */; CNOT q[0], q[1]; b[0] = measure q[1]; reset q[1]` -/
noncomputable def exCircuit : Circuit ℝ :=
  ⟨2, 1, [sRz, .comment "c",
    .gate (.ctrl 0 (.bsr 1 (1, 0, 0) Real.pi (Real.pi / 2))) (some ⟨"CNOT", [.qubit 0, .qubit 1]⟩),
    .measure 1 0 (0, 0, 1) (some ⟨"measure", [.qubit 1, .bit 0]⟩),
    .reset 1 (some ⟨"reset", [.qubit 1]⟩)]⟩

example : ∃ c', rebuildProgram Gen.atol (writeCircuit fmtThird (fun _ => "") exCircuit) = some c' ∧
    c'.nQubits = 2 ∧ c'.nBits = 1 ∧ List.Forall₂ (Reread Gen.atol) exCircuit.stmts c'.stmts := by
  obtain ⟨c', -, h2, h3, h4, h5⟩ := writeCircuit_read_sem fmtThird (fun _ => "") fmtThird_tok Gen.atol atol_gen_pos
    atol_gen_le exCircuit (by
      intro s hs
      simp only [exCircuit, List.mem_cons, List.not_mem_nil, or_false] at hs
      rcases hs with rfl | rfl | rfl | rfl | rfl
      · exact .inl sRz_lib
      · exact .inr ⟨_, rfl, by decide, by rw [infix_pair_iff]; decide⟩
      · exact .inl (.gate (call_CNOT _ atol_gen_pos atol_gen_le 0 1 (by decide)))
      · exact .inl (.measure (call_measure 1 0))
      · exact .inl (.reset (call_reset 1))) (by
      intro s hs
      simp only [exCircuit, List.mem_cons, List.not_mem_nil, or_false] at hs
      rcases hs with rfl | rfl | rfl | rfl | rfl
      · exact sRz_floats
      all_goals (intro x hx; simp [stmtFloats, stmtParams, params, isQubitArg] at hx))
  exact ⟨c', h2, h3, h4, h5⟩

/-- **negative control (shape)**: a reading of `Rx(θ) q` as `Ry(θ) q` does not have the same shape -/
theorem not_sameShape_Rx_Ry (g g' : Gate ℝ) (q : Int) (θ : ℝ) :
    ¬ SameShape (.gate g (some ⟨"Rx", [.qubit q, .float θ]⟩)) (.gate g' (some ⟨"Ry", [.qubit q, .float θ]⟩)) := by
  intro h
  cases h with
  | gate hn _ _ _ => simp at hn

/-- … a reading with another operand or another parameter list neither -/
example (g g' : Gate ℝ) (θ : ℝ) :
    ¬ SameShape (.gate g (some ⟨"Rx", [.qubit 0, .float θ]⟩)) (.gate g' (some ⟨"Rx", [.qubit 1, .float θ]⟩)) := by
  intro h
  cases h with
  | gate _ hq _ _ => simp [Named.qubitArgs] at hq

example (g g' : Gate ℝ) : ¬ SameShape (.gate g (some ⟨"Rx", [.qubit 0, .float 1]⟩))
    (.gate g' (some ⟨"Rx", [.qubit 0, .float 2]⟩)) := by
  intro h
  cases h with
  | gate _ _ _ hp =>
    simp only [params, List.filter, isQubitArg, Bool.not_true, Bool.not_false] at hp
    cases hp with
    | cons h _ =>
      obtain ⟨v, hv, hc⟩ := h
      have := hc.rel
      rw [← hv] at this
      norm_num at this

/-- **negative control (operation)**: `Rx(π/2) q[0]` and `Ry(π/2) q[0]` are both library statements with equal
    parameters (so `opBound = 0`), but their operations differ — not even a sign relates them: had the text been
    read as `Ry` instead of `Rx`, the conclusion `OpClose` of `reparse_stmt_op` / `writeCircuit_read_sem` would be
    false. -/
noncomputable def sRx90 : Stmt ℝ :=
  .gate (.bsr 0 (1, 0, 0) (Real.pi / 2) 0) (some ⟨"Rx", [.qubit 0, .float (Real.pi / 2)]⟩)
noncomputable def sRy90 : Stmt ℝ :=
  .gate (.bsr 0 (0, 1, 0) (Real.pi / 2) 0) (some ⟨"Ry", [.qubit 0, .float (Real.pi / 2)]⟩)

theorem sRx90_lib : LibStmt (Gen.atol : ℝ) sRx90 := by
  have := call_Rx Gen.atol atol_gen_pos.le atol_gen_lt 0 (Real.pi / 2)
  rw [nA_const Gen.atol atol_gen_pos atol_gen_le (Real.pi / 2)
    ⟨by linarith [Real.pi_pos], by linarith [Real.pi_pos]⟩] at this
  exact .gate this

theorem sRy90_lib : LibStmt (Gen.atol : ℝ) sRy90 := by
  have := call_Ry Gen.atol atol_gen_pos.le atol_gen_lt 0 (Real.pi / 2)
  rw [nA_const Gen.atol atol_gen_pos atol_gen_le (Real.pi / 2)
    ⟨by linarith [Real.pi_pos], by linarith [Real.pi_pos]⟩] at this
  exact .gate this

theorem oneSpec_01 (U : M2) : oneSpec 1 0 U ⟨0, by decide⟩ ⟨1, by decide⟩ = U 0 1 := by
  unfold oneSpec
  rw [if_pos (by decide)]
  rfl

theorem not_opClose_Rx_Ry : ¬ OpClose sRx90 sRy90 := by
  rintro ⟨σ, hσ, -, h⟩
  have hb : opBound sRx90 sRy90 = 0 := by
    simp [opBound, sRx90, sRy90, stmtName, Stmt.named, stmtParams, params, isQubitArg, angleDiff]
  have h' := h 1 false ⟨0, by decide⟩ ⟨1, by decide⟩
  rw [hb] at h'
  have h2 : ‖gateOp 1 (.bsr 0 (0, 1, 0) (Real.pi / 2) 0) ⟨0, by decide⟩ ⟨1, by decide⟩
      - σ * gateOp 1 (.bsr 0 (1, 0, 0) (Real.pi / 2) 0) ⟨0, by decide⟩ ⟨1, by decide⟩‖ ≤ 0 := h'
  rw [gateOp_bsr_oneSpec, gateOp_bsr_oneSpec] at h2
  have e0 : (0 : Int).toNat = 0 := rfl
  rw [e0, oneSpec_01, oneSpec_01, rot_X90, rot_Y90] at h2
  have h3 := sub_eq_zero.1 (norm_le_zero_iff.1 h2)
  simp only [Std.X90, Std.Y90, Matrix.smul_apply, smul_eq_mul, Matrix.of_apply, Matrix.cons_val_zero,
    Matrix.cons_val_one, Matrix.cons_val', Matrix.cons_val_fin_one] at h3
  have hs : (1 / (Real.sqrt 2 : ℂ)) ≠ 0 := by
    have : Real.sqrt 2 ≠ 0 := by positivity
    exact_mod_cast one_div_ne_zero this
  rcases hσ with rfl | rfl
  · have h4 : (1 / (Real.sqrt 2 : ℂ)) * (-1 + I) = 0 := by linear_combination h3
    rcases mul_eq_zero.1 h4 with h5 | h5
    · exact hs h5
    · have := congrArg Complex.re h5; simp at this
  · have h4 : (1 / (Real.sqrt 2 : ℂ)) * (-1 - I) = 0 := by linear_combination h3
    rcases mul_eq_zero.1 h4 with h5 | h5
    · exact hs h5
    · have := congrArg Complex.re h5; simp at this


end V3Sem
end OSq

#print axioms OSq.V3Sem.paramArg_int
#print axioms OSq.V3Sem.libGate_reparse
#print axioms OSq.V3Sem.reparse_gate
#print axioms OSq.V3Sem.reparse_stmt
#print axioms OSq.V3Sem.rot_nA_close
#print axioms OSq.V3Sem.rot_CR_close
#print axioms OSq.V3Sem.reparse_gate_op
#print axioms OSq.V3Sem.reparse_stmt_op
#print axioms OSq.V3Sem.opBound_le
#print axioms OSq.V3Sem.branch_cut_sign
#print axioms OSq.V3Sem.writeCircuit_read_sem
#print axioms OSq.V3Sem.not_sameShape_Rx_Ry
#print axioms OSq.V3Sem.not_opClose_Rx_Ry
