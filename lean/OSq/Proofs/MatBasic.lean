import OSq.Model.Matrix
/-
  OSq.Proofs.MatBasic — generic facts about the row-major matrix container `Mat`
  (`OSq/Model/Matrix.lean`: `Mat.ofFn`, `Mat.get`, `Mat.identity`, `Mat.mul`, `Mat.smul`).
  Core Lean only; valid for every scalar type `α` with `[Scalar α]`.

  Theorems
  * `Mat.ofFn_n`        `(Mat.ofFn n f).n = n`
  * `Mat.ofFn_size`     `(Mat.ofFn n f).d.size = n * n`
  * `Mat.get_ofFn`      `i < n → j < n → (Mat.ofFn n f).get i j = f i j`
  * `Mat.get_ofFn_row_ge` / `Mat.get_ofFn_oob`  reading outside the stored range yields `Cx.zero`
  * `Mat.identity_n`, `Mat.identity_size`, `Mat.get_identity`
  * `Mat.mul_n`, `Mat.mul_size`, `Mat.get_mul`   (entry = `dotRow`)
  * `Mat.smul_n`, `Mat.smul_size`, `Mat.get_smul`
  * `Mat.ext_get`       two matrices of the same dimension `n` with `d.size = n*n` and equal entries are equal
-/
namespace OSq
variable {α : Type} [Scalar α]

namespace Mat

omit [Scalar α] in
@[simp] theorem ofFn_n (n : Nat) (f : Nat → Nat → Cx α) : (Mat.ofFn n f).n = n := rfl

omit [Scalar α] in
@[simp] theorem ofFn_size (n : Nat) (f : Nat → Nat → Cx α) : (Mat.ofFn n f).d.size = n * n := by
  simp [Mat.ofFn]

theorem index_lt {n i j : Nat} (h1 : i < n) (h2 : j < n) : i * n + j < n * n := by
  have : (i + 1) * n ≤ n * n := Nat.mul_le_mul_right n h1
  rw [Nat.add_mul] at this
  omega

theorem index_div {n i j : Nat} (h2 : j < n) : (i * n + j) / n = i := by
  have hn : 0 < n := by omega
  rw [Nat.mul_comm, Nat.mul_add_div hn, Nat.div_eq_of_lt h2]; rfl

theorem index_mod {n i j : Nat} (h2 : j < n) : (i * n + j) % n = j := by
  rw [Nat.mul_comm, Nat.mul_add_mod, Nat.mod_eq_of_lt h2]

/-- Reading an entry of a matrix built by `ofFn` inside its range gives the generating function. -/
theorem get_ofFn {n : Nat} {f : Nat → Nat → Cx α} {i j : Nat} (h1 : i < n) (h2 : j < n) :
    (Mat.ofFn n f).get i j = f i j := by
  have hlt : i * n + j < n * n := index_lt h1 h2
  simp only [Mat.get, Mat.ofFn]
  rw [Array.getD_eq_getD_getElem?, Array.getElem?_ofFn]
  simp [hlt, index_div h2, index_mod h2]

/-- Reading past the stored data yields `Cx.zero` (this is `Array.getD`, not a Python behaviour). -/
theorem get_ofFn_oob {n : Nat} {f : Nat → Nat → Cx α} {i j : Nat} (h : n * n ≤ i * n + j) :
    (Mat.ofFn n f).get i j = Cx.zero := by
  simp only [Mat.get, Mat.ofFn]
  rw [Array.getD_eq_getD_getElem?, Array.getElem?_ofFn]
  simp [Nat.not_lt.mpr h]

theorem get_ofFn_row_ge {n : Nat} {f : Nat → Nat → Cx α} {i j : Nat} (h : n ≤ i) :
    (Mat.ofFn n f).get i j = Cx.zero := by
  apply get_ofFn_oob
  have : n * n ≤ i * n := Nat.mul_le_mul_right n h
  omega

@[simp] theorem identity_n (n : Nat) : (Mat.identity n : Mat α).n = n := rfl
@[simp] theorem identity_size (n : Nat) : (Mat.identity n : Mat α).d.size = n * n := ofFn_size _ _
theorem get_identity {n i j : Nat} (h1 : i < n) (h2 : j < n) :
    (Mat.identity n : Mat α).get i j = if i = j then Cx.one else Cx.zero := get_ofFn h1 h2

@[simp] theorem mul_n (a b : Mat α) : (Mat.mul a b).n = a.n := rfl
@[simp] theorem mul_size (a b : Mat α) : (Mat.mul a b).d.size = a.n * a.n := ofFn_size _ _
theorem get_mul (a b : Mat α) {i j : Nat} (h1 : i < a.n) (h2 : j < a.n) :
    (Mat.mul a b).get i j = Mat.dotRow a b i j := get_ofFn h1 h2

@[simp] theorem smul_n (z : Cx α) (a : Mat α) : (Mat.smul z a).n = a.n := rfl
@[simp] theorem smul_size (z : Cx α) (a : Mat α) : (Mat.smul z a).d.size = a.n * a.n := ofFn_size _ _
theorem get_smul (z : Cx α) (a : Mat α) {i j : Nat} (h1 : i < a.n) (h2 : j < a.n) :
    (Mat.smul z a).get i j = z * a.get i j := get_ofFn h1 h2

/-- Extensionality through `get`: same dimension, full storage, same entries. -/
theorem ext_get {a b : Mat α} (hn : a.n = b.n) (ha : a.d.size = a.n * a.n) (hb : b.d.size = b.n * b.n)
    (h : ∀ i j, i < a.n → j < a.n → a.get i j = b.get i j) : a = b := by
  obtain ⟨an, ad⟩ := a
  obtain ⟨bn, bd⟩ := b
  simp only at hn ha hb h
  subst hn
  congr 1
  apply Array.ext (by omega)
  intro k hk1 hk2
  have hn : 0 < an := by
    rcases Nat.eq_zero_or_pos an with h0 | h0
    · subst h0; simp at ha; omega
    · exact h0
  have hk : k < an * an := by omega
  have hi : k / an < an := (Nat.div_lt_iff_lt_mul hn).mpr hk
  have hj : k % an < an := Nat.mod_lt _ hn
  have := h (k / an) (k % an) hi hj
  simp only [Mat.get] at this
  have hidx : k / an * an + k % an = k := by
    rw [Nat.mul_comm]; exact Nat.div_add_mod k an
  rw [hidx] at this
  simpa [Array.getD_eq_getD_getElem?, hk1, hk2] using this

end Mat

/-! Non-vacuity -/
example : (Mat.ofFn 3 (fun i j => if i = 2 ∧ j = 1 then (Cx.one : Cx α) else Cx.zero)).get 2 1 = Cx.one := by
  rw [Mat.get_ofFn (by decide) (by decide)]; simp
example : (Mat.identity 4 : Mat α).get 3 3 = Cx.one := by
  rw [Mat.get_identity (by decide) (by decide)]; simp

end OSq

#print axioms OSq.Mat.get_ofFn
#print axioms OSq.Mat.ofFn_size
#print axioms OSq.Mat.ext_get
