import OSq.Proofs.CircuitSem2
/-
  OSq.Proofs.CircuitSem5 — **operators on disjoint sets of qubits commute** (register level; the port of the
  design-phase prototype `RegisterCommute.lean`, generalised from one qubit to arbitrary duplicate-free qubit lists
  and to all statement kinds).

  * `lift_mul_lift_apply`   for `idx1` (duplicate-free, in range) disjoint from `idx2`:
                            `(lift idx1 a * lift idx2 b) r c = if agreeOff n (idx1 ++ idx2) r c then
                             a (sub₁ r) (sub₁ c) * b (sub₂ r) (sub₂ c) else 0`
  * `lift_commute`          `lift idx1 a * lift idx2 b = lift idx2 b * lift idx1 a` for disjoint lists
  * `Stmt.support s`        the qubits of a statement as a duplicate-free list of naturals
  * `measOp_eq_lift`, `resetOp_eq_lift`   the measurement projector / reset operator on qubit `q < n` is the lift of the
                            one-qubit operator; `gateOp_eq_lift_support` the same for gates (any operand multiplicity)
  * `stmtOp_is_lift`        every in-range statement operator is `lift (support s) _ m` for some local operator `m`
  * `commute_disjoint`      **`stmtOp n s1 b1 * stmtOp n s2 b2 = stmtOp n s2 b2 * stmtOp n s1 b2`** for in-range statements
                            on disjoint qubit sets (gates, measurements, resets, comments; any outcomes)
  * `gateOp_commute_disjoint`  the gate/gate case
  * `lift_commute_stmtOp`   a one-qubit operator on a qubit the statement does not touch commutes with the statement
                            (the form needed by the abstract merge theorem)
-/
open Matrix

namespace OSq

/-! ## Lifts on disjoint qubit lists -/

theorem expandKet_reducedKet_testBit_mem (idx : List Nat) (hnd : idx.Nodup) (r c : Nat) {p : Nat}
    (hp : p ∈ idx) : (expandKet r (reducedKet c idx) idx).testBit p = c.testBit p := by
  obtain ⟨i, hi, rfl⟩ := List.getElem_of_mem hp
  rw [expandKet_getElem r _ idx hnd i hi, reducedKet_spec, dif_pos hi]

theorem lift_mul_lift_apply {n k1 k2 : Nat} (idx1 idx2 : List Nat) (hk1 : idx1.length = k1)
    (hk2 : idx2.length = k2) (hnd1 : idx1.Nodup) (hlt1 : ∀ q ∈ idx1, q < n)
    (hdisj : ∀ q ∈ idx1, q ∉ idx2) (a : Op k1) (b : Op k2) (r c : Fin (2 ^ n)) :
    (lift idx1 hk1 a * lift idx2 hk2 b : Op n) r c =
      if agreeOff n (idx1 ++ idx2) r.val c.val then
        a (subKet idx1 hk1 r) (subKet idx1 hk1 c) * b (subKet idx2 hk2 r) (subKet idx2 hk2 c)
      else 0 := by
  rw [Matrix.mul_apply]
  have hx0lt : expandKet r.val (reducedKet c.val idx1) idx1 < 2 ^ n := expandKet_lt _ _ _ r.isLt hlt1
  by_cases h : agreeOff n (idx1 ++ idx2) r.val c.val
  · rw [if_pos h, Finset.sum_eq_single (⟨_, hx0lt⟩ : Fin (2 ^ n))]
    · have h1 : agreeOff n idx1 r.val (expandKet r.val (reducedKet c.val idx1) idx1) :=
        agreeOff_expandKet n idx1 _ _
      have h2 : agreeOff n idx2 (expandKet r.val (reducedKet c.val idx1) idx1) c.val := by
        intro p hp hnp
        by_cases hp1 : p ∈ idx1
        · exact expandKet_reducedKet_testBit_mem idx1 hnd1 _ _ hp1
        · rw [expandKet_not_mem _ _ _ hp1]
          exact h p hp (by simp [hp1, hnp])
      have e1 : subKet idx1 hk1 (⟨_, hx0lt⟩ : Fin (2 ^ n)) = subKet idx1 hk1 c := by
        apply Fin.ext
        exact reducedKet_expandKet idx1 hnd1 _ _ (reducedKet_lt _ _)
      have e2 : subKet idx2 hk2 (⟨_, hx0lt⟩ : Fin (2 ^ n)) = subKet idx2 hk2 r := by
        apply Fin.ext
        apply Nat.eq_of_testBit_eq
        intro i
        simp only [subKet_val, reducedKet_spec]
        split
        · rename_i hi
          exact expandKet_not_mem _ _ _ (fun hm => hdisj _ hm (List.getElem_mem hi))
        · rfl
      rw [lift_apply, lift_apply, if_pos h1, if_pos h2, e1, e2]
    · intro x _ hx
      rw [lift_apply, lift_apply]
      by_cases g1 : agreeOff n idx1 r.val x.val
      · by_cases g2 : agreeOff n idx2 x.val c.val
        · exfalso
          apply hx
          apply Fin.ext
          apply Nat.eq_of_testBit_eq
          intro p
          show x.val.testBit p = (expandKet r.val (reducedKet c.val idx1) idx1).testBit p
          by_cases hp : p < n
          · by_cases hp1 : p ∈ idx1
            · rw [expandKet_reducedKet_testBit_mem idx1 hnd1 _ _ hp1]
              exact g2 p hp (fun hm => hdisj p hp1 hm)
            · rw [expandKet_not_mem _ _ _ hp1]
              exact (g1 p hp hp1).symm
          · rw [testBit_ge x.isLt (Nat.le_of_not_lt hp), testBit_ge hx0lt (Nat.le_of_not_lt hp)]
        · rw [if_neg g2, mul_zero]
      · rw [if_neg g1, zero_mul]
    · intro hm; exact absurd (Finset.mem_univ _) hm
  · rw [if_neg h]
    apply Finset.sum_eq_zero
    intro x _
    rw [lift_apply, lift_apply]
    by_cases g1 : agreeOff n idx1 r.val x.val
    · by_cases g2 : agreeOff n idx2 x.val c.val
      · exfalso
        apply h
        intro p hp hnp
        rw [List.mem_append, not_or] at hnp
        exact (g1 p hp hnp.1).trans (g2 p hp hnp.2)
      · rw [if_neg g2, mul_zero]
    · rw [if_neg g1, zero_mul]

/-- **operators lifted from disjoint qubit lists commute** -/
theorem lift_commute {n k1 k2 : Nat} (idx1 idx2 : List Nat) (hk1 : idx1.length = k1)
    (hk2 : idx2.length = k2) (hnd1 : idx1.Nodup) (hlt1 : ∀ q ∈ idx1, q < n) (hnd2 : idx2.Nodup)
    (hlt2 : ∀ q ∈ idx2, q < n) (hdisj : ∀ q ∈ idx1, q ∉ idx2) (a : Op k1) (b : Op k2) :
    (lift idx1 hk1 a * lift idx2 hk2 b : Op n) = lift idx2 hk2 b * lift idx1 hk1 a := by
  ext r c
  rw [lift_mul_lift_apply idx1 idx2 hk1 hk2 hnd1 hlt1 hdisj,
    lift_mul_lift_apply idx2 idx1 hk2 hk1 hnd2 hlt2 (fun q h2 h1 => hdisj q h1 h2)]
  have hiff : agreeOff n (idx1 ++ idx2) r.val c.val ↔ agreeOff n (idx2 ++ idx1) r.val c.val :=
    agreeOff_congr (by intro x; simp [or_comm]) _ _
  by_cases h : agreeOff n (idx1 ++ idx2) r.val c.val
  · rw [if_pos h, if_pos (hiff.mp h), mul_comm]
  · rw [if_neg h, if_neg (fun h' => h (hiff.mpr h'))]

/-! ## Statements as lifts -/

/-- the qubits a statement touches, as a duplicate-free list of naturals -/
def Stmt.support {α : Type} (s : Stmt α) : List Nat := (dedup s.qubits).map Int.toNat

theorem reducedKet_single_testBit (x q : Nat) : (reducedKet x [q]).testBit 0 = x.testBit q := by
  rw [reducedKet_spec]; simp

theorem agreeOff_one_zero (x y : Nat) : agreeOff 1 [0] x y := by
  intro i hi hni
  have : i = 0 := by omega
  subst this
  simp at hni

theorem measOp_eq_lift (n q : Nat) (b : Bool) :
    measOp n q b = lift [q] rfl (measOp 1 0 b) := by
  ext r c
  rw [lift_apply]
  by_cases hag : agreeOff n [q] r.val c.val
  · rw [if_pos hag]
    have hrc : r = c ↔ subKet (n := n) [q] rfl r = subKet [q] rfl c := by
      rw [← Fin.val_inj, eq_iff_agreeOff_reducedKet [q] r.isLt c.isLt, ← Fin.val_inj]
      exact ⟨fun h => h.2, fun h => ⟨hag, h⟩⟩
    have e : (subKet (n := n) (k := 1) [q] rfl r).val.testBit 0 = r.val.testBit q :=
      reducedKet_single_testBit _ _
    exact if_congr (and_congr hrc (by rw [e])) rfl rfl
  · rw [if_neg hag]
    show (if r = c ∧ r.val.testBit q = b then (1 : ℂ) else 0) = 0
    rw [if_neg]
    rintro ⟨rfl, _⟩
    exact hag (agreeOff_refl _ _ _)

theorem resetOp_eq_lift (n q : Nat) (b : Bool) :
    resetOp n q b = lift [q] rfl (resetOp 1 0 b) := by
  ext r c
  rw [lift_apply]
  have er : (subKet (n := n) (k := 1) [q] rfl r).val.testBit 0 = r.val.testBit q :=
    reducedKet_single_testBit _ _
  have ec : (subKet (n := n) (k := 1) [q] rfl c).val.testBit 0 = c.val.testBit q :=
    reducedKet_single_testBit _ _
  by_cases hag : agreeOff n [q] r.val c.val
  · rw [if_pos hag]
    refine if_congr ?_ rfl rfl
    rw [er, ec]
    exact ⟨fun h => ⟨agreeOff_one_zero _ _, h.2⟩, fun h => ⟨hag, h.2⟩⟩
  · rw [if_neg hag]
    show (if agreeOff n [q] r.val c.val ∧ _ then (1 : ℂ) else 0) = 0
    rw [if_neg (fun h => hag h.1)]

section stmts
variable {n : Nat}

theorem dedup_reg {l : List Int} (h : ∀ q ∈ l, 0 ≤ q ∧ q < (n : Int)) :
    ∀ q ∈ dedup l, 0 ≤ q ∧ q < (n : Int) := fun q hq => h q ((mem_dedup l q).mp hq)

theorem support_nodup (s : Stmt ℝ) (hs : ∀ q ∈ s.qubits, 0 ≤ q ∧ q < (n : Int)) : s.support.Nodup :=
  nodup_map_toNat (dedup s.qubits) (dedup_nodup _) (dedup_reg hs)

theorem support_lt (s : Stmt ℝ) (hs : ∀ q ∈ s.qubits, 0 ≤ q ∧ q < (n : Int)) : ∀ q ∈ s.support, q < n :=
  map_toNat_lt (dedup s.qubits) (dedup_reg hs)

theorem mem_support {α : Type} (s : Stmt α) (p : Nat) : p ∈ s.support ↔ ∃ q ∈ s.qubits, q.toNat = p := by
  simp only [Stmt.support, List.mem_map, mem_dedup]

/-- gates: the register operator is the lift, along the duplicate-free operand list, of the re-indexed gate -/
theorem gateOp_eq_lift_support (g : Gate ℝ) (nm : Option (Named ℝ)) (hg : g.inReg n) :
    gateOp n g = lift (Stmt.gate g nm).support (List.length_map _)
      (gateOp (dedup g.operands).length (g.pos (dedup g.operands))) :=
  gateOp_eq_lift (dedup g.operands) (dedup_nodup _) (dedup_reg hg) g
    (fun q hq => (mem_dedup _ q).mpr hq)

/-- **every in-range statement operator is a lift along the statement's support** -/
theorem stmtOp_is_lift (s : Stmt ℝ) (hs : ∀ q ∈ s.qubits, 0 ≤ q ∧ q < (n : Int)) (b : Bool) :
    ∃ (k : Nat) (hk : s.support.length = k) (m : Op k), stmtOp n s b = lift s.support hk m := by
  cases s with
  | gate g nm => exact ⟨_, _, _, gateOp_eq_lift_support g nm hs⟩
  | measure q bit ax nm =>
    refine ⟨1, by simp [Stmt.support, Stmt.qubits, dedup], measOp 1 0 b, ?_⟩
    simp only [stmtOp]
    rw [measOp_eq_lift]
    rfl
  | reset q nm =>
    refine ⟨1, by simp [Stmt.support, Stmt.qubits, dedup], resetOp 1 0 b, ?_⟩
    simp only [stmtOp]
    rw [resetOp_eq_lift]
    rfl
  | comment c =>
    exact ⟨0, by simp [Stmt.support, Stmt.qubits, dedup], 1, by simp [stmtOp, lift_one]⟩

/-- **Statements on disjoint qubit sets commute**, whatever their kinds and outcomes. -/
theorem commute_disjoint (s1 s2 : Stmt ℝ) (h1 : ∀ q ∈ s1.qubits, 0 ≤ q ∧ q < (n : Int))
    (h2 : ∀ q ∈ s2.qubits, 0 ≤ q ∧ q < (n : Int)) (hd : ∀ q ∈ s1.qubits, q ∉ s2.qubits) (b1 b2 : Bool) :
    stmtOp n s1 b1 * stmtOp n s2 b2 = stmtOp n s2 b2 * stmtOp n s1 b1 := by
  obtain ⟨k1, hk1, m1, e1⟩ := stmtOp_is_lift s1 h1 b1
  obtain ⟨k2, hk2, m2, e2⟩ := stmtOp_is_lift s2 h2 b2
  rw [e1, e2]
  apply lift_commute _ _ hk1 hk2 (support_nodup s1 h1) (support_lt s1 h1) (support_nodup s2 h2)
    (support_lt s2 h2)
  intro p hp1 hp2
  obtain ⟨q1, hq1, e1⟩ := (mem_support s1 p).mp hp1
  obtain ⟨q2, hq2, e2⟩ := (mem_support s2 p).mp hp2
  have := h1 q1 hq1
  have := h2 q2 hq2
  have : q1 = q2 := by omega
  exact hd q1 hq1 (this ▸ hq2)

theorem gateOp_commute_disjoint (g1 g2 : Gate ℝ) (h1 : g1.inReg n) (h2 : g2.inReg n)
    (hd : ∀ q ∈ g1.operands, q ∉ g2.operands) : gateOp n g1 * gateOp n g2 = gateOp n g2 * gateOp n g1 :=
  commute_disjoint (.gate g1 none) (.gate g2 none) h1 h2 hd false false

/-- a one-qubit operator on a qubit the statement does not touch commutes with the statement -/
theorem lift_commute_stmtOp (q : Nat) (hq : q < n) (a : Op 1) (s : Stmt ℝ)
    (hs : ∀ q ∈ s.qubits, 0 ≤ q ∧ q < (n : Int)) (hnot : q ∉ s.qubits.map Int.toNat) (b : Bool) :
    (lift [q] rfl a : Op n) * stmtOp n s b = stmtOp n s b * lift [q] rfl a := by
  obtain ⟨k, hk, m, e⟩ := stmtOp_is_lift s hs b
  rw [e]
  apply lift_commute [q] _ rfl hk (by simp) (by simpa using hq) (support_nodup s hs) (support_lt s hs)
  intro p hp hp2
  simp only [List.mem_singleton] at hp
  subst hp
  obtain ⟨q', hq', e'⟩ := (mem_support s p).mp hp2
  exact hnot (List.mem_map.mpr ⟨q', hq', e'⟩)

end stmts

/-! ## Non-vacuity -/

-- a rotation on qubit 0 commutes with a controlled rotation on qubits (2, 1) and with a measurement of qubit 1
example (ax ax' : Vec3 ℝ) (an ph an' ph' : ℝ) :
    gateOp 3 (.bsr 0 ax an ph) * gateOp 3 (.ctrl 2 (.bsr 1 ax' an' ph'))
      = gateOp 3 (.ctrl 2 (.bsr 1 ax' an' ph')) * gateOp 3 (.bsr 0 ax an ph) :=
  gateOp_commute_disjoint _ _ (by simp [Gate.inReg, Gate.operands]) (by simp [Gate.inReg, Gate.operands])
    (by simp [Gate.operands])

example (ax : Vec3 ℝ) (an ph : ℝ) (b : Bool) :
    gateOp 3 (.bsr 0 ax an ph) * measOp 3 1 b = measOp 3 1 b * gateOp 3 (.bsr 0 ax an ph) :=
  commute_disjoint (n := 3) (.gate (.bsr 0 ax an ph) none) (.measure 1 0 (0, 0, 1) none)
    (by simp [Stmt.qubits, Gate.operands]) (by simp [Stmt.qubits]) (by simp [Stmt.qubits, Gate.operands])
    false b

end OSq

#print axioms OSq.lift_mul_lift_apply
#print axioms OSq.lift_commute
#print axioms OSq.stmtOp_is_lift
#print axioms OSq.commute_disjoint
#print axioms OSq.gateOp_commute_disjoint
#print axioms OSq.lift_commute_stmtOp
