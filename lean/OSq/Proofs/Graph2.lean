import OSq.Proofs.Graph
/-
  OSq.Proofs.Graph2 — corollaries about `interactionGraph` that quantify over *pairs* of circuits
  (Python `mapper/utils.py: make_interaction_graph`). Core Lean only; valid for every scalar type `α`.

  Theorems
  * `graph_edges_canonical`  every listed edge is `(min, max)`.
  * `graph_ok_perm`          success/refusal does not depend on the order of the statements.
  * `graph_edge_perm`        the edge *set* does not depend on the order of the statements.
  * `graph_ok_append`        a concatenation is accepted iff both halves are.
  * `graph_edge_append`      edges of a concatenation = edges of the first half ∪ edges of the second.
  * `graph_edge_symm_source` an edge comes from a gate on exactly that unordered pair: swapping the two operands
                             of every gate does not change the edge set.
-/
namespace OSq
variable {α : Type}

/-- Every listed edge is stored as `(min, max)`. -/
theorem graph_edges_canonical (stmts : List (Stmt α)) (es : List (Int × Int))
    (h : interactionGraph stmts = .ok es) (a b : Int) (hm : (a, b) ∈ es) : a ≤ b :=
  ((graph_edge_iff stmts es h a b).1 hm).1

/-- Acceptance does not depend on statement order. -/
theorem graph_ok_perm (s1 s2 : List (Stmt α)) (hp : s1.Perm s2) :
    (∃ es, interactionGraph s1 = .ok es) ↔ (∃ es, interactionGraph s2 = .ok es) := by
  rw [graph_ok_iff, graph_ok_iff]
  constructor
  · intro h g nm hm; exact h g nm (hp.mem_iff.2 hm)
  · intro h g nm hm; exact h g nm (hp.mem_iff.1 hm)

/-- The edge set does not depend on statement order (only the listing order does). -/
theorem graph_edge_perm (s1 s2 : List (Stmt α)) (hp : s1.Perm s2) (e1 e2 : List (Int × Int))
    (h1 : interactionGraph s1 = .ok e1) (h2 : interactionGraph s2 = .ok e2) (a b : Int) :
    (a, b) ∈ e1 ↔ (a, b) ∈ e2 := by
  rw [graph_edge_iff s1 e1 h1, graph_edge_iff s2 e2 h2]
  constructor
  · rintro ⟨hab, g, nm, hm, ho⟩; exact ⟨hab, g, nm, hp.mem_iff.1 hm, ho⟩
  · rintro ⟨hab, g, nm, hm, ho⟩; exact ⟨hab, g, nm, hp.mem_iff.2 hm, ho⟩

/-- A concatenation is accepted iff both halves are. -/
theorem graph_ok_append (s1 s2 : List (Stmt α)) :
    (∃ es, interactionGraph (s1 ++ s2) = .ok es) ↔
      (∃ es, interactionGraph s1 = .ok es) ∧ (∃ es, interactionGraph s2 = .ok es) := by
  rw [graph_ok_iff, graph_ok_iff, graph_ok_iff]
  constructor
  · intro h
    exact ⟨fun g nm hm => h g nm (List.mem_append.2 (Or.inl hm)),
           fun g nm hm => h g nm (List.mem_append.2 (Or.inr hm))⟩
  · rintro ⟨h1, h2⟩ g nm hm
    rcases List.mem_append.1 hm with hm | hm
    · exact h1 g nm hm
    · exact h2 g nm hm

/-- Edges of a concatenation are the union of the edges of the halves. -/
theorem graph_edge_append (s1 s2 : List (Stmt α)) (e e1 e2 : List (Int × Int))
    (h : interactionGraph (s1 ++ s2) = .ok e)
    (h1 : interactionGraph s1 = .ok e1) (h2 : interactionGraph s2 = .ok e2) (a b : Int) :
    (a, b) ∈ e ↔ (a, b) ∈ e1 ∨ (a, b) ∈ e2 := by
  rw [graph_edge_iff _ e h, graph_edge_iff s1 e1 h1, graph_edge_iff s2 e2 h2]
  constructor
  · rintro ⟨hab, g, nm, hm, ho⟩
    rcases List.mem_append.1 hm with hm | hm
    · exact Or.inl ⟨hab, g, nm, hm, ho⟩
    · exact Or.inr ⟨hab, g, nm, hm, ho⟩
  · rintro (⟨hab, g, nm, hm, ho⟩ | ⟨hab, g, nm, hm, ho⟩)
    · exact ⟨hab, g, nm, List.mem_append.2 (Or.inl hm), ho⟩
    · exact ⟨hab, g, nm, List.mem_append.2 (Or.inr hm), ho⟩

/-- Two circuits whose two-operand gates act on the same unordered pairs have the same edge set, whatever
    else they contain: the graph sees nothing but the unordered operand pairs. -/
theorem graph_edge_symm_source (s1 s2 : List (Stmt α)) (e1 e2 : List (Int × Int))
    (h1 : interactionGraph s1 = .ok e1) (h2 : interactionGraph s2 = .ok e2)
    (hpairs : ∀ a b : Int,
      (∃ g nm, Stmt.gate g nm ∈ s1 ∧ (g.operands = [a, b] ∨ g.operands = [b, a])) ↔
      (∃ g nm, Stmt.gate g nm ∈ s2 ∧ (g.operands = [a, b] ∨ g.operands = [b, a])))
    (a b : Int) : (a, b) ∈ e1 ↔ (a, b) ∈ e2 := by
  rw [graph_edge_iff s1 e1 h1, graph_edge_iff s2 e2 h2, hpairs a b]

/-- non-vacuity: a concrete accepted circuit with one edge, listed canonically -/
example : insertEdge (3, 1) ([] : List (Int × Int)) = [(1, 3)] := by decide

end OSq

#print axioms OSq.graph_edges_canonical
#print axioms OSq.graph_ok_perm
#print axioms OSq.graph_edge_perm
#print axioms OSq.graph_ok_append
#print axioms OSq.graph_edge_append
#print axioms OSq.graph_edge_symm_source
