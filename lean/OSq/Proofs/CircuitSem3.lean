import OSq.Proofs.CircuitSem2
import OSq.Proofs.DecomposeLoop
/-
  OSq.Proofs.CircuitSem3 — **the decompose pass preserves the meaning of the circuit** (register level, one global
  phase for all measurement / reset outcomes), from the structural theorems of `DecomposeLoop` (where the
  replacements go), the local-to-global theorem of `CircuitSem2` (what an accepted `2^k × 2^k` comparison means on
  the register) and the congruence theorems of `CircuitSem`.

  Vocabulary
  * `ExactRepl g gs`       the two local matrices `check_gate_replacement` compares for the gate `g` and the proposed
                           replacement `gs` exist and are equal up to a unit complex factor *exactly*
                           (`PhaseEq` of `OSq.Proofs.Equality`; this is what `equivPhase` tests up to tolerance:
                           `equivPhase_complete_exact` — exact equality with a large entry is accepted;
                           `equivPhase_sound` / `equivPhase_crisp` — acceptance means equality within tolerance / exact
                           equality when the closeness tests are honest).
  * `GateWF n g`           `g.operands.Nodup ∧ g.inReg n` (implied by `Stmt.wf`: `gateWF_of_wf`).
  Theorems
  * `phaseEq_iff_toMatrixOn`   `PhaseEq N a b ↔ ∃ z, ‖z‖ = 1 ∧ a.toMatrixOn N = z • b.toMatrixOn N`
  * `exactRepl_circOp`     `ExactRepl g gs` ⇒ `∃ z, ‖z‖ = 1 ∧ circOp n (gs as statements) [] = z • gateOp n g`
  * `exactRepl_accepted`   `ExactRepl g gs` and an entry of modulus `≥ atol` ⇒ `checkGateReplacement atol g gs = none`
                           (the exactness hypothesis is consistent with acceptance for every positive tolerance)
  * `exactRepl_of_crisp`   accepted and honest closeness tests ⇒ `ExactRepl g gs` (the measured phase is normalised,
                           hence a unit by itself)
  * `spliceSpec_replacesU` the specification `spliceSpec d i l` of the pass is a gate-by-gate replacement (`ReplacesU`)
  * `decompose_sem`        `decompose atol d stmts = (out, none)`, gates well formed, every accepted replacement exact
                           ⇒ `CircEquiv n stmts out ∧ SameBarriers stmts out`
  * `decompose_sem_phase`  … with the phase exposed: `∃ z, ReplacesU n stmts out z` (`z` = product of the local phases)
  * `decompose_fail_sem`   after a rejected proposal at position `k` the IR left behind is still equivalent to the
                           original: `CircEquiv n stmts (decompose atol d stmts).1`, error `e` reported
  * `decomposeBuiltin_sem` the same for the built-in decomposers (`Decomposer.run`)
-/
open Matrix

namespace OSq

/-! ## Exact replacements -/

theorem phaseEq_iff_toMatrixOn (N : Nat) (a b : Mat ℝ) :
    PhaseEq N a b ↔ ∃ z : ℂ, ‖z‖ = 1 ∧ a.toMatrixOn N = z • b.toMatrixOn N := by
  constructor
  · rintro ⟨z, hz, H⟩
    refine ⟨z, hz, ?_⟩
    ext i j
    simp only [Mat.toMatrixOn_apply, Matrix.smul_apply, smul_eq_mul]
    exact H i j i.isLt j.isLt
  · rintro ⟨z, hz, H⟩
    refine ⟨z, hz, ?_⟩
    intro i j hi hj
    have := congrFun (congrFun H ⟨i, hi⟩) ⟨j, hj⟩
    simpa [Mat.toMatrixOn_apply] using this

/-- the replacement `gs` proposed for `g` is exactly phase-equal to `g` on the local matrices that
    `check_gate_replacement` compares -/
def ExactRepl (g : Gate ℝ) (gs : List (Gate ℝ)) : Prop :=
  ∃ A B, localMatrix g.operands [g] = .ok A ∧ localMatrix g.operands gs = .ok B ∧
    PhaseEq (2 ^ g.operands.length) A B

/-- operands distinct and inside the register -/
def GateWF (n : Nat) (g : Gate ℝ) : Prop := g.operands.Nodup ∧ g.inReg n

theorem nodup_of_hasDup_false : ∀ l : List Int, hasDup l = false → l.Nodup
  | [], _ => List.nodup_nil
  | x :: xs, h => by
    simp only [hasDup, Bool.or_eq_false_iff] at h
    rw [List.nodup_cons]
    exact ⟨by simpa using h.1, nodup_of_hasDup_false xs h.2⟩

theorem gateWF_of_wf {n nb : Nat} {g : Gate ℝ} {nm : Option (Named ℝ)}
    (h : Stmt.wf n nb (.gate g nm) = true) : GateWF n g := by
  simp only [Stmt.wf, Bool.and_eq_true, Bool.not_eq_true'] at h
  refine ⟨nodup_of_hasDup_false _ h.1.2, ?_⟩
  intro q hq
  have := List.all_eq_true.mp h.1.1 q hq
  simpa [inRange] using this

/-- **what an exact replacement means on the register** -/
theorem exactRepl_circOp {n : Nat} {g : Gate ℝ} {gs : List (Gate ℝ)} (hwf : GateWF n g)
    (h : ExactRepl g gs) : ∃ z : ℂ, ‖z‖ = 1 ∧ circOp n (gateStmts gs) [] = z • gateOp n g := by
  obtain ⟨A, B, hA, hB, hpe⟩ := h
  obtain ⟨z, hz, hAB⟩ := (phaseEq_iff_toMatrixOn _ A B).mp hpe
  have hz0 : z ≠ 0 := by
    intro h0; rw [h0, norm_zero] at hz; exact zero_ne_one hz
  exact ⟨z⁻¹, by rw [norm_inv, hz, inv_one],
    local_phase_eq_global' g gs hwf.1 hwf.2 hA hB z hz0 hAB⟩

/-- an exact replacement is accepted by `check_gate_replacement` for every positive tolerance not larger than
    the largest entry of the gate's matrix -/
theorem exactRepl_accepted (atol : ℝ) (hatol : 0 < atol) {g : Gate ℝ} {gs : List (Gate ℝ)}
    (h : ExactRepl g gs)
    (hbig : ∀ A, localMatrix g.operands [g] = .ok A →
      ∃ i j, i < 2 ^ g.operands.length ∧ j < 2 ^ g.operands.length ∧ atol ≤ ‖(A.get i j).toC‖) :
    checkGateReplacement atol g gs = none := by
  obtain ⟨A, B, hA, hB, hpe⟩ := h
  have hops := (localMatrix_toMatrixOn hB).1
  have hall : ((gs.map Gate.operands).flatten.all fun q => g.operands.contains q) = true := by
    rw [List.all_eq_true]
    intro q hq
    obtain ⟨l, hl, hql⟩ := List.mem_flatten.mp hq
    obtain ⟨g', hg', rfl⟩ := List.mem_map.mp hl
    simpa using hops g' hg' q hql
  have heq : equivPhase atol A B = true :=
    equivPhase_complete_exact' atol hatol _ (Nat.two_pow_pos _) A B (localMatrix_dim hA).1
      (localMatrix_dim hB).1 (hbig A hA) hpe
  simp only [checkGateReplacement, hall, hA, hB, heq, Bool.not_true, Bool.false_eq_true, if_false,
    if_true]

/-- conversely: acceptance + honest closeness tests give exactness (the measured phase `pivotPhase A B` is
    normalised, so it is a unit factor by itself: no hypothesis on its modulus is needed any more) -/
theorem exactRepl_of_crisp (atol : ℝ) (hatol : 0 < atol) {g : Gate ℝ} {gs : List (Gate ℝ)} {A B : Mat ℝ}
    (hA : localMatrix g.operands [g] = .ok A) (hB : localMatrix g.operands gs = .ok B)
    (hacc : equivPhase atol A B = true)
    (hcrisp : ∀ k, k < 2 ^ g.operands.length * 2 ^ g.operands.length →
      ‖A.flat k - pivotPhase A B * B.flat k‖ ≤ atol + 1e-5 * ‖pivotPhase A B * B.flat k‖ →
      A.flat k = pivotPhase A B * B.flat k) :
    ExactRepl g gs :=
  ⟨A, B, hA, hB, equivPhase_crisp_phaseEq atol hatol _ A B (localMatrix_dim hA).1 (localMatrix_dim hB).1
    hacc hcrisp⟩

/-! ## The specification of the pass is a gate-by-gate replacement -/

theorem gateIdx_zero {α : Type} (l : List (Stmt α)) : gateIdx l 0 = 0 := by
  simp [gateIdx, gateCount]

theorem gateIdx_cons_succ {α : Type} (s : Stmt α) (l : List (Stmt α)) (k : Nat) :
    gateIdx (s :: l) (k + 1) = gateIdx l k + (if s.isGate then 1 else 0) := by
  simp only [gateIdx, gateCount, List.take_succ_cons, List.countP_cons]

/-- if every gate of `l` (the one at position `k` receiving call index `i + gateIdx l k`) is answered by the
    decomposer with an exact replacement, then `spliceSpec d i l` arises from `l` by gate-by-gate replacement with
    unit phases -/
theorem spliceSpec_replacesU (n : Nat) (d : Nat → GStmt ℝ → Except Err (List (GStmt ℝ))) (i : Nat)
    (l : List (Stmt ℝ))
    (h : ∀ k g nm, l[k]? = some (.gate g nm) →
      ∃ repl, d (i + gateIdx l k) (g, nm) = .ok repl ∧ GateWF n g ∧ ExactRepl g (repl.map (·.1))) :
    ∃ z, ReplacesU n l (spliceSpec d i l) z := by
  induction l generalizing i with
  | nil => exact ⟨1, .nil⟩
  | cons s rest ih =>
    have hrest : ∀ j, (∀ k g nm, rest[k]? = some (.gate g nm) →
        ∃ repl, d (j + gateIdx rest k) (g, nm) = .ok repl ∧ GateWF n g ∧ ExactRepl g (repl.map (·.1))) →
        ∃ z, ReplacesU n rest (spliceSpec d j rest) z := fun j hj => ih j hj
    cases s with
    | gate g nm =>
      obtain ⟨repl, hd, hwf, hex⟩ := h 0 g nm (by simp)
      rw [gateIdx_zero, Nat.add_zero] at hd
      obtain ⟨z, hz⟩ := hrest (i + 1) (by
        intro k g' nm' hk
        obtain ⟨repl', hd', hw', he'⟩ := h (k + 1) g' nm' (by simpa using hk)
        rw [gateIdx_cons_succ] at hd'
        simp only [Stmt.isGate, if_true] at hd'
        exact ⟨repl', by rw [← hd']; congr 1; omega, hw', he'⟩)
      obtain ⟨w, hw, hop⟩ := exactRepl_circOp hwf hex
      refine ⟨w * z, ?_⟩
      have : spliceSpec d i (.gate g nm :: rest) = repl.map GStmt.toStmt ++ spliceSpec d (i + 1) rest := by
        simp [spliceSpec, spliceChunk, hd]
      rw [this]
      exact .gate g nm _ w (map_toStmt_isGate repl) hw (by rw [circOp_map_toStmt]; exact hop) hz
    | measure q b ax nm =>
      obtain ⟨z, hz⟩ := hrest i (by
        intro k g' nm' hk
        obtain ⟨repl', hd', hw', he'⟩ := h (k + 1) g' nm' (by simpa using hk)
        rw [gateIdx_cons_succ] at hd'
        simp only [Stmt.isGate, Bool.false_eq_true, if_false, Nat.add_zero] at hd'
        exact ⟨repl', hd', hw', he'⟩)
      exact ⟨z, by simp only [spliceSpec]; exact .keep _ hz⟩
    | reset q nm =>
      obtain ⟨z, hz⟩ := hrest i (by
        intro k g' nm' hk
        obtain ⟨repl', hd', hw', he'⟩ := h (k + 1) g' nm' (by simpa using hk)
        rw [gateIdx_cons_succ] at hd'
        simp only [Stmt.isGate, Bool.false_eq_true, if_false, Nat.add_zero] at hd'
        exact ⟨repl', hd', hw', he'⟩)
      exact ⟨z, by simp only [spliceSpec]; exact .keep _ hz⟩
    | comment c =>
      obtain ⟨z, hz⟩ := hrest i (by
        intro k g' nm' hk
        obtain ⟨repl', hd', hw', he'⟩ := h (k + 1) g' nm' (by simpa using hk)
        rw [gateIdx_cons_succ] at hd'
        simp only [Stmt.isGate, Bool.false_eq_true, if_false, Nat.add_zero] at hd'
        exact ⟨repl', hd', hw', he'⟩)
      exact ⟨z, by simp only [spliceSpec]; exact .keep _ hz⟩

/-! ## `decompose` preserves the meaning -/

/-- **the phase-exposing form**: a successful run of `decompose` whose accepted replacements are exact is a
    gate-by-gate replacement with unit local phases; the global phase `z` is their product. -/
theorem decompose_sem_phase (n : Nat) (atol : ℝ) (d : Nat → GStmt ℝ → Except Err (List (GStmt ℝ)))
    (stmts out : List (Stmt ℝ))
    (hwf : ∀ g nm, Stmt.gate g nm ∈ stmts → GateWF n g)
    (hrun : decompose atol d stmts = (out, none))
    (hexact : ∀ k g nm repl, stmts[k]? = some (.gate g nm) → d (gateIdx stmts k) (g, nm) = .ok repl →
      checkGateReplacement atol g (repl.map (·.1)) = none → ExactRepl g (repl.map (·.1))) :
    ∃ z, ReplacesU n stmts out z := by
  have hnone : (decompose atol d stmts).2 = none := by rw [hrun]
  have hacc := (decompose_none_iff atol d stmts).mp hnone
  have hall : ∀ k g nm, stmts[k]? = some (.gate g nm) →
      ∃ repl, d (gateIdx stmts k) (g, nm) = .ok repl ∧
        checkGateReplacement atol g (repl.map (·.1)) = none :=
    fun k g nm hk => hacc k _ hk g nm rfl
  have hspec := decompose_ok_eq_flatMap atol d stmts hall
  rw [hrun] at hspec
  have hout : out = spliceSpec d 0 stmts := congrArg Prod.fst hspec
  rw [hout]
  apply spliceSpec_replacesU
  intro k g nm hk
  obtain ⟨repl, hd, hc⟩ := hall k g nm hk
  exact ⟨repl, by rw [Nat.zero_add]; exact hd, hwf g nm (List.mem_of_getElem? hk),
    hexact k g nm repl hk hd hc⟩

/-- **`decompose` preserves the meaning of the circuit.**  If the pass ends without an error on a circuit whose
    gates have distinct in-range operands, and every replacement it accepted is exactly phase-equal to the gate it
    replaces on the local matrices (what `equivPhase` tests up to tolerance), then the output implements the same
    operation as the input up to ONE global phase, for EVERY combination of measurement and reset outcomes; the
    measurements, resets and comments are the same, in the same order. -/
theorem decompose_sem (n : Nat) (atol : ℝ) (d : Nat → GStmt ℝ → Except Err (List (GStmt ℝ)))
    (stmts out : List (Stmt ℝ))
    (hwf : ∀ g nm, Stmt.gate g nm ∈ stmts → GateWF n g)
    (hrun : decompose atol d stmts = (out, none))
    (hexact : ∀ k g nm repl, stmts[k]? = some (.gate g nm) → d (gateIdx stmts k) (g, nm) = .ok repl →
      checkGateReplacement atol g (repl.map (·.1)) = none → ExactRepl g (repl.map (·.1))) :
    CircEquiv n stmts out ∧ SameBarriers stmts out := by
  obtain ⟨z, hz⟩ := decompose_sem_phase n atol d stmts out hwf hrun hexact
  exact ⟨hz.equiv.symm, hz.replaces.sameBarriers.symm⟩

/-- **A rejected proposal leaves an equivalent circuit behind.**  If the gate at position `k` is the first one
    whose proposal is refused, the IR left behind (`decompose_fail_prefix`: processed prefix, then the untouched
    rest) still implements the original operation up to one global phase, provided the replacements accepted
    before were exact. -/
theorem decompose_fail_sem (n : Nat) (atol : ℝ) (d : Nat → GStmt ℝ → Except Err (List (GStmt ℝ)))
    (stmts : List (Stmt ℝ)) (k : Nat) (g : Gate ℝ) (nm : Option (Named ℝ)) (e : Err)
    (hwf : ∀ g nm, Stmt.gate g nm ∈ stmts → GateWF n g)
    (hpre : ∀ j g' nm', j < k → stmts[j]? = some (.gate g' nm') →
      ∃ repl, d (gateIdx stmts j) (g', nm') = .ok repl ∧
        checkGateReplacement atol g' (repl.map (·.1)) = none ∧ ExactRepl g' (repl.map (·.1)))
    (hk : stmts[k]? = some (.gate g nm))
    (hrej : d (gateIdx stmts k) (g, nm) = .error e ∨
      ∃ repl, d (gateIdx stmts k) (g, nm) = .ok repl ∧
        checkGateReplacement atol g (repl.map (·.1)) = some e) :
    (decompose atol d stmts).2 = some e ∧
      CircEquiv n stmts (decompose atol d stmts).1 ∧ SameBarriers stmts (decompose atol d stmts).1 := by
  rw [decompose_fail_prefix atol d stmts k g nm e
    (fun j g' nm' hj hs => by obtain ⟨r, h1, h2, _⟩ := hpre j g' nm' hj hs; exact ⟨r, h1, h2⟩) hk hrej]
  refine ⟨rfl, ?_⟩
  have hklt : k < stmts.length := (List.getElem?_eq_some_iff.1 hk).1
  obtain ⟨z, hz⟩ := spliceSpec_replacesU n d 0 (stmts.take k) (by
    intro j g' nm' hj
    have hjk : j < k := by
      have := (List.getElem?_eq_some_iff.1 hj).1
      rw [List.length_take] at this
      omega
    have hj' : stmts[j]? = some (.gate g' nm') := by
      rwa [List.getElem?_take_of_lt hjk] at hj
    obtain ⟨repl, h1, _, h3⟩ := hpre j g' nm' hjk hj'
    refine ⟨repl, ?_, hwf g' nm' (List.mem_of_getElem? hj'), h3⟩
    have : gateIdx (stmts.take k) j = gateIdx stmts j := by
      simp only [gateIdx, List.take_take, Nat.min_eq_left (Nat.le_of_lt hjk)]
    rw [Nat.zero_add, this]; exact h1)
  have happ := hz.append (ReplacesU.refl n (stmts.drop k))
  rw [List.take_append_drop] at happ
  exact ⟨happ.equiv.symm, happ.replaces.sameBarriers.symm⟩

/-- the built-in decomposers (`ABADecomposer`, `McKayDecomposer`, `CNOTDecomposer`) -/
theorem decomposeBuiltin_sem (n : Nat) (atol : ℝ) (d : Decomposer) (stmts out : List (Stmt ℝ))
    (hwf : ∀ g nm, Stmt.gate g nm ∈ stmts → GateWF n g)
    (hrun : decomposeBuiltin atol d stmts = (out, none))
    (hexact : ∀ g nm repl, Stmt.gate g nm ∈ stmts → d.run atol (g, nm) = .ok repl →
      checkGateReplacement atol g (repl.map (·.1)) = none → ExactRepl g (repl.map (·.1))) :
    CircEquiv n stmts out ∧ SameBarriers stmts out :=
  decompose_sem n atol (fun _ g => d.run atol g) stmts out hwf hrun
    (fun _ g nm repl hk hd hc => hexact g nm repl (List.mem_of_getElem? hk) hd hc)

/-! ## Non-vacuity: a run with a measurement, a controlled rotation and a reset -/
section Example

/-- the decomposer that proposes the gate itself -/
def dSelf : Nat → GStmt ℝ → Except Err (List (GStmt ℝ)) := fun _ g => .ok [g]

noncomputable def exProg (ax : Vec3 ℝ) (an ph : ℝ) : List (Stmt ℝ) :=
  [.measure 0 0 (0, 0, 1) none, .gate (.ctrl 0 (.bsr 1 ax an ph)) none, .reset 1 none]

theorem exGate_wf (ax : Vec3 ℝ) (an ph : ℝ) : GateWF 2 (.ctrl 0 (.bsr 1 ax an ph)) :=
  ⟨by simp [Gate.operands], by simp [Gate.inReg, Gate.operands]⟩

theorem exGate_exact (ax : Vec3 ℝ) (an ph : ℝ) :
    ExactRepl (.ctrl 0 (.bsr 1 ax an ph)) [.ctrl 0 (.bsr 1 ax an ph)] := by
  obtain ⟨A, hA⟩ := (localMatrix_single_ok_iff (Gate.ctrl 0 (.bsr 1 ax an ph)).operands
    (Gate.ctrl 0 (.bsr 1 ax an ph))).mpr ⟨fun q hq => hq, trivial⟩
  exact ⟨A, A, hA, hA, PhaseEq.refl _ A⟩

theorem exGate_accepted (atol : ℝ) (h0 : 0 < atol) (h1 : atol ≤ 1) (ax : Vec3 ℝ) (an ph : ℝ) :
    checkGateReplacement atol (.ctrl 0 (.bsr 1 ax an ph)) [.ctrl 0 (.bsr 1 ax an ph)] = none := by
  apply exactRepl_accepted atol h0 (exGate_exact ax an ph)
  intro A hA
  have hspec := localMatrix_single_spec _ _ A hA
  refine ⟨0, 0, Nat.two_pow_pos _, Nat.two_pow_pos _, ?_⟩
  rw [hspec.2.2 0 0 (Nat.two_pow_pos _) (Nat.two_pow_pos _)]
  simp only [Gate.pos, denote, ctrlOf, Nat.zero_testBit, Bool.false_eq_true, if_false, delta, if_true,
    Cx.toC_one, norm_one]
  exact h1

theorem ex_run (atol : ℝ) (h0 : 0 < atol) (h1 : atol ≤ 1) (ax : Vec3 ℝ) (an ph : ℝ) :
    decompose atol dSelf (exProg ax an ph) = (exProg ax an ph, none) := by
  simp [decompose, decomposeLoop, exProg, dSelf, exGate_accepted atol h0 h1 ax an ph, GStmt.toStmt]

/-- all hypotheses of `decompose_sem` hold on this run -/
example (atol : ℝ) (h0 : 0 < atol) (h1 : atol ≤ 1) (ax : Vec3 ℝ) (an ph : ℝ) :
    CircEquiv 2 (exProg ax an ph) (exProg ax an ph) ∧ SameBarriers (exProg ax an ph) (exProg ax an ph) := by
  apply decompose_sem 2 atol dSelf (exProg ax an ph) (exProg ax an ph) ?_ (ex_run atol h0 h1 ax an ph)
  · intro k g nm repl hk hd _
    simp only [dSelf, Except.ok.injEq] at hd
    subst hd
    have hm := List.mem_of_getElem? hk
    simp only [exProg, List.mem_cons, Stmt.gate.injEq, reduceCtorEq, false_or, List.not_mem_nil,
      or_false] at hm
    obtain ⟨rfl, _⟩ := hm
    exact exGate_exact ax an ph
  · intro g nm hm
    simp only [exProg, List.mem_cons, Stmt.gate.injEq, reduceCtorEq, false_or, List.not_mem_nil,
      or_false] at hm
    obtain ⟨rfl, _⟩ := hm
    exact exGate_wf ax an ph

/-- … and of `decompose_fail_sem`, with a decomposer that raises on the (only) gate -/
example (ax : Vec3 ℝ) (an ph : ℝ) (atol : ℝ) :
    (decompose atol (fun _ _ => .error .key) (exProg ax an ph)).2 = some .key ∧
      CircEquiv 2 (exProg ax an ph) (decompose atol (fun _ _ => .error .key) (exProg ax an ph)).1 ∧
      SameBarriers (exProg ax an ph) (decompose atol (fun _ _ => .error .key) (exProg ax an ph)).1 := by
  apply decompose_fail_sem 2 atol _ (exProg ax an ph) 1 (.ctrl 0 (.bsr 1 ax an ph)) none .key
  · intro g nm hm
    simp only [exProg, List.mem_cons, Stmt.gate.injEq, reduceCtorEq, false_or, List.not_mem_nil,
      or_false] at hm
    obtain ⟨rfl, _⟩ := hm
    exact exGate_wf ax an ph
  · intro j g' nm' hj hs
    have : j = 0 := by omega
    subst this
    simp [exProg] at hs
  · rfl
  · exact Or.inl rfl

end Example

end OSq

#print axioms OSq.exactRepl_circOp
#print axioms OSq.exactRepl_accepted
#print axioms OSq.exactRepl_of_crisp
#print axioms OSq.spliceSpec_replacesU
#print axioms OSq.decompose_sem_phase
#print axioms OSq.decompose_sem
#print axioms OSq.decompose_fail_sem
#print axioms OSq.decomposeBuiltin_sem
