import OSq.Proofs.Main
/-
  OSq.Proofs.Main5 — the self-check hypothesis that `CrispABA` / `CrispMcKay` / `CrispCNOT` make on **matrix gates**
  (`checkGateReplacement atol g [g] = none`, the test `general_decomposer` runs on every gate a decomposer returns
  unchanged) follows from a primitive condition on the matrix: it has an entry of modulus `≥ atol` (true of every
  unitary matrix for `atol ≤ 2^{-k/2}`).

  * `map_idxOf_eq_range`      for duplicate-free `ops`, the positions `ops.map (ops.idxOf ·)` are `0, 1, …, k-1`
  * `matrix_local_entry`      on its own operands the local matrix of `.matrix m ops` contains every entry of `m`:
                              `A.get r c = m.get i j` for suitable kets `r, c` (bit-reversal of `i, j`)
  * `matrix_selfcheck`        duplicate-free operands, `m.n = 2^k`, an entry of modulus `≥ atol`, `0 < atol` ⇒
                              `checkGateReplacement atol (.matrix m ops) [.matrix m ops] = none`
-/
namespace OSq

theorem map_idxOf_eq_range (ops : List Int) (hnd : ops.Nodup) :
    ops.map (fun q => ops.idxOf q) = List.range ops.length := by
  apply List.ext_getElem (by simp)
  intro i h1 h2
  simp only [List.getElem_map, List.getElem_range]
  have := List.get_idxOf hnd ⟨i, by simpa using h1⟩
  simpa using this

/-- every entry of `m` occurs in the local matrix of `.matrix m ops` on `ops` -/
theorem matrix_local_entry (m : Mat ℝ) (ops : List Int) (hnd : ops.Nodup) (A : Mat ℝ)
    (hA : localMatrix ops [Gate.matrix m ops] = .ok A) (i j : Nat) (hi : i < 2 ^ ops.length)
    (hj : j < 2 ^ ops.length) :
    ∃ r c, r < 2 ^ ops.length ∧ c < 2 ^ ops.length ∧ A.get r c = m.get i j := by
  have hspec := localMatrix_single_spec ops _ A hA
  set k := ops.length with hk
  have hpos : ((ops.map fun q => ((ops.idxOf q : Nat) : Int)).map Int.toNat) = List.range k := by
    rw [List.map_map, ← map_idxOf_eq_range ops hnd]
    apply List.map_congr_left
    intro q _
    simp
  have hndr : (List.range k).reverse.Nodup := List.nodup_reverse.mpr List.nodup_range
  have hlen : (List.range k).reverse.length = k := by simp
  let r := expandKet 0 i (List.range k).reverse
  let c := expandKet 0 j (List.range k).reverse
  have hlt : ∀ x, expandKet 0 x (List.range k).reverse < 2 ^ k := fun x =>
    expandKet_lt 0 x _ (Nat.two_pow_pos k) (fun q hq => by simpa using hq)
  refine ⟨r, c, hlt i, hlt j, ?_⟩
  rw [hspec.2.2 r c (hlt i) (hlt j)]
  simp only [Gate.pos, denote, hpos, embedM]
  have hag : agreeOff k (List.range k) r c := fun x hx hni => absurd (List.mem_range.mpr hx) hni
  rw [if_pos hag, subIdx_eq_reducedKet, subIdx_eq_reducedKet,
    reducedKet_expandKet _ hndr 0 i (by rw [hlen]; exact hi),
    reducedKet_expandKet _ hndr 0 j (by rw [hlen]; exact hj)]

/-- **a matrix gate with an entry of modulus `≥ atol` passes its self-check** -/
theorem matrix_selfcheck (atol : ℝ) (h0 : 0 < atol) (m : Mat ℝ) (ops : List Int) (hnd : ops.Nodup)
    (hdim : m.n = 2 ^ ops.length)
    (hbig : ∃ i j, i < m.n ∧ j < m.n ∧ atol ≤ ‖(m.get i j).toC‖) :
    checkGateReplacement atol (.matrix m ops) [.matrix m ops] = none := by
  apply exactRepl_accepted atol h0 (exactRepl_self (.matrix m ops) hdim)
  intro A hA
  obtain ⟨i, j, hi, hj, hle⟩ := hbig
  rw [hdim] at hi hj
  obtain ⟨r, c, hr, hc, he⟩ := matrix_local_entry m ops hnd A hA i j hi hj
  exact ⟨r, c, hr, hc, by rw [he]; exact hle⟩

/-- non-vacuity: the 4×4 identity matrix on qubits `(3, 1)`, any `0 < atol ≤ 1` -/
example (atol : ℝ) (h0 : 0 < atol) (h1 : atol ≤ 1) :
    checkGateReplacement atol (.matrix (Mat.identity 4) [3, 1]) [.matrix (Mat.identity 4) [3, 1]] = none := by
  apply matrix_selfcheck atol h0 _ _ (by simp) rfl
  refine ⟨0, 0, by decide, by decide, ?_⟩
  have : ((Mat.identity 4 : Mat ℝ).get 0 0).toC = 1 := by
    have := congrFun (congrFun (Mat.toMatrixOn_identity 4) (0 : Fin 4)) (0 : Fin 4)
    simpa [Mat.toMatrixOn_apply] using this
  rw [this, norm_one]; exact h1

end OSq

#print axioms OSq.matrix_selfcheck
