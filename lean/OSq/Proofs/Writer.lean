import OSq.Model.Text
/-
  OSq.Proofs.Writer — structural theorems about the cQASM 3 writer (`writeStmt`, `writeCircuit`,
  Python `writer/writer.py`) and the cQASM 1 exporter (`exportV1Stmt`, `exportV1`, Python
  `exporter/cqasmv1_exporter.py`) of `OSq/Model/Text.lean`, and about `mkComment` (`OSq/Model/IR.lean`).
  Core Lean only; valid for every scalar type `α` and every float formatter `fmt : α → String`.

  Vocabulary: `nlCount s` number of `'\n'` in `s`; `noNl s` no `'\n'` in `s`; `isWs` the four characters
  removed by `rstripNl`; `hasInk s` some character of `s` is not whitespace.

  Theorems (properties C04, C12, C20)
  * `mkComment_eq`, `mkComment_ok_iff`, `mkComment_error_iff`, `mkComment_ok_inv`
                              a comment is accepted iff its text does not contain `*/`, else `ValueError`.
  * `showArg_qubit/_bit/_int/_float`   operands are rendered by kind: `q[i]`, `b[i]`, decimal integer, `fmt v`.
  * `writeStmt_gate_form`     named gate ↦ `name[(p1, …)] q[..], …\n`; parameters = the non-qubit arguments in
                              argument order, operands = the qubit arguments in order.
  * `writeStmt_measure_form`, `writeStmt_reset_form`, `writeStmt_comment_form`, `writeStmt_anon_form`.
  * `noNl_showArg`            a rendered argument never contains a newline (if `fmt` does not produce one).
  * `writeStmt_one_line`      every non-comment statement is rendered as `body ++ "\n"` with `body` newline free;
    `writeStmt_nlCount`       … hence contains exactly one newline;
    `writeStmt_comment_nlCount`  a comment (newline-free text) is rendered with exactly 3 newlines.
  * `rstripNl_prefix`         `s = rstripNl s ++ t` with `t` all whitespace;
    `rstripNl_no_trailing_ws` `rstripNl s` does not end in whitespace;
    `rstripNl_append_ink`     `rstripNl (a ++ b) = a ++ rstripNl b` when `b` has a non-whitespace character.
  * `writeCircuit_lines`      `writeCircuit` = `rstripNl (header ++ join of all statement renderings) ++ "\n"`.
  * `writeCircuit_none_omitted`  output = `body ++ "\n"`, `header ++ join = body ++ t`, `t` whitespace only,
                              `body` not ending in whitespace.
  * `writeCircuit_stmt_segment`  every statement's rendering is a segment of `header ++ join`, in statement order.
  * `writeCircuit_nlCount`    (all statements non-comment, newline-free names, last statement has ink)
                              number of lines = header lines + number of statements.
  * `exportV1Stmt_gate_form`, `exportV1Stmt_measure_form`, `exportV1Stmt_reset_form`,
    `exportV1Stmt_comment_form`, `exportV1Stmt_error_iff`   per-statement form and the exact error cases.
  * `exportV1_error_iff`      `exportV1` fails with `e` iff the first failing statement fails with `e`.
  * `exportV1_anon_refused`   first failing statement anonymous gate ⇒ `.error .unsupported` (nothing is output).
  * `exportV1_ok_form`        on success: header ++ join of the per-statement lines, right-stripped, plus `"\n"`.
  * `exportV1_ok_iff_all_ok`  success iff every statement exports.
-/
namespace OSq
variable {α : Type}

/-! ### Vocabulary -/

/-- number of newline characters -/
def nlCount (s : String) : Nat := s.toList.count '\n'
/-- the string contains no newline -/
def noNl (s : String) : Prop := '\n' ∉ s.toList
/-- the characters removed by `rstripNl` -/
def isWs (c : Char) : Bool := c == '\n' || c == ' ' || c == '\t' || c == '\r'
/-- some character is not whitespace -/
def hasInk (s : String) : Prop := ∃ c ∈ s.toList, isWs c = false

instance (s : String) : Decidable (noNl s) := by unfold noNl; infer_instance

theorem nlCount_append (a b : String) : nlCount (a ++ b) = nlCount a + nlCount b := by
  simp [nlCount, String.toList_append, List.count_append]

theorem nlCount_eq_zero {s : String} : nlCount s = 0 ↔ noNl s := by
  simp [nlCount, noNl, List.count_eq_zero]

theorem noNl_append {a b : String} : noNl (a ++ b) ↔ noNl a ∧ noNl b := by
  simp [noNl, String.toList_append]

theorem noNl_intercalate {sep : String} {l : List String} (hs : noNl sep) (hl : ∀ x ∈ l, noNl x) :
    noNl (sep.intercalate l) := by
  induction l with
  | nil => simp [String.intercalate_nil, noNl]
  | cons a t ih =>
    cases t with
    | nil => simpa [String.intercalate_singleton] using hl a (by simp)
    | cons b t =>
      rw [String.intercalate_cons_cons, noNl_append, noNl_append]
      exact ⟨⟨hl a (by simp), hs⟩, ih (fun x hx => hl x (by simp [hx]))⟩

theorem noNl_natRepr (n : Nat) : noNl (toString n) := by
  intro h
  rw [Nat.toString_eq_repr, Nat.toList_repr] at h
  have := Nat.isDigit_of_mem_toDigits (by decide) (by decide) h
  exact absurd this (by decide)

theorem noNl_intToString (i : Int) : noNl (toString i) := by
  show noNl i.repr
  cases i with
  | ofNat m => exact noNl_natRepr m
  | negSucc m =>
    show noNl ("-" ++ toString m.succ)
    rw [noNl_append]
    exact ⟨by decide, noNl_natRepr _⟩

/-! ### `mkComment` (C04: comments safe) -/

theorem mkComment_eq (s : String) :
    (mkComment s : Except Err (Stmt α)) = if containsSub s "*/" then .error .value else .ok (.comment s) := rfl

theorem mkComment_ok_iff (s : String) :
    (mkComment s : Except Err (Stmt α)) = .ok (.comment s) ↔ containsSub s "*/" = false := by
  unfold mkComment; cases containsSub s "*/" <;> simp

theorem mkComment_error_iff (s : String) :
    (mkComment s : Except Err (Stmt α)) = .error .value ↔ containsSub s "*/" = true := by
  unfold mkComment; cases containsSub s "*/" <;> simp

/-- The only successful result is the comment itself, the only error is `ValueError`. -/
theorem mkComment_ok_inv (s : String) (r : Except Err (Stmt α)) (h : mkComment s = r) :
    (r = .ok (.comment s) ∧ containsSub s "*/" = false) ∨ (r = .error .value ∧ containsSub s "*/" = true) := by
  subst h; unfold mkComment; cases containsSub s "*/" <;> simp

-- (`containsSub` goes through the well-founded `String.splitOnAux`, which `decide` cannot evaluate; the
--  characterisation `containsSub s sub = true ↔ sub.toList <:+: s.toList` and concrete instances of the three
--  theorems above are in `OSq/Proofs/SplitOn.lean`, which needs Batteries' string-position lemmas.)

/-! ### Arguments (C20: operands recognised by kind) -/

theorem showArg_qubit (fmt : α → String) (i : Int) : showArg fmt (.qubit i) = "q[" ++ toString i ++ "]" := rfl
theorem showArg_bit (fmt : α → String) (i : Int) : showArg fmt (.bit i) = "b[" ++ toString i ++ "]" := rfl
theorem showArg_int (fmt : α → String) (v : Int) : showArg fmt (.int v) = toString v := rfl
theorem showArg_float (fmt : α → String) (v : α) : showArg fmt (.float v) = fmt v := rfl

theorem noNl_showArg {fmt : α → String} (hfmt : ∀ x, noNl (fmt x)) (a : Arg α) : noNl (showArg fmt a) := by
  cases a with
  | qubit i =>
    rw [showArg_qubit, noNl_append, noNl_append]; exact ⟨⟨by decide, noNl_intToString i⟩, by decide⟩
  | bit i =>
    rw [showArg_bit, noNl_append, noNl_append]; exact ⟨⟨by decide, noNl_intToString i⟩, by decide⟩
  | int v => exact noNl_intToString v
  | float v => exact hfmt v

/-- rendered parameters: the non-qubit arguments, in argument order -/
def paramTexts (fmt : α → String) (nm : Named α) : List String :=
  (nm.args.filter (fun a => !isQubitArg a)).map (showArg fmt)
/-- rendered operands: the qubit arguments, in argument order -/
def qubitTexts (fmt : α → String) (nm : Named α) : List String :=
  (nm.args.filter isQubitArg).map (showArg fmt)

/-- every rendered operand is `q[i]` for the `i`-th … qubit argument, in order -/
theorem qubitTexts_eq (fmt : α → String) (nm : Named α) :
    qubitTexts fmt nm = nm.qubitArgs.map (fun i => "q[" ++ toString i ++ "]") := by
  unfold qubitTexts Named.qubitArgs
  induction nm.args with
  | nil => rfl
  | cons a t ih =>
    cases a with
    | qubit i =>
      simp only [List.filter_cons, isQubitArg, if_true, List.map_cons, List.filterMap_cons, ih]
      rfl
    | _ => simpa [isQubitArg, List.filter_cons] using ih

theorem noNl_paramTexts {fmt : α → String} (hfmt : ∀ x, noNl (fmt x)) (nm : Named α) :
    ∀ x ∈ paramTexts fmt nm, noNl x := by
  intro x hx
  simp only [paramTexts, List.mem_map] at hx
  obtain ⟨a, _, rfl⟩ := hx
  exact noNl_showArg hfmt a

theorem noNl_qubitTexts {fmt : α → String} (hfmt : ∀ x, noNl (fmt x)) (nm : Named α) :
    ∀ x ∈ qubitTexts fmt nm, noNl x := by
  intro x hx
  simp only [qubitTexts, List.mem_map] at hx
  obtain ⟨a, _, rfl⟩ := hx
  exact noNl_showArg hfmt a

/-! ### `writeStmt` (C20, C04) -/

/-- C20: a named gate is written as its name, the parenthesised comma-separated parameters (absent when there
    are none), a space, the comma-separated qubit operands and a newline.  Parameters are *all* non-qubit
    arguments in argument order, whatever their number, position and kind. -/
theorem writeStmt_gate_form (fmt : α → String) (anon : Gate α → String) (g : Gate α) (nm : Named α) :
    writeStmt fmt anon (.gate g (some nm)) =
      nm.name ++ (if paramTexts fmt nm = [] then "" else "(" ++ ", ".intercalate (paramTexts fmt nm) ++ ")")
        ++ " " ++ ", ".intercalate (qubitTexts fmt nm) ++ "\n" := by
  show (if (paramTexts fmt nm).isEmpty then nm.name
      else nm.name ++ "(" ++ ", ".intercalate (paramTexts fmt nm) ++ ")") ++ " "
      ++ ", ".intercalate (qubitTexts fmt nm) ++ "\n" = _
  cases h : paramTexts fmt nm with
  | nil => simp
  | cons a t => simp [String.append_assoc]

theorem writeStmt_measure_form (fmt : α → String) (anon : Gate α → String) (q b : Int) (ax : Vec3 α)
    (nm : Named α) :
    writeStmt fmt anon (.measure q b ax (some nm)) =
      showArg fmt (nm.args.getD 1 (.int 0)) ++ " = " ++ nm.name ++ " " ++ showArg fmt (nm.args.getD 0 (.int 0))
        ++ "\n" := rfl

theorem writeStmt_reset_form (fmt : α → String) (anon : Gate α → String) (q : Int) (nm : Named α) :
    writeStmt fmt anon (.reset q (some nm)) =
      nm.name ++ " " ++ showArg fmt (nm.args.getD 0 (.int 0)) ++ "\n" := rfl

theorem writeStmt_comment_form (fmt : α → String) (anon : Gate α → String) (s : String) :
    writeStmt fmt anon (.comment s) = "\n/* " ++ s ++ " */\n\n" := rfl

theorem writeStmt_anon_form (fmt : α → String) (anon : Gate α → String) (g : Gate α) :
    writeStmt fmt anon (.gate g none) = anon g ++ "\n" := rfl

-- non-vacuity: a gate with float, int parameters interleaved with its qubit operands
example : writeStmt (fun (x : Nat) => "<" ++ toString x ++ ">") (fun _ => "?")
    (.gate (.bsr 0 (0, 0, 1) 0 0) (some ⟨"CRk", [.qubit 1, .float 7, .qubit 0, .int (-3)]⟩))
    = "CRk(<7>, -3) q[1], q[0]\n" := by decide

private theorem noNl_lit {s : String} (h : s.toList.all (· != '\n') = true) : noNl s := by
  intro hm; simp only [List.all_eq_true] at h; simpa using h _ hm

/-- C04: every non-comment statement is rendered as one line: a newline-free body followed by one `"\n"`. -/
theorem writeStmt_one_line (fmt : α → String) (anon : Gate α → String)
    (hfmt : ∀ x, noNl (fmt x)) (hanon : ∀ g, noNl (anon g)) (s : Stmt α)
    (hname : ∀ nm, s.named = some nm → noNl nm.name) (hc : ∀ t, s ≠ .comment t) :
    ∃ body, writeStmt fmt anon s = body ++ "\n" ∧ noNl body := by
  cases s with
  | comment t => exact absurd rfl (hc t)
  | measure q b ax nm =>
    cases nm with
    | none => exact ⟨"<abstract_measure>", rfl, by decide⟩
    | some nm =>
      refine ⟨_, writeStmt_measure_form fmt anon q b ax nm, ?_⟩
      simp only [noNl_append]
      exact ⟨⟨⟨⟨noNl_showArg hfmt _, by decide⟩, hname nm rfl⟩, by decide⟩, noNl_showArg hfmt _⟩
  | reset q nm =>
    cases nm with
    | none => exact ⟨"<abstract_reset>", rfl, by decide⟩
    | some nm =>
      refine ⟨_, writeStmt_reset_form fmt anon q nm, ?_⟩
      simp only [noNl_append]
      exact ⟨⟨hname nm rfl, by decide⟩, noNl_showArg hfmt _⟩
  | gate g nm =>
    cases nm with
    | none => exact ⟨anon g, rfl, hanon g⟩
    | some nm =>
      refine ⟨_, writeStmt_gate_form fmt anon g nm, ?_⟩
      simp only [noNl_append]
      refine ⟨⟨⟨hname nm rfl, ?_⟩, by decide⟩, noNl_intercalate (by decide) (noNl_qubitTexts hfmt nm)⟩
      split
      · decide
      · simp only [noNl_append]
        exact ⟨⟨by decide, noNl_intercalate (by decide) (noNl_paramTexts hfmt nm)⟩, by decide⟩

theorem writeStmt_nlCount (fmt : α → String) (anon : Gate α → String)
    (hfmt : ∀ x, noNl (fmt x)) (hanon : ∀ g, noNl (anon g)) (s : Stmt α)
    (hname : ∀ nm, s.named = some nm → noNl nm.name) (hc : ∀ t, s ≠ .comment t) :
    nlCount (writeStmt fmt anon s) = 1 := by
  obtain ⟨body, h, hb⟩ := writeStmt_one_line fmt anon hfmt hanon s hname hc
  rw [h, nlCount_append, nlCount_eq_zero.2 hb]; decide

/-- A comment whose text has no newline is rendered with exactly three newlines, in the fixed pattern
    `"\n/* " ++ s ++ " */\n\n"` (`writeStmt_comment_form`). -/
theorem writeStmt_comment_nlCount (fmt : α → String) (anon : Gate α → String) (s : String) (hs : noNl s) :
    nlCount (writeStmt fmt anon (.comment s)) = 3 := by
  rw [writeStmt_comment_form, nlCount_append, nlCount_append, nlCount_eq_zero.2 hs]; decide

example : nlCount (writeStmt (fun (x : Nat) => toString x) (fun _ => "?")
    (.measure 2 0 (0, 0, 1) (some ⟨"measure", [.qubit 2, .bit 0]⟩))) = 1 :=
  writeStmt_nlCount _ _ (fun x => noNl_natRepr x) (fun _ => by decide) _
    (by intro nm h; cases h; decide) (by intro t h; cases h)

/-! ### `rstripNl` -/

theorem rstripNl_toList (s : String) :
    (rstripNl s).toList = (s.toList.reverse.dropWhile isWs).reverse := by
  simp only [rstripNl, String.toList_ofList]; rfl

/-- `rstripNl` only removes trailing whitespace. -/
theorem rstripNl_prefix (s : String) : ∃ t, s = rstripNl s ++ t ∧ t.toList.all isWs = true := by
  refine ⟨String.ofList (s.toList.reverse.takeWhile isWs).reverse, ?_, ?_⟩
  · apply String.toList_inj.1
    rw [String.toList_append, rstripNl_toList, String.toList_ofList, ← List.reverse_append,
      List.takeWhile_append_dropWhile, List.reverse_reverse]
  · rw [String.toList_ofList, List.all_reverse, List.all_takeWhile]

/-- `rstripNl` removes *all* trailing whitespace. -/
theorem rstripNl_no_trailing_ws (s : String) (c : Char) (h : (rstripNl s).toList.getLast? = some c) :
    isWs c = false := by
  rw [rstripNl_toList, List.getLast?_reverse] at h
  have := List.head?_dropWhile_not isWs s.toList.reverse
  rw [h] at this
  simpa using this

private theorem dropWhile_append_of_exists {β : Type} (p : β → Bool) (l₁ l₂ : List β)
    (h : ∃ a ∈ l₁, p a = false) : (l₁ ++ l₂).dropWhile p = l₁.dropWhile p ++ l₂ := by
  induction l₁ with
  | nil => simp at h
  | cons x xs ih =>
    simp only [List.cons_append, List.dropWhile_cons]
    cases hx : p x with
    | true =>
      simp only [if_true]
      apply ih
      obtain ⟨a, ha, hpa⟩ := h
      rcases List.mem_cons.1 ha with rfl | ha
      · rw [hx] at hpa; cases hpa
      · exact ⟨a, ha, hpa⟩
    | false => simp

/-- a text with some non-whitespace character protects everything before it -/
theorem rstripNl_append_ink (a b : String) (h : hasInk b) : rstripNl (a ++ b) = a ++ rstripNl b := by
  apply String.toList_inj.1
  obtain ⟨c, hc, hcw⟩ := h
  rw [String.toList_append, rstripNl_toList, rstripNl_toList, String.toList_append, List.reverse_append,
    dropWhile_append_of_exists isWs _ _ ⟨c, List.mem_reverse.2 hc, hcw⟩, List.reverse_append,
    List.reverse_reverse]

/-- trailing whitespace is removed -/
theorem rstripNl_append_ws (a t : String) (h : t.toList.all isWs = true) : rstripNl (a ++ t) = rstripNl a := by
  apply String.toList_inj.1
  rw [rstripNl_toList, rstripNl_toList, String.toList_append, List.reverse_append,
    List.dropWhile_append_of_pos]
  intro c hc
  exact List.all_eq_true.1 h c (List.mem_reverse.1 hc)

theorem noNl_rstripNl {s : String} (h : noNl s) : noNl (rstripNl s) := by
  obtain ⟨t, ht, _⟩ := rstripNl_prefix s
  rw [ht, noNl_append] at h; exact h.1

/-! ### `writeCircuit` (C04: one line per statement, none omitted) -/

/-- the cQASM 3 header -/
def v3Header (nq nb : Nat) : String :=
  "version 3.0\n\nqubit[" ++ toString nq ++ "] q\n" ++ (if nb > 0 then "bit[" ++ toString nb ++ "] b\n\n" else "\n")

/-- The output is the header followed by the renderings of *all* statements in order, right-stripped, plus
    one final newline. -/
theorem writeCircuit_lines (fmt : α → String) (anon : Gate α → String) (c : Circuit α) :
    writeCircuit fmt anon c =
      rstripNl (v3Header c.nQubits c.nBits ++ String.join (c.stmts.map (writeStmt fmt anon))) ++ "\n" := rfl

/-- Nothing but trailing whitespace is lost: the output is `body ++ "\n"` where `body` extended by some
    whitespace-only `t` is the header followed by every statement's rendering. -/
theorem writeCircuit_none_omitted (fmt : α → String) (anon : Gate α → String) (c : Circuit α) :
    ∃ body t, writeCircuit fmt anon c = body ++ "\n" ∧
      v3Header c.nQubits c.nBits ++ String.join (c.stmts.map (writeStmt fmt anon)) = body ++ t ∧
      t.toList.all isWs = true ∧ (∀ ch, body.toList.getLast? = some ch → isWs ch = false) := by
  obtain ⟨t, ht, hw⟩ := rstripNl_prefix (v3Header c.nQubits c.nBits ++ String.join (c.stmts.map (writeStmt fmt anon)))
  exact ⟨_, t, writeCircuit_lines fmt anon c, ht, hw, rstripNl_no_trailing_ws _⟩

/-- Each statement's rendering occurs, in statement order, as a segment of the un-stripped text. -/
theorem writeCircuit_stmt_segment (fmt : α → String) (anon : Gate α → String) (c : Circuit α)
    (pre post : List (Stmt α)) (s : Stmt α) (h : c.stmts = pre ++ s :: post) :
    v3Header c.nQubits c.nBits ++ String.join (c.stmts.map (writeStmt fmt anon)) =
      (v3Header c.nQubits c.nBits ++ String.join (pre.map (writeStmt fmt anon))) ++ writeStmt fmt anon s
        ++ String.join (post.map (writeStmt fmt anon)) := by
  rw [h, List.map_append, List.map_cons, String.join_append, String.join_cons]
  simp only [String.append_assoc]

theorem nlCount_join_of_one (l : List String) (h : ∀ x ∈ l, nlCount x = 1) : nlCount (String.join l) = l.length := by
  induction l with
  | nil => rfl
  | cons a t ih =>
    rw [String.join_cons, nlCount_append, h a (by simp), ih (fun x hx => h x (by simp [hx]))]
    simp [Nat.add_comm]

/-- One line per statement: if no statement is a comment, neither `fmt`, `anon` nor a statement name contains a
    newline, and the last statement's rendering has a non-whitespace character, then the number of newlines of
    the output is that of the header plus the number of statements. -/
theorem writeCircuit_nlCount (fmt : α → String) (anon : Gate α → String)
    (hfmt : ∀ x, noNl (fmt x)) (hanon : ∀ g, noNl (anon g)) (c : Circuit α)
    (hname : ∀ s ∈ c.stmts, ∀ nm, s.named = some nm → noNl nm.name)
    (hc : ∀ s ∈ c.stmts, ∀ t, s ≠ .comment t)
    (last : Stmt α) (hlast : c.stmts.getLast? = some last) (hink : hasInk (writeStmt fmt anon last)) :
    nlCount (writeCircuit fmt anon c) = nlCount (v3Header c.nQubits c.nBits) + c.stmts.length := by
  obtain ⟨pre, hpre⟩ : ∃ pre, c.stmts = pre ++ [last] := by
    rcases List.getLast?_eq_some_iff.1 hlast with ⟨pre, h⟩; exact ⟨pre, h⟩
  have hmem : last ∈ c.stmts := by rw [hpre]; simp
  obtain ⟨body, hb, hbn⟩ := writeStmt_one_line fmt anon hfmt hanon last (hname last hmem) (hc last hmem)
  have hinkb : hasInk body := by
    obtain ⟨ch, hch, hw⟩ := hink
    rw [hb, String.toList_append] at hch
    rcases List.mem_append.1 hch with h | h
    · exact ⟨ch, h, hw⟩
    · have : ch = '\n' := by simpa using h
      subst this; cases hw
  have hpre1 : ∀ x ∈ pre.map (writeStmt fmt anon), nlCount x = 1 := by
    intro x hx
    obtain ⟨s, hs, rfl⟩ := List.mem_map.1 hx
    have hm : s ∈ c.stmts := by rw [hpre]; simp [hs]
    exact writeStmt_nlCount fmt anon hfmt hanon s (hname s hm) (hc s hm)
  rw [writeCircuit_lines, writeCircuit_stmt_segment fmt anon c pre [] last hpre, hb]
  simp only [List.map_nil, String.join_nil, String.append_empty]
  rw [← String.append_assoc, rstripNl_append_ws _ "\n" (by decide), rstripNl_append_ink _ _ hinkb]
  simp only [nlCount_append]
  rw [nlCount_join_of_one _ hpre1, nlCount_eq_zero.2 (noNl_rstripNl hbn), hpre]
  simp [nlCount, Nat.add_assoc]

example : writeCircuit (fun (x : Nat) => toString x) (fun _ => "?")
    ⟨2, 1, [.gate (.bsr 0 (0, 0, 1) 0 0) (some ⟨"Rz", [.qubit 0, .float 3]⟩),
            .measure 0 0 (0, 0, 1) (some ⟨"measure", [.qubit 0, .bit 0]⟩)]⟩
    = "version 3.0\n\nqubit[2] q\nbit[1] b\n\nRz(3) q[0]\nb[0] = measure q[0]\n" := by decide

/-! ### The cQASM 1 exporter (C12) -/

theorem toLower_toList (s : String) : s.toLower.toList = s.toList.map Char.toLower := by
  simp [String.toLower, String.toList_map]

/-- named gate ↦ lower-cased name, the qubit operands, then the parameters, all comma separated -/
theorem exportV1Stmt_gate_form (fmt : α → String) (g : Gate α) (nm : Named α) :
    exportV1Stmt fmt (.gate g (some nm)) =
      .ok (nm.name.toLower ++ " " ++ ", ".intercalate (qubitTexts fmt nm) ++
        (if paramTexts fmt nm = [] then "" else ", " ++ ", ".intercalate (paramTexts fmt nm)) ++ "\n") := by
  show Except.ok (nm.name.toLower ++ " " ++ ", ".intercalate (qubitTexts fmt nm) ++
        (if (paramTexts fmt nm).isEmpty then "" else ", " ++ ", ".intercalate (paramTexts fmt nm)) ++ "\n") = _
  cases h : paramTexts fmt nm <;> simp

theorem exportV1Stmt_measure_form (fmt : α → String) (q b : Int) (ax : Vec3 α) (nm : Named α) :
    exportV1Stmt fmt (.measure q b ax (some nm)) =
      .ok ("measure_z " ++ showArg fmt (nm.args.getD 0 (.int 0)) ++ "\n") := rfl

theorem exportV1Stmt_reset_form (fmt : α → String) (q : Int) (nm : Named α) :
    exportV1Stmt fmt (.reset q (some nm)) = .ok ("prep_z " ++ showArg fmt (nm.args.getD 0 (.int 0)) ++ "\n") := rfl

theorem exportV1Stmt_comment_form (fmt : α → String) (s : String) :
    exportV1Stmt fmt (.comment s) = .ok ("\n/* " ++ s ++ " */\n\n") := rfl

/-- The exact failure cases of a statement: an anonymous gate (`UnsupportedGateError`), an abstract
    measure/reset (`TypeError`); nothing else fails. -/
theorem exportV1Stmt_error_iff (fmt : α → String) (s : Stmt α) (e : Err) :
    exportV1Stmt fmt s = .error e ↔
      (e = .unsupported ∧ ∃ g, s = .gate g none) ∨
      (e = .type ∧ ((∃ q b ax, s = .measure q b ax none) ∨ ∃ q, s = .reset q none)) := by
  cases s with
  | comment t => simp [exportV1Stmt]
  | measure q b ax nm => cases nm <;> simp [exportV1Stmt] <;> exact eq_comm
  | reset q nm => cases nm <;> simp [exportV1Stmt] <;> exact eq_comm
  | gate g nm => cases nm <;> simp [exportV1Stmt] <;> exact eq_comm

example : exportV1Stmt (fun (x : Nat) => toString x)
    (.gate (.bsr 0 (0, 0, 1) 0 0) (some ⟨"CRk", [.qubit 1, .int 4, .qubit 0]⟩)) = .ok "crk q[1], q[0], 4\n" := by
  have : "CRk".toLower = "crk" := by apply String.toList_inj.1; rw [toLower_toList]; decide
  simp only [exportV1Stmt, this]
  congr 1

section mapM
variable {β γ ε : Type}

theorem mapM_except_ok_iff (f : β → Except ε γ) (l : List β) (out : List γ) :
    l.mapM f = .ok out ↔ l.map f = out.map Except.ok := by
  induction l generalizing out with
  | nil => cases out <;> simp [pure, Except.pure]
  | cons a t ih =>
    rw [List.mapM_cons]
    cases ha : f a with
    | error e => cases out <;> simp [bind, Except.bind, ha]
    | ok b =>
      cases ht : t.mapM f with
      | error e =>
        have h1 : ∀ os : List γ, ¬ t.map f = os.map Except.ok := fun os h => by
          have := (ih os).2 h; rw [ht] at this; cases this
        cases out <;> simp [bind, Except.bind, ha, h1]
      | ok bs =>
        have h1 := (ih bs).1 ht
        cases out with
        | nil => simp [bind, Except.bind, pure, Except.pure]
        | cons o os =>
          simp only [bind, Except.bind, pure, Except.pure, Except.ok.injEq, List.cons.injEq, List.map_cons, ha]
          constructor
          · rintro ⟨rfl, rfl⟩; exact ⟨rfl, h1⟩
          · rintro ⟨hb, h⟩
            have h2 := (ih os).2 h
            rw [ht] at h2
            exact ⟨hb, Except.ok.inj h2⟩

/-- first error wins -/
theorem mapM_except_error_iff (f : β → Except ε γ) (l : List β) (e : ε) :
    l.mapM f = .error e ↔
      ∃ pre x post, l = pre ++ x :: post ∧ (∀ y ∈ pre, ∃ z, f y = .ok z) ∧ f x = .error e := by
  induction l with
  | nil => simp [pure, Except.pure]
  | cons a t ih =>
    rw [List.mapM_cons]
    cases ha : f a with
    | error e' =>
      simp only [bind, Except.bind, Except.error.injEq]
      constructor
      · rintro rfl; exact ⟨[], a, t, rfl, by simp, ha⟩
      · rintro ⟨pre, x, post, hl, hpre, hx⟩
        cases pre with
        | nil =>
          simp only [List.nil_append, List.cons.injEq] at hl
          obtain ⟨rfl, _⟩ := hl
          rw [ha] at hx; cases hx; rfl
        | cons p ps =>
          simp only [List.cons_append, List.cons.injEq] at hl
          obtain ⟨rfl, _⟩ := hl
          obtain ⟨z, hz⟩ := hpre a (by simp)
          rw [ha] at hz; cases hz
    | ok b =>
      cases ht : t.mapM f with
      | ok bs =>
        simp only [bind, Except.bind, pure, Except.pure, reduceCtorEq, false_iff]
        rintro ⟨pre, x, post, hl, hpre, hx⟩
        cases pre with
        | nil =>
          simp only [List.nil_append, List.cons.injEq] at hl
          obtain ⟨rfl, _⟩ := hl
          rw [ha] at hx; cases hx
        | cons p ps =>
          simp only [List.cons_append, List.cons.injEq] at hl
          obtain ⟨rfl, rfl⟩ := hl
          have := ih.2 ⟨ps, x, post, rfl, fun y hy => hpre y (by simp [hy]), hx⟩
          rw [ht] at this; cases this
      | error e' =>
        simp only [bind, Except.bind, Except.error.injEq]
        constructor
        · rintro rfl
          obtain ⟨pre, x, post, rfl, hpre, hx⟩ := ih.1 ht
          refine ⟨a :: pre, x, post, rfl, ?_, hx⟩
          intro y hy
          rcases List.mem_cons.1 hy with rfl | hy
          · exact ⟨b, ha⟩
          · exact hpre y hy
        · rintro ⟨pre, x, post, hl, hpre, hx⟩
          cases pre with
          | nil =>
            simp only [List.nil_append, List.cons.injEq] at hl
            obtain ⟨rfl, _⟩ := hl
            rw [ha] at hx; cases hx
          | cons p ps =>
            simp only [List.cons_append, List.cons.injEq] at hl
            obtain ⟨rfl, rfl⟩ := hl
            have := ih.2 ⟨ps, x, post, rfl, fun y hy => hpre y (by simp [hy]), hx⟩
            rw [ht] at this; cases this; rfl

end mapM

/-- the cQASM 1 header (`qubits N` is omitted for an empty register, as in the Python source) -/
def v1Header (nq : Nat) : String :=
  "version 1.0\n\n" ++ (if nq > 0 then "qubits " ++ toString nq else "") ++ "\n\n"

theorem v1Header_pos (nq : Nat) (h : 0 < nq) : v1Header nq = "version 1.0\n\nqubits " ++ toString nq ++ "\n\n" := by
  simp only [v1Header, h, if_true, String.append_assoc]
  rw [← String.append_assoc]
  congr 1

theorem exportV1_eq (fmt : α → String) (c : Circuit α) :
    exportV1 fmt c = (c.stmts.mapM (exportV1Stmt fmt)).map
      (fun lines => rstripNl (v1Header c.nQubits ++ String.join lines) ++ "\n") := by
  unfold exportV1
  cases c.stmts.mapM (exportV1Stmt fmt) <;> rfl

/-- C12: `exportV1` fails with `e` iff some statement fails with `e` and all earlier ones export
    (first error wins).  As the result is an `Except`, a failure carries no output at all. -/
theorem exportV1_error_iff (fmt : α → String) (c : Circuit α) (e : Err) :
    exportV1 fmt c = .error e ↔
      ∃ pre s post, c.stmts = pre ++ s :: post ∧ (∀ t ∈ pre, ∃ l, exportV1Stmt fmt t = .ok l) ∧
        exportV1Stmt fmt s = .error e := by
  rw [exportV1_eq, ← mapM_except_error_iff]
  cases c.stmts.mapM (exportV1Stmt fmt) <;> simp [Except.map]

/-- C12: an anonymous gate is refused with `UnsupportedGateError`. -/
theorem exportV1_anon_refused (fmt : α → String) (c : Circuit α) (pre post : List (Stmt α)) (g : Gate α)
    (h : c.stmts = pre ++ .gate g none :: post) (hpre : ∀ t ∈ pre, ∃ l, exportV1Stmt fmt t = .ok l) :
    exportV1 fmt c = .error .unsupported :=
  (exportV1_error_iff fmt c .unsupported).2 ⟨pre, _, post, h, hpre, rfl⟩

/-- C12: on success the output is the header, then one text per statement in order (as given by
    `exportV1Stmt_*_form`), right-stripped, plus a final newline. -/
theorem exportV1_ok_form (fmt : α → String) (c : Circuit α) (out : String) :
    exportV1 fmt c = .ok out ↔
      ∃ lines, c.stmts.map (exportV1Stmt fmt) = lines.map Except.ok ∧
        out = rstripNl (v1Header c.nQubits ++ String.join lines) ++ "\n" := by
  rw [exportV1_eq]
  cases h : c.stmts.mapM (exportV1Stmt fmt) with
  | error e =>
    simp only [Except.map, reduceCtorEq, false_iff]
    rintro ⟨lines, hl, _⟩
    rw [(mapM_except_ok_iff _ _ _).2 hl] at h; cases h
  | ok ls =>
    simp only [Except.map, Except.ok.injEq]
    have hls := (mapM_except_ok_iff _ _ _).1 h
    constructor
    · rintro rfl; exact ⟨ls, hls, rfl⟩
    · rintro ⟨lines, hl, rfl⟩
      have : ls = lines := by
        rw [(mapM_except_ok_iff _ _ _).2 hl] at h; cases h; rfl
      rw [this]

theorem exportV1_ok_iff_all_ok (fmt : α → String) (c : Circuit α) :
    (∃ out, exportV1 fmt c = .ok out) ↔ ∀ s ∈ c.stmts, ∃ l, exportV1Stmt fmt s = .ok l := by
  constructor
  · rintro ⟨out, h⟩ s hs
    obtain ⟨lines, hl, _⟩ := (exportV1_ok_form fmt c out).1 h
    have : exportV1Stmt fmt s ∈ lines.map Except.ok := hl ▸ List.mem_map_of_mem hs
    obtain ⟨l, _, hl⟩ := List.mem_map.1 this
    exact ⟨l, hl.symm⟩
  · intro h
    cases hr : exportV1 fmt c with
    | ok out => exact ⟨out, rfl⟩
    | error e =>
      obtain ⟨pre, s, post, hs, _, he⟩ := (exportV1_error_iff fmt c e).1 hr
      obtain ⟨l, hl⟩ := h s (by rw [hs]; simp)
      rw [hl] at he; cases he

example : exportV1 (fun (x : Nat) => toString x)
    ⟨2, 0, [.gate (.bsr 0 (0, 0, 1) 0 0) (some ⟨"H", [.qubit 0]⟩), .gate (.bsr 0 (0, 0, 1) 0 0) none,
            .reset 0 none]⟩ = .error .unsupported :=
  exportV1_anon_refused _ _ [.gate (.bsr 0 (0, 0, 1) 0 0) (some ⟨"H", [.qubit 0]⟩)] [.reset 0 none] _ rfl
    (by intro t ht; simp only [List.mem_singleton] at ht; subst ht; exact ⟨_, exportV1Stmt_gate_form _ _ _⟩)

example : exportV1 (fun (x : Nat) => toString x)
    ⟨2, 1, [.gate (.bsr 0 (0, 0, 1) 0 0) (some ⟨"Rz", [.qubit 0, .float 3]⟩),
            .measure 0 0 (0, 0, 1) (some ⟨"measure", [.qubit 0, .bit 0]⟩),
            .reset 1 (some ⟨"reset", [.qubit 1]⟩)]⟩
    = .ok "version 1.0\n\nqubits 2\n\nrz q[0], 3\nmeasure_z q[0]\nprep_z q[1]\n" := by
  have h : "Rz".toLower = "rz" := by apply String.toList_inj.1; rw [toLower_toList]; decide
  refine (exportV1_ok_form _ _ _).2 ⟨["rz q[0], 3\n", "measure_z q[0]\n", "prep_z q[1]\n"], ?_, by decide⟩
  simp only [List.map_cons, List.map_nil, exportV1Stmt, h, List.cons.injEq, Except.ok.injEq, and_true]
  decide

end OSq

#print axioms OSq.mkComment_ok_iff
#print axioms OSq.writeStmt_gate_form
#print axioms OSq.writeStmt_one_line
#print axioms OSq.writeStmt_comment_nlCount
#print axioms OSq.rstripNl_prefix
#print axioms OSq.rstripNl_no_trailing_ws
#print axioms OSq.writeCircuit_lines
#print axioms OSq.writeCircuit_none_omitted
#print axioms OSq.writeCircuit_nlCount
#print axioms OSq.exportV1Stmt_gate_form
#print axioms OSq.exportV1Stmt_error_iff
#print axioms OSq.exportV1_error_iff
#print axioms OSq.exportV1_anon_refused
#print axioms OSq.exportV1_ok_form
#print axioms OSq.exportV1_ok_iff_all_ok
