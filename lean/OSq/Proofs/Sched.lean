import OSq.Model.Sched
/-
  OSq.Proofs.Sched — structural theorems about the quantify-scheduler exporter `schedStmt` / `exportSched`
  (`OSq/Model/Sched.lean`, Python `exporter/quantify_scheduler_exporter.py`).  Property C11.
  Core Lean only; valid for every scalar type `α` with `[Scalar α]` and every tolerance `atol`.

  Specification vocabulary (all pure functions of the circuit)
  * `schedGateOp atol g : Option (SOp α)`     the operation a gate is exported to (`none` = unsupported gate);
    `bsrOp`, `ctrlOp`, `ctrlIs`         its cases for a rotation / a controlled rotation.
  * `measCount pre q`                   number of measurements of qubit `q` in the statement list `pre`.
  * `schedStmtOp atol pre s`                 the operation of statement `s` when `pre` are the statements before it
                                        (`none` for comments and unsupported gates).
  * `specOps atol stmts`                the operations of all statements, in order.
  * `bitSpec stmts b`                   `(i, q)` for the last measurement writing bit `b` (`q` its qubit, `i` the
                                        number of earlier measurements of `q`), `none` if nothing writes `b`.
  * `Unsupported atol s`, `BadIndex nq nb s`, `StmtOk atol nq nb s`   the refusal conditions.
  * `OpMatches s o`                     op `o` has the kind and the qubits of statement `s`.

  Theorems
  * `schedStmt_gate`, `schedStmt_measure`, `schedStmt_reset`, `schedStmt_comment`   one step, in spec vocabulary.
  * `schedGateOp_eq_none_iff`     the unsupported gates are exactly: matrix gates, controlled gates whose target is not a
                             rotation, controlled rotations that are neither `X` nor `Z` (per `bsrEq`), rotations whose
                             axis is neither in the xy-plane nor on the z-axis.
  * `exportSched_ok`         on success: `ops = specOps atol c.stmts`, `bm.length = c.nBits`,
                             `bm[b]? = some (bitSpec c.stmts b)` for `b < nBits`, and every statement is `StmtOk`.
  * `sched_ops_per_stmt`     `ops.length` = number of non-comment statements, and the `i`-th op is `schedStmtOp` of the
                             `i`-th non-comment statement, which `OpMatches` it (same kind, same qubits in place).
  * `schedStmtOp_matches`         `schedStmtOp atol pre s = some o → OpMatches s o`.
  * `acq_spec`               the op of a `measure q b` statement is `.measure q q.toNat k`, `(q.toNat : Int) = q`, and
                             `k` = number of earlier measurements of `q`.
  * `bitmap_spec`            `bm.length = nBits`; `bm[b] = some (i, q)` iff the last measurement writing `b` is on
                             qubit `q` and is the `i`-th measurement of `q`; `bm[b] = none` iff nothing writes `b`.
  * `bitSpec_eq_some_iff`, `bitSpec_eq_none_iff`   the declarative reading of `bitSpec`.
  * `sched_total`            `exportSched` fails with `e` iff the first statement that is not `StmtOk` is an
                             unsupported gate and `e = .exporter`, or an out-of-range measurement and `e = .index`.
  * `sched_ok_iff`           `exportSched` succeeds iff every statement is `StmtOk`.
  * `sched_nothing_dropped`  every non-comment statement of a successfully exported circuit yields an op.
  * `sched_rz_sign`, `sched_rxy`   the rotation cases: z-axis with `0 < z` ↦ `rz q (round5 (degrees θ))`,
                             with `¬ 0 < z` ↦ `rz q (round5 (degrees (-θ)))`; axis in the xy-plane ↦ `rxy`.
-/
namespace OSq
variable {α : Type} [Scalar α]

/-! ### Specification vocabulary -/

/-- the test `target == X(q)` / `target == Z(q)` of `visit_controlled_gate` -/
def ctrlIs (atol : α) (name : String) (tq : Int) (tax : Vec3 α) (tan tph : α) : Bool :=
  match named atol name [.qubit tq] with
  | .ok (.bsr q ax an ph, _) => bsrEq atol tq tax tan tph q ax an ph
  | _ => false

/-- operation of a rotation: `rxy` if the axis is in the xy-plane, `rz` if it is on the z-axis -/
def bsrOp (atol : α) (q : Int) (axis : Vec3 α) (angle : α) : Option (SOp α) :=
  if absS axis.2.2 < atol then
    some (.rxy q (round5 (degrees angle)) (round5 (degrees (Trig.atan2 axis.2.1 axis.1))))
  else if absS axis.1 < atol ∧ absS axis.2.1 < atol then
    some (.rz q (round5 (degrees (if zero < axis.2.2 then angle else -angle))))
  else none

/-- operation of a controlled rotation: `cnot` if the target is `X`, `cz` if it is `Z` -/
def ctrlOp (atol : α) (c tq : Int) (tax : Vec3 α) (tan tph : α) : Option (SOp α) :=
  if ctrlIs atol "X" tq tax tan tph then some (.cnot c tq)
  else if ctrlIs atol "Z" tq tax tan tph then some (.cz c tq)
  else none

/-- the operation a gate is exported to; `none` = unsupported -/
def schedGateOp (atol : α) : Gate α → Option (SOp α)
  | .bsr q axis angle _ => bsrOp atol q axis angle
  | .matrix _ _ => none
  | .ctrl c (.bsr tq tax tan tph) => ctrlOp atol c tq tax tan tph
  | .ctrl _ _ => none

def isMeasureOf (q : Int) : Stmt α → Bool
  | .measure q' _ _ _ => q' == q
  | _ => false

def writesBit (b : Int) : Stmt α → Bool
  | .measure _ b' _ _ => b' == b
  | _ => false

def isComment : Stmt α → Bool
  | .comment _ => true
  | _ => false

/-- number of measurements of qubit `q` among `pre` -/
def measCount (pre : List (Stmt α)) (q : Int) : Nat := pre.countP (isMeasureOf q)

/-- the operation of statement `s`, given the statements `pre` before it -/
def schedStmtOp (atol : α) (pre : List (Stmt α)) : Stmt α → Option (SOp α)
  | .comment _ => none
  | .gate g _ => schedGateOp atol g
  | .measure q _ _ _ => some (.measure q q.toNat (measCount pre q))
  | .reset q _ => some (.reset q)

def specOpsAux (atol : α) (pre : List (Stmt α)) : List (Stmt α) → List (SOp α)
  | [] => []
  | s :: rest => (schedStmtOp atol pre s).toList ++ specOpsAux atol (pre ++ [s]) rest

/-- the operations of all statements in order -/
def specOps (atol : α) (stmts : List (Stmt α)) : List (SOp α) := specOpsAux atol [] stmts

/-- on the *reversed* statement list: the first (= last in circuit order) measurement writing `b` -/
def lastWriteR (b : Int) : List (Stmt α) → Option (Nat × Nat)
  | [] => none
  | .measure q b' _ _ :: earlier =>
      if b' = b then some (measCount earlier.reverse q, q.toNat) else lastWriteR b earlier
  | .gate _ _ :: earlier => lastWriteR b earlier
  | .reset _ _ :: earlier => lastWriteR b earlier
  | .comment _ :: earlier => lastWriteR b earlier

/-- `(i, q)` for the last measurement writing bit `b`: its qubit `q` and the number `i` of earlier measurements
    of `q`; `none` if no measurement writes `b` -/
def bitSpec (stmts : List (Stmt α)) (b : Nat) : Option (Nat × Nat) := lastWriteR (b : Int) stmts.reverse

/-- an unsupported gate (`UnsupportedGateError`, re-raised as `ExporterError`) -/
def Unsupported (atol : α) (s : Stmt α) : Prop := ∃ g nm, s = .gate g nm ∧ schedGateOp atol g = none

/-- a measurement whose qubit or bit index is outside the registers (`IndexError`) -/
def BadIndex (nq nb : Nat) (s : Stmt α) : Prop :=
  ∃ q b ax nm, s = .measure q b ax nm ∧ ¬ (0 ≤ q ∧ q < nq ∧ 0 ≤ b ∧ b < nb)

/-- the statement is exported -/
def StmtOk (atol : α) (nq nb : Nat) : Stmt α → Prop
  | .gate g _ => schedGateOp atol g ≠ none
  | .measure q b _ _ => 0 ≤ q ∧ q < nq ∧ 0 ≤ b ∧ b < nb
  | _ => True

/-- op `o` has the kind of statement `s` and acts on the same qubits, in place -/
def OpMatches : Stmt α → SOp α → Prop
  | .gate (.bsr q _ _ _) _, .rxy q' _ _ => q' = q
  | .gate (.bsr q _ _ _) _, .rz q' _ => q' = q
  | .gate (.ctrl c (.bsr t _ _ _)) _, .cnot c' t' => c' = c ∧ t' = t
  | .gate (.ctrl c (.bsr t _ _ _)) _, .cz c' t' => c' = c ∧ t' = t
  | .measure q _ _ _, .measure q' ch _ => q' = q ∧ (ch : Int) = q
  | .reset q _, .reset q' => q' = q
  | _, _ => False

theorem stmtOk_iff (atol : α) (nq nb : Nat) (s : Stmt α) :
    StmtOk atol nq nb s ↔ ¬ Unsupported atol s ∧ ¬ BadIndex nq nb s := by
  cases s <;> simp [StmtOk, Unsupported, BadIndex]

/-! ### The unsupported gates -/

theorem bsrOp_eq_none_iff (atol : α) (q : Int) (axis : Vec3 α) (angle : α) :
    bsrOp atol q axis angle = none ↔
      ¬ absS axis.2.2 < atol ∧ ¬ (absS axis.1 < atol ∧ absS axis.2.1 < atol) := by
  unfold bsrOp
  by_cases h1 : absS axis.2.2 < atol
  · simp [h1]
  · by_cases h2 : absS axis.1 < atol ∧ absS axis.2.1 < atol
    · simp [h1, h2]
    · rw [if_neg h1, if_neg h2]; simp [h1, h2]

theorem ctrlOp_eq_none_iff (atol : α) (c tq : Int) (tax : Vec3 α) (tan tph : α) :
    ctrlOp atol c tq tax tan tph = none ↔
      ctrlIs atol "X" tq tax tan tph = false ∧ ctrlIs atol "Z" tq tax tan tph = false := by
  unfold ctrlOp
  cases ctrlIs atol "X" tq tax tan tph <;> cases ctrlIs atol "Z" tq tax tan tph <;> simp

/-- The unsupported gates are exactly: a matrix gate; a controlled gate whose target is not a rotation; a
    controlled rotation that is neither `X` nor `Z`; a rotation whose axis is neither in the xy-plane
    (`|z| < atol`) nor on the z-axis (`|x|, |y| < atol`). -/
theorem schedGateOp_eq_none_iff (atol : α) (g : Gate α) :
    schedGateOp atol g = none ↔
      (∃ m ops, g = .matrix m ops) ∨
      (∃ c t, g = .ctrl c t ∧ ∀ tq tax tan tph, t ≠ .bsr tq tax tan tph) ∨
      (∃ c tq tax tan tph, g = .ctrl c (.bsr tq tax tan tph) ∧
          ctrlIs atol "X" tq tax tan tph = false ∧ ctrlIs atol "Z" tq tax tan tph = false) ∨
      (∃ q axis angle phase, g = .bsr q axis angle phase ∧
          ¬ absS axis.2.2 < atol ∧ ¬ (absS axis.1 < atol ∧ absS axis.2.1 < atol)) := by
  cases g with
  | bsr q axis angle phase =>
    simp only [schedGateOp, bsrOp_eq_none_iff, reduceCtorEq, false_and, exists_false, false_or, Gate.bsr.injEq]
    constructor
    · intro h; exact ⟨q, axis, angle, phase, ⟨rfl, rfl, rfl, rfl⟩, h⟩
    · rintro ⟨_, _, _, _, ⟨rfl, rfl, rfl, rfl⟩, h⟩; exact h
  | matrix m ops => simp [schedGateOp]
  | ctrl c t =>
    cases t with
    | bsr tq tax tan tph =>
      simp only [schedGateOp, ctrlOp_eq_none_iff, reduceCtorEq, false_and, exists_false, false_or, or_false,
        Gate.ctrl.injEq, Gate.bsr.injEq]
      constructor
      · intro h; exact Or.inr ⟨c, tq, tax, tan, tph, ⟨rfl, rfl, rfl, rfl, rfl⟩, h⟩
      · rintro (⟨_, _, ⟨rfl, rfl⟩, h⟩ | ⟨_, _, _, _, _, ⟨rfl, rfl, rfl, rfl, rfl⟩, h⟩)
        · exact absurd rfl (h tq tax tan tph)
        · exact h
    | matrix m ops =>
      simp only [schedGateOp, true_iff]
      exact Or.inr (Or.inl ⟨c, _, rfl, by intro _ _ _ _ h; cases h⟩)
    | ctrl c' t' =>
      simp only [schedGateOp, true_iff]
      exact Or.inr (Or.inl ⟨c, _, rfl, by intro _ _ _ _ h; cases h⟩)

/-! ### One step -/

theorem schedStmt_comment (atol : α) (st : SchedState α) (t : String) :
    schedStmt atol st (.comment t) = .ok st := rfl

theorem schedStmt_reset (atol : α) (st : SchedState α) (q : Int) (nm : Option (Named α)) :
    schedStmt atol st (.reset q nm) = .ok { st with ops := .reset q :: st.ops } := rfl

theorem schedStmt_gate (atol : α) (st : SchedState α) (g : Gate α) (nm : Option (Named α)) :
    schedStmt atol st (.gate g nm) =
      match schedGateOp atol g with
      | some o => .ok { st with ops := o :: st.ops }
      | none => .error .exporter := by
  cases g with
  | bsr q axis angle phase =>
    simp only [schedStmt, schedGateOp, bsrOp]
    by_cases h1 : absS axis.2.2 < atol
    · simp [h1]
    · by_cases h2 : absS axis.1 < atol ∧ absS axis.2.1 < atol
      · simp [h1, h2]
      · rw [if_neg h1, if_neg h2, if_neg h1, if_neg h2]
  | matrix m ops => rfl
  | ctrl c t =>
    cases t with
    | bsr tq tax tan tph =>
      show (if ctrlIs atol "X" tq tax tan tph = true then _ else if ctrlIs atol "Z" tq tax tan tph = true then _
        else _) = _
      simp only [schedGateOp, ctrlOp]
      cases ctrlIs atol "X" tq tax tan tph <;> cases ctrlIs atol "Z" tq tax tan tph <;> simp
    | matrix m ops => rfl
    | ctrl c' t' => rfl

theorem schedStmt_measure (atol : α) (st : SchedState α) (q b : Int) (ax : Vec3 α) (nm : Option (Named α)) :
    schedStmt atol st (.measure q b ax nm) =
      if q < 0 ∨ b < 0 then .error .index
      else match st.acq[q.toNat]?, st.bitmap[b.toNat]? with
        | some k, some _ =>
          .ok { ops := .measure q q.toNat k :: st.ops
                acq := listSet st.acq q.toNat (k + 1)
                bitmap := listSet st.bitmap b.toNat (some (k, q.toNat)) }
        | _, _ => .error .index := rfl

/-- C11 (rotation about ±z): a rotation about `-z` is exported as the rotation about `+z` by the opposite angle. -/
theorem sched_rz_sign (atol : α) (st : SchedState α) (q : Int) (x y z θ φ : α) (nm : Option (Named α))
    (hz : ¬ absS z < atol) (hx : absS x < atol) (hy : absS y < atol) :
    (zero < z → schedStmt atol st (.gate (.bsr q (x, y, z) θ φ) nm) =
        .ok { st with ops := .rz q (round5 (degrees θ)) :: st.ops }) ∧
    (¬ zero < z → schedStmt atol st (.gate (.bsr q (x, y, z) θ φ) nm) =
        .ok { st with ops := .rz q (round5 (degrees (-θ))) :: st.ops }) := by
  constructor <;> intro h <;> simp [schedStmt, hz, hx, hy, h]

theorem sched_rxy (atol : α) (st : SchedState α) (q : Int) (x y z θ φ : α) (nm : Option (Named α))
    (hz : absS z < atol) :
    schedStmt atol st (.gate (.bsr q (x, y, z) θ φ) nm) =
      .ok { st with ops := .rxy q (round5 (degrees θ)) (round5 (degrees (Trig.atan2 y x))) :: st.ops } := by
  simp [schedStmt, hz]

/-! ### `listSet` -/

theorem listSet_eq_set {β : Type} (l : List β) (i : Nat) (y : β) : listSet l i y = l.set i y := by
  induction l generalizing i with
  | nil => rfl
  | cons x xs ih => cases i with
    | zero => rfl
    | succ n => simp [listSet, ih]

/-! ### Spec functions: snoc lemmas -/

theorem specOpsAux_snoc (atol : α) (pre l : List (Stmt α)) (s : Stmt α) :
    specOpsAux atol pre (l ++ [s]) = specOpsAux atol pre l ++ (schedStmtOp atol (pre ++ l) s).toList := by
  induction l generalizing pre with
  | nil => simp [specOpsAux]
  | cons a t ih => simp [specOpsAux, ih, List.append_assoc]

theorem specOps_snoc (atol : α) (l : List (Stmt α)) (s : Stmt α) :
    specOps atol (l ++ [s]) = specOps atol l ++ (schedStmtOp atol l s).toList := by
  simpa [specOps] using specOpsAux_snoc atol [] l s

omit [Scalar α] in
theorem measCount_snoc (pre : List (Stmt α)) (s : Stmt α) (q : Int) :
    measCount (pre ++ [s]) q = measCount pre q + (if isMeasureOf q s then 1 else 0) := by
  simp [measCount, List.countP_append, List.countP_cons]

omit [Scalar α] in
theorem bitSpec_snoc (pre : List (Stmt α)) (s : Stmt α) (b : Nat) :
    bitSpec (pre ++ [s]) b =
      match s with
      | .measure q b' _ _ => if b' = (b : Int) then some (measCount pre q, q.toNat) else bitSpec pre b
      | _ => bitSpec pre b := by
  unfold bitSpec
  rw [List.reverse_append, List.reverse_singleton, List.singleton_append]
  cases s <;> simp [lastWriteR]

/-! ### The loop invariant -/

/-- state reached after the statements `pre` -/
structure Inv (atol : α) (nq nb : Nat) (pre : List (Stmt α)) (st : SchedState α) : Prop where
  ops : st.ops.reverse = specOps atol pre
  acqLen : st.acq.length = nq
  acq : ∀ q : Nat, q < nq → st.acq[q]? = some (measCount pre (q : Int))
  bmLen : st.bitmap.length = nb
  bm : ∀ b : Nat, b < nb → st.bitmap[b]? = some (bitSpec pre b)
  ok : ∀ s ∈ pre, StmtOk atol nq nb s

theorem inv_init (atol : α) (nq nb : Nat) :
    Inv atol nq nb [] (⟨[], List.replicate nq 0, List.replicate nb none⟩ : SchedState α) where
  ops := rfl
  acqLen := by simp
  acq := by intro q hq; simp [hq, measCount]
  bmLen := by simp
  bm := by intro b hb; simp [hb, bitSpec, lastWriteR]
  ok := by simp

private theorem int_toNat_lt {q : Int} {n : Nat} (h0 : 0 ≤ q) : q.toNat < n ↔ q < n := by omega

/-- one step: either the statement is `StmtOk`, the step succeeds and the invariant is preserved, or the
    statement is not `StmtOk` and the step fails with the corresponding error. -/
theorem inv_step (atol : α) (nq nb : Nat) (pre : List (Stmt α)) (st : SchedState α)
    (hinv : Inv atol nq nb pre st) (s : Stmt α) :
    (StmtOk atol nq nb s ∧ ∃ st', schedStmt atol st s = .ok st' ∧ Inv atol nq nb (pre ++ [s]) st') ∨
    (Unsupported atol s ∧ schedStmt atol st s = .error .exporter) ∨
    (BadIndex nq nb s ∧ schedStmt atol st s = .error .index) := by
  have hok' : ∀ {s'}, StmtOk atol nq nb s' → ∀ t ∈ pre ++ [s'], StmtOk atol nq nb t := by
    intro s' hs t ht
    rcases List.mem_append.1 ht with h | h
    · exact hinv.ok t h
    · rw [List.mem_singleton.1 h]; exact hs
  cases s with
  | comment t =>
    refine Or.inl ⟨trivial, st, rfl, ?_⟩
    refine ⟨?_, hinv.acqLen, ?_, hinv.bmLen, ?_, hok' (s' := .comment t) trivial⟩
    · rw [specOps_snoc, hinv.ops]; simp [schedStmtOp]
    · intro q hq; rw [measCount_snoc, hinv.acq q hq]; simp [isMeasureOf]
    · intro b hb; rw [bitSpec_snoc, hinv.bm b hb]
  | reset q nm =>
    refine Or.inl ⟨trivial, _, schedStmt_reset atol st q nm, ?_⟩
    refine ⟨?_, hinv.acqLen, ?_, hinv.bmLen, ?_, hok' (s' := .reset q nm) trivial⟩
    · rw [specOps_snoc, ← hinv.ops]; simp [schedStmtOp]
    · intro q' hq; rw [measCount_snoc, hinv.acq q' hq]; simp [isMeasureOf]
    · intro b hb; rw [bitSpec_snoc, hinv.bm b hb]
  | gate g nm =>
    rw [schedStmt_gate]
    cases hg : schedGateOp atol g with
    | none => exact Or.inr (Or.inl ⟨⟨g, nm, rfl, hg⟩, rfl⟩)
    | some o =>
      have hsok : StmtOk atol nq nb (.gate g nm) := by simp [StmtOk, hg]
      refine Or.inl ⟨hsok, _, rfl, ?_⟩
      refine ⟨?_, hinv.acqLen, ?_, hinv.bmLen, ?_, hok' hsok⟩
      · rw [specOps_snoc, ← hinv.ops]; simp [schedStmtOp, hg]
      · intro q' hq; rw [measCount_snoc, hinv.acq q' hq]; simp [isMeasureOf]
      · intro b hb; rw [bitSpec_snoc, hinv.bm b hb]
  | measure q b ax nm =>
    rw [schedStmt_measure]
    by_cases hneg : q < 0 ∨ b < 0
    · rw [if_pos hneg]
      exact Or.inr (Or.inr ⟨⟨q, b, ax, nm, rfl, by omega⟩, rfl⟩)
    · rw [if_neg hneg]
      have hq0 : 0 ≤ q := by omega
      have hb0 : 0 ≤ b := by omega
      by_cases hr : q < nq ∧ b < nb
      · have hqn : q.toNat < nq := (int_toNat_lt hq0).2 hr.1
        have hbn : b.toNat < nb := (int_toNat_lt hb0).2 hr.2
        have hqq : ((q.toNat : Nat) : Int) = q := Int.toNat_of_nonneg hq0
        have hbb : ((b.toNat : Nat) : Int) = b := Int.toNat_of_nonneg hb0
        have hsok : StmtOk atol nq nb (.measure q b ax nm) := ⟨hq0, hr.1, hb0, hr.2⟩
        refine Or.inl ⟨hsok, ?_⟩
        rw [hinv.acq _ hqn, hinv.bm _ hbn]
        refine ⟨_, rfl, ?_⟩
        refine ⟨?_, ?_, ?_, ?_, ?_, hok' hsok⟩
        · show (_ :: st.ops).reverse = _
          rw [specOps_snoc, ← hinv.ops, hqq]; simp [schedStmtOp]
        · simp [listSet_eq_set, hinv.acqLen]
        · intro q' hq'
          simp only [listSet_eq_set, List.getElem?_set, hinv.acqLen, hqn, if_true]
          rw [measCount_snoc]
          by_cases he : q.toNat = q'
          · subst he; simp [isMeasureOf, hqq]
          · have : ¬ q = (q' : Int) := by omega
            simp [he, isMeasureOf, this, hinv.acq q' hq']
        · simp [listSet_eq_set, hinv.bmLen]
        · intro b' hb'
          simp only [listSet_eq_set, List.getElem?_set, hinv.bmLen, hbn, if_true]
          rw [bitSpec_snoc]
          by_cases he : b.toNat = b'
          · subst he; simp [hbb, hqq]
          · have : ¬ b = (b' : Int) := by omega
            simp [he, this, hinv.bm b' hb']
      · have hbad : BadIndex nq nb (.measure q b ax nm) := ⟨q, b, ax, nm, rfl, by omega⟩
        refine Or.inr (Or.inr ⟨hbad, ?_⟩)
        by_cases hq : q < nq
        · have hb : ¬ b < nb := fun h => hr ⟨hq, h⟩
          have hbn : st.bitmap[b.toNat]? = none := by
            apply List.getElem?_eq_none; rw [hinv.bmLen]; omega
          rw [hbn]
          cases st.acq[q.toNat]? <;> rfl
        · have hqn : st.acq[q.toNat]? = none := by
            apply List.getElem?_eq_none; rw [hinv.acqLen]; omega
          rw [hqn]

/-- the fold, from a state satisfying the invariant -/
theorem inv_fold (atol : α) (nq nb : Nat) (rest pre : List (Stmt α)) (st : SchedState α)
    (hinv : Inv atol nq nb pre st) :
    (∃ st', rest.foldlM (schedStmt atol) st = .ok st' ∧ Inv atol nq nb (pre ++ rest) st') ∨
    (∃ p s post e, rest = p ++ s :: post ∧ (∀ t ∈ p, StmtOk atol nq nb t) ∧
        ((Unsupported atol s ∧ e = .exporter) ∨ (BadIndex nq nb s ∧ e = .index)) ∧
        rest.foldlM (schedStmt atol) st = .error e) := by
  induction rest generalizing pre st with
  | nil => exact Or.inl ⟨st, rfl, by simpa using hinv⟩
  | cons s rest ih =>
    rw [List.foldlM_cons]
    rcases inv_step atol nq nb pre st hinv s with ⟨hs, st', hst, hinv'⟩ | ⟨hs, he⟩ | ⟨hs, he⟩
    · rw [hst]
      rcases ih (pre ++ [s]) st' hinv' with ⟨st'', h1, h2⟩ | ⟨p, s', post, e, h1, h2, h3, h4⟩
      · exact Or.inl ⟨st'', h1, by simpa [List.append_assoc] using h2⟩
      · refine Or.inr ⟨s :: p, s', post, e, by simp [h1], ?_, h3, h4⟩
        intro t ht
        rcases List.mem_cons.1 ht with rfl | ht
        · exact hs
        · exact h2 t ht
    · exact Or.inr ⟨[], s, rest, .exporter, rfl, by simp, Or.inl ⟨hs, rfl⟩, by rw [he]; rfl⟩
    · exact Or.inr ⟨[], s, rest, .index, rfl, by simp, Or.inr ⟨hs, rfl⟩, by rw [he]; rfl⟩

theorem exportSched_eq (atol : α) (c : Circuit α) :
    exportSched atol c =
      (c.stmts.foldlM (schedStmt atol) ⟨[], List.replicate c.nQubits 0, List.replicate c.nBits none⟩).map
        (fun st => (st.ops.reverse, st.bitmap)) := by
  simp only [exportSched, bind, Except.bind, pure, Except.pure, Except.map]

/-- the dichotomy behind all theorems below -/
theorem exportSched_cases (atol : α) (c : Circuit α) :
    (∃ bm, exportSched atol c = .ok (specOps atol c.stmts, bm) ∧ bm.length = c.nBits ∧
        (∀ b, b < c.nBits → bm[b]? = some (bitSpec c.stmts b)) ∧
        ∀ s ∈ c.stmts, StmtOk atol c.nQubits c.nBits s) ∨
    (∃ p s post e, c.stmts = p ++ s :: post ∧ (∀ t ∈ p, StmtOk atol c.nQubits c.nBits t) ∧
        ((Unsupported atol s ∧ e = .exporter) ∨ (BadIndex c.nQubits c.nBits s ∧ e = .index)) ∧
        exportSched atol c = .error e) := by
  rw [exportSched_eq]
  rcases inv_fold atol c.nQubits c.nBits c.stmts [] _ (inv_init atol c.nQubits c.nBits) with
    ⟨st', h1, h2⟩ | ⟨p, s, post, e, h1, h2, h3, h4⟩
  · refine Or.inl ⟨st'.bitmap, ?_, h2.bmLen, ?_, ?_⟩
    · rw [h1]; simp [Except.map, h2.ops]
    · simpa using h2.bm
    · simpa using h2.ok
  · exact Or.inr ⟨p, s, post, e, h1, h2, h3, by rw [h4]; rfl⟩

/-! ### Main theorems -/

/-- C11: on success the operations are `specOps` (one per non-comment statement, in order), the bit map has one
    entry per bit, equal to `bitSpec`, and every statement was supported and in range. -/
theorem exportSched_ok (atol : α) (c : Circuit α) (ops : List (SOp α)) (bm : List (Option (Nat × Nat)))
    (h : exportSched atol c = .ok (ops, bm)) :
    ops = specOps atol c.stmts ∧ bm.length = c.nBits ∧
      (∀ b, b < c.nBits → bm[b]? = some (bitSpec c.stmts b)) ∧
      ∀ s ∈ c.stmts, StmtOk atol c.nQubits c.nBits s := by
  rcases exportSched_cases atol c with ⟨bm', h1, h2, h3, h4⟩ | ⟨p, s, post, e, _, _, _, h4⟩
  · rw [h1] at h
    simp only [Except.ok.injEq, Prod.mk.injEq] at h
    obtain ⟨rfl, rfl⟩ := h
    exact ⟨rfl, h2, h3, h4⟩
  · rw [h4] at h; cases h

/-- C11 (unsupported statements raise): `exportSched` fails with `e` iff the first statement that is not
    exported is an unsupported gate (`e = .exporter`) or an out-of-range measurement (`e = .index`). -/
theorem sched_total (atol : α) (c : Circuit α) (e : Err) :
    exportSched atol c = .error e ↔
      ∃ p s post, c.stmts = p ++ s :: post ∧ (∀ t ∈ p, StmtOk atol c.nQubits c.nBits t) ∧
        ((Unsupported atol s ∧ e = .exporter) ∨ (BadIndex c.nQubits c.nBits s ∧ e = .index)) := by
  constructor
  · intro h
    rcases exportSched_cases atol c with ⟨bm', h1, _⟩ | ⟨p, s, post, e', h1, h2, h3, h4⟩
    · rw [h1] at h; cases h
    · rw [h4] at h; cases h
      exact ⟨p, s, post, h1, h2, h3⟩
  · rintro ⟨p, s, post, h1, h2, h3⟩
    rcases exportSched_cases atol c with ⟨bm', _, _, _, h4⟩ | ⟨p', s', post', e', h1', h2', h3', h4'⟩
    · have hs := (stmtOk_iff atol _ _ s).1 (h4 s (by rw [h1]; simp))
      rcases h3 with ⟨h, _⟩ | ⟨h, _⟩
      · exact absurd h hs.1
      · exact absurd h hs.2
    · -- both decompositions single out the first non-ok statement
      have key : ∀ (p p' : List (Stmt α)) (s s' : Stmt α) (post post' : List (Stmt α)),
          p ++ s :: post = p' ++ s' :: post' → (∀ t ∈ p, StmtOk atol c.nQubits c.nBits t) →
          ¬ StmtOk atol c.nQubits c.nBits s' → p.length ≤ p'.length := by
        intro p p' s s' post post' heq hp hs'
        apply Nat.le_of_not_lt
        intro hlt
        have : (p ++ s :: post)[p'.length]? = some s' := by rw [heq]; simp
        rw [List.getElem?_append_left hlt] at this
        exact hs' (hp s' (List.mem_of_getElem? this))
      have hns : ¬ StmtOk atol c.nQubits c.nBits s := by
        rw [stmtOk_iff]; rcases h3 with ⟨h, _⟩ | ⟨h, _⟩
        · exact fun hh => hh.1 h
        · exact fun hh => hh.2 h
      have hns' : ¬ StmtOk atol c.nQubits c.nBits s' := by
        rw [stmtOk_iff]; rcases h3' with ⟨h, _⟩ | ⟨h, _⟩
        · exact fun hh => hh.1 h
        · exact fun hh => hh.2 h
      have heq : p ++ s :: post = p' ++ s' :: post' := h1 ▸ h1'
      have hlen : p.length = p'.length :=
        Nat.le_antisymm (key p p' s s' post post' heq h2 hns') (key p' p s' s post' post heq.symm h2' hns)
      have hss : s = s' := by
        have h1 : (p ++ s :: post)[p.length]? = some s := by simp
        have h2 : (p' ++ s' :: post')[p.length]? = some s' := by rw [hlen]; simp
        rw [heq, h2] at h1; exact (Option.some.inj h1).symm
      subst hss
      rw [h4']
      have huniq : ∀ {e₁ e₂ : Err},
          ((Unsupported atol s ∧ e₁ = .exporter) ∨ (BadIndex c.nQubits c.nBits s ∧ e₁ = .index)) →
          ((Unsupported atol s ∧ e₂ = .exporter) ∨ (BadIndex c.nQubits c.nBits s ∧ e₂ = .index)) → e₁ = e₂ := by
        intro e₁ e₂ a b
        rcases a with ⟨⟨g, nm, rfl, _⟩, rfl⟩ | ⟨⟨q, b', ax, nm, rfl, _⟩, rfl⟩ <;>
          rcases b with ⟨⟨_, _, hh, _⟩, rfl⟩ | ⟨⟨_, _, _, _, hh, _⟩, rfl⟩ <;> first | rfl | cases hh
      rw [huniq h3' h3]

/-- `exportSched` succeeds iff every statement is supported and in range. -/
theorem sched_ok_iff (atol : α) (c : Circuit α) :
    (∃ r, exportSched atol c = .ok r) ↔ ∀ s ∈ c.stmts, StmtOk atol c.nQubits c.nBits s := by
  constructor
  · rintro ⟨⟨ops, bm⟩, h⟩; exact (exportSched_ok atol c ops bm h).2.2.2
  · intro h
    cases hr : exportSched atol c with
    | ok r => exact ⟨r, rfl⟩
    | error e =>
      obtain ⟨p, s, post, h1, _, h3⟩ := (sched_total atol c e).1 hr
      have hs := (stmtOk_iff atol _ _ s).1 (h s (by rw [h1]; simp))
      rcases h3 with ⟨h, _⟩ | ⟨h, _⟩
      · exact absurd h hs.1
      · exact absurd h hs.2

/-! ### Reading `specOps` -/

theorem schedStmtOp_isSome_iff (atol : α) (pre : List (Stmt α)) (s : Stmt α) (nq nb : Nat)
    (hs : StmtOk atol nq nb s) : (schedStmtOp atol pre s).isSome = !isComment s := by
  cases s with
  | gate g nm =>
    simp only [StmtOk] at hs
    cases hg : schedGateOp atol g with
    | none => exact absurd hg hs
    | some o => simp [schedStmtOp, hg, isComment]
  | _ => simp [schedStmtOp, isComment]

/-- the op of a statement has the statement's kind and qubits -/
theorem schedStmtOp_matches (atol : α) (pre : List (Stmt α)) (s : Stmt α) (o : SOp α) (nq nb : Nat)
    (hs : StmtOk atol nq nb s) (h : schedStmtOp atol pre s = some o) : OpMatches s o := by
  cases s with
  | comment t => simp [schedStmtOp] at h
  | reset q nm => simp only [schedStmtOp, Option.some.injEq] at h; subst h; simp [OpMatches]
  | measure q b ax nm =>
    simp only [schedStmtOp, Option.some.injEq] at h; subst h
    exact ⟨rfl, Int.toNat_of_nonneg hs.1⟩
  | gate g nm =>
    simp only [schedStmtOp] at h
    cases g with
    | matrix m ops => simp [schedGateOp] at h
    | bsr q axis angle phase =>
      simp only [schedGateOp, bsrOp] at h
      split at h
      · simp only [Option.some.injEq] at h; subst h; simp [OpMatches]
      · split at h
        · simp only [Option.some.injEq] at h; subst h; simp [OpMatches]
        · cases h
    | ctrl c t =>
      cases t with
      | matrix m ops => simp [schedGateOp] at h
      | ctrl c' t' => simp [schedGateOp] at h
      | bsr tq tax tan tph =>
        simp only [schedGateOp, ctrlOp] at h
        split at h
        · simp only [Option.some.injEq] at h; subst h; simp [OpMatches]
        · split at h
          · simp only [Option.some.injEq] at h; subst h; simp [OpMatches]
          · cases h

theorem specOpsAux_length (atol : α) (nq nb : Nat) (pre l : List (Stmt α))
    (hl : ∀ s ∈ l, StmtOk atol nq nb s) :
    (specOpsAux atol pre l).length = (l.filter (fun s => !isComment s)).length := by
  induction l generalizing pre with
  | nil => rfl
  | cons s rest ih =>
    have h1 := schedStmtOp_isSome_iff atol pre s nq nb (hl s (by simp))
    have h2 := ih (pre ++ [s]) (fun t ht => hl t (by simp [ht]))
    simp only [specOpsAux, List.length_append, h2, List.filter_cons]
    cases hc : isComment s <;> cases ho : schedStmtOp atol pre s <;> simp_all [Nat.add_comm]

/-- the op contributed by a statement sits at the position given by the number of non-comment statements
    before it -/
theorem specOpsAux_getElem (atol : α) (nq nb : Nat) (pre p post : List (Stmt α)) (s : Stmt α)
    (hl : ∀ t ∈ p, StmtOk atol nq nb t) (o : SOp α) (ho : schedStmtOp atol (pre ++ p) s = some o) :
    (specOpsAux atol pre (p ++ s :: post))[(p.filter (fun s => !isComment s)).length]? = some o := by
  induction p generalizing pre with
  | nil => simp only [List.append_nil] at ho; simp [specOpsAux, ho]
  | cons a t ih =>
    have h1 := schedStmtOp_isSome_iff atol pre a nq nb (hl a (by simp))
    have h2 := ih (pre ++ [a]) (fun u hu => hl u (by simp [hu])) (by simpa [List.append_assoc] using ho)
    simp only [List.cons_append, specOpsAux, List.filter_cons]
    cases hc : isComment a <;> cases hoa : schedStmtOp atol pre a <;> simp_all

/-- C11 (one operation per statement, in order; nothing dropped except comments).  On success the number of
    operations is the number of non-comment statements, and for every non-comment statement `s`, preceded by
    the statements `pre`, the operation at position "number of non-comment statements in `pre`" is the
    operation `schedStmtOp atol pre s` of `s`, which has the kind and the qubits of `s`. -/
theorem sched_ops_per_stmt (atol : α) (c : Circuit α) (ops : List (SOp α)) (bm : List (Option (Nat × Nat)))
    (h : exportSched atol c = .ok (ops, bm)) :
    ops.length = (c.stmts.filter (fun s => !isComment s)).length ∧
    ∀ pre s post, c.stmts = pre ++ s :: post → isComment s = false →
      ∃ o, schedStmtOp atol pre s = some o ∧ OpMatches s o ∧
        ops[(pre.filter (fun s => !isComment s)).length]? = some o := by
  obtain ⟨rfl, _, _, hok⟩ := exportSched_ok atol c ops bm h
  refine ⟨specOpsAux_length atol _ _ [] c.stmts hok, ?_⟩
  intro pre s post hc hs
  have hsok := hok s (by rw [hc]; simp)
  have hsome := schedStmtOp_isSome_iff atol pre s _ _ hsok
  rw [hs] at hsome
  obtain ⟨o, ho⟩ := Option.isSome_iff_exists.1 hsome
  refine ⟨o, ho, schedStmtOp_matches atol pre s o _ _ hsok ho, ?_⟩
  rw [specOps, hc]
  exact specOpsAux_getElem atol _ _ [] pre post s (fun t ht => hok t (by rw [hc]; simp [ht])) o (by simpa using ho)

/-- every non-comment statement yields an operation (`sched_ops_per_stmt`, second part, without the position) -/
theorem sched_nothing_dropped (atol : α) (c : Circuit α) (ops : List (SOp α)) (bm : List (Option (Nat × Nat)))
    (h : exportSched atol c = .ok (ops, bm)) (pre post : List (Stmt α)) (s : Stmt α)
    (hc : c.stmts = pre ++ s :: post) (hs : isComment s = false) :
    ∃ o ∈ ops, schedStmtOp atol pre s = some o := by
  obtain ⟨o, ho, _, hget⟩ := (sched_ops_per_stmt atol c ops bm h).2 pre s post hc hs
  exact ⟨o, List.mem_of_getElem? hget, ho⟩

/-- C11 (acquisition channel and index).  On success, the operation of a statement `measure q b` preceded by the
    statements `pre` is `.measure q ch k` with channel `ch = q` and index `k` = number of measurements of `q`
    in `pre`. -/
theorem acq_spec (atol : α) (c : Circuit α) (ops : List (SOp α)) (bm : List (Option (Nat × Nat)))
    (h : exportSched atol c = .ok (ops, bm)) (pre post : List (Stmt α)) (q b : Int) (ax : Vec3 α)
    (nm : Option (Named α)) (hc : c.stmts = pre ++ .measure q b ax nm :: post) :
    ∃ ch : Nat, (ch : Int) = q ∧
      ops[(pre.filter (fun s => !isComment s)).length]? = some (.measure q ch (measCount pre q)) := by
  obtain ⟨o, ho, hm, hget⟩ := (sched_ops_per_stmt atol c ops bm h).2 pre _ post hc rfl
  simp only [schedStmtOp, Option.some.injEq] at ho
  subst ho
  exact ⟨q.toNat, hm.2, hget⟩

/-! ### Reading `bitSpec` -/

omit [Scalar α] in
theorem lastWriteR_append_noWrite (b : Int) (l r : List (Stmt α)) (h : ∀ s ∈ l, writesBit b s = false) :
    lastWriteR b (l ++ r) = lastWriteR b r := by
  induction l with
  | nil => rfl
  | cons a t ih =>
    have ha := h a (by simp)
    have ht := ih (fun s hs => h s (by simp [hs]))
    cases a with
    | measure q b' ax nm =>
      have : ¬ b' = b := by simpa [writesBit] using ha
      simp [lastWriteR, this, ht]
    | _ => simp [lastWriteR, ht]

omit [Scalar α] in
theorem lastWriteR_eq_none_iff (b : Int) (l : List (Stmt α)) :
    lastWriteR b l = none ↔ ∀ s ∈ l, writesBit b s = false := by
  induction l with
  | nil => simp [lastWriteR]
  | cons a t ih =>
    cases a with
    | measure q b' ax nm =>
      by_cases hb : b' = b
      · simp [lastWriteR, hb, writesBit]
      · simp [lastWriteR, hb, writesBit, ih]
    | _ => simp [lastWriteR, writesBit, ih]

omit [Scalar α] in
theorem lastWriteR_eq_some (b : Int) (l : List (Stmt α)) (r : Nat × Nat) (h : lastWriteR b l = some r) :
    ∃ later q ax nm earlier, l = later ++ .measure q b ax nm :: earlier ∧
      (∀ s ∈ later, writesBit b s = false) ∧ r = (measCount earlier.reverse q, q.toNat) := by
  induction l with
  | nil => simp [lastWriteR] at h
  | cons a t ih =>
    have step : lastWriteR b t = some r → writesBit b a = false →
        ∃ later q ax nm earlier, a :: t = later ++ .measure q b ax nm :: earlier ∧
          (∀ s ∈ later, writesBit b s = false) ∧ r = (measCount earlier.reverse q, q.toNat) := fun h' ha => by
      obtain ⟨later, q, ax, nm, earlier, h1, h2, h3⟩ := ih h'
      refine ⟨a :: later, q, ax, nm, earlier, by simp [h1], ?_, h3⟩
      intro s hs; rcases List.mem_cons.1 hs with rfl | hs
      · exact ha
      · exact h2 s hs
    cases a with
    | measure q b' ax nm =>
      by_cases hb : b' = b
      · subst hb
        simp only [lastWriteR, if_true, Option.some.injEq] at h
        exact ⟨[], q, ax, nm, t, rfl, by simp, h.symm⟩
      · simp only [lastWriteR, hb, if_false] at h
        exact step h (by simp [writesBit, hb])
    | gate g nm => exact step (by simpa [lastWriteR] using h) rfl
    | reset q nm => exact step (by simpa [lastWriteR] using h) rfl
    | comment s => exact step (by simpa [lastWriteR] using h) rfl

omit [Scalar α] in
/-- `bitSpec stmts b = none` iff no measurement writes bit `b`. -/
theorem bitSpec_eq_none_iff (stmts : List (Stmt α)) (b : Nat) :
    bitSpec stmts b = none ↔ ∀ s ∈ stmts, writesBit (b : Int) s = false := by
  simp [bitSpec, lastWriteR_eq_none_iff]

omit [Scalar α] in
/-- `bitSpec stmts b = some (i, qn)` iff the last measurement writing bit `b` is on a qubit `q` with
    `q.toNat = qn` and `i` measurements of `q` precede it. -/
theorem bitSpec_eq_some_iff (stmts : List (Stmt α)) (b : Nat) (i qn : Nat) :
    bitSpec stmts b = some (i, qn) ↔
      ∃ pre q ax nm post, stmts = pre ++ .measure q (b : Int) ax nm :: post ∧
        (∀ s ∈ post, writesBit (b : Int) s = false) ∧ i = measCount pre q ∧ qn = q.toNat := by
  constructor
  · intro h
    obtain ⟨later, q, ax, nm, earlier, h1, h2, h3⟩ := lastWriteR_eq_some _ _ _ h
    refine ⟨earlier.reverse, q, ax, nm, later.reverse, ?_, ?_, ?_, ?_⟩
    · have := congrArg List.reverse h1
      simpa using this
    · intro s hs; exact h2 s (List.mem_reverse.1 hs)
    · exact (Prod.mk.inj h3).1
    · exact (Prod.mk.inj h3).2
  · rintro ⟨pre, q, ax, nm, post, rfl, h2, rfl, rfl⟩
    unfold bitSpec
    rw [List.reverse_append, List.reverse_cons, List.append_assoc,
      lastWriteR_append_noWrite _ _ _ (fun s hs => h2 s (List.mem_reverse.1 hs))]
    simp [lastWriteR]

/-- C11 (bit map).  On success the bit map has one entry per bit; entry `b` is `some (i, q)` iff the last
    measurement writing bit `b` measures qubit `q` and is the `i`-th (0-based) measurement of `q`; it is `none`
    iff no measurement writes `b`. -/
theorem bitmap_spec (atol : α) (c : Circuit α) (ops : List (SOp α)) (bm : List (Option (Nat × Nat)))
    (h : exportSched atol c = .ok (ops, bm)) :
    bm.length = c.nBits ∧
    ∀ b, b < c.nBits →
      (∀ i qn, bm[b]? = some (some (i, qn)) ↔
        ∃ pre q ax nm post, c.stmts = pre ++ .measure q (b : Int) ax nm :: post ∧
          (∀ s ∈ post, writesBit (b : Int) s = false) ∧ i = measCount pre q ∧ (qn : Int) = q) ∧
      (bm[b]? = some none ↔ ∀ s ∈ c.stmts, writesBit (b : Int) s = false) := by
  obtain ⟨_, hlen, hbm, hok⟩ := exportSched_ok atol c ops bm h
  refine ⟨hlen, fun b hb => ⟨fun i qn => ?_, ?_⟩⟩
  · rw [hbm b hb, Option.some.injEq, bitSpec_eq_some_iff]
    constructor
    · rintro ⟨pre, q, ax, nm, post, h1, h2, h3, h4⟩
      have hq : 0 ≤ q := (hok (.measure q b ax nm) (by rw [h1]; simp)).1
      exact ⟨pre, q, ax, nm, post, h1, h2, h3, by rw [h4]; exact Int.toNat_of_nonneg hq⟩
    · rintro ⟨pre, q, ax, nm, post, h1, h2, h3, h4⟩
      exact ⟨pre, q, ax, nm, post, h1, h2, h3, by omega⟩
  · rw [hbm b hb, Option.some.injEq, bitSpec_eq_none_iff]

/-! ### Non-vacuity: a concrete circuit (any scalar type, any tolerance) -/
section examples
variable (atol : α) (ax : Vec3 α)

/-- `measure q[0] → b[1]; /* c */; measure q[0] → b[0]; reset q[1]` on 2 qubits, 2 bits -/
def exCircuit : Circuit α :=
  ⟨2, 2, [.measure 0 1 ax none, .comment "c", .measure 0 0 ax none, .reset 1 none]⟩

theorem exCircuit_export : exportSched atol (exCircuit ax) =
    .ok ([.measure 0 0 0, .measure 0 0 1, .reset 1], [some (1, 0), some (0, 0)]) := rfl

-- three operations for four statements, one of which is a comment
example : ([.measure 0 0 0, .measure 0 0 1, .reset 1] : List (SOp α)).length =
    ((exCircuit ax).stmts.filter (fun s => !isComment s)).length :=
  (sched_ops_per_stmt atol (exCircuit ax) _ _ (exCircuit_export atol ax)).1

-- the second measurement of qubit 0 gets acquisition index 1
example : ∃ ch : Nat, (ch : Int) = 0 ∧
    ([.measure 0 0 0, .measure 0 0 1, .reset 1] : List (SOp α))[1]? =
      some (.measure 0 ch (measCount [.measure 0 1 ax none, .comment "c"] 0)) :=
  acq_spec atol (exCircuit ax) _ _ (exCircuit_export atol ax)
    [.measure 0 1 ax none, .comment "c"] [.reset 1 none] 0 0 ax none rfl

example : measCount ([.measure 0 1 ax none, .comment "c"] : List (Stmt α)) 0 = 1 := rfl

-- bit 0 is written by the second measurement of qubit 0, bit 1 by the first
example : bitSpec (exCircuit ax).stmts 0 = some (1, 0) ∧ bitSpec (exCircuit ax).stmts 1 = some (0, 0) :=
  ⟨rfl, rfl⟩

example := bitmap_spec atol (exCircuit ax) _ _ (exCircuit_export atol ax)

-- a matrix gate is refused with `ExporterError`, an out-of-range measurement with `IndexError`
example (m : Mat α) : exportSched atol ⟨2, 0, [.reset 0 none, .gate (.matrix m [0, 1]) none]⟩ = .error .exporter :=
  (sched_total atol _ _).2 ⟨[.reset 0 none], _, [], rfl, by simp [StmtOk],
    Or.inl ⟨⟨_, _, rfl, rfl⟩, rfl⟩⟩

example : exportSched atol ⟨2, 1, [.measure 1 1 ax none]⟩ = .error .index :=
  (sched_total atol _ _).2 ⟨[], _, [], rfl, by simp, Or.inr ⟨⟨1, 1, ax, none, rfl, by simp⟩, rfl⟩⟩

end examples

end OSq

#print axioms OSq.schedGateOp_eq_none_iff
#print axioms OSq.exportSched_ok
#print axioms OSq.sched_ops_per_stmt
#print axioms OSq.acq_spec
#print axioms OSq.bitmap_spec
#print axioms OSq.bitSpec_eq_some_iff
#print axioms OSq.sched_total
#print axioms OSq.sched_ok_iff
#print axioms OSq.sched_nothing_dropped
#print axioms OSq.sched_rz_sign
#print axioms OSq.sched_rxy
