import OSq.Proofs.Expander
import OSq.Sem.RealScalar
/-
  OSq.Proofs.Kron — property C08: numpy's `np.kron(np.kron(np.eye(2^(n-q-1)), U), np.eye(2^q))`
  (Python `utils/matrix_expander.py`, `visit_bloch_sphere_rotation`) is the closed `div/mod` entry
  formula that the model uses in `expand n (.bsr q …)` (`OSq/Model/Matrix.lean`).

  The index part is generic in the scalar `α`; the only arithmetic facts used are the unit laws of
  `Cx α` multiplication against the literal `Cx.one` / `Cx.zero` (structure `CxUnitLaws`).  They
  hold at `ℝ` (`cxUnitLaws_real`); at `Float` they hold for finite non-NaN entries up to the sign of
  zero (`0 * inf = NaN`, `(-0) - 0*(−y) = +0`): numpy's `kron` does perform these multiplications, so
  for a `U` with NaN/inf entries numpy's result has NaN where the closed formula has `0`.

  Definitions
  * `kronM a b`           Kronecker product as numpy computes it:
                          `(a ⊗ b)[r, c] = a[r / b.n, c / b.n] * b[r % b.n, c % b.n]`, dimension `a.n * b.n`
  * `CxUnitLaws α`        `1 * x = x`, `0 * x = 0`, `x * 1 = x`, `x * 0 = 0` on `Cx α`
  * `kronBSR n q u`       `kronM (kronM (Mat.identity (2^(n-q-1))) u) (Mat.identity (2^q))`

  Theorems
  * `kronM_n`, `kronM_size`, `get_kronM`    dimension, storage size and entries of `kronM`
  * `kron_dim`              `2^(n-q-1) * 2 * 2^q = 2^n` for `q < n`
  * `kron_eye_U_eye`        (any `α` with `CxUnitLaws`) for `q < n`, `u.n = 2`: `kronBSR n q u` has dimension `2^n`,
                            full storage, and entry `(r, c)` (`r, c < 2^n`) equal to the model's closed formula
                            `if r % 2^q = c % 2^q ∧ r / (2*2^q) = c / (2*2^q) then u[(r/2^q)%2, (c/2^q)%2] else 0`
  * `kron_eye_U_eye_embed1` … hence `IsMat n (kronBSR n q u) (embed1 n q u)` (bit-level embedding of `Expander.lean`)
  * `expand_bsr_eq_kron`    (any `α` with `CxUnitLaws`) `expand n (.bsr q axis angle phase) = .ok M →
                            M = kronBSR n q.toNat (can1 axis angle phase)` (equality of containers)
  * `cxUnitLaws_real`       the unit laws at `ℝ`
  * `expand_bsr_kron_real`  at `ℝ`: `expand n (.bsr q …) = .ok M → M.n = (kron).n ∧ ∀ r c < 2^n, M.get r c = (kron).get r c`
  * `expand_bsr_eq_kron_real` at `ℝ`: `M = kronBSR …`
-/
namespace OSq
variable {α : Type} [Scalar α]

/-- `np.kron(a, b)` for square matrices: block `(r / b.n, c / b.n)` of the result is `a[·,·] * b`. -/
def kronM (a b : Mat α) : Mat α :=
  Mat.ofFn (a.n * b.n) fun r c => a.get (r / b.n) (c / b.n) * b.get (r % b.n) (c % b.n)

/-- the register matrix of a rotation as `visit_bloch_sphere_rotation` builds it -/
def kronBSR (n q : Nat) (u : Mat α) : Mat α :=
  kronM (kronM (Mat.identity (2 ^ (n - q - 1))) u) (Mat.identity (2 ^ q))

/-- unit laws of complex multiplication against the literals `Cx.one`, `Cx.zero` -/
structure CxUnitLaws (α : Type) [Scalar α] : Prop where
  one_mul : ∀ x : Cx α, Cx.one * x = x
  zero_mul : ∀ x : Cx α, Cx.zero * x = Cx.zero
  mul_one : ∀ x : Cx α, x * Cx.one = x
  mul_zero : ∀ x : Cx α, x * Cx.zero = Cx.zero

@[simp] theorem kronM_n (a b : Mat α) : (kronM a b).n = a.n * b.n := rfl

@[simp] theorem kronM_size (a b : Mat α) : (kronM a b).d.size = (a.n * b.n) * (a.n * b.n) :=
  Mat.ofFn_size _ _

theorem get_kronM (a b : Mat α) {r c : Nat} (hr : r < a.n * b.n) (hc : c < a.n * b.n) :
    (kronM a b).get r c = a.get (r / b.n) (c / b.n) * b.get (r % b.n) (c % b.n) :=
  Mat.get_ofFn hr hc

/-- the shape check of `visit_bloch_sphere_rotation` (`result.shape != (1 << n, 1 << n)`) never fires -/
theorem kron_dim {n q : Nat} (hq : q < n) : 2 ^ (n - q - 1) * 2 * 2 ^ q = 2 ^ n := by
  rw [← Nat.pow_succ, ← Nat.pow_add]
  congr 1
  omega

theorem kronBSR_n {n q : Nat} (hq : q < n) (u : Mat α) (hu : u.n = 2) : (kronBSR n q u).n = 2 ^ n := by
  simp only [kronBSR, kronM_n, Mat.identity_n, hu]
  exact kron_dim hq

/-- **C08**: numpy's `kron(kron(eye(2^(n-q-1)), u), eye(2^q))` is the model's closed `div/mod` formula. -/
theorem kron_eye_U_eye (L : CxUnitLaws α) {n q : Nat} (hq : q < n) (u : Mat α) (hu : u.n = 2) :
    (kronBSR n q u).n = 2 ^ n ∧ (kronBSR n q u).d.size = 2 ^ n * 2 ^ n ∧
    ∀ r c, r < 2 ^ n → c < 2 ^ n →
      (kronBSR n q u).get r c =
        if r % 2 ^ q = c % 2 ^ q ∧ r / (2 * 2 ^ q) = c / (2 * 2 ^ q)
        then u.get ((r / 2 ^ q) % 2) ((c / 2 ^ q) % 2) else Cx.zero := by
  have hdim := kron_dim hq
  refine ⟨kronBSR_n hq u hu, ?_, ?_⟩
  · simp only [kronBSR, kronM_size, kronM_n, Mat.identity_n, hu, hdim]
  · intro r c hr hc
    have hlo : 0 < 2 ^ q := Nat.two_pow_pos q
    -- outer product
    have hr' : r < (kronM (Mat.identity (2 ^ (n - q - 1)) : Mat α) u).n * (Mat.identity (2 ^ q) : Mat α).n := by
      simp only [kronM_n, Mat.identity_n, hu, hdim]; exact hr
    have hc' : c < (kronM (Mat.identity (2 ^ (n - q - 1)) : Mat α) u).n * (Mat.identity (2 ^ q) : Mat α).n := by
      simp only [kronM_n, Mat.identity_n, hu, hdim]; exact hc
    unfold kronBSR
    rw [get_kronM _ _ hr' hc']
    simp only [Mat.identity_n]
    -- inner product
    have hrd : r / 2 ^ q < 2 ^ (n - q - 1) * 2 := by
      rw [Nat.div_lt_iff_lt_mul hlo, hdim]; exact hr
    have hcd : c / 2 ^ q < 2 ^ (n - q - 1) * 2 := by
      rw [Nat.div_lt_iff_lt_mul hlo, hdim]; exact hc
    have hr2 : r / 2 ^ q < (Mat.identity (2 ^ (n - q - 1)) : Mat α).n * u.n := by
      simp only [Mat.identity_n, hu]; exact hrd
    have hc2 : c / 2 ^ q < (Mat.identity (2 ^ (n - q - 1)) : Mat α).n * u.n := by
      simp only [Mat.identity_n, hu]; exact hcd
    rw [get_kronM _ _ hr2 hc2, hu]
    have hrh : r / 2 ^ q / 2 < 2 ^ (n - q - 1) := by omega
    have hch : c / 2 ^ q / 2 < 2 ^ (n - q - 1) := by omega
    rw [Mat.get_identity hrh hch,
      Mat.get_identity (Nat.mod_lt _ hlo) (Nat.mod_lt _ hlo),
      Nat.div_div_eq_div_mul, Nat.div_div_eq_div_mul, Nat.mul_comm (2 ^ q) 2]
    by_cases h1 : r / (2 * 2 ^ q) = c / (2 * 2 ^ q)
    · by_cases h2 : r % 2 ^ q = c % 2 ^ q
      · rw [if_pos h1, if_pos h2, if_pos ⟨h2, h1⟩, L.one_mul, L.mul_one]
      · rw [if_pos h1, if_neg h2, if_neg (fun h => h2 h.1), L.one_mul, L.mul_zero]
    · by_cases h2 : r % 2 ^ q = c % 2 ^ q
      · rw [if_neg h1, if_pos h2, if_neg (fun h => h1 h.2), L.zero_mul, L.mul_one]
      · rw [if_neg h1, if_neg h2, if_neg (fun h => h1 h.2), L.zero_mul, L.mul_zero]

/-- … hence the kron formulation is the bit-level single-qubit embedding of `Expander.lean`. -/
theorem kron_eye_U_eye_embed1 (L : CxUnitLaws α) {n q : Nat} (hq : q < n) (u : Mat α) (hu : u.n = 2) :
    IsMat n (kronBSR n q u) (embed1 n q u) := by
  obtain ⟨h1, h2, h3⟩ := kron_eye_U_eye L hq u hu
  refine ⟨h1, h2, ?_⟩
  intro r c hr hc
  rw [h3 r c hr hc]
  unfold embed1
  rw [bitOf_eq_div_mod, bitOf_eq_div_mod]
  by_cases h : agreeOff n [q] r c
  · rw [if_pos h, if_pos ((agreeOff_single_iff hr hc).mpr h)]
  · rw [if_neg h, if_neg (fun h' => h ((agreeOff_single_iff hr hc).mp h'))]

theorem can1_n' (axis : Vec3 α) (angle phase : α) : (can1 axis angle phase).n = 2 := rfl

/-- the model's rotation matrix **is** (as a container) the numpy `kron` expression -/
theorem expand_bsr_eq_kron (L : CxUnitLaws α) {n : Nat} {q : Int} {axis : Vec3 α} {angle phase : α}
    {M : Mat α} (h : expand n (.bsr q axis angle phase) = .ok M) :
    M = kronBSR n q.toNat (can1 axis angle phase) := by
  have h1 : ¬ (q ≥ (n : Int)) := by
    intro hge; simp [expand, hge] at h
  have h2 : ¬ (q < 0) := by
    intro hlt; simp [expand, h1, hlt] at h
  have hq : q.toNat < n := by omega
  obtain ⟨k1, k2, k3⟩ := kron_eye_U_eye L hq (can1 axis angle phase) (can1_n' axis angle phase)
  simp only [expand, h1, h2, if_false] at h
  injection h with h
  subst h
  apply Mat.ext_get
  · rw [k1]; rfl
  · rw [Mat.ofFn_size]; rfl
  · rw [k2, k1]
  · intro r c hr hc
    have hr : r < 2 ^ n := hr
    have hc : c < 2 ^ n := hc
    rw [Mat.get_ofFn hr hc, k3 r c hr hc]

/-! ## At `ℝ` -/

theorem cxUnitLaws_real : CxUnitLaws ℝ where
  one_mul x := by
    show Cx.mul Cx.one x = x
    cases x; simp [Cx.mul, Cx.one]
  zero_mul x := by
    show Cx.mul Cx.zero x = Cx.zero
    cases x; simp [Cx.mul, Cx.zero]
  mul_one x := by
    show Cx.mul x Cx.one = x
    cases x; simp [Cx.mul, Cx.one]
  mul_zero x := by
    show Cx.mul x Cx.zero = Cx.zero
    cases x; simp [Cx.mul, Cx.zero]

/-- **C08 at ℝ**: whenever the model's `expand` succeeds on a rotation, its matrix has the dimension and
    the entries of numpy's `kron(kron(eye(2^(n-q-1)), can1(axis, angle, phase)), eye(2^q))`. -/
theorem expand_bsr_kron_real {n : Nat} {q : Int} {axis : Vec3 ℝ} {angle phase : ℝ} {M : Mat ℝ}
    (h : expand n (.bsr q axis angle phase) = .ok M) :
    M.n = (kronM (kronM (Mat.identity (2 ^ (n - q.toNat - 1))) (can1 axis angle phase))
            (Mat.identity (2 ^ q.toNat))).n ∧
    ∀ r c, r < 2 ^ n → c < 2 ^ n →
      M.get r c = (kronM (kronM (Mat.identity (2 ^ (n - q.toNat - 1))) (can1 axis angle phase))
            (Mat.identity (2 ^ q.toNat))).get r c := by
  have := expand_bsr_eq_kron cxUnitLaws_real h
  subst this
  exact ⟨rfl, fun _ _ _ _ => rfl⟩

theorem expand_bsr_eq_kron_real {n : Nat} {q : Int} {axis : Vec3 ℝ} {angle phase : ℝ} {M : Mat ℝ}
    (h : expand n (.bsr q axis angle phase) = .ok M) :
    M = kronBSR n q.toNat (can1 axis angle phase) :=
  expand_bsr_eq_kron cxUnitLaws_real h

/-! ## Non-vacuity -/

/-- a rotation on qubit 1 of a 3-qubit register: `expand` succeeds and equals `eye(2) ⊗ U ⊗ eye(2)` -/
example : ∃ M : Mat ℝ, expand 3 (.bsr 1 ((1, 0, 0) : Vec3 ℝ) Real.pi 0) = .ok M ∧
    M = kronBSR 3 1 (can1 ((1, 0, 0) : Vec3 ℝ) Real.pi 0) ∧ M.n = 8 := by
  obtain ⟨M, hM, hI⟩ := expandBSR_spec (n := 3) (q := 1) (by decide) (by decide)
    ((1, 0, 0) : Vec3 ℝ) Real.pi 0
  refine ⟨M, hM, expand_bsr_eq_kron_real hM, ?_⟩
  rw [hI.1]

/-- entry (2, 0) of `eye(2) ⊗ U ⊗ eye(2)` is `U[1, 0]`, entry (2, 1) is `0` -/
example (u : Mat ℝ) (hu : u.n = 2) :
    (kronBSR 3 1 u).get 2 0 = u.get 1 0 ∧ (kronBSR 3 1 u).get 2 1 = Cx.zero := by
  obtain ⟨_, _, h⟩ := kron_eye_U_eye cxUnitLaws_real (n := 3) (q := 1) (by decide) u hu
  constructor
  · rw [h 2 0 (by decide) (by decide)]; simp
  · rw [h 2 1 (by decide) (by decide)]; simp

end OSq

#print axioms OSq.kron_eye_U_eye
#print axioms OSq.kron_eye_U_eye_embed1
#print axioms OSq.expand_bsr_eq_kron
#print axioms OSq.cxUnitLaws_real
#print axioms OSq.expand_bsr_kron_real
#print axioms OSq.expand_bsr_eq_kron_real
