/-
  OSq.Proofs.Bands3 — all-inputs error bounds (no crisp hypothesis), continued: the A-B-A decomposers with the sharp
  filter constant, and the **McKay decomposer** on every input.  Entrywise norm on 2×2 complex matrices, `α := ℝ`.

  * `three_factor_band`        `‖(P1·M1·P2·M2·P3 − Q1·M1·Q2·M2·Q3) i j‖ ≤ c1 + c2 + c3` for unit quaternion matrices
                               `P_k, Q_k` at quaternion distance `≤ c_k` and phase×unit-quaternion matrices `M1, M2`
  * `abaDecompose_all_inputs_sharp`   the six A-B-A decomposers, filter included, no crisp hypothesis:
                               `‖listOp out i j − (z • rot n α φ) i j‖ ≤ 4·atol` (`5/2` angles `+ 3·1/2` filter),
                               improving the `17/2` of `Bands.abaDecompose_all_inputs`
  * `filter_single_q`, `optRz_q`   an optional `Rz` (identity filter resp. `|x| > atol` test) as a unit quaternion within
                               `atol/2` of the unconditional `Rz`
  * `mckay_shortcut_dist`      the `[X90, X90]` shortcut (`|θ| < atol ∧ λ = φ`): `Rz(φ)·X90·Rz(θ)·X90·Rz(φ)` is within
                               `|θ|/2` of `X90·X90`, for every `φ` — the shortcut is **right** (for `θ = 0`,
                               `Rz(φ)·X·Rz(φ) = X` exactly); no finding
  * `mckay_generic_band`       generic path (5): `≤ (3/2)·atol` (three optional `Rz`, each `≤ atol/2`; shortcut `≤ atol/2`)
  * `mckay_zxz_band`           Z-X-Z path (4) with `Rx(≈π/2)` replaced by `X90`: `≤ 4·atol`
  * `mckay_all_inputs`         all five paths, no crisp hypothesis: `mckayDecompose atol (.bsr q n α φ, nm) = .ok out` ⇒
                               `∃ z, ‖z‖ = 1 ∧ ∀ i j, ‖listOp out i j − (z • rot n α φ) i j‖ ≤ 4·atol`
                               (native `0`; null angle `≤ atol/2`; about `z` `0`; Z-X-Z `≤ 4·atol`; generic `≤ (3/2)·atol`)
  Examples: a rotation strictly inside the null band, and the full theorem on a generic input through `mckayDecompose_ok`.
-/
import OSq.Proofs.Bands2
import OSq.Proofs.Main

set_option linter.unnecessarySeqFocus false
set_option linter.unusedSimpArgs false
set_option linter.unusedVariables false
open Matrix

namespace OSq
namespace Bands
open Sem Complex

/-! ### three replaced factors -/

theorem three_factor_band {M1 M2 : Matrix (Fin 2) (Fin 2) ℂ} (h1 : PUQ M1) (h2 : PUQ M2)
    (p1 p2 p3 q1 q2 q3 : ABA.Q) (hp2 : qNormSq p2 = 1) (hp3 : qNormSq p3 = 1) (hq1 : qNormSq q1 = 1)
    (hq2 : qNormSq q2 = 1) {c1 c2 c3 : ℝ} (hc1 : 0 ≤ c1) (hc2 : 0 ≤ c2) (hc3 : 0 ≤ c3)
    (d1 : qdist2 p1 q1 ≤ c1 ^ 2) (d2 : qdist2 p2 q2 ≤ c2 ^ 2) (d3 : qdist2 p3 q3 ≤ c3 ^ 2) (i j : Fin 2) :
    ‖(p1.toMat * M1 * p2.toMat * M2 * p3.toMat - q1.toMat * M1 * q2.toMat * M2 * q3.toMat) i j‖
      ≤ c1 + c2 + c3 := by
  have e : p1.toMat * M1 * p2.toMat * M2 * p3.toMat - q1.toMat * M1 * q2.toMat * M2 * q3.toMat
      = 1 * (p1.toMat - q1.toMat) * (M1 * p2.toMat * M2 * p3.toMat)
        + (q1.toMat * M1) * (p2.toMat - q2.toMat) * (M2 * p3.toMat)
        + (q1.toMat * M1 * q2.toMat * M2) * (p3.toMat - q3.toMat) * 1 := by
    simp only [Matrix.mul_sub, Matrix.sub_mul, Matrix.mul_assoc, Matrix.one_mul, Matrix.mul_one]
    abel
  rw [e, Matrix.add_apply, Matrix.add_apply]
  have P2 := PUQ.toMat p2 hp2
  have P3 := PUQ.toMat p3 hp3
  have Q1 := PUQ.toMat q1 hq1
  have Q2 := PUQ.toMat q2 hq2
  have t1 := puq_sandwich PUQ.one (((h1.mul P2).mul h2).mul P3) p1 q1 hc1 d1 i j
  have t2 := puq_sandwich (Q1.mul h1) (h2.mul P3) p2 q2 hc2 d2 i j
  have t3 := puq_sandwich (((Q1.mul h1).mul Q2).mul h2) PUQ.one p3 q3 hc3 d3 i j
  refine (norm_add_le _ _).trans ?_
  refine (add_le_add (norm_add_le _ _) le_rfl).trans ?_
  linarith

/-! ### A-B-A with the sharp filter constant -/

theorem phase0_rotStmt3 (atol : ℝ) (h0 : 0 ≤ atol) (h1 : atol < Real.pi) (na nb : String) (q : Int) (ia ib : Nat)
    (t1 t2 t3 : ℝ) :
    Phase0 [rotStmt atol na q (eAxis ia) t1, rotStmt atol nb q (eAxis ib) t2, rotStmt atol na q (eAxis ia) t3] := by
  intro g hg q' a θ φ he
  simp only [List.mem_cons, List.not_mem_nil, or_false] at hg
  rcases hg with rfl | rfl | rfl <;>
  · rw [rotStmt_real atol h0 h1] at he
    injection he with _ _ _ hp
    exact hp.symm

theorem exp_neg_smul_rot (n : ℝ × ℝ × ℝ) (α φ : ℝ) : Complex.exp (-(I * φ)) • rot n α φ = rot n α 0 := by
  rw [rot_phase_smul n α φ, smul_smul, ← Complex.exp_add]; simp

/-- **abaDecompose_all_inputs_sharp**: as `Bands.abaDecompose_all_inputs` with the sharp filter constant: for every
    unit axis, every `α ∈ [-π+atol, π+atol)`, every A-B-A kind and no crisp hypothesis at all the emitted list is
    within `4·atol` (`5/2` for the angles, `1/2` for each of the up to three dropped gates) of `z • R_n(α, φ)`. -/
theorem abaDecompose_all_inputs_sharp (atol : ℝ) (k : ABAKind) (q : Int) (n : Vec3 ℝ) (α φ : ℝ)
    (nm : Option (Named ℝ)) (out : List (GStmt ℝ))
    (hat : 0 < atol) (hat' : atol < Real.pi) (hn : n.1 ^ 2 + n.2.1 ^ 2 + n.2.2 ^ 2 = 1)
    (h1 : -Real.pi + atol ≤ α) (h2 : α < Real.pi + atol)
    (h : abaDecompose atol k (.bsr q n α φ, nm) = .ok out) :
    ∃ z : ℂ, ‖z‖ = 1 ∧ ∀ i j : Fin 2, ‖listOp out i j - (z • rot n α φ) i j‖ ≤ 4 * atol := by
  obtain ⟨t1, t2, t3, axA, axB, hang, hA, hB, rfl⟩ := aba_form h
  obtain rfl := mkAxis_axisLit_inj hA
  obtain rfl := mkAxis_axisLit_inj hB
  obtain ⟨kk, hk⟩ := listOp_aba_triple atol hat.le hat' q k.ia k.ib (rotName k.ia) (rotName k.ib) t1 t2 t3
  refine ⟨(-1 : ℂ) ^ kk * Complex.exp (-(I * φ)), ?_, fun i j => ?_⟩
  · rw [norm_mul, norm_neg_one_zpow, norm_exp_neg_I_mul, one_mul]
  · have hf := filter_identities_band_phase0 atol hat.le _
      (unitAxes_rotStmt atol hat.le hat' (rotName k.ia) (rotName k.ib) q k.ia k.ib t1 t2 t3)
      (phase0_rotStmt3 atol hat.le hat' (rotName k.ia) (rotName k.ib) q k.ia k.ib t1 t2 t3) PUQ.one PUQ.one i j
    rw [Matrix.one_mul, Matrix.mul_one, Matrix.sub_apply] at hf
    have hP := aba_all_inputs atol k α n t1 t2 t3 hat hn h1 h2 hang i j
    have ez : ((-1 : ℂ) ^ kk * Complex.exp (-(I * φ))) • rot n α φ = ((-1 : ℂ) ^ kk) • rot n α 0 := by
      rw [← smul_smul, exp_neg_smul_rot]
    rw [ez]
    rw [hk] at hf
    have hs : ‖(((-1 : ℂ) ^ kk) • (rot (eAxis k.ia) t3 0 * rot (eAxis k.ib) t2 0 * rot (eAxis k.ia) t1 0)) i j
        - (((-1 : ℂ) ^ kk) • rot n α 0) i j‖ ≤ 5 / 2 * atol := by
      rw [Matrix.smul_apply, Matrix.smul_apply, smul_eq_mul, smul_eq_mul, ← mul_sub, norm_mul,
        norm_neg_one_zpow, one_mul]
      exact hP
    have hcnt : (idCount atol [rotStmt atol (rotName k.ia) q (eAxis k.ia) t1,
        rotStmt atol (rotName k.ib) q (eAxis k.ib) t2, rotStmt atol (rotName k.ia) q (eAxis k.ia) t3] : ℝ) ≤ 3 := by
      have := idCount_le_length atol [rotStmt atol (rotName k.ia) q (eAxis k.ia) t1,
        rotStmt atol (rotName k.ib) q (eAxis k.ib) t2, rotStmt atol (rotName k.ia) q (eAxis k.ia) t3]
      exact_mod_cast this
    have hf' := hf.trans (mul_le_mul_of_nonneg_right hcnt (by positivity : (0 : ℝ) ≤ atol / 2))
    set X := listOp (filterOutIdentities atol [rotStmt atol (rotName k.ia) q (eAxis k.ia) t1,
      rotStmt atol (rotName k.ib) q (eAxis k.ib) t2, rotStmt atol (rotName k.ia) q (eAxis k.ia) t3]) i j
    set Y := (((-1 : ℂ) ^ kk) • (rot (eAxis k.ia) t3 0 * rot (eAxis k.ib) t2 0 * rot (eAxis k.ia) t1 0)) i j
    set Z := (((-1 : ℂ) ^ kk) • rot n α 0) i j
    calc ‖X - Z‖ = ‖(X - Y) + (Y - Z)‖ := by ring_nf
      _ ≤ ‖X - Y‖ + ‖Y - Z‖ := norm_add_le _ _
      _ ≤ 4 * atol := by linarith

/-! ### optional `Rz` gates as unit quaternions -/

/-- `filterOutIdentities [R_i(t)]` as a unit quaternion within `atol/2` of `R_i(normalize t)` -/
theorem filter_single_q (atol : ℝ) (h0 : 0 ≤ atol) (h1 : atol < Real.pi) (nme : String) (q : Int) (i : Nat) (t : ℝ) :
    ∃ p : ABA.Q, qNormSq p = 1 ∧
      listOp (filterOutIdentities atol [rotStmt atol nme q (eAxis i) t]) = p.toMat ∧
      qdist2 p (ABA.Q.ofRot (eAxis i) (normalizeAngle atol t)) ≤ (atol / 2) ^ 2 := by
  rw [rotStmt_real atol h0 h1]
  unfold filterOutIdentities
  rw [List.filter_cons]
  cases hid : (Gate.bsr q (eAxis i) (normalizeAngle atol t) 0).isIdentity atol with
  | true =>
    obtain ⟨ht, -⟩ := (isIdentity_bsr_iff atol q _ _ _).mp hid
    refine ⟨qone, qNormSq_qone, by simp [hid, qone_toMat], ?_⟩
    refine (qdist2_qone_ofRot _ (eAxis_unit i) _).trans ?_
    apply pow_le_pow_left₀ (by positivity)
    linarith
  | false =>
    refine ⟨ABA.Q.ofRot (eAxis i) (normalizeAngle atol t), qNormSq_ofRot _ (eAxis_unit i) _, ?_, ?_⟩
    · simp [hid, rot_eq_qMat0]
    · rw [qdist2_self]; positivity

/-- the optional `Rz(x)` of the generic McKay path (`x` already normalised) as a unit quaternion within `atol/2`
    of `Rz(x)` -/
theorem optRz_q (atol : ℝ) (h0 : 0 ≤ atol) (h1 : atol < Real.pi) (q : Int) (x : ℝ)
    (hx : normalizeAngle atol x = x) :
    ∃ p : ABA.Q, qNormSq p = 1 ∧ listOp (optRz atol q (eAxis 2) x) = p.toMat ∧
      qdist2 p (ABA.Q.ofRot (eAxis 2) x) ≤ (atol / 2) ^ 2 := by
  unfold optRz
  by_cases h : atol < absS x
  · rw [if_pos h]
    refine ⟨ABA.Q.ofRot (eAxis 2) x, qNormSq_ofRot _ (eAxis_unit 2) _, ?_, ?_⟩
    · rw [listOp_singleton, rotStmt_real atol h0 h1, opOf_bsr, hx, rot_eq_qMat0]
    · rw [qdist2_self]; positivity
  · rw [if_neg h]
    have hx' : |x| ≤ atol := not_lt.mp h
    refine ⟨qone, qNormSq_qone, by rw [listOp_nil, qone_toMat], ?_⟩
    refine (qdist2_qone_ofRot _ (eAxis_unit 2) _).trans ?_
    apply pow_le_pow_left₀ (by positivity)
    linarith

/-! ### the generic McKay path -/

/-- **the `[X90, X90]` shortcut is right**: for every `φ`, `Rz(φ)·X90·Rz(θ)·X90·Rz(φ)` is within `|θ|/2` (quaternion
    distance) of `X90·X90`; in particular they agree for `θ = 0`, whatever `λ = φ` is. -/
theorem mckay_shortcut_dist (φ θ : ℝ) : qdist2 (mcQ 0 0 0) (mcQ φ θ φ) ≤ (|θ| / 2) ^ 2 := by
  have h := cos_sin_sub_sq_le 0 (θ / 2)
  have e : (|θ| / 2) ^ 2 = (0 - θ / 2) ^ 2 := by rw [div_pow, sq_abs]; ring
  rw [e]
  simp only [qdist2, mcQ, sub_self, zero_div, Real.sin_zero, Real.cos_zero, mul_zero, zero_mul, neg_zero,
    mul_one, zero_sub, neg_neg]
  rw [Real.cos_zero, Real.sin_zero] at h
  have hφ := Real.sin_sq_add_cos_sq ((φ + φ) / 2)
  have : (Real.sin (θ / 2) * Real.sin ((φ + φ) / 2)) ^ 2 + (1 - Real.cos (θ / 2)) ^ 2 + (-0) ^ 2
      + (-(Real.sin (θ / 2) * Real.cos ((φ + φ) / 2))) ^ 2
      = (1 - Real.cos (θ / 2)) ^ 2 + Real.sin (θ / 2) ^ 2 * (Real.sin ((φ + φ) / 2) ^ 2 + Real.cos ((φ + φ) / 2) ^ 2) := by
    ring
  nlinarith

theorem qNormSq_mcQ (φ θ lam : ℝ) : qNormSq (mcQ φ θ lam) = 1 := by
  simp only [qNormSq, mcQ]
  have h1 := Real.sin_sq_add_cos_sq (θ / 2)
  have h2 := Real.sin_sq_add_cos_sq ((φ + lam) / 2)
  have h3 := Real.sin_sq_add_cos_sq ((φ - lam) / 2)
  nlinarith

/-- the operator of the generic McKay output for normalised angles `(λ, θ, φ)`, **no crisp hypothesis**: within
    `(3/2)·atol` of `Rz(φ)·X90·Rz(θ)·X90·Rz(λ)` -/
theorem listOp_mckayGeneric_band (atol : ℝ) (h0 : 0 ≤ atol) (h1 : atol < Real.pi) (q : Int) (lam θ φ : ℝ)
    (hl : normalizeAngle atol lam = lam) (hθ : normalizeAngle atol θ = θ) (hφ : normalizeAngle atol φ = φ)
    (i j : Fin 2) :
    ‖listOp (mckayGeneric atol q (eAxis 0) (eAxis 2) (lam, θ, φ)) i j
      - (rot (eAxis 2) φ 0 * rot (eAxis 0) (Real.pi / 2) 0 * rot (eAxis 2) θ 0 * rot (eAxis 0) (Real.pi / 2) 0
        * rot (eAxis 2) lam 0) i j‖ ≤ 3 / 2 * atol := by
  unfold mckayGeneric
  simp only [absS_real, decEqB_real, Bool.and_eq_true, decide_eq_true_eq]
  split_ifs with h
  · obtain ⟨hθ0, hlφ⟩ := h
    have hθ0 : |θ| < atol := of_decide_eq_true hθ0
    subst hlφ
    have e : listOp [x90Stmt atol q (eAxis 0), x90Stmt atol q (eAxis 0)] = (mcQ 0 0 0).toMat := by
      rw [← mckay_prod]
      simp [listOp_cons, opOf_x90Stmt atol h0 h1, rot_zero]
    rw [e, mckay_prod]
    refine (toMat_sub_entry_le _ _ (by positivity) (mckay_shortcut_dist lam θ) i j).trans ?_
    linarith
  · obtain ⟨p1, hp1, e1, d1⟩ := optRz_q atol h0 h1 q lam hl
    obtain ⟨p2, hp2, e2, d2⟩ := optRz_q atol h0 h1 q θ hθ
    obtain ⟨p3, hp3, e3, d3⟩ := optRz_q atol h0 h1 q φ hφ
    have e : listOp (optRz atol q (eAxis 2) lam ++ [x90Stmt atol q (eAxis 0)] ++ optRz atol q (eAxis 2) θ
        ++ [x90Stmt atol q (eAxis 0)] ++ optRz atol q (eAxis 2) φ)
        = p3.toMat * rot (eAxis 0) (Real.pi / 2) 0 * p2.toMat * rot (eAxis 0) (Real.pi / 2) 0 * p1.toMat := by
      simp only [listOp_append, listOp_singleton, opOf_x90Stmt atol h0 h1, e1, e2, e3, Matrix.mul_assoc]
    rw [e, rot_eq_qMat0 (eAxis 2) φ, rot_eq_qMat0 (eAxis 2) θ, rot_eq_qMat0 (eAxis 2) lam, ← Matrix.sub_apply]
    have hX := PUQ.rot (eAxis 0) (eAxis_unit 0) (Real.pi / 2) 0
    have := three_factor_band hX hX p3 p2 p1 _ _ _ hp2 hp1 (qNormSq_ofRot _ (eAxis_unit 2) φ)
      (qNormSq_ofRot _ (eAxis_unit 2) θ) (by positivity : (0 : ℝ) ≤ atol / 2) (by positivity : (0 : ℝ) ≤ atol / 2)
      (by positivity : (0 : ℝ) ≤ atol / 2) d3 d2 d1 i j
    linarith

/-- **mckay_generic_band**: the generic path on every unit axis and angle, no crisp hypothesis: within `(3/2)·atol`
    of `R_n(α, φ)` up to one global phase. -/
theorem mckay_generic_band (atol : ℝ) (h0 : 0 ≤ atol) (h1 : atol < Real.pi) (q : Int) (n : Vec3 ℝ) (α φ : ℝ)
    (hn : n.1 ^ 2 + n.2.1 ^ 2 + n.2.2 ^ 2 = 1) :
    ∃ z : ℂ, ‖z‖ = 1 ∧ ∀ i j : Fin 2,
      ‖listOp (mckayGeneric atol q (eAxis 0) (eAxis 2) (mckayAngles atol n α)) i j - (z • rot n α φ) i j‖
        ≤ 3 / 2 * atol := by
  rw [mckayAngles_real]
  obtain ⟨k1, -, e1⟩ := GateTable.rot_nA atol (mckayRaw n α).1 (eAxis 2)
  obtain ⟨k2, -, e2⟩ := GateTable.rot_nA atol (mckayRaw n α).2.1 (eAxis 2)
  obtain ⟨k3, -, e3⟩ := GateTable.rot_nA atol (mckayRaw n α).2.2 (eAxis 2)
  refine ⟨(-1) ^ k3 * ((-1) ^ k2 * (-1) ^ k1) * Complex.exp (-(I * φ)), ?_, fun i j => ?_⟩
  · simp only [norm_mul, norm_neg_one_zpow, norm_exp_neg_I_mul, one_mul]
  · have hb := listOp_mckayGeneric_band atol h0 h1 q _ _ _ (normalizeAngle_idem _ (mckayRaw n α).1 h0 h1)
      (normalizeAngle_idem _ (mckayRaw n α).2.1 h0 h1) (normalizeAngle_idem _ (mckayRaw n α).2.2 h0 h1) i j
    have ez : ((-1 : ℂ) ^ k3 * ((-1) ^ k2 * (-1) ^ k1) * Complex.exp (-(I * φ))) • rot n α φ
        = rot (eAxis 2) (normalizeAngle atol (mckayRaw n α).2.2) 0 * rot (eAxis 0) (Real.pi / 2) 0
          * rot (eAxis 2) (normalizeAngle atol (mckayRaw n α).2.1) 0 * rot (eAxis 0) (Real.pi / 2) 0
          * rot (eAxis 2) (normalizeAngle atol (mckayRaw n α).1) 0 := by
      rw [e1, e2, e3]
      simp only [smul_mul_assoc, mul_smul_comm, smul_smul]
      rw [mckay_generic_rot n α hn, ← smul_smul, exp_neg_smul_rot]
      congr 1; ring
    rw [ez]
    exact hb

/-! ### the Z-X-Z path with `X90` -/

/-- **mckay_zxz_band**: path (4): the Z-X-Z decomposition whose `Rx` angle is within `atol` of `π/2` (not necessarily
    equal), with `Rx` replaced by `X90` and the two `Rz` filtered: within `4·atol` of `R_n(α, φ)` up to a phase
    (`5/2` for the Z-X-Z angles, `1/2` each for the two filtered `Rz` and for the replacement). -/
theorem mckay_zxz_band (atol : ℝ) (q : Int) (n : Vec3 ℝ) (α φ : ℝ) (hat : 0 < atol) (hat' : atol < Real.pi)
    (hn : n.1 ^ 2 + n.2.1 ^ 2 + n.2.2 ^ 2 = 1) (h1 : -Real.pi + atol ≤ α) (h2 : α < Real.pi + atol)
    {t1 t2 t3 : ℝ} (hang : abaAngles atol .ZXZ α n = .ok (t1, t2, t3))
    (hg : |normalizeAngle atol t2 - Real.pi / 2| < atol) :
    ∃ z : ℂ, ‖z‖ = 1 ∧ ∀ i j : Fin 2,
      ‖listOp (filterOutIdentities atol [rotStmt atol "Rz" q (eAxis 2) t1] ++ x90Stmt atol q (eAxis 0) ::
          filterOutIdentities atol [rotStmt atol "Rz" q (eAxis 2) t3]) i j - (z • rot n α φ) i j‖ ≤ 4 * atol := by
  obtain ⟨kk, hk⟩ := listOp_aba_triple atol hat.le hat' q 2 0 "Rz" "Rx" t1 t2 t3
  obtain ⟨p1, hp1, e1, d1⟩ := filter_single_q atol hat.le hat' "Rz" q 2 t1
  obtain ⟨p3, hp3, e3, d3⟩ := filter_single_q atol hat.le hat' "Rz" q 2 t3
  refine ⟨(-1 : ℂ) ^ kk * Complex.exp (-(I * φ)), ?_, fun i j => ?_⟩
  · rw [norm_mul, norm_neg_one_zpow, norm_exp_neg_I_mul, one_mul]
  · have ez : ((-1 : ℂ) ^ kk * Complex.exp (-(I * φ))) • rot n α φ = ((-1 : ℂ) ^ kk) • rot n α 0 := by
      rw [← smul_smul, exp_neg_smul_rot]
    rw [ez]
    have hP := aba_all_inputs atol .ZXZ α n t1 t2 t3 hat hn h1 h2 hang i j
    have hs : ‖(((-1 : ℂ) ^ kk) • (rot (eAxis 2) t3 0 * rot (eAxis 0) t2 0 * rot (eAxis 2) t1 0)) i j
        - (((-1 : ℂ) ^ kk) • rot n α 0) i j‖ ≤ 5 / 2 * atol := by
      rw [Matrix.smul_apply, Matrix.smul_apply, smul_eq_mul, smul_eq_mul, ← mul_sub, norm_mul,
        norm_neg_one_zpow, one_mul]
      exact hP
    rw [← hk] at hs
    -- the emitted list against the unfiltered triple
    have eL : listOp (filterOutIdentities atol [rotStmt atol "Rz" q (eAxis 2) t1] ++ x90Stmt atol q (eAxis 0) ::
          filterOutIdentities atol [rotStmt atol "Rz" q (eAxis 2) t3])
        = p3.toMat * 1 * (ABA.Q.ofRot (eAxis 0) (Real.pi / 2)).toMat * 1 * p1.toMat := by
      rw [listOp_append, listOp_cons, e1, e3, opOf_x90Stmt atol hat.le hat', rot_eq_qMat0]
      simp only [Matrix.mul_one, Matrix.mul_assoc]
    have eT : listOp [rotStmt atol "Rz" q (eAxis 2) t1, rotStmt atol "Rx" q (eAxis 0) t2,
          rotStmt atol "Rz" q (eAxis 2) t3]
        = (ABA.Q.ofRot (eAxis 2) (normalizeAngle atol t3)).toMat * 1
          * (ABA.Q.ofRot (eAxis 0) (normalizeAngle atol t2)).toMat * 1
          * (ABA.Q.ofRot (eAxis 2) (normalizeAngle atol t1)).toMat := by
      simp only [listOp_cons, listOp_nil, Matrix.one_mul, Matrix.mul_one, rotStmt_real atol hat.le hat', opOf_bsr,
        rot_eq_qMat0]
    have d2 : qdist2 (ABA.Q.ofRot (eAxis 0) (Real.pi / 2)) (ABA.Q.ofRot (eAxis 0) (normalizeAngle atol t2))
        ≤ (atol / 2) ^ 2 := by
      refine (qdist2_ofRot_angle _ (eAxis_unit 0) _ _).trans ?_
      apply pow_le_pow_left₀ (by positivity)
      rw [abs_sub_comm]
      linarith
    have h3 := three_factor_band PUQ.one PUQ.one p3 (ABA.Q.ofRot (eAxis 0) (Real.pi / 2)) p1 _ _ _
      (qNormSq_ofRot _ (eAxis_unit 0) _) hp1 (qNormSq_ofRot _ (eAxis_unit 2) (normalizeAngle atol t3))
      (qNormSq_ofRot _ (eAxis_unit 0) (normalizeAngle atol t2))
      (by positivity : (0 : ℝ) ≤ atol / 2) (by positivity : (0 : ℝ) ≤ atol / 2)
      (by positivity : (0 : ℝ) ≤ atol / 2) d3 d2 d1 i j
    rw [← eL, ← eT, Matrix.sub_apply] at h3
    set X := listOp (filterOutIdentities atol [rotStmt atol "Rz" q (eAxis 2) t1] ++ x90Stmt atol q (eAxis 0) ::
          filterOutIdentities atol [rotStmt atol "Rz" q (eAxis 2) t3]) i j
    set Y := listOp [rotStmt atol "Rz" q (eAxis 2) t1, rotStmt atol "Rx" q (eAxis 0) t2,
          rotStmt atol "Rz" q (eAxis 2) t3] i j
    set Z := (((-1 : ℂ) ^ kk) • rot n α 0) i j
    calc ‖X - Z‖ = ‖(X - Y) + (Y - Z)‖ := by ring_nf
      _ ≤ ‖X - Y‖ + ‖Y - Z‖ := norm_add_le _ _
      _ ≤ 4 * atol := by linarith

/-! ### all five paths -/

/-- **mckay_all_inputs**: the McKay decomposer (`Rz`/`X90` basis) on **every** rotation `R_n(α, φ)` with a unit axis
    and `α ∈ [-π+atol, π+atol)` — no crisp hypothesis on any of the tolerance tests (null angle, the three Z-X-Z
    tests, the identity filter, the guard `θ2 ≈ π/2`, the `|x| > atol` tests and the `[X90, X90]` shortcut of the
    generic path): every successful run returns a list whose operator is within `4·atol`, entrywise, of
    `z • R_n(α, φ)` for one unit scalar `z`.  By path: native gate `0`; `|α| < atol ⇒ []` `≤ atol/2`; rotation about `z`
    `0`; Z-X-Z with `X90` `≤ 4·atol`; generic path `≤ (3/2)·atol` (its `[X90, X90]` shortcut `≤ atol/2`). -/
theorem mckay_all_inputs (atol : ℝ) (q : Int) (n : Vec3 ℝ) (α φ : ℝ) (nm : Option (Named ℝ))
    (out : List (GStmt ℝ))
    (hat : 0 < atol) (hat' : atol < Real.pi) (hn : n.1 ^ 2 + n.2.1 ^ 2 + n.2.2 ^ 2 = 1)
    (h1 : -Real.pi + atol ≤ α) (h2 : α < Real.pi + atol)
    (h : mckayDecompose atol (.bsr q n α φ, nm) = .ok out) :
    ∃ z : ℂ, ‖z‖ = 1 ∧ ∀ i j : Fin 2, ‖listOp out i j - (z • rot n α φ) i j‖ ≤ 4 * atol := by
  rcases mckay_form h with ⟨-, rfl⟩ | ⟨hP, ⟨hA, rfl⟩ | ⟨hnA, ⟨hZ, axZ, hZax, rfl⟩ |
    ⟨hnZ, t1, t2, t3, axX, axZ, hang, hX, hZ, ⟨-, hg, rfl⟩ | ⟨-, rfl⟩⟩⟩⟩
  · -- (1) native
    refine ⟨1, by simp, fun i j => ?_⟩
    simp only [listOp_singleton, opOf_bsr, one_smul, sub_self, norm_zero]
    positivity
  · -- (2) null rotation, inside the band
    have hA' : |α| < atol := hA
    refine ⟨Complex.exp (-(I * φ)), norm_exp_neg_I_mul φ, fun i j => ?_⟩
    rw [exp_neg_smul_rot, listOp_nil, norm_sub_rev]
    have := rot_sub_one_entry_le n hn α 0 i j
    rw [abs_zero, add_zero] at this
    linarith
  · -- (3) rotation about z: exact
    obtain rfl := mkAxis_axisLit_inj hZax
    simp only [decEqB_real, zero_real, Bool.and_eq_true, decide_eq_true_eq] at hZ
    obtain ⟨nx, ny, nz⟩ := n
    simp only at hZ hn
    obtain ⟨rfl, rfl⟩ := hZ
    have hnz : nz ^ 2 = 1 := by linarith
    obtain ⟨k, hk⟩ := opOf_rotStmt atol hat.le hat' "Rz" q 2 (α * nz)
    refine ⟨(-1) ^ k * Complex.exp (-(I * φ)), ?_, fun i j => ?_⟩
    · rw [norm_mul, norm_neg_one_zpow, norm_exp_neg_I_mul, one_mul]
    · rw [listOp_singleton, hk, rot_z_axis nz α hnz, ← smul_smul, exp_neg_smul_rot, sub_self, norm_zero]
      positivity
  · -- (4) Z-X-Z with X90
    obtain rfl := mkAxis_axisLit_inj hX
    obtain rfl := mkAxis_axisLit_inj hZ
    have hg' : |normalizeAngle atol t2 - Real.pi / 2| < atol := by simpa using hg
    exact mckay_zxz_band atol q n α φ hat hat' hn h1 h2 hang hg'
  · -- (5) generic path
    obtain rfl := mkAxis_axisLit_inj hX
    obtain rfl := mkAxis_axisLit_inj hZ
    obtain ⟨z, hz, hd⟩ := mckay_generic_band atol hat.le hat' q n α φ hn
    exact ⟨z, hz, fun i j => (hd i j).trans (by linarith)⟩

/-! ### non-vacuity -/

/-- a rotation strictly inside the null band (`α = 1/20 < atol = 1/10`, not the identity) is decomposed to `[]` -/
example : mckayDecompose (1 / 10 : ℝ) (.bsr 0 (1, 0, 0) (1 / 20) (1 / 3), none) = .ok [] ∧
    ∃ z : ℂ, ‖z‖ = 1 ∧ ∀ i j : Fin 2,
      ‖listOp [] i j - (z • rot (1, 0, 0) (1 / 20) (1 / 3)) i j‖ ≤ 4 * (1 / 10) := by
  have hpi := Real.two_le_pi
  have hd : mckayDecompose (1 / 10 : ℝ) (.bsr 0 (1, 0, 0) (1 / 20) (1 / 3), none) = .ok [] := by
    rw [mckayDecompose_bsr_eq]
    have : absS (1 / 20 : ℝ) < 1 / 10 := by
      show |(1 / 20 : ℝ)| < 1 / 10
      rw [abs_of_pos (by norm_num)]; norm_num
    simp only [GStmt.name?, Option.map_none, this, if_true]
    rfl
  exact ⟨hd, mckay_all_inputs (1 / 10) 0 (1, 0, 0) (1 / 20) (1 / 3) none [] (by norm_num) (by linarith)
    (by norm_num) (by linarith) (by linarith) hd⟩

/-- the full theorem on a generic input (axis `(3/5, 0, 4/5)`, angle `1`, phase `1/3`) at `atol = 1/10` -/
example : ∃ out, mckayDecompose (1 / 10 : ℝ) (.bsr 0 (3 / 5, 0, 4 / 5) 1 (1 / 3), none) = .ok out ∧
    ∃ z : ℂ, ‖z‖ = 1 ∧ ∀ i j : Fin 2,
      ‖listOp out i j - (z • rot (3 / 5, 0, 4 / 5) 1 (1 / 3)) i j‖ ≤ 4 * (1 / 10) := by
  have hpi := Real.two_le_pi
  have hpi' := Real.pi_le_four
  obtain ⟨out, h⟩ := mckayDecompose_ok (1 / 10) (by norm_num) (by linarith) 0 (3 / 5, 0, 4 / 5) 1 (1 / 3) none
    (by norm_num) (by linarith) (by linarith)
  exact ⟨out, h, mckay_all_inputs (1 / 10) 0 _ 1 (1 / 3) none out (by norm_num) (by linarith) (by norm_num)
    (by linarith) (by linarith) h⟩

/-- an input strictly inside the band of the `X90` guard: `Rx(π/2 + 1/20)` at `atol = 1/10` (its Z-X-Z form is the
    single `Rx(π/2 + 1/20)`, which the decomposer replaces by `X90`; the theorem needs no path analysis) -/
example : ∃ out, mckayDecompose (1 / 10 : ℝ) (.bsr 0 (1, 0, 0) (Real.pi / 2 + 1 / 20) 0, none) = .ok out ∧
    ∃ z : ℂ, ‖z‖ = 1 ∧ ∀ i j : Fin 2,
      ‖listOp out i j - (z • rot (1, 0, 0) (Real.pi / 2 + 1 / 20) 0) i j‖ ≤ 4 * (1 / 10) := by
  have hpi := Real.two_le_pi
  have hpi' := Real.pi_le_four
  obtain ⟨out, h⟩ := mckayDecompose_ok (1 / 10) (by norm_num) (by linarith) 0 (1, 0, 0) (Real.pi / 2 + 1 / 20) 0 none
    (by norm_num) (by linarith) (by linarith)
  exact ⟨out, h, mckay_all_inputs (1 / 10) 0 _ _ 0 none out (by norm_num) (by linarith) (by norm_num)
    (by linarith) (by linarith) h⟩

end Bands
end OSq

#print axioms OSq.Bands.three_factor_band
#print axioms OSq.Bands.abaDecompose_all_inputs_sharp
#print axioms OSq.Bands.mckay_shortcut_dist
#print axioms OSq.Bands.mckay_generic_band
#print axioms OSq.Bands.mckay_zxz_band
#print axioms OSq.Bands.mckay_all_inputs
