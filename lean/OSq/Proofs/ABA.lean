/-
  OSq.Proofs.ABA — exactness of the A-B-A Euler-angle computation `abaAngles`
  (`OSq/Model/Passes.lean`, mirroring `decomposer/aba_decomposer.py::get_decomposition_angles`) at `α := ℝ`,
  for all six decomposer kinds, all unit axes and all angles in range, on every branch, under crisp
  hypotheses.  Quaternion components only; no matrix library.

  Notation: for a kind `k`, `a = n.get k.ia`, `b = n.get k.ib`, `c = n.get k.ic`.

  Quaternion layer
  * `Q`, `Q.mul` (Hamilton product), `Q.ofAxisAngle i θ`, `Q.ofRot n α`, `abaProduct k θ1 θ2 θ3`
      = quaternion of `Ra(θ3)·Rb(θ2)·Ra(θ1)`.
  * `abaProduct_components` : the product has scalar part `cos(θ2/2)cos(p/2)`, `ia`-part `cos(θ2/2)sin(p/2)`,
      `ib`-part `sin(θ2/2)cos(m/2)`, `ic`-part `-(hand k)·sin(θ2/2)sin(m/2)`  (`p = θ1+θ3`, `m = θ1-θ3`).
  * `sinMNeg_iff` : the code's `is_sin_m_negative` is true exactly when `(ia, ib, ic)` is a cyclic
      permutation of `(0,1,2)`, i.e. `hand k = +1` — the code's handedness convention is right for all six kinds.

  Reduction of the model
  * `abaAngles_eq`, `abaAngles_unit` : on a unit axis and `-π+atol ≤ α ≤ π+atol`,
      `abaAngles atol k α n = .ok (finish k (ptm atol a b c α))` (closed form, no `Except`).
  * `abaAngles_range` : if `abaAngles` returns, the angle was in `[-π+atol, π+atol]`.

  Main theorems (all quantify over the six kinds and all real inputs)
  * `aba_total`          : unit axis, `-π+atol ≤ α ≤ π+atol` ⟹ `abaAngles` returns (never raises).
  * `aba_general_sign`   : general branch (`¬|α-π|<atol`), `α < π+atol`, crisp inner test ⟹
                           `abaProduct k θ1 θ2 θ3 = Q.ofRot n α`  (sign always `+`).
  * `aba_general_crisp`  : same with the weaker conclusion `= ± Q.ofRot n α`.
  * `aba_pi_sign`        : `α = π` branches, crisp `a`-test and inner test ⟹ `abaProduct … = Q.ofRot n π`.
  * `aba_pi_crisp`       : same with `= ±`.
  * `aba_crisp`          : all branches combined, with existence of the result.
  * `theta2_spec`        : in the general branch `sin(θ2/2) = sin(α/2)·√(b²+c²)` — justifies phrasing the
                           crisp hypothesis of the inner test on the inputs.
  * `aba_upper_edge_wrong`: FINDING — at `α = π + atol` (admitted by the code's closed range test, not caught by
                           the strict `α ≈ π` test) the returned angles compose to neither `+` nor `-` the
                           requested rotation (non-degenerate case), so `α < π + atol` above is necessary.
                           Unreachable through `normalizeAngle` (range `[-π+atol, π+atol)`).
  followed by `example`s on every branch (incl. `n = (-1,-1,1)/√3, α = 1`, ZXZ).
-/
import OSq.Model.Passes
import OSq.Sem.RealScalar
import Mathlib.Tactic.Ring
import Mathlib.Tactic.Linarith
import Mathlib.Tactic.FieldSimp
import Mathlib.Tactic.Positivity
import Mathlib.Tactic.NormNum
import Mathlib.Analysis.SpecialFunctions.Trigonometric.Bounds

open Real

namespace OSq.ABA

/-! ### 1. Quaternion layer -/

/-- A real quaternion `w + x i + y j + z k`. -/
@[ext] structure Q where
  w : ℝ
  x : ℝ
  y : ℝ
  z : ℝ

namespace Q
/-- Hamilton product (`i j = k`, `j k = i`, `k i = j`). -/
def mul (p q : Q) : Q :=
  ⟨p.w * q.w - p.x * q.x - p.y * q.y - p.z * q.z,
   p.w * q.x + p.x * q.w + p.y * q.z - p.z * q.y,
   p.w * q.y - p.x * q.z + p.y * q.w + p.z * q.x,
   p.w * q.z + p.x * q.y - p.y * q.x + p.z * q.w⟩
instance : Mul Q := ⟨mul⟩
instance : Neg Q := ⟨fun q => ⟨-q.w, -q.x, -q.y, -q.z⟩⟩

theorem mul_def (p q : Q) : p * q = mul p q := rfl

/-- rotation by `θ` about the coordinate axis number `i` (`0 = x`, `1 = y`, otherwise `z`), as the unit
quaternion `cos(θ/2) + sin(θ/2) e_i`; this is the quaternion of `Rx/Ry/Rz(θ)`. -/
noncomputable def ofAxisAngle (i : Nat) (θ : ℝ) : Q :=
  match i with
  | 0 => ⟨cos (θ / 2), sin (θ / 2), 0, 0⟩
  | 1 => ⟨cos (θ / 2), 0, sin (θ / 2), 0⟩
  | _ => ⟨cos (θ / 2), 0, 0, sin (θ / 2)⟩

/-- rotation by `α` about the axis `n`: `cos(α/2) + sin(α/2) (n.x i + n.y j + n.z k)`. -/
noncomputable def ofRot (n : ℝ × ℝ × ℝ) (α : ℝ) : Q :=
  ⟨cos (α / 2), sin (α / 2) * n.1, sin (α / 2) * n.2.1, sin (α / 2) * n.2.2⟩
end Q

/-- the quaternion of `Ra(θ3) · Rb(θ2) · Ra(θ1)` (`θ1` is applied first) -/
noncomputable def abaProduct (k : ABAKind) (θ1 θ2 θ3 : ℝ) : Q :=
  Q.ofAxisAngle k.ia θ3 * Q.ofAxisAngle k.ib θ2 * Q.ofAxisAngle k.ia θ1

/-- handedness: `+1` when `(ia, ib, ic)` is a cyclic permutation of `(0,1,2)` (`e_ia × e_ib = e_ic`),
else `-1`.  The code's `is_sin_m_negative` is `true` exactly in the cyclic case (`sinMNeg_iff`). -/
def hand (k : ABAKind) : ℝ := if k.sinMNeg then 1 else -1

theorem sinMNeg_iff (k : ABAKind) :
    k.sinMNeg = true ↔ (k.ia, k.ib, k.ic) ∈ [(0, 1, 2), (1, 2, 0), (2, 0, 1)] := by
  cases k <;> decide

/-- Multiplying out the Hamilton products: with `p = θ1 + θ3`, `m = θ1 - θ3` the product
`Ra(θ3) Rb(θ2) Ra(θ1)` has scalar part `cos(θ2/2)cos(p/2)`, component `cos(θ2/2) sin(p/2)` along `ia`,
`sin(θ2/2) cos(m/2)` along `ib` and `-(hand k) sin(θ2/2) sin(m/2)` along `ic`. -/
theorem abaProduct_components (k : ABAKind) (θ1 θ2 θ3 : ℝ) :
    let q := abaProduct k θ1 θ2 θ3
    let v : ℝ × ℝ × ℝ := (q.x, q.y, q.z)
    q.w = cos (θ2 / 2) * cos ((θ1 + θ3) / 2) ∧
    Vec3.get v k.ia = cos (θ2 / 2) * sin ((θ1 + θ3) / 2) ∧
    Vec3.get v k.ib = sin (θ2 / 2) * cos ((θ1 - θ3) / 2) ∧
    Vec3.get v k.ic = -(hand k) * (sin (θ2 / 2) * sin ((θ1 - θ3) / 2)) := by
  have e1 : (θ1 + θ3) / 2 = θ1 / 2 + θ3 / 2 := by ring
  have e2 : (θ1 - θ3) / 2 = θ1 / 2 - θ3 / 2 := by ring
  rw [e1, e2, cos_add, sin_add, cos_sub, sin_sub]
  cases k <;>
    simp [abaProduct, Q.ofAxisAngle, Q.mul_def, Q.mul, ABAKind.ia, ABAKind.ib, ABAKind.ic, Vec3.get,
      hand, ABAKind.sinMNeg] <;>
    refine ⟨?_, ?_, ?_, ?_⟩ <;> ring

/-! ### 2. The model's computation in closed form -/

theorem clamp1_real (x : ℝ) : clamp1 x = max (min x 1) (-1) := by
  simp [clamp1, maxS_real, minS_real]

noncomputable def clamp (x : ℝ) : ℝ := max (min x 1) (-1)
noncomputable def csgn (x y : ℝ) : ℝ := if 0 ≤ y then |x| else -|x|
noncomputable def atan2 (y x : ℝ) : ℝ := Complex.arg ⟨x, y⟩

noncomputable def ptm (atol a b c α : ℝ) : ℝ × ℝ × ℝ :=
  if |α - π| < atol then
    if |a| < atol then (0, π, csgn (2 * arccos b) c)
    else
      if |sin (2 * arccos a / 2)| < atol then (π, 2 * arccos a, π)
      else (π, 2 * arccos a, csgn (2 * arccos (clamp (b / sin (2 * arccos a / 2)))) c)
  else
    let p := 2 * atan2 (a * sin (α / 2)) (cos (α / 2))
    let θ2 := csgn (2 * arccos (clamp (cos (α / 2) * √(1 + a * tan (α / 2) * (a * tan (α / 2)))))) α
    if |sin (θ2 / 2)| < atol then (p, 0, p)
    else (p, θ2, csgn (2 * arccos (clamp (b * sin (α / 2) / sin (θ2 / 2)))) c)

noncomputable def finish (k : ABAKind) (t : ℝ × ℝ × ℝ) : ℝ × ℝ × ℝ :=
  let m := if k.sinMNeg then -t.2.2 else t.2.2
  ((t.1 + m) / 2, t.2.1, t.1 - (t.1 + m) / 2)

theorem abaAngles_eq (atol : ℝ) (k : ABAKind) (α : ℝ) (n : ℝ × ℝ × ℝ)
    (h1 : -π + atol ≤ α) (h2 : α ≤ π + atol)
    (ha : -1 ≤ Vec3.get n k.ia ∧ Vec3.get n k.ia ≤ 1) (hb : -1 ≤ Vec3.get n k.ib ∧ Vec3.get n k.ib ≤ 1) :
    abaAngles atol k α n = .ok (finish k (ptm atol (Vec3.get n k.ia) (Vec3.get n k.ib) (Vec3.get n k.ic) α)) := by
  have ha' : ¬ (Vec3.get n k.ia < -1 ∨ 1 < Vec3.get n k.ia) := by
    rintro (h | h) <;> linarith [ha.1, ha.2]
  have hb' : ¬ (Vec3.get n k.ib < -1 ∨ 1 < Vec3.get n k.ib) := by
    rintro (h | h) <;> linarith [hb.1, hb.2]
  unfold abaAngles
  simp only [bind, Except.bind, pure, Except.pure, throw, throwThe, MonadExceptOf.throw, acosChecked,
    absS_real, trig_sin_real, trig_cos_real, trig_tan_real, trig_acos_real, trig_sqrt_real, trig_atan2_real,
    one_real, two_real, zero_real, pi_real, clamp1_real, trig_copysign_real, h1, h2, ha', hb',
    decide_true, Bool.and_self, Bool.not_true, Bool.false_eq_true, if_false]
  unfold ptm finish csgn clamp atan2
  simp only []
  split_ifs <;> simp only [mul_neg, mul_one]

/-! ### analytic lemmas -/

theorem norm_mk (x y : ℝ) : ‖(⟨x, y⟩ : ℂ)‖ = √(x^2 + y^2) := by
  rw [Complex.norm_def, Complex.normSq_mk]; congr 1; ring

theorem cos_atan2 {x y : ℝ} (h : x ≠ 0) : cos (atan2 y x) = x / √(x^2+y^2) := by
  unfold atan2
  have hz : (⟨x, y⟩ : ℂ) ≠ 0 := by
    intro h0; have := congrArg Complex.re h0; simp at this; contradiction
  rw [Complex.cos_arg hz, norm_mk]

theorem sin_atan2 (x y : ℝ) : sin (atan2 y x) = y / √(x^2+y^2) := by
  unfold atan2
  rw [Complex.sin_arg, norm_mk]

theorem clamp_of_mem {x : ℝ} (h1 : -1 ≤ x) (h2 : x ≤ 1) : clamp x = x := by
  unfold clamp; rw [min_eq_left h2, max_eq_left h1]

theorem csgn_two_mul_half {x : ℝ} (hx : 0 ≤ x) (y : ℝ) :
    csgn (2 * x) y / 2 = if 0 ≤ y then x else -x := by
  unfold csgn; rw [abs_of_nonneg (by positivity)]; split_ifs <;> ring

theorem cos_csgn_arccos {x : ℝ} (h1 : -1 ≤ x) (h2 : x ≤ 1) (y : ℝ) :
    cos (csgn (2 * arccos x) y / 2) = x := by
  rw [csgn_two_mul_half (arccos_nonneg x)]; split_ifs
  · exact cos_arccos h1 h2
  · rw [cos_neg]; exact cos_arccos h1 h2

theorem sin_csgn_arccos (x y : ℝ) :
    sin (csgn (2 * arccos x) y / 2) = if 0 ≤ y then √(1 - x^2) else -√(1 - x^2) := by
  rw [csgn_two_mul_half (arccos_nonneg x)]; split_ifs
  · exact sin_arccos x
  · rw [sin_neg, sin_arccos]

/-- the `m` angle: for `ρ = √(b²+c²) > 0`, `m = copysign (2 acos (clamp (b/ρ))) c` has
`ρ cos(m/2) = b` and `ρ sin(m/2) = c`. -/
theorem m_spec {b c ρ : ℝ} (hρ : 0 < ρ) (hρ2 : ρ^2 = b^2 + c^2) :
    ρ * cos (csgn (2 * arccos (clamp (b/ρ))) c / 2) = b ∧
    ρ * sin (csgn (2 * arccos (clamp (b/ρ))) c / 2) = c := by
  have hbρ := abs_le_of_sq_le_sq' (by nlinarith [sq_nonneg c] : b^2 ≤ ρ^2) hρ.le
  have hb1 : -1 ≤ b/ρ ∧ b/ρ ≤ 1 := by
    rw [le_div_iff₀ hρ, div_le_iff₀ hρ]; constructor <;> linarith [hbρ.1, hbρ.2]
  have h1b : √(1 - (b/ρ)^2) = |c| / ρ := by
    have : 1 - (b/ρ)^2 = (|c|/ρ)^2 := by
      rw [div_pow, div_pow, sq_abs]
      field_simp
      linarith
    rw [this, Real.sqrt_sq (by positivity)]
  rw [clamp_of_mem hb1.1 hb1.2, cos_csgn_arccos hb1.1 hb1.2, sin_csgn_arccos, h1b]
  constructor
  · field_simp
  · split_ifs with h
    · rw [abs_of_nonneg h]; field_simp
    · rw [abs_of_neg (not_le.mp h)]; field_simp

/-- the four component identities a triple `(p, θ2, m)` must satisfy -/
def Good (a b c α : ℝ) (t : ℝ × ℝ × ℝ) : Prop :=
  cos (t.2.1 / 2) * cos (t.1 / 2) = cos (α / 2) ∧
  cos (t.2.1 / 2) * sin (t.1 / 2) = a * sin (α / 2) ∧
  sin (t.2.1 / 2) * cos (t.2.2 / 2) = b * sin (α / 2) ∧
  sin (t.2.1 / 2) * sin (t.2.2 / 2) = c * sin (α / 2)

/-- `θ2` of the general branch -/
theorem theta2_spec {a b c α : ℝ} (hn : a^2 + b^2 + c^2 = 1) (hα : -π < α) (hα' : α < π) :
    cos (csgn (2 * arccos (clamp (cos (α / 2) * √(1 + a * tan (α / 2) * (a * tan (α / 2)))))) α / 2)
      = √(cos (α / 2)^2 + (a * sin (α / 2))^2) ∧
    sin (csgn (2 * arccos (clamp (cos (α / 2) * √(1 + a * tan (α / 2) * (a * tan (α / 2)))))) α / 2)
      = sin (α / 2) * √(b^2 + c^2) := by
  set s := sin (α/2) with hs
  set k := cos (α/2) with hk
  have hkpos : 0 < k := cos_pos_of_mem_Ioo ⟨by linarith, by linarith⟩
  have hsk : s^2 + k^2 = 1 := sin_sq_add_cos_sq (α/2)
  set R := √(k^2 + (a*s)^2) with hR
  have hRpos : 0 < R := Real.sqrt_pos.mpr (by positivity)
  have hRsq : R^2 = k^2 + (a*s)^2 := Real.sq_sqrt (by positivity)
  have hr : k * √(1 + a * tan (α / 2) * (a * tan (α / 2))) = R := by
    rw [tan_eq_sin_div_cos, ← hs, ← hk]
    have : (1 + a * (s / k) * (a * (s / k))) = (k^2 + (a*s)^2) / k^2 := by field_simp
    rw [this, Real.sqrt_div (by positivity), Real.sqrt_sq hkpos.le, hR]
    field_simp
  have hRle : R ≤ 1 := by
    have h0 : 0 ≤ s^2 * (b^2 + c^2) := by positivity
    have : R^2 ≤ 1 := by
      rw [hRsq]; nlinarith
    nlinarith
  set ρ := √(b^2 + c^2) with hρ
  have hρ0 : 0 ≤ ρ := Real.sqrt_nonneg _
  have hρsq : ρ^2 = b^2 + c^2 := Real.sq_sqrt (by positivity)
  have h1R : √(1 - R^2) = |s| * ρ := by
    have : 1 - R^2 = (|s| * ρ)^2 := by
      rw [mul_pow, sq_abs, hρsq, hRsq]; nlinarith
    rw [this, Real.sqrt_sq (by positivity)]
  rw [hr, clamp_of_mem (by linarith) hRle, cos_csgn_arccos (by linarith) hRle, sin_csgn_arccos, h1R]
  refine ⟨rfl, ?_⟩
  split_ifs with h
  · rw [abs_of_nonneg (sin_nonneg_of_nonneg_of_le_pi (by linarith) (by linarith))]
  · have : s < 0 := sin_neg_of_neg_of_neg_pi_lt (by linarith) (by linarith)
    rw [abs_of_neg this]; ring

/-- `p` of the general branch (only `cos(α/2) ≠ 0` is needed) -/
theorem p_spec' (a : ℝ) {α : ℝ} (hk : cos (α / 2) ≠ 0) :
    √(cos (α / 2)^2 + (a * sin (α / 2))^2) * cos (2 * atan2 (a * sin (α / 2)) (cos (α / 2)) / 2)
      = cos (α / 2) ∧
    √(cos (α / 2)^2 + (a * sin (α / 2))^2) * sin (2 * atan2 (a * sin (α / 2)) (cos (α / 2)) / 2)
      = a * sin (α / 2) := by
  have hRpos : 0 < √(cos (α / 2)^2 + (a * sin (α / 2))^2) := Real.sqrt_pos.mpr (by positivity)
  rw [mul_div_cancel_left₀ _ (two_ne_zero), cos_atan2 hk, sin_atan2]
  constructor <;> field_simp

theorem p_spec (a : ℝ) {α : ℝ} (hα : -π < α) (hα' : α < π) :
    √(cos (α / 2)^2 + (a * sin (α / 2))^2) * cos (2 * atan2 (a * sin (α / 2)) (cos (α / 2)) / 2)
      = cos (α / 2) ∧
    √(cos (α / 2)^2 + (a * sin (α / 2))^2) * sin (2 * atan2 (a * sin (α / 2)) (cos (α / 2)) / 2)
      = a * sin (α / 2) :=
  p_spec' a (cos_pos_of_mem_Ioo ⟨by linarith, by linarith⟩).ne'

theorem ptm_general {atol a b c α : ℝ} (hat : 0 < atol) (hn : a^2 + b^2 + c^2 = 1)
    (hα : -π < α) (hα' : α < π) (hnp : ¬ |α - π| < atol)
    (hcr : sin (α / 2)^2 * (b^2 + c^2) < atol^2 → sin (α / 2)^2 * (b^2 + c^2) = 0) :
    Good a b c α (ptm atol a b c α) := by
  obtain ⟨hc2, hs2⟩ := theta2_spec hn hα hα'
  obtain ⟨hpc, hps⟩ := p_spec a hα hα'
  unfold ptm
  rw [if_neg hnp]
  dsimp only
  set θ2 := csgn (2 * arccos (clamp (cos (α / 2) * √(1 + a * tan (α / 2) * (a * tan (α / 2)))))) α
  set p := 2 * atan2 (a * sin (α / 2)) (cos (α / 2))
  set s := sin (α / 2)
  set k := cos (α / 2)
  set R := √(k^2 + (a * s)^2)
  set ρ := √(b^2 + c^2) with hρ
  have hρ0 : 0 ≤ ρ := Real.sqrt_nonneg _
  have hρsq : ρ^2 = b^2 + c^2 := Real.sq_sqrt (by positivity)
  have hsk : s^2 + k^2 = 1 := sin_sq_add_cos_sq (α/2)
  rw [hs2]
  split_ifs with h
  · -- degenerate: sin(θ2/2) = 0
    have h0 : s^2 * (b^2 + c^2) = 0 := by
      apply hcr
      have : (s * ρ)^2 < atol^2 := by
        rw [← sq_abs (s * ρ)]
        exact pow_lt_pow_left₀ h (abs_nonneg _) two_ne_zero
      rw [mul_pow, hρsq] at this; exact this
    have hR1 : R = 1 := by
      have : k^2 + (a * s)^2 = 1 := by nlinarith
      show √(k^2 + (a * s)^2) = 1
      rw [this, Real.sqrt_one]
    rw [hR1, one_mul] at hpc hps
    have hbs : b * s = 0 := by
      have : (b * s)^2 = 0 := by nlinarith [sq_nonneg (c * s), sq_nonneg (b * s)]
      exact pow_eq_zero_iff two_ne_zero |>.mp this
    have hcs : c * s = 0 := by
      have : (c * s)^2 = 0 := by nlinarith [sq_nonneg (c * s), sq_nonneg (b * s)]
      exact pow_eq_zero_iff two_ne_zero |>.mp this
    refine ⟨?_, ?_, ?_, ?_⟩
    · show cos (0 / 2) * cos (p / 2) = k
      rw [hpc]; simp
    · show cos (0 / 2) * sin (p / 2) = a * s
      rw [hps]; simp
    · show sin (0 / 2) * cos (p / 2) = b * s
      rw [hbs]; simp
    · show sin (0 / 2) * sin (p / 2) = c * s
      rw [hcs]; simp
  · have hsρ : s * ρ ≠ 0 := by
      intro h0; apply h; rw [h0, abs_zero]; exact hat
    have hs0 : s ≠ 0 := left_ne_zero_of_mul hsρ
    have hρpos : 0 < ρ := lt_of_le_of_ne hρ0 (Ne.symm (right_ne_zero_of_mul hsρ))
    have e : b * s / (s * ρ) = b / ρ := by field_simp
    rw [e]
    obtain ⟨hm1, hm2⟩ := m_spec hρpos hρsq
    refine ⟨?_, ?_, ?_, ?_⟩
    · show cos (θ2 / 2) * cos (p / 2) = k
      rw [hc2]; exact hpc
    · show cos (θ2 / 2) * sin (p / 2) = a * s
      rw [hc2]; exact hps
    · show sin (θ2 / 2) * cos (_ / 2) = b * s
      rw [hs2, mul_assoc, hm1]; ring
    · show sin (θ2 / 2) * sin (_ / 2) = c * s
      rw [hs2, mul_assoc, hm2]; ring

theorem ptm_pi {atol a b c : ℝ} (hat : 0 < atol) (hn : a^2 + b^2 + c^2 = 1)
    (hca : |a| < atol → a = 0) (hcr : ¬ |a| < atol → b^2 + c^2 < atol^2 → b^2 + c^2 = 0) :
    Good a b c π (ptm atol a b c π) := by
  have ha1 : -1 ≤ a ∧ a ≤ 1 :=
    abs_le_of_sq_le_sq' (by nlinarith [sq_nonneg b, sq_nonneg c] : a^2 ≤ 1^2) zero_le_one
  have hb1 : -1 ≤ b ∧ b ≤ 1 :=
    abs_le_of_sq_le_sq' (by nlinarith [sq_nonneg a, sq_nonneg c] : b^2 ≤ 1^2) zero_le_one
  unfold ptm
  rw [if_pos (by simpa using hat)]
  have e : 2 * arccos a / 2 = arccos a := by ring
  rw [e, sin_arccos]
  unfold Good
  split_ifs with h1 h2
  · -- a = 0
    have ha := hca h1
    subst ha
    have hc : √(1 - b^2) = |c| := by
      have : 1 - b^2 = |c|^2 := by rw [sq_abs]; linarith
      rw [this, Real.sqrt_sq (abs_nonneg c)]
    simp only [cos_pi_div_two, sin_pi_div_two, zero_mul, mul_one, one_mul, true_and,
      cos_csgn_arccos hb1.1 hb1.2, sin_csgn_arccos, hc]
    split_ifs with h
    · exact abs_of_nonneg h
    · rw [abs_of_neg (not_le.mp h), neg_neg]
  · -- b = c = 0
    have h0 : b^2 + c^2 = 0 := by
      apply hcr h1
      have e1 : 1 - a^2 = b^2 + c^2 := by linarith
      rw [e1, abs_of_nonneg (Real.sqrt_nonneg _)] at h2
      have := pow_lt_pow_left₀ h2 (Real.sqrt_nonneg _) two_ne_zero
      rwa [Real.sq_sqrt (by positivity)] at this
    have hb : b = 0 := by nlinarith [sq_nonneg b, sq_nonneg c]
    have hc : c = 0 := by nlinarith [sq_nonneg b, sq_nonneg c]
    have e1 : 1 - a^2 = 0 := by linarith
    simp only [e, sin_arccos, cos_arccos ha1.1 ha1.2, e1, Real.sqrt_zero, cos_pi_div_two,
      sin_pi_div_two, hb, hc, mul_zero, mul_one, and_self]
  · have e1 : 1 - a^2 = b^2 + c^2 := by linarith
    rw [e1] at h2 ⊢
    have hρpos : 0 < √(b^2 + c^2) := by
      rcases (Real.sqrt_nonneg (b^2 + c^2)).lt_or_eq with h | h
      · exact h
      · exfalso; apply h2; rw [← h, abs_zero]; exact hat
    have hρsq : √(b^2 + c^2)^2 = b^2 + c^2 := Real.sq_sqrt (by positivity)
    obtain ⟨hm1, hm2⟩ := m_spec hρpos hρsq
    simp only [e, sin_arccos, cos_arccos ha1.1 ha1.2, e1, cos_pi_div_two,
      sin_pi_div_two, mul_zero, mul_one, hm1, hm2, and_self]

/-- components of the product in terms of `p = θ1 + θ3` and the code's `m` (before the handedness flip) -/
theorem abaProduct_pm (k : ABAKind) (p θ2 m θ1 θ3 : ℝ)
    (e1 : θ1 + θ3 = p) (e2 : θ1 - θ3 = if k.sinMNeg then -m else m) :
    (abaProduct k θ1 θ2 θ3).w = cos (θ2 / 2) * cos (p / 2) ∧
    Vec3.get ((abaProduct k θ1 θ2 θ3).x, (abaProduct k θ1 θ2 θ3).y, (abaProduct k θ1 θ2 θ3).z) k.ia
      = cos (θ2 / 2) * sin (p / 2) ∧
    Vec3.get ((abaProduct k θ1 θ2 θ3).x, (abaProduct k θ1 θ2 θ3).y, (abaProduct k θ1 θ2 θ3).z) k.ib
      = sin (θ2 / 2) * cos (m / 2) ∧
    Vec3.get ((abaProduct k θ1 θ2 θ3).x, (abaProduct k θ1 θ2 θ3).y, (abaProduct k θ1 θ2 θ3).z) k.ic
      = sin (θ2 / 2) * sin (m / 2) := by
  obtain ⟨c1, c2, c3, c4⟩ := abaProduct_components k θ1 θ2 θ3
  rw [e1] at c1 c2
  rw [e2] at c3 c4
  refine ⟨c1, c2, ?_, ?_⟩
  · rw [c3]; split_ifs <;> simp [neg_div]
  · rw [c4]; unfold hand; split_ifs <;> simp [neg_div]

theorem product_of_good (k : ABAKind) (n : ℝ × ℝ × ℝ) (α p θ2 m θ1 θ3 : ℝ)
    (h : Good (Vec3.get n k.ia) (Vec3.get n k.ib) (Vec3.get n k.ic) α (p, θ2, m))
    (e1 : θ1 + θ3 = p) (e2 : θ1 - θ3 = if k.sinMNeg then -m else m) :
    abaProduct k θ1 θ2 θ3 = Q.ofRot n α := by
  obtain ⟨g1, g2, g3, g4⟩ := h
  dsimp only at g1 g2 g3 g4
  obtain ⟨c1, c2, c3', c4'⟩ := abaProduct_pm k p θ2 m θ1 θ3 e1 e2
  rw [g1] at c1; rw [g2] at c2; rw [g3] at c3'; rw [g4] at c4'
  clear g1 g2 g3 g4 e1 e2
  cases k <;> simp only [ABAKind.ia, ABAKind.ib, ABAKind.ic, Vec3.get, Nat.reduceSub, Nat.sub_zero] at c1 c2 c3' c4' ⊢ <;>
    ext <;> simp only [Q.ofRot] <;> linarith

theorem finish_correct (k : ABAKind) (n : ℝ × ℝ × ℝ) (α : ℝ) (t : ℝ × ℝ × ℝ)
    (h : Good (Vec3.get n k.ia) (Vec3.get n k.ib) (Vec3.get n k.ic) α t) :
    abaProduct k (finish k t).1 (finish k t).2.1 (finish k t).2.2 = Q.ofRot n α := by
  refine product_of_good k n α t.1 t.2.1 t.2.2 _ _ h ?_ ?_ <;> simp only [finish] <;> ring

/-! ### 3. Main theorems -/

theorem unit_abc (k : ABAKind) {n : ℝ × ℝ × ℝ} (hn : n.1^2 + n.2.1^2 + n.2.2^2 = 1) :
    (Vec3.get n k.ia)^2 + (Vec3.get n k.ib)^2 + (Vec3.get n k.ic)^2 = 1 := by
  cases k <;> simp only [ABAKind.ia, ABAKind.ib, ABAKind.ic, Vec3.get, Nat.reduceSub, Nat.sub_zero] <;>
    linarith

theorem unit_bounds {a b c : ℝ} (h : a^2 + b^2 + c^2 = 1) : (-1 ≤ a ∧ a ≤ 1) ∧ (-1 ≤ b ∧ b ≤ 1) :=
  ⟨abs_le_of_sq_le_sq' (by nlinarith [sq_nonneg b, sq_nonneg c] : a^2 ≤ 1^2) zero_le_one,
   abs_le_of_sq_le_sq' (by nlinarith [sq_nonneg a, sq_nonneg c] : b^2 ≤ 1^2) zero_le_one⟩

/-- On a unit axis and an angle in `[-π+atol, π+atol]` the model's `abaAngles` is the closed form
`finish k (ptm …)`; in particular it does not raise. -/
theorem abaAngles_unit (atol : ℝ) (k : ABAKind) (α : ℝ) (n : ℝ × ℝ × ℝ)
    (hn : n.1^2 + n.2.1^2 + n.2.2^2 = 1) (h1 : -π + atol ≤ α) (h2 : α ≤ π + atol) :
    abaAngles atol k α n
      = .ok (finish k (ptm atol (Vec3.get n k.ia) (Vec3.get n k.ib) (Vec3.get n k.ic) α)) :=
  abaAngles_eq atol k α n h1 h2 (unit_bounds (unit_abc k hn)).1 (unit_bounds (unit_abc k hn)).2

/-- the range test: outside `[-π+atol, π+atol]` the model raises -/
theorem abaAngles_range {atol : ℝ} {k : ABAKind} {α : ℝ} {n : ℝ × ℝ × ℝ} {r : ℝ × ℝ × ℝ}
    (h : abaAngles atol k α n = .ok r) : -π + atol ≤ α ∧ α ≤ π + atol := by
  by_cases h1 : -π + atol ≤ α
  · by_cases h2 : α ≤ π + atol
    · exact ⟨h1, h2⟩
    · exfalso
      unfold abaAngles at h
      simp only [bind, Except.bind, pure, Except.pure, throw, throwThe, MonadExceptOf.throw, pi_real, h1, h2,
        decide_true, decide_false, Bool.true_and, Bool.not_false, if_true] at h
      cases h
  · exfalso
    unfold abaAngles at h
    simp only [bind, Except.bind, pure, Except.pure, throw, throwThe, MonadExceptOf.throw, pi_real, h1,
      decide_false, Bool.false_and, Bool.not_false, if_true] at h
    cases h

/-- **aba_total**: for every kind, every unit axis and every angle with `-π + atol ≤ α ≤ π + atol`
(any `atol`), `abaAngles` returns a triple — it never raises. -/
theorem aba_total (atol : ℝ) (k : ABAKind) (α : ℝ) (n : ℝ × ℝ × ℝ)
    (hn : n.1^2 + n.2.1^2 + n.2.2^2 = 1) (h1 : -π + atol ≤ α) (h2 : α ≤ π + atol) :
    ∃ r, abaAngles atol k α n = .ok r :=
  ⟨_, abaAngles_unit atol k α n hn h1 h2⟩

/-- **aba_general_sign** (general branch, all six kinds, sign `+`).
Hypotheses: `0 < atol`; `n` unit; `-π + atol ≤ α < π + atol` (the range of `normalizeAngle`; the closed
upper end `α = π + atol`, which the code's range test also admits, must be excluded — see
`aba_upper_edge_wrong`); the `α ≈ π` test does not fire; crispness of the inner test
`|sin(θ2/2)| < atol`, phrased on the inputs (`sin(θ2/2)² = sin(α/2)² (b² + c²)` by `theta2_spec`). -/
theorem aba_general_sign (atol : ℝ) (k : ABAKind) (α : ℝ) (n : ℝ × ℝ × ℝ) (θ1 θ2 θ3 : ℝ)
    (hat : 0 < atol) (hn : n.1^2 + n.2.1^2 + n.2.2^2 = 1)
    (h1 : -π + atol ≤ α) (h2 : α < π + atol) (hnp : ¬ |α - π| < atol)
    (hcr : sin (α / 2)^2 * ((Vec3.get n k.ib)^2 + (Vec3.get n k.ic)^2) < atol^2 →
           sin (α / 2)^2 * ((Vec3.get n k.ib)^2 + (Vec3.get n k.ic)^2) = 0)
    (h : abaAngles atol k α n = .ok (θ1, θ2, θ3)) :
    abaProduct k θ1 θ2 θ3 = Q.ofRot n α := by
  rw [abaAngles_unit atol k α n hn h1 h2.le] at h
  have hα' : α < π := by
    by_contra hc
    apply hnp
    rw [abs_of_nonneg (by linarith)]; linarith
  have hg := ptm_general hat (unit_abc k hn) (by linarith) hα' hnp hcr
  have := finish_correct k n α _ hg
  injection h with h
  rw [h] at this
  exact this

/-- **aba_general_crisp**: the `±` form of `aba_general_sign`. -/
theorem aba_general_crisp (atol : ℝ) (k : ABAKind) (α : ℝ) (n : ℝ × ℝ × ℝ) (θ1 θ2 θ3 : ℝ)
    (hat : 0 < atol) (hn : n.1^2 + n.2.1^2 + n.2.2^2 = 1)
    (h1 : -π + atol ≤ α) (h2 : α < π + atol) (hnp : ¬ |α - π| < atol)
    (hcr : sin (α / 2)^2 * ((Vec3.get n k.ib)^2 + (Vec3.get n k.ic)^2) < atol^2 →
           sin (α / 2)^2 * ((Vec3.get n k.ib)^2 + (Vec3.get n k.ic)^2) = 0)
    (h : abaAngles atol k α n = .ok (θ1, θ2, θ3)) :
    abaProduct k θ1 θ2 θ3 = Q.ofRot n α ∨ abaProduct k θ1 θ2 θ3 = -(Q.ofRot n α) :=
  .inl (aba_general_sign atol k α n θ1 θ2 θ3 hat hn h1 h2 hnp hcr h)

/-- **aba_pi_sign** (`α ≈ π` branches under the crisp hypothesis `α = π`, all six kinds, sign `+`).
Crisp hypotheses: `|a| < atol → a = 0`, and for the inner test `|sin(θ2/2)| < atol` (only made when
`a ≠ 0`; there `sin(θ2/2)² = 1 - a² = b² + c²`): `b² + c² < atol² → b² + c² = 0`. -/
theorem aba_pi_sign (atol : ℝ) (k : ABAKind) (n : ℝ × ℝ × ℝ) (θ1 θ2 θ3 : ℝ)
    (hat : 0 < atol) (hn : n.1^2 + n.2.1^2 + n.2.2^2 = 1)
    (hca : |Vec3.get n k.ia| < atol → Vec3.get n k.ia = 0)
    (hcr : ¬ |Vec3.get n k.ia| < atol →
           (Vec3.get n k.ib)^2 + (Vec3.get n k.ic)^2 < atol^2 →
           (Vec3.get n k.ib)^2 + (Vec3.get n k.ic)^2 = 0)
    (h : abaAngles atol k π n = .ok (θ1, θ2, θ3)) :
    abaProduct k θ1 θ2 θ3 = Q.ofRot n π := by
  rw [abaAngles_unit atol k π n hn (abaAngles_range h).1 (abaAngles_range h).2] at h
  have hg := ptm_pi hat (unit_abc k hn) hca hcr
  have := finish_correct k n π _ hg
  injection h with h
  rw [h] at this
  exact this

/-- **aba_pi_crisp**: the `±` form of `aba_pi_sign`. -/
theorem aba_pi_crisp (atol : ℝ) (k : ABAKind) (n : ℝ × ℝ × ℝ) (θ1 θ2 θ3 : ℝ)
    (hat : 0 < atol) (hn : n.1^2 + n.2.1^2 + n.2.2^2 = 1)
    (hca : |Vec3.get n k.ia| < atol → Vec3.get n k.ia = 0)
    (hcr : ¬ |Vec3.get n k.ia| < atol →
           (Vec3.get n k.ib)^2 + (Vec3.get n k.ic)^2 < atol^2 →
           (Vec3.get n k.ib)^2 + (Vec3.get n k.ic)^2 = 0)
    (h : abaAngles atol k π n = .ok (θ1, θ2, θ3)) :
    abaProduct k θ1 θ2 θ3 = Q.ofRot n π ∨ abaProduct k θ1 θ2 θ3 = -(Q.ofRot n π) :=
  .inl (aba_pi_sign atol k n θ1 θ2 θ3 hat hn hca hcr h)

/-- **aba_crisp**: all branches together, with existence.  For every kind, unit axis and angle in
`[-π+atol, π+atol)` (what `normalizeAngle` produces), under crisp hypotheses for the three tolerance tests
the code makes (`α ≈ π`; `a ≈ 0` in the `α ≈ π` branch; `sin(θ2/2) ≈ 0` wherever it is tested),
`abaAngles` returns angles whose A-B-A product is *exactly* the quaternion of the input rotation
(sign `+`, not only up to sign). -/
theorem aba_crisp (atol : ℝ) (k : ABAKind) (α : ℝ) (n : ℝ × ℝ × ℝ)
    (hat : 0 < atol) (hn : n.1^2 + n.2.1^2 + n.2.2^2 = 1)
    (h1 : -π + atol ≤ α) (h2 : α < π + atol)
    (hcπ : |α - π| < atol → α = π)
    (hca : |α - π| < atol → |Vec3.get n k.ia| < atol → Vec3.get n k.ia = 0)
    (hcs : ¬ (|α - π| < atol ∧ |Vec3.get n k.ia| < atol) →
           sin (α / 2)^2 * ((Vec3.get n k.ib)^2 + (Vec3.get n k.ic)^2) < atol^2 →
           sin (α / 2)^2 * ((Vec3.get n k.ib)^2 + (Vec3.get n k.ic)^2) = 0) :
    ∃ θ1 θ2 θ3, abaAngles atol k α n = .ok (θ1, θ2, θ3) ∧ abaProduct k θ1 θ2 θ3 = Q.ofRot n α := by
  obtain ⟨⟨θ1, θ2, θ3⟩, h⟩ := aba_total atol k α n hn h1 h2.le
  refine ⟨θ1, θ2, θ3, h, ?_⟩
  by_cases hp : |α - π| < atol
  · have hα := hcπ hp
    subst hα
    refine aba_pi_sign atol k n θ1 θ2 θ3 hat hn (hca hp) (fun hna => ?_) h
    have := hcs (fun hh => hna hh.2)
    simpa [sin_pi_div_two] using this
  · exact aba_general_sign atol k α n θ1 θ2 θ3 hat hn h1 h2 hp (hcs (fun hh => hp hh.1)) h

/-! ### 3b. Finding: the closed upper end `α = π + atol` of the code's range test

The range test admits `α = π + atol`, and the `α ≈ π` test (`|α - π| < atol`, strict) does not fire there,
so the general branch runs with `cos(α/2) < 0`.  Its formulas then produce the rotation with scalar part and
`ia`-component *negated*, which is neither `+` nor `-` the requested rotation (unless `sin(θ2/2) = 0`).
`normalizeAngle` never returns `π + atol` (its range is `[-π+atol, π+atol)`), so the point is unreachable
through normalised angles; it only shows that the hypothesis `α < π + atol` of `aba_general_sign`
cannot be weakened to the `≤` of the code's range test. -/

theorem theta2_edge {a b c α : ℝ} (hn : a^2 + b^2 + c^2 = 1) (hα : π < α) (hα' : α < 2 * π) :
    cos (csgn (2 * arccos (clamp (cos (α / 2) * √(1 + a * tan (α / 2) * (a * tan (α / 2)))))) α / 2)
      = -√(cos (α / 2)^2 + (a * sin (α / 2))^2) ∧
    sin (csgn (2 * arccos (clamp (cos (α / 2) * √(1 + a * tan (α / 2) * (a * tan (α / 2)))))) α / 2)
      = sin (α / 2) * √(b^2 + c^2) := by
  set s := sin (α/2) with hs
  set k := cos (α/2) with hk
  have hkneg : k < 0 := cos_neg_of_pi_div_two_lt_of_lt (by linarith) (by linarith)
  have hk0 : k ≠ 0 := hkneg.ne
  have hspos : 0 < s := sin_pos_of_pos_of_lt_pi (by linarith [Real.pi_pos]) (by linarith)
  have hsk : s^2 + k^2 = 1 := sin_sq_add_cos_sq (α/2)
  set R := √(k^2 + (a*s)^2) with hR
  have hRpos : 0 < R := Real.sqrt_pos.mpr (by positivity)
  have hRsq : R^2 = k^2 + (a*s)^2 := Real.sq_sqrt (by positivity)
  have hr : k * √(1 + a * tan (α / 2) * (a * tan (α / 2))) = -R := by
    rw [tan_eq_sin_div_cos, ← hs, ← hk]
    have : (1 + a * (s / k) * (a * (s / k))) = (k^2 + (a*s)^2) / (-k)^2 := by
      have hk0 : k ≠ 0 := hkneg.ne
      field_simp
    rw [this, Real.sqrt_div (by positivity), Real.sqrt_sq (by linarith), hR]
    have hk0 : k ≠ 0 := hkneg.ne
    field_simp
  have hRle : R ≤ 1 := by
    have h0 : 0 ≤ s^2 * (b^2 + c^2) := by positivity
    have : R^2 ≤ 1 := by
      rw [hRsq]; nlinarith
    nlinarith
  set ρ := √(b^2 + c^2) with hρ
  have hρ0 : 0 ≤ ρ := Real.sqrt_nonneg _
  have hρsq : ρ^2 = b^2 + c^2 := Real.sq_sqrt (by positivity)
  have h1R : √(1 - (-R)^2) = s * ρ := by
    have : 1 - (-R)^2 = (s * ρ)^2 := by
      rw [mul_pow, hρsq, neg_sq, hRsq]; nlinarith
    rw [this, Real.sqrt_sq (by positivity)]
  rw [hr, clamp_of_mem (by linarith) (by linarith), cos_csgn_arccos (by linarith) (by linarith),
    sin_csgn_arccos, h1R, if_pos (by linarith [Real.pi_pos])]
  exact ⟨rfl, rfl⟩

/-- at `α = π + atol` the general branch yields scalar part and `ia`-component with the wrong sign -/
theorem ptm_edge {atol a b c : ℝ} (hat : 0 < atol) (hat' : atol < π) (hn : a^2 + b^2 + c^2 = 1)
    (hnd : atol^2 ≤ sin ((π + atol) / 2)^2 * (b^2 + c^2)) :
    Good a (-b) (-c) (π + atol - 2 * π) (ptm atol a b c (π + atol)) := by
  have hα : π < π + atol := by linarith
  have hα' : π + atol < 2 * π := by linarith
  obtain ⟨hc2, hs2⟩ := theta2_edge hn hα hα'
  have hkneg : cos ((π + atol) / 2) < 0 := cos_neg_of_pi_div_two_lt_of_lt (by linarith) (by linarith)
  obtain ⟨hpc, hps⟩ := p_spec' a hkneg.ne
  have hnp : ¬ |π + atol - π| < atol := by
    rw [add_sub_cancel_left, abs_of_pos hat]; exact lt_irrefl _
  have ec : cos ((π + atol - 2 * π) / 2) = -cos ((π + atol) / 2) := by
    rw [show (π + atol - 2 * π) / 2 = (π + atol) / 2 - π by ring, cos_sub_pi]
  have es : sin ((π + atol - 2 * π) / 2) = -sin ((π + atol) / 2) := by
    rw [show (π + atol - 2 * π) / 2 = (π + atol) / 2 - π by ring, sin_sub_pi]
  unfold ptm
  rw [if_neg hnp]
  dsimp only
  unfold Good
  rw [ec, es]
  set α := π + atol
  set θ2 := csgn (2 * arccos (clamp (cos (α / 2) * √(1 + a * tan (α / 2) * (a * tan (α / 2)))))) α
  set p := 2 * atan2 (a * sin (α / 2)) (cos (α / 2))
  set s := sin (α / 2)
  set k := cos (α / 2)
  set R := √(k^2 + (a * s)^2)
  set ρ := √(b^2 + c^2) with hρ
  have hρ0 : 0 ≤ ρ := Real.sqrt_nonneg _
  have hρsq : ρ^2 = b^2 + c^2 := Real.sq_sqrt (by positivity)
  rw [hs2]
  have hsρ : atol ≤ |s * ρ| := by
    have : atol^2 ≤ |s * ρ|^2 := by rw [sq_abs, mul_pow, hρsq]; exact hnd
    exact (abs_le_of_sq_le_sq' this (abs_nonneg _)).2
  rw [if_neg (not_lt.mpr hsρ)]
  have hsρ0 : s * ρ ≠ 0 := by
    intro h0; rw [h0, abs_zero] at hsρ; linarith
  have hs0 : s ≠ 0 := left_ne_zero_of_mul hsρ0
  have hρpos : 0 < ρ := lt_of_le_of_ne hρ0 (Ne.symm (right_ne_zero_of_mul hsρ0))
  have e : b * s / (s * ρ) = b / ρ := by field_simp
  rw [e]
  obtain ⟨hm1, hm2⟩ := m_spec hρpos hρsq
  refine ⟨?_, ?_, ?_, ?_⟩
  · show cos (θ2 / 2) * cos (p / 2) = -k
    rw [hc2, neg_mul, hpc]
  · show cos (θ2 / 2) * sin (p / 2) = a * -s
    rw [hc2, neg_mul, hps]; ring
  · show sin (θ2 / 2) * cos (_ / 2) = -b * -s
    rw [hs2, mul_assoc, hm1]; ring
  · show sin (θ2 / 2) * sin (_ / 2) = -c * -s
    rw [hs2, mul_assoc, hm2]; ring

theorem Q.ofRot_get (n : ℝ × ℝ × ℝ) (α : ℝ) (i : Nat) :
    Vec3.get ((Q.ofRot n α).x, (Q.ofRot n α).y, (Q.ofRot n α).z) i = sin (α / 2) * Vec3.get n i := by
  unfold Vec3.get; split <;> rfl

theorem Q.neg_get (q : Q) (i : Nat) :
    Vec3.get ((-q).x, (-q).y, (-q).z) i = -Vec3.get (q.x, q.y, q.z) i := by
  unfold Vec3.get; split <;> rfl

/-- **aba_upper_edge_wrong** (finding).  At `α = π + atol` (accepted by the range test, not caught by the
`α ≈ π` test) with a non-degenerate inner test, the angles returned by `abaAngles` compose to a rotation that
is neither `+` nor `-` the requested one — for every kind and every unit axis. -/
theorem aba_upper_edge_wrong (atol : ℝ) (k : ABAKind) (n : ℝ × ℝ × ℝ) (θ1 θ2 θ3 : ℝ)
    (hat : 0 < atol) (hat' : atol < π) (hn : n.1^2 + n.2.1^2 + n.2.2^2 = 1)
    (hnd : atol^2 ≤ sin ((π + atol) / 2)^2 * ((Vec3.get n k.ib)^2 + (Vec3.get n k.ic)^2))
    (h : abaAngles atol k (π + atol) n = .ok (θ1, θ2, θ3)) :
    abaProduct k θ1 θ2 θ3 ≠ Q.ofRot n (π + atol) ∧ abaProduct k θ1 θ2 θ3 ≠ -(Q.ofRot n (π + atol)) := by
  rw [abaAngles_unit atol k (π + atol) n hn (by linarith [Real.pi_pos]) le_rfl] at h
  obtain ⟨g1, g2, g3, g4⟩ := ptm_edge hat hat' (unit_abc k hn) hnd
  set t := ptm atol (Vec3.get n k.ia) (Vec3.get n k.ib) (Vec3.get n k.ic) (π + atol)
  injection h with h
  have hθ1 : θ1 = (finish k t).1 := by rw [h]
  have hθ2 : θ2 = (finish k t).2.1 := by rw [h]
  have hθ3 : θ3 = (finish k t).2.2 := by rw [h]
  obtain ⟨c1, c2, c3, c4⟩ := abaProduct_pm k t.1 θ2 t.2.2 θ1 θ3
    (by rw [hθ1, hθ3]; simp only [finish]; ring) (by rw [hθ1, hθ3]; simp only [finish]; ring)
  have hθ2' : θ2 = t.2.1 := hθ2
  rw [hθ2'] at c1 c2 c3 c4
  rw [g1] at c1; rw [g3] at c3; rw [g4] at c4
  have ec : cos ((π + atol - 2 * π) / 2) = -cos ((π + atol) / 2) := by
    rw [show (π + atol - 2 * π) / 2 = (π + atol) / 2 - π by ring, cos_sub_pi]
  have es : sin ((π + atol - 2 * π) / 2) = -sin ((π + atol) / 2) := by
    rw [show (π + atol - 2 * π) / 2 = (π + atol) / 2 - π by ring, sin_sub_pi]
  rw [ec] at c1; rw [es] at c3 c4
  have hkneg : cos ((π + atol) / 2) < 0 := cos_neg_of_pi_div_two_lt_of_lt (by linarith) (by linarith)
  rw [← hθ2'] at c1 c3 c4
  constructor
  · intro heq
    rw [heq] at c1
    have : cos ((π + atol) / 2) = -cos ((π + atol) / 2) := c1
    linarith
  · intro heq
    rw [heq, Q.neg_get, Q.ofRot_get] at c3 c4
    have hb : sin ((π + atol) / 2) * Vec3.get n k.ib = 0 := by linarith
    have hc : sin ((π + atol) / 2) * Vec3.get n k.ic = 0 := by linarith
    have : sin ((π + atol) / 2)^2 * ((Vec3.get n k.ib)^2 + (Vec3.get n k.ic)^2) = 0 := by
      have e : sin ((π + atol) / 2)^2 * ((Vec3.get n k.ib)^2 + (Vec3.get n k.ic)^2)
          = (sin ((π + atol) / 2) * Vec3.get n k.ib)^2 + (sin ((π + atol) / 2) * Vec3.get n k.ic)^2 := by ring
      rw [e, hb, hc]; norm_num
    rw [this] at hnd
    nlinarith

/-! ### 4. Non-vacuity: each theorem instantiated on each branch -/

/-- general branch, generic point: `n = (-1,-1,1)/√3`, `α = 1`, ZXZ — the input on which the unrepaired
code was wrong (defect D1). -/
example : ∃ θ1 θ2 θ3, abaAngles (1/10^7) .ZXZ 1 (-1/√3, -1/√3, 1/√3) = .ok (θ1, θ2, θ3) ∧
    abaProduct .ZXZ θ1 θ2 θ3 = Q.ofRot (-1/√3, -1/√3, 1/√3) 1 := by
  have h3 : (√3 : ℝ)^2 = 3 := Real.sq_sqrt (by norm_num)
  have hn : (-1/√3 : ℝ)^2 + (-1/√3)^2 + (1/√3)^2 = 1 := by
    rw [div_pow, div_pow, h3]; norm_num
  have hp := Real.two_le_pi
  obtain ⟨⟨θ1, θ2, θ3⟩, h⟩ := aba_total (1/10^7) .ZXZ 1 (-1/√3, -1/√3, 1/√3) hn (by linarith) (by linarith)
  refine ⟨θ1, θ2, θ3, h, aba_general_sign _ _ _ _ _ _ _ (by norm_num) hn (by linarith) (by linarith) ?_ ?_ h⟩
  · rw [abs_of_neg (by linarith)]; linarith
  · intro hlt; exfalso
    have hs : (1/2 : ℝ) - (1/2)^3 / 6 < sin (1/2) := Real.sin_gt_sub_cube (by norm_num)
    have hs' : (23/48 : ℝ) < sin (1/2) := by linarith
    have hs2 : (23/48 : ℝ)^2 < sin (1/2)^2 := pow_lt_pow_left₀ hs' (by norm_num) two_ne_zero
    simp only [ABAKind.ib, ABAKind.ic, ABAKind.ia, Vec3.get, Nat.reduceSub, Nat.sub_zero] at hlt
    rw [div_pow, h3] at hlt
    nlinarith

/-- general branch, degenerate inner test (`b = c = 0`): `Rz(1)` through ZYZ. -/
example : ∃ θ1 θ2 θ3, abaAngles (1/10^7) .ZYZ 1 (0, 0, 1) = .ok (θ1, θ2, θ3) ∧
    abaProduct .ZYZ θ1 θ2 θ3 = Q.ofRot (0, 0, 1) 1 := by
  have hn : (0 : ℝ)^2 + (0 : ℝ)^2 + (1 : ℝ)^2 = 1 := by norm_num
  have hp := Real.two_le_pi
  obtain ⟨⟨θ1, θ2, θ3⟩, h⟩ := aba_total (1/10^7) .ZYZ 1 (0, 0, 1) hn (by linarith) (by linarith)
  refine ⟨θ1, θ2, θ3, h, aba_general_sign _ _ _ _ _ _ _ (by norm_num) hn (by linarith) (by linarith) ?_ ?_ h⟩
  · rw [abs_of_neg (by linarith)]; linarith
  · intro _
    simp [ABAKind.ib, ABAKind.ic, ABAKind.ia, Vec3.get]

/-- `α = π`, `a = 0`, third component negative (defect D2 of the unrepaired code): ZYZ on
`n = (-3/5, 4/5, 0)`. -/
example : ∃ θ1 θ2 θ3, abaAngles (1/10^7) .ZYZ π (-3/5, 4/5, 0) = .ok (θ1, θ2, θ3) ∧
    abaProduct .ZYZ θ1 θ2 θ3 = Q.ofRot (-3/5, 4/5, 0) π := by
  have hn : (-3/5 : ℝ)^2 + (4/5 : ℝ)^2 + (0 : ℝ)^2 = 1 := by norm_num
  have hp := Real.two_le_pi
  obtain ⟨⟨θ1, θ2, θ3⟩, h⟩ := aba_total (1/10^7) .ZYZ π (-3/5, 4/5, 0) hn (by linarith) (by linarith)
  refine ⟨θ1, θ2, θ3, h, aba_pi_sign _ _ _ _ _ _ (by norm_num) hn ?_ ?_ h⟩
  · intro _; simp [ABAKind.ia, Vec3.get]
  · intro hna; exfalso; apply hna
    simp [ABAKind.ia, Vec3.get]

/-- `α = π`, `a = 1`, `b = c = 0`: `Rz(π)` through ZYZ. -/
example : ∃ θ1 θ2 θ3, abaAngles (1/10^7) .ZYZ π (0, 0, 1) = .ok (θ1, θ2, θ3) ∧
    abaProduct .ZYZ θ1 θ2 θ3 = Q.ofRot (0, 0, 1) π := by
  have hn : (0 : ℝ)^2 + (0 : ℝ)^2 + (1 : ℝ)^2 = 1 := by norm_num
  have hp := Real.two_le_pi
  obtain ⟨⟨θ1, θ2, θ3⟩, h⟩ := aba_total (1/10^7) .ZYZ π (0, 0, 1) hn (by linarith) (by linarith)
  refine ⟨θ1, θ2, θ3, h, aba_pi_sign _ _ _ _ _ _ (by norm_num) hn ?_ ?_ h⟩
  · intro hlt; exfalso
    simp only [ABAKind.ia, Vec3.get, abs_one] at hlt
    norm_num at hlt
  · intro _ _
    simp [ABAKind.ib, ABAKind.ic, ABAKind.ia, Vec3.get]

/-- `α = π`, generic axis in the octant `(-,-,+)`: ZXZ on `n = (-2/3, -1/3, 2/3)`. -/
example : ∃ θ1 θ2 θ3, abaAngles (1/10^7) .ZXZ π (-2/3, -1/3, 2/3) = .ok (θ1, θ2, θ3) ∧
    abaProduct .ZXZ θ1 θ2 θ3 = Q.ofRot (-2/3, -1/3, 2/3) π := by
  have hn : (-2/3 : ℝ)^2 + (-1/3 : ℝ)^2 + (2/3 : ℝ)^2 = 1 := by norm_num
  have hp := Real.two_le_pi
  obtain ⟨⟨θ1, θ2, θ3⟩, h⟩ := aba_total (1/10^7) .ZXZ π (-2/3, -1/3, 2/3) hn (by linarith) (by linarith)
  refine ⟨θ1, θ2, θ3, h, aba_pi_sign _ _ _ _ _ _ (by norm_num) hn ?_ ?_ h⟩
  · intro hlt; exfalso
    simp only [ABAKind.ia, Vec3.get] at hlt
    rw [abs_of_pos (by norm_num)] at hlt
    norm_num at hlt
  · intro _ hlt; exfalso
    simp only [ABAKind.ib, ABAKind.ic, ABAKind.ia, Vec3.get, Nat.reduceSub, Nat.sub_zero] at hlt
    norm_num at hlt

/-- `aba_crisp` on a negative angle, XYX, generic axis. -/
example : ∃ θ1 θ2 θ3, abaAngles (1/10^7) .XYX (-1) (2/3, -1/3, -2/3) = .ok (θ1, θ2, θ3) ∧
    abaProduct .XYX θ1 θ2 θ3 = Q.ofRot (2/3, -1/3, -2/3) (-1) := by
  have hn : (2/3 : ℝ)^2 + (-1/3 : ℝ)^2 + (-2/3 : ℝ)^2 = 1 := by norm_num
  have hp := Real.two_le_pi
  have hnp : ¬ |(-1 : ℝ) - π| < 1/10^7 := by
    rw [abs_of_neg (by linarith)]; intro h; linarith
  refine aba_crisp _ _ _ _ (by norm_num) hn (by linarith) (by linarith) (fun h => absurd h hnp)
    (fun h => absurd h hnp) ?_
  intro _ hlt; exfalso
  have hs : (1/2 : ℝ) - (1/2)^3 / 6 < sin (1/2) := Real.sin_gt_sub_cube (by norm_num)
  have hs' : (23/48 : ℝ) < sin (1/2) := by linarith
  have hs2 : (23/48 : ℝ)^2 < sin (1/2)^2 := pow_lt_pow_left₀ hs' (by norm_num) two_ne_zero
  simp only [ABAKind.ib, ABAKind.ic, ABAKind.ia, Vec3.get, Nat.reduceSub, Nat.sub_zero] at hlt
  have e : (-1 : ℝ) / 2 = -(1/2) := by norm_num
  rw [e, sin_neg, neg_sq] at hlt
  nlinarith

/-- `aba_crisp` at the closed lower end `α = -π + atol` of the range (which `normalizeAngle` can return),
XZX, generic axis. -/
example : ∃ θ1 θ2 θ3, abaAngles (1/10^7) .XZX (-π + 1/10^7) (2/3, -1/3, -2/3) = .ok (θ1, θ2, θ3) ∧
    abaProduct .XZX θ1 θ2 θ3 = Q.ofRot (2/3, -1/3, -2/3) (-π + 1/10^7) := by
  have hn : (2/3 : ℝ)^2 + (-1/3 : ℝ)^2 + (-2/3 : ℝ)^2 = 1 := by norm_num
  have hp := Real.two_le_pi
  have hnp : ¬ |(-π + 1/10^7 : ℝ) - π| < 1/10^7 := by
    rw [abs_of_neg (by linarith)]; intro h; linarith
  refine aba_crisp _ _ _ _ (by norm_num) hn le_rfl (by linarith) (fun h => absurd h hnp)
    (fun h => absurd h hnp) ?_
  intro _ hlt; exfalso
  have e : (-π + 1/10^7 : ℝ) / 2 = (1/10^7) / 2 - π / 2 := by ring
  rw [e, sin_sub_pi_div_two, neg_sq] at hlt
  have hc := Real.one_sub_sq_div_two_le_cos (x := (1/10^7 : ℝ) / 2)
  have hc' : (1/2 : ℝ) ≤ cos ((1/10^7) / 2) := by
    refine le_trans ?_ hc; norm_num
  have hc2 : (1/2 : ℝ)^2 ≤ cos ((1/10^7) / 2)^2 := pow_le_pow_left₀ (by norm_num) hc' 2
  simp only [ABAKind.ib, ABAKind.ic, ABAKind.ia, Vec3.get, Nat.reduceSub, Nat.sub_zero] at hlt
  nlinarith

/-- `aba_upper_edge_wrong` is not vacuous: ZYZ at `α = π + atol` on a generic axis returns angles, and they
are wrong. -/
example : ∃ θ1 θ2 θ3, abaAngles (1/10^7) .ZYZ (π + 1/10^7) (2/3, -1/3, -2/3) = .ok (θ1, θ2, θ3) ∧
    abaProduct .ZYZ θ1 θ2 θ3 ≠ Q.ofRot (2/3, -1/3, -2/3) (π + 1/10^7) ∧
    abaProduct .ZYZ θ1 θ2 θ3 ≠ -(Q.ofRot (2/3, -1/3, -2/3) (π + 1/10^7)) := by
  have hn : (2/3 : ℝ)^2 + (-1/3 : ℝ)^2 + (-2/3 : ℝ)^2 = 1 := by norm_num
  have hp := Real.two_le_pi
  obtain ⟨⟨θ1, θ2, θ3⟩, h⟩ :=
    aba_total (1/10^7) .ZYZ (π + 1/10^7) (2/3, -1/3, -2/3) hn (by linarith) le_rfl
  refine ⟨θ1, θ2, θ3, h, aba_upper_edge_wrong _ _ _ _ _ _ (by norm_num) (by linarith) hn ?_ h⟩
  have e : (π + 1/10^7 : ℝ) / 2 = (1/10^7) / 2 + π / 2 := by ring
  rw [e, sin_add_pi_div_two]
  have hc := Real.one_sub_sq_div_two_le_cos (x := (1/10^7 : ℝ) / 2)
  have hc' : (1/2 : ℝ) ≤ cos ((1/10^7) / 2) := by
    refine le_trans ?_ hc; norm_num
  have hc2 : (1/2 : ℝ)^2 ≤ cos ((1/10^7) / 2)^2 := pow_le_pow_left₀ (by norm_num) hc' 2
  simp only [ABAKind.ib, ABAKind.ic, ABAKind.ia, Vec3.get, Nat.reduceSub]
  nlinarith

end OSq.ABA

#print axioms OSq.ABA.abaProduct_components
#print axioms OSq.ABA.aba_total
#print axioms OSq.ABA.aba_general_sign
#print axioms OSq.ABA.aba_general_crisp
#print axioms OSq.ABA.aba_pi_sign
#print axioms OSq.ABA.aba_pi_crisp
#print axioms OSq.ABA.aba_crisp
#print axioms OSq.ABA.aba_upper_edge_wrong
